import CookModel.Lemmas.ExtLawsAnalysis
import CookModel.Lemmas.ClosingFold
import CookModel.Lemmas.ExtLawsStep
/-
  C02, analysis level, full clause: every gate of the analysis pass (`RecipeCollector`) is
  unreachable or irrelevant on events that satisfy a syntactic predicate (`evCoreX`), so the whole
  result of `parse_events` / `parse` is the same under any two extension sets.

  Gates of the analysis and the predicate that makes each irrelevant:
  * MODES (`metadata`): the `>>` key is not `[…]`                                  (`bracketedKey`)
  * INLINE_QUANTITIES (`in_step` text): the model's own finder finds nothing in the text under
    the converter, and the text is not empty                                        (`textCoreX`)
  * ADVANCED_UNITS (`ingredient`, unit compatibility of a reference with its definition):
    the ingredient has no `&` (REF) modifier, or no quantity; with no `[mode]`/`[duplicate]` key
    processed the collector stays in the default modes, where only `&` makes a reference
                                                                                    (`ingrCoreX`)
  * ADVANCED_UNITS (`timer`): the timer's value is not text and its unit, if any, is a time
    unit of the converter                                                            (`timerCoreX`)
  The other five flags are never read by the analysis.
-/
set_option linter.unusedSectionVars false
set_option linter.unusedSimpArgs false
set_option linter.unusedVariables false
namespace Cook

variable {α : Type} [Arith α]

/-! ### INLINE_QUANTITIES -/

/-- the text is not empty and the inline-quantity finder finds nothing in it (under the converter
    of `env`; the extension set of `env` is not consulted) -/
def textCoreX (α : Type) [Arith α] (env : Env) (t : Text) : Bool :=
  !t.text.isEmpty && (findInlineQuantity (α := α) env (t.text.length + 1) [] t.text).isNone

theorem inlineLoop_none (env : Env) (fuel : Nat) (hay : Str) (items : List Item)
    (iq : Array (Quantity (Value α)))
    (h : findInlineQuantity (α := α) env (hay.length + 1) [] hay = none) (hne : hay ≠ []) :
    inlineLoop env (fuel + 1) hay items iq = (items ++ [.text hay], iq) := by
  unfold inlineLoop
  rw [h]
  have : hay.isEmpty = false := by cases hay <;> simp_all
  simp only [this, Bool.false_eq_true, if_false]

/-- the old premise (no ASCII digit) is a special case -/
theorem textCoreX_of_textCore (env : Env) (t : Text) (h : textCore t = true) : textCoreX α env t = true := by
  unfold textCore at h
  unfold textCoreX
  simp only [Bool.and_eq_true, Bool.not_eq_true'] at h ⊢
  refine ⟨h.1, ?_⟩
  rw [findInlineQuantity_no_digit env _ _ _ h.2]
  rfl

theorem findInlineQuantity_withExt (env : Env) (e : Ext) (fuel : Nat) (pre rest : Str) :
    findInlineQuantity (α := α) (env.withExt e) fuel pre rest = findInlineQuantity env fuel pre rest := by
  induction fuel generalizing pre rest with
  | zero => rfl
  | succ fuel ih =>
    unfold findInlineQuantity
    simp only [Env.withExt_cs, ih]
    rfl

theorem inStepTextStep_extX (env : Env) (e : Ext) (t : Text) (items : List Item)
    (h : textCoreX α env t = true) :
    inStepTextStep (α := α) (env.withExt e) t items = inStepTextStep env t items := by
  unfold textCoreX at h
  simp only [Bool.and_eq_true, Bool.not_eq_true', List.isEmpty_eq_false_iff, Option.isNone_iff_eq_none] at h
  have key : ∀ env' : Env, env'.cs = env.cs →
      findInlineQuantity (α := α) env' (t.text.length + 1) [] t.text = none →
      ∀ s : Col α, inStepTextStep (α := α) env' t items s =
      (if s.defineMode == .components then
        (if t.text.any env.cs.alnum then awarn "text-in-components-mode" [t.span] else pure ()) s
       else ((), { s with block := some (BlockBuf.step (items ++ [Item.text t.text])) })) := by
    intro env' hcs hfind s
    unfold inStepTextStep
    rw [A_bind, A_get]
    dsimp only
    by_cases hd : (s.defineMode == DefineMode.components) = true
    · simp only [hd, if_true, hcs]
    · simp only [hd, Bool.false_eq_true, if_false]
      by_cases hx : env'.ext.has Gen.EXT_INLINE_QUANTITIES = true
      · simp only [hx, if_true, inlineLoop_none env' _ _ _ _ hfind h.1]
        rfl
      · simp only [hx, Bool.false_eq_true, if_false]
        rfl
  funext s
  exact (key (env.withExt e) rfl (by rw [findInlineQuantity_withExt]; exact h.2) s).trans
    (key env rfl h.2 s).symm


/-! ### ADVANCED_UNITS in `timer` -/

/-- the timer's quantity, if any, has a non-text value and a unit that is a time unit of the converter -/
def timerCoreX (env : Env) (t : PTimer α) : Bool :=
  match t.quantity with
  | none => true
  | some q => !q.val.value.value.val.isText &&
      (match q.val.unit with
       | none => true
       | some u => env.findUnit (u.trimmed env.cs) == some env.timeQ)

/-- the value `quantity_of` returns for a non-ingredient -/
theorem quantityOf_val_false (env : Env) (q : Loc (PQuantity α)) (s : Col α) :
    (quantityOf env q false s).1 = ⟨.fixed q.val.value.value.val, q.val.unit.map (fun t => t.trimmed env.cs)⟩ := by
  unfold quantityOf valueOf
  simp only [A_bind, Bool.false_and, Bool.false_eq_true, if_false, Bool.not_false, Bool.true_or, if_true]
  cases q.val.value.lock.isSome <;> rfl

theorem timerQuantityChecks_noop (env env' : Env) (hcs : env'.findUnit = env.findUnit) (htq : env'.timeQ = env.timeQ)
    (q : Loc (PQuantity α))
    (hv : q.val.value.value.val.isText = false)
    (hu : ∀ u, q.val.unit = some u → env.findUnit (u.trimmed env.cs) = some env.timeQ) (s : Col α) :
    timerQuantityChecks env' q ⟨.fixed q.val.value.value.val, q.val.unit.map (fun t => t.trimmed env.cs)⟩ s = ((), s) := by
  unfold timerQuantityChecks
  cases env'.ext.has Gen.EXT_ADVANCED_UNITS
  · rfl
  · simp only [if_true, ScalableValue.val, hv, Bool.false_eq_true, if_false]
    cases hq : q.val.unit with
    | none => rfl
    | some u =>
      simp only [Option.map_some, hcs, htq, hu u hq, ne_eq, not_true_eq_false, if_false]
      rfl

theorem timerQuantity_extX (env : Env) (e : Ext) (t : PTimer α) (h : timerCoreX env t = true) :
    timerQuantity (env.withExt e) t.quantity = timerQuantity env t.quantity := by
  unfold timerCoreX at h
  cases hq : t.quantity with
  | none => rfl
  | some q =>
    rw [hq] at h
    simp only [Bool.and_eq_true, Bool.not_eq_true'] at h
    have hu : ∀ u, q.val.unit = some u → env.findUnit (u.trimmed env.cs) = some env.timeQ := by
      intro u hu
      have := h.2
      rw [hu] at this
      simpa using this
    have key : ∀ env' : Env, env'.cs = env.cs → env'.findUnit = env.findUnit → env'.timeQ = env.timeQ →
        ∀ s, timerQuantity env' (some q) s =
          (some (quantityOf env q false s).1, (quantityOf env q false s).2) := by
      intro env' h1 h2 h3 s
      have hqo : quantityOf env' q false = quantityOf env q false := by
        unfold quantityOf valueOf
        simp only [h1]
      unfold timerQuantity
      dsimp only
      rw [A_bind, hqo, A_bind, quantityOf_val_false, timerQuantityChecks_noop env env' h2 h3 q h.1 hu]
      rfl
    funext s
    rw [key (env.withExt e) rfl rfl rfl s, key env rfl rfl rfl s]

theorem timerA_extX (env : Env) (e : Ext) (lt : Loc (PTimer α)) (h : timerCoreX env lt.val = true) :
    timerA (env.withExt e) lt = timerA env lt := by
  unfold timerA
  simp only [timerQuantity_extX env e lt.val h, Env.withExt_cs]


/-! ### ADVANCED_UNITS in `ingredient`: only references with a quantity reach the unit checks -/

/-- the collector is in its default modes (`[mode]`/`[duplicate]` never set) -/
def ModesDefault (s : Col α) : Prop := s.defineMode = .all ∧ s.duplicateMode = .new

/-- the ingredient has no `&` modifier, or no quantity -/
def ingrCoreX (i : PIngredient α) : Bool := !i.modifiers.val.contains Modifiers.REF || i.quantity.isNone

/-- in the default modes a component without `&` is never a reference -/
theorem resolveReference_none (env : Env) (c : String) (inh : Nat) (ex : List (Str × Modifiers))
    (name : Str) (mods : Modifiers) (l ml : Span) (s : Col α) (hm : ModesDefault s)
    (href : mods.contains Modifiers.REF = false) :
    (resolveReference env c inh ex name mods l ml s).1.2 = none := by
  obtain ⟨h1, h2⟩ := hm
  unfold resolveReference
  rw [A_bind, A_get]
  simp only [h1, h2, href, Bool.and_false, Bool.false_eq_true, if_false]
  by_cases hn : mods.contains Modifiers.NEW = true
  · simp only [hn, if_true, A_bind]
    split <;> (try split) <;> (try split) <;> rfl
  · simp only [hn, Bool.false_eq_true, if_false, A_bind]
    rfl

theorem ingrRefChecks_ext_noq (env : Env) (e : Ext) (input : Str) (li : Loc (PIngredient α))
    (igr : Ingredient (ScalableValue α)) (refTo : Nat) (defn : Ingredient (ScalableValue α))
    (defLoc : Loc (PIngredient α)) (hq : igr.quantity = none) :
    ingrRefChecks (env.withExt e) input li igr refTo defn defLoc = ingrRefChecks env input li igr refTo defn defLoc := by
  unfold ingrRefChecks
  simp only [hq, ite_self]

theorem ingrRegular_extX (env : Env) (e : Ext) (input : Str) (li : Loc (PIngredient α))
    (igr0 : Ingredient (ScalableValue α)) (s : Col α) (hm : ModesDefault s)
    (h : igr0.modifiers.contains Modifiers.REF = false ∨ igr0.quantity = none) :
    ingrRegular (env.withExt e) input li igr0 s = ingrRegular env input li igr0 s := by
  unfold ingrRegular
  simp only [A_bind, A_get, resolveReference_ext]
  rcases h with h | h
  · have := resolveReference_none env "ingredient" (Modifiers.HIDDEN ||| Modifiers.OPT ||| Modifiers.RECIPE)
      (s.ingredients.toList.map (fun x => (x.name, x.modifiers))) igr0.name igr0.modifiers li.span
      li.val.modifiers.span s hm h
    simp only [this]
  · cases (resolveReference env "ingredient" (Modifiers.HIDDEN ||| Modifiers.OPT ||| Modifiers.RECIPE)
      (s.ingredients.toList.map (fun x => (x.name, x.modifiers))) igr0.name igr0.modifiers li.span
      li.val.modifiers.span s).1.2 with
    | none => rfl
    | some o =>
      simp only [ingrRefChecks_ext_noq, h]


theorem ingredientA_extX (env : Env) (e : Ext) (input : Str) (li : Loc (PIngredient α)) (s : Col α)
    (hm : ModesDefault s) (h : ingrCoreX li.val = true) :
    ingredientA (env.withExt e) input li s = ingredientA env input li s := by
  unfold ingredientA ingrBuild
  simp only [optQuantityOf_ext, Env.withExt_cs, A_bind, A_get]
  cases hi : li.val.inter with
  | some d => rfl
  | none =>
    dsimp only
    obtain ⟨d, p, hs1⟩ := (optQuantityOf_diagOnly env li.val.quantity true).out s
    have hm1 : ModesDefault (optQuantityOf env li.val.quantity true s).2 := by
      rw [hs1]; exact hm
    have hq := optQuantityOf_isSome env li.val.quantity true s
    rw [ingrRegular_extX env e input li _ _ hm1]
    unfold ingrCoreX at h
    simp only [Bool.or_eq_true, Bool.not_eq_true'] at h
    rcases h with h | h
    · exact Or.inl h
    · right
      simp only [Option.isNone_iff_eq_none] at h
      cases hx : (optQuantityOf env li.val.quantity true s).1 with
      | none => rfl
      | some x => rw [hx, h] at hq; cases hq

/-! ### the default modes are kept by everything but a `[mode]` / `[duplicate]` key -/

/-- the two mode fields -/
def modesOf (s : Col α) : DefineMode × DuplicateMode := (s.defineMode, s.duplicateMode)

theorem modes_ingrSetReferencedFrom (a b : Nat) (d : Ingredient (ScalableValue α)) :
    Pres (modesOf (α := α)) (ingrSetReferencedFrom a b d) := by
  unfold ingrSetReferencedFrom; pres
macro_rules | `(tactic| pres_leaf) => `(tactic| with_reducible exact modes_ingrSetReferencedFrom ..)

theorem modes_ingrRegular (env : Env) (input : Str) (li : Loc (PIngredient α)) (igr0 : Ingredient (ScalableValue α)) :
    Pres (modesOf (α := α)) (ingrRegular env input li igr0) := by
  unfold ingrRegular; pres
macro_rules | `(tactic| pres_leaf) => `(tactic| with_reducible exact modes_ingrRegular ..)

theorem modes_ingredientA (env : Env) (input : Str) (li : Loc (PIngredient α)) :
    Pres (modesOf (α := α)) (ingredientA env input li) := by
  unfold ingredientA ingrBuild; pres
macro_rules | `(tactic| pres_leaf) => `(tactic| with_reducible exact modes_ingredientA ..)

theorem modes_cwSetReferencedFrom (a b : Nat) (d : Cookware (ScalableValue α)) :
    Pres (modesOf (α := α)) (cwSetReferencedFrom a b d) := by
  unfold cwSetReferencedFrom; pres
macro_rules | `(tactic| pres_leaf) => `(tactic| with_reducible exact modes_cwSetReferencedFrom ..)

theorem modes_cookwareA (env : Env) (input : Str) (lc : Loc (PCookware α)) :
    Pres (modesOf (α := α)) (cookwareA env input lc) := by
  unfold cookwareA cwBuild cwResolve; pres
macro_rules | `(tactic| pres_leaf) => `(tactic| with_reducible exact modes_cookwareA ..)

theorem modes_timerA (env : Env) (lt : Loc (PTimer α)) : Pres (modesOf (α := α)) (timerA env lt) := by
  unfold timerA; pres
macro_rules | `(tactic| pres_leaf) => `(tactic| with_reducible exact modes_timerA ..)

theorem modes_pushItem (it : Item) : Pres (modesOf (α := α)) (pushItem it) := by
  constructor
  intro s
  unfold pushItem
  rw [A_bind, A_get]
  dsimp only
  have hp := (Pres.ofDiag (f := modesOf (α := α)) (DiagOnly.apanic "pushItem outside step") (fun _ _ _ => rfl)).out s
  cases hb : s.block with
  | none => exact hp
  | some b =>
    cases b with
    | step items => rfl
    | text t => exact hp
macro_rules | `(tactic| pres_leaf) => `(tactic| with_reducible exact modes_pushItem ..)

theorem modes_inBlockComponent (env : Env) (input : Str) (ev : Ev α) :
    Pres (modesOf (α := α)) (inBlockComponent env input ev) := by
  unfold inBlockComponent inStepComponent inTextComponent; pres

theorem modes_inStepText (env : Env) (t : Text) : Pres (modesOf (α := α)) (inStepText env t) := by
  unfold inStepText inStepTextStep; pres

theorem modes_endBlock (k : BlockKind) : Pres (modesOf (α := α)) (endBlock k) := by
  unfold endBlock pushContent; pres

theorem modes_timeOverrideCheck (k : StdKey) : Pres (modesOf (α := α)) (timeOverrideCheck k) := by
  unfold timeOverrideCheck; pres
macro_rules | `(tactic| pres_leaf) => `(tactic| with_reducible exact modes_timeOverrideCheck ..)

theorem modes_metadataPlain (env : Env) (k v : Text) : Pres (modesOf (α := α)) (metadataPlain env k v) := by
  unfold metadataPlain; pres


/-! ### the fold -/

/-- the event uses no syntax that a gate of the analysis reinterprets (see the file header) -/
def evCoreX (α : Type) [Arith α] (env : Env) : Ev α → Bool
  | .metadata k _ => !bracketedKey env.cs k
  | .text t => textCoreX α env t
  | .ingredient i => ingrCoreX i.val
  | .timer t => timerCoreX env t.val
  | _ => true

theorem ModesDefault.of_modes {s s' : Col α} (h : ModesDefault s) (he : modesOf s' = modesOf s) : ModesDefault s' := by
  unfold modesOf at he
  simp only [Prod.mk.injEq] at he
  exact ⟨he.1.trans h.1, he.2.trans h.2⟩

theorem processEvent_extX (env : Env) (e : Ext) (input : Str) (ev : Ev α) (s : Col α)
    (hm : ModesDefault s) (h : evCoreX α env ev = true) :
    processEvent (env.withExt e) input ev s = processEvent env input ev s := by
  cases ev with
  | metadata k v =>
    show metadataA (env.withExt e) k v s = metadataA env k v s
    simp only [evCoreX, Bool.not_eq_true'] at h
    rw [metadataA_ext env e _ _ h]
  | text t =>
    show inStepText (env.withExt e) t s = inStepText env t s
    unfold inStepText
    simp only [evCoreX] at h
    simp only [inStepTextStep_extX env e _ _ h]
  | ingredient li =>
    simp only [evCoreX] at h
    show inBlockComponent (env.withExt e) input (.ingredient li) s = inBlockComponent env input (.ingredient li) s
    unfold inBlockComponent
    rw [A_bind, A_bind, A_get]
    cases hb : s.block with
    | none => rfl
    | some b =>
      cases b with
      | text t => rfl
      | step items =>
        show ((ingredientA (env.withExt e) input li >>= fun idx => pushItem (.ingredient idx)) s) =
          ((ingredientA env input li >>= fun idx => pushItem (.ingredient idx)) s)
        rw [A_bind, A_bind, ingredientA_extX env e input li s hm h]
  | cookware lc =>
    show inBlockComponent (env.withExt e) input (.cookware lc) s = inBlockComponent env input (.cookware lc) s
    unfold inBlockComponent inStepComponent
    simp only [cookwareA_ext]
  | timer lt =>
    simp only [evCoreX] at h
    show inBlockComponent (env.withExt e) input (.timer lt) s = inBlockComponent env input (.timer lt) s
    unfold inBlockComponent inStepComponent
    simp only [timerA_extX env e lt h]
  | _ => rfl

theorem processEvent_modes (env : Env) (input : Str) (ev : Ev α) (s : Col α)
    (hm : ModesDefault s) (h : evCoreX α env ev = true) :
    ModesDefault (processEvent env input ev s).2 := by
  cases ev with
  | metadata k v =>
    show ModesDefault (metadataA env k v s).2
    simp only [evCoreX, Bool.not_eq_true'] at h
    rw [metadataA_plain env k v (by rw [h, Bool.and_false])]
    exact hm.of_modes ((modes_metadataPlain env k v).out s)
  | text t => exact hm.of_modes ((modes_inStepText env t).out s)
  | ingredient li => exact hm.of_modes ((modes_inBlockComponent env input _).out s)
  | cookware lc => exact hm.of_modes ((modes_inBlockComponent env input _).out s)
  | timer lt => exact hm.of_modes ((modes_inBlockComponent env input _).out s)
  | stop k => exact hm.of_modes ((modes_endBlock k).out s)
  | _ => exact hm

theorem parseEventsLoop_extX (env : Env) (e : Ext) (input : Str) (evs : List (Ev α))
    (h : evs.all (evCoreX α env) = true) (s : Col α) (hm : ModesDefault s) :
    parseEventsLoop (env.withExt e) input evs s = parseEventsLoop env input evs s := by
  induction evs generalizing s with
  | nil => rfl
  | cons ev rest ih =>
    simp only [List.all_cons, Bool.and_eq_true] at h
    have hp := processEvent_extX env e input ev s hm h.1
    have hm' := processEvent_modes env input ev s hm h.1
    cases ev <;> first
      | rfl
      | (simp only [parseEventsLoop]; rw [hp]; exact ih h.2 _ hm')

theorem ModesDefault.init : ModesDefault ({} : Col α) := ⟨rfl, rfl⟩

/-- the analysis pass gives the same result under every extension set on `evCoreX` events -/
theorem parseEvents_extX (env : Env) (e : Ext) (input : Str) (evs : List (Ev α))
    (h : evs.all (evCoreX α env) = true) :
    parseEvents (env.withExt e) input evs = parseEvents env input evs :=
  parseEventsLoop_extX env e input evs h {} ModesDefault.init


/-- `CooklangParser::parse` on an input whose blocks are `UsesNone` and whose events are `evCoreX`:
    the whole result is the same under every extension set -/
theorem parseRecipe_extX (env : Env) (e : Ext) (input : Str)
    (hu : UsesNoneInput env.cs input = true)
    (hev : (pullEvents (α := α) env.cs env.ext input).1.toList.all (evCoreX α env) = true) :
    parseRecipe (α := α) (env.withExt e) input = parseRecipe env input := by
  unfold parseRecipe
  simp only [Env.withExt_cs, Env.withExt_ext]
  rw [pullEvents_ext_irrelevant env.cs e env.ext input hu, parseEvents_extX env e input _ hev]

end Cook
