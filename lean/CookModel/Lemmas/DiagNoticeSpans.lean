import CookModel.Lemmas.RoundtripDocRefs
import CookModel.Lemmas.Cover
import CookModel.Lemmas.Spans
/-
  C07, the `>>` deprecation notice WITH ITS LABELS.  Part 1: the exact span of the text
  `BlockParser::text` assembles from a run of adjacent tokens (`buildText`): it starts after the leading
  block comments of the run and ends before its trailing block comments.  (`c07n_` prefix.)

  Specification vocabulary and lemmas only; no model function is added.
-/
set_option linter.unusedSectionVars false
set_option linter.unusedSimpArgs false
set_option linter.unusedVariables false
namespace Cook

variable {α : Type} [Arith α]

/-- a block comment token -/
def c07n_isBC (t : Tok) : Bool := t.kind == .blockComment

/-- a token whose characters `BlockParser::text` keeps at the token's own position: not a comment, not
    an escape, not empty -/
def c07n_Solid (t : Tok) : Prop :=
  t.kind ≠ .lineComment ∧ t.kind ≠ .blockComment ∧ t.kind ≠ .escaped ∧ t.text ≠ []

theorem c07n_solid_body {u : Tok} (h : c07n_Solid u) : HasBody u ∧ tokBodyStart u = u.start := by
  obtain ⟨h1, h2, h3, h4⟩ := h
  have hb : tokBodyStart u = u.start := by unfold tokBodyStart; rw [if_neg h3]
  refine ⟨⟨h1, h2, ?_⟩, hb⟩
  rw [hb]
  have := utf8Len_pos h4
  simp only [Tok.stop]; omega

theorem c07n_step_bc (off s : Nat) (c : Tok) (hk : c.kind = .blockComment) (h : off ≤ s) :
    textStep ⟨Text.empty off, s, []⟩ c = ⟨Text.empty off, c.stop, []⟩ := by
  unfold textStep
  rw [hk]
  simp [Text.appendStr, Text.appendFrag, Text.span, Text.empty, Span.pos, h]

/-- leading block comments leave the text under construction empty and move the pending position -/
theorem c07n_fold_bc (off : Nat) : ∀ (C : List Tok) (s : Nat), (∀ c ∈ C, c.kind = .blockComment) → off ≤ s →
    Chain s C → C.foldl textStep ⟨Text.empty off, s, []⟩ = ⟨Text.empty off, lastStop s C, []⟩ := by
  intro C
  induction C with
  | nil => intro s _ _ _; rfl
  | cons c C ih =>
    intro s hC hs hch
    rw [List.foldl_cons, c07n_step_bc off s c (hC c (by simp)) hs, lastStop_cons]
    have h1 : c.start = s := hch.1
    exact ih c.stop (fun x hx => hC x (by simp [hx])) (by simp only [Tok.stop]; omega) hch.2

/-- `buildText` on a non-empty run: the fold from the empty text, flushed -/
theorem c07n_buildText_eq (off : Nat) (ts : List Tok) (hne : ts ≠ []) (h : Chain off ts) :
    buildText off ts =
      (ts.foldl textStep ⟨Text.empty off, off, []⟩).t.appendStr (ts.foldl textStep ⟨Text.empty off, off, []⟩).cur
        (ts.foldl textStep ⟨Text.empty off, off, []⟩).start := by
  cases ts with
  | nil => exact absurd rfl hne
  | cons t0 r =>
    have h0 : t0.start = off := h.1
    unfold buildText
    simp only [h0, if_true]

theorem c07n_span_start_of_frags (t : Text) (f : Frag) (fs : List Frag) (h : t.frags = f :: fs) :
    t.span.start = f.offset := by
  unfold Text.span; rw [h]

theorem c07n_span_congr (t t' : Text) (h1 : t.frags = t'.frags) (h2 : t.emptyOff = t'.emptyOff) : t.span = t'.span := by
  unfold Text.span; rw [h1, h2]

/-- **start of the span**: a run `C ++ u :: R` whose first tokens `C` are block comments and whose next
    token `u` is solid gives a text that starts where `u` starts -/
theorem c07n_buildText_start (off : Nat) (C : List Tok) (u : Tok) (R : List Tok)
    (hch : Chain off (C ++ u :: R)) (he : EscapedOK (C ++ u :: R)) (hC : ∀ c ∈ C, c.kind = .blockComment)
    (hu : c07n_Solid u) : (buildText off (C ++ u :: R)).span.start = lastStop off C := by
  obtain ⟨hb, hbs⟩ := c07n_solid_body hu
  obtain ⟨g1, -, g3⟩ := cov_buildText_span off _ hch he u (by simp) hb
  rw [hbs] at g1
  obtain ⟨hc1, hc2⟩ := (chain_append off C (u :: R)).1 hch
  have hus : u.start = lastStop off C := hc2.1
  have hle : off ≤ lastStop off C := by rw [chain_lastStop hc1]; omega
  -- every fragment starts at or after the end of the comments
  have hfr : ∀ f ∈ (buildText off (C ++ u :: R)).frags, lastStop off C ≤ f.offset := by
    rw [c07n_buildText_eq off _ (by simp) hch, List.foldl_append, c07n_fold_bc off C off hC (Nat.le_refl _) hc1]
    have hinit : TInv (lastStop off C) [] (⟨Text.empty off, lastStop off C, []⟩ : TextAcc) :=
      ⟨⟨rfl, by simpa [Text.empty] using hle, by simp [Text.empty], by simp [Text.empty]⟩, ⟨[], by simp, by simp [utf8Len]⟩⟩
    have hfold := foldl_textStep_inv (u :: R) [] _ hinit (by simpa [utf8Len] using hc2)
      (fun x hx => he x (by simp only [List.mem_append]; exact Or.inr hx))
    intro f hf
    obtain ⟨-, ⟨pre, suf, -, hp⟩, -⟩ := hfold.flush.frags f hf
    omega
  cases hfs : (buildText off (C ++ u :: R)).frags with
  | nil => exact absurd hfs g3
  | cons f fs =>
    have h1 := c07n_span_start_of_frags _ f fs hfs
    have h2 := hfr f (by rw [hfs]; simp)
    omega

/-- trailing block comments add no fragment -/
theorem c07n_fold_bc_frags : ∀ (C : List Tok) (a : TextAcc), (∀ c ∈ C, c.kind = .blockComment) →
    ((C.foldl textStep a).t.appendStr (C.foldl textStep a).cur (C.foldl textStep a).start).frags =
      (a.t.appendStr a.cur a.start).frags := by
  intro C
  induction C with
  | nil => intro a _; rfl
  | cons c C ih =>
    intro a hC
    rw [List.foldl_cons, ih _ (fun x hx => hC x (by simp [hx]))]
    have hk := hC c (by simp)
    have e : textStep a c = ⟨a.t.appendStr a.cur a.start, c.stop, []⟩ := by
      unfold textStep; rw [hk]
    rw [e]
    simp only [Text.appendStr, cov_appendFrag_frags]
    simp

/-- **end of the span**: a run `X ++ u :: C` whose last tokens `C` are block comments and whose token
    `u` before them is solid gives a text that ends where `u` ends -/
theorem c07n_buildText_stop (off : Nat) (X : List Tok) (u : Tok) (C : List Tok)
    (hch : Chain off (X ++ u :: C)) (he : EscapedOK (X ++ u :: C)) (hC : ∀ c ∈ C, c.kind = .blockComment)
    (hu : c07n_Solid u) : (buildText off (X ++ u :: C)).span.stop = u.stop := by
  obtain ⟨hb, hbs⟩ := c07n_solid_body hu
  have e : X ++ u :: C = (X ++ [u]) ++ C := by simp
  have hch' : Chain off (X ++ [u]) := by rw [e] at hch; exact ((chain_append off _ C).1 hch).1
  have he' : EscapedOK (X ++ [u]) := fun x hx => he x (by rw [e]; exact List.mem_append_left _ hx)
  have hsp : (buildText off (X ++ u :: C)).span = (buildText off (X ++ [u])).span := by
    apply c07n_span_congr
    · rw [c07n_buildText_eq off _ (by simp) hch, c07n_buildText_eq off _ (by simp) hch', e, List.foldl_append,
        c07n_fold_bc_frags C _ hC]
    · rw [buildText_emptyOff, buildText_emptyOff]
  rw [hsp]
  obtain ⟨-, g2, -⟩ := cov_buildText_span off _ hch' he' u (by simp) hb
  have hfi := (buildText_FI off _ hch' he').span_stop_le
  have hl := chain_lastStop hch'
  have hl2 : lastStop off (X ++ [u]) = u.stop := by
    rw [lastStop_append]; simp [lastStop]
  omega

/-! ### a run between block comments -/

/-- **span of a run**: block comments `C1`, a non-empty middle `M` whose first and last tokens are solid,
    block comments `C2` — the text spans exactly the middle -/
theorem c07n_run_span (off : Nat) (C1 M C2 : List Tok) (hch : Chain off (C1 ++ M ++ C2))
    (he : EscapedOK (C1 ++ M ++ C2)) (h1 : ∀ c ∈ C1, c.kind = .blockComment) (h2 : ∀ c ∈ C2, c.kind = .blockComment)
    (hM : M ≠ []) (hh : ∀ t, M.head? = some t → c07n_Solid t) (hl : ∀ t, M.getLast? = some t → c07n_Solid t) :
    (buildText off (C1 ++ M ++ C2)).span = ⟨lastStop off C1, lastStop off (C1 ++ M)⟩ := by
  have hstart : (buildText off (C1 ++ M ++ C2)).span.start = lastStop off C1 := by
    cases M with
    | nil => exact absurd rfl hM
    | cons u R =>
      have e : C1 ++ u :: R ++ C2 = C1 ++ u :: (R ++ C2) := by simp
      rw [e] at hch he ⊢
      exact c07n_buildText_start off C1 u (R ++ C2) hch he h1 (hh u rfl)
  have hstop : (buildText off (C1 ++ M ++ C2)).span.stop = lastStop off (C1 ++ M) := by
    rcases List.eq_nil_or_concat M with h0 | ⟨X, u, hXu⟩
    · exact absurd h0 hM
    · rw [List.concat_eq_append] at hXu
      subst hXu
      have e : C1 ++ (X ++ [u]) ++ C2 = (C1 ++ X) ++ u :: C2 := by simp
      have e2 : C1 ++ (X ++ [u]) = (C1 ++ X) ++ [u] := by simp
      rw [e] at hch he ⊢
      rw [c07n_buildText_stop off (C1 ++ X) u C2 hch he h2 (hl u (by simp)), e2, lastStop_append]
      simp [lastStop]
  show (⟨(buildText off (C1 ++ M ++ C2)).span.start, (buildText off (C1 ++ M ++ C2)).span.stop⟩ : Span) = _
  rw [hstart, hstop]

/-! ### a padded leaf -/

/-- the padding without its trailing block comments -/
def c07n_dropTrailBC (l : List Tok) : List Tok := (l.reverse.dropWhile c07n_isBC).reverse

/-- the trailing block comments of the padding -/
def c07n_trailBC (l : List Tok) : List Tok := (l.reverse.takeWhile c07n_isBC).reverse

theorem c07n_trail_split (l : List Tok) : l = c07n_dropTrailBC l ++ c07n_trailBC l := by
  unfold c07n_dropTrailBC c07n_trailBC
  rw [← List.reverse_append, List.takeWhile_append_dropWhile, List.reverse_reverse]

theorem c07n_dropWhile_head (p : Tok → Bool) : ∀ (l : List Tok) (x : Tok) (r : List Tok), l.dropWhile p = x :: r →
    p x = false ∧ x ∈ l := by
  intro l
  induction l with
  | nil => intro x r h; simp at h
  | cons a l ih =>
    intro x r h
    rw [List.dropWhile_cons] at h
    by_cases ha : p a = true
    · rw [if_pos ha] at h
      obtain ⟨g1, g2⟩ := ih x r h
      exact ⟨g1, by simp [g2]⟩
    · rw [if_neg ha] at h
      simp only [List.cons.injEq] at h
      rw [← h.1]
      exact ⟨by simpa using ha, by simp⟩

theorem c07n_takeWhile_all (p : Tok → Bool) (l : List Tok) : ∀ x ∈ l.takeWhile p, p x = true := by
  induction l with
  | nil => intro x hx; simp at hx
  | cons a l ih =>
    intro x hx
    rw [List.takeWhile_cons] at hx
    by_cases ha : p a = true
    · rw [if_pos ha] at hx
      simp only [List.mem_cons] at hx
      rcases hx with rfl | hx
      · exact ha
      · exact ih x hx
    · rw [if_neg ha] at hx; simp at hx

/-- kinds of tokens that are solid once their text is not empty -/
def c07n_solidK (k : TK) : Prop := k ≠ .lineComment ∧ k ≠ .blockComment ∧ k ≠ .escaped

theorem c07n_pad_solidK {cs : CharSpec} {t : Tok} (h : padTok cs t = true) (hb : c07n_isBC t = false) :
    c07n_solidK t.kind := by
  unfold padTok at h
  unfold c07n_isBC at hb
  simp only [Bool.or_eq_true, Bool.and_eq_true, beq_iff_eq] at h
  rcases h with h | h
  · rw [h.1]; exact ⟨by simp, by simp, by simp⟩
  · rw [h] at hb; simp at hb

theorem c07n_atom_solidK {cs : CharSpec} {allowed : TK → Bool} {t : Tok} (h : isAtomTok cs allowed t = true) :
    c07n_solidK t.kind := by
  obtain ⟨-, hp, -, -⟩ := isAtomTok_facts h
  unfold plainKind at hp
  cases hk : t.kind <;> rw [hk] at hp <;> simp at hp <;> exact ⟨by simp, by simp, by simp⟩

theorem c07n_solid_of {t : Tok} {k : TK} (hk : t.kind = k) (hs : c07n_solidK k) (hne : t.text ≠ []) : c07n_Solid t := by
  rw [← hk] at hs; exact ⟨hs.1, hs.2.1, hs.2.2, hne⟩

/-- what is left of a padded leaf when the leading block comments of the front padding and the trailing
    block comments of the back padding are removed begins and ends with a token that can be solid -/
theorem c07n_mid_ends {cs : CharSpec} {allowed : TK → Bool} {pre l post : List Tok} (hpre : padOK cs pre = true)
    (hpost : padOK cs post = true) (hl : leafOK cs allowed l = true) :
    (∃ a r, pre.dropWhile c07n_isBC ++ l ++ c07n_dropTrailBC post = a :: r ∧ c07n_solidK a.kind) ∧
    (∃ i a, pre.dropWhile c07n_isBC ++ l ++ c07n_dropTrailBC post = i ++ [a] ∧ c07n_solidK a.kind) := by
  have lf := leafOK_facts hl
  unfold padOK at hpre hpost
  rw [List.all_eq_true] at hpre hpost
  constructor
  · cases hP : pre.dropWhile c07n_isBC with
    | nil =>
      obtain ⟨a, r, rfl, ha⟩ := lf.head
      exact ⟨a, r ++ c07n_dropTrailBC post, by simp, c07n_atom_solidK ha⟩
    | cons x r =>
      obtain ⟨g1, g2⟩ := c07n_dropWhile_head c07n_isBC pre x r hP
      exact ⟨x, r ++ l ++ c07n_dropTrailBC post, by simp, c07n_pad_solidK (hpre x g2) g1⟩
  · unfold c07n_dropTrailBC
    cases hP : post.reverse.dropWhile c07n_isBC with
    | nil =>
      obtain ⟨i, a, rfl, ha⟩ := lf.last
      exact ⟨pre.dropWhile c07n_isBC ++ i, a, by simp, c07n_atom_solidK ha⟩
    | cons x r =>
      obtain ⟨g1, g2⟩ := c07n_dropWhile_head c07n_isBC post.reverse x r hP
      exact ⟨pre.dropWhile c07n_isBC ++ l ++ r.reverse, x, by simp,
        c07n_pad_solidK (hpost x (by simpa using g2)) g1⟩

theorem c07n_spells_ends {tM M : List Tok} (hs : Spells tM M) (hne : ∀ t ∈ tM, t.text ≠ [])
    (h1 : ∃ a r, M = a :: r ∧ c07n_solidK a.kind) (h2 : ∃ i a, M = i ++ [a] ∧ c07n_solidK a.kind) :
    tM ≠ [] ∧ (∀ t, tM.head? = some t → c07n_Solid t) ∧ (∀ t, tM.getLast? = some t → c07n_Solid t) := by
  refine ⟨?_, ?_, ?_⟩
  · obtain ⟨a, r, rfl, -⟩ := h1
    obtain ⟨t, ts', rfl, -, -, -⟩ := hs.cons_inv
    simp
  · obtain ⟨a, r, rfl, ha⟩ := h1
    obtain ⟨t, ts', rfl, hk, -, -⟩ := hs.cons_inv
    intro x hx
    simp only [List.head?_cons, Option.some.injEq] at hx
    subst hx
    exact c07n_solid_of hk ha (hne _ (by simp))
  · obtain ⟨i, a, rfl, ha⟩ := h2
    obtain ⟨tX, tb, rfl, -, hb⟩ := hs.append_inv
    obtain ⟨t, rfl, hk, -⟩ := hb.single_inv
    intro x hx
    simp only [List.getLast?_append, List.getLast?_singleton, Option.some_or, Option.some.injEq] at hx
    subst hx
    exact c07n_solid_of hk ha (hne _ (by simp))

theorem c07n_allBC_of_spells {tC C : List Tok} (hs : Spells tC C) (h : ∀ u ∈ C, c07n_isBC u = true) :
    ∀ c ∈ tC, c.kind = .blockComment := by
  intro c hc
  obtain ⟨u, hu, hk, -⟩ := hs.mem hc
  have := h u hu
  unfold c07n_isBC at this
  rw [hk]; simpa using this

/-- **span of a padded leaf** (`>>` key, `>>` value): the text assembled at offset `off` from tokens that
    spell `pre ++ l ++ post` (blank padding, a leaf, blank padding) and are a run of adjacent non-empty
    tokens starts after the block comments `pre` begins with and ends before the block comments `post` ends
    with.  Whitespace padding is inside the span; so are block comments that have whitespace on their outer
    side. -/
theorem c07n_leaf_span {cs : CharSpec} {allowed : TK → Bool} {pre l post ts : List Tok}
    (hs : Spells ts (pre ++ l ++ post)) (hpre : padOK cs pre = true) (hpost : padOK cs post = true)
    (hl : leafOK cs allowed l = true) (off : Nat) (hrun : RunAt off ts) (hne : ∀ t ∈ ts, t.text ≠ []) :
    (buildText off ts).span =
      ⟨off + utf8Len (render (pre.takeWhile c07n_isBC)),
       off + utf8Len (render (pre ++ l ++ c07n_dropTrailBC post))⟩ := by
  have e1 : pre.takeWhile c07n_isBC ++ pre.dropWhile c07n_isBC = pre := List.takeWhile_append_dropWhile
  have e2 := c07n_trail_split post
  have espec : pre ++ l ++ post =
      pre.takeWhile c07n_isBC ++ (pre.dropWhile c07n_isBC ++ l ++ c07n_dropTrailBC post) ++ c07n_trailBC post := by
    have e3 : pre ++ l ++ post = (pre.takeWhile c07n_isBC ++ pre.dropWhile c07n_isBC) ++ l ++
        (c07n_dropTrailBC post ++ c07n_trailBC post) := by rw [e1, ← e2]
    rw [e3]
    simp only [List.append_assoc]
  rw [espec] at hs
  obtain ⟨t12, tC2, rfl, hs12, hsC2⟩ := hs.append_inv
  obtain ⟨tC1, tM, rfl, hsC1, hsM⟩ := hs12.append_inv
  obtain ⟨m1, m2⟩ := c07n_mid_ends hpre hpost hl
  obtain ⟨n1, n2, n3⟩ := c07n_spells_ends hsM (fun t ht => hne t (by simp [ht])) m1 m2
  have hb1 := c07n_allBC_of_spells hsC1 (c07n_takeWhile_all c07n_isBC pre)
  have hb2 := c07n_allBC_of_spells hsC2 (by
    intro u hu
    unfold c07n_trailBC at hu
    rw [List.mem_reverse] at hu
    exact c07n_takeWhile_all c07n_isBC post.reverse u hu)
  rw [c07n_run_span off tC1 tM tC2 hrun.1 hrun.2 hb1 hb2 n1 n2 n3]
  have hc12 := ((chain_append off (tC1 ++ tM) tC2).1 hrun.1).1
  have hc1 := ((chain_append off tC1 tM).1 hc12).1
  rw [chain_lastStop hc1, chain_lastStop hc12]
  have r1 : tC1.flatMap (·.text) = render (pre.takeWhile c07n_isBC) := hsC1.render_eq
  have r2 : (tC1 ++ tM).flatMap (·.text) = render (pre ++ l ++ c07n_dropTrailBC post) := by
    have := (hsC1.append hsM).render_eq
    rw [← List.append_assoc, ← List.append_assoc, e1] at this
    exact this
  rw [r1, r2]

/-! ### the `>>` line: the entry's label -/

/-- **the label of a `>>` line** that starts at byte offset `o`: from the end of the `>>` token and of the
    block comments that follow it immediately, to the end of the line without the block comments it ends
    with.  Both ends are `o` plus the byte length of a PREFIX of the spelled line
    `>> p.a key p.b : p.c value p.d`. -/
def c07n_metaSpan (o : Nat) (key value : List Tok) (p : MPad) : Span :=
  ⟨o + utf8Len (render ([tk .metaStart ['>', '>']] ++ p.a.takeWhile c07n_isBC)),
   o + utf8Len (render ([tk .metaStart ['>', '>']] ++ p.a ++ key ++ p.b ++ [tk .colon [':']] ++ p.c ++ value ++
     c07n_dropTrailBC p.d))⟩

theorem c07n_render_nil : render [] = [] := rfl

theorem c07n_utf8Len_nil : utf8Len [] = 0 := rfl

theorem c07n_render_cons (t : Tok) (l : List Tok) : render (t :: l) = t.text ++ render l := rfl

theorem c07n_offAt_prefix (X Y : List Tok) (h : Chain (baseOff (X ++ Y)) (X ++ Y)) :
    offAt (X ++ Y) X.length = baseOff (X ++ Y) + utf8Len (render X) := by
  unfold offAt
  rw [List.take_left' rfl]
  exact chain_lastStop ((chain_append _ X Y).1 h).1

/-- `metadata_entry` on a spelled `>>` line (as `rtb_metadataEntry`), with the spans: the event is
    `.metadata k v` and `⟨k.span.start, v.span.stop⟩` is the label `c07n_metaSpan` at the line's offset -/
theorem c07n_metadataEntry (key value : List Tok) (p : MPad) (s : BP α) (hok : metaOK s.cs key value p = true)
    (ts : List Tok) (hs : Spells ts (spellMeta key value p)) (ht : s.toks = ts) (hc : s.cur = 0)
    (hrun : RunAt (baseOff ts) ts) (hne : ∀ t ∈ ts, t.text ≠ []) :
    ∃ k v : Text, metadataEntry s = (some (.metadata k v), { s with cur := ts.length }) ∧
      (⟨k.span.start, v.span.stop⟩ : Span) = c07n_metaSpan (baseOff ts) key value p := by
  subst ht
  simp only [metaOK, Bool.and_eq_true] at hok
  obtain ⟨⟨hp, hkey⟩, hval⟩ := hok
  simp only [MPad.ok, Bool.and_eq_true] at hp
  obtain ⟨⟨⟨hpa, hpb⟩, hpc⟩, hpd⟩ := hp
  simp only [spellMeta, List.append_assoc, List.cons_append, List.nil_append] at hs
  obtain ⟨tm, r, hts, hmk, hmt, hs⟩ := hs.cons_inv
  obtain ⟨ta, r, rfl, hta, hs⟩ := hs.append_inv
  obtain ⟨tk', r, rfl, htk, hs⟩ := hs.append_inv
  obtain ⟨tb, r, rfl, htb, hs⟩ := hs.append_inv
  obtain ⟨tcol, r, rfl, hcolk, hcolt, hs⟩ := hs.cons_inv
  obtain ⟨tc, r, rfl, htc, hs⟩ := hs.append_inv
  obtain ⟨tv, td, rfl, htv, htd⟩ := hs.append_inv
  simp only [tk] at hmk hcolk hmt hcolt
  have hkeyk : ∀ t ∈ ta ++ tk' ++ tb, (t.kind == .colon) = false := by
    intro t ht'
    simp only [List.mem_append] at ht'
    have : t.kind ≠ .colon := by
      rcases ht' with (ht' | ht') | ht'
      · exact keyKind_not_colon (Or.inr (pad_kinds hpa hta t ht'))
      · rcases leaf_kinds hkey htk t ht' with h' | h'
        · exact keyKind_not_colon (Or.inl h')
        · exact keyKind_not_colon (Or.inr (Or.inl h'))
      · exact keyKind_not_colon (Or.inr (pad_kinds hpb htb t ht'))
    simpa using this
  have e1 : s.toks = [] ++ tm :: ((ta ++ tk' ++ tb) ++ tcol :: (tc ++ tv ++ td)) := by rw [hts]; simp
  have h1 := consumeK_split_some .metaStart s [] tm _ e1 (by simpa using hc) hmk
  have h2 := untilK_split (fun k => k == .colon) ({ s with cur := ([] : List Tok).length + 1 } : BP α) [tm]
    (ta ++ tk' ++ tb) tcol (tc ++ tv ++ td) (by rw [e1]; simp) (by lenarith) hkeyk (by simp [hcolk])
  have h3 : bump (α := α) .colon ({ s with cur := [tm].length + (ta ++ tk' ++ tb).length } : BP α) =
      (tcol, { s with cur := (tm :: (ta ++ tk' ++ tb)).length + 1 }) := by
    unfold bump
    have hb := bumpAny_split ({ s with cur := [tm].length + (ta ++ tk' ++ tb).length } : BP α)
      (tm :: (ta ++ tk' ++ tb)) tcol (tc ++ tv ++ td) (by rw [e1]; simp) (by lenarith)
    simp only [bind, StateT.bind, hb, hcolk, ne_eq, not_true_eq_false, if_false]
    rfl
  have h4 := consumeRest_split ({ s with cur := (tm :: (ta ++ tk' ++ tb)).length + 1 } : BP α)
    (tm :: (ta ++ tk' ++ tb) ++ [tcol]) (tc ++ tv ++ td) (by rw [e1]; simp) (by lenarith)
  have hrunKey : RunAt (offAt s.toks (([] : List Tok).length + 1)) (ta ++ tk' ++ tb) := by
    have := rt_runAt_mid hrun [tm] (ta ++ tk' ++ tb) (tcol :: (tc ++ tv ++ td)) (by rw [e1]; simp)
    have e2 : [tm].length = ([] : List Tok).length + 1 := by lenarith
    rwa [e2] at this
  have hrunVal : RunAt (offAt s.toks ((tm :: (ta ++ tk' ++ tb)).length + 1)) (tc ++ tv ++ td) := by
    have := rt_runAt_mid hrun (tm :: (ta ++ tk' ++ tb) ++ [tcol]) (tc ++ tv ++ td) [] (by rw [e1]; simp)
    have e2 : (tm :: (ta ++ tk' ++ tb) ++ [tcol]).length = (tm :: (ta ++ tk' ++ tb)).length + 1 := by lenarith
    rwa [e2] at this
  have hkl := rt_leaf_text (cs := s.cs) (allowed := keyKind) (pre := p.a) (l := key) (post := p.b)
    (ts := ta ++ tk' ++ tb) ((hta.append htk).append htb) hpa hpb hkey (offAt s.toks (([] : List Tok).length + 1))
  have hvl := rt_leaf_text (cs := s.cs) (allowed := metaValKind) (pre := p.c) (l := value) (post := p.d)
    (ts := tc ++ tv ++ td) ((htc.append htv).append htd) hpc hpd hval
    (offAt s.toks ((tm :: (ta ++ tk' ++ tb)).length + 1))
  refine ⟨buildText (offAt s.toks (([] : List Tok).length + 1)) (ta ++ tk' ++ tb),
    buildText (offAt s.toks ((tm :: (ta ++ tk' ++ tb)).length + 1)) (tc ++ tv ++ td), ?_, ?_⟩
  · unfold metadataEntry
    simp only [bind, StateT.bind, h1, currentOffset_run, h2, bpText_run hrunKey, h3, h4, bpText_run hrunVal, get, getThe,
      MonadStateOf.get, StateT.get, hkl.2, hvl.2, Bool.false_eq_true, if_false, pure, StateT.pure]
    congr 2
    rw [hts]; simp only [List.length_append, List.length_cons, List.length_nil]; omega
  · have hk := c07n_leaf_span ((hta.append htk).append htb) hpa hpb hkey _ hrunKey
      (fun t ht => hne t (by rw [e1]; exact List.mem_append_right _ (List.mem_cons_of_mem _ (List.mem_append_left _ ht))))
    have hv := c07n_leaf_span ((htc.append htv).append htd) hpc hpd hval _ hrunVal
      (fun t ht => hne t (by
        rw [e1]
        exact List.mem_append_right _ (List.mem_cons_of_mem _ (List.mem_append_right _ (List.mem_cons_of_mem _ ht)))))
    rw [hk, hv]
    have o1 : offAt s.toks (([] : List Tok).length + 1) = baseOff s.toks + utf8Len ['>', '>'] := by
      have e3 : s.toks = [tm] ++ ((ta ++ tk' ++ tb) ++ tcol :: (tc ++ tv ++ td)) := by rw [e1]; simp
      have := c07n_offAt_prefix [tm] ((ta ++ tk' ++ tb) ++ tcol :: (tc ++ tv ++ td)) (by rw [← e3]; exact hrun.1)
      rw [← e3] at this
      rw [show ([] : List Tok).length + 1 = [tm].length from rfl, this]
      simp only [render, List.flatMap_cons, List.flatMap_nil, List.append_nil, hmt]
    have o2 : offAt s.toks ((tm :: (ta ++ tk' ++ tb)).length + 1) = baseOff s.toks +
        utf8Len (render ([tk .metaStart ['>', '>']] ++ p.a ++ key ++ p.b ++ [tk .colon [':']])) := by
      have e3 : s.toks = (tm :: (ta ++ tk' ++ tb) ++ [tcol]) ++ (tc ++ tv ++ td) := by rw [e1]; simp
      have := c07n_offAt_prefix (tm :: (ta ++ tk' ++ tb) ++ [tcol]) (tc ++ tv ++ td) (by rw [← e3]; exact hrun.1)
      rw [← e3] at this
      rw [show (tm :: (ta ++ tk' ++ tb)).length + 1 = (tm :: (ta ++ tk' ++ tb) ++ [tcol]).length by lenarith, this]
      have r1 := ((hta.append htk).append htb).render_eq
      simp only [List.cons_append, List.nil_append, c07n_render_cons, rtin_render_append, tk] at r1 ⊢
      rw [hmt, hcolt, r1]
      simp [render]
    rw [o1, o2]
    unfold c07n_metaSpan
    have u1 : '>'.utf8Size = 1 := by decide
    have u2 : ':'.utf8Size = 1 := by decide
    simp only [List.cons_append, List.nil_append, c07n_render_cons, c07n_render_nil, rtin_render_append, tk,
      utf8Len_append, List.append_assoc, utf8Len_cons, c07n_utf8Len_nil, u1, u2]
    congr 1 <;> omega

theorem c07n_runBlock_meta (key value : List Tok) (p : MPad) (cs : CharSpec) (ext : Ext)
    (ts : List Tok) (evs0 : Array (Ev α)) (panic : Option String) (hok : metaOK cs key value p = true)
    (hs : Spells ts (spellMeta key value p)) (hrun : RunAt (baseOff ts) ts) (hne : ∀ t ∈ ts, t.text ≠ []) :
    ∃ k v : Text, runBlock cs ext true ts evs0 panic = (evs0.push (.metadata k v), panic) ∧
      (⟨k.span.start, v.span.stop⟩ : Span) = c07n_metaSpan (baseOff ts) key value p := by
  obtain ⟨k, v, hme, hsp⟩ :=
    c07n_metadataEntry key value p (⟨ts, 0, ext, cs, evs0, panic⟩ : BP α) hok ts hs rfl rfl hrun hne
  refine ⟨k, v, ?_, hsp⟩
  obtain ⟨t0, tr, hts, hk0⟩ : ∃ t0 tr, ts = t0 :: tr ∧ t0.kind = .metaStart := by
    simp only [spellMeta, List.append_assoc, List.cons_append, List.nil_append] at hs
    obtain ⟨t, r, rfl, hk, -, -⟩ := hs.cons_inv
    exact ⟨t, r, rfl, hk⟩
  have hne' : ts.isEmpty = false := by rw [hts]; rfl
  have hpk := peekK_split (⟨ts, 0, ext, cs, evs0, panic⟩ : BP α) [] ts rfl rfl
  unfold runBlock
  simp only [hne', Bool.false_eq_true, if_false, bind, StateT.bind, pure, StateT.pure]
  have hpb : parseBlock (α := α) true ⟨ts, 0, ext, cs, evs0, panic⟩ =
      ((), { (⟨ts, 0, ext, cs, evs0, panic⟩ : BP α) with cur := ts.length, evs := evs0.push (.metadata k v) }) := by
    unfold parseBlock
    simp only [bind, StateT.bind, hpk]
    rw [hts] at hpk ⊢
    simp only [List.head?_cons, Option.map_some, hk0]
    rw [← hts]
    simp only [withRecover_run, bind, StateT.bind, hme, get, getThe, MonadStateOf.get, StateT.get, hasExt_run,
      Bool.or_true, if_true, Option.isNone_some, Bool.false_eq_true, if_false, pure, StateT.pure, pushEv_run]
  rw [hpb]
  simp only [get, getThe, MonadStateOf.get, StateT.get, ne_eq, not_true_eq_false, if_false, pure, StateT.pure]

/-! ### the labels in an event stream -/

/-- what `RecipeCollector::metadata` records for an old-style entry: from the start of the key's span to
    the end of the value's span -/
def c07n_evSpan? : Ev α → Option Span
  | .metadata k v => some ⟨k.span.start, v.span.stop⟩
  | _ => none

/-- the entry spans of the `>>` metadata events of an event stream, in order -/
def c07n_evSpans (evs : List (Ev α)) : List Span := evs.filterMap c07n_evSpan?

theorem c07n_evSpans_append (a b : List (Ev α)) : c07n_evSpans (a ++ b) = c07n_evSpans a ++ c07n_evSpans b := by
  unfold c07n_evSpans; rw [List.filterMap_append]

theorem c07n_evSpans_items (st : List (SItem α)) : c07n_evSpans (st.map SItem.ev) = [] := by
  induction st with
  | nil => rfl
  | cons it st ih =>
    rw [List.map_cons]
    unfold c07n_evSpans at ih ⊢
    rw [List.filterMap_cons, ih]
    cases it <;> rfl

theorem c07n_evSpans_texts (ts : List Text) : c07n_evSpans (α := α) (ts.map Ev.text) = [] := by
  induction ts with
  | nil => rfl
  | cons t ts ih =>
    rw [List.map_cons]
    unfold c07n_evSpans at ih ⊢
    rw [List.filterMap_cons, ih]
    rfl

/-- the labels the analysis records (`docSpans (docEntries blocks)`) are the entry spans of the metadata
    events -/
theorem c07n_evSpans_blocks (blocks : List (SBlock α)) :
    c07n_evSpans (blocks.flatMap SBlock.events) = docSpans (docEntries blocks) := by
  induction blocks with
  | nil => rfl
  | cons b r ih =>
    rw [List.flatMap_cons, c07n_evSpans_append, ih]
    cases b with
    | step st =>
      simp only [SBlock.events, stepEvents, c07n_evSpans_append, c07n_evSpans_items, docEntries]
      rfl
    | sect name => rfl
    | entry k v => rfl
    | para ts =>
      simp only [SBlock.events, c07n_evSpans_append, c07n_evSpans_texts, docEntries]
      rfl

theorem c07n_evSpans_segs {cs : CharSpec} {segs : List SegX} {e : List (Ev α)} (h : SegsXEvs cs segs e) :
    c07n_evSpans e = [] := by
  induction h with
  | nil => rfl
  | @cons seg ev segs evs hev _ ih =>
    unfold c07n_evSpans at ih ⊢
    rw [List.filterMap_cons, ih]
    cases ev with
    | metadata k v => cases seg <;> simp only [SegXEv] at hev
    | _ => rfl

/-- the labels of one block of the document at byte offset `o` -/
def c07n_itemLabels (o : Nat) : DocItem → List Span
  | .metaLine k v p => [c07n_metaSpan o k v p]
  | _ => []

/-- one block of a document through `parse_block` (as `rtd_runBlock_item`), with the labels -/
theorem c07n_runBlock_item (cs : CharSpec) (ext : Ext) (d : DocItem) (h : d.ok cs ext = true) (ts : List Tok)
    (hs : Spells ts d.spell) (hrun : RunAt (baseOff ts) ts) (hne : ∀ t ∈ ts, t.text ≠ [])
    (evs0 : Array (Ev α)) (panic : Option String) :
    ∃ (evs : List (Ev α)) (arr : Array (Ev α)), runBlock cs ext true ts evs0 panic = (arr, panic) ∧
      arr.toList = evs0.toList ++ evs ∧ DocItemEvs cs d evs ∧ c07n_evSpans evs = c07n_itemLabels (baseOff ts) d := by
  obtain ⟨evs, arr, h1, h2, h3⟩ := rtd_runBlock_item (α := α) cs ext d h ts hs hrun evs0 panic
  refine ⟨evs, arr, h1, h2, h3, ?_⟩
  cases d with
  | step segs =>
    obtain ⟨e, rfl, hsegs⟩ := h3
    simp only [c07n_evSpans_append, c07n_evSpans_segs hsegs, c07n_itemLabels]
    rfl
  | sectionLine name p =>
    obtain ⟨ev, rfl, hm⟩ := h3
    cases ev <;> simp only [SectionMatches] at hm
    rfl
  | metaLine k v p =>
    obtain ⟨kt, vt, g1, g2⟩ := c07n_runBlock_meta (α := α) k v p cs ext ts evs0 panic h hs hrun hne
    rw [g1] at h1
    have ha : arr = evs0.push (.metadata kt vt) := by
      have := congrArg Prod.fst h1
      exact this.symm
    rw [ha, Array.toList_push] at h2
    have he := List.append_cancel_left h2
    rw [← he]
    simp only [c07n_itemLabels, ← g2]
    rfl
  | para lines =>
    obtain ⟨txts, rfl, hm⟩ := h3
    simp only [c07n_evSpans_append, c07n_evSpans_texts, c07n_itemLabels]
    rfl

/-! ### the document -/

/-- the labels of a document whose blocks are the token lists `tds`: each `>>` line at the offset of its
    first token -/
def c07n_labelsT : List (List Tok × List Tok) → List (DocItem × List Tok) → List Span
  | td :: tr, d :: r => c07n_itemLabels (baseOff td.1) d.1 ++ c07n_labelsT tr r
  | _, _ => []

/-- **the labels of a document printed from byte offset `o` on**: one per `>>` line, in document order;
    the label of a line is `c07n_metaSpan` at the byte offset of the line, which is `o` plus the byte length
    of everything printed before it (blocks and separators) -/
def c07n_labels (o : Nat) : List (DocItem × List Tok) → List Span
  | [] => []
  | d :: r => c07n_itemLabels o d.1 ++ c07n_labels (o + utf8Len (render (d.1.spell ++ d.2))) r

/-- running the blocks of a document one after the other (as `rtd_fold_items`), with the labels -/
theorem c07n_fold_items (cs : CharSpec) (ext : Ext) (doc : List (DocItem × List Tok)) (tds : List (List Tok × List Tok))
    (hF : All2 (fun (td : List Tok × List Tok) (d : DocItem × List Tok) =>
      Spells td.1 d.1.spell ∧ Spells td.2 d.2) tds doc)
    (hok : ∀ d ∈ doc, d.1.ok cs ext = true) (hrun : ∀ td ∈ tds, RunAt (baseOff td.1) td.1)
    (hne : ∀ td ∈ tds, ∀ t ∈ td.1, t.text ≠ []) :
    ∀ (evs0 : Array (Ev α)) (panic : Option String), ∃ (evss : List (List (Ev α))) (arr : Array (Ev α)),
      (tds.map (·.1)).foldl (fun acc b => runBlock cs ext true b acc.1 acc.2) (evs0, panic) = (arr, panic) ∧
      arr.toList = evs0.toList ++ evss.flatten ∧
      c07n_evSpans evss.flatten = c07n_labelsT tds doc := by
  induction hF with
  | nil => intro evs0 panic; exact ⟨[], evs0, rfl, by simp, rfl⟩
  | @cons td d tds' doc' hd htl ih =>
    intro evs0 panic
    obtain ⟨evs, arr1, h1, h2, -, h4⟩ := c07n_runBlock_item cs ext d.1 (hok d (by simp)) td.1 hd.1
      (hrun td (by simp)) (hne td (by simp)) evs0 panic
    obtain ⟨evss, arr, g1, g2, g3⟩ := ih (fun x hx => hok x (by simp [hx])) (fun x hx => hrun x (by simp [hx]))
      (fun x hx => hne x (by simp [hx])) arr1 panic
    refine ⟨evs :: evss, arr, ?_, ?_, ?_⟩
    · simp only [List.map_cons, List.foldl_cons, h1]; exact g1
    · rw [g2, h2]; simp
    · rw [List.flatten_cons, c07n_evSpans_append, h4, g3]; rfl

/-- the offset of each `>>` line is the byte length of what is printed before it -/
theorem c07n_labelsT_eq (tds : List (List Tok × List Tok)) (doc : List (DocItem × List Tok))
    (hF : All2 (fun (td : List Tok × List Tok) (d : DocItem × List Tok) =>
      Spells td.1 d.1.spell ∧ Spells td.2 d.2) tds doc) :
    ∀ off, Chain off (docToks tds) → c07n_labelsT tds doc = c07n_labels off doc := by
  induction hF with
  | nil => intro off _; rfl
  | @cons td d tds' doc' hd htl ih =>
    intro off hch
    simp only [docToks] at hch
    obtain ⟨hc1, hc2⟩ := (chain_append off _ _).1 hch
    have hl : lastStop off (td.1 ++ td.2) = off + utf8Len (render (d.1.spell ++ d.2)) := by
      rw [chain_lastStop hc1]
      have := (hd.1.append hd.2).render_eq
      unfold render at this
      rw [this]; rfl
    rw [hl] at hc2
    simp only [c07n_labelsT, c07n_labels]
    rw [ih _ hc2]
    congr 1
    cases hdd : d.1 with
    | metaLine k v p =>
      have hs := hd.1
      rw [hdd] at hs
      simp only [DocItem.spell, spellMeta, List.append_assoc, List.cons_append, List.nil_append] at hs
      obtain ⟨tm, r, hts, -, -, -⟩ := hs.cons_inv
      have hb : baseOff td.1 = off := by
        rw [hts] at hc1 ⊢
        simp only [List.cons_append] at hc1
        simp only [baseOff, List.head?_cons, Option.map_some, Option.getD_some]
        exact hc1.1
      rw [hb]
    | _ => rfl

theorem c07n_lex_nonempty (cs : CharSpec) (off : Nat) (s : List Char) : ∀ t ∈ lexFrom cs off s, t.text ≠ [] := by
  intro t ht h0
  obtain ⟨next, hsp⟩ := lexFrom_kind_text cs off s t ht
  rw [h0] at hsp
  simp [spellOK] at hsp

theorem c07n_mem_docToks (tds : List (List Tok × List Tok)) : ∀ td ∈ tds, ∀ t ∈ td.1, t ∈ docToks tds := by
  induction tds with
  | nil => intro td h; cases h
  | cons d r ih =>
    intro td hm t ht
    simp only [List.mem_cons] at hm
    simp only [docToks, List.mem_append]
    rcases hm with rfl | hm
    · exact Or.inl (Or.inl ht)
    · exact Or.inr (ih td hm t ht)

/-- **Document level, with the labels** (same hypotheses as `rtd_pullEvents_doc`): the entry spans of the
    metadata events `pullEvents` delivers are the labels `c07n_labels` computed from the abstract document,
    starting at the byte length of the leading blank lines. -/
theorem c07n_pullEvents_doc (cs : CharSpec) (ext : Ext) (pre : List Tok) (doc : List (DocItem × List Tok))
    (hpre : blankLinesOK pre = true) (hok : ∀ d ∈ doc, d.1.ok cs ext = true)
    (hseps : sepsOK (doc.map (·.2)) = true) (hw : WellSpelled cs (pre ++ docSpec doc))
    (hfm : parseFrontmatter cs (render (pre ++ docSpec doc)) = none) :
    ∃ arr : Array (Ev α), pullEvents (α := α) cs ext (render (pre ++ docSpec doc)) = (arr, none) ∧
      c07n_evSpans arr.toList = c07n_labels (utf8Len (render pre)) doc := by
  obtain ⟨hsp, hrun⟩ := rtin_lex_spells cs 0 (pre ++ docSpec doc) hw
  have hnonempty := c07n_lex_nonempty cs 0 (render (pre ++ docSpec doc))
  generalize hts : lexFrom cs 0 (render (pre ++ docSpec doc)) = ts at hsp hrun hnonempty
  have hlex : lex cs (render (pre ++ docSpec doc)) = ts := hts
  obtain ⟨tpre, tdoc, rfl, hsp1, hsp2⟩ := hsp.append_inv
  obtain ⟨tds, rfl, hF⟩ := rtd_spells_doc (fun d : DocItem × List Tok => (d.1.spell, d.2)) doc tdoc hsp2
  have hdoc : docOK tds = true := by
    rw [rtd_docOK_transfer _ tds doc hF]
    apply rtd_docOK_intro (doc.map (fun d : DocItem × List Tok => (d.1.spell, d.2)))
    · intro d hd
      obtain ⟨x, hx, rfl⟩ := List.mem_map.1 hd
      exact rtd_item_shape cs ext x.1 (hok x hx)
    · simpa [List.map_map, Function.comp_def] using hseps
  have hbl : BlankLines tpre := rtd_blankLinesOK_facts tpre (by rw [rtd_blankLinesOK_transfer hsp1]; exact hpre)
  have hall := rtd_allBlocks_doc tds hdoc tpre hbl
  have hruns := rtd_doc_runs tds 0 tpre hrun
  obtain ⟨evss, arr, g1, g2, g3⟩ := c07n_fold_items (α := α) cs ext doc tds hF hok hruns
    (fun td htd t ht => hnonempty t (List.mem_append_right _ (c07n_mem_docToks tds td htd t ht))) #[] none
  refine ⟨arr, ?_, ?_⟩
  · unfold pullEvents
    simp only [hfm, hlex, hall]
    exact g1
  · obtain ⟨hc1, hc2⟩ := (chain_append 0 tpre (docToks tds)).1 hrun.1
    have hl : lastStop 0 tpre = utf8Len (render pre) := by
      rw [chain_lastStop hc1, Nat.zero_add]
      have := hsp1.render_eq
      unfold render at this
      rw [this]; rfl
    rw [hl] at hc2
    rw [g2, ← c07n_labelsT_eq tds doc hF _ hc2, ← g3]
    simp

/-! ### end to end -/

/-- **The labels of the `>>` notice, end to end** (hypotheses of `rtx_parseRecipe_doc`): the diagnostics of
    `parse` are the deprecation notice whose labels are `c07n_labels`, computed from the abstract document. -/
theorem c07n_parseRecipe_doc (env : Env) (pre : List Tok) (doc : List (DocItem × List Tok))
    (hpre : blankLinesOK pre = true) (hok : ∀ d ∈ doc, d.1.ok env.cs env.ext = true)
    (hsimple : ∀ d ∈ doc, d.1.simple = true) (hplain : ∀ d ∈ doc, d.1.plain env)
    (hext : ∀ d ∈ doc, d.1.extOK α env)
    (hseps : sepsOK (doc.map (·.2)) = true) (hw : WellSpelled env.cs (pre ++ docSpec doc))
    (hfm : parseFrontmatter env.cs (render (pre ++ docSpec doc)) = none) :
    (parseRecipe (α := α) env (render (pre ++ docSpec doc))).diags =
      deprecation (c07n_labels (utf8Len (render pre)) doc) := by
  obtain ⟨blocks0, evss, arr, -, -, hpe, harr, hevs⟩ :=
    rtd_pullEvents_doc (α := α) env.cs env.ext pre doc hpre hok hseps hw hfm
  obtain ⟨blocks, e1, e2, e3⟩ := rtx_doc_blocks env doc evss hevs hok hsimple hplain hext
  obtain ⟨c, h1, -, -, -, -, -, h7, -, -⟩ := rts_parseEvents_doc env (render (pre ++ docSpec doc)) blocks e2
  obtain ⟨arr', hpe', hsp⟩ := c07n_pullEvents_doc (α := α) env.cs env.ext pre doc hpre hok hseps hw hfm
  have ha : arr' = arr := by
    rw [hpe] at hpe'
    exact (congrArg Prod.fst hpe').symm
  rw [ha, harr, e1, c07n_evSpans_blocks] at hsp
  have hres : parseRecipe (α := α) env (render (pre ++ docSpec doc)) = ⟨some c, c.diags, none⟩ := by
    unfold parseRecipe
    simp only [hpe, harr, e1]
    rw [h1]
  rw [hres]
  show c.diags = _
  rw [h7, hsp]

/-- … and for documents with references (hypotheses of `rtdr_parseRecipe_doc`) -/
theorem c07n_parseRecipe_doc_refs (env : Env) (pre : List Tok) (doc : List (DocItem × List Tok))
    (hpre : blankLinesOK pre = true) (hok : ∀ d ∈ doc, d.1.ok env.cs env.ext = true)
    (hlock : ∀ d ∈ doc, d.1.lockOK = true) (hplain : ∀ d ∈ doc, d.1.plain env)
    (hext : ∀ d ∈ doc, d.1.extOK α env)
    (hrefs : xOK (α := α) env {} [] ⟨none, []⟩ 1 (doc.map (fun d => d.1.x)))
    (hseps : sepsOK (doc.map (·.2)) = true) (hw : WellSpelled env.cs (pre ++ docSpec doc))
    (hfm : parseFrontmatter env.cs (render (pre ++ docSpec doc)) = none) :
    (parseRecipe (α := α) env (render (pre ++ docSpec doc))).diags =
      deprecation (c07n_labels (utf8Len (render pre)) doc) := by
  obtain ⟨blocks0, evss, arr, -, -, hpe, harr, hevs⟩ :=
    rtd_pullEvents_doc (α := α) env.cs env.ext pre doc hpre hok hseps hw hfm
  obtain ⟨blocks, e1, e2, e3, e4⟩ := rtdr_doc_blocks env doc evss hevs hlock hplain hext
  obtain ⟨c, h1, -, -, -, -, -, h7, -, -⟩ :=
    rtax_parseEvents_doc env (render (pre ++ docSpec doc)) blocks e2 (by rw [e3]; exact hrefs)
  obtain ⟨arr', hpe', hsp⟩ := c07n_pullEvents_doc (α := α) env.cs env.ext pre doc hpre hok hseps hw hfm
  have ha : arr' = arr := by
    rw [hpe] at hpe'
    exact (congrArg Prod.fst hpe').symm
  rw [ha, harr, e1, c07n_evSpans_blocks] at hsp
  have hres : parseRecipe (α := α) env (render (pre ++ docSpec doc)) = ⟨some c, c.diags, none⟩ := by
    unfold parseRecipe
    simp only [hpe, harr, e1]
    rw [h1]
  rw [hres]
  show c.diags = _
  rw [h7, hsp]

/-! ### reading the labels -/

theorem c07n_labels_length (doc : List (DocItem × List Tok)) : ∀ o,
    (c07n_labels o doc).length = ((doc.map (·.1)).filter DocItem.isMeta).length := by
  induction doc with
  | nil => intro o; rfl
  | cons d r ih =>
    intro o
    simp only [c07n_labels, List.length_append, ih, List.map_cons, List.filter_cons]
    cases hd : d.1 <;> simp [c07n_itemLabels, DocItem.isMeta] <;> omega

theorem c07n_docSpec_cons (d : DocItem × List Tok) (r : List (DocItem × List Tok)) :
    docSpec (d :: r) = d.1.spell ++ d.2 ++ docSpec r := by
  simp only [docSpec, List.map_cons, docToks]

theorem c07n_labels_append (A B : List (DocItem × List Tok)) : ∀ o,
    c07n_labels o (A ++ B) = c07n_labels o A ++ c07n_labels (o + utf8Len (render (docSpec A))) B := by
  induction A with
  | nil => intro o; simp [c07n_labels, docSpec, docToks, c07n_render_nil, c07n_utf8Len_nil]
  | cons d r ih =>
    intro o
    simp only [List.cons_append, c07n_labels, ih, List.append_assoc, c07n_docSpec_cons, rtin_render_append,
      utf8Len_append, Nat.add_assoc]

/-- **the label of each `>>` line**: when the document is `A ++ (>> line, sep) :: B`, the label with the
    number of `>>` lines in `A` as index is `c07n_metaSpan` at the byte length of everything printed
    before the line -/
theorem c07n_labels_at (pre : List Tok) (A B : List (DocItem × List Tok)) (k v : List Tok) (p : MPad) (sep : List Tok) :
    (c07n_labels (utf8Len (render pre)) (A ++ (DocItem.metaLine k v p, sep) :: B))[
        ((A.map (·.1)).filter DocItem.isMeta).length]? =
      some (c07n_metaSpan (utf8Len (render (pre ++ docSpec A))) k v p) := by
  rw [c07n_labels_append, ← c07n_labels_length A (utf8Len (render pre)), List.getElem?_append_right (Nat.le_refl _),
    Nat.sub_self]
  simp only [c07n_labels, c07n_itemLabels, List.singleton_append, List.getElem?_cons_zero, rtin_render_append,
    utf8Len_append]

/-- **the label lies on its line**: it starts at or after the end of the `>>` token (exactly there unless a
    block comment follows `>>` immediately), it is not reversed, and it ends at or before the end of the line
    (exactly there unless the line ends with a block comment) -/
theorem c07n_metaSpan_inside (o : Nat) (k v : List Tok) (p : MPad) :
    (c07n_metaSpan o k v p).start = o + 2 + utf8Len (render (p.a.takeWhile c07n_isBC)) ∧
    (c07n_metaSpan o k v p).start ≤ (c07n_metaSpan o k v p).stop ∧
    (c07n_metaSpan o k v p).stop + utf8Len (render (c07n_trailBC p.d)) = o + utf8Len (render (spellMeta k v p)) := by
  have e1 : p.a.takeWhile c07n_isBC ++ p.a.dropWhile c07n_isBC = p.a := List.takeWhile_append_dropWhile
  have e2 := c07n_trail_split p.d
  have u1 : '>'.utf8Size = 1 := by decide
  have r1 : utf8Len (render p.a) = utf8Len (render (p.a.takeWhile c07n_isBC)) + utf8Len (render (p.a.dropWhile c07n_isBC)) := by
    rw [← utf8Len_append, ← rtin_render_append, e1]
  have r2 : utf8Len (render p.d) = utf8Len (render (c07n_dropTrailBC p.d)) + utf8Len (render (c07n_trailBC p.d)) := by
    rw [← utf8Len_append, ← rtin_render_append, ← e2]
  unfold c07n_metaSpan spellMeta
  simp only [List.cons_append, List.nil_append, c07n_render_cons, c07n_render_nil, rtin_render_append, tk,
    utf8Len_append, List.append_assoc, utf8Len_cons, c07n_utf8Len_nil, u1]
  refine ⟨by omega, by omega, by omega⟩

/-- the common case: no block comment directly after `>>` and none at the end of the line (padding made
    of whitespace, or none): the label is exactly the line without its `>>` token -/
theorem c07n_metaSpan_plain (o : Nat) (k v : List Tok) (p : MPad) (ha : p.a.head?.all (fun t => !c07n_isBC t) = true)
    (hd : p.d.getLast?.all (fun t => !c07n_isBC t) = true) :
    c07n_metaSpan o k v p = ⟨o + 2, o + utf8Len (render (spellMeta k v p))⟩ := by
  obtain ⟨h1, -, h3⟩ := c07n_metaSpan_inside o k v p
  have t1 : p.a.takeWhile c07n_isBC = [] := by
    cases hp : p.a with
    | nil => rfl
    | cons x r =>
      rw [hp] at ha
      simp only [List.head?_cons, Option.all_some, Bool.not_eq_true'] at ha
      simp [List.takeWhile_cons, ha]
  have t2 : c07n_trailBC p.d = [] := by
    unfold c07n_trailBC
    cases hp : p.d.reverse with
    | nil => rfl
    | cons x r =>
      have : p.d.getLast? = some x := by rw [List.getLast?_eq_head?_reverse, hp]; rfl
      rw [this] at hd
      simp only [Option.all_some, Bool.not_eq_true'] at hd
      simp [List.takeWhile_cons, hd]
  rw [t1] at h1
  rw [t2] at h3
  simp only [c07n_render_nil, c07n_utf8Len_nil, Nat.add_zero] at h1 h3
  show (⟨(c07n_metaSpan o k v p).start, (c07n_metaSpan o k v p).stop⟩ : Span) = _
  rw [h1, h3]

theorem c07n_docSpec_append (A B : List (DocItem × List Tok)) : docSpec (A ++ B) = docSpec A ++ docSpec B := by
  induction A with
  | nil => simp [docSpec, docToks]
  | cons d r ih => simp only [List.cons_append, c07n_docSpec_cons, ih, List.append_assoc]

/-- **the label of a `>>` line, in byte offsets of the printed text.**  For a document
    `A ++ (>> line, sep) :: B` printed after `pre`, the label whose index is the number of `>>` lines in `A`
    * starts at the byte length of the text printed up to and including the line's `>>` token and the block
      comments that follow it immediately,
    * ends at the byte length of the text printed up to the end of the line without the block comments the
      line ends with,
    hence lies inside the line (after `>>`, before the separator), is not reversed and is within the input;
    and when no block comment follows `>>` directly and none ends the line, the label is exactly the line
    without its `>>` token (padding included). -/
theorem c07n_labels_line (pre : List Tok) (A B : List (DocItem × List Tok)) (k v : List Tok) (p : MPad) (sep : List Tok) :
    ∃ l : Span,
      (c07n_labels (utf8Len (render pre)) (A ++ (DocItem.metaLine k v p, sep) :: B))[
        ((A.map (·.1)).filter DocItem.isMeta).length]? = some l ∧
      l.start = utf8Len (render (pre ++ docSpec A ++ ([tk .metaStart ['>', '>']] ++ p.a.takeWhile c07n_isBC))) ∧
      l.stop = utf8Len (render (pre ++ docSpec A ++ ([tk .metaStart ['>', '>']] ++ p.a ++ k ++ p.b ++
        [tk .colon [':']] ++ p.c ++ v ++ c07n_dropTrailBC p.d))) ∧
      utf8Len (render (pre ++ docSpec A)) + 2 ≤ l.start ∧ l.start ≤ l.stop ∧
      l.stop ≤ utf8Len (render (pre ++ docSpec A ++ spellMeta k v p)) ∧
      utf8Len (render (pre ++ docSpec A ++ spellMeta k v p)) ≤
        utf8Len (render (pre ++ docSpec (A ++ (DocItem.metaLine k v p, sep) :: B))) ∧
      (p.a.head?.all (fun t => !c07n_isBC t) = true → p.d.getLast?.all (fun t => !c07n_isBC t) = true →
        l = ⟨utf8Len (render (pre ++ docSpec A)) + 2, utf8Len (render (pre ++ docSpec A ++ spellMeta k v p))⟩) := by
  obtain ⟨i1, i2, i3⟩ := c07n_metaSpan_inside (utf8Len (render (pre ++ docSpec A))) k v p
  have hlen : utf8Len (render (pre ++ docSpec A ++ spellMeta k v p)) =
      utf8Len (render (pre ++ docSpec A)) + utf8Len (render (spellMeta k v p)) := by
    rw [rtin_render_append, utf8Len_append]
  refine ⟨_, c07n_labels_at pre A B k v p sep, ?_, ?_, by omega, i2, by omega, ?_, ?_⟩
  · simp only [c07n_metaSpan, rtin_render_append, utf8Len_append]
  · simp only [c07n_metaSpan, rtin_render_append, utf8Len_append]
  · simp only [c07n_docSpec_append, c07n_docSpec_cons, DocItem.spell, rtin_render_append, utf8Len_append]
    omega
  · intro ha hd
    rw [c07n_metaSpan_plain _ k v p ha hd]
    simp only [rtin_render_append, utf8Len_append]

end Cook
