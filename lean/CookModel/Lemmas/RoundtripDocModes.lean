import CookModel.Lemmas.RoundtripDocRefs
import CookModel.Lemmas.RoundtripModes3
/-
  C01, end to end for documents WITH mode-switch lines: characters → lexer → splitter → block parser →
  analysis.  A `>>` line of the abstract document whose key is `[mode]` / `[define]` / `[duplicate]` (under
  MODES) with an accepted value is a switch (`metaLineY`); the result is `yRun` of the abstract document
  described by `DocItem.y`.  (`rtdm_` prefix.)
-/
set_option linter.unusedSectionVars false
set_option linter.unusedSimpArgs false
set_option linter.unusedVariables false
namespace Cook

variable {α : Type} [Arith α]

/-- what a `>> key: value` line is for the analysis: under MODES a `[mode]` / `[define]` line with an accepted
    value selects the define mode, a `[duplicate]` line with an accepted value the duplicate mode; every other
    line is an entry -/
def metaLineY (env : Env) (k v : List Tok) : YBlock α :=
  if env.ext.has Gen.EXT_MODES = true ∧ (leafText k = "[mode]".toList ∨ leafText k = "[define]".toList) then
    match defineModeOf (leafText v) with
    | some m => .define m
    | none => .entry (leafText k) (leafText v)
  else if env.ext.has Gen.EXT_MODES = true ∧ leafText k = "[duplicate]".toList then
    match duplicateModeOf (leafText v) with
    | some m => .duplicate m
    | none => .entry (leafText k) (leafText v)
  else .entry (leafText k) (leafText v)

/-- an abstract block as the analysis reads it, mode switches included -/
def DocItem.y (env : Env) : DocItem → YBlock α
  | .step segs => .step (segs.map SegX.x)
  | .sectionLine name _ => .sect (name.map leafText)
  | .metaLine k v _ => metaLineY env k v
  | .para lines => .para (lines.flatMap PLine.text)

/-- `SegX.extOK` by define mode: a text run has to be free of inline quantities only where it becomes a step
    item (modes `all`, `steps`) -/
def SegX.extOKM (α : Type) [Arith α] (env : Env) (dm : DefineMode) : SegX → Prop
  | .text l => dm = .all ∨ dm = .steps → SegX.extOK α env (.text l)
  | .ingredient c p => SegX.extOK α env (.ingredient c p)
  | .ingredient1 c => SegX.extOK α env (.ingredient1 c)
  | .ingredientI a b i p c q => SegX.extOK α env (.ingredientI a b i p c q)
  | .cookware c p => SegX.extOK α env (.cookware c p)
  | .cookware1 c => SegX.extOK α env (.cookware1 c)
  | .timer c p => SegX.extOK α env (.timer c p)

/-- is the `>>` line a metadata entry (not a switch) -/
def DocItem.isEntry (α : Type) [Arith α] (env : Env) : DocItem → Bool
  | .metaLine k v _ =>
    match metaLineY (α := α) env k v with
    | .entry _ _ => true
    | _ => false
  | _ => false

/-- the side conditions of the abstract document that do not depend on the tables, threading the define
    mode: scaling locks (`SegX.lockOK`), the extension conditions (`SegX.extOKM`), and every `>>` line is a
    switch the code accepts or a plain entry (`DocItem.plain`) -/
def docSideOK (α : Type) [Arith α] (env : Env) : DefineMode → List DocItem → Prop
  | _, [] => True
  | dm, .step segs :: r =>
    (∀ sg ∈ segs, sg.lockOK = true) ∧ (∀ sg ∈ segs, sg.extOKM α env dm) ∧ docSideOK α env dm r
  | dm, .metaLine k v p :: r =>
    match metaLineY (α := α) env k v with
    | .define m => docSideOK α env m r
    | .duplicate _ => docSideOK α env dm r
    | _ => (DocItem.metaLine k v p).plain env ∧ docSideOK α env dm r
  | dm, .sectionLine _ _ :: r => docSideOK α env dm r
  | dm, .para _ :: r => docSideOK α env dm r

theorem rtdm_side (env : Env) (dm : DefineMode) (seg : SegX) (it : SItem α) (h : SegXEv env.cs seg it.ev)
    (hl : seg.lockOK = true) (hx : seg.extOKM α env dm) : it.SideOKM env dm := by
  cases it with
  | text t =>
    cases seg <;> simp only [SItem.ev, SegXEv] at h
    intro hdm
    exact rtdr_side env (.text _) (.text t) (by simpa [SItem.ev, SegXEv] using h) hl (hx hdm)
  | timer lt =>
    cases seg <;> simp only [SItem.ev, SegXEv] at h
    rename_i c p
    exact rtdr_side env (.timer c p) (.timer lt) (by simpa [SItem.ev, SegXEv] using h) hl hx
  | ingredient li =>
    cases seg <;> simp only [SItem.ev, SegXEv] at h
    · exact rtdr_qty_lock env.cs _ _ h.2.2.2.2.2 hl
    · exact rtdr_qty_lock env.cs _ _ h.2.2.2.2.2 hl
    · exact rtdr_qty_lock env.cs _ _ h.2.2.2.2.2 hl
  | cookware lc =>
    cases seg <;> simp only [SItem.ev, SegXEv] at h
    · exact rtdr_cwqty_lock _ _ h.2.2.2.2 hl
    · exact rtdr_cwqty_lock _ _ h.2.2.2.2 hl

theorem rtdm_items_side (env : Env) (dm : DefineMode) (segs : List SegX) (st : List (SItem α))
    (h : SegsItems env.cs segs st) (hl : ∀ sg ∈ segs, sg.lockOK = true) (hx : ∀ sg ∈ segs, sg.extOKM α env dm) :
    ∀ it ∈ st, it.SideOKM env dm := by
  induction h with
  | nil => intro it hit; cases hit
  | @cons seg it segs' st' hd _ ih =>
    intro y hy
    simp only [List.mem_cons] at hy
    rcases hy with rfl | hy
    · exact rtdm_side env dm seg y hd (hl seg (by simp)) (hx seg (by simp))
    · exact ih (fun sg hsg => hl sg (by simp [hsg])) (fun sg hsg => hx sg (by simp [hsg])) y hy

theorem rtdm_metaLineY_define (env : Env) (k v : List Tok) (m : DefineMode)
    (h : metaLineY (α := α) env k v = .define m) :
    env.ext.has Gen.EXT_MODES = true ∧ (leafText k = "[mode]".toList ∨ leafText k = "[define]".toList) ∧
    defineModeOf (leafText v) = some m := by
  unfold metaLineY at h
  split at h
  · rename_i hc
    split at h
    · rename_i m' hm'
      cases h
      exact ⟨hc.1, hc.2, hm'⟩
    · cases h
  · split at h
    · split at h <;> cases h
    · cases h

theorem rtdm_metaLineY_duplicate (env : Env) (k v : List Tok) (m : DuplicateMode)
    (h : metaLineY (α := α) env k v = .duplicate m) :
    env.ext.has Gen.EXT_MODES = true ∧ leafText k = "[duplicate]".toList ∧
    duplicateModeOf (leafText v) = some m := by
  unfold metaLineY at h
  split at h
  · split at h <;> cases h
  · split at h
    · rename_i hc
      split at h
      · rename_i m' hm'
        cases h
        exact ⟨hc.1, hc.2, hm'⟩
      · cases h
    · cases h

/-- a plain `>>` line is an entry for `metaLineY` -/
theorem rtdm_metaLineY_plain (env : Env) (k v : List Tok) (p : MPad) (hp : (DocItem.metaLine k v p).plain env) :
    metaLineY (α := α) env k v = .entry (leafText k) (leafText v) := by
  have hnc := hp.1
  unfold metaLineY
  split
  · rename_i hc
    exfalso
    apply hnc
    rcases hc.2 with h | h <;> rw [h] <;> exact ⟨hc.1, by decide, by decide⟩
  · split
    · rename_i hc
      exfalso
      apply hnc
      rw [hc.2]
      exact ⟨hc.1, by decide, by decide⟩
    · rfl

theorem rtdm_doc_blocks (env : Env) (doc : List (DocItem × List Tok)) (evss : List (List (Ev α)))
    (h : All2 (fun (d : DocItem × List Tok) evs => DocItemEvs env.cs d.1 evs) doc evss) :
    ∀ (dm : DefineMode), docSideOK α env dm (doc.map (·.1)) →
    ∃ blocks : List (NBlock α), evss.flatten = blocks.flatMap NBlock.events ∧ nSideOK env dm blocks ∧
      blocks.map (NBlock.y env) = doc.map (fun d => d.1.y env) ∧
      (nEntries blocks).length = ((doc.map (·.1)).filter (DocItem.isEntry α env)).length := by
  induction h with
  | nil => intro dm _; exact ⟨[], rfl, trivial, rfl, rfl⟩
  | @cons d evs doc' evss' hd _ ih =>
    intro dm hside
    obtain ⟨d1, d2⟩ := d
    cases d1 with
    | step segs =>
      simp only [List.map_cons, docSideOK] at hside
      obtain ⟨hl, hx, hr⟩ := hside
      obtain ⟨blocks, e1, e2, e3, e4⟩ := ih dm hr
      obtain ⟨e, rfl, hsegs⟩ := hd
      obtain ⟨st, rfl, h2⟩ := rtdr_segs_items env.cs segs e hsegs
      refine ⟨.plain (.step st) :: blocks, ?_, ⟨rtdm_items_side env dm segs st h2 hl hx, e2⟩, ?_, ?_⟩
      · simp [e1, NBlock.events, SBlock.events, stepEvents]
      · simp only [List.map_cons, NBlock.y, DocItem.y, rtdr_items_x env segs st h2, e3]
      · simp [nEntries, List.filter_cons, DocItem.isEntry, e4]
    | sectionLine name p =>
      simp only [List.map_cons, docSideOK] at hside
      obtain ⟨blocks, e1, e2, e3, e4⟩ := ih dm hside
      obtain ⟨ev, rfl, hm⟩ := hd
      cases ev <;> simp only [SectionMatches] at hm
      rename_i t
      refine ⟨.plain (.sect t) :: blocks, ?_, e2, ?_, ?_⟩
      · simp [e1, NBlock.events, SBlock.events]
      · simp only [List.map_cons, NBlock.y, DocItem.y, hm, e3]
      · simp [nEntries, List.filter_cons, DocItem.isEntry, e4]
    | para lines =>
      simp only [List.map_cons, docSideOK] at hside
      obtain ⟨blocks, e1, e2, e3, e4⟩ := ih dm hside
      obtain ⟨ts, rfl, hm⟩ := hd
      refine ⟨.plain (.para ts) :: blocks, ?_, e2, ?_, ?_⟩
      · simp [e1, NBlock.events, SBlock.events]
      · simp only [List.map_cons, NBlock.y, DocItem.y, e3]
        rw [List.flatMap_def, List.flatMap_def, hm]
      · simp [nEntries, List.filter_cons, DocItem.isEntry, e4]
    | metaLine k v p =>
      simp only [List.map_cons, docSideOK] at hside
      obtain ⟨ev, rfl, hm⟩ := hd
      cases ev <;> simp only [MetaMatches] at hm
      rename_i kt vt
      obtain ⟨h1, h2, h3⟩ := hm
      cases hy : metaLineY (α := α) env k v with
      | define m =>
        rw [hy] at hside
        obtain ⟨blocks, e1, e2, e3, e4⟩ := ih m hside
        obtain ⟨a1, a2, a3⟩ := rtdm_metaLineY_define env k v m hy
        refine ⟨.define kt vt m :: blocks, ?_, ⟨⟨a1, by rw [h1]; exact a2, by rw [h3]; exact a3⟩, e2⟩, ?_, ?_⟩
        · simp [e1, NBlock.events]
        · simp only [List.map_cons, NBlock.y, DocItem.y, hy, e3]
        · simp [nEntries, List.filter_cons, DocItem.isEntry, hy, e4]
      | duplicate m =>
        rw [hy] at hside
        obtain ⟨blocks, e1, e2, e3, e4⟩ := ih dm hside
        obtain ⟨a1, a2, a3⟩ := rtdm_metaLineY_duplicate env k v m hy
        refine ⟨.duplicate kt vt m :: blocks, ?_, ⟨⟨a1, by rw [h1]; exact a2, by rw [h3]; exact a3⟩, e2⟩, ?_, ?_⟩
        · simp [e1, NBlock.events]
        · simp only [List.map_cons, NBlock.y, DocItem.y, hy, e3]
        · simp [nEntries, List.filter_cons, DocItem.isEntry, hy, e4]
      | step st => rw [hy] at hside; exact absurd (rtdm_metaLineY_plain (α := α) env k v p hside.1) (by rw [hy]; simp)
      | sect nm => rw [hy] at hside; exact absurd (rtdm_metaLineY_plain (α := α) env k v p hside.1) (by rw [hy]; simp)
      | para s => rw [hy] at hside; exact absurd (rtdm_metaLineY_plain (α := α) env k v p hside.1) (by rw [hy]; simp)
      | entry k' v' =>
        rw [hy] at hside
        obtain ⟨hp, hr⟩ := hside
        obtain ⟨blocks, e1, e2, e3, e4⟩ := ih dm hr
        have hy' := rtdm_metaLineY_plain (α := α) env k v p hp
        refine ⟨.plain (.entry kt vt) :: blocks, ?_, ⟨⟨?_, ?_⟩, e2⟩, ?_, ?_⟩
        · simp [e1, NBlock.events, SBlock.events]
        · rw [h1]; exact hp.1
        · rw [h1, h3]; exact hp.2
        · simp only [List.map_cons, NBlock.y, DocItem.y, hy', h1, h3, e3]
        · simp [nEntries, List.filter_cons, DocItem.isEntry, hy, e4]

/-- End to end for a document with mode-switch lines. -/
theorem rtdm_parseRecipe_doc (env : Env) (pre : List Tok) (doc : List (DocItem × List Tok))
    (hpre : blankLinesOK pre = true) (hok : ∀ d ∈ doc, d.1.ok env.cs env.ext = true)
    (hside : docSideOK α env .all (doc.map (·.1)))
    (hrefs : yOKB (α := α) env .all .new {} [] ⟨none, []⟩ 1 (doc.map (fun d => d.1.y env)) = true)
    (hseps : sepsOK (doc.map (·.2)) = true) (hw : WellSpelled env.cs (pre ++ docSpec doc))
    (hfm : parseFrontmatter env.cs (render (pre ++ docSpec doc)) = none) :
    ∃ (c : Col α) (spans : List Span),
      parseRecipe env (render (pre ++ docSpec doc)) = ⟨some c, c.diags, none⟩ ∧
      c.sections = (yRun (α := α) env .all .new {} [] ⟨none, []⟩ 1 [] (doc.map (fun d => d.1.y env))).secs ∧
      c.ingredients = (yRun (α := α) env .all .new {} [] ⟨none, []⟩ 1 [] (doc.map (fun d => d.1.y env))).T.ing ∧
      c.cookware = (yRun (α := α) env .all .new {} [] ⟨none, []⟩ 1 [] (doc.map (fun d => d.1.y env))).T.cw ∧
      c.timers = (yRun (α := α) env .all .new {} [] ⟨none, []⟩ 1 [] (doc.map (fun d => d.1.y env))).T.tm ∧
      c.metaMap = (yRun (α := α) env .all .new {} [] ⟨none, []⟩ 1 [] (doc.map (fun d => d.1.y env))).metaMap ∧
      c.diags = deprecation spans ∧
      spans.length = ((doc.map (·.1)).filter (DocItem.isEntry α env)).length ∧
      c.inlineQ = #[] ∧ c.frontMatter = none := by
  obtain ⟨blocks0, evss, arr, -, -, hpe, harr, hevs⟩ :=
    rtd_pullEvents_doc (α := α) env.cs env.ext pre doc hpre hok hseps hw hfm
  obtain ⟨blocks, e1, e2, e3, e4⟩ := rtdm_doc_blocks env doc evss hevs .all hside
  obtain ⟨c, h1, h2, h3, h4, h5, h6, h7, h8, h9⟩ :=
    rtq_parseEvents_doc env (render (pre ++ docSpec doc)) blocks e2 (by rw [e3]; exact hrefs)
  rw [e3] at h2 h3 h4 h5 h6
  refine ⟨c, docSpans (nEntries blocks), ?_, h2, h3, h4, h5, h6, h7, by simp [docSpans, e4], h8, h9⟩
  unfold parseRecipe
  simp only [hpe, harr, e1]
  rw [h1]

/-! ### the side conditions as a computable check -/

/-- `DocItem.plain` as a check -/
def plainB (env : Env) (k v : List Tok) : Bool :=
  !(env.ext.has Gen.EXT_MODES && (leafText k).head? == some '[' && (leafText k).getLast? == some ']') &&
  (match StdKey.ofStr (String.ofList (leafText k)) with
   | none => true
   | some sk => decide (env.stdCheck sk (leafText v) ≠ .rejected) && !stdKeyIsTime sk)

theorem rtdm_plainB (env : Env) (k v : List Tok) (p : MPad) (h : plainB env k v = true) :
    (DocItem.metaLine k v p).plain env := by
  unfold plainB at h
  simp only [Bool.and_eq_true, Bool.not_eq_true'] at h
  obtain ⟨h1, h2⟩ := h
  refine ⟨?_, ?_⟩
  · rintro ⟨a, b, c⟩
    simp [a, b, c] at h1
  · intro sk hsk
    rw [hsk] at h2
    simp only [Bool.and_eq_true, decide_eq_true_eq, Bool.not_eq_true'] at h2
    exact h2

/-- the table-independent side conditions without the extension part: scaling locks, and every `>>` line is an
    accepted switch or a plain entry -/
def docSideB (α : Type) [Arith α] (env : Env) : DefineMode → List DocItem → Bool
  | _, [] => true
  | dm, .step segs :: r => segs.all SegX.lockOK && docSideB α env dm r
  | dm, .metaLine k v _ :: r =>
    match metaLineY (α := α) env k v with
    | .define m => docSideB α env m r
    | .duplicate _ => docSideB α env dm r
    | _ => plainB env k v && docSideB α env dm r
  | dm, .sectionLine _ _ :: r => docSideB α env dm r
  | dm, .para _ :: r => docSideB α env dm r

theorem rtdm_docSideOK_intro (env : Env) (hx : ∀ (dm : DefineMode) (sg : SegX), sg.extOKM α env dm) :
    ∀ (items : List DocItem) (dm : DefineMode), docSideB α env dm items = true → docSideOK α env dm items := by
  intro items
  induction items with
  | nil => intro _ _; trivial
  | cons d r ih =>
    intro dm h
    cases d with
    | step segs =>
      simp only [docSideB, Bool.and_eq_true, List.all_eq_true] at h
      exact ⟨h.1, fun sg _ => hx dm sg, ih dm h.2⟩
    | sectionLine name p => exact ih dm h
    | para lines => exact ih dm h
    | metaLine k v p =>
      simp only [docSideB] at h
      simp only [docSideOK]
      cases hy : metaLineY (α := α) env k v <;> rw [hy] at h <;> simp only [Bool.and_eq_true] at h
      · exact ⟨rtdm_plainB env k v p h.1, ih dm h.2⟩
      · exact ⟨rtdm_plainB env k v p h.1, ih dm h.2⟩
      · exact ⟨rtdm_plainB env k v p h.1, ih dm h.2⟩
      · exact ⟨rtdm_plainB env k v p h.1, ih dm h.2⟩
      · exact ih _ h
      · exact ih dm h

/-- with INLINE_QUANTITIES and ADVANCED_UNITS off the extension conditions are vacuous -/
theorem rtdm_extOKM_off (env : Env) (h1 : env.ext.has Gen.EXT_INLINE_QUANTITIES = false)
    (h2 : env.ext.has Gen.EXT_ADVANCED_UNITS = false) (dm : DefineMode) (sg : SegX) : sg.extOKM α env dm := by
  cases sg <;> simp [SegX.extOKM, SegX.extOK, h1, h2]

end Cook
