import CookModel.Lemmas.LooseAnalysis
/-
  C17, wave 5 (tag `bl17`): filler (block comments, blanks) INSIDE the name, the alias and the note
  of a component, through the component parsers.

  `FillerIn lF l`: the token list `lF` is the text leaf `l` (name, alias, note, unit: words and
  single blanks) with a run `F` of block comments / blank whitespace tokens inserted behind one of
  its blanks — what `olive [- c -] oil` is to `olive oil`.  `CompFiller cF c`: the component `cF` is
  the component `c` with such insertions in its name, alias and note.

  `bl17_comp_steps` redoes the shared part of the ingredient / cookware round trip
  (`rt_comp_steps`) for the spelling of `cF`: the parser delimits the same runs (name, alias,
  quantity, note) — the inserted tokens are neither `{`, `|`, `(`, `)` nor markers — and the texts it
  assembles trim to the strings of `c` (`bl17_leaf_text`, from `bl17_loose_after_blank`).  Hence
  `bl17_ingredientP` / `bl17_cookwareP`: the event matches the SAME abstract component
  (`IngrMatches` / `CwMatches`) as the event of the clean spelling, and two events that match the
  same component are `EvLoose`-related (`bl17_ingr_loose`, `bl17_cw_loose`).
-/
set_option linter.unusedSectionVars false
set_option linter.unusedSimpArgs false
set_option linter.unusedVariables false
namespace Cook

variable {α : Type} [Arith α]

/-- a filler token inside a component body: a block comment, or a whitespace token of blanks
    (a line comment needs a line break behind it: that case is `bl17_loose_before_newline`) -/
def bl17Pad (t : Tok) : Prop := t.kind = .blockComment ∨ (t.kind = .ws ∧ ∀ c ∈ t.text, c = ' ')

theorem bl17Pad.filler {t : Tok} (h : bl17Pad t) : A17Filler t := by
  rcases h with h | h
  · exact Or.inl (Or.inl h)
  · exact Or.inr h

/-- `lF` is the leaf `l` with filler inserted behind one of its blanks (`ins`), behind several of them or repeatedly
    (`more`, wave 10), or `l` itself -/
inductive FillerIn : List Tok → List Tok → Prop
  | same (l : List Tok) : FillerIn l l
  | ins (X : List Tok) (w : Tok) (F Y : List Tok) : X ≠ [] → isSpTok w = true → (∀ t ∈ F, bl17Pad t) →
      FillerIn (X ++ w :: (F ++ Y)) (X ++ w :: Y)
  /-- wave 10: a FURTHER insertion, behind a single blank of a list that already carries filler (any number of
      insertion points in one leaf) -/
  | more (X : List Tok) (w : Tok) (F Y l : List Tok) : FillerIn (X ++ w :: Y) l → X ≠ [] → isSpTok w = true →
      (∀ t ∈ F, bl17Pad t) → FillerIn (X ++ w :: (F ++ Y)) l

theorem FillerIn.head {lF l : List Tok} (h : FillerIn lF l) {u : Tok} {r : List Tok} (hl : l = u :: r) :
    ∃ r', lF = u :: r' := by
  induction h with
  | same => exact ⟨r, hl⟩
  | ins X w F Y hX hw hF =>
    cases X with
    | nil => exact absurd rfl hX
    | cons x X' =>
      simp only [List.cons_append, List.cons.injEq] at hl
      exact ⟨X' ++ w :: (F ++ Y), by rw [← hl.1]; rfl⟩
  | more X w F Y l h0 hX hw hF ih =>
    obtain ⟨r0, e⟩ := ih hl
    cases X with
    | nil => exact absurd rfl hX
    | cons x X' =>
      simp only [List.cons_append, List.cons.injEq] at e
      exact ⟨X' ++ w :: (F ++ Y), by rw [← e.1]; rfl⟩

theorem FillerIn.mem {lF l : List Tok} (h : FillerIn lF l) {u : Tok} (hu : u ∈ lF) : u ∈ l ∨ bl17Pad u := by
  induction h with
  | same => exact Or.inl hu
  | ins X w F Y hX hw hF =>
    simp only [List.mem_append, List.mem_cons] at hu ⊢
    rcases hu with hu | hu | hu | hu
    · exact Or.inl (Or.inl hu)
    · exact Or.inl (Or.inr (Or.inl hu))
    · exact Or.inr (hF u hu)
    · exact Or.inl (Or.inr (Or.inr hu))
  | more X w F Y l h0 hX hw hF ih =>
    simp only [List.mem_append, List.mem_cons] at hu
    rcases hu with hu | hu | hu | hu
    · exact ih (by simp [hu])
    · exact ih (by simp [hu])
    · exact Or.inr (hF u hu)
    · exact ih (by simp [hu])

/-- kinds of the actual tokens of a leaf with filler -/
theorem bl17_leaf_kinds {cs : CharSpec} {allowed : TK → Bool} {l lF tl : List Tok} (hl : leafOK cs allowed l = true)
    (hF : FillerIn lF l) (hs : Spells tl lF) :
    ∀ t ∈ tl, allowed t.kind = true ∨ t.kind = .ws ∨ t.kind = .blockComment := by
  intro t ht
  obtain ⟨u, hu, hk, -⟩ := hs.mem ht
  rw [hk]
  rcases hF.mem hu with h | h
  · rcases leaf_tok_kind (leafOK_facts hl) u h with h' | h'
    · exact Or.inl h'
    · exact Or.inr (Or.inl h')
  · rcases h with h | h
    · exact Or.inr (Or.inr h)
    · exact Or.inr (Or.inl h.1)

/-- **the text assembled from a padded leaf with filler**: trimmed it is the leaf's string, and it
    is not empty -/
theorem bl17_leaf_text {cs : CharSpec} {allowed : TK → Bool} {pre l lF post ts : List Tok}
    (hs : Spells ts (pre ++ lF ++ post)) (hpre : padOK cs pre = true) (hpost : padOK cs post = true)
    (hl : leafOK cs allowed l = true) (hF : FillerIn lF l) (hsp : cs.uws ' ' = true) (off : Nat) :
    (buildText off ts).trimmed cs = leafText l ∧ (buildText off ts).isTextEmpty cs = false := by
  induction hF generalizing ts with
  | same => exact rt_leaf_text hs hpre hpost hl off
  | ins X w F Y hX hw hFp =>
    obtain ⟨t1, tpost, rfl, hs1, hspost⟩ := hs.append_inv
    obtain ⟨tpre, t2, rfl, hspre, hs2⟩ := hs1.append_inv
    obtain ⟨tX, t3, rfl, hsX, hs3⟩ := hs2.append_inv
    obtain ⟨tw, t4, rfl, hwk, hwt, hs4⟩ := hs3.cons_inv
    obtain ⟨tF, tY, rfl, hsF, hsY⟩ := hs4.append_inv
    obtain ⟨wk, wt⟩ := isSpTok_facts hw
    have hFill : ∀ t ∈ tF, A17Filler t := by
      intro t ht
      obtain ⟨u, hu, hk, htx⟩ := hsF.mem ht
      rcases hFp u hu with h | h
      · exact Or.inl (Or.inl (by rw [hk]; exact h))
      · exact Or.inr ⟨by rw [hk]; exact h.1, by rw [htx]; exact h.2⟩
    have hloose := bl17_loose_after_blank cs hsp off off (tpre ++ tX) tF (tY ++ tpost) tw (by rw [hwk]; exact wk)
      (by rw [hwt, wt]; simp) (by rw [hwt, wt]; simp) hFill
    have e1 : tpre ++ (tX ++ tw :: (tF ++ tY)) ++ tpost = tpre ++ tX ++ [tw] ++ tF ++ (tY ++ tpost) := by simp
    have hs0 : Spells (tpre ++ tX ++ [tw] ++ (tY ++ tpost)) (pre ++ (X ++ w :: Y) ++ post) := by
      have := ((hspre.append (hsX.append (Spells.append (ta := [tw]) (a := [w])
        (by simp [Spells, Tok.kt, hwk, hwt]) hsY))).append hspost)
      simpa using this
    obtain ⟨h1, h2⟩ := rt_leaf_text hs0 hpre hpost hl off
    rw [e1, hloose.trimmed, hloose.empty]
    exact ⟨h1, h2⟩
  | more X w F Y l h0 hX hw hFp ih =>
    obtain ⟨t1, tpost, rfl, hs1, hspost⟩ := hs.append_inv
    obtain ⟨tpre, t2, rfl, hspre, hs2⟩ := hs1.append_inv
    obtain ⟨tX, t3, rfl, hsX, hs3⟩ := hs2.append_inv
    obtain ⟨tw, t4, rfl, hwk, hwt, hs4⟩ := hs3.cons_inv
    obtain ⟨tF, tY, rfl, hsF, hsY⟩ := hs4.append_inv
    obtain ⟨wk, wt⟩ := isSpTok_facts hw
    have hFill : ∀ t ∈ tF, A17Filler t := by
      intro t ht
      obtain ⟨u, hu, hk, htx⟩ := hsF.mem ht
      rcases hFp u hu with h | h
      · exact Or.inl (Or.inl (by rw [hk]; exact h))
      · exact Or.inr ⟨by rw [hk]; exact h.1, by rw [htx]; exact h.2⟩
    have hloose := bl17_loose_after_blank cs hsp off off (tpre ++ tX) tF (tY ++ tpost) tw (by rw [hwk]; exact wk)
      (by rw [hwt, wt]; simp) (by rw [hwt, wt]; simp) hFill
    have e1 : tpre ++ (tX ++ tw :: (tF ++ tY)) ++ tpost = tpre ++ tX ++ [tw] ++ tF ++ (tY ++ tpost) := by simp
    have hs0 : Spells (tpre ++ tX ++ [tw] ++ (tY ++ tpost)) (pre ++ (X ++ w :: Y) ++ post) := by
      have := ((hspre.append (hsX.append (Spells.append (ta := [tw]) (a := [w])
        (by simp [Spells, Tok.kt, hwk, hwt]) hsY))).append hspost)
      simpa using this
    obtain ⟨h1, h2⟩ := ih hs0 hl
    rw [e1, hloose.trimmed, hloose.empty]
    exact ⟨h1, h2⟩

end Cook
