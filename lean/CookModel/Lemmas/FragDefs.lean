import CookModel.Lemmas.CoverAll
import CookModel.Lemmas.ExtLawsLocal
/-
  C05 at FRAGMENT level, vocabulary.

  The event-level theorems of `Lemmas/CoverAll.lean` speak about SPANS (`Text::span()` = first fragment
  start .. last fragment end, which also spans skipped comments and the backslash of an escape; the span
  of a component = all consumed bytes).  Here "the event CARRIES the bytes `[p, q)`" means: the bytes lie
  inside ONE FRAGMENT of a text the event carries (step text, name, alias, note, unit, the text a text
  value was trimmed from, metadata key / value, section name, front-matter text), or inside the span of a
  non-text datum of a component (its modifiers, the number / range of its quantity).
-/
set_option linter.unusedSectionVars false
set_option linter.unusedSimpArgs false
set_option linter.unusedVariables false
namespace Cook

variable {α : Type} [Arith α]

/-- the bytes `[p, q)` lie inside one fragment of the text -/
def Text.holds (T : Text) (p q : Nat) : Prop := ∃ f ∈ T.frags, f.offset ≤ p ∧ q ≤ f.stop

/-- … of an optional text (which is then present) -/
def OptHolds (o : Option Text) (p q : Nat) : Prop := ∃ T, o = some T ∧ T.holds p q

/-- the bytes `[p, q)` lie inside the span -/
def Span.holds (sp : Span) (p q : Nat) : Prop := sp.start ≤ p ∧ q ≤ sp.stop

/-- the value of a quantity carries the bytes: a number or a range has them inside its span; a text
    value is `text_trimmed` of a text one of whose fragments holds them -/
def ValHolds (cs : CharSpec) (v : Loc (Value α)) (p q : Nat) : Prop :=
  match v.val with
  | .text s => ∃ T : Text, s = T.trimmed cs ∧ T.holds p q
  | _ => v.span.holds p q

/-- value or unit of a quantity -/
def QtyHolds (cs : CharSpec) (qt : PQuantity α) (p q : Nat) : Prop :=
  ValHolds cs qt.value.value p q ∨ OptHolds qt.unit p q

/-- **the event carries the bytes `[p, q)`** -/
def Ev.carries (cs : CharSpec) (ev : Ev α) (p q : Nat) : Prop :=
  match ev with
  | .frontMatter t => t.holds p q
  | .metadata k v => k.holds p q ∨ v.holds p q
  | .«section» n => OptHolds n p q
  | .text t => t.holds p q
  | .ingredient i => i.val.modifiers.span.holds p q ∨ i.val.name.holds p q ∨ OptHolds i.val.alias p q ∨
      OptHolds i.val.note p q ∨ ∃ lq, i.val.quantity = some lq ∧ QtyHolds cs lq.val p q
  | .cookware c => c.val.modifiers.span.holds p q ∨ c.val.name.holds p q ∨ OptHolds c.val.alias p q ∨
      OptHolds c.val.note p q ∨ ∃ lq, c.val.quantity = some lq ∧ ValHolds cs lq.val.value p q
  | .timer t => OptHolds t.val.name p q ∨ ∃ lq, t.val.quantity = some lq ∧ QtyHolds cs lq.val p q
  | _ => False

/-- some event of the queue carries the bytes -/
def Carried (cs : CharSpec) (evs : Array (Ev α)) (p q : Nat) : Prop :=
  ∃ ev ∈ evs.toList, ev.carries cs p q

/-- the queue contains an `Error` event -/
def HasErrEv (evs : Array (Ev α)) : Prop := ∃ d, Ev.error d ∈ evs.toList

theorem Carried.push {cs : CharSpec} {evs : Array (Ev α)} {p q : Nat} (h : Carried cs evs p q) (ev : Ev α) :
    Carried cs (evs.push ev) p q := by
  obtain ⟨e, he, hc⟩ := h
  exact ⟨e, by simp [he], hc⟩

theorem HasErrEv.push {evs : Array (Ev α)} (h : HasErrEv evs) (ev : Ev α) : HasErrEv (evs.push ev) := by
  obtain ⟨d, hd⟩ := h
  exact ⟨d, by simp [hd]⟩

theorem HasErrEv.pushed (evs : Array (Ev α)) (d : Diag) : HasErrEv (evs.push (.error d)) := ⟨d, by simp⟩

/-! ### queue predicates kept by every push -/

/-- a predicate on the event queue that survives every push -/
def UpP (Pv : Array (Ev α) → Prop) : Prop := ∀ evs ev, Pv evs → Pv (evs.push ev)

theorem UpP.andErr {Pv : Array (Ev α) → Prop} (h : UpP Pv) : UpP (fun evs => Pv evs ∧ HasErrEv evs) :=
  fun evs ev ⟨h1, h2⟩ => ⟨h evs ev h1, h2.push ev⟩

theorem upCtx {off : Nat} {w : List Char} {Pv : Array (Ev α) → Prop} {ts : List Tok} (hw : WFI off w ts)
    (hup : UpP Pv) : Ctx off w Pv ts :=
  ⟨hw, fun evs d h _ => ⟨hup _ _ h, hup _ _ h⟩⟩

variable {off : Nat} {w : List Char} {Pv : Array (Ev α) → Prop} {ts : List Tok} {e : Ext} {s : BP α}

/-- after an `Error` was pushed the invariant can be strengthened by "the queue has an error" -/
theorem GE.withErr (h : GE Pv ts e s) (he : HasErrEv s.evs) : GE (fun evs => Pv evs ∧ HasErrEv evs) ts e s :=
  ⟨h.g, h.evs, he⟩

theorem GE.pushUp (hup : UpP Pv) (h : GE Pv ts e s) (ev : Ev α) :
    GE Pv ts e { s with evs := s.evs.push ev } := h.push (hup _ _ h.evs)

/-- pushing an error: the invariant, strengthened -/
theorem GE.pushErr (hup : UpP Pv) (h : GE Pv ts e s) (d : Diag) :
    GE (fun evs => Pv evs ∧ HasErrEv evs) ts e { s with evs := s.evs.push (.error d) } :=
  ⟨h.g.setEvs _, hup _ _ h.evs, HasErrEv.pushed _ _⟩

/-! ### the extension flags the parsers read (for "the character tables are kept") -/

def fragFlags : List Nat := [Gen.EXT_COMPONENT_MODIFIERS, Gen.EXT_INTERMEDIATE_PREPARATIONS,
  Gen.EXT_COMPONENT_ALIAS, Gen.EXT_RANGE_VALUES, Gen.EXT_ADVANCED_UNITS, Gen.EXT_TIMER_REQUIRES_TIME]

theorem fragFlags_1 : Gen.EXT_COMPONENT_MODIFIERS ∈ fragFlags := by simp [fragFlags]
theorem fragFlags_2 : Gen.EXT_INTERMEDIATE_PREPARATIONS ∈ fragFlags := by simp [fragFlags]
theorem fragFlags_3 : Gen.EXT_COMPONENT_ALIAS ∈ fragFlags := by simp [fragFlags]
theorem fragFlags_4 : Gen.EXT_RANGE_VALUES ∈ fragFlags := by simp [fragFlags]
theorem fragFlags_5 : Gen.EXT_ADVANCED_UNITS ∈ fragFlags := by simp [fragFlags]
theorem fragFlags_6 : Gen.EXT_TIMER_REQUIRES_TIME ∈ fragFlags := by simp [fragFlags]

theorem Sat.fragCs {β : Type} {m : P α β} {s : BP α} {Q : β → BP α → Prop} (h : Sat m s Q)
    (hi : IndGA fragFlags m) : Sat m s (fun r s' => Q r s' ∧ s'.cs = s.cs) := ⟨h, (hi.all s).cs⟩

/-! ### tokens -/

/-- a token that can hold a letter or digit outside a comment: a content token (`Wordy`: shows a
    character that is not white space) of kind word, number, punctuation or escape.  The remaining kinds
    are the one-character markers of the syntax (`@ # ~ { } ( ) | % = : …`), `>>`, `>`, white space,
    line breaks and comments. -/
def CoreTok (cs : CharSpec) (t : Tok) : Prop :=
  Wordy cs t ∧ (t.kind = .word ∨ t.kind = .int ∨ t.kind = .zeroInt ∨ t.kind = .punct ∨ t.kind = .escaped)

theorem CoreTok.hasBody {cs : CharSpec} {t : Tok} {l : List Tok} (h : CoreTok cs t) (he : EscapedOK l) (ht : t ∈ l) :
    HasBody t := h.1.hasBody (he t ht)

theorem CoreTok.kindNe {cs : CharSpec} {t : Tok} (h : CoreTok cs t) {k : TK}
    (hk : k ≠ .word ∧ k ≠ .int ∧ k ≠ .zeroInt ∧ k ≠ .punct ∧ k ≠ .escaped) : t.kind ≠ k := by
  intro e
  obtain ⟨k1, k2, k3, k4, k5⟩ := hk
  rcases h.2 with h' | h' | h' | h' | h' <;> rw [e] at h' <;> contradiction

/-- every token with a body of a run lies inside ONE fragment of the text assembled from the run -/
theorem frag_run {o : Nat} {l : List Tok} (hr : RunAt o l) {u : Tok} (hu : u ∈ l) (hb : HasBody u) :
    (buildText o l).holds (tokBodyStart u) u.stop := by
  obtain ⟨f, hf, h1, h2⟩ := cov_buildText o l hr.1 hr.2 u hu hb
  exact ⟨f, hf, h1, h2⟩

/-- a text that holds a content token is not blank -/
theorem frag_run_not_empty {cs : CharSpec} {o : Nat} {l : List Tok} {u : Tok} (hu : u ∈ l) (hc : CoreTok cs u) :
    (buildText o l).isTextEmpty cs = false :=
  buildText_not_empty_vis _ _ ⟨u, hu, hc.1.2.1, hc.1.1⟩

theorem frag_chain_bounds {o : Nat} {l : List Tok} (hc : Chain o l) {t : Tok} (ht : t ∈ l) :
    o ≤ t.start ∧ t.stop ≤ lastStop o l := by
  obtain ⟨a, b, rfl⟩ := List.append_of_mem ht
  rw [chain_append] at hc
  obtain ⟨h1, h2⟩ := hc
  have k1 := chain_le h1
  have k2 : t.start = lastStop o a := h2.1
  have k3 := chain_le h2.2
  rw [lastStop_append, lastStop_cons]
  omega

/-- a token of a non-empty run lies inside the span of the run -/
theorem frag_span_run {o : Nat} {l : List Tok} (hc : Chain o l) {t : Tok} (ht : t ∈ l) :
    (⟨o, lastStop o l⟩ : Span).holds (tokBodyStart t) t.stop := by
  have hb := frag_chain_bounds hc ht
  have := cov_tokBodyStart_ge t
  exact ⟨by show o ≤ tokBodyStart t; omega, hb.2⟩

theorem frag_mem_slice_iff {ts : List Tok} {i j : Nat} {t : Tok} (ht : t ∈ slice ts i j) :
    ∃ n, i ≤ n ∧ n < j ∧ ts[n]? = some t := mem_slice ht

end Cook
