import CookModel.Side.Report
import CookModel.Lemmas.CloseC03
/-
  C04, row 6: the label preparation of `SourceReport::write` (model: Side/Report.lean).

  For every diagnostic whose labels are valid spans of the source (`SpanOK 0 src`, which
  `C04_analysis_labels_ok` gives for every diagnostic `parse` / `parse_metadata` report):
    * the labels handed to the renderer are the diagnostic's labels, sorted by (start, end), each inside the
      source on character boundaries, each with the colour `COLORS[i mod 7]`            (`rprep_handed_over`);
    * no panic site is reached: the colour table is never indexed out of range, no line is indexed out of
      range, `start.line_no ≤ end.line_no`, no slice falls inside a character           (`rprep_no_panic`);
    * the code block is shown iff consecutive sorted labels start strictly after the start and at or after the
      end of the previous one; otherwise the message is printed alone                     (`rprep_accepts_iff`).
-/
set_option linter.unusedVariables false
namespace Cook

/-! ### sorting -/

theorem rprep_le_trans (a b c : Span) (h1 : Span.le a b = true) (h2 : Span.le b c = true) : Span.le a c = true := by
  unfold Span.le at *
  simp only [Bool.or_eq_true, decide_eq_true_eq, Bool.and_eq_true, beq_iff_eq] at *
  omega

theorem rprep_le_total (a b : Span) : (Span.le a b || Span.le b a) = true := by
  unfold Span.le
  simp only [Bool.or_eq_true, decide_eq_true_eq, Bool.and_eq_true, beq_iff_eq]
  omega

theorem rprep_sorted (labels : List Span) : (sortLabels labels).Pairwise (fun a b => Span.le a b = true) :=
  List.pairwise_mergeSort rprep_le_trans rprep_le_total labels

theorem rprep_perm (labels : List Span) : (sortLabels labels).Perm labels := List.mergeSort_perm labels _

/-! ### colours -/

theorem rprep_colorNext_lt (i : Nat) (h : i < 7) : (colorNext i).1.isSome = true ∧ (colorNext i).2 < 7 ∧
    (colorNext i).2 = (i + 1) % 7 := by
  have : i = 0 ∨ i = 1 ∨ i = 2 ∨ i = 3 ∨ i = 4 ∨ i = 5 ∨ i = 6 := by omega
  rcases this with rfl | rfl | rfl | rfl | rfl | rfl | rfl <;> decide

/-- the colour generator never indexes its table out of range, and hands out `COLORS[(i + k) mod 7]` -/
theorem rprep_assignColors (i : Nat) (h : i < 7) (ls : List Span) :
    ∃ cs : List (Span × String), assignColors i ls = some cs ∧ cs.map (·.1) = ls ∧
      ∀ k (hk : k < cs.length), reportColors[(i + k) % 7]? = some (cs[k].2) := by
  induction ls generalizing i with
  | nil => exact ⟨[], rfl, rfl, fun k hk => by simp at hk⟩
  | cons l rest ih =>
    obtain ⟨h1, h2, h3⟩ := rprep_colorNext_lt i h
    obtain ⟨cs, e1, e2, e3⟩ := ih (colorNext i).2 h2
    cases hc : (colorNext i).1 with
    | none => rw [hc] at h1; cases h1
    | some c =>
      refine ⟨(l, c) :: cs, ?_, by simp [e2], ?_⟩
      · simp only [assignColors, hc, e1]
      · intro k hk
        cases k with
        | zero =>
          simp only [Nat.add_zero, List.getElem_cons_zero]
          rw [Nat.mod_eq_of_lt h]
          exact hc
        | succ k =>
          simp only [List.getElem_cons_succ]
          have := e3 k (by simpa using hk)
          rw [h3] at this
          rw [← this]
          congr 1
          omega

/-! ### the line index -/

def joinLines : List (List Char) → List Char
  | [] => []
  | [l] => l
  | l :: r => l ++ '\n' :: joinLines r

theorem rprep_splitLines_ne (s : List Char) : splitLines s ≠ [] := by
  induction s with
  | nil => simp [splitLines]
  | cons c r ih =>
    unfold splitLines
    split
    · simp
    · split <;> simp

theorem rprep_join_split (s : List Char) : joinLines (splitLines s) = s := by
  induction s with
  | nil => rfl
  | cons c r ih =>
    unfold splitLines
    split
    · rename_i h
      have hne := rprep_splitLines_ne r
      cases hs : splitLines r with
      | nil => exact absurd hs hne
      | cons l ls => rw [hs] at ih; subst h; simp [joinLines, ih]
    · cases hs : splitLines r with
      | nil => exact absurd hs (rprep_splitLines_ne r)
      | cons l ls =>
        rw [hs] at ih
        simp only
        cases ls with
        | nil => simp [joinLines] at ih ⊢; exact ih
        | cons l2 ls2 => simp [joinLines] at ih ⊢; exact ih

/-- each line starts one byte after the end of the previous one -/
def LinesOK : Nat → List (Nat × List Char) → Prop
  | _, [] => True
  | s, (st, txt) :: rest => st = s ∧ LinesOK (st + utf8Len txt + 1) rest

theorem rprep_withStarts_ok (s : Nat) (ls : List (List Char)) : LinesOK s (withStarts s ls) := by
  induction ls generalizing s with
  | nil => trivial
  | cons l r ih => exact ⟨rfl, ih _⟩

theorem rprep_linesOK_ge {s : Nat} {idx : List (Nat × List Char)} (h : LinesOK s idx) :
    ∀ p ∈ idx, s ≤ p.1 := by
  induction idx generalizing s with
  | nil => intro p hp; cases hp
  | cons q rest ih =>
    obtain ⟨st, txt⟩ := q
    obtain ⟨h1, h2⟩ := h
    intro p hp
    simp only [List.mem_cons] at hp
    rcases hp with rfl | hp
    · omega
    · have := ih h2 p hp; omega

/-- every line of the index is the slice of the source at its start offset -/
theorem rprep_withStarts_slice (pre : List Char) (ls : List (List Char)) :
    ∀ p ∈ withStarts (utf8Len pre) ls, ∃ a b, pre ++ joinLines ls = a ++ p.2 ++ b ∧ p.1 = utf8Len a := by
  induction ls generalizing pre with
  | nil => intro p hp; cases hp
  | cons l r ih =>
    intro p hp
    simp only [withStarts, List.mem_cons] at hp
    rcases hp with rfl | hp
    · cases r with
      | nil => exact ⟨pre, [], by simp [joinLines], rfl⟩
      | cons l2 r2 => exact ⟨pre, '\n' :: joinLines (l2 :: r2), by simp [joinLines], rfl⟩
    · cases r with
      | nil => simp [withStarts] at hp
      | cons l2 r2 =>
        have e : utf8Len pre + utf8Len l + 1 = utf8Len (pre ++ l ++ ['\n']) := by
          simp only [utf8Len_append]; rfl
        rw [e] at hp
        obtain ⟨a, b, h1, h2⟩ := ih (pre ++ l ++ ['\n']) p hp
        exact ⟨a, b, by rw [← h1]; simp [joinLines], h2⟩

theorem rprep_line_slice (src : List Char) : ∀ p ∈ lineIndex src, SliceAt 0 src p.1 p.2 := by
  intro p hp
  have := rprep_withStarts_slice [] (splitLines src) p (by simpa [lineIndex, utf8Len] using hp)
  obtain ⟨a, b, h1, h2⟩ := this
  rw [List.nil_append, rprep_join_split] at h1
  exact ⟨a, b, h1, by omega⟩

/-! ### `LineIndex::get` -/

theorem rprep_lineOfGo_spec (off : Nat) (n : Nat) (idx : List (Nat × List Char)) (m st : Nat) (txt : List Char)
    (h : reportLineOfGo off n idx = some (m, st, txt)) :
    st ≤ off ∧ off ≤ st + utf8Len txt ∧ n ≤ m ∧ idx[m - n]? = some (st, txt) := by
  induction idx generalizing n with
  | nil => simp [reportLineOfGo] at h
  | cons q rest ih =>
    obtain ⟨st', txt'⟩ := q
    unfold reportLineOfGo at h
    split at h
    · rename_i hc
      simp only [Option.some.injEq, Prod.mk.injEq] at h
      obtain ⟨rfl, rfl, rfl⟩ := h
      exact ⟨hc.1, hc.2, Nat.le_refl _, by simp⟩
    · obtain ⟨h1, h2, h3, h4⟩ := ih (n + 1) h
      refine ⟨h1, h2, by omega, ?_⟩
      have : m - n = (m - (n + 1)) + 1 := by omega
      rw [this, List.getElem?_cons_succ]; exact h4

/-- line numbers are monotone in the offset: `debug_assert!(start.line_no <= end.line_no)` holds -/
theorem rprep_lineOfGo_mono {s : Nat} {idx : List (Nat × List Char)} (hl : LinesOK s idx) (n : Nat)
    {o1 o2 m1 m2 st1 st2 : Nat} {t1 t2 : List Char} (hle : o1 ≤ o2)
    (h1 : reportLineOfGo o1 n idx = some (m1, st1, t1)) (h2 : reportLineOfGo o2 n idx = some (m2, st2, t2)) : m1 ≤ m2 := by
  induction idx generalizing s n with
  | nil => simp [reportLineOfGo] at h1
  | cons q rest ih =>
    obtain ⟨st, txt⟩ := q
    obtain ⟨hs, hrest⟩ := hl
    unfold reportLineOfGo at h1 h2
    split at h1
    · simp only [Option.some.injEq, Prod.mk.injEq] at h1
      obtain ⟨rfl, -, -⟩ := h1
      split at h2
      · simp only [Option.some.injEq, Prod.mk.injEq] at h2
        omega
      · exact Nat.le_trans (Nat.le_succ _) (rprep_lineOfGo_spec _ _ _ _ _ _ h2).2.2.1
    · rename_i hc1
      split at h2
      · rename_i hc2
        exfalso
        obtain ⟨a1, a2, a3, a4⟩ := rprep_lineOfGo_spec _ _ _ _ _ _ h1
        have hm : (st1, t1) ∈ rest := List.mem_of_getElem? a4
        have := rprep_linesOK_ge hrest _ hm
        simp only at this
        omega
      · exact ih hrest (n + 1) h1 h2

/-- every offset up to the end of the source lies on a line -/
theorem rprep_lineOfGo_cover (s : Nat) (ls : List (List Char)) (hne : ls ≠ []) (off n : Nat) (h1 : s ≤ off)
    (h2 : off ≤ s + utf8Len (joinLines ls)) : (reportLineOfGo off n (withStarts s ls)).isSome = true := by
  induction ls generalizing s n with
  | nil => exact absurd rfl hne
  | cons l r ih =>
    unfold withStarts reportLineOfGo
    split
    · rfl
    · rename_i hc
      cases r with
      | nil => simp only [joinLines] at h2; exfalso; apply hc; exact ⟨h1, h2⟩
      | cons l2 r2 =>
        refine ih _ (by simp) _ ?_ ?_
        · omega
        · simp only [joinLines, utf8Len_append, utf8Len_cons] at h2
          have : '\n'.utf8Size = 1 := by decide
          omega

theorem rprep_lineOf_cover (src : List Char) (off : Nat) (h : off ≤ utf8Len src) :
    (reportLineOf (lineIndex src) off).isSome = true := by
  unfold reportLineOf lineIndex
  apply rprep_lineOfGo_cover 0 _ (rprep_splitLines_ne src) off 0 (Nat.zero_le _)
  rw [rprep_join_split]; omega

/-! ### no slice falls inside a character, no index is out of range -/

theorem rprep_slice_ok (src : List Char) (a b : Nat) (ha : Boundary 0 src a) (hb : Boundary 0 src b) (hle : a ≤ b) :
    ∃ t, sliceBytes src a b = some t := by
  have := sliceBytes_onBoundaries src ⟨a, b⟩ (onBoundaries_of_spanOK src ⟨a, b⟩ ⟨ha, hb, hle⟩)
  exact Option.isSome_iff_exists.1 this

theorem rprep_lineOf_mem {idx : List (Nat × List Char)} {off m st : Nat} {txt : List Char}
    (h : reportLineOf idx off = some (m, st, txt)) :
    st ≤ off ∧ off ≤ st + utf8Len txt ∧ (st, txt) ∈ idx ∧ m < idx.length := by
  obtain ⟨h1, h2, h3, h4⟩ := rprep_lineOfGo_spec off 0 idx m st txt h
  rw [Nat.sub_zero] at h4
  refine ⟨h1, h2, List.mem_of_getElem? h4, ?_⟩
  false_or_by_contra
  rename_i hc
  rw [List.getElem?_eq_none (by omega)] at h4
  cases h4

/-- the pieces of a label that is a valid span of the source and whose two ends have index entries -/
theorem rprep_labelPieces_ok (src : List Char) (l : Span) (color : String) (hl : SpanOK 0 src l)
    (h1 : (reportLineOf (lineIndex src) l.start).isSome = true) (h2 : (reportLineOf (lineIndex src) l.stop).isSome = true) :
    ∃ ps, labelPieces src (lineIndex src) l color = .ok ps := by
  obtain ⟨⟨n1, st1, t1⟩, e1⟩ := Option.isSome_iff_exists.1 h1
  obtain ⟨⟨n2, st2, t2⟩, e2⟩ := Option.isSome_iff_exists.1 h2
  obtain ⟨a1, a2, a3, a4⟩ := rprep_lineOf_mem e1
  obtain ⟨b1, b2, b3, b4⟩ := rprep_lineOf_mem e2
  have hmono : n1 ≤ n2 :=
    rprep_lineOfGo_mono (rprep_withStarts_ok 0 (splitLines src)) 0 hl.2.2 e1 e2
  unfold labelPieces
  rw [e1, e2]
  simp only
  rw [if_neg (by omega)]
  by_cases hn : n1 = n2
  · rw [if_pos hn]
    obtain ⟨t, ht⟩ := rprep_slice_ok src l.start l.stop hl.1 hl.2.1 hl.2.2
    rw [ht]
    exact ⟨_, rfl⟩
  · rw [if_neg hn]
    have s1 := rprep_line_slice src _ a3
    have s2 := rprep_line_slice src _ b3
    obtain ⟨ta, hta⟩ := rprep_slice_ok src l.start (st1 + utf8Len t1) hl.1 s1.stop_boundary a2
    obtain ⟨tb, htb⟩ := rprep_slice_ok src st2 l.stop s2.start_boundary hl.2.1 b1
    rw [hta, htb]
    unfold middleLines
    rw [if_pos (by omega)]
    exact ⟨_, rfl⟩

/-- what `Block::new` checked of each label it accepted -/
theorem rprep_accepts_entries (idx : List (Nat × List Char)) (prev : Option Span) (ls : List Span)
    (h : blockAccepts idx prev ls = true) :
    ∀ l ∈ ls, l.start ≤ l.stop ∧ (reportLineOf idx l.start).isSome = true ∧ (reportLineOf idx l.stop).isSome = true := by
  induction ls generalizing prev with
  | nil => intro l hl; cases hl
  | cons x rest ih =>
    simp only [blockAccepts, Bool.and_eq_true, decide_eq_true_eq] at h
    obtain ⟨⟨⟨⟨g1, g2⟩, g3⟩, g4⟩, g5⟩ := h
    intro l hl
    simp only [List.mem_cons] at hl
    rcases hl with rfl | hl
    · exact ⟨g1, g3, g4⟩
    · exact ih _ g5 l hl

theorem rprep_allPieces_ok (src : List Char) (cs : List (Span × String))
    (h : ∀ p ∈ cs, SpanOK 0 src p.1 ∧ (reportLineOf (lineIndex src) p.1.start).isSome = true ∧
      (reportLineOf (lineIndex src) p.1.stop).isSome = true) :
    ∃ ps, allPieces src (lineIndex src) cs = .ok ps := by
  induction cs with
  | nil => exact ⟨[], rfl⟩
  | cons p rest ih =>
    obtain ⟨l, c⟩ := p
    obtain ⟨h1, h2, h3⟩ := h (l, c) List.mem_cons_self
    obtain ⟨a, ha⟩ := rprep_labelPieces_ok src l c h1 h2 h3
    obtain ⟨b, hb⟩ := ih (fun q hq => h q (List.mem_cons_of_mem _ hq))
    unfold allPieces
    rw [ha, hb]
    exact ⟨_, rfl⟩

/-- **no panic site of the label preparation is reachable** for a diagnostic whose labels are valid spans of
    the source: the result is "no labels", "block refused" or a block -/
theorem rprep_no_panic (src : List Char) (labels : List Span) (h : ∀ l ∈ labels, SpanOK 0 src l) :
    ∀ site, reportDiag src labels ≠ .panic site := by
  intro site
  unfold reportDiag
  split
  · intro hc; cases hc
  · obtain ⟨cs, e1, e2, -⟩ := rprep_assignColors 0 (by omega) (sortLabels labels)
    simp only [e1]
    split
    · intro hc; cases hc
    · rename_i hacc
      have hacc' : blockAccepts (lineIndex src) none (sortLabels labels) = true := by
        simpa using hacc
      have hent := rprep_accepts_entries _ _ _ hacc'
      obtain ⟨ps, hps⟩ := rprep_allPieces_ok src cs (by
        intro p hp
        have hm : p.1 ∈ sortLabels labels := by
          rw [← e2]; exact List.mem_map_of_mem hp
        have hm' : p.1 ∈ labels := (rprep_perm labels).mem_iff.1 hm
        exact ⟨h _ hm', (hent _ hm).2⟩)
      rw [hps]
      intro hc; cases hc

/-- **what is handed to the renderer**: the diagnostic's own labels (a permutation), sorted by (start, end), each
    a valid span of the source (inside it, both ends on character boundaries), the `k`-th with the colour
    `COLORS[k mod 7]` -/
theorem rprep_handed_over (src : List Char) (labels : List Span) (h : ∀ l ∈ labels, SpanOK 0 src l) :
    ∃ cs : List (Span × String), assignColors 0 (sortLabels labels) = some cs ∧
      cs.map (·.1) = sortLabels labels ∧
      (sortLabels labels).Perm labels ∧
      (sortLabels labels).Pairwise (fun a b => a.start < b.start ∨ (a.start = b.start ∧ a.stop ≤ b.stop)) ∧
      (∀ l ∈ sortLabels labels, SpanOK 0 src l) ∧
      ∀ k (hk : k < cs.length), reportColors[k % 7]? = some (cs[k].2) := by
  obtain ⟨cs, e1, e2, e3⟩ := rprep_assignColors 0 (by omega) (sortLabels labels)
  refine ⟨cs, e1, e2, rprep_perm labels, ?_, fun l hl => h l ((rprep_perm labels).mem_iff.1 hl), ?_⟩
  · refine (rprep_sorted labels).imp ?_
    intro a b hab
    unfold Span.le at hab
    simpa using hab
  · intro k hk
    have := e3 k hk
    rwa [Nat.zero_add] at this

/-! ### when the code block is shown -/

/-- consecutive labels: each starts strictly after the start of the previous one and at or after its end -/
def LabelsApart : Option Span → List Span → Prop
  | _, [] => True
  | none, l :: rest => LabelsApart (some l) rest
  | some p, l :: rest => (p.start < l.start ∧ p.stop ≤ l.start) ∧ LabelsApart (some l) rest

theorem rprep_accepts_iff_go (src : List Char) (prev : Option Span) (ls : List Span)
    (h : ∀ l ∈ ls, SpanOK 0 src l) :
    blockAccepts (lineIndex src) prev ls = true ↔ LabelsApart prev ls := by
  induction ls generalizing prev with
  | nil => simp [blockAccepts, LabelsApart]
  | cons x rest ih =>
    have hx := h x List.mem_cons_self
    have c1 := rprep_lineOf_cover src x.start (by have := hx.1.le_end; omega)
    have c2 := rprep_lineOf_cover src x.stop (by have := hx.2.1.le_end; omega)
    have hle := hx.2.2
    have ih' := ih (some x) (fun l hl => h l (List.mem_cons_of_mem _ hl))
    simp only [blockAccepts, Bool.and_eq_true, decide_eq_true_eq, c1, c2, and_true, hle, true_and,
      Bool.not_eq_true', ih']
    cases prev with
    | none => simp [prevClash, LabelsApart]
    | some p =>
      simp only [prevClash, LabelsApart, Bool.or_eq_false_iff, decide_eq_false_iff_not]
      constructor
      · rintro ⟨⟨hh1, hh2⟩, hh3⟩
        exact ⟨⟨by omega, by omega⟩, hh3⟩
      · rintro ⟨⟨hh1, hh2⟩, hh3⟩
        exact ⟨⟨by omega, by omega⟩, hh3⟩

/-- **the code block is shown iff** the sorted labels are pairwise apart (for valid labels; otherwise `Block::new`
    returns `None`, the code logs and prints the message alone — no panic) -/
theorem rprep_accepts_iff (src : List Char) (labels : List Span) (h : ∀ l ∈ labels, SpanOK 0 src l) :
    blockAccepts (lineIndex src) none (sortLabels labels) = true ↔ LabelsApart none (sortLabels labels) :=
  rprep_accepts_iff_go src none _ (fun l hl => h l ((rprep_perm labels).mem_iff.1 hl))

end Cook
