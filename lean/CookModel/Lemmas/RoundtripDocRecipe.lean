import CookModel.Lemmas.RoundtripRecipe
import CookModel.Lemmas.RoundtripSections
/-
  C01, end to end for documents made of steps, section lines and `>>` metadata lines: characters →
  lexer → splitter → block parser → analysis, with the result in closed form from the abstract
  document.  (`rtx_` prefix.)
-/
set_option linter.unusedSectionVars false
set_option linter.unusedSimpArgs false
set_option linter.unusedVariables false
namespace Cook

variable {α : Type} [Arith α]

/-- the segments of a step are plain definitions (as in `C01_recipe_steps`) -/
def DocItem.simple : DocItem → Bool
  | .step segs => segs.all SegX.simple
  | _ => true

/-- a metadata line that is neither a mode switch (`[mode]`, `[define]`, `[duplicate]` under MODES) nor a
    standard key with a value the standard check rejects, nor one of the three time keys -/
def DocItem.plain (env : Env) : DocItem → Prop
  | .metaLine k v _ =>
    ¬ (env.ext.has Gen.EXT_MODES = true ∧ (leafText k).head? = some '[' ∧ (leafText k).getLast? = some ']') ∧
    ∀ sk, StdKey.ofStr (String.ofList (leafText k)) = some sk →
      env.stdCheck sk (leafText v) ≠ .rejected ∧ stdKeyIsTime sk = false
  | _ => True

/-- the segments of a step under the two extensions that add diagnostics or split text: with
    INLINE_QUANTITIES a text run shows no inline quantity (`find_inline_quantity` finds nothing in the shown
    text), with ADVANCED_UNITS a timer amount is numeric and its unit is a unit of time for the converter.
    Vacuous when the extensions are off. -/
def SegX.extOK (α : Type) [Arith α] (env : Env) : SegX → Prop
  | .text l => env.ext.has Gen.EXT_INLINE_QUANTITIES = true →
      l.flatMap vis ≠ [] ∧ findInlineQuantity (α := α) env ((l.flatMap vis).length + 1) [] (l.flatMap vis) = none
  | .timer c _ => env.ext.has Gen.EXT_ADVANCED_UNITS = true → ∀ q, c.qty = some q →
      q.val.isText = false ∧ ∀ u, q.unit = some u → env.findUnit (leafText u) = some env.timeQ
  | _ => True

def DocItem.extOK (α : Type) [Arith α] (env : Env) : DocItem → Prop
  | .step segs => ∀ sg ∈ segs, sg.extOK α env
  | _ => True

theorem rtx_pair (env : Env) (seg : SegX) (it : SItem α) (h : SegXEv env.cs seg it.ev) (hx : seg.extOK α env)
    (hit : it.Simple) : it.SimpleX env := by
  cases it with
  | text t =>
    cases seg <;> simp only [SItem.ev, SegXEv] at h
    intro hext
    have := hx hext
    rw [h]; exact this
  | ingredient i => exact hit
  | cookware c => exact hit
  | timer lt =>
    cases seg <;> simp only [SItem.ev, SegXEv] at h
    rename_i c p
    refine ⟨hit, ?_⟩
    intro hext q hq
    have hm := h.2
    rw [hq] at hm
    cases hc : c.qty with
    | none => rw [hc] at hm; exact absurd hm (by simp [QtyMatches])
    | some aq =>
      rw [hc] at hm
      simp only [QtyMatches] at hm
      obtain ⟨e1, e2, e3⟩ := hm
      obtain ⟨x1, x2⟩ := hx hext aq hc
      refine ⟨by rw [e1, rtr_denote_isText]; exact x1, ?_⟩
      intro u hu
      rw [hu] at e3
      cases hau : aq.unit with
      | none => rw [hau] at e3; cases e3
      | some au =>
        rw [hau] at e3
        simp only [Option.map_some, Option.some.injEq] at e3
        rw [e3]
        exact x2 au hau

theorem rtx_all2_simpleX (env : Env) (segs : List SegX) (st : List (SItem α)) (h : SegsItems env.cs segs st)
    (hx : ∀ sg ∈ segs, sg.extOK α env) (hs : ∀ it ∈ st, it.Simple) : ∀ it ∈ st, it.SimpleX env := by
  induction h with
  | nil => intro it hit; cases hit
  | @cons seg it segs' st' hd _ ih =>
    intro x hxm
    simp only [List.mem_cons] at hxm
    rcases hxm with rfl | hxm
    · exact rtx_pair env seg x hd (hx seg (by simp)) (hs x (by simp))
    · exact ih (fun sg hsg => hx sg (by simp [hsg])) (fun y hy => hs y (by simp [hy])) x hxm

/-- a parsed block matches an abstract document item -/
def BlockMatches (cs : CharSpec) : DocItem → SBlock α → Prop
  | .step segs, .step st => SegsItems cs segs st
  | .sectionLine name _, .sect t => t.map (fun x => x.trimmed cs) = name.map leafText
  | .metaLine k v _, .entry kt vt => kt.trimmed cs = leafText k ∧ vt.outerTrimmed cs = leafText v
  | .para lines, .para ts => ts.flatMap (·.text) = lines.flatMap PLine.text
  | _, _ => False

theorem rtx_item_block (env : Env) (d : DocItem) (evs : List (Ev α)) (h : DocItemEvs env.cs d evs)
    (hok : d.ok env.cs env.ext = true) (hs : d.simple = true) (hp : d.plain env) (hx : d.extOK α env) :
    ∃ b : SBlock α, evs = b.events ∧ b.OK env ∧ BlockMatches env.cs d b := by
  cases d with
  | step segs =>
    obtain ⟨e, rfl, hsegs⟩ := h
    obtain ⟨st, rfl, h1, h2, h3⟩ := rtr_segs_items env.cs segs e hsegs hs
    exact ⟨.step st, rfl, ⟨rtx_all2_simpleX env segs st h2 hx h1, h3 (rtr_step_ne env.cs env.ext segs hok)⟩, h2⟩
  | sectionLine name p =>
    obtain ⟨ev, rfl, hm⟩ := h
    cases ev <;> simp only [SectionMatches] at hm
    exact ⟨.sect _, rfl, trivial, hm⟩
  | metaLine k v p =>
    obtain ⟨ev, rfl, hm⟩ := h
    cases ev <;> simp only [MetaMatches] at hm
    rename_i kt vt
    obtain ⟨h1, h2, h3⟩ := hm
    refine ⟨.entry kt vt, rfl, ⟨?_, ?_⟩, ⟨h1, h3⟩⟩
    · rw [h1]; exact hp.1
    · rw [h1, h3]; exact hp.2
  | para lines =>
    obtain ⟨ts, rfl, hm⟩ := h
    refine ⟨.para ts, rfl, trivial, ?_⟩
    simp only [BlockMatches]
    rw [List.flatMap_def, List.flatMap_def, hm]

theorem rtx_doc_blocks (env : Env) (doc : List (DocItem × List Tok)) (evss : List (List (Ev α)))
    (h : All2 (fun (d : DocItem × List Tok) evs => DocItemEvs env.cs d.1 evs) doc evss)
    (hok : ∀ d ∈ doc, d.1.ok env.cs env.ext = true) (hs : ∀ d ∈ doc, d.1.simple = true)
    (hp : ∀ d ∈ doc, d.1.plain env) (hx : ∀ d ∈ doc, d.1.extOK α env) :
    ∃ blocks : List (SBlock α), evss.flatten = blocks.flatMap SBlock.events ∧ (∀ b ∈ blocks, b.OK env) ∧
      All2 (BlockMatches env.cs) (doc.map (·.1)) blocks := by
  induction h with
  | nil => exact ⟨[], rfl, (fun b hb => nomatch hb), All2.nil⟩
  | @cons d evs doc' evss' hd _ ih =>
    obtain ⟨blocks, e1, e2, e3⟩ := ih (fun x hx' => hok x (by simp [hx'])) (fun x hx' => hs x (by simp [hx']))
      (fun x hx' => hp x (by simp [hx'])) (fun x hx' => hx x (by simp [hx']))
    obtain ⟨b, rfl, hb1, hb2⟩ := rtx_item_block env d.1 evs hd (hok d (by simp)) (hs d (by simp)) (hp d (by simp))
      (hx d (by simp))
    refine ⟨b :: blocks, by simp [e1], ?_, All2.cons hb2 e3⟩
    intro x hxm
    simp only [List.mem_cons] at hxm
    rcases hxm with rfl | hxm
    · exact hb1
    · exact e2 x hxm

/-! ### the intended result, from the abstract document -/

/-- all segments of the steps of the document, in order -/
def absDocSegs : List DocItem → List SegX
  | [] => []
  | .step segs :: r => segs ++ absDocSegs r
  | _ :: r => absDocSegs r

/-- the content a text paragraph adds: the texts of its lines joined (a newline inside shows as one space) -/
def absParaContent (lines : List PLine) : List Content :=
  if (lines.flatMap PLine.text).isEmpty then [] else [.text (lines.flatMap PLine.text)]

/-- the sections of the abstract document (see `docSecs`): a section line closes the current section
    (dropped if it has neither name nor content) and opens one named by the line, numbering its steps
    from 1; component indices count the components of the kind in ALL earlier steps of the document -/
def absDocSecs (before : List SegX) (cur : Section) (num : Nat) : List DocItem → List Section
  | [] => if cur.isEmpty then [] else [cur]
  | .step segs :: r =>
    absDocSecs (before ++ segs) ⟨cur.name, cur.content ++ [.step ⟨absItemsFrom before segs, num⟩]⟩ (num + 1) r
  | .sectionLine name _ :: r =>
    (if cur.isEmpty then [] else [cur]) ++ absDocSecs before ⟨name.map leafText, []⟩ 1 r
  | .metaLine _ _ _ :: r => absDocSecs before cur num r
  | .para lines :: r => absDocSecs before ⟨cur.name, cur.content ++ absParaContent lines⟩ num r

/-- the metadata map of the abstract document: `>>` entries in order, a repeated key keeps its place
    and takes the later value -/
def absDocMeta (m : List (Str × Str)) : List DocItem → List (Str × Str)
  | [] => m
  | .metaLine k v _ :: r => absDocMeta (metaInsert m (leafText k) (leafText v)) r
  | _ :: r => absDocMeta m r

def DocItem.isMeta : DocItem → Bool
  | .metaLine _ _ _ => true
  | _ => false

theorem rtx_abs (env : Env) : ∀ (items : List DocItem) (blocks : List (SBlock α)),
    All2 (BlockMatches env.cs) items blocks → (∀ i ∈ items, i.simple = true) →
    ∀ (bsegs : List SegX) (before : List (SItem α)) (cur : Section) (num : Nat) (m : List (Str × Str)),
    SegsItems env.cs bsegs before → bsegs.all SegX.simple = true →
      docSecs env before cur num blocks = absDocSecs bsegs cur num items ∧
      SegsItems env.cs (bsegs ++ absDocSegs items) (before ++ docStepItems blocks) ∧
      (bsegs ++ absDocSegs items).all SegX.simple = true ∧
      docMeta env m (docEntries blocks) = absDocMeta m items ∧
      (docEntries blocks).length = (items.filter DocItem.isMeta).length := by
  intro items blocks h
  induction h with
  | nil =>
    intro _ bsegs before cur num m hb hbs
    exact ⟨rfl, by simpa [absDocSegs, docStepItems] using hb, by simpa [absDocSegs] using hbs, rfl, rfl⟩
  | @cons d b items' blocks' hd _ ih =>
    intro hs bsegs before cur num m hb hbs
    have hs' : ∀ i ∈ items', i.simple = true := fun x hx => hs x (by simp [hx])
    have hs1 := hs d (by simp)
    cases d <;> cases b <;> simp only [BlockMatches] at hd
    · -- step
      rename_i segs st
      simp only [DocItem.simple] at hs1
      obtain ⟨i1, i2, i3, i4, i5⟩ := ih hs' (bsegs ++ segs) (before ++ st)
        ⟨cur.name, cur.content ++ [.step ⟨itemsFrom before st, num⟩]⟩ (num + 1) m (rtr_all2_append hb hd)
        (by simp [List.all_append, hbs, hs1])
      refine ⟨?_, by simpa [absDocSegs, docStepItems, List.append_assoc] using i2,
        by simpa [absDocSegs, List.append_assoc] using i3, by simpa [docEntries, absDocMeta] using i4,
        by simpa [docEntries, DocItem.isMeta] using i5⟩
      have hit := rtr_itemsFrom env segs st hd hs1 bsegs before hb hbs
      rw [hit] at i1
      simp only [docSecs, absDocSecs, hit, i1]
    · -- section line
      rename_i name p t
      obtain ⟨i1, i2, i3, i4, i5⟩ := ih hs' bsegs before ⟨name.map leafText, []⟩ 1 m hb hbs
      refine ⟨?_, by simpa [absDocSegs, docStepItems] using i2, by simpa [absDocSegs] using i3,
        by simpa [docEntries, absDocMeta] using i4, by simpa [docEntries, DocItem.isMeta] using i5⟩
      simp only [docSecs, absDocSecs, hd, i1]
    · -- metadata line
      rename_i k v p kt vt
      obtain ⟨i1, i2, i3, i4, i5⟩ := ih hs' bsegs before cur num (metaInsert m (leafText k) (leafText v)) hb hbs
      refine ⟨by simpa [docSecs, absDocSecs] using i1, by simpa [absDocSegs, docStepItems] using i2,
        by simpa [absDocSegs] using i3, ?_, by simp [docEntries, List.filter_cons, DocItem.isMeta, i5]⟩
      simp only [docEntries, docMeta, List.foldl_cons, absDocMeta, hd.1, hd.2]
      exact i4
    · -- text paragraph
      rename_i lines ts
      obtain ⟨i1, i2, i3, i4, i5⟩ := ih hs' bsegs before ⟨cur.name, cur.content ++ paraContent ts⟩ num m hb hbs
      refine ⟨?_, by simpa [absDocSegs, docStepItems] using i2, by simpa [absDocSegs] using i3,
        by simpa [docEntries, absDocMeta] using i4, by simpa [docEntries, DocItem.isMeta] using i5⟩
      simp only [docSecs, absDocSecs, absParaContent, ← hd]
      exact i1

/-- End to end for a document of steps, section lines and metadata lines. -/
theorem rtx_parseRecipe_doc (env : Env) (pre : List Tok) (doc : List (DocItem × List Tok))
    (hpre : blankLinesOK pre = true) (hok : ∀ d ∈ doc, d.1.ok env.cs env.ext = true)
    (hsimple : ∀ d ∈ doc, d.1.simple = true) (hplain : ∀ d ∈ doc, d.1.plain env)
    (hext : ∀ d ∈ doc, d.1.extOK α env)
    (hseps : sepsOK (doc.map (·.2)) = true) (hw : WellSpelled env.cs (pre ++ docSpec doc))
    (hfm : parseFrontmatter env.cs (render (pre ++ docSpec doc)) = none) :
    ∃ (c : Col α) (spans : List Span),
      parseRecipe env (render (pre ++ docSpec doc)) = ⟨some c, c.diags, none⟩ ∧
      c.sections = absDocSecs [] ⟨none, []⟩ 1 (doc.map (·.1)) ∧
      c.ingredients.toList = ((absDocSegs (doc.map (·.1))).filterMap SegX.ingr?).map absIngr ∧
      c.cookware.toList = ((absDocSegs (doc.map (·.1))).filterMap SegX.cw?).map absCw ∧
      c.timers.toList = ((absDocSegs (doc.map (·.1))).filterMap SegX.timer?).map absTimer ∧
      c.metaMap = absDocMeta [] (doc.map (·.1)) ∧
      c.diags = deprecation spans ∧ spans.length = ((doc.map (·.1)).filter DocItem.isMeta).length ∧
      c.inlineQ = #[] ∧ c.frontMatter = none := by
  obtain ⟨blocks0, evss, arr, -, -, hpe, harr, hevs⟩ :=
    rtd_pullEvents_doc (α := α) env.cs env.ext pre doc hpre hok hseps hw hfm
  obtain ⟨blocks, e1, e2, e3⟩ := rtx_doc_blocks env doc evss hevs hok hsimple hplain hext
  obtain ⟨c, h1, h2, h3, h4, h5, h6, h7, h8, h9⟩ :=
    rts_parseEvents_doc env (render (pre ++ docSpec doc)) blocks e2
  have hs' : ∀ i ∈ doc.map (·.1), i.simple = true := by
    intro i hi
    obtain ⟨d, hd, rfl⟩ := List.mem_map.1 hi
    exact hsimple d hd
  obtain ⟨a1, a2, a3, a4, a5⟩ := rtx_abs env (doc.map (·.1)) blocks e3 hs' [] [] ⟨none, []⟩ 1 [] All2.nil rfl
  simp only [List.nil_append] at a2 a3
  obtain ⟨t1, t2, t3⟩ := rtr_tables env _ _ a2 a3
  refine ⟨c, docSpans (docEntries blocks), ?_, by rw [h2, a1], by rw [h3, t1], by rw [h4, t2], by rw [h5, t3],
    by rw [h6, a4], h7, by simp [docSpans, a5], h8, h9⟩
  unfold parseRecipe
  simp only [hpe, harr, e1]
  rw [h1]

end Cook
