import CookModel.Lemmas.DiagSoundUsesNone
/-
  C07, soundness under every extension set, level 2 (prefix `c07u_`): `stepCore` of the spec tokens of a step
  from a STRUCTURAL predicate on its segments (`SegX.coreSyntax`): no modifier, no alias, no `|` in a name, a name
  that does not start with a modifier character, no marker inside a note, a quantity without range and without
  `-` in the unit whose shape the advanced-units reader declines, a timer with a quantity; no intermediate
  reference.  (Specification vocabulary and lemmas only: no model function is added.)
-/
set_option linter.unusedSectionVars false
set_option linter.unusedSimpArgs false
set_option linter.unusedVariables false
namespace Cook

variable {α : Type} [Arith α]

/-! ### `stepCore` along a list -/

theorem c07u_stepCore_skip (A B : List Tok) (hA : ∀ t ∈ A, isMarker t.kind = false) :
    stepCore (A ++ B) = stepCore B := by
  induction A with
  | nil => rfl
  | cons a A ih =>
    simp only [List.cons_append, stepCore, hA a (by simp), Bool.not_false, Bool.true_or, Bool.true_and]
    exact ih (fun t ht => hA t (by simp [ht]))

theorem c07u_stepCore_marker (m : Tok) (A B : List Tok) (hm : isMarker m.kind = true)
    (hA : ∀ t ∈ A, isMarker t.kind = false) :
    stepCore (m :: (A ++ B)) = (compCore m.kind (A ++ B) && stepCore B) := by
  simp only [stepCore, hm, Bool.not_true, Bool.false_or, c07u_stepCore_skip A B hA]

/-! ### `longBody` and `compCore` of the braces form -/

theorem c07u_longBody_braces (N : List Tok) (tob : Tok) (Q : List Tok) (tcb : Tok) (R : List Tok)
    (hN : ∀ t ∈ N, (t.kind == .openBrace || isMarker t.kind) = false) (hob : tob.kind = .openBrace)
    (hQ : ∀ t ∈ Q, t.kind ≠ .closeBrace) (hcb : tcb.kind = .closeBrace) :
    longBody (N ++ tob :: (Q ++ tcb :: R)) =
      some (N, if Q.any (fun t => !(t.kind == .ws || t.kind == .blockComment)) then some Q else none) := by
  unfold longBody
  rw [rt_findIdx_append _ N tob _ hN (by simp [hob])]
  have e1 : (N ++ tob :: (Q ++ tcb :: R))[N.length]? = some tob := by simp
  have e2 : (N ++ tob :: (Q ++ tcb :: R)).drop (N.length + 1) = Q ++ tcb :: R := by
    rw [← List.drop_drop]; simp
  dsimp only
  rw [e1, e2]
  simp only [Option.map_some, hob, beq_self_eq_true, if_true]
  rw [rt_findIdx_append _ Q tcb R (fun t ht => by simpa using hQ t ht) (by simp [hcb])]
  simp

theorem c07u_compCore_braces (k : TK) (N : List Tok) (tob : Tok) (Q : List Tok) (tcb : Tok) (R : List Tok)
    (hN : ∀ t ∈ N, (t.kind == .openBrace || isMarker t.kind) = false) (hob : tob.kind = .openBrace)
    (hQ : ∀ t ∈ Q, t.kind ≠ .closeBrace) (hcb : tcb.kind = .closeBrace)
    (hhead : ∀ t, N.head? = some t → isModStart t.kind = false)
    (hor : ∀ t ∈ N, t.kind ≠ .or)
    (hq : if Q.any (fun t => !(t.kind == .ws || t.kind == .blockComment)) = true then quantCore Q = true
          else k ≠ .tilde) :
    compCore k (N ++ tob :: (Q ++ tcb :: R)) = true := by
  unfold compCore
  rw [c07u_longBody_braces N tob Q tcb R hN hob hQ hcb]
  have h1 : ∃ h, (N ++ tob :: (Q ++ tcb :: R)).head? = some h ∧ isModStart h.kind = false := by
    cases N with
    | nil => exact ⟨tob, rfl, by simp [hob, isModStart, isModifierTok]⟩
    | cons a N' => exact ⟨a, rfl, hhead a rfl⟩
  obtain ⟨h, hh, hms⟩ := h1
  rw [hh]
  dsimp only
  rw [hms]
  have h2 : N.any (fun t => t.kind == .or) = false := by
    rw [List.any_eq_false]; intro t ht; simpa using hor t ht
  simp only [h2, Bool.not_false, Bool.true_and]
  split at hq
  · rename_i hany
    simp only [hany, if_true, hq]
  · rename_i hany
    simp only [hany, Bool.false_eq_true, if_false]
    simpa using hq

/-- the braces form inside a step: the marker starts a core component, nothing inside is a marker -/
theorem c07u_braces_step (m : Tok) (N Q nt R : List Tok) (hm : isMarker m.kind = true)
    (hN : ∀ t ∈ N, nameKind t.kind = true ∨ t.kind = .ws ∨ t.kind = .blockComment)
    (hhead : ∀ t, N.head? = some t → isModStart t.kind = false)
    (hor : ∀ t ∈ N, t.kind ≠ .or)
    (hQc : ∀ t ∈ Q, t.kind ≠ .closeBrace) (hQm : ∀ t ∈ Q, isMarker t.kind = false)
    (hq : if Q.any (fun t => !(t.kind == .ws || t.kind == .blockComment)) = true then quantCore Q = true
          else m.kind ≠ .tilde)
    (hnt : ∀ t ∈ nt, isMarker t.kind = false) :
    stepCore (m :: (N ++ tk .openBrace ['{'] :: (Q ++ tk .closeBrace ['}'] :: nt)) ++ R) = stepCore R := by
  have hN' : ∀ t ∈ N, (t.kind == .openBrace || isMarker t.kind) = false := fun t ht => (nameKind_excl (hN t ht)).1
  have hNm : ∀ t ∈ N, isMarker t.kind = false := by
    intro t ht
    have := hN' t ht
    rw [Bool.or_eq_false_iff] at this
    exact this.2
  rw [List.cons_append, c07u_stepCore_marker m _ R hm]
  · have e : N ++ tk .openBrace ['{'] :: (Q ++ tk .closeBrace ['}'] :: nt) ++ R =
        N ++ tk .openBrace ['{'] :: (Q ++ tk .closeBrace ['}'] :: (nt ++ R)) := by simp
    rw [e, c07u_compCore_braces m.kind N _ Q _ (nt ++ R) hN' rfl hQc rfl hhead hor hq, Bool.true_and]
  · intro t ht
    simp only [List.mem_append, List.mem_cons] at ht
    rcases ht with ht | rfl | ht | rfl | ht
    · exact hNm t ht
    · rfl
    · exact hQm t ht
    · rfl
    · exact hnt t ht

/-! ### the structural predicate -/

/-- a quantity in core syntax: no range; with a unit (a `%` is written, the advanced-units reader declines) the
    unit has no `-`; without unit the tokens between the braces have a shape the advanced-units reader
    declines (`advNone`: the tokens before the first word do not end in whitespace — `{2}`, `{1/2}`,
    `{a pinch}`, `{=3}`, not `{2 cups}`; sufficient conditions: `c07u_advNone_text_word`, `c07u_advNone_num`) -/
def AQty.coreSyntax (q : AQty) (p : QPad) : Bool :=
  !q.val.isRange &&
  (match q.unit with
   | some u => u.all (fun t => t.kind != .minus)
   | none => advNone (spellQty q p))

/-- an ingredient / cookware item in core syntax: no modifier, no alias, the name does not start with a modifier
    character (`@ & ? + -`) and has no `|`, the note has no marker (`@ # ~`), the quantity is core -/
def AComp.coreSyntax (c : AComp) (p : CPad) : Bool :=
  c.mods.isEmpty && c.alias.isNone &&
  c.name.head?.all (fun t => !isModStart t.kind) &&
  c.name.all (fun t => t.kind != .or) &&
  (match c.note with
   | some n => n.all (fun t => !isMarker t.kind)
   | none => true) &&
  (match c.qty with
   | some q => q.coreSyntax p.q
   | none => true)

/-- a timer in core syntax: the name (if any) does not start with a modifier character and has no `|`; there is
    a quantity and it is core -/
def ATimer.coreSyntax (c : ATimer) (p : CPad) : Bool :=
  (match c.name with
   | some n => n.head?.all (fun t => !isModStart t.kind) && n.all (fun t => t.kind != .or)
   | none => true) &&
  (match c.qty with
   | some q => q.coreSyntax p.q
   | none => false)

/-- **a segment uses none of the extension syntaxes** (structural, on the abstract segment): text — nothing to
    ask (no marker inside is part of `SegX.ok`); braces forms and single-word forms — `AComp.coreSyntax` /
    `ATimer.coreSyntax`; an intermediate reference `@&(~1)x{}` is not core syntax -/
def SegX.coreSyntax : SegX → Bool
  | .text _ => true
  | .ingredient c p => c.coreSyntax p
  | .cookware c p => c.coreSyntax p
  | .timer c p => c.coreSyntax p
  | .ingredient1 c => c.coreSyntax {}
  | .cookware1 c => c.coreSyntax {}
  | .ingredientI _ _ _ _ _ _ => false

/-! ### kinds of the spec tokens -/

theorem c07u_leaf_name {cs : CharSpec} {l : List Tok} (h : leafOK cs nameKind l = true) :
    ∀ t ∈ l, nameKind t.kind = true ∨ t.kind = .ws ∨ t.kind = .blockComment := by
  intro t ht
  rcases leaf_tok_kind (leafOK_facts h) t ht with h' | h'
  · exact Or.inl h'
  · exact Or.inr (Or.inl h')

theorem c07u_pad_name {cs : CharSpec} {l : List Tok} (h : padOK cs l = true) :
    ∀ t ∈ l, nameKind t.kind = true ∨ t.kind = .ws ∨ t.kind = .blockComment :=
  fun t ht => Or.inr (padOK_padT h t ht)

theorem c07u_pad_noMarker {cs : CharSpec} {l : List Tok} (h : padOK cs l = true) :
    ∀ t ∈ l, isMarker t.kind = false := by
  intro t ht
  rcases padOK_padT h t ht with h' | h' <;> simp [h', isMarker]

theorem c07u_pad_noMinus {cs : CharSpec} {l : List Tok} (h : padOK cs l = true) :
    ∀ t ∈ l, t.kind ≠ .minus := by
  intro t ht
  rcases padOK_padT h t ht with h' | h' <;> simp [h']

/-- kinds of the tokens between the braces -/
def c07u_qKind (k : TK) : Bool := coreKind k || unitKind k || k == .ws || k == .blockComment

theorem c07u_qKind_noMarker {k : TK} (h : c07u_qKind k = true) : isMarker k = false := by
  cases k <;> simp [c07u_qKind, coreKind, numKind, valKind, unitKind, isMarker] at h ⊢

theorem c07u_pad_qKind {cs : CharSpec} {l : List Tok} (h : padOK cs l = true) :
    ∀ t ∈ l, c07u_qKind t.kind = true := by
  intro t ht
  rcases padOK_padT h t ht with h' | h' <;> simp [h', c07u_qKind]

theorem c07u_qty_kinds {cs : CharSpec} (q : AQty) (p : QPad) (hq : q.ok cs = true) (hp : p.ok cs = true) :
    ∀ t ∈ spellQty q p, c07u_qKind t.kind = true := by
  simp only [AQty.ok, Bool.and_eq_true] at hq
  simp only [QPad.ok, Bool.and_eq_true] at hp
  obtain ⟨⟨⟨hpl0, hpv⟩, hpu0⟩, hpu1⟩ := hp
  have hpv0 := hpv
  simp only [VPad.ok, Bool.and_eq_true] at hpv
  intro t ht
  simp only [spellQty, spellVal, List.mem_append] at ht
  rcases ht with (ht | (ht | ht) | ht) | ht
  · unfold spellLock at ht
    split at ht
    · simp only [List.mem_append, List.mem_singleton] at ht
      rcases ht with ht | rfl
      · exact c07u_pad_qKind hpl0 t ht
      · rfl
    · cases ht
  · exact c07u_pad_qKind hpv.1.1.1.1.1 t ht
  · have := rt_spellCore_kinds q.val p.v hq.1 hpv0 t ht
    simp [c07u_qKind, this]
  · exact c07u_pad_qKind hpv.1.1.1.1.2 t ht
  · cases hun : q.unit with
    | none => rw [hun] at ht; simp [spellUnit] at ht
    | some un =>
      rw [hun] at ht hq
      simp only [spellUnit, List.mem_append, List.mem_singleton] at ht
      rcases ht with ((rfl | ht) | ht) | ht
      · rfl
      · exact c07u_pad_qKind hpu0 t ht
      · rcases leaf_tok_kind (leafOK_facts hq.2) t ht with h' | h'
        · simp [c07u_qKind, h']
        · simp [c07u_qKind, h']
      · exact c07u_pad_qKind hpu1 t ht

theorem c07u_core_noMinus {cs : CharSpec} (v : AVal) (p : VPad) (hv : v.ok cs = true) (hp : p.ok cs = true)
    (hr : v.isRange = false) : ∀ t ∈ spellCore v p, t.kind ≠ .minus := by
  simp only [VPad.ok, Bool.and_eq_true] at hp
  intro t ht
  cases v with
  | num n =>
    have := rt_spellNum_kinds n p.lo hp.1.1.1.2 t ht
    intro hk; rw [hk] at this; simp [numKind] at this
  | range lo hi => cases hr
  | text l =>
    simp only [AVal.ok, Bool.and_eq_true] at hv
    rcases leaf_tok_kind (leafOK_facts hv.1) t ht with h' | h'
    · intro hk; rw [hk] at h'; simp [valKind] at h'
    · simp [h']

theorem c07u_qty_noMinus {cs : CharSpec} (q : AQty) (p : QPad) (hq : q.ok cs = true) (hp : p.ok cs = true)
    (hr : q.val.isRange = false) (hu : ∀ u, q.unit = some u → ∀ t ∈ u, t.kind ≠ .minus) :
    ∀ t ∈ spellQty q p, t.kind ≠ .minus := by
  simp only [AQty.ok, Bool.and_eq_true] at hq
  simp only [QPad.ok, Bool.and_eq_true] at hp
  obtain ⟨⟨⟨hpl0, hpv⟩, hpu0⟩, hpu1⟩ := hp
  have hpv0 := hpv
  simp only [VPad.ok, Bool.and_eq_true] at hpv
  intro t ht
  simp only [spellQty, spellVal, List.mem_append] at ht
  rcases ht with (ht | (ht | ht) | ht) | ht
  · unfold spellLock at ht
    split at ht
    · simp only [List.mem_append, List.mem_singleton] at ht
      rcases ht with ht | rfl
      · exact c07u_pad_noMinus hpl0 t ht
      · simp [tk]
    · cases ht
  · exact c07u_pad_noMinus hpv.1.1.1.1.1 t ht
  · exact c07u_core_noMinus q.val p.v hq.1 hpv0 hr t ht
  · exact c07u_pad_noMinus hpv.1.1.1.1.2 t ht
  · cases hun : q.unit with
    | none => rw [hun] at ht; simp [spellUnit] at ht
    | some un =>
      rw [hun] at ht
      simp only [spellUnit, List.mem_append, List.mem_singleton] at ht
      rcases ht with ((rfl | ht) | ht) | ht
      · simp [tk]
      · exact c07u_pad_noMinus hpu0 t ht
      · exact hu un hun t ht
      · exact c07u_pad_noMinus hpu1 t ht

/-- a core quantity satisfies `quantCore` -/
theorem c07u_qty_quantCore {cs : CharSpec} (q : AQty) (p : QPad) (hq : q.ok cs = true) (hp : p.ok cs = true)
    (hc : q.coreSyntax p = true) : quantCore (spellQty q p) = true := by
  simp only [AQty.coreSyntax, Bool.and_eq_true, Bool.not_eq_true'] at hc
  obtain ⟨hr, hc⟩ := hc
  unfold quantCore
  rw [Bool.and_eq_true]
  constructor
  · rw [Bool.not_eq_true', List.any_eq_false]
    intro t ht
    have := c07u_qty_noMinus q p hq hp hr (by
      intro u hu t ht
      rw [hu] at hc
      simpa using List.all_eq_true.mp hc t ht) t ht
    simpa using this
  · cases hun : q.unit with
    | none => rw [hun] at hc; exact hc
    | some u =>
      unfold advNone
      rw [Bool.or_eq_true]
      left
      rw [List.any_eq_true]
      refine ⟨tk .percent ['%'], ?_, rfl⟩
      simp [spellQty, spellUnit, hun]

/-- the tokens between the braces -/
def c07u_inner (qty : Option AQty) (p : CPad) : List Tok :=
  match qty with
  | some q => spellQty q p.q
  | none => p.e

theorem c07u_spellBraces (qty : Option AQty) (p : CPad) :
    spellBraces qty p = tk .openBrace ['{'] :: (c07u_inner qty p ++ [tk .closeBrace ['}']]) := rfl

/-- the side condition on what the braces hold: a core quantity; nothing only when the marker is not `~` -/
def c07u_innerCore (qty : Option AQty) (p : CPad) (k : TK) : Bool :=
  match qty with
  | some q => q.coreSyntax p.q
  | none => k != .tilde

/-- what the braces hold: no `}`, no marker; a quantity satisfies `quantCore`, empty braces hold blanks -/
theorem c07u_braces_inner {cs : CharSpec} (qty : Option AQty) (p : CPad) (k : TK)
    (hqok : ∀ q, qty = some q → q.ok cs = true) (hp : p.ok cs = true)
    (hcore : c07u_innerCore qty p k = true) :
    (∀ t ∈ c07u_inner qty p, t.kind ≠ .closeBrace) ∧
    (∀ t ∈ c07u_inner qty p, isMarker t.kind = false) ∧
    (if (c07u_inner qty p).any (fun t => !(t.kind == .ws || t.kind == .blockComment)) = true
      then quantCore (c07u_inner qty p) = true else k ≠ .tilde) := by
  unfold c07u_inner
  unfold c07u_innerCore at hcore
  simp only [CPad.ok, Bool.and_eq_true] at hp
  cases qty with
  | none =>
    dsimp only at hcore ⊢
    refine ⟨?_, c07u_pad_noMarker hp.2, ?_⟩
    · intro t ht
      rcases padOK_padT hp.2 t ht with h' | h' <;> simp [h']
    · have : p.e.any (fun t => !(t.kind == .ws || t.kind == .blockComment)) = false := by
        rw [List.any_eq_false]
        intro t ht
        rcases padOK_padT hp.2 t ht with h' | h' <;> simp [h']
      rw [this]
      simpa using hcore
  | some q =>
    dsimp only at hcore ⊢
    have hq := hqok q rfl
    obtain ⟨h1, h2⟩ := rt_qty_kinds q p.q hq hp.1.2 (spellQty q p.q) (Spells.rfl' _)
    refine ⟨h1, fun t ht => c07u_qKind_noMarker (c07u_qty_kinds q p.q hq hp.1.2 t ht), ?_⟩
    have h2' : (spellQty q p.q).any (fun t => !(t.kind == .ws || t.kind == .blockComment)) = true := h2
    rw [h2']
    simp only [if_true]
    exact c07u_qty_quantCore q p.q hq hp.1.2 hcore

/-! ### the braces forms -/

theorem c07u_note_noMarker (note : Option (List Tok))
    (h : (match note with
      | some n => n.all (fun t => !isMarker t.kind)
      | none => true) = true) : ∀ t ∈ spellNote note, isMarker t.kind = false := by
  intro t ht
  cases note with
  | none => simp [spellNote] at ht
  | some n =>
    dsimp only at h
    simp only [spellNote, List.mem_append, List.mem_singleton] at ht
    rcases ht with (rfl | ht) | rfl
    · rfl
    · simpa using List.all_eq_true.mp h t ht
    · rfl

theorem c07u_comp_step {cs : CharSpec} {e : Ext} (marker : Tok) (hm : isMarker marker.kind = true)
    (hk : marker.kind ≠ .tilde) (c : AComp) (p : CPad) (hwf : c.wf cs e = true) (hp : p.ok cs = true)
    (hc : c.coreSyntax p = true) (R : List Tok) :
    stepCore (spellComp marker c p ++ R) = stepCore R := by
  simp only [AComp.coreSyntax, Bool.and_eq_true, List.isEmpty_iff, Option.isNone_iff_eq_none] at hc
  obtain ⟨⟨⟨⟨⟨hmods, halias⟩, hhead⟩, hor⟩, hnote⟩, hqty⟩ := hc
  simp only [AComp.wf, Bool.and_eq_true] at hwf
  obtain ⟨⟨⟨⟨⟨⟨⟨⟨hleaf, -⟩, -⟩, -⟩, -⟩, -⟩, -⟩, -⟩, hwq⟩ := hwf
  have hp0 := hp
  simp only [CPad.ok, Bool.and_eq_true] at hp
  have lf := leafOK_facts hleaf
  obtain ⟨h0, r0, hname, -⟩ := lf.head
  have e1 : spellComp marker c p = marker :: ((c.name ++ p.n1) ++ tk .openBrace ['{'] ::
      (c07u_inner c.qty p ++ tk .closeBrace ['}'] :: spellNote c.note)) := by
    simp [spellComp, c07u_spellBraces, spellMods, spellAlias, hmods, halias]
  obtain ⟨q1, q2, q3⟩ := c07u_braces_inner (cs := cs) c.qty p marker.kind
    (by
      intro q hq
      rw [hq] at hwq
      simp only [Bool.and_eq_true] at hwq
      exact hwq.1.1) hp0
    (by
      unfold c07u_innerCore
      cases hq : c.qty with
      | none => simpa using hk
      | some q => rw [hq] at hqty; exact hqty)
  rw [e1]
  refine c07u_braces_step marker (c.name ++ p.n1) _ (spellNote c.note) R hm ?_ ?_ ?_ q1 q2 q3
    (c07u_note_noMarker c.note hnote)
  · intro t ht
    rcases List.mem_append.mp ht with ht | ht
    · exact c07u_leaf_name hleaf t ht
    · exact c07u_pad_name hp.1.1.1.1 t ht
  · intro t ht
    rw [hname] at ht hhead
    simp only [List.cons_append, List.head?_cons, Option.some.injEq] at ht
    subst ht
    simpa using hhead
  · intro t ht
    rcases List.mem_append.mp ht with ht | ht
    · simpa using List.all_eq_true.mp hor t ht
    · rcases padOK_padT hp.1.1.1.1 t ht with h' | h' <;> simp [h']

theorem c07u_timer_step {cs : CharSpec} {e : Ext} (c : ATimer) (p : CPad) (hwf : c.wf cs e = true)
    (hp : p.ok cs = true) (hc : c.coreSyntax p = true) (R : List Tok) :
    stepCore (spellTimer c p ++ R) = stepCore R := by
  simp only [ATimer.coreSyntax, Bool.and_eq_true] at hc
  obtain ⟨hnm, hqty⟩ := hc
  simp only [ATimer.wf, Bool.and_eq_true] at hwf
  obtain ⟨hwn, hwq⟩ := hwf
  have hp0 := hp
  simp only [CPad.ok, Bool.and_eq_true] at hp
  have e1 : spellTimer c p = tk .tilde ['~'] :: ((spellOptLeaf c.name ++ p.n1) ++ tk .openBrace ['{'] ::
      (c07u_inner c.qty p ++ tk .closeBrace ['}'] :: [])) := by
    simp [spellTimer, c07u_spellBraces]
  obtain ⟨q1, q2, q3⟩ := c07u_braces_inner (cs := cs) c.qty p TK.tilde
    (by
      intro q hq
      rw [hq] at hwq
      simp only [Bool.and_eq_true] at hwq
      exact hwq.1.1) hp0
    (by
      unfold c07u_innerCore
      cases hq : c.qty with
      | none => rw [hq] at hqty; cases hqty
      | some q => rw [hq] at hqty; exact hqty)
  rw [e1]
  refine c07u_braces_step (tk .tilde ['~']) (spellOptLeaf c.name ++ p.n1) _ [] R rfl ?_ ?_ ?_ q1 q2 q3
    (by intro t ht; cases ht)
  · intro t ht
    rcases List.mem_append.mp ht with ht | ht
    · cases hn : c.name with
      | none => rw [hn] at ht; simp [spellOptLeaf] at ht
      | some n =>
        rw [hn] at ht hwn
        simp only [Bool.and_eq_true] at hwn
        exact c07u_leaf_name hwn.1.1 t ht
    · exact c07u_pad_name hp.1.1.1.1 t ht
  · intro t ht
    cases hn : c.name with
    | none =>
      rw [hn] at ht
      simp only [spellOptLeaf, List.nil_append] at ht
      have hm : t ∈ p.n1 := List.mem_of_mem_head? ht
      rcases padOK_padT hp.1.1.1.1 t hm with h' | h' <;> simp [h', isModStart, isModifierTok]
    | some n =>
      rw [hn] at ht hwn hnm
      simp only [Bool.and_eq_true] at hwn hnm
      obtain ⟨h0, r0, hname, -⟩ := (leafOK_facts hwn.1.1).head
      have hh := hnm.1
      rw [hname] at hh
      simp only [spellOptLeaf, hname, List.cons_append, List.head?_cons, Option.some.injEq] at ht
      subst ht
      simpa using hh
  · intro t ht
    rcases List.mem_append.mp ht with ht | ht
    · cases hn : c.name with
      | none => rw [hn] at ht; simp [spellOptLeaf] at ht
      | some n =>
        rw [hn] at ht hnm
        simp only [Bool.and_eq_true] at hnm
        simpa using List.all_eq_true.mp hnm.2 t ht
    · rcases padOK_padT hp.1.1.1.1 t ht with h' | h' <;> simp [h']

/-! ### the single-word forms -/

theorem c07u_find_of_findIdx {β : Type} (p : β → Bool) (l : List β) (i : Nat) (h : l.findIdx? p = some i) :
    l[i]? = l.find? p := by
  induction l generalizing i with
  | nil => simp at h
  | cons a l ih =>
    rw [List.findIdx?_cons] at h
    rw [List.find?_cons]
    by_cases ha : p a = true
    · simp only [ha, if_true, Option.some.injEq] at h
      subst h
      simp [ha]
    · have ha' : p a = false := by simpa using ha
      simp only [ha', Bool.false_eq_true, if_false, Option.map_eq_some_iff] at h
      obtain ⟨j, hj, rfl⟩ := h
      simp only [List.getElem?_cons_succ, ha']
      exact ih j hj

theorem c07u_longBody_none (r : List Tok) (h : noBraceFirst r = true) : longBody r = none := by
  unfold longBody
  cases hf : r.findIdx? (fun t => t.kind == .openBrace || isMarker t.kind) with
  | none => rfl
  | some i =>
    dsimp only
    have e := c07u_find_of_findIdx _ r i hf
    unfold noBraceFirst at h
    rw [← e] at h
    cases hr : r[i]? with
    | none => rfl
    | some t =>
      rw [hr] at h
      have hk : t.kind ≠ .openBrace := by simpa using h
      simp [hk]

theorem c07u_noBraceFirst_skip (W X : List Tok)
    (hW : ∀ t ∈ W, (t.kind == .openBrace || isMarker t.kind) = false) :
    noBraceFirst (W ++ X) = noBraceFirst X := by
  induction W with
  | nil => rfl
  | cons a W ih =>
    have ha := hW a (by simp)
    have : noBraceFirst (a :: (W ++ X)) = noBraceFirst (W ++ X) := by
      unfold noBraceFirst
      rw [List.find?_cons, ha]
    rw [List.cons_append, this]
    exact ih (fun t ht => hW t (by simp [ht]))

theorem c07u_compCore_short (k : TK) (r : List Tok) (hk : k ≠ .tilde)
    (hhead : ∀ t, r.head? = some t → isModStart t.kind = false) (hnb : noBraceFirst r = true) :
    compCore k r = true := by
  unfold compCore
  rw [c07u_longBody_none r hnb]
  cases r with
  | nil => simp [hk]
  | cons a r' =>
    have := hhead a rfl
    simp [this, hk]

theorem c07u_short_step {cs : CharSpec} {e : Ext} (marker : Tok) (hm : isMarker marker.kind = true)
    (hk : marker.kind ≠ .tilde) (c : AComp) (hwf : c.wfShort cs e = true)
    (hc : c.coreSyntax {} = true) (R : List Tok) (hR : shortRestOK c R = true) :
    stepCore (spellShort marker c ++ R) = stepCore R := by
  simp only [AComp.coreSyntax, Bool.and_eq_true, List.isEmpty_iff, Option.isNone_iff_eq_none] at hc
  obtain ⟨⟨⟨⟨⟨hmods, -⟩, hhead⟩, -⟩, hnote⟩, -⟩ := hc
  simp only [AComp.wfShort, Bool.and_eq_true] at hwf
  obtain ⟨⟨⟨hwf, hword⟩, -⟩, -⟩ := hwf
  simp only [AComp.wf, Bool.and_eq_true] at hwf
  obtain ⟨⟨⟨⟨⟨⟨⟨⟨hleaf, -⟩, -⟩, -⟩, -⟩, -⟩, -⟩, -⟩, -⟩ := hwf
  obtain ⟨h0, r0, hname, -⟩ := (leafOK_facts hleaf).head
  simp only [shortRestOK, Bool.and_eq_true] at hR
  have hW : ∀ t ∈ c.name, (t.kind == .openBrace || isMarker t.kind) = false :=
    fun t ht => (nameKind_excl (c07u_leaf_name hleaf t ht)).1
  have e1 : spellShort marker c = marker :: (c.name ++ spellNote c.note) := by
    simp [spellShort, spellMods, hmods]
  rw [e1, List.cons_append, c07u_stepCore_marker marker _ R hm]
  · rw [List.append_assoc, c07u_compCore_short marker.kind _ hk ?_ ?_, Bool.true_and]
    · intro t ht
      rw [hname] at ht hhead
      simp only [List.cons_append, List.head?_cons, Option.some.injEq] at ht
      subst ht
      simpa using hhead
    · rw [c07u_noBraceFirst_skip c.name _ hW]
      exact hR.1
  · intro t ht
    rcases List.mem_append.mp ht with ht | ht
    · have := hW t ht
      rw [Bool.or_eq_false_iff] at this
      exact this.2
    · exact c07u_note_noMarker c.note hnote t ht

/-! ### a step -/

/-- one segment in front of the rest of the step -/
theorem c07u_seg_step {cs : CharSpec} {e : Ext} (seg : SegX) (rest : List SegX) (hok : seg.ok cs e = true)
    (hf : seg.followOK rest = true) (hc : seg.coreSyntax = true) :
    stepCore (seg.spell ++ rest.flatMap SegX.spell) = stepCore (rest.flatMap SegX.spell) := by
  cases seg with
  | text l =>
    simp only [SegX.ok, Bool.and_eq_true] at hok
    exact c07u_stepCore_skip l _ (fun t ht => by simpa using List.all_eq_true.mp hok.1.2 t ht)
  | ingredient c p =>
    simp only [SegX.ok, Bool.and_eq_true] at hok
    exact c07u_comp_step (tk .at ['@']) rfl (by decide) c p hok.1 hok.2 hc _
  | cookware c p =>
    simp only [SegX.ok, AComp.wfCookware, Bool.and_eq_true] at hok
    exact c07u_comp_step (tk .hash ['#']) rfl (by decide) c p hok.1.1.1 hok.2 hc _
  | timer c p =>
    simp only [SegX.ok, Bool.and_eq_true] at hok
    exact c07u_timer_step c p hok.1 hok.2 hc _
  | ingredient1 c =>
    exact c07u_short_step (tk .at ['@']) rfl (by decide) c hok hc _ hf
  | cookware1 c =>
    simp only [SegX.ok, AComp.wfShortCookware, Bool.and_eq_true] at hok
    exact c07u_short_step (tk .hash ['#']) rfl (by decide) c hok.1 hc _ hf
  | ingredientI pre post i ip c p => cases hc

/-- **Level 2: `stepCore` of the spec tokens of a step from the structural predicate on its segments** -/
theorem c07u_stepCore_of_segments (cs : CharSpec) (ext : Ext) (segs : List SegX)
    (hok : segsXOK cs ext segs = true) (hc : ∀ sg ∈ segs, sg.coreSyntax = true) :
    stepCore (segs.flatMap SegX.spell) = true := by
  induction segs with
  | nil => rfl
  | cons seg rest ih =>
    simp only [segsXOK, Bool.and_eq_true] at hok
    rw [List.flatMap_cons, c07u_seg_step seg rest hok.1.1 hok.1.2 (hc seg (by simp))]
    exact ih hok.2 (fun sg hsg => hc sg (by simp [hsg]))

/-- **C02's premise `UsesNoneInput` from the structural predicate on the segments of the abstract document** -/
theorem c07u_usesNoneInput_of_segments (cs : CharSpec) (ext : Ext) (pre : List Tok)
    (doc : List (List SegX × List Tok))
    (hpre : blankLinesOK pre = true) (hok : ∀ d ∈ doc, (DocItem.step d.1).ok cs ext = true)
    (hseps : sepsOK (doc.map (·.2)) = true)
    (hw : WellSpelled cs (pre ++ docSpec (stepsDoc doc)))
    (hfm : parseFrontmatter cs (render (pre ++ docSpec (stepsDoc doc))) = none)
    (hc : ∀ d ∈ doc, ∀ sg ∈ d.1, sg.coreSyntax = true) :
    UsesNoneInput cs (render (pre ++ docSpec (stepsDoc doc))) = true :=
  c07u_usesNoneInput_of_spec cs ext pre doc hpre hok hseps hw hfm (fun d hd => by
    have h := hok d hd
    simp only [DocItem.ok, Bool.and_eq_true] at h
    exact c07u_stepCore_of_segments cs ext d.1 h.1.1 (hc d hd))

/-! ### structural sufficient conditions for the unit-less clause of `AQty.coreSyntax` -/

theorem c07u_pad_blank {cs : CharSpec} {l : List Tok} (h : padOK cs l = true) :
    ∀ t ∈ l, isWsComment t.kind = true := by
  intro t ht
  rcases padOK_padT h t ht with h' | h' <;> simp [h', isWsComment]

/-- the tokens the advanced-units reader takes for the value of a unit-less quantity: the value and the blanks
    after it, up to the first word -/
theorem c07u_advValueToks_unitless {cs : CharSpec} (q : AQty) (p : QPad) (hq : q.ok cs = true)
    (hp : p.ok cs = true) (hu : q.unit = none) :
    advValueToks (spellQty q p) =
      (spellCore q.val p.v ++ p.v.post).takeWhile (fun t => t.kind != .word) := by
  simp only [AQty.ok, Bool.and_eq_true] at hq
  simp only [QPad.ok, Bool.and_eq_true] at hp
  obtain ⟨⟨⟨hpl0, hpv⟩, -⟩, -⟩ := hp
  have hpv0 := hpv
  simp only [VPad.ok, Bool.and_eq_true] at hpv
  have bl0 := c07u_pad_blank hpl0
  have bpre := c07u_pad_blank hpv.1.1.1.1.1
  obtain ⟨h, r, hcore, hhb⟩ := rt_spellCore_head q.val p.v hq.1
  have hck : coreKind h.kind = true := rt_spellCore_kinds q.val p.v hq.1 hpv0 h (by rw [hcore]; simp)
  have hne : (h.kind == TK.eq) = false := by simpa using (coreKind_excl hck).2.2.1
  have hd : (p.v.pre ++ (h :: (r ++ p.v.post))).dropWhile (fun t => isWsComment t.kind) = h :: (r ++ p.v.post) := by
    rw [List.dropWhile_append_of_pos bpre, List.dropWhile_cons, hhb]
    rfl
  have hd' : (h :: (r ++ p.v.post)).dropWhile (fun t => isWsComment t.kind) = h :: (r ++ p.v.post) := by
    rw [List.dropWhile_cons, hhb]; rfl
  have e : spellQty q p = spellLock q.lock p ++ (p.v.pre ++ (h :: (r ++ p.v.post))) := by
    simp [spellQty, spellVal, spellUnit, hu, hcore]
  rw [e, hcore]
  unfold advValueToks lockRest spellLock
  cases q.lock with
  | false =>
    simp only [Bool.false_eq_true, if_false, List.nil_append, hd, hne, hd']
    rfl
  | true =>
    simp only [if_true, List.append_assoc, List.cons_append, List.nil_append]
    rw [List.dropWhile_append_of_pos bl0, List.dropWhile_cons]
    have : isWsComment (tk TK.eq ['=']).kind = false := rfl
    simp only [this, Bool.false_eq_true, if_false]
    have : ((tk TK.eq ['=']).kind == TK.eq) = true := rfl
    simp only [this, if_true, hd]

/-- `{a pinch}`, `{=some}`: a unit-less text value that starts with a word is declined by the advanced-units
    reader -/
theorem c07u_advNone_text_word {cs : CharSpec} (q : AQty) (p : QPad) (hq : q.ok cs = true)
    (hp : p.ok cs = true) (hu : q.unit = none) (l : List Tok) (hv : q.val = .text l)
    (hw : l.head?.any (fun t => t.kind == .word) = true) : advNone (spellQty q p) = true := by
  unfold advNone advSepTok
  rw [c07u_advValueToks_unitless q p hq hp hu, hv]
  cases l with
  | nil => simp at hw
  | cons a l' =>
    simp only [List.head?_cons, Option.any_some] at hw
    have : (a.kind != TK.word) = false := by simpa using hw
    simp [spellCore, List.takeWhile_cons, this]

theorem c07u_takeWhile_all {β : Type} (p : β → Bool) (l : List β) (h : ∀ x ∈ l, p x = true) :
    l.takeWhile p = l := by
  induction l with
  | nil => rfl
  | cons a l ih =>
    rw [List.takeWhile_cons, h a (by simp)]
    simp only [if_true, List.cons.injEq, true_and]
    exact ih (fun x hx => h x (by simp [hx]))

/-- `{2}`, `{=1/2}`, `{ 1.5}`: a unit-less number with nothing between it and the `}` is declined by the
    advanced-units reader -/
theorem c07u_advNone_num {cs : CharSpec} (q : AQty) (p : QPad) (hq : q.ok cs = true)
    (hp : p.ok cs = true) (hu : q.unit = none) (n : ANum) (hv : q.val = .num n)
    (hpost : p.v.post = []) : advNone (spellQty q p) = true := by
  unfold advNone advSepTok
  rw [c07u_advValueToks_unitless q p hq hp hu, hv, hpost, List.append_nil]
  simp only [QPad.ok, VPad.ok, Bool.and_eq_true] at hp
  have hk := rt_spellNum_kinds n p.v.lo hp.1.1.2.1.1.1.2
  have ht : (spellNum n p.v.lo).takeWhile (fun t => t.kind != .word) = spellNum n p.v.lo := by
    apply c07u_takeWhile_all
    intro t ht
    have := hk t ht
    cases hkk : t.kind <;> rw [hkk] at this <;> simp [numKind] at this ⊢
  simp only [spellCore, ht]
  rw [Bool.or_eq_true]
  right
  cases n with
  | int ds => simp [spellNum, tk]
  | dec i f => simp [spellNum, tk, fracKind]; split <;> simp
  | dec0 f => simp [spellNum, tk, fracKind]; split <;> simp
  | frac a b => simp only [spellNum, List.getLast?_concat]; simp [tk]
  | mixed w a b => simp only [spellNum, List.getLast?_concat]; simp [tk]

end Cook
