import CookModel.Syntax.Blocks
import CookModel.Lemmas.Lexer
/-
  Lemmas on the block splitter (`pullLine`, `skipEmptyLines`, `moreLines`, `nextBlock`,
  `allBlocks`): fuel sufficiency, conservation (only blank tokens are dropped), blocks are
  contiguous infixes of the stream.
-/
namespace Cook

/-! ### vocabulary -/

/-- every token of the list is whitespace, a comment or a newline -/
def AllBlank (l : List Tok) : Prop := ∀ t ∈ l, isEmptyTok t.kind = true

/-- `kept` is `all` with only blank tokens removed (order and multiplicity of everything else kept) -/
def DropsBlank (kept all : List Tok) : Prop :=
  kept.Sublist all ∧
  kept.filter (fun t => !isEmptyTok t.kind) = all.filter (fun t => !isEmptyTok t.kind)

theorem blocks_allBlank_nil : AllBlank [] := by intro t h; cases h

theorem blocks_allBlank_append {a b : List Tok} : AllBlank (a ++ b) ↔ AllBlank a ∧ AllBlank b := by
  unfold AllBlank
  constructor
  · intro h; exact ⟨fun t ht => h t (List.mem_append_left _ ht), fun t ht => h t (List.mem_append_right _ ht)⟩
  · intro h t ht
    rcases List.mem_append.1 ht with ht | ht
    · exact h.1 t ht
    · exact h.2 t ht

theorem blocks_allBlank_iff_all (l : List Tok) : AllBlank l ↔ l.all (fun t => isEmptyTok t.kind) = true := by
  simp [AllBlank]

theorem blocks_drops_refl (l : List Tok) : DropsBlank l l := ⟨List.Sublist.refl l, rfl⟩

theorem blocks_drops_blank {l : List Tok} (h : AllBlank l) : DropsBlank [] l := by
  refine ⟨List.nil_sublist l, ?_⟩
  symm
  simp only [List.filter_nil, List.filter_eq_nil_iff]
  intro t ht
  simp [h t ht]

theorem blocks_drops_append {k1 l1 k2 l2 : List Tok} (h1 : DropsBlank k1 l1) (h2 : DropsBlank k2 l2) :
    DropsBlank (k1 ++ k2) (l1 ++ l2) :=
  ⟨h1.1.append h2.1, by rw [List.filter_append, List.filter_append, h1.2, h2.2]⟩

theorem blocks_drops_mem {kept all : List Tok} (h : DropsBlank kept all) (t : Tok) (ht : t ∈ all)
    (hn : t ∉ kept) : isEmptyTok t.kind = true := by
  cases he : isEmptyTok t.kind with
  | true => rfl
  | false =>
    have : t ∈ all.filter (fun t => !isEmptyTok t.kind) := by
      simp [List.mem_filter, ht, he]
    rw [← h.2] at this
    exact absurd (List.mem_filter.1 this).1 hn

/-! ### `pullLine` in closed form -/

/-- the tokens of the first line, newline token included -/
def lineOf (ts : List Tok) : List Tok :=
  ts.takeWhile (fun t => t.kind != .newline) ++ (ts.dropWhile (fun t => t.kind != .newline)).take 1

/-- what follows the first line -/
def afterLine (ts : List Tok) : List Tok := (ts.dropWhile (fun t => t.kind != .newline)).drop 1

theorem blocks_lineOf_afterLine (ts : List Tok) : lineOf ts ++ afterLine ts = ts := by
  unfold lineOf afterLine
  rw [List.append_assoc, List.take_append_drop, List.takeWhile_append_dropWhile]

theorem blocks_afterLine_length (t0 : Tok) (tl : List Tok) : (afterLine (t0 :: tl)).length < (t0 :: tl).length := by
  unfold afterLine
  rw [List.dropWhile_cons]
  split
  · have := (List.dropWhile_sublist (fun t : Tok => t.kind != .newline) (l := tl)).length_le
    simp only [List.length_drop, List.length_cons]; omega
  · simp

theorem blocks_afterLine_length_le (ts : List Tok) : (afterLine ts).length ≤ ts.length := by
  cases ts with
  | nil => simp [afterLine]
  | cons t0 tl => exact Nat.le_of_lt (blocks_afterLine_length t0 tl)

theorem blocks_lineOf_ne_nil (t0 : Tok) (tl : List Tok) : lineOf (t0 :: tl) ≠ [] := by
  intro h
  have h1 := blocks_lineOf_afterLine (t0 :: tl)
  have h2 := blocks_afterLine_length t0 tl
  rw [h, List.nil_append] at h1
  rw [h1] at h2; omega

theorem blocks_lineOf_head (t0 : Tok) (tl : List Tok) : (lineOf (t0 :: tl)).head? = some t0 := by
  have h1 := blocks_lineOf_afterLine (t0 :: tl)
  have h2 := blocks_lineOf_ne_nil t0 tl
  cases hl : lineOf (t0 :: tl) with
  | nil => exact absurd hl h2
  | cons a r => rw [hl] at h1; simp at h1; simp [h1.1]

theorem blocks_pullLine_cons (t0 : Tok) (tl : List Tok) :
    pullLine (t0 :: tl) =
      some (⟨lineOf (t0 :: tl), (lineOf (t0 :: tl)).all (fun t => isEmptyTok t.kind),
             isSingleLineMarker (some t0)⟩, afterLine (t0 :: tl)) := by
  unfold pullLine lineOf afterLine
  simp only
  cases (t0 :: tl).dropWhile (fun t => t.kind != .newline) with
  | nil => simp
  | cons nl r => simp

theorem blocks_pullLine_nil : pullLine [] = none := rfl

theorem blocks_pullLine_some (ts : List Tok) (li : LineInfo) (rest : List Tok)
    (h : pullLine ts = some (li, rest)) :
    li.toks = lineOf ts ∧ rest = afterLine ts ∧ li.isEmpty = (lineOf ts).all (fun t => isEmptyTok t.kind) ∧
    li.isSingleLine = isSingleLineMarker ts.head? ∧ ts ≠ [] := by
  cases ts with
  | nil => simp [pullLine] at h
  | cons t0 tl =>
    rw [blocks_pullLine_cons] at h
    simp only [Option.some.injEq, Prod.mk.injEq] at h
    obtain ⟨h1, h2⟩ := h
    subst h1 h2
    simp

theorem blocks_pullLine_partition (ts : List Tok) (li : LineInfo) (rest : List Tok)
    (h : pullLine ts = some (li, rest)) : li.toks ++ rest = ts := by
  obtain ⟨h1, h2, _⟩ := blocks_pullLine_some ts li rest h
  rw [h1, h2]; exact blocks_lineOf_afterLine ts

/-! ### `skipEmptyLines` -/

theorem blocks_skip_fuel : ∀ (f1 f2 : Nat) (ts : List Tok), ts.length ≤ f1 → ts.length ≤ f2 →
    skipEmptyLines f1 ts = skipEmptyLines f2 ts := by
  intro f1
  induction f1 with
  | zero =>
    intro f2 ts h1 h2
    have : ts = [] := List.eq_nil_of_length_eq_zero (by omega)
    subst this
    cases f2 <;> simp [skipEmptyLines, pullLine]
  | succ n ih =>
    intro f2 ts h1 h2
    cases ts with
    | nil => cases f2 <;> simp [skipEmptyLines, pullLine]
    | cons t0 tl =>
      cases f2 with
      | zero => simp at h2
      | succ m =>
        have hl := blocks_afterLine_length t0 tl
        simp only [List.length_cons] at h1 h2 hl
        simp only [skipEmptyLines, blocks_pullLine_cons]
        split
        · exact ih _ _ (by omega) (by omega)
        · rfl

theorem blocks_skip_some : ∀ (fuel : Nat) (ts : List Tok) (li : LineInfo) (rest : List Tok),
    skipEmptyLines fuel ts = some (li, rest) →
    ∃ pre, ts = pre ++ (li.toks ++ rest) ∧ AllBlank pre ∧ li.isEmpty = false ∧
      pullLine (li.toks ++ rest) = some (li, rest) := by
  intro fuel
  induction fuel with
  | zero => intro ts li rest h; simp [skipEmptyLines] at h
  | succ n ih =>
    intro ts li rest h
    simp only [skipEmptyLines] at h
    cases hp : pullLine ts with
    | none => simp [hp] at h
    | some p =>
      obtain ⟨li', r'⟩ := p
      simp only [hp] at h
      have hpart := blocks_pullLine_partition ts li' r' hp
      by_cases he : li'.isEmpty = true
      · simp only [he, if_true] at h
        obtain ⟨pre, h1, h2, h3, h4⟩ := ih r' li rest h
        refine ⟨li'.toks ++ pre, ?_, ?_, h3, h4⟩
        · rw [← hpart, List.append_assoc, ← h1]
        · rw [blocks_allBlank_append]
          refine ⟨?_, h2⟩
          obtain ⟨e1, _, e3, _⟩ := blocks_pullLine_some ts li' r' hp
          rw [blocks_allBlank_iff_all, e1, ← e3]; exact he
      · simp only [he, Bool.false_eq_true, if_false, Option.some.injEq, Prod.mk.injEq] at h
        obtain ⟨h1, h2⟩ := h
        subst h1 h2
        refine ⟨[], by simpa using hpart.symm, blocks_allBlank_nil, by simpa using he, ?_⟩
        rw [hpart]; exact hp

theorem blocks_skip_none : ∀ (fuel : Nat) (ts : List Tok), ts.length ≤ fuel →
    skipEmptyLines fuel ts = none → AllBlank ts := by
  intro fuel
  induction fuel with
  | zero =>
    intro ts h _
    have : ts = [] := List.eq_nil_of_length_eq_zero (by omega)
    subst this; exact blocks_allBlank_nil
  | succ n ih =>
    intro ts hl h
    cases ts with
    | nil => exact blocks_allBlank_nil
    | cons t0 tl =>
      have hlen := blocks_afterLine_length t0 tl
      simp only [List.length_cons] at hl hlen
      simp only [skipEmptyLines, blocks_pullLine_cons] at h
      split at h
      · rename_i he
        have := ih _ (by omega) h
        rw [← blocks_lineOf_afterLine (t0 :: tl), blocks_allBlank_append]
        exact ⟨(blocks_allBlank_iff_all _).2 he, this⟩
      · simp at h

theorem blocks_skip_of_blank : ∀ (fuel : Nat) (ts : List Tok), AllBlank ts → skipEmptyLines fuel ts = none := by
  intro fuel
  induction fuel with
  | zero => intro ts _; rfl
  | succ n ih =>
    intro ts hb
    cases ts with
    | nil => rfl
    | cons t0 tl =>
      rw [← blocks_lineOf_afterLine (t0 :: tl), blocks_allBlank_append] at hb
      simp only [skipEmptyLines, blocks_pullLine_cons]
      rw [if_pos ((blocks_allBlank_iff_all _).1 hb.1)]
      exact ih _ hb.2

/-! ### `moreLines` -/

theorem blocks_more_fuel : ∀ (f1 f2 : Nat) (ts : List Tok), ts.length ≤ f1 → ts.length ≤ f2 →
    moreLines f1 ts = moreLines f2 ts := by
  intro f1
  induction f1 with
  | zero =>
    intro f2 ts h1 h2
    have : ts = [] := List.eq_nil_of_length_eq_zero (by omega)
    subst this
    cases f2 <;> simp [moreLines, pullLine, isSingleLineMarker]
  | succ n ih =>
    intro f2 ts h1 h2
    cases ts with
    | nil => cases f2 <;> simp [moreLines, pullLine, isSingleLineMarker]
    | cons t0 tl =>
      cases f2 with
      | zero => simp at h2
      | succ m =>
        have hl := blocks_afterLine_length t0 tl
        simp only [List.length_cons] at h1 h2 hl
        simp only [moreLines, blocks_pullLine_cons]
        rw [ih m (afterLine (t0 :: tl)) (by omega) (by omega)]

theorem blocks_more_spec : ∀ (fuel : Nat) (ts : List Tok),
    ∃ dropped, ts = (moreLines fuel ts).1 ++ (dropped ++ (moreLines fuel ts).2) ∧ AllBlank dropped := by
  intro fuel
  induction fuel with
  | zero => intro ts; exact ⟨[], by simp [moreLines], blocks_allBlank_nil⟩
  | succ n ih =>
    intro ts
    by_cases hm : isSingleLineMarker ts.head? = true
    · exact ⟨[], by simp [moreLines, hm], blocks_allBlank_nil⟩
    · cases ts with
      | nil => exact ⟨[], by simp [moreLines, pullLine, isSingleLineMarker], blocks_allBlank_nil⟩
      | cons t0 tl =>
        simp only [moreLines, hm, Bool.false_eq_true, if_false, blocks_pullLine_cons]
        by_cases he : (lineOf (t0 :: tl)).all (fun t => isEmptyTok t.kind) = true
        · simp only [he, if_true]
          exact ⟨lineOf (t0 :: tl), by simp [blocks_lineOf_afterLine], (blocks_allBlank_iff_all _).2 he⟩
        · simp only [he, Bool.false_eq_true, if_false]
          obtain ⟨d, h1, h2⟩ := ih (afterLine (t0 :: tl))
          refine ⟨d, ?_, h2⟩
          rw [List.append_assoc, ← h1, blocks_lineOf_afterLine]

theorem blocks_more_length (fuel : Nat) (ts : List Tok) : (moreLines fuel ts).2.length ≤ ts.length := by
  obtain ⟨d, h, _⟩ := blocks_more_spec fuel ts
  have := congrArg List.length h
  simp only [List.length_append] at this
  omega

/-! ### `trimTrailingNewlines` -/

theorem blocks_mem_takeWhile {β} (p : β → Bool) (l : List β) (x : β) (h : x ∈ l.takeWhile p) : p x = true := by
  induction l with
  | nil => simp at h
  | cons a t ih =>
    rw [List.takeWhile_cons] at h
    split at h
    · rename_i hp
      simp only [List.mem_cons] at h
      rcases h with rfl | h
      · exact hp
      · exact ih h
    · simp at h

theorem blocks_trim_spec (l : List Tok) :
    ∃ nls, l = trimTrailingNewlines l ++ nls ∧ ∀ t ∈ nls, t.kind = .newline := by
  refine ⟨(l.reverse.takeWhile (fun t => t.kind == .newline)).reverse, ?_, ?_⟩
  · unfold trimTrailingNewlines
    rw [← List.reverse_append, List.takeWhile_append_dropWhile, List.reverse_reverse]
  · intro t ht
    rw [List.mem_reverse] at ht
    have := blocks_mem_takeWhile _ _ _ ht
    simpa using this

theorem blocks_trim_blank (l : List Tok) :
    ∃ nls, l = trimTrailingNewlines l ++ nls ∧ AllBlank nls := by
  obtain ⟨nls, h1, h2⟩ := blocks_trim_spec l
  exact ⟨nls, h1, fun t ht => by simp [isEmptyTok, h2 t ht]⟩

theorem blocks_trim_keeps (l : List Tok) (t : Tok) (ht : t ∈ l) (hk : t.kind ≠ .newline) :
    t ∈ trimTrailingNewlines l := by
  obtain ⟨nls, h1, h2⟩ := blocks_trim_spec l
  rw [h1] at ht
  rcases List.mem_append.1 ht with h | h
  · exact h
  · exact absurd (h2 t h) hk

/-! ### `nextBlock` -/

/-- the continuation part chosen by `nextBlock` after the first non-empty line -/
def blockMore (li : LineInfo) (rest : List Tok) : List Tok × List Tok :=
  if li.isSingleLine then ([], rest) else moreLines (rest.length + 1) rest

theorem blocks_blockMore_spec (li : LineInfo) (rest : List Tok) :
    ∃ dropped, rest = (blockMore li rest).1 ++ (dropped ++ (blockMore li rest).2) ∧ AllBlank dropped := by
  unfold blockMore
  split
  · exact ⟨[], by simp, blocks_allBlank_nil⟩
  · exact blocks_more_spec _ _

theorem blocks_nonblank_line_trim (l x : List Tok) (h : l.all (fun t => isEmptyTok t.kind) = false) :
    trimTrailingNewlines (l ++ x) ≠ [] := by
  have : ∃ t ∈ l, isEmptyTok t.kind = false := by
    false_or_by_contra
    rename_i hc
    have : l.all (fun t => isEmptyTok t.kind) = true := by
      rw [List.all_eq_true]
      intro t ht
      cases he : isEmptyTok t.kind with
      | true => rfl
      | false => exact absurd ⟨t, ht, he⟩ hc
    rw [this] at h; cases h
  obtain ⟨t, ht, he⟩ := this
  have hk : t.kind ≠ .newline := by
    intro hk; rw [hk] at he; simp [isEmptyTok] at he
  have := blocks_trim_keeps (l ++ x) t (List.mem_append_left _ ht) hk
  intro h0; rw [h0] at this; cases this

/-- `nextBlock` without its (dead) emptiness test -/
theorem blocks_next_eq (ts : List Tok) :
    nextBlock ts = match skipEmptyLines (ts.length + 1) ts with
      | none => none
      | some (li, rest) => some (trimTrailingNewlines (li.toks ++ (blockMore li rest).1), (blockMore li rest).2) := by
  unfold nextBlock
  cases hs : skipEmptyLines (ts.length + 1) ts with
  | none => rfl
  | some p =>
    obtain ⟨li, rest⟩ := p
    obtain ⟨pre, _, _, hne, hpl⟩ := blocks_skip_some _ _ _ _ hs
    obtain ⟨e1, _, e3, _⟩ := blocks_pullLine_some _ _ _ hpl
    have hall : li.toks.all (fun t => isEmptyTok t.kind) = false := by rw [e1, ← e3]; exact hne
    have := blocks_nonblank_line_trim li.toks (blockMore li rest).1 hall
    simp only [blockMore] at this ⊢
    simp [this]

theorem blocks_next_none (ts : List Tok) : nextBlock ts = none ↔ AllBlank ts := by
  rw [blocks_next_eq]
  constructor
  · intro h
    cases hs : skipEmptyLines (ts.length + 1) ts with
    | none => exact blocks_skip_none _ _ (by omega) hs
    | some p => rw [hs] at h; simp at h
  · intro h
    rw [blocks_skip_of_blank _ _ h]

theorem blocks_next_some (ts b rest : List Tok) (h : nextBlock ts = some (b, rest)) :
    ∃ pre post, ts = pre ++ (b ++ (post ++ rest)) ∧ AllBlank pre ∧ AllBlank post ∧ b ≠ [] ∧
      rest.length < ts.length := by
  rw [blocks_next_eq] at h
  cases hs : skipEmptyLines (ts.length + 1) ts with
  | none => rw [hs] at h; simp at h
  | some p =>
    obtain ⟨li, r⟩ := p
    rw [hs] at h
    simp only [Option.some.injEq, Prod.mk.injEq] at h
    obtain ⟨hb, hr⟩ := h
    obtain ⟨pre, e1, hpre, hne, hpl⟩ := blocks_skip_some _ _ _ _ hs
    obtain ⟨d, hd1, hd2⟩ := blocks_blockMore_spec li r
    obtain ⟨nls, hn1, hn2⟩ := blocks_trim_blank (li.toks ++ (blockMore li r).1)
    obtain ⟨f1, _, f3, _⟩ := blocks_pullLine_some _ _ _ hpl
    have hall : li.toks.all (fun t => isEmptyTok t.kind) = false := by rw [f1, ← f3]; exact hne
    have hbne := blocks_nonblank_line_trim li.toks (blockMore li r).1 hall
    rw [hb] at hn1 hbne
    rw [hr] at hd1
    refine ⟨pre, nls ++ d, ?_, hpre, blocks_allBlank_append.2 ⟨hn2, hd2⟩, hbne, ?_⟩
    · rw [e1]
      congr 1
      calc li.toks ++ r = li.toks ++ ((blockMore li r).1 ++ (d ++ rest)) := by rw [← hd1]
        _ = (li.toks ++ (blockMore li r).1) ++ (d ++ rest) := by rw [List.append_assoc]
        _ = (b ++ nls) ++ (d ++ rest) := by rw [← hn1]
        _ = b ++ (nls ++ d ++ rest) := by simp [List.append_assoc]
    · have h1 := pullLine_shorter _ _ _ hpl
      have h2 := congrArg List.length e1
      have h3 := congrArg List.length hd1
      simp only [List.length_append] at h1 h2 h3
      omega

/-! ### `allBlocks` -/

theorem blocks_next_nil : nextBlock [] = none := (blocks_next_none []).2 blocks_allBlank_nil

theorem blocks_all_nil (f : Nat) : allBlocks f [] = [] := by
  cases f with
  | zero => rfl
  | succ n => simp [allBlocks, blocks_next_nil]

theorem blocks_all_fuel : ∀ (f1 f2 : Nat) (ts : List Tok), ts.length ≤ f1 → ts.length ≤ f2 →
    allBlocks f1 ts = allBlocks f2 ts := by
  intro f1
  induction f1 with
  | zero =>
    intro f2 ts h1 h2
    have : ts = [] := List.eq_nil_of_length_eq_zero (by omega)
    subst this
    rw [blocks_all_nil, blocks_all_nil]
  | succ n ih =>
    intro f2 ts h1 h2
    cases f2 with
    | zero =>
      have : ts = [] := List.eq_nil_of_length_eq_zero (by omega)
      subst this
      rw [blocks_all_nil, blocks_all_nil]
    | succ m =>
      simp only [allBlocks]
      cases hn : nextBlock ts with
      | none => rfl
      | some p =>
        obtain ⟨b, rest⟩ := p
        obtain ⟨_, _, _, _, _, _, hl⟩ := blocks_next_some ts b rest hn
        simp only
        rw [ih m rest (by omega) (by omega)]

/-- the fuel-free recursion equation of the block list -/
theorem blocks_all_unfold (ts : List Tok) :
    allBlocks (ts.length + 1) ts = match nextBlock ts with
      | none => []
      | some (b, rest) => b :: allBlocks (rest.length + 1) rest := by
  have hu : allBlocks (ts.length + 1) ts = match nextBlock ts with
      | none => []
      | some (b, rest) => b :: allBlocks ts.length rest := rfl
  rw [hu]
  cases hn : nextBlock ts with
  | none => rfl
  | some p =>
    obtain ⟨b, rest⟩ := p
    obtain ⟨_, _, _, _, _, _, hl⟩ := blocks_next_some ts b rest hn
    simp only
    rw [blocks_all_fuel ts.length (rest.length + 1) rest (by omega) (by omega)]

theorem blocks_all_drops : ∀ (f : Nat) (ts : List Tok), ts.length ≤ f →
    DropsBlank (allBlocks f ts).flatten ts := by
  intro f
  induction f with
  | zero =>
    intro ts h
    have : ts = [] := List.eq_nil_of_length_eq_zero (by omega)
    subst this
    exact blocks_drops_refl []
  | succ n ih =>
    intro ts h
    simp only [allBlocks]
    cases hn : nextBlock ts with
    | none => exact blocks_drops_blank ((blocks_next_none ts).1 hn)
    | some p =>
      obtain ⟨b, rest⟩ := p
      obtain ⟨pre, post, e, hpre, hpost, _, hl⟩ := blocks_next_some ts b rest hn
      simp only [List.flatten_cons]
      have h1 := ih rest (by omega)
      have h2 := blocks_drops_append (blocks_drops_blank hpost) h1
      have h3 := blocks_drops_append (blocks_drops_refl b) h2
      have h4 := blocks_drops_append (blocks_drops_blank hpre) h3
      rw [← e] at h4
      simpa using h4

/-- the blocks are sublists of the stream for ANY fuel (fuel only matters for completeness) -/
theorem blocks_all_sublist : ∀ (f : Nat) (ts : List Tok), (allBlocks f ts).flatten.Sublist ts := by
  intro f
  induction f with
  | zero => intro ts; exact List.nil_sublist _
  | succ n ih =>
    intro ts
    simp only [allBlocks]
    cases hn : nextBlock ts with
    | none => exact List.nil_sublist _
    | some p =>
      obtain ⟨b, rest⟩ := p
      obtain ⟨pre, post, e, _, _, _, _⟩ := blocks_next_some ts b rest hn
      simp only [List.flatten_cons]
      rw [e]
      refine List.Sublist.trans ?_ (List.sublist_append_right pre _)
      refine (List.Sublist.refl b).append ?_
      exact List.Sublist.trans (ih rest) (List.sublist_append_right post _)

/-- every block is a non-empty contiguous infix of the stream -/
theorem blocks_all_infix : ∀ (f : Nat) (ts b : List Tok), b ∈ allBlocks f ts →
    b ≠ [] ∧ ∃ pre post, ts = pre ++ (b ++ post) := by
  intro f
  induction f with
  | zero => intro ts b h; simp [allBlocks] at h
  | succ n ih =>
    intro ts b h
    simp only [allBlocks] at h
    cases hn : nextBlock ts with
    | none => rw [hn] at h; simp at h
    | some p =>
      obtain ⟨b0, rest⟩ := p
      rw [hn] at h
      obtain ⟨pre, post, e, _, _, hne, _⟩ := blocks_next_some ts b0 rest hn
      simp only [List.mem_cons] at h
      rcases h with rfl | h
      · exact ⟨hne, pre, post ++ rest, e⟩
      · obtain ⟨h1, pre', post', e'⟩ := ih rest b h
        refine ⟨h1, pre ++ (b0 ++ (post ++ pre')), post', ?_⟩
        rw [e, e']; simp [List.append_assoc]

/-! ### adjacency -/

theorem blocks_chain_append (off : Nat) (a b : List Tok) :
    Chain off (a ++ b) ↔ Chain off a ∧ Chain (off + utf8Len (a.flatMap (·.text))) b := by
  induction a generalizing off with
  | nil => simp [Chain, utf8Len]
  | cons t a ih =>
    simp only [List.cons_append, Chain, List.flatMap_cons, utf8Len_append]
    rw [ih]
    constructor
    · rintro ⟨h1, h2, h3⟩
      refine ⟨⟨h1, h2⟩, ?_⟩
      simp only [Tok.stop, h1] at h3
      rw [Nat.add_assoc] at h3; exact h3
    · rintro ⟨⟨h1, h2⟩, h3⟩
      refine ⟨h1, h2, ?_⟩
      simp only [Tok.stop, h1]
      rw [Nat.add_assoc]; exact h3

theorem blocks_chain_infix (off : Nat) (pre b post : List Tok) (h : Chain off (pre ++ (b ++ post))) :
    Chain (off + utf8Len (pre.flatMap (·.text))) b :=
  ((blocks_chain_append _ b post).1 ((blocks_chain_append off pre _).1 h).2).1

theorem blocks_chain_head (off : Nat) (t : Tok) (r : List Tok) (h : Chain off (t :: r)) : Chain t.start (t :: r) :=
  ⟨rfl, h.2⟩

theorem blocks_chain_bounds (off : Nat) (ts : List Tok) (h : Chain off ts) :
    ∀ u ∈ ts, off ≤ u.start ∧ u.stop ≤ off + utf8Len (ts.flatMap (·.text)) := by
  induction ts generalizing off with
  | nil => intro u hu; cases hu
  | cons t r ih =>
    intro u hu
    obtain ⟨h1, h2⟩ := h
    simp only [List.flatMap_cons, utf8Len_append]
    simp only [List.mem_cons] at hu
    rcases hu with rfl | hu
    · simp only [Tok.stop, h1]; omega
    · have := ih _ h2 u hu
      simp only [Tok.stop, h1] at this ⊢
      omega

/-! ### fuel-free recursion equations of the inner loops -/

theorem blocks_skip_unfold (ts : List Tok) :
    skipEmptyLines (ts.length + 1) ts = match pullLine ts with
      | none => none
      | some (li, rest) => if li.isEmpty then skipEmptyLines (rest.length + 1) rest else some (li, rest) := by
  have hu : skipEmptyLines (ts.length + 1) ts = match pullLine ts with
      | none => none
      | some (li, rest) => if li.isEmpty then skipEmptyLines ts.length rest else some (li, rest) := rfl
  rw [hu]
  cases hp : pullLine ts with
  | none => rfl
  | some p =>
    obtain ⟨li, rest⟩ := p
    have := pullLine_shorter ts li rest hp
    simp only
    rw [blocks_skip_fuel ts.length (rest.length + 1) rest (by omega) (by omega)]

theorem blocks_more_unfold (ts : List Tok) :
    moreLines (ts.length + 1) ts =
      if isSingleLineMarker ts.head? then ([], ts) else
      match pullLine ts with
      | none => ([], ts)
      | some (li, rest) =>
        if li.isEmpty then ([], rest) else
        (li.toks ++ (moreLines (rest.length + 1) rest).1, (moreLines (rest.length + 1) rest).2) := by
  have hu : moreLines (ts.length + 1) ts =
      if isSingleLineMarker ts.head? then ([], ts) else
      match pullLine ts with
      | none => ([], ts)
      | some (li, rest) =>
        if li.isEmpty then ([], rest) else
        (li.toks ++ (moreLines ts.length rest).1, (moreLines ts.length rest).2) := rfl
  rw [hu]
  cases hp : pullLine ts with
  | none => rfl
  | some p =>
    obtain ⟨li, rest⟩ := p
    have := pullLine_shorter ts li rest hp
    simp only
    rw [blocks_more_fuel ts.length (rest.length + 1) rest (by omega) (by omega)]

/-! ### the metadata-only scanner against the full splitter (C14) -/

/-- tokens of the first line, newline excluded -/
def lineBody (ts : List Tok) : List Tok := ts.takeWhile (fun t => t.kind != .newline)

/-- a block "is a `>>` block" when its first token is `>>` -/
def isMetaBlock (b : List Tok) : Bool :=
  match b.head? with
  | some t => t.kind == .metaStart
  | none => false

theorem blocks_meta_succ (f : Nat) (last : TK) (ts : List Tok) :
    metaBlocks (f + 1) last ts = match seekMeta last ts with
      | none => []
      | some ts' => lineBody ts' :: metaBlocks f .newline (afterLine ts') := rfl

theorem blocks_seek_some (last : TK) (ts ts' : List Tok) (h : seekMeta last ts = some ts') :
    ∃ t r, ts' = t :: r ∧ t.kind = .metaStart ∧ ts'.length ≤ ts.length := by
  induction ts generalizing last with
  | nil => simp [seekMeta] at h
  | cons t rest ih =>
    unfold seekMeta at h
    split at h
    · rename_i hc
      simp only [Option.some.injEq] at h
      simp only [Bool.and_eq_true, beq_iff_eq] at hc
      exact ⟨t, rest, h.symm, hc.2, by rw [← h]; exact Nat.le_refl _⟩
    · obtain ⟨t', r', e1, e2, e3⟩ := ih _ h
      exact ⟨t', r', e1, e2, by simp only [List.length_cons]; omega⟩

theorem blocks_seek_cons (last : TK) (t : Tok) (rest : List Tok) :
    seekMeta last (t :: rest) =
      if last == .newline && t.kind == .metaStart then some (t :: rest) else seekMeta t.kind rest := by
  rw [seekMeta]

theorem blocks_seek_blank (last : TK) (ts : List Tok) (h : AllBlank ts) : seekMeta last ts = none := by
  induction ts generalizing last with
  | nil => rfl
  | cons t rest ih =>
    have ht := h t (List.mem_cons_self ..)
    have hk : t.kind ≠ .metaStart := by
      intro hk; rw [hk] at ht; simp [isEmptyTok] at ht
    have hc : (last == TK.newline && t.kind == TK.metaStart) = false := by simp [hk]
    rw [blocks_seek_cons, hc]
    simp only [Bool.false_eq_true, if_false]
    exact ih _ (fun u hu => h u (List.mem_cons_of_mem _ hu))

/-- the seeker runs through a line that does not start with a `>>` at a line start -/
theorem blocks_seek_line (last : TK) (ts : List Tok)
    (h : last ≠ .newline ∨ ∀ t, ts.head? = some t → t.kind ≠ .metaStart) :
    seekMeta last ts = seekMeta .newline (afterLine ts) := by
  induction ts generalizing last with
  | nil => rfl
  | cons t r ih =>
    have hc : (last == TK.newline && t.kind == TK.metaStart) = false := by
      rcases h with h | h
      · simp [h]
      · simp [h t rfl]
    rw [blocks_seek_cons, hc]
    simp only [Bool.false_eq_true, if_false]
    by_cases hk : t.kind = .newline
    · have : afterLine (t :: r) = r := by simp [afterLine, hk]
      rw [this, hk]
    · have : afterLine (t :: r) = afterLine r := by simp [afterLine, hk]
      rw [this]
      exact ih _ (Or.inl hk)

theorem blocks_seek_meta_head (t : Tok) (r : List Tok) (h : t.kind = .metaStart) :
    seekMeta .newline (t :: r) = some (t :: r) := by
  simp [seekMeta, h]

theorem blocks_meta_fuel : ∀ (f1 f2 : Nat) (last : TK) (ts : List Tok), ts.length ≤ f1 → ts.length ≤ f2 →
    metaBlocks f1 last ts = metaBlocks f2 last ts := by
  intro f1
  induction f1 with
  | zero =>
    intro f2 last ts h1 h2
    have : ts = [] := List.eq_nil_of_length_eq_zero (by omega)
    subst this
    cases f2 <;> simp [metaBlocks, seekMeta]
  | succ n ih =>
    intro f2 last ts h1 h2
    cases f2 with
    | zero =>
      have : ts = [] := List.eq_nil_of_length_eq_zero (by omega)
      subst this
      simp [metaBlocks, seekMeta]
    | succ m =>
      rw [blocks_meta_succ, blocks_meta_succ]
      cases hs : seekMeta last ts with
      | none => rfl
      | some ts' =>
        obtain ⟨t, r, e, _, hl⟩ := blocks_seek_some last ts ts' hs
        have := blocks_afterLine_length t r
        rw [← e] at this
        simp only
        rw [ih m .newline (afterLine ts') (by omega) (by omega)]

/-- the blocks of the metadata-only scanner, with the fuel `pullMetaEvents` uses -/
def metaBlocksOf (ts : List Tok) : List (List Tok) := metaBlocks (ts.length + 1) .newline ts

theorem blocks_MB_of_seek_eq (ts1 ts2 : List Tok) (h : seekMeta .newline ts1 = seekMeta .newline ts2) :
    metaBlocksOf ts1 = metaBlocksOf ts2 := by
  unfold metaBlocksOf
  rw [blocks_meta_succ, blocks_meta_succ, h]
  cases hs : seekMeta .newline ts2 with
  | none => rfl
  | some ts' =>
    obtain ⟨t, r, e, _, hl2⟩ := blocks_seek_some _ ts2 ts' hs
    obtain ⟨_, _, _, _, hl1⟩ := blocks_seek_some _ ts1 ts' (h.trans hs)
    have := blocks_afterLine_length t r
    rw [← e] at this
    simp only
    rw [blocks_meta_fuel ts1.length ts2.length .newline (afterLine ts') (by omega) (by omega)]

theorem blocks_MB_skip_line (t0 : Tok) (tl : List Tok) (h : t0.kind ≠ .metaStart) :
    metaBlocksOf (t0 :: tl) = metaBlocksOf (afterLine (t0 :: tl)) := by
  apply blocks_MB_of_seek_eq
  exact blocks_seek_line .newline (t0 :: tl) (Or.inr (by intro t ht; simp at ht; rw [← ht]; exact h))

theorem blocks_MB_meta_line (t0 : Tok) (tl : List Tok) (h : t0.kind = .metaStart) :
    metaBlocksOf (t0 :: tl) = lineBody (t0 :: tl) :: metaBlocksOf (afterLine (t0 :: tl)) := by
  unfold metaBlocksOf
  rw [blocks_meta_succ, blocks_seek_meta_head t0 tl h]
  have := blocks_afterLine_length t0 tl
  simp only
  rw [blocks_meta_fuel (t0 :: tl).length ((afterLine (t0 :: tl)).length + 1) .newline _ (by omega) (by omega)]

theorem blocks_MB_blank (ts : List Tok) (h : AllBlank ts) : metaBlocksOf ts = [] := by
  unfold metaBlocksOf
  rw [blocks_meta_succ, blocks_seek_blank _ _ h]

/-- trimming a list without newline tokens does nothing -/
theorem blocks_trim_id (l : List Tok) (h : ∀ t ∈ l, t.kind ≠ .newline) : trimTrailingNewlines l = l := by
  unfold trimTrailingNewlines
  cases hr : l.reverse with
  | nil =>
    have : l = [] := by simpa using hr
    simp [this]
  | cons a r =>
    have ha : a ∈ l := by
      rw [← List.mem_reverse, hr]; exact List.mem_cons_self ..
    have : (a.kind == TK.newline) = false := by simpa using h a ha
    rw [List.dropWhile_cons, this]
    simp only [Bool.false_eq_true, if_false]
    rw [← hr, List.reverse_reverse]

theorem blocks_trim_append_newlines (l nls : List Tok) (h : ∀ t ∈ nls, t.kind = .newline) :
    trimTrailingNewlines (l ++ nls) = trimTrailingNewlines l := by
  unfold trimTrailingNewlines
  rw [List.reverse_append, List.dropWhile_append_of_pos]
  intro a ha
  simpa using h a (List.mem_reverse.1 ha)

theorem blocks_lineBody_no_newline (ts : List Tok) : ∀ t ∈ lineBody ts, t.kind ≠ .newline := by
  intro t ht
  have := blocks_mem_takeWhile _ _ _ ht
  simpa using this

theorem blocks_lineOf_eq (ts : List Tok) :
    ∃ nls, lineOf ts = lineBody ts ++ nls ∧ ∀ t ∈ nls, t.kind = .newline := by
  refine ⟨(ts.dropWhile (fun t => t.kind != .newline)).take 1, rfl, ?_⟩
  intro t ht
  cases hd : ts.dropWhile (fun t => t.kind != .newline) with
  | nil => rw [hd] at ht; simp at ht
  | cons a r =>
    rw [hd] at ht
    simp only [List.take_succ_cons, List.take_zero, List.mem_singleton] at ht
    subst ht
    have := List.head?_dropWhile_not (fun t : Tok => t.kind != .newline) ts
    rw [hd] at this
    simpa using this

/-- the trimmed single line is the line without its newline token -/
theorem blocks_trim_lineOf (ts : List Tok) : trimTrailingNewlines (lineOf ts) = lineBody ts := by
  obtain ⟨nls, e, h⟩ := blocks_lineOf_eq ts
  rw [e, blocks_trim_append_newlines _ _ h, blocks_trim_id _ (blocks_lineBody_no_newline ts)]

/-- trimming keeps the first token when it is not a newline -/
theorem blocks_trim_head (t0 : Tok) (l : List Tok) (h : t0.kind ≠ .newline) :
    (trimTrailingNewlines (t0 :: l)).head? = some t0 := by
  obtain ⟨nls, e, _⟩ := blocks_trim_spec (t0 :: l)
  have hm := blocks_trim_keeps (t0 :: l) t0 (List.mem_cons_self ..) h
  cases hb : trimTrailingNewlines (t0 :: l) with
  | nil => rw [hb] at hm; cases hm
  | cons a r =>
    rw [hb] at e
    simp only [List.cons_append, List.cons.injEq] at e
    simp [e.1]

theorem blocks_nonblank_line_head (t0 : Tok) (tl : List Tok)
    (h : (lineOf (t0 :: tl)).all (fun t => isEmptyTok t.kind) = false) : t0.kind ≠ .newline := by
  intro hk
  have : lineOf (t0 :: tl) = [t0] := by simp [lineOf, hk]
  rw [this] at h
  simp [isEmptyTok, hk] at h

/-- Step A: skipping empty lines does not change what the metadata-only scanner finds -/
theorem blocks_skip_MB : ∀ (fuel : Nat) (ts : List Tok) (li : LineInfo) (rest : List Tok),
    skipEmptyLines fuel ts = some (li, rest) → metaBlocksOf ts = metaBlocksOf (li.toks ++ rest) := by
  intro fuel
  induction fuel with
  | zero => intro ts li rest h; simp [skipEmptyLines] at h
  | succ n ih =>
    intro ts li rest h
    cases ts with
    | nil => simp [skipEmptyLines, pullLine] at h
    | cons t0 tl =>
      simp only [skipEmptyLines, blocks_pullLine_cons] at h
      split at h
      · rename_i he
        have hb : isEmptyTok t0.kind = true := by
          have hh := blocks_lineOf_head t0 tl
          rw [List.all_eq_true] at he
          cases hl : lineOf (t0 :: tl) with
          | nil => rw [hl] at hh; cases hh
          | cons a r =>
            rw [hl] at hh; simp only [List.head?_cons, Option.some.injEq] at hh
            subst hh
            exact he a (by rw [hl]; exact List.mem_cons_self ..)
        have hk : t0.kind ≠ .metaStart := by
          intro hk; rw [hk] at hb; simp [isEmptyTok] at hb
        rw [blocks_MB_skip_line t0 tl hk]
        exact ih _ _ _ h
      · simp only [Option.some.injEq, Prod.mk.injEq] at h
        obtain ⟨h1, h2⟩ := h
        subst h1 h2
        simp only
        rw [blocks_lineOf_afterLine]

/-- Step C: the continuation lines of a multi-line block contain no `>>` line -/
theorem blocks_more_MB : ∀ (fuel : Nat) (ts : List Tok),
    metaBlocksOf ts = metaBlocksOf (moreLines fuel ts).2 := by
  intro fuel
  induction fuel with
  | zero => intro ts; rfl
  | succ n ih =>
    intro ts
    cases ts with
    | nil => simp [moreLines, pullLine, isSingleLineMarker]
    | cons t0 tl =>
      by_cases hm : isSingleLineMarker (some t0) = true
      · simp [moreLines, hm]
      · have hk : t0.kind ≠ .metaStart := by
          intro hk; simp [isSingleLineMarker, hk] at hm
        simp only [moreLines, List.head?_cons, hm, Bool.false_eq_true, if_false, blocks_pullLine_cons]
        rw [blocks_MB_skip_line t0 tl hk]
        split
        · rfl
        · exact ih _

/-- one step of the full splitter, seen by the metadata-only scanner -/
theorem blocks_next_MB (ts b rest : List Tok) (h : nextBlock ts = some (b, rest)) :
    metaBlocksOf ts = (if isMetaBlock b then [b] else []) ++ metaBlocksOf rest := by
  rw [blocks_next_eq] at h
  cases hs : skipEmptyLines (ts.length + 1) ts with
  | none => rw [hs] at h; simp at h
  | some p =>
    obtain ⟨li, r⟩ := p
    rw [hs] at h
    simp only [Option.some.injEq, Prod.mk.injEq] at h
    obtain ⟨hb, hr⟩ := h
    obtain ⟨pre, e1, hpre, hne, hpl⟩ := blocks_skip_some _ _ _ _ hs
    rw [blocks_skip_MB _ _ _ _ hs]
    obtain ⟨f1, f2, f3, f4, f5⟩ := blocks_pullLine_some _ _ _ hpl
    cases hts : li.toks ++ r with
    | nil => exact absurd hts f5
    | cons t0 tl =>
      rw [hts] at f1 f2 f3 f4
      have hall : (lineOf (t0 :: tl)).all (fun t => isEmptyTok t.kind) = false := by rw [← f3]; exact hne
      have hnl := blocks_nonblank_line_head t0 tl hall
      have hhead : b.head? = some t0 := by
        rw [← hb]
        have hh := blocks_lineOf_head t0 tl
        rw [← f1] at hh
        cases hl : li.toks with
        | nil => rw [hl] at hh; cases hh
        | cons a l' =>
          rw [hl] at hh; simp only [List.head?_cons, Option.some.injEq] at hh
          subst hh
          exact blocks_trim_head a _ hnl
      simp only [List.head?_cons] at f4
      by_cases hk : t0.kind = .metaStart
      · -- a `>>` line: single-line block
        have hsl : li.isSingleLine = true := by rw [f4]; simp [isSingleLineMarker, hk]
        have hbm : blockMore li r = ([], r) := by simp [blockMore, hsl]
        rw [hbm] at hb hr
        simp only [List.append_nil] at hb
        rw [f1, blocks_trim_lineOf] at hb
        rw [blocks_MB_meta_line t0 tl hk, ← f2, hb, ← hr]
        simp [isMetaBlock, hhead, hk]
      · have hnm : isMetaBlock b = false := by simp [isMetaBlock, hhead, hk]
        rw [hnm, blocks_MB_skip_line t0 tl hk, ← f2]
        simp only [Bool.false_eq_true, if_false, List.nil_append]
        rw [← hr]
        unfold blockMore
        split
        · rfl
        · exact blocks_more_MB _ _

/-- C14: the metadata-only scanner finds exactly the `>>` blocks of the full splitter -/
theorem blocks_meta_eq : ∀ (n : Nat) (ts : List Tok), ts.length ≤ n →
    metaBlocksOf ts = (allBlocks (ts.length + 1) ts).filter isMetaBlock := by
  intro n
  induction n with
  | zero =>
    intro ts h
    have : ts = [] := List.eq_nil_of_length_eq_zero (by omega)
    subst this
    rw [blocks_all_nil]; rfl
  | succ n ih =>
    intro ts h
    rw [blocks_all_unfold]
    cases hn : nextBlock ts with
    | none =>
      simp only [List.filter_nil]
      exact blocks_MB_blank ts ((blocks_next_none ts).1 hn)
    | some p =>
      obtain ⟨b, rest⟩ := p
      obtain ⟨_, _, _, _, _, _, hl⟩ := blocks_next_some ts b rest hn
      simp only
      rw [blocks_next_MB ts b rest hn, ih rest (by omega), List.filter_cons]
      cases isMetaBlock b <;> simp

/-! ### front matter split (C04) -/

theorem blocks_splitInclusive_flatten (s : List Char) : (splitInclusive s).flatten = s := by
  induction s with
  | nil => rfl
  | cons c t ih =>
    unfold splitInclusive
    split
    · simp [ih]
    · split
      · rename_i h0
        rw [h0] at ih
        simp only [List.flatten_nil] at ih
        simp [← ih]
      · rename_i l ls h0
        rw [h0] at ih
        simp only [List.flatten_cons] at ih ⊢
        rw [← ih]; simp

theorem blocks_linesWithOffset_text (ls : List (List Char)) (off : Nat) :
    (linesWithOffset ls off).flatMap (·.1) = ls.flatten := by
  induction ls generalizing off with
  | nil => rfl
  | cons l ls ih => simp [linesWithOffset, ih]

/-- the offset recorded with a line is the byte length of everything before it -/
theorem blocks_linesWithOffset_offset (ls : List (List Char)) (off : Nat)
    (P Q : List (List Char × Nat)) (x : List Char × Nat)
    (h : linesWithOffset ls off = P ++ x :: Q) : x.2 = off + utf8Len (P.flatMap (·.1)) := by
  induction P generalizing ls off with
  | nil =>
    cases ls with
    | nil => simp [linesWithOffset] at h
    | cons l ls =>
      simp only [linesWithOffset, List.nil_append, List.cons.injEq] at h
      rw [← h.1]; simp [utf8Len]
  | cons p P ih =>
    cases ls with
    | nil => simp [linesWithOffset] at h
    | cons l ls =>
      simp only [linesWithOffset, List.cons_append, List.cons.injEq] at h
      have := ih ls _ h.2
      rw [this, ← h.1]
      simp only [List.flatMap_cons, utf8Len_append]
      omega

theorem blocks_frontmatter_offsets (cs : CharSpec) (s : List Char) (fm : FrontMatter)
    (h : parseFrontmatter cs s = some fm) :
    ∃ pre mid, s = pre ++ fm.yamlText ++ mid ++ fm.cookText ∧
      fm.yamlOffset = utf8Len pre ∧ fm.cookOffset = utf8Len (pre ++ fm.yamlText ++ mid) := by
  unfold parseFrontmatter at h
  simp only at h
  generalize hL : linesWithOffset (splitInclusive s) 0 = L at h
  have htext : L.flatMap (·.1) = s := by
    rw [← hL, blocks_linesWithOffset_text, blocks_splitInclusive_flatten]
  have hsplit1 := List.takeWhile_append_dropWhile (p := fun l : List Char × Nat => !isFence cs l.1) (l := L)
  split at h
  · cases h
  · rename_i f1 rest1 hd1
    split at h
    · cases h
    · have hsplit2 := List.takeWhile_append_dropWhile (p := fun l : List Char × Nat => !isFence cs l.1) (l := rest1)
      split at h
      · cases h
      · rename_i f2 rest2 hd2
        simp only [Option.some.injEq] at h
        rw [hd1] at hsplit1
        rw [hd2] at hsplit2
        generalize List.takeWhile (fun l : List Char × Nat => !isFence cs l.1) L = before at hsplit1
        generalize hy : List.takeWhile (fun l : List Char × Nat => !isFence cs l.1) rest1 = yaml at hsplit2 h
        have e1 : linesWithOffset (splitInclusive s) 0 = before ++ f1 :: rest1 := by rw [hL, hsplit1]
        have e2 : linesWithOffset (splitInclusive s) 0 = (before ++ f1 :: yaml) ++ f2 :: rest2 := by
          rw [e1, ← hsplit2]; simp
        have o1 := blocks_linesWithOffset_offset _ _ _ _ _ e1
        have o2 := blocks_linesWithOffset_offset _ _ _ _ _ e2
        refine ⟨before.flatMap (·.1) ++ f1.1, f2.1, ?_, ?_, ?_⟩
        · rw [← h, ← htext, ← hsplit1, ← hsplit2]
          simp [List.flatMap_append, List.append_assoc]
        · rw [← h]; simp only [o1, utf8Len_append]; omega
        · rw [← h]
          simp only [o2, List.flatMap_append, List.flatMap_cons, utf8Len_append]
          omega

/-! ### blocks are in source order -/

theorem blocks_chain_before (off : Nat) (a b : List Tok) (h : Chain off (a ++ b)) :
    ∀ u ∈ a, ∀ v ∈ b, u.stop ≤ v.start := by
  intro u hu v hv
  obtain ⟨h1, h2⟩ := (blocks_chain_append off a b).1 h
  have := (blocks_chain_bounds off a h1 u hu).2
  have := (blocks_chain_bounds _ b h2 v hv).1
  omega

theorem blocks_all_mem_sub : ∀ (f : Nat) (ts b : List Tok), b ∈ allBlocks f ts → ∀ u ∈ b, u ∈ ts := by
  intro f ts b hb u hu
  obtain ⟨_, pre, post, e⟩ := blocks_all_infix f ts b hb
  rw [e]; simp [hu]

theorem blocks_all_ordered : ∀ (f : Nat) (off : Nat) (ts : List Tok), Chain off ts →
    (allBlocks f ts).Pairwise (fun b1 b2 => ∀ u ∈ b1, ∀ v ∈ b2, u.stop ≤ v.start) := by
  intro f
  induction f with
  | zero => intro off ts _; simp [allBlocks]
  | succ n ih =>
    intro off ts h
    simp only [allBlocks]
    cases hn : nextBlock ts with
    | none => simp
    | some p =>
      obtain ⟨b, rest⟩ := p
      obtain ⟨pre, post, e, _, _, _, _⟩ := blocks_next_some ts b rest hn
      simp only [List.pairwise_cons]
      have e' : ts = (pre ++ b ++ post) ++ rest := by rw [e]; simp [List.append_assoc]
      rw [e'] at h
      constructor
      · intro b2 hb2 u hu v hv
        have hv' := blocks_all_mem_sub n rest b2 hb2 v hv
        exact blocks_chain_before off _ rest h u (by simp [hu]) v hv'
      · exact ih _ rest ((blocks_chain_append off _ rest).1 h).2

end Cook
