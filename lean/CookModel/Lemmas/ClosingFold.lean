import CookModel.Lemmas.ClosingPanic
import CookModel.Lemmas.Lexer
/-
  The analysis fold never sets its panic flag on well-bracketed `EvOK'` events whose component spans
  lie on character boundaries (C03, analysis half).
-/
set_option linter.unusedSectionVars false
set_option linter.unusedVariables false
set_option linter.unusedSimpArgs false
namespace Cook
variable {α : Type} [Arith α]

/-! ### frames: which fields a piece leaves alone -/

/-- `m` does not change the field (or function of the state) `f` -/
structure Pres {γ β : Type} (f : Col α → γ) (m : A α β) : Prop where
  out : ∀ s, f (m s).2 = f s

namespace Pres
variable {γ β δ : Type} {f : Col α → γ}

theorem pure (a : β) : Pres f (Pure.pure a : A α β) := ⟨fun _ => rfl⟩
theorem get : Pres f (MonadState.get : A α (Col α)) := ⟨fun _ => rfl⟩
theorem bind {m : A α β} {k : β → A α δ} (hm : Pres f m) (hk : ∀ a, Pres f (k a)) : Pres f (m >>= k) :=
  ⟨fun s => ((hk (m s).1).out (m s).2).trans (hm.out s)⟩
theorem modify (g : Col α → Col α) (h : ∀ s, f (g s) = f s) : Pres f (_root_.modify g : A α PUnit) := ⟨h⟩
theorem ofDiag {m : A α β} (hd : DiagOnly m) (hf : ∀ s d p, f { s with diags := d, panic := p } = f s) :
    Pres f m := by
  constructor
  intro s
  obtain ⟨d, p, hp⟩ := hd.out s
  rw [hp]; exact hf s d p

end Pres

syntax "pres_leaf" : tactic
macro_rules | `(tactic| pres_leaf) => `(tactic| first
  | with_reducible exact Pres.pure _
  | with_reducible exact Pres.get
  | ((with_reducible apply Pres.modify) <;> (intro _; rfl))
  | ((with_reducible apply Pres.ofDiag (by diag_leaf)) <;> (intro _ _ _; rfl))
  | with_reducible assumption)

macro "pres" : tactic => `(tactic|
  repeat' (first
    | intro _
    | pres_leaf
    | with_reducible apply Pres.bind
    | split
    | dsimp only))

/-! ### values: a property of the returned value, whatever the state -/

structure Val {β : Type} (R : β → Prop) (m : A α β) : Prop where
  out : ∀ s, R (m s).1

theorem Val.pure {β : Type} {R : β → Prop} {a : β} (h : R a) : Val R (Pure.pure a : A α β) := ⟨fun _ => h⟩
theorem Val.bind {β δ : Type} {R : δ → Prop} {m : A α β} {k : β → A α δ} (hk : ∀ a, Val R (k a)) :
    Val R (m >>= k) := ⟨fun s => (hk (m s).1).out (m s).2⟩

macro "val" : tactic => `(tactic|
  repeat' (first
    | intro _
    | ((with_reducible apply Val.pure) <;> rfl)
    | with_reducible apply Val.bind
    | split
    | dsimp only))

theorem ingrRegular_val (env : Env) (input : Str) (li : Loc (PIngredient α)) (igr0 : Ingredient (ScalableValue α)) :
    Val (fun ig => ig.quantity = igr0.quantity) (ingrRegular env input li igr0) := by
  unfold ingrRegular; val

theorem cwResolve_val (env : Env) (input : Str) (lc : Loc (PCookware α)) (cw0 : Cookware (ScalableValue α)) :
    Val (fun cw => cw.quantity = cw0.quantity) (cwResolve env input lc cw0) := by
  unfold cwResolve; val

/-! ### `&input[a..b]` on character boundaries -/

/-- the span `sp` cuts the input at two character boundaries -/
def OnBoundaries (input : Str) (sp : Span) : Prop :=
  ∃ pre mid suf, input = pre ++ mid ++ suf ∧ sp.start = utf8Len pre ∧ sp.stop = utf8Len pre + utf8Len mid

theorem sliceBytes_go_started (a b : Nat) (mid suf : Str) (off : Nat) (acc : Str) (hb : b = off + utf8Len mid) :
    sliceBytes.go a b (mid ++ suf) off acc true = some (acc.reverse ++ mid) := by
  induction mid generalizing off acc with
  | nil =>
    unfold sliceBytes.go
    simp [utf8Len] at hb
    simp [hb]
  | cons c m ih =>
    have hpos := utf8Size_pos c
    rw [utf8Len_cons] at hb
    unfold sliceBytes.go
    have h1 : (off = b) = False := by simp; omega
    have h2 : ¬ off > b := by omega
    simp only [List.cons_append, h1, decide_false, Bool.false_and, Bool.false_eq_true, if_false, or_true, if_true, h2]
    rw [ih (off + c.utf8Size) (c :: acc) (by omega)]
    simp

theorem sliceBytes_go_skip (a b : Nat) (pre mid suf : Str) (off : Nat) (ha : a = off + utf8Len pre)
    (hb : b = a + utf8Len mid) :
    sliceBytes.go a b (pre ++ mid ++ suf) off [] false = some mid := by
  induction pre generalizing off with
  | nil =>
    simp [utf8Len] at ha
    subst ha
    cases mid with
    | nil =>
      simp [utf8Len] at hb
      unfold sliceBytes.go
      simp [hb]
    | cons c m =>
      have hpos := utf8Size_pos c
      rw [utf8Len_cons] at hb
      unfold sliceBytes.go
      have h1 : (a = b) = False := by simp; omega
      have h2 : ¬ a > b := by omega
      simp only [List.nil_append, List.cons_append, h1, decide_false, Bool.false_and, Bool.and_false, Bool.false_eq_true,
        if_false, true_or, if_true, h2, Bool.or_false]
      rw [sliceBytes_go_started a b m suf (a + c.utf8Size) [c] (by omega)]
      simp
  | cons c p ih =>
    have hpos := utf8Size_pos c
    rw [utf8Len_cons] at ha
    unfold sliceBytes.go
    have h1 : (off = b) = False := by simp; omega
    have h2 : (off = a) = False := by simp; omega
    have h3 : ¬ off > a := by omega
    simp only [List.cons_append, h1, decide_false, Bool.false_and, Bool.false_eq_true, if_false, h2, or_false, h3]
    exact ih (off + c.utf8Size) (by omega)

/-- slicing the input at two character boundaries succeeds -/
theorem sliceBytes_onBoundaries (input : Str) (sp : Span) (h : OnBoundaries input sp) :
    (sliceBytes input sp.start sp.stop).isSome = true := by
  obtain ⟨pre, mid, suf, hin, h1, h2⟩ := h
  unfold sliceBytes
  have : ¬ sp.start > sp.stop := by omega
  simp only [this, if_false]
  rw [hin, sliceBytes_go_skip sp.start sp.stop pre mid suf 0 (by omega) (by omega)]
  rfl

/-! ### the bracketing of the event stream -/

/-- One step of the Start/End automaton; the state is the kind of the open block, if any.
    `none` = the event is not allowed here.  Content events (`text`, components) only inside a block,
    in a `text` block only `text`; no nested `start`; `stop k` only closes a `start k`; `>>` metadata
    (which may switch the define mode) only between blocks; diagnostics, sections and front matter
    anywhere. -/
def wbStep (o : Option BlockKind) (ev : Ev α) : Option (Option BlockKind) :=
  match ev with
  | .error _ => some o
  | .warning _ => some o
  | .frontMatter _ => some o
  | .«section» _ => some o
  | .metadata _ _ => if o = none then some none else none
  | .start k => if o = none then some (some k) else none
  | .stop k => if o = some k then some none else none
  | .text _ => if o = none then none else some o
  | .ingredient _ => if o = some .step then some o else none
  | .cookware _ => if o = some .step then some o else none
  | .timer _ => if o = some .step then some o else none

/-- the events are accepted by the automaton from state `o` -/
def WBFrom : Option BlockKind → List (Ev α) → Prop
  | _, [] => True
  | o, ev :: rest => ∃ o', wbStep o ev = some o' ∧ WBFrom o' rest

/-- Start/End bracketing of an event stream -/
def WellBracketed (evs : List (Ev α)) : Prop := WBFrom none evs

/-- how the collector's block buffer relates to the open block: a step block is buffered as items,
    unless the define mode is `text`; a text block always as text -/
def BlockRel (s : Col α) : Option BlockKind → Prop
  | none => s.block = none
  | some k => (∃ items, s.block = some (.step items) ∧ k = .step) ∨
      (∃ t, s.block = some (.text t) ∧ (k = .text ∨ s.defineMode = .text))

theorem BlockRel.congr {s s' : Col α} {o : Option BlockKind} (hb : s'.block = s.block)
    (hd : s'.defineMode = s.defineMode) (h : BlockRel s o) : BlockRel s' o := by
  cases o with
  | none => exact hb.trans h
  | some k =>
    rcases h with ⟨items, h1, h2⟩ | ⟨t, h1, h2⟩
    · exact Or.inl ⟨items, hb.trans h1, h2⟩
    · exact Or.inr ⟨t, hb.trans h1, by rw [hd]; exact h2⟩

def evSpan : Ev α → Option Span
  | .ingredient i => some i.span
  | .cookware c => some c.span
  | .timer t => some t.span
  | _ => none

/-- the span of a component event cuts the input at character boundaries (C04's obligation) -/
def SpanOK (input : Str) (ev : Ev α) : Prop := ∀ sp, evSpan ev = some sp → OnBoundaries input sp

def SpansOK (input : Str) (evs : List (Ev α)) : Prop := ∀ ev ∈ evs, SpanOK input ev

/-- the invariant of the fold under which no panic site is reachable -/
structure NP (env : Env) (s : Col α) : Prop where
  inv : Inv env s
  panic : s.panic = none
  qI : QLinkI s.ingredients s.locIngr
  qC : QLinkC s.cookware s.locCw

theorem NP.init (env : Env) : NP (α := α) env {} :=
  ⟨Inv.init env, rfl, fun idx ig li h => by simp at h, fun idx cw lc h => by simp at h⟩

/-- a step that leaves the four tables alone -/
theorem NP.frame {env : Env} {s s' : Col α} (h : NP env s) (hinv : Inv env s') (hp : s'.panic = s.panic)
    (h1 : s'.ingredients = s.ingredients) (h2 : s'.locIngr = s.locIngr)
    (h3 : s'.cookware = s.cookware) (h4 : s'.locCw = s.locCw) : NP env s' :=
  ⟨hinv, hp.trans h.panic, by rw [h1, h2]; exact h.qI, by rw [h3, h4]; exact h.qC⟩

/-! ### per-event lemmas -/

def tabs (s : Col α) := (s.ingredients, s.locIngr, s.cookware, s.locCw)

macro_rules | `(tactic| diag_leaf) => `(tactic| exact endBlockContent_diagOnly ..)

theorem timeOverrideCheck_pres (k : StdKey) :
    Pres (fun s : Col α => (tabs s, s.block)) (timeOverrideCheck k) := by
  unfold timeOverrideCheck; pres
macro_rules | `(tactic| pres_leaf) => `(tactic| with_reducible exact timeOverrideCheck_pres _)

theorem metadataA_pres (env : Env) (k v : Text) :
    Pres (fun s : Col α => (tabs s, s.block)) (metadataA env k v) := by
  unfold metadataA; pres

theorem NP.of_pres {env : Env} {s s' : Col α} (h : NP env s) (hinv : Inv env s') (hp : s'.panic = s.panic)
    (ht : tabs s' = tabs s) : NP env s' := by
  simp only [tabs, Prod.mk.injEq] at ht
  exact h.frame hinv hp ht.1 ht.2.1 ht.2.2.1 ht.2.2.2

theorem metadataA_np (env : Env) (k v : Text) (s : Col α) (h : NP env s) (hb : BlockRel s none) :
    NP env (metadataA env k v s).2 ∧ BlockRel (metadataA env k v s).2 none := by
  have e := (metadataA_pres env k v).out s
  simp only [Prod.mk.injEq] at e
  exact ⟨h.of_pres (h.inv.congr ((metadataA_coreOnly env k v).out s)) (metadataA_pfAt env k v s) e.1,
    e.2.trans hb⟩

/-! End -/

theorem endBlockContent_pfAt (k : BlockKind) (s : Col α) (h : BlockRel s (some k)) :
    PFAt (endBlockContent k) s := by
  unfold endBlockContent
  apply PFAt.bind_get
  rcases h with ⟨items, h1, h2⟩ | ⟨t, h1, h2⟩
  · simp only [h1]; subst h2; pf_at
    all_goals (rename_i hc; simp at hc)
  · simp only [h1]; pf_at
    all_goals (
      rename_i hc
      exfalso
      rcases h2 with h2 | h2 <;> simp [h2] at hc)

theorem endBlock_pfAt (k : BlockKind) (s : Col α) (h : BlockRel s (some k)) : PFAt (endBlock k) s := by
  unfold endBlock
  with_reducible refine PFAt.bind_diag (by diag_leaf) (endBlockContent_pfAt k s h) (fun d => ?_)
  pf_at

theorem pushContent_pres (c : Content) : Pres (fun s : Col α => (tabs s, s.defineMode)) (pushContent c) := by
  unfold pushContent; pres
macro_rules | `(tactic| pres_leaf) => `(tactic| with_reducible exact pushContent_pres _)

theorem endBlock_pres (k : BlockKind) : Pres (fun s : Col α => (tabs s, s.defineMode)) (endBlock k) := by
  unfold endBlock; pres

theorem endBlock_block (k : BlockKind) (s : Col α) : (endBlock k s).2.block = none := by
  unfold endBlock
  simp +instances only [A_bind, A_modify]
  cases (endBlockContent k s).fst <;> rfl

theorem endBlock_np (env : Env) (k : BlockKind) (s : Col α) (h : NP env s) (hb : BlockRel s (some k)) :
    NP env (endBlock k s).2 ∧ BlockRel (endBlock k s).2 none := by
  have e := (endBlock_pres k).out s
  simp only [Prod.mk.injEq] at e
  exact ⟨h.of_pres (endBlock_inv env k s h.inv) (endBlock_pfAt k s hb) e.1, endBlock_block k s⟩

end Cook
