import CookModel.Lemmas.ClosingPanic
import CookModel.Lemmas.Lexer
/-
  The analysis fold never sets its panic flag on well-bracketed `EvOK'` events whose component spans
  lie on character boundaries (C03, analysis half).
-/
set_option linter.unusedSectionVars false
set_option linter.unusedVariables false
set_option linter.unusedSimpArgs false
namespace Cook
variable {α : Type} [Arith α]

/-! ### frames: which fields a piece leaves alone -/

/-- `m` does not change the field (or function of the state) `f` -/
structure Pres {γ β : Type} (f : Col α → γ) (m : A α β) : Prop where
  out : ∀ s, f (m s).2 = f s

namespace Pres
variable {γ β δ : Type} {f : Col α → γ}

theorem pure (a : β) : Pres f (Pure.pure a : A α β) := ⟨fun _ => rfl⟩
theorem get : Pres f (MonadState.get : A α (Col α)) := ⟨fun _ => rfl⟩
theorem bind {m : A α β} {k : β → A α δ} (hm : Pres f m) (hk : ∀ a, Pres f (k a)) : Pres f (m >>= k) :=
  ⟨fun s => ((hk (m s).1).out (m s).2).trans (hm.out s)⟩
theorem modify (g : Col α → Col α) (h : ∀ s, f (g s) = f s) : Pres f (_root_.modify g : A α PUnit) := ⟨h⟩
theorem ofDiag {m : A α β} (hd : DiagOnly m) (hf : ∀ s d p, f { s with diags := d, panic := p } = f s) :
    Pres f m := by
  constructor
  intro s
  obtain ⟨d, p, hp⟩ := hd.out s
  rw [hp]; exact hf s d p

end Pres

syntax "pres_leaf" : tactic
macro_rules | `(tactic| pres_leaf) => `(tactic| first
  | with_reducible exact Pres.pure _
  | with_reducible exact Pres.get
  | ((with_reducible apply Pres.modify) <;> (intro _; rfl))
  | ((with_reducible apply Pres.ofDiag (by diag_leaf)) <;> (intro _ _ _; rfl))
  | with_reducible assumption)

macro "pres" : tactic => `(tactic|
  repeat' (first
    | intro _
    | pres_leaf
    | with_reducible apply Pres.bind
    | split
    | dsimp only))

/-! ### values: a property of the returned value, whatever the state -/

structure Val {β : Type} (R : β → Prop) (m : A α β) : Prop where
  out : ∀ s, R (m s).1

theorem Val.pure {β : Type} {R : β → Prop} {a : β} (h : R a) : Val R (Pure.pure a : A α β) := ⟨fun _ => h⟩
theorem Val.bind {β δ : Type} {R : δ → Prop} {m : A α β} {k : β → A α δ} (hk : ∀ a, Val R (k a)) :
    Val R (m >>= k) := ⟨fun s => (hk (m s).1).out (m s).2⟩

macro "val" : tactic => `(tactic|
  repeat' (first
    | intro _
    | ((with_reducible apply Val.pure) <;> rfl)
    | with_reducible apply Val.bind
    | split
    | dsimp only))

theorem ingrRegular_val (env : Env) (input : Str) (li : Loc (PIngredient α)) (igr0 : Ingredient (ScalableValue α)) :
    Val (fun ig => ig.quantity = igr0.quantity) (ingrRegular env input li igr0) := by
  unfold ingrRegular; val

theorem cwResolve_val (env : Env) (input : Str) (lc : Loc (PCookware α)) (cw0 : Cookware (ScalableValue α)) :
    Val (fun cw => cw.quantity = cw0.quantity) (cwResolve env input lc cw0) := by
  unfold cwResolve; val

/-! ### `&input[a..b]` on character boundaries -/

/-- the span `sp` cuts the input at two character boundaries -/
def OnBoundaries (input : Str) (sp : Span) : Prop :=
  ∃ pre mid suf, input = pre ++ mid ++ suf ∧ sp.start = utf8Len pre ∧ sp.stop = utf8Len pre + utf8Len mid

theorem sliceBytes_go_started (a b : Nat) (mid suf : Str) (off : Nat) (acc : Str) (hb : b = off + utf8Len mid) :
    sliceBytes.go a b (mid ++ suf) off acc true = some (acc.reverse ++ mid) := by
  induction mid generalizing off acc with
  | nil =>
    unfold sliceBytes.go
    simp [utf8Len] at hb
    simp [hb]
  | cons c m ih =>
    have hpos := utf8Size_pos c
    rw [utf8Len_cons] at hb
    unfold sliceBytes.go
    have h1 : (off = b) = False := by simp; omega
    have h2 : ¬ off > b := by omega
    simp only [List.cons_append, h1, decide_false, Bool.false_and, Bool.false_eq_true, if_false, or_true, if_true, h2]
    rw [ih (off + c.utf8Size) (c :: acc) (by omega)]
    simp

theorem sliceBytes_go_skip (a b : Nat) (pre mid suf : Str) (off : Nat) (ha : a = off + utf8Len pre)
    (hb : b = a + utf8Len mid) :
    sliceBytes.go a b (pre ++ mid ++ suf) off [] false = some mid := by
  induction pre generalizing off with
  | nil =>
    simp [utf8Len] at ha
    subst ha
    cases mid with
    | nil =>
      simp [utf8Len] at hb
      unfold sliceBytes.go
      simp [hb]
    | cons c m =>
      have hpos := utf8Size_pos c
      rw [utf8Len_cons] at hb
      unfold sliceBytes.go
      have h1 : (a = b) = False := by simp; omega
      have h2 : ¬ a > b := by omega
      simp only [List.nil_append, List.cons_append, h1, decide_false, Bool.false_and, Bool.and_false, Bool.false_eq_true,
        if_false, true_or, if_true, h2, Bool.or_false]
      rw [sliceBytes_go_started a b m suf (a + c.utf8Size) [c] (by omega)]
      simp
  | cons c p ih =>
    have hpos := utf8Size_pos c
    rw [utf8Len_cons] at ha
    unfold sliceBytes.go
    have h1 : (off = b) = False := by simp; omega
    have h2 : (off = a) = False := by simp; omega
    have h3 : ¬ off > a := by omega
    simp only [List.cons_append, h1, decide_false, Bool.false_and, Bool.false_eq_true, if_false, h2, or_false, h3]
    exact ih (off + c.utf8Size) (by omega)

/-- slicing the input at two character boundaries succeeds -/
theorem sliceBytes_onBoundaries (input : Str) (sp : Span) (h : OnBoundaries input sp) :
    (sliceBytes input sp.start sp.stop).isSome = true := by
  obtain ⟨pre, mid, suf, hin, h1, h2⟩ := h
  unfold sliceBytes
  have : ¬ sp.start > sp.stop := by omega
  simp only [this, if_false]
  rw [hin, sliceBytes_go_skip sp.start sp.stop pre mid suf 0 (by omega) (by omega)]
  rfl

/-! ### the bracketing of the event stream -/

/-- One step of the Start/End automaton; the state is the kind of the open block, if any.
    `none` = the event is not allowed here.  Content events (`text`, components) only inside a block,
    in a `text` block only `text`; no nested `start`; `stop k` only closes a `start k`; `>>` metadata
    (which may switch the define mode) only between blocks; diagnostics, sections and front matter
    anywhere. -/
def wbStep (o : Option BlockKind) (ev : Ev α) : Option (Option BlockKind) :=
  match ev with
  | .error _ => some o
  | .warning _ => some o
  | .frontMatter _ => some o
  | .«section» _ => some o
  | .metadata _ _ => if o = none then some none else none
  | .start k => if o = none then some (some k) else none
  | .stop k => if o = some k then some none else none
  | .text _ => if o = none then none else some o
  | .ingredient _ => if o = some .step then some o else none
  | .cookware _ => if o = some .step then some o else none
  | .timer _ => if o = some .step then some o else none

/-- the events are accepted by the automaton from state `o` -/
def WBFrom : Option BlockKind → List (Ev α) → Prop
  | _, [] => True
  | o, ev :: rest => ∃ o', wbStep o ev = some o' ∧ WBFrom o' rest

/-- Start/End bracketing of an event stream -/
def WellBracketed (evs : List (Ev α)) : Prop := WBFrom none evs

/-- how the collector's block buffer relates to the open block: a step block is buffered as items,
    unless the define mode is `text`; a text block always as text -/
def BlockRel (s : Col α) : Option BlockKind → Prop
  | none => s.block = none
  | some k => (∃ items, s.block = some (.step items) ∧ k = .step) ∨
      (∃ t, s.block = some (.text t) ∧ (k = .text ∨ s.defineMode = .text))

theorem BlockRel.congr {s s' : Col α} {o : Option BlockKind} (hb : s'.block = s.block)
    (hd : s'.defineMode = s.defineMode) (h : BlockRel s o) : BlockRel s' o := by
  cases o with
  | none => exact hb.trans h
  | some k =>
    rcases h with ⟨items, h1, h2⟩ | ⟨t, h1, h2⟩
    · exact Or.inl ⟨items, hb.trans h1, h2⟩
    · exact Or.inr ⟨t, hb.trans h1, by rw [hd]; exact h2⟩

def evSpan : Ev α → Option Span
  | .ingredient i => some i.span
  | .cookware c => some c.span
  | .timer t => some t.span
  | _ => none

/-- the span of a component event cuts the input at character boundaries (C04's obligation) -/
def CompSpanOnBoundaries (input : Str) (ev : Ev α) : Prop := ∀ sp, evSpan ev = some sp → OnBoundaries input sp

def SpansOK (input : Str) (evs : List (Ev α)) : Prop := ∀ ev ∈ evs, CompSpanOnBoundaries input ev

/-- the invariant of the fold under which no panic site is reachable -/
structure NP (env : Env) (s : Col α) : Prop where
  inv : Inv env s
  panic : s.panic = none
  qI : QLinkI s.ingredients s.locIngr
  qC : QLinkC s.cookware s.locCw

theorem NP.init (env : Env) : NP (α := α) env {} :=
  ⟨Inv.init env, rfl, fun idx ig li h => by simp at h, fun idx cw lc h => by simp at h⟩

/-- a step that leaves the four tables alone -/
theorem NP.frame {env : Env} {s s' : Col α} (h : NP env s) (hinv : Inv env s') (hp : s'.panic = s.panic)
    (h1 : s'.ingredients = s.ingredients) (h2 : s'.locIngr = s.locIngr)
    (h3 : s'.cookware = s.cookware) (h4 : s'.locCw = s.locCw) : NP env s' :=
  ⟨hinv, hp.trans h.panic, by rw [h1, h2]; exact h.qI, by rw [h3, h4]; exact h.qC⟩

/-! ### per-event lemmas -/

def tabs (s : Col α) := (s.ingredients, s.locIngr, s.cookware, s.locCw)

macro_rules | `(tactic| diag_leaf) => `(tactic| exact endBlockContent_diagOnly ..)

theorem timeOverrideCheck_pres (k : StdKey) :
    Pres (fun s : Col α => (tabs s, s.block)) (timeOverrideCheck k) := by
  unfold timeOverrideCheck; pres
macro_rules | `(tactic| pres_leaf) => `(tactic| with_reducible exact timeOverrideCheck_pres _)

theorem metadataA_pres (env : Env) (k v : Text) :
    Pres (fun s : Col α => (tabs s, s.block)) (metadataA env k v) := by
  unfold metadataA; pres

theorem NP.of_pres {env : Env} {s s' : Col α} (h : NP env s) (hinv : Inv env s') (hp : s'.panic = s.panic)
    (ht : tabs s' = tabs s) : NP env s' := by
  simp only [tabs, Prod.mk.injEq] at ht
  exact h.frame hinv hp ht.1 ht.2.1 ht.2.2.1 ht.2.2.2

theorem metadataA_np (env : Env) (k v : Text) (s : Col α) (h : NP env s) (hb : BlockRel s none) :
    NP env (metadataA env k v s).2 ∧ BlockRel (metadataA env k v s).2 none := by
  have e := (metadataA_pres env k v).out s
  simp only [Prod.mk.injEq] at e
  exact ⟨h.of_pres (h.inv.congr ((metadataA_coreOnly env k v).out s)) (metadataA_pfAt env k v s) e.1,
    e.2.trans hb⟩

/-! End -/

theorem endBlockContent_pfAt (k : BlockKind) (s : Col α) (h : BlockRel s (some k)) :
    PFAt (endBlockContent k) s := by
  unfold endBlockContent
  apply PFAt.bind_get
  rcases h with ⟨items, h1, h2⟩ | ⟨t, h1, h2⟩
  · simp only [h1]; subst h2; pf_at
    all_goals (rename_i hc; simp at hc)
  · simp only [h1]; pf_at
    all_goals (
      rename_i hc
      exfalso
      rcases h2 with h2 | h2 <;> simp [h2] at hc)

theorem endBlock_pfAt (k : BlockKind) (s : Col α) (h : BlockRel s (some k)) : PFAt (endBlock k) s := by
  unfold endBlock
  with_reducible refine PFAt.bind_diag (by diag_leaf) (endBlockContent_pfAt k s h) (fun d => ?_)
  pf_at

theorem pushContent_pres (c : Content) : Pres (fun s : Col α => (tabs s, s.defineMode)) (pushContent c) := by
  unfold pushContent; pres
macro_rules | `(tactic| pres_leaf) => `(tactic| with_reducible exact pushContent_pres _)

theorem endBlock_pres (k : BlockKind) : Pres (fun s : Col α => (tabs s, s.defineMode)) (endBlock k) := by
  unfold endBlock; pres

theorem endBlock_block (k : BlockKind) (s : Col α) : (endBlock k s).2.block = none := by
  unfold endBlock
  simp +instances only [A_bind, A_modify]
  cases (endBlockContent k s).fst <;> rfl

theorem endBlock_np (env : Env) (k : BlockKind) (s : Col α) (h : NP env s) (hb : BlockRel s (some k)) :
    NP env (endBlock k s).2 ∧ BlockRel (endBlock k s).2 none := by
  have e := (endBlock_pres k).out s
  simp only [Prod.mk.injEq] at e
  exact ⟨h.of_pres (endBlock_inv env k s h.inv) (endBlock_pfAt k s hb) e.1, endBlock_block k s⟩

/-! text -/

theorem inStepTextStep_pres (env : Env) (t : Text) (items : List Item) :
    Pres (fun s : Col α => (tabs s, s.defineMode)) (inStepTextStep env t items) := by
  unfold inStepTextStep; pres
macro_rules | `(tactic| pres_leaf) => `(tactic| with_reducible exact inStepTextStep_pres ..)

theorem inStepText_pres (env : Env) (t : Text) :
    Pres (fun s : Col α => (tabs s, s.defineMode)) (inStepText env t) := by
  unfold inStepText; pres

theorem inStepTextStep_block (env : Env) (t : Text) (items : List Item) (s : Col α)
    (hb : s.block = some (.step items)) : ∃ items', (inStepTextStep env t items s).2.block = some (.step items') := by
  unfold inStepTextStep
  simp +instances only [A_bind, A_get, A_ite, A_modify, A_pure, awarn]
  split
  · split
    · exact ⟨items, hb⟩
    · exact ⟨items, hb⟩
  · split
    · exact ⟨_, rfl⟩
    · exact ⟨_, rfl⟩

theorem inStepText_np (env : Env) (t : Text) (s : Col α) (k : BlockKind) (h : NP env s)
    (hb : BlockRel s (some k)) : NP env (inStepText env t s).2 ∧ BlockRel (inStepText env t s).2 (some k) := by
  have e := (inStepText_pres env t).out s
  simp only [Prod.mk.injEq] at e
  have hpf : PFAt (inStepText env t) s := by
    unfold inStepText
    apply PFAt.bind_get
    rcases hb with ⟨items, h1, h2⟩ | ⟨b, h1, h2⟩
    · simp only [h1]; exact (inStepTextStep_pf env t items).pfAt s
    · simp only [h1]; exact PFAt.modify _ _ rfl
  refine ⟨h.of_pres (inStepText_inv env t s h.inv) hpf e.1, ?_⟩
  rcases hb with ⟨items, h1, h2⟩ | ⟨b, h1, h2⟩
  · obtain ⟨items', hi⟩ := inStepTextStep_block env t items s h1
    refine Or.inl ⟨items', ?_, h2⟩
    unfold inStepText
    simp +instances only [A_bind, A_get, h1]
    exact hi
  · refine Or.inr ⟨b ++ t.text, ?_, by rw [e.2]; exact h2⟩
    unfold inStepText
    simp +instances only [A_bind, A_get, h1, A_modify]

/-! components in a text buffer (define mode `text`) -/

theorem inTextComponent_pres (input : Str) (ev : Ev α) (buf : Str) :
    Pres (fun s : Col α => (tabs s, s.defineMode)) (inTextComponent input ev buf) := by
  unfold inTextComponent; pres

theorem inTextComponent_block (input : Str) (ev : Ev α) (buf : Str) (s : Col α) (hb : s.block = some (.text buf)) :
    ∃ b, (inTextComponent input ev buf s).2.block = some (.text b) := by
  rcases (inTextComponent_coreOnly input ev buf).out s with ⟨_, _, _, _, _, _, _, _, _, h | h⟩
  · exact ⟨buf, h.trans hb⟩
  · exact h

theorem inTextComponent_pfAt (input : Str) (ev : Ev α) (buf : Str) (s : Col α) (hm : s.defineMode = .text)
    (sp : Span) (hsp : evSpan ev = some sp) (hok : OnBoundaries input sp) :
    PFAt (inTextComponent input ev buf) s := by
  have hsl := sliceBytes_onBoundaries input sp hok
  unfold inTextComponent
  cases ev <;> simp only [evSpan, reduceCtorEq, Option.some.injEq] at hsp <;> subst hsp <;> pf_at
  all_goals (exfalso; simp_all)

/-! components in a step buffer -/

theorem optQuantityOf_isSome (env : Env) (q : Option (Loc (PQuantity α))) (b : Bool) (s : Col α) :
    (optQuantityOf env q b s).1.isSome = q.isSome := by
  cases q <;> rfl

theorem optValueOf_isSome (env : Env) (q : Option (Loc (PQValue α))) (s : Col α) :
    (optValueOf env q s).1.isSome = q.isSome := by
  cases q <;> rfl

/-- the ingredient `ingredientA` pushes has a quantity exactly when the event has one -/
theorem ingredientA_last (env : Env) (input : Str) (li : Loc (PIngredient α)) (s : Col α) :
    ∃ (ings : Array (Ingredient (ScalableValue α))) (ig : Ingredient (ScalableValue α)),
      (ingredientA env input li s).2.ingredients = ings.push ig ∧
      ig.quantity.isSome = li.val.quantity.isSome := by
  unfold ingredientA
  simp +instances only [A_bind, A_get]
  generalize hq0 : optQuantityOf env li.val.quantity true s = qq
  have hq : qq.1.isSome = li.val.quantity.isSome := by rw [← hq0]; exact optQuantityOf_isSome ..
  unfold ingrBuild
  simp +instances only [A_bind, A_get, A_pure, A_modify]
  refine ⟨_, _, rfl, ?_⟩
  rw [← hq]
  cases hi : li.val.inter with
  | some d =>
    simp only []
    rcases ingrInter_val li.val _ d qq.2 with hv | ⟨rel, _, hv⟩ <;> rw [hv]
  | none =>
    simp only []
    exact congrArg Option.isSome ((ingrRegular_val env input li _).out qq.2)

theorem cookwareA_last (env : Env) (input : Str) (lc : Loc (PCookware α)) (s : Col α) :
    ∃ (cws : Array (Cookware (ScalableValue α))) (cw : Cookware (ScalableValue α)),
      (cookwareA env input lc s).2.cookware = cws.push cw ∧
      cw.quantity.isSome = lc.val.quantity.isSome := by
  unfold cookwareA
  simp +instances only [A_bind, A_get]
  generalize hq0 : optValueOf env lc.val.quantity s = qq
  have hq : qq.1.isSome = lc.val.quantity.isSome := by rw [← hq0]; exact optValueOf_isSome ..
  unfold cwBuild
  simp +instances only [A_bind, A_get, A_pure, A_modify]
  refine ⟨_, _, rfl, ?_⟩
  rw [← hq]
  exact congrArg Option.isSome ((cwResolve_val env input lc _).out qq.2)

theorem QLinkI.step {env : Env} {s : Col α} (hq : QLinkI s.ingredients s.locIngr)
    (hloc : s.locIngr.size = s.ingredients.size)
    (ings : Array (Ingredient (ScalableValue α))) (igr : Ingredient (ScalableValue α)) (li : Loc (PIngredient α))
    (hsz : ings.size = s.ingredients.size) (hstep : IngrStep env s ings igr)
    (hig : igr.quantity.isSome = li.val.quantity.isSome) :
    QLinkI (ings.push igr) (s.locIngr.push li) := by
  intro idx ig l h1 h2 hqs
  rw [Array.getElem?_push] at h1 h2
  by_cases hidx : idx = ings.size
  · rw [if_pos hidx] at h1
    rw [if_pos (by omega)] at h2
    cases h1; cases h2
    rw [← hig]; exact hqs
  · rw [if_neg hidx] at h1
    rw [if_neg (by omega)] at h2
    rcases hstep with ⟨he, _⟩ | ⟨he, _⟩ | ⟨t, defn, rf, b, hd, _, _, _, _, _, he⟩
    · rw [he] at h1; exact hq idx ig l h1 h2 hqs
    · rw [he] at h1; exact hq idx ig l h1 h2 hqs
    · rw [he, Array.getElem?_setIfInBounds] at h1
      split at h1
      · rename_i hti
        split at h1
        · cases h1
          subst hti
          exact hq _ defn l hd h2 hqs
        · cases h1
      · exact hq idx ig l h1 h2 hqs

theorem QLinkC.step {env : Env} {s : Col α} (hq : QLinkC s.cookware s.locCw)
    (hloc : s.locCw.size = s.cookware.size)
    (cws : Array (Cookware (ScalableValue α))) (cw : Cookware (ScalableValue α)) (lc : Loc (PCookware α))
    (hsz : cws.size = s.cookware.size) (hstep : CwStep env s cws cw)
    (hig : cw.quantity.isSome = lc.val.quantity.isSome) :
    QLinkC (cws.push cw) (s.locCw.push lc) := by
  intro idx ig l h1 h2 hqs
  rw [Array.getElem?_push] at h1 h2
  by_cases hidx : idx = cws.size
  · rw [if_pos hidx] at h1
    rw [if_pos (by omega)] at h2
    cases h1; cases h2
    rw [← hig]; exact hqs
  · rw [if_neg hidx] at h1
    rw [if_neg (by omega)] at h2
    rcases hstep with ⟨he, _⟩ | ⟨t, defn, rf, b, hd, _, _, _, _, _, he⟩
    · rw [he] at h1; exact hq idx ig l h1 h2 hqs
    · rw [he, Array.getElem?_setIfInBounds] at h1
      split at h1
      · rename_i hti
        split at h1
        · cases h1
          subst hti
          exact hq _ defn l hd h2 hqs
        · cases h1
      · exact hq idx ig l h1 h2 hqs

theorem timerA_pres (env : Env) (lt : Loc (PTimer α)) :
    Pres (fun s : Col α => (tabs s, s.defineMode, s.block)) (timerA env lt) := by
  unfold timerA; pres

/-- a component inside a step buffer: no panic, the tables stay linked, the buffer stays a step buffer -/
theorem inStepComponent_np (env : Env) (input : Str) (ev : Ev α) (items : List Item) (s : Col α) (h : NP env s)
    (hb : s.block = some (.step items)) (hev : EvOK' ev) (hcomp : (evSpan ev).isSome = true) :
    NP env (inStepComponent env input ev s).2 ∧
      (∃ items', (inStepComponent env input ev s).2.block = some (.step items')) ∧
      (inStepComponent env input ev s).2.defineMode = s.defineMode := by
  have hinv := inStepComponent_inv env input ev items s h.inv hb hev.evOK
  cases ev with
  | ingredient li =>
    obtain ⟨dg, p, ings, igr, h1, h2, h3⟩ :=
      ingredientA_spec env input li s h.inv.locI h.inv.itab.nonREF_def hev.1
    have hpf := ingredientA_pfAt env input li s h.inv.locI h.inv.itab h.qI hev
    obtain ⟨ings', ig', hl1, hl2⟩ := ingredientA_last env input li s
    unfold PFAt at hpf
    rw [h1] at hpf hl1
    obtain ⟨rfl, rfl⟩ := Array.push_eq_push.mp hl1
    have hblk : (ingredientA env input li s).2.block = s.block := by rw [h1]
    have e : (inStepComponent env input (.ingredient li) s).2 =
        { s with diags := dg, panic := p, ingredients := ings.push igr, locIngr := s.locIngr.push li,
                 block := some (.step (items ++ [.ingredient s.ingredients.size])) } := by
      unfold inStepComponent
      simp only [A_bind]
      rw [pushItem_step' _ items s (ingredientA env input li s).2 hblk hb, h1]
    rw [e] at hinv ⊢
    exact ⟨⟨hinv, hpf.trans h.panic, QLinkI.step h.qI h.inv.locI ings igr li h2 h3 hl2, h.qC⟩, ⟨_, rfl⟩, rfl⟩
  | cookware lc =>
    obtain ⟨dg, p, cws, cw, h1, h2, h3⟩ := cookwareA_spec env input lc s h.inv.locC h.inv.ctab.nonREF_def
    have hpf := cookwareA_pfAt env input lc s h.inv.locC h.inv.ctab h.qC
    obtain ⟨cws', cw', hl1, hl2⟩ := cookwareA_last env input lc s
    unfold PFAt at hpf
    rw [h1] at hpf hl1
    obtain ⟨rfl, rfl⟩ := Array.push_eq_push.mp hl1
    have hblk : (cookwareA env input lc s).2.block = s.block := by rw [h1]
    have e : (inStepComponent env input (.cookware lc) s).2 =
        { s with diags := dg, panic := p, cookware := cws.push cw, locCw := s.locCw.push lc,
                 block := some (.step (items ++ [.cookware s.cookware.size])) } := by
      unfold inStepComponent
      simp only [A_bind]
      rw [pushItem_step' _ items s (cookwareA env input lc s).2 hblk hb, h1]
    rw [e] at hinv ⊢
    exact ⟨⟨hinv, hpf.trans h.panic, h.qI, QLinkC.step h.qC h.inv.locC cws cw lc h2 h3 hl2⟩, ⟨_, rfl⟩, rfl⟩
  | timer lt =>
    obtain ⟨dg, p, tm, h1, h2, h3⟩ := timerA_spec env lt s
    have hpf := (timerA_pf env lt).pfAt s
    unfold PFAt at hpf
    rw [h1] at hpf
    have hblk : (timerA env lt s).2.block = s.block := by rw [h1]
    have e : (inStepComponent env input (.timer lt) s).2 =
        { s with diags := dg, panic := p, timers := s.timers.push tm,
                 block := some (.step (items ++ [.timer s.timers.size])) } := by
      unfold inStepComponent
      simp only [A_bind]
      rw [pushItem_step' _ items s (timerA env lt s).2 hblk hb, h1]
    rw [e] at hinv ⊢
    exact ⟨⟨hinv, hpf.trans h.panic, h.qI, h.qC⟩, ⟨_, rfl⟩, rfl⟩
  | frontMatter _ => cases hcomp
  | metadata _ _ => cases hcomp
  | «section» _ => cases hcomp
  | start _ => cases hcomp
  | stop _ => cases hcomp
  | text _ => cases hcomp
  | error _ => cases hcomp
  | warning _ => cases hcomp

/-- a component event inside an open step block -/
theorem inBlockComponent_np (env : Env) (input : Str) (ev : Ev α) (s : Col α) (h : NP env s)
    (hb : BlockRel s (some .step)) (hev : EvOK' ev) (hcomp : (evSpan ev).isSome = true) (hsp : CompSpanOnBoundaries input ev) :
    NP env (inBlockComponent env input ev s).2 ∧ BlockRel (inBlockComponent env input ev s).2 (some .step) := by
  have hinv := inBlockComponent_inv env input ev s h.inv hev.evOK
  rcases hb with ⟨items, h1, -⟩ | ⟨b, h1, h2⟩
  · have e : inBlockComponent env input ev s = inStepComponent env input ev s := by
      unfold inBlockComponent
      simp +instances only [A_bind, A_get, h1]
    rw [e]
    obtain ⟨hnp, ⟨items', hi⟩, hd⟩ := inStepComponent_np env input ev items s h h1 hev hcomp
    exact ⟨hnp, Or.inl ⟨items', hi, rfl⟩⟩
  · have hm : s.defineMode = .text := by
      rcases h2 with h2 | h2
      · cases h2
      · exact h2
    have e : inBlockComponent env input ev s = inTextComponent input ev b s := by
      unfold inBlockComponent
      simp +instances only [A_bind, A_get, h1]
    rw [e] at hinv ⊢
    obtain ⟨sp, hsp'⟩ := Option.isSome_iff_exists.mp hcomp
    have hpf := inTextComponent_pfAt input ev b s hm sp hsp' (hsp sp hsp')
    have hpr := (inTextComponent_pres input ev b).out s
    simp only [Prod.mk.injEq] at hpr
    obtain ⟨b', hb'⟩ := inTextComponent_block input ev b s h1
    exact ⟨h.of_pres hinv hpf hpr.1, Or.inr ⟨b', hb', Or.inr (hpr.2.trans hm)⟩⟩

/-- **one event**: under the invariant, an event the bracketing automaton accepts, that is `EvOK'`
    and whose span lies on character boundaries, sets no panic flag and keeps the invariant -/
theorem processEvent_np (env : Env) (input : Str) (ev : Ev α) (s : Col α) (o o' : Option BlockKind)
    (h : NP env s) (hb : BlockRel s o) (hw : wbStep o ev = some o') (hev : EvOK' ev) (hsp : CompSpanOnBoundaries input ev) :
    NP env (processEvent env input ev s).2 ∧ BlockRel (processEvent env input ev s).2 o' := by
  have hinv := processEvent_inv env input ev s h.inv hev.evOK
  cases ev with
  | frontMatter t =>
    simp only [wbStep, Option.some.injEq] at hw; subst hw
    simp only [processEvent, A_modify] at hinv ⊢
    exact ⟨h.frame hinv rfl rfl rfl rfl rfl, hb.congr rfl rfl⟩
  | warning d =>
    simp only [wbStep, Option.some.injEq] at hw; subst hw
    simp only [processEvent, A_modify] at hinv ⊢
    exact ⟨h.frame hinv rfl rfl rfl rfl rfl, hb.congr rfl rfl⟩
  | error d =>
    simp only [wbStep, Option.some.injEq] at hw; subst hw
    simp only [processEvent] at hinv ⊢
    exact ⟨h, hb⟩
  | «section» name =>
    simp only [wbStep, Option.some.injEq] at hw; subst hw
    simp only [processEvent, A_modify] at hinv ⊢
    exact ⟨h.frame hinv rfl rfl rfl rfl rfl, hb.congr rfl rfl⟩
  | metadata k v =>
    simp only [wbStep] at hw
    split at hw
    · rename_i ho; subst ho
      simp only [Option.some.injEq] at hw; subst hw
      simp only [processEvent]
      exact metadataA_np env k v s h hb
    · cases hw
  | start kind =>
    simp only [wbStep] at hw
    split at hw
    · rename_i ho; subst ho
      simp only [Option.some.injEq] at hw; subst hw
      simp only [processEvent, A_modify] at hinv ⊢
      refine ⟨h.frame hinv rfl rfl rfl rfl rfl, ?_⟩
      by_cases hm : s.defineMode = .text
      · exact Or.inr ⟨[], by simp [hm], Or.inr hm⟩
      · cases kind
        · exact Or.inl ⟨[], by simp [hm], rfl⟩
        · exact Or.inr ⟨[], by simp [hm], Or.inl rfl⟩
    · cases hw
  | stop kind =>
    simp only [wbStep] at hw
    split at hw
    · rename_i ho; subst ho
      simp only [Option.some.injEq] at hw; subst hw
      simp only [processEvent]
      exact endBlock_np env kind s h hb
    · cases hw
  | text t =>
    simp only [wbStep] at hw
    split at hw
    · cases hw
    · simp only [Option.some.injEq] at hw; subst hw
      cases o with
      | none => rename_i ho; exact absurd rfl ho
      | some k =>
        simp only [processEvent]
        exact inStepText_np env t s k h hb
  | ingredient i =>
    simp only [wbStep] at hw
    split at hw
    · rename_i ho; subst ho
      simp only [Option.some.injEq] at hw; subst hw
      simp only [processEvent]
      exact inBlockComponent_np env input _ s h hb hev rfl hsp
    · cases hw
  | cookware c =>
    simp only [wbStep] at hw
    split at hw
    · rename_i ho; subst ho
      simp only [Option.some.injEq] at hw; subst hw
      simp only [processEvent]
      exact inBlockComponent_np env input _ s h hb hev rfl hsp
    · cases hw
  | timer t =>
    simp only [wbStep] at hw
    split at hw
    · rename_i ho; subst ho
      simp only [Option.some.injEq] at hw; subst hw
      simp only [processEvent]
      exact inBlockComponent_np env input _ s h hb hev rfl hsp
    · cases hw

/-- the fold: on a well-bracketed stream of `EvOK'` events with spans on boundaries the panic flag
    stays unset -/
theorem parseEventsLoop_no_panic (env : Env) (input : Str) (evs : List (Ev α)) (s : Col α) (o : Option BlockKind)
    (h : NP env s) (hb : BlockRel s o) (hw : WBFrom o evs) (hev : ∀ ev ∈ evs, EvOK' ev) (hsp : SpansOK input evs) :
    (parseEventsLoop env input evs s).panic = none := by
  induction evs generalizing s o with
  | nil =>
    simp only [parseEventsLoop]
    split <;> split <;> exact h.panic
  | cons ev rest ih =>
    by_cases he : ∃ d0, ev = .error d0
    · obtain ⟨d0, rfl⟩ := he
      simp only [parseEventsLoop]
      exact h.panic
    · rw [parseEventsLoop_cons_nonerror env input ev rest s he]
      obtain ⟨o', hw1, hw2⟩ := hw
      obtain ⟨hnp, hbr⟩ := processEvent_np env input ev s o o' h hb hw1 (hev ev List.mem_cons_self)
        (hsp ev List.mem_cons_self)
      exact ih _ o' hnp hbr hw2 (fun e he' => hev e (List.mem_cons_of_mem _ he'))
        (fun e he' => hsp e (List.mem_cons_of_mem _ he'))

/-- **the analysis never panics on parser-like events** -/
theorem parseEvents_no_panic (env : Env) (input : Str) (evs : List (Ev α))
    (hev : ∀ ev ∈ evs, EvOK' ev) (hw : WellBracketed evs) (hsp : SpansOK input evs) :
    (parseEvents env input evs).panic = none :=
  parseEventsLoop_no_panic env input evs {} none (NP.init env) rfl hw hev hsp

end Cook
