import CookModel.Basic.Arith
/- simp-normal forms for the `Arith Rat` instance -/
namespace Cook
open Arith

@[simp] theorem rat_add (a b : Rat) : @HAdd.hAdd Rat Rat Rat (@instHAdd Rat Arith.instAdd) a b = a + b := rfl
@[simp] theorem rat_sub (a b : Rat) : @HSub.hSub Rat Rat Rat (@instHSub Rat Arith.instSub) a b = a - b := rfl
@[simp] theorem rat_mul (a b : Rat) : @HMul.hMul Rat Rat Rat (@instHMul Rat Arith.instMul) a b = a * b := rfl
@[simp] theorem rat_div (a b : Rat) : @HDiv.hDiv Rat Rat Rat (@instHDiv Rat Arith.instDiv) a b = a / b := rfl
@[simp] theorem rat_neg (a : Rat) : @Neg.neg Rat Arith.instNeg a = -a := rfl
@[simp] theorem rat_lt (a b : Rat) : Arith.lt a b = decide (a < b) := rfl
@[simp] theorem rat_le (a b : Rat) : Arith.le a b = decide (a ≤ b) := rfl
@[simp] theorem rat_eq (a b : Rat) : Arith.eq a b = decide (a = b) := rfl
@[simp] theorem rat_ofNat (n : Nat) : (Arith.ofNat n : Rat) = (n : Rat) := rfl
@[simp] theorem rat_ofInt (n : Int) : (Arith.ofInt n : Rat) = (n : Rat) := rfl
@[simp] theorem rat_const (c : Const) : (Arith.const c : Rat) = c.rat := rfl
@[simp] theorem rat_trunc (x : Rat) : (Arith.trunc x : Rat) = (ratTrunc x : Rat) := rfl
@[simp] theorem rat_round (x : Rat) : (Arith.round x : Rat) = (ratRound x : Rat) := rfl
@[simp] theorem rat_abs (x : Rat) : (Arith.abs x : Rat) = if 0 ≤ x then x else -x := rfl
@[simp] theorem rat_isFinite (x : Rat) : Arith.isFinite x = true := rfl
@[simp] theorem rat_toU32 (x : Rat) : Arith.toU32 x = (clampInt 0 u32Max (ratTrunc x)).toNat := rfl
@[simp] theorem rat_toI16 (x : Rat) : Arith.toI16 x = clampInt (-32768) 32767 (ratTrunc x) := rfl
@[simp] theorem rat_fract (x : Rat) : Arith.fract x = x - (ratTrunc x : Rat) := rfl
@[simp] theorem rat_zero : (Arith.zero : Rat) = 0 := rfl
@[simp] theorem rat_one : (Arith.one : Rat) = 1 := rfl
@[simp] theorem rat_gt (a b : Rat) : Arith.gt a b = decide (b < a) := rfl
@[simp] theorem rat_ge (a b : Rat) : Arith.ge a b = decide (b ≤ a) := rfl

theorem rat_abs_eq (x : Rat) : (if 0 ≤ x then x else -x) = Rat.abs x := rfl

end Cook

namespace Cook
theorem ratTrunc_nonneg {x : Rat} (h : 0 ≤ x) : ratTrunc x = x.floor := by simp [ratTrunc, h]
theorem ratRound_nonneg {x : Rat} (h : 0 ≤ x) : ratRound x = (x + 1/2).floor := by simp [ratRound, h]
theorem floor_nonneg {x : Rat} (h : 0 ≤ x) : 0 ≤ x.floor := by
  rw [Rat.le_floor_iff]; simpa using h
@[simp] theorem ratTrunc_intCast (k : Int) : ratTrunc (k : Rat) = k := by
  unfold ratTrunc
  split
  · simp [Rat.floor_intCast]
  · have : (-(k:Rat)) = ((-k : Int) : Rat) := by simp
    rw [this, Rat.floor_intCast]; simp
theorem floor_half_le (x : Rat) : (x + 1/2).floor ≤ x.floor + 1 := by
  have h1 : (x + 1/2).floor ≤ (x + 1).floor := Rat.floor_monotone (by grind)
  rw [Rat.floor_add_one] at h1; exact h1
theorem floor_le_floor_half (x : Rat) : x.floor ≤ (x + 1/2).floor := Rat.floor_monotone (by grind)

/-- `x as u32` of a non-negative value whose truncation did not saturate is exact. -/
theorem toU32_round_exact {v : Rat} (hv : 0 ≤ v)
    (h : (clampInt 0 u32Max (ratTrunc v)).toNat ≠ u32Max) :
    ((clampInt 0 u32Max (ratTrunc ((ratRound v : Int) : Rat))).toNat : Int) = ratRound v := by
  rw [ratTrunc_intCast, ratRound_nonneg hv]
  rw [ratTrunc_nonneg hv] at h
  have h0 := floor_nonneg hv
  have h1 := floor_half_le v
  have h2 := floor_le_floor_half v
  unfold clampInt u32Max at *
  split <;> split at h <;> (try split at h) <;> (try split) <;> omega

theorem toU32_trunc_exact {v : Rat} (hv : 0 ≤ v)
    (h : (clampInt 0 u32Max (ratTrunc v)).toNat ≠ u32Max) :
    ((clampInt 0 u32Max (ratTrunc v)).toNat : Int) = v.floor := by
  rw [ratTrunc_nonneg hv] at *
  have h0 := floor_nonneg hv
  unfold clampInt u32Max at *
  split <;> split at h <;> (try split at h) <;> (try split) <;> omega
end Cook
