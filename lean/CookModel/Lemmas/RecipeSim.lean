import CookModel.Lemmas.SimParser
import CookModel.Lemmas.CollectorFrame
/-
  C17, the lift through the analysis pass: a relational Hoare layer for the collector monad.

  `ColSim uws c' c` relates two collector states with the same recipe content: everything the
  recipe is made of is EQUAL (sections, current section, open block, ingredient / cookware / timer
  / inline-quantity tables, `>>` metadata map, servings, modes, step counter); what holds source
  positions is compared up to positions only (diagnostics: same severity, stage, kind, number of
  labels, in the same order; `locations.metadata`: same keys in the same order; number of old-style
  metadata spans; number of recorded component locations).  The panic flag is not compared.

  `ARel uws R m' m`: from `ColSim`-related states `m'` and `m` return `R`-related values and
  `ColSim`-related states.
-/
set_option linter.unusedSectionVars false
set_option linter.unusedVariables false
set_option linter.unusedSimpArgs false
namespace Cook
variable {α : Type} [Arith α]

/-- front-matter texts: the same content, or the YAML text and its CRLF conversion -/
def FmSim (uws : Char → Bool) (t' t : Text) : Prop := TextSim uws t' t ∨ FmTextCrlf t' t

structure ColSim (uws : Char → Bool) (c' c : Col α) : Prop where
  sections : c'.sections = c.sections
  cur : c'.cur = c.cur
  ingredients : c'.ingredients = c.ingredients
  cookware : c'.cookware = c.cookware
  timers : c'.timers = c.timers
  inlineQ : c'.inlineQ = c.inlineQ
  locIngr : c'.locIngr.size = c.locIngr.size
  locCw : c'.locCw.size = c.locCw.size
  metaMap : c'.metaMap = c.metaMap
  frontMatter : OptRel (FmSim uws) c'.frontMatter c.frontMatter
  metaLocs : c'.metaLocs.map (·.1) = c.metaLocs.map (·.1)
  servings : c'.servings = c.servings
  defineMode : c'.defineMode = c.defineMode
  duplicateMode : c'.duplicateMode = c.duplicateMode
  oldStyle : c'.oldStyle = c.oldStyle
  oldStyleUsed : c'.oldStyleUsed.length = c.oldStyleUsed.length
  diags : LRel DiagSim c'.diags.toList c.diags.toList
  stepCounter : c'.stepCounter = c.stepCounter
  block : c'.block = c.block

structure ARel (uws : Char → Bool) {β : Type} (R : β → β → Prop) (m' m : A α β) : Prop where
  out : ∀ c' c : Col α, ColSim uws c' c → R (m' c').1 (m c).1 ∧ ColSim uws (m' c').2 (m c).2

section arel
variable {uws : Char → Bool}

theorem OptRel.refl_of {β : Type} {A : β → β → Prop} (h : ∀ x, A x x) (o : Option β) : OptRel A o o := by
  cases o with
  | none => trivial
  | some x => exact h x

theorem DiagSim.rfl' (d : Diag) : DiagSim d d := ⟨rfl, rfl, rfl, rfl⟩

theorem ARel.pure {β : Type} {R : β → β → Prop} {a' a : β} (h : R a' a) :
    ARel (α := α) uws R (Pure.pure a') (Pure.pure a) := ⟨fun _ _ hs => ⟨h, hs⟩⟩

theorem ARel.bind {β γ : Type} {R : β → β → Prop} {S : γ → γ → Prop} {m' m : A α β} {f' f : β → A α γ}
    (h1 : ARel uws R m' m) (h2 : ∀ x' x, R x' x → ARel uws S (f' x') (f x)) :
    ARel uws S (m' >>= f') (m >>= f) := by
  constructor
  intro c' c hs
  obtain ⟨hr, hs1⟩ := h1.out c' c hs
  exact (h2 _ _ hr).out _ _ hs1

theorem ARel.mono {β : Type} {R S : β → β → Prop} {m' m : A α β} (h : ARel uws R m' m)
    (hrs : ∀ a' a, R a' a → S a' a) : ARel uws S m' m :=
  ⟨fun c' c hs => ⟨hrs _ _ (h.out c' c hs).1, (h.out c' c hs).2⟩⟩

theorem ARel.get : ARel (α := α) uws (ColSim uws) get get := ⟨fun _ _ hs => ⟨hs, hs⟩⟩

theorem ARel.modify {f' f : Col α → Col α} (h : ∀ c' c, ColSim uws c' c → ColSim uws (f' c') (f c)) :
    ARel (α := α) uws (fun _ _ => True) (modify f') (modify f) := ⟨fun c' c hs => ⟨trivial, h c' c hs⟩⟩

theorem ARel.set {s' s : Col α} (h : ColSim uws s' s) :
    ARel (α := α) uws (fun _ _ => True) (set s') (set s) := ⟨fun _ _ _ => ⟨trivial, h⟩⟩

theorem ARel.ite {β : Type} {R : β → β → Prop} {c : Prop} [Decidable c] {a' a b' b : A α β}
    (ha : ARel uws R a' a) (hb : ARel uws R b' b) :
    ARel uws R (if c then a' else b') (if c then a else b) := by
  split
  · exact ha
  · exact hb

theorem ColSim.panic_left {c' c : Col α} (h : ColSim uws c' c) (p : Option String) :
    ColSim uws { c' with panic := p } c := ⟨h.1, h.2, h.3, h.4, h.5, h.6, h.7, h.8, h.9, h.10, h.11, h.12, h.13,
      h.14, h.15, h.16, h.17, h.18, h.19⟩

theorem ColSim.panic_right {c' c : Col α} (h : ColSim uws c' c) (p : Option String) :
    ColSim uws c' { c with panic := p } := ⟨h.1, h.2, h.3, h.4, h.5, h.6, h.7, h.8, h.9, h.10, h.11, h.12, h.13,
      h.14, h.15, h.16, h.17, h.18, h.19⟩

theorem colSim_apanic_left {c' c : Col α} (h : ColSim uws c' c) (a : String) :
    ColSim uws (apanic (α := α) a c').2 c := by
  show ColSim uws (if c'.panic.isNone then { c' with panic := some a } else c') c
  split
  · exact h.panic_left _
  · exact h

theorem colSim_apanic_right {c' c : Col α} (h : ColSim uws c' c) (b : String) :
    ColSim uws c' (apanic (α := α) b c).2 := by
  show ColSim uws c' (if c.panic.isNone then { c with panic := some b } else c)
  split
  · exact h.panic_right _
  · exact h

theorem ARel.apanic (a b : String) : ARel (α := α) uws (fun _ _ => True) (apanic a) (apanic b) :=
  ⟨fun _ _ hs => ⟨trivial, colSim_apanic_right (colSim_apanic_left hs a) b⟩⟩

/-- `if c then panic`: whatever the two conditions are, the compared part of the state is untouched -/
theorem ARel.panicIf {c' c : Prop} [Decidable c'] [Decidable c] {a b : String} :
    ARel (α := α) uws (fun _ _ => True) (if c' then Cook.apanic a else Pure.pure ())
      (if c then Cook.apanic b else Pure.pure ()) := by
  constructor
  intro s' s hs
  refine ⟨trivial, ?_⟩
  split <;> split
  · exact colSim_apanic_right (colSim_apanic_left hs a) b
  · exact colSim_apanic_left hs a
  · exact colSim_apanic_right hs b
  · exact hs

/-- the shape `simp`/the `do` notation give to `if c then panic; rest` -/
theorem ARel.panicIfK {β : Type} {R : β → β → Prop} {c' c : Prop} [Decidable c'] [Decidable c] {a b : String}
    {x' x : A α β} (h : ARel uws R x' x) :
    ARel uws R (if c' then Cook.apanic a >>= fun _ => x' else x') (if c then Cook.apanic b >>= fun _ => x else x) := by
  constructor
  intro s' s hs
  split <;> split
  · exact h.out _ _ (colSim_apanic_right (colSim_apanic_left hs a) b)
  · exact h.out _ _ (colSim_apanic_left hs a)
  · exact h.out _ _ (colSim_apanic_right hs b)
  · exact h.out _ _ hs

theorem ColSim.pushDiag {c' c : Col α} (h : ColSim uws c' c) {d' d : Diag} (hd : DiagSim d' d) :
    ColSim uws { c' with diags := c'.diags.push d' } { c with diags := c.diags.push d } :=
  ⟨h.1, h.2, h.3, h.4, h.5, h.6, h.7, h.8, h.9, h.10, h.11, h.12, h.13, h.14, h.15, h.16,
    by simp only [Array.toList_push]; exact h.diags.append (.cons hd .nil), h.18, h.19⟩

/-- proves the `ColSim` fields that are untouched from `h`; leaves the changed ones -/
syntax "colsim " ident : tactic
macro_rules
  | `(tactic| colsim $h:ident) => `(tactic|
    (constructor <;>
      (first
        | exact ($h).sections | exact ($h).cur | exact ($h).ingredients | exact ($h).cookware | exact ($h).timers
        | exact ($h).inlineQ | exact ($h).locIngr | exact ($h).locCw | exact ($h).metaMap | exact ($h).frontMatter
        | exact ($h).metaLocs | exact ($h).servings | exact ($h).defineMode | exact ($h).duplicateMode
        | exact ($h).oldStyle | exact ($h).oldStyleUsed | exact ($h).diags | exact ($h).stepCounter
        | exact ($h).block | rfl
        | (simp only [($h).sections, ($h).cur, ($h).ingredients, ($h).cookware, ($h).timers, ($h).inlineQ,
            ($h).metaMap, ($h).servings, ($h).defineMode, ($h).duplicateMode, ($h).oldStyle, ($h).stepCounter,
            ($h).block]; done)
        | skip)))

theorem ARel.aerr (kind : String) {l' l : List Span} (h : l'.length = l.length) :
    ARel (α := α) uws (fun _ _ => True) (aerr kind l') (aerr kind l) :=
  ⟨fun _ _ hs => ⟨trivial, hs.pushDiag ⟨rfl, rfl, rfl, h⟩⟩⟩

theorem ARel.awarn (kind : String) {l' l : List Span} (h : l'.length = l.length) :
    ARel (α := α) uws (fun _ _ => True) (awarn kind l') (awarn kind l) :=
  ⟨fun _ _ hs => ⟨trivial, hs.pushDiag ⟨rfl, rfl, rfl, h⟩⟩⟩

theorem ARel.forIn {β γ : Type} (l : List β) (init : γ) {f' f : β → γ → A α (ForInStep γ)}
    (hf : ∀ b c, ARel uws Eq (f' b c) (f b c)) : ARel uws Eq (forIn l init f') (forIn l init f) := by
  induction l generalizing init with
  | nil => simp only [List.forIn_nil]; exact ARel.pure rfl
  | cons x xs ih =>
    simp only [List.forIn_cons]
    refine ARel.bind (hf x init) ?_
    intro r' r hr
    subst hr
    cases r' with
    | done c => exact ARel.pure rfl
    | yield c => exact ih c

/-- leaves of `arel` -/
syntax "arel_leaf" : tactic
macro_rules | `(tactic| arel_leaf) => `(tactic| exact ARel.pure rfl)
macro_rules | `(tactic| arel_leaf) => `(tactic| exact ARel.pure trivial)
macro_rules | `(tactic| arel_leaf) => `(tactic| exact ARel.get)
macro_rules | `(tactic| arel_leaf) => `(tactic| exact ARel.apanic _ _)
macro_rules | `(tactic| arel_leaf) => `(tactic| exact ARel.panicIf)
macro_rules | `(tactic| arel_leaf) => `(tactic| exact ARel.aerr _ rfl)
macro_rules | `(tactic| arel_leaf) => `(tactic| exact ARel.awarn _ rfl)
macro_rules | `(tactic| arel_leaf) => `(tactic| assumption)

/-- decomposes an `ARel` goal along the (common) structure of the two `do` blocks -/
macro "arel" : tactic => `(tactic|
  repeat (first
    | arel_leaf
    | apply ARel.ite
    | apply ARel.panicIfK
    | apply ARel.bind
    | (intro _ _ h; subst h)
    | intro _ _ _
    | dsimp only))

/-- `arel` that also closes `modify` leaves whose changed fields are equal after rewriting -/
macro "arelm" : tactic => `(tactic|
  repeat (first
    | arel_leaf
    | (apply ARel.modify; intro c' c hc; colsim hc; done)
    | apply ARel.ite
    | apply ARel.panicIfK
    | apply ARel.bind
    | (intro _ _ h; subst h)
    | intro _ _ _
    | dsimp only))

end arel

/-! ### values and quantities -/

theorem valueOf_arel {uws : Char → Bool} (env : Env) {v' v : PQValue α} (h : PQValueSim v' v) (b : Bool) :
    ARel uws Eq (valueOf env v' b) (valueOf env v b) := by
  unfold valueOf
  simp only [h.1, h.2]
  arel

theorem quantityOf_arel {uws : Char → Bool} (env : Env) {q' q : Loc (PQuantity α)}
    (h : LocSim (PQuantitySim env.cs.uws) q' q) (b : Bool) :
    ARel uws Eq (quantityOf env q' b) (quantityOf env q b) := by
  unfold quantityOf
  refine ARel.bind (valueOf_arel env h.1 b) ?_
  intro v' v hv
  subst hv
  refine ARel.pure ?_
  have : q'.val.unit.map (fun t => t.trimmed env.cs) = q.val.unit.map (fun t => t.trimmed env.cs) := by
    rcases h.2.elim with ⟨e', e⟩ | ⟨x', x, e', e, hx⟩
    · rw [e', e]
    · rw [e', e]; simp [hx.trimmed]
  rw [this]

theorem optTrimmed_eq {cs : CharSpec} {a' a : Option Text} (h : OptRel (TextSim cs.uws) a' a) :
    a'.map (fun t => t.trimmed cs) = a.map (fun t => t.trimmed cs) := by
  rcases h.elim with ⟨e', e⟩ | ⟨x', x, e', e, hx⟩
  · rw [e', e]
  · rw [e', e]; simp [hx.trimmed]

theorem optQuantityOf_arel {uws : Char → Bool} (env : Env) {q' q : Option (Loc (PQuantity α))}
    (h : OptRel (LocSim (PQuantitySim env.cs.uws)) q' q) (b : Bool) :
    ARel uws Eq (optQuantityOf env q' b) (optQuantityOf env q b) := by
  unfold optQuantityOf
  rcases h.elim with ⟨rfl, rfl⟩ | ⟨x', x, rfl, rfl, hx⟩
  · exact ARel.pure rfl
  · dsimp only
    refine ARel.bind (quantityOf_arel env hx b) ?_
    intro r' r hr
    subst hr
    exact ARel.pure rfl

theorem optValueOf_arel {uws : Char → Bool} (env : Env) {q' q : Option (Loc (PQValue α))}
    (h : OptRel (LocSim PQValueSim) q' q) :
    ARel uws Eq (optValueOf env q') (optValueOf env q) := by
  unfold optValueOf
  rcases h.elim with ⟨rfl, rfl⟩ | ⟨x', x, rfl, rfl, hx⟩
  · exact ARel.pure rfl
  · dsimp only
    refine ARel.bind (valueOf_arel env hx false) ?_
    intro r' r hr
    subst hr
    exact ARel.pure rfl

end Cook

namespace Cook
variable {α : Type} [Arith α] {uws : Char → Bool}

/-! ### references -/

theorem resolveReference_arel (env : Env) (container : String) (inherit : Nat)
    (existing : List (Str × Modifiers)) (name : Str) (mods : Modifiers) (loc' loc ml' ml : Span) :
    ARel (α := α) uws Eq (resolveReference env container inherit existing name mods loc' ml')
      (resolveReference env container inherit existing name mods loc ml) := by
  unfold resolveReference
  apply ARel.bind ARel.get
  intro s' s hs
  simp only [hs.defineMode, hs.duplicateMode]
  generalize sameNameIdx env existing name = sn
  cases sn <;> arel

theorem resolveInterRef_arel {d' d : Loc InterData} (h : d'.val = d.val) :
    ARel (α := α) uws Eq (resolveInterRef d') (resolveInterRef d) := by
  unfold resolveInterRef
  apply ARel.bind ARel.get
  intro s' s hs
  simp only [hs.cur, hs.sections, h]
  cases interRefTarget s.cur.content s.sections.length d.val <;> arel

theorem noteReferenceError_arel (input' input : Str) (a' a b' b : Span) (c' c : Option Span) :
    ARel (α := α) uws (fun _ _ => True) (noteReferenceError input' a' b' c') (noteReferenceError input a b c) := by
  unfold noteReferenceError
  cases c' <;> cases c <;> arel

theorem ingrInterChecks_arel {i' i : PIngredient α} (igr : Ingredient (ScalableValue α)) :
    ARel (α := α) uws (fun _ _ => True) (ingrInterChecks i' igr) (ingrInterChecks i igr) := by
  unfold ingrInterChecks
  arel

theorem ingrInter_arel {i' i : PIngredient α} (igr : Ingredient (ScalableValue α)) {d' d : Loc InterData}
    (h : d'.val = d.val) : ARel (α := α) uws Eq (ingrInter i' igr d') (ingrInter i igr d) := by
  unfold ingrInter
  apply ARel.bind (ingrInterChecks_arel _)
  intro _ _ _
  apply ARel.bind (resolveInterRef_arel h)
  intro r' r hr
  subst hr
  cases r' <;> exact ARel.pure rfl

theorem getElem?_of_size_eq {β γ : Type} {a : Array β} {b : Array γ} (h : a.size = b.size) (i : Nat) :
    (a[i]? = none ∧ b[i]? = none) ∨ ∃ x y, a[i]? = some x ∧ b[i]? = some y := by
  by_cases hi : i < b.size
  · right
    exact ⟨a[i]'(h ▸ hi), b[i], by simp [h ▸ hi], by simp [hi]⟩
  · left
    constructor
    · simp; omega
    · simp; omega

theorem ingrUnitChecks_arel (env : Env) {i' i : PIngredient α} (newQ : Quantity (ScalableValue α)) (idxs : List Nat) :
    ARel (α := α) uws (fun _ _ => True) (ingrUnitChecks env i' newQ idxs) (ingrUnitChecks env i newQ idxs) := by
  unfold ingrUnitChecks
  apply ARel.bind ARel.get
  intro s' s hs
  simp only [hs.ingredients]
  apply ARel.bind (R := Eq)
  · apply ARel.forIn
    intro idx u
    rcases getElem?_of_size_eq hs.locIngr idx with ⟨e', e⟩ | ⟨x, y, e', e⟩
    · rw [e', e]
      cases s.ingredients[idx]? <;> arel
    · rw [e', e]
      cases s.ingredients[idx]? with
      | none => arel
      | some other =>
        dsimp only
        cases other.quantity with
        | none => arel
        | some q =>
          dsimp only
          cases compatibleUnit env q.unit newQ.unit with
          | none => arel
          | some _ =>
            dsimp only
            apply ARel.panicIfK
            arel
  · arel

macro_rules | `(tactic| arel_leaf) => `(tactic| exact ingrUnitChecks_arel ..)
macro_rules | `(tactic| arel_leaf) => `(tactic| exact noteReferenceError_arel ..)

theorem ingrRefChecks_arel (env : Env) (input' input : Str) {li' li : Loc (PIngredient α)}
    (h : PIngredientSim env.cs.uws li'.val li.val) (igr : Ingredient (ScalableValue α)) (refTo : Nat)
    (defn : Ingredient (ScalableValue α)) (defLoc' defLoc : Loc (PIngredient α)) :
    ARel (α := α) uws (fun _ _ => True) (ingrRefChecks env input' li' igr refTo defn defLoc')
      (ingrRefChecks env input li igr refTo defn defLoc) := by
  unfold ingrRefChecks
  dsimp only
  rcases h.note.elim with ⟨e', e⟩ | ⟨x', x, e', e, hx⟩ <;> rw [e', e] <;>
    cases igr.quantity <;> cases defn.quantity <;> dsimp only <;> arel

theorem ingrSetReferencedFrom_arel (refTo newIndex : Nat) (defn : Ingredient (ScalableValue α)) :
    ARel (α := α) uws (fun _ _ => True) (ingrSetReferencedFrom refTo newIndex defn)
      (ingrSetReferencedFrom refTo newIndex defn) := by
  unfold ingrSetReferencedFrom
  cases defn.relation.relation with
  | reference _ => exact ARel.apanic _ _
  | definition rf b =>
    dsimp only
    apply ARel.modify
    intro c' c hc
    colsim hc

theorem ingrRegular_arel (env : Env) (input' input : Str) {li' li : Loc (PIngredient α)}
    (h : PIngredientSim env.cs.uws li'.val li.val) (igr0 : Ingredient (ScalableValue α)) :
    ARel (α := α) uws Eq (ingrRegular env input' li' igr0) (ingrRegular env input li igr0) := by
  unfold ingrRegular
  apply ARel.bind ARel.get
  intro s' s hs
  simp only [hs.ingredients]
  apply ARel.bind (resolveReference_arel _ _ _ _ _ _ _ _ _ _)
  intro r' r hr
  subst hr
  cases r'.2 with
  | none => exact ARel.pure rfl
  | some o =>
    dsimp only
    apply ARel.bind ARel.get
    intro t' t ht
    simp only [ht.ingredients]
    rcases getElem?_of_size_eq ht.locIngr o.refTo with ⟨e', e⟩ | ⟨x, y, e', e⟩
    · rw [e', e]
      cases t.ingredients[o.refTo]? <;> arel
    · rw [e', e]
      cases t.ingredients[o.refTo]? with
      | none => arel
      | some defn =>
        dsimp only
        apply ARel.bind (ingrRefChecks_arel env input' input h _ _ _ _ _)
        intro _ _ _
        apply ARel.bind (ingrSetReferencedFrom_arel _ _ _)
        intro _ _ _
        exact ARel.pure rfl

theorem ingrBuild_arel (env : Env) (input' input : Str) {li' li : Loc (PIngredient α)}
    (h : PIngredientSim env.cs.uws li'.val li.val) (igr0 : Ingredient (ScalableValue α)) :
    ARel (α := α) uws Eq (ingrBuild env input' li' igr0) (ingrBuild env input li igr0) := by
  unfold ingrBuild
  apply ARel.bind (R := Eq)
  · rcases h.inter.elim with ⟨e', e⟩ | ⟨x', x, e', e, hx⟩
    · rw [e', e]; exact ingrRegular_arel env input' input h igr0
    · rw [e', e]; exact ingrInter_arel igr0 hx
  intro g' g hg
  subst hg
  apply ARel.bind (R := fun _ _ => True)
  · apply ARel.modify
    intro c' c hc
    colsim hc
    show (c'.locIngr.push _).size = (c.locIngr.push _).size
    simp [hc.locIngr]
  intro _ _ _
  apply ARel.bind ARel.get
  intro t' t ht
  rw [ht.ingredients]
  exact ARel.pure rfl

theorem ingredientA_arel (env : Env) (input' input : Str) {li' li : Loc (PIngredient α)}
    (h : PIngredientSim env.cs.uws li'.val li.val) :
    ARel (α := α) uws Eq (ingredientA env input' li') (ingredientA env input li) := by
  unfold ingredientA
  simp only [h.name.trimmed, optTrimmed_eq h.alias, optTrimmed_eq h.note, h.modifiers]
  apply ARel.bind (optQuantityOf_arel env h.quantity true)
  intro q' q hq
  subst hq
  apply ARel.bind ARel.get
  intro s' s hs
  rw [hs.defineMode]
  exact ingrBuild_arel env input' input h _

end Cook
