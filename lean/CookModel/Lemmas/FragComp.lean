import CookModel.Lemmas.FragDefs
/-
  C05 at fragment level, the component parsers (`ingredient`, `cookware`, `timer` of step.rs and the
  quantity sub-parser of quantity.rs): every token that can hold a letter or digit (`CoreTok`) between the
  cursor before and the cursor after lies inside a FRAGMENT of a text of the returned event (name, alias,
  note, unit, the text a text value was trimmed from) or inside the span of its modifiers or of its
  number — or an `Error` event was pushed (an alias after a second `|`, an empty alias, modifiers or an
  alias of a timer, the unit of a cookware: the code drops these WITH an error).

  Hoare layer of `SpansEv.lean`, for every queue predicate `Pv` kept by every push (`UpP`).
-/
set_option linter.unusedSectionVars false
set_option linter.unusedSimpArgs false
set_option linter.unusedVariables false
namespace Cook

variable {α : Type} [Arith α]
variable {off : Nat} {w : List Char} {Pv : Array (Ev α) → Prop} {ts : List Tok} {e : Ext} {s : BP α}
  {cs : CharSpec}

/-! ### "an error pushed so far stays in the queue" as part of the invariant -/

/-- `Pv`, and: if `X` had an error, the queue has one -/
def ErrKept (X : Array (Ev α)) (Pv : Array (Ev α) → Prop) : Array (Ev α) → Prop :=
  fun evs => Pv evs ∧ (HasErrEv X → HasErrEv evs)

theorem UpP.kept (hup : UpP Pv) (X : Array (Ev α)) : UpP (ErrKept X Pv) :=
  fun evs ev ⟨a, b⟩ => ⟨hup _ _ a, fun x => (b x).push ev⟩

theorem GE.keep (h : GE Pv ts e s) : GE (ErrKept s.evs Pv) ts e s := ⟨h.g, h.evs, id⟩

theorem GE.unkeep {X : Array (Ev α)} (h : GE (ErrKept X Pv) ts e s) : GE Pv ts e s := ⟨h.g, h.evs.1⟩

/-! ### a number is never a text value -/

theorem frag_map_number_ok {x : Except Diag (Number α)} {v : Value α}
    (h : x.map Value.number = .ok v) : v.isText = false := by
  cases x with
  | error d => simp [Except.map] at h
  | ok n =>
    simp only [Except.map, Except.ok.injEq] at h
    subst h; rfl

theorem frag_numericValue_ok {l : List Tok} {v : Value α}
    (h : numericValue (α := α) l = some (.ok v)) : v.isText = false := by
  unfold numericValue at h
  simp only at h
  repeat' split at h
  all_goals first
    | (cases h; rfl)
    | cases h
    | exact frag_map_number_ok (Option.some.inj h)

theorem frag_rangeValue_ok {b : Bool} {l : List Tok} {v : Value α}
    (h : rangeValue (α := α) b l = some (.ok v)) : v.isText = false := by
  unfold rangeValue at h
  simp only at h
  repeat' split at h
  all_goals first
    | (cases h; rfl)
    | (cases h; exact frag_numericValue_ok ‹_›)
    | cases h

theorem frag_numOrRange_ok {b : Bool} {l : List Tok} {v : Value α}
    (h : numOrRange (α := α) b l = some (.ok v)) : v.isText = false := by
  unfold numOrRange at h
  split at h
  · rename_i r hr
    simp only [Option.some.injEq] at h; subst h
    exact frag_rangeValue_ok hr
  · exact frag_numericValue_ok h

theorem frag_valHolds_span {v : Value α} {sp : Span} {p q : Nat} (hv : v.isText = false) (h : sp.holds p q) :
    ValHolds cs ⟨v, sp⟩ p q := by
  unfold ValHolds
  cases v with
  | text x => cases hv
  | number n => exact h
  | range a b => exact h

/-! ### quantities -/

theorem CoreTok.notLock {t : Tok} (h : CoreTok cs t) : ¬ (isWsComment t.kind = true ∨ t.kind = .eq) := by
  rintro (h1 | h1)
  · rw [h.1.notWsComment] at h1; cases h1
  · exact h.1.2.2.2.2.1 h1

theorem scalingLock_fc (h : GE Pv ts e s) :
    Sat (scalingLock (α := α)) s (fun _ s' => GE Pv ts e s' ∧ s.cur ≤ s'.cur ∧
      ∀ i t, s.cur ≤ i → i < s'.cur → ts[i]? = some t → isWsComment t.kind = true ∨ t.kind = .eq) := by
  unfold scalingLock wsComments
  refine Sat.bind (Sat.mono (consumeWhile_ge _ h) ?_)
  rintro r s1 ⟨g1, c1, hr, hall, -⟩
  refine Sat.bind (atK_sat g1.g ?_)
  split
  · rename_i hk
    obtain ⟨t, ht, htk⟩ := atK_true hk
    refine Sat.bind (Sat.mono (bumpAny_ge g1 ht) ?_)
    rintro r2 s2 ⟨rfl, g2, c2⟩
    refine Sat.pure ⟨g2, by omega, ?_⟩
    intro i u h1 h2 hu
    by_cases hi : i < s1.cur
    · left; exact hall u (by rw [hr]; exact cover_mem_slice h1 hi hu)
    · right
      have : i = s1.cur := by omega
      subst this
      rw [ht] at hu; cases hu
      exact htk
  · refine Sat.pure ⟨g1, c1, ?_⟩
    intro i u h1 h2 hu
    left; exact hall u (by rw [hr]; exact cover_mem_slice h1 h2 hu)

theorem textValue_fc (hup : UpP Pv) (h : GE Pv ts e s) {o : Nat} {toks : List Tok} (hr : RunAt o toks) :
    Sat (textValue (α := α) toks o) s (fun r s' => GE Pv ts e s' ∧ s'.cur = s.cur ∧
      ∃ T : Text, r = .text (T.trimmed s.cs) ∧ ∀ t ∈ toks, HasBody t → T.holds (tokBodyStart t) t.stop) := by
  unfold textValue
  refine Sat.bind (bpText_sat hr ?_)
  refine Sat.bind (Sat.get ?_)
  dsimp only
  split
  · refine Sat.bind (Sat.perrE ?_)
    exact Sat.pure ⟨h.pushUp hup _, rfl, _, rfl, fun t ht hb => frag_run hr ht hb⟩
  · exact Sat.pure ⟨h, rfl, _, rfl, fun t ht hb => frag_run hr ht hb⟩

/-- `parse_value` over the tokens `toks` that end at the cursor: every token with a body is carried by
    the value -/
theorem parseValue_fc (hup : UpP Pv) (hw : WFI off w ts) (h : GE Pv ts e s) {o : Nat} {toks : List Tok}
    (hr : RunIn off w o toks) (hcur : offAt ts s.cur = lastStop o toks) :
    Sat (parseValue (α := α) toks) s (fun r s' => GE Pv ts e s' ∧ s'.cur = s.cur ∧
      ∀ t ∈ toks, HasBody t → ValHolds s.cs r (tokBodyStart t) t.stop) := by
  unfold parseValue
  refine Sat.bind (currentOffset_sat h.g ?_)
  dsimp only
  have hsp : ∀ t ∈ toks, (⟨(toks.head?.map (·.start)).getD (offAt ts s.cur), offAt ts s.cur⟩ : Span).holds
      (tokBodyStart t) t.stop := by
    intro t ht
    cases toks with
    | nil => cases ht
    | cons t0 r =>
      simp only [List.head?_cons, Option.map_some, Option.getD_some]
      rw [hcur, hr.run.1.1]
      exact frag_span_run hr.run.1 ht
  refine Sat.bind (hasExt_sat h.g ?_)
  split
  · rename_i v hv
    exact Sat.pure ⟨h, rfl, fun t ht _ => frag_valHolds_span (frag_numOrRange_ok hv) (hsp t ht)⟩
  · rename_i d hd
    refine Sat.bind (Sat.pushEv ?_)
    exact Sat.pure ⟨h.pushUp hup _, rfl, fun t ht _ => frag_valHolds_span rfl (hsp t ht)⟩
  · have hr' : RunIn off w ((toks.head?.map (·.start)).getD (offAt ts s.cur)) toks :=
      hr.headStart' (hw.offAt s.cur)
    refine Sat.bind (Sat.mono (textValue_fc hup h hr'.run) ?_)
    rintro v s1 ⟨g1, c1, T, rfl, hT⟩
    exact Sat.pure ⟨g1, c1, fun t ht hb => ⟨T, rfl, hT t ht hb⟩⟩

theorem qvalue_fc (hup : UpP Pv) (hw : WFI off w ts) (h : GE Pv ts e s) (hcs : s.cs = cs) :
    Sat (qvalue (α := α)) s (fun r s' => GE Pv ts e s' ∧ s.cur ≤ s'.cur ∧
      (∀ i t, s.cur ≤ i → i < s'.cur → ts[i]? = some t → CoreTok cs t →
        ValHolds cs r.value (tokBodyStart t) t.stop) ∧
      (∀ t, ts[s'.cur]? = some t → t.kind = .percent)) := by
  unfold qvalue
  refine Sat.bind (Sat.mono ((scalingLock_fc h).fragCs (IndGA.of_indA scalingLock_indA)) ?_)
  rintro lock s1 ⟨⟨g1, c1, hl⟩, cs1⟩
  refine Sat.bind (Sat.mono ((consumeWhile_ge _ g1).fragCs (IndGA.of_indA (consumeWhile_indA _))) ?_)
  rintro vt s2 ⟨⟨g2, c2, hvt, -, hend⟩, cs2⟩
  have hr : RunIn off w (offAt ts s1.cur) vt := by rw [hvt]; exact hw.slice c2
  have hcur : offAt ts s2.cur = lastStop (offAt ts s1.cur) vt := by rw [hvt, offAt_slice c2]
  refine Sat.bind (Sat.mono (parseValue_fc hup hw g2 hr hcur) ?_)
  rintro v s3 ⟨g3, c3, hv⟩
  refine Sat.pure ⟨g3, by omega, ?_, ?_⟩
  · intro i t h1 h2 ht hc
    by_cases hi : i < s1.cur
    · exact absurd (hl i t h1 hi ht) hc.notLock
    · have hm : t ∈ vt := by rw [hvt]; exact cover_mem_slice (by omega) (by omega) ht
      have := hv t hm (hc.hasBody hw.wf.run.2 (List.mem_of_getElem? ht))
      rw [cs2, cs1, hcs] at this
      exact this
  · intro t ht
    rw [c3] at ht
    have := hend t ht
    simpa using this

theorem parseRegularQuantity_fc (hup : UpP Pv) (hw : WFI off w ts) (h : GE Pv ts e s) (hcs : s.cs = cs) :
    Sat (parseRegularQuantity (α := α)) s (fun r s' => GE Pv ts e s' ∧
      ∀ i t, s.cur ≤ i → ts[i]? = some t → CoreTok cs t →
        QtyHolds cs r.quantity.val (tokBodyStart t) t.stop) := by
  unfold parseRegularQuantity
  refine Sat.bind (Sat.mono ((qvalue_fc hup hw h hcs).fragCs (qvalue_indGA fragFlags_4)) ?_)
  rintro value s1 ⟨⟨g1, c1, hval, hpc⟩, cs1⟩
  apply Sat.bind
  apply Sat.mono (Q := fun (u : Option (Span × Text)) s' => GE Pv ts e s' ∧ s'.cs = cs ∧
    ∀ i t, s1.cur ≤ i → ts[i]? = some t → CoreTok cs t →
      ∃ p, u = some p ∧ p.2.holds (tokBodyStart t) t.stop ∧ p.2.isTextEmpty cs = false)
  · refine Sat.bind (peekK_sat g1.g ?_)
    split
    · rename_i hk
      obtain ⟨t, ht, htk⟩ := peek_some hk
      refine Sat.bind (Sat.mono ((bumpAny_ge g1 ht).fragCs (IndGA.of_indA bumpAny_indA)) ?_)
      rintro sep s2 ⟨⟨rfl, g2, c2⟩, cs2⟩
      refine Sat.bind (Sat.mono ((consumeRest_ge g2).fragCs (IndGA.of_indA consumeRest_indA)) ?_)
      rintro ut s3 ⟨⟨g3, c3, hut⟩, cs3⟩
      have hr : RunIn off w sep.stop ut := by
        rw [hut, ← offAt_succ ht, ← c2]; exact hw.slice g2.le
      refine Sat.bind (bpText_sat hr.run ?_)
      refine Sat.pure ⟨g3, by rw [cs3, cs2, cs1, hcs], ?_⟩
      intro i u h1 hu hc
      have hne : i ≠ s1.cur := by
        intro h0; subst h0; rw [ht] at hu; cases hu
        exact hc.kindNe (by decide) htk
      have hm : u ∈ ut := by rw [hut]; exact cover_mem_slice (by omega) (getElem?_lt hu) hu
      exact ⟨_, rfl, frag_run hr.run hm (hc.hasBody hw.wf.run.2 (List.mem_of_getElem? hu)),
        frag_run_not_empty hm hc⟩
    · rename_i hnp
      refine Sat.pure ⟨g1, by rw [cs1, hcs], ?_⟩
      intro i u h1 hu hc
      exfalso
      have hlt : s1.cur < ts.length := by have := getElem?_lt hu; omega
      have hget : ts[s1.cur]? = some ts[s1.cur] := List.getElem?_eq_getElem hlt
      have hk := hpc _ hget
      apply hnp
      rw [hget]; simp [hk]
  · intro unit s2 ⟨g2, cs2, hu⟩
    refine Sat.bind (Sat.get ?_)
    dsimp only
    split
    · rename_i sep ut
      split
      · rename_i hemp
        refine Sat.bind (Sat.pwarnE ?_)
        have g3 : GE Pv ts e { s2 with evs := s2.evs.push (.warning ⟨.warning, .parse, "empty-unit", [sep]⟩) } :=
          g2.pushUp hup _
        refine Sat.bind (Sat.get ?_)
        refine Sat.bind (tokensSpanP_sat (by rw [g3.g.toks]; exact hw.ne) ?_)
        refine Sat.pure ⟨g3, ?_⟩
        intro i t h1 ht hc
        by_cases hi : i < s1.cur
        · exact Or.inl (hval i t h1 hi ht hc)
        · exfalso
          obtain ⟨p, hp, -, hne⟩ := hu i t (by omega) ht hc
          simp only [Option.some.injEq] at hp; subst hp
          rw [cs2] at hemp
          simp only at hne
          rw [hne] at hemp; cases hemp
      · refine Sat.bind (Sat.get ?_)
        refine Sat.bind (tokensSpanP_sat (by rw [g2.g.toks]; exact hw.ne) ?_)
        refine Sat.pure ⟨g2, ?_⟩
        intro i t h1 ht hc
        by_cases hi : i < s1.cur
        · exact Or.inl (hval i t h1 hi ht hc)
        · obtain ⟨p, hp, hh, -⟩ := hu i t (by omega) ht hc
          simp only [Option.some.injEq] at hp; subst hp
          exact Or.inr ⟨_, rfl, hh⟩
    · refine Sat.bind (Sat.get ?_)
      refine Sat.bind (tokensSpanP_sat (by rw [g2.g.toks]; exact hw.ne) ?_)
      refine Sat.pure ⟨g2, ?_⟩
      intro i t h1 ht hc
      by_cases hi : i < s1.cur
      · exact Or.inl (hval i t h1 hi ht hc)
      · obtain ⟨p, hp, -, -⟩ := hu i t (by omega) ht hc
        cases hp

theorem frag_rtrim_mem (p : Tok → Bool) (l : List Tok) {t : Tok} (ht : t ∈ l) :
    t ∈ (l.reverse.dropWhile p).reverse ∨ p t = true := by
  have hsplit := List.takeWhile_append_dropWhile (p := p) (l := l.reverse)
  have hm : t ∈ l.reverse := by simpa using ht
  rw [← hsplit] at hm
  rcases List.mem_append.1 hm with h | h
  · right
    have hall := List.all_takeWhile (l := l.reverse) (p := p)
    rw [List.all_eq_true] at hall
    exact hall t h
  · left; simpa using h

theorem parseAdvancedQuantity_fc (hup : UpP Pv) (hw : WFI off w ts) (h : GE Pv ts e s) :
    Sat (parseAdvancedQuantity (α := α)) s (fun r s' => GE Pv ts e s' ∧
      ∀ pq, r = some pq → ∀ i t, s.cur ≤ i → ts[i]? = some t → CoreTok cs t →
        QtyHolds cs pq.quantity.val (tokBodyStart t) t.stop) := by
  unfold parseAdvancedQuantity
  refine Sat.bind (allToks_sat h.g ?_)
  dsimp only
  split
  · exact Sat.pure ⟨h, fun _ hq => by cases hq⟩
  refine Sat.bind (Sat.mono (scalingLock_fc h) ?_)
  rintro lock s1 ⟨g1, c1, hl⟩
  unfold wsComments
  refine Sat.bind (Sat.mono (consumeWhile_ge _ g1) ?_)
  rintro wsT s2 ⟨g2, c2, hws, hwsall, hend2⟩
  refine Sat.bind (Sat.mono (consumeWhile_ge _ g2) ?_)
  rintro vt s3 ⟨g3, c3, hvt, -, -⟩
  split
  · exact Sat.pure ⟨g3, fun _ hq => by cases hq⟩
  rename_i l hl'
  split
  · exact Sat.pure ⟨g3, fun _ hq => by cases hq⟩
  have hne : (vt.reverse.dropWhile (fun t => t.kind == .ws || t.kind == .blockComment)).reverse ≠ [] := by
    cases hv : vt with
    | nil => rw [hv] at hl'; simp at hl'
    | cons t rest =>
      rw [hv] at hvt
      have ht := hend2 t (slice_head hvt.symm)
      apply rtrim_ne_nil _ _ t (by simp)
      simp only [isWsComment, Bool.or_eq_false_iff] at ht
      simp [ht.1.1, ht.2]
  have hrv : RunIn off w (offAt ts s2.cur)
      (vt.reverse.dropWhile (fun t => t.kind == .ws || t.kind == .blockComment)).reverse := by
    obtain ⟨suf, hsuf⟩ := rtrim_prefix (fun t => t.kind == .ws || t.kind == .blockComment) vt
    have h0 : RunIn off w (offAt ts s2.cur) vt := by rw [hvt]; exact hw.slice c3
    rw [hsuf] at h0
    exact h0.append.1
  split
  · rename_i hemp
    exfalso; apply hne
    simpa using hemp
  refine Sat.bind (Sat.mono (consumeRest_ge g3) ?_)
  rintro ut s5 ⟨g5, c5, hut⟩
  split
  · exact Sat.pure ⟨g5, fun _ hq => by cases hq⟩
  rename_i hutne
  have hutne' : ut ≠ [] := by intro h0; rw [h0] at hutne; simp at hutne
  try dsimp only
  refine Sat.bind (hasExt_sat g5.g ?_)
  split
  · exact Sat.pure ⟨g5, fun _ hq => by cases hq⟩
  rename_i r hr
  have hrun : RunIn off w (offAt ts s3.cur) ut := by rw [hut]; exact hw.slice g3.le
  apply Sat.bind
  apply Sat.mono (Q := fun (v : Value α) s' => GE Pv ts e s' ∧ v.isText = false)
  · split
    · exact Sat.pure ⟨g5, frag_numOrRange_ok hr⟩
    · rename_i d
      refine Sat.bind (Sat.pushEv ?_)
      exact Sat.pure ⟨g5.pushUp hup _, rfl⟩
  rintro v s6 ⟨g6, hvnt⟩
  have hunit := hrun.headStartNe hutne' 0
  refine Sat.bind (bpText_sat hunit.run ?_)
  refine Sat.bind (tokensSpanP_sat hw.ne ?_)
  refine Sat.pure ⟨g6, ?_⟩
  intro pq hpq i t h1 ht hc
  simp only [Option.some.injEq] at hpq; subst hpq
  by_cases a1 : i < s1.cur
  · exact absurd (hl i t h1 a1 ht) hc.notLock
  by_cases a2 : i < s2.cur
  · exfalso
    have := hwsall t (by rw [hws]; exact cover_mem_slice (by omega) a2 ht)
    rw [hc.1.notWsComment] at this; cases this
  by_cases a3 : i < s3.cur
  · have hm : t ∈ vt := by rw [hvt]; exact cover_mem_slice (by omega) a3 ht
    rcases frag_rtrim_mem (fun t => t.kind == .ws || t.kind == .blockComment) vt hm with hm' | hp
    · refine Or.inl ?_
      have hspan := frag_span_run hrv.run.1 hm'
      rw [← tokensSpan_chain hrv.run.1 hne] at hspan
      exact frag_valHolds_span hvnt hspan
    · exfalso
      have := hc.1.notWsComment
      simp only [isWsComment, Bool.or_eq_false_iff] at this
      simp [this.1.1, this.2] at hp
  · have hm : t ∈ ut := by rw [hut]; exact cover_mem_slice (by omega) (getElem?_lt ht) ht
    exact Or.inr ⟨_, rfl, frag_run hunit.run hm (hc.hasBody hw.wf.run.2 (List.mem_of_getElem? ht))⟩

/-- `parse_quantity`: every content token between the braces is carried by the quantity -/
theorem parseQuantity_fc {q : List Tok} (hup : UpP Pv) (hw : WFI off w ts) (hq : WFI off w q)
    (h : GE Pv ts e s) (hcs : s.cs = cs) :
    Sat (parseQuantity (α := α) q) s (fun r s' => GE Pv ts e s' ∧ s'.cur = s.cur ∧
      ∀ t ∈ q, CoreTok cs t → QtyHolds cs r.quantity.val (tokBodyStart t) t.stop) := by
  unfold parseQuantity
  have hne : q.isEmpty = false := by
    have := hq.ne
    cases q <;> simp_all
  simp only [hne, Bool.false_eq_true, if_false]
  refine Sat.bind (Sat.get ?_)
  refine Sat.bind (Sat.set ?_)
  have g0 : GE Pv q e ({ s with toks := q, cur := 0 } : BP α) :=
    ⟨⟨rfl, h.g.ext, h.g.panic, Nat.zero_le _⟩, h.evs⟩
  have cs0 : ({ s with toks := q, cur := 0 } : BP α).cs = cs := hcs
  apply Sat.bind
  apply Sat.mono (Q := fun r s' => GE Pv q e s' ∧ s'.cs = cs ∧ (r = none → s'.cur = 0) ∧
    ∀ pq, r = some pq → ∀ i t, 0 ≤ i → q[i]? = some t → CoreTok cs t →
      QtyHolds cs pq.quantity.val (tokBodyStart t) t.stop)
  · refine Sat.bind (hasExt_sat g0.g ?_)
    split
    · apply withRecover_sat
      refine Sat.mono ((parseAdvancedQuantity_fc (cs := cs) hup hq g0).fragCs
        (parseAdvancedQuantity_indGA fragFlags_4)) ?_
      rintro r s1 ⟨⟨g1, hr⟩, cs1⟩
      cases r with
      | none => exact ⟨g1.setCur (Nat.zero_le _), cs1.trans cs0, fun _ => rfl, fun _ hq => by cases hq⟩
      | some b => exact ⟨g1, cs1.trans cs0, fun hn => (by cases hn), hr⟩
    · exact Sat.pure ⟨g0, cs0, fun _ => rfl, fun _ hq => by cases hq⟩
  rintro adv s1 ⟨g1, cs1, hcur, hadv⟩
  apply Sat.bind
  apply Sat.mono (Q := fun r s' => GE Pv q e s' ∧
    ∀ t ∈ q, CoreTok cs t → QtyHolds cs r.quantity.val (tokBodyStart t) t.stop)
  · split
    · rename_i pq
      refine Sat.pure ⟨g1, ?_⟩
      intro t ht hc
      obtain ⟨i, hi, rfl⟩ := List.mem_iff_getElem.1 ht
      exact hadv pq rfl i _ (Nat.zero_le _) (List.getElem?_eq_getElem hi) hc
    · have hc0 : s1.cur = 0 := hcur rfl
      refine Sat.mono (parseRegularQuantity_fc hup hq g1 cs1) ?_
      rintro r s2 ⟨g2, hr⟩
      refine ⟨g2, ?_⟩
      intro t ht hc
      obtain ⟨i, hi, rfl⟩ := List.mem_iff_getElem.1 ht
      exact hr i _ (by omega) (List.getElem?_eq_getElem hi) hc
  rintro r s2 ⟨g2, hr⟩
  refine Sat.bind (Sat.modify ?_)
  exact Sat.pure ⟨⟨⟨h.g.toks, g2.g.ext, g2.g.panic, h.g.le⟩, g2.evs⟩, rfl, hr⟩

end Cook
