import CookModel.Num.Scale
import CookModel.Lemmas.Convert
import CookModel.Lemmas.IngList
import CookModel.Lemmas.GroupConserve
import CookModel.Lemmas.CollectorBack
import CookModel.Lemmas.ClosingStream
/-
  C03 for the consumers of a parsed recipe (scale, convert, fit, group, list): no panic value is
  produced — neither as the result of an operation (`none` of `groupIngredients`, `addRecipe`,
  `groupAmounts`) nor swallowed inside one (`let _ = q.fit(converter)` in `scale` and
  `group_quantities`, the `try_add` of `GroupedQuantity::add` whose error sends the quantity to
  `other`): in the code a panic inside such a call is a panic of the whole operation, so the statements
  below are about EVERY call of `convert` / `fit` / `try_add`, whatever its arguments.

  Converter hypothesis: `Converter.Sound` (best lists made of the converter's own units of the right
  physical quantity, ids unique, ratios non-zero, every unit has a symbol, keys resolve) — true of the
  empty and of the bundled converter (`C09_bundled_sound`).
-/
set_option linter.unusedVariables false
set_option linter.unusedSectionVars false
namespace Cook

/-! ### single quantities -/

theorem consumers_convertImpl_no_panic {c : Converter Rat} (hc : c.Sound) (q : SQuantity Rat)
    (to : ConvertTo Rat) (hto : ∀ x, to = .unit (.unit x) → x ∈ c.allUnits) (s : PanicSite) :
    (convertImpl c q to).2 ≠ .error (.panic s) := by
  have h := convertImpl_spec hc q to hto
  generalize convertImpl c q to = r at h
  obtain ⟨q', res⟩ := r
  intro heq
  simp only at heq
  subst heq
  exact h.error_inv.2.not_panic s rfl

theorem consumers_fit_no_panic {c : Converter Rat} (hc : c.Sound) (q : SQuantity Rat) (s : PanicSite) :
    (fit c q).2 ≠ .error (.panic s) := by
  have h := fit_spec hc q
  generalize fit c q = r at h
  obtain ⟨q', res⟩ := r
  intro heq
  simp only at heq
  subst heq
  exact h.error_inv.2.not_panic s rfl

/-- `ScaledQuantity::try_add`: the conversion of the right operand never panics -/
theorem consumers_tryAdd_no_panic {c : Converter Rat} (hc : c.Sound) (l r : SQuantity Rat) (s : PanicSite) :
    ∀ x, qTryAdd c l r = .error x → x ≠ .convert (.panic s) := by
  intro x hx
  unfold qTryAdd at hx
  split at hx
  · simp only [Except.error.injEq] at hx; subst hx; intro h; cases h
  · rename_i convertTo hcu
    split at hx
    · rename_i e he
      simp only [Except.error.injEq] at hx; subst hx
      intro h
      simp only [AddErr.convert.injEq] at h
      subst h
      cases convertTo with
      | none => simp [convertRhs] at he
      | some to =>
        have hmem : to ∈ c.allUnits := by
          unfold qCompatibleUnit at hcu
          split at hcu
          · cases hcu
          · cases hcu
          · cases hcu
          · rename_i a b _ _
            split at hcu
            · rename_i ua ub hfa hfb
              split at hcu
              · cases hcu
              · simp only [Except.ok.injEq, Option.some.injEq] at hcu
                subst hcu
                exact findUnit_mem hfa
            · split at hcu
              · cases hcu
              · cases hcu
        exact consumers_convertImpl_no_panic hc r (.unit (.unit to))
          (fun x hx => by cases hx; exact hmem) s he
    · split at hx
      · simp only [Except.error.injEq] at hx; subst hx; intro h; cases h
      · cases hx

/-- `GroupedQuantity::fit`: the per-slot `fit`s never panic -/
theorem consumers_fitKnown_no_panic {c : Converter Rat} (hc : c.Sound) (s : PanicSite) :
    ∀ (l : List PhysQ) (g : GroupedQuantity Rat), (GroupedQuantity.fitKnown c g l).2 ≠ .error (.panic s) := by
  intro l
  induction l with
  | nil => intro g h; simp [GroupedQuantity.fitKnown] at h
  | cons pq rest ih =>
    intro g
    unfold GroupedQuantity.fitKnown
    split
    · exact ih g
    · rename_i q hq
      split
      · exact ih _
      · rename_i e he
        intro h
        simp only [Except.error.injEq] at h
        subst h
        exact consumers_fit_no_panic hc q s he

theorem consumers_groupFit_no_panic {c : Converter Rat} (hc : c.Sound) (g : GroupedQuantity Rat)
    (s : PanicSite) : (GroupedQuantity.fit c g).2 ≠ .error (.panic s) :=
  consumers_fitKnown_no_panic hc s _ g

/-! ### the `assert!`s of `Number::new_approx`

  `new_approx` starts with `assert!((0.0..=1.0).contains(&accuracy))` and `assert!(max_den <= 64)`.  The model's
  `newApprox` does not contain them; they are the precondition `cfgPre` of the configuration passed, and
  `Converter.wf` demands it of every configuration the converter holds.  Every call the consumers make
  (`try_fraction`, `fit_fraction`) passes `converter.fractions_config(unit)`: -/

theorem consumers_lookup_mem {κ β : Type} [BEq κ] (l : List (κ × β)) (k : κ) (v : β)
    (h : l.lookup k = some v) : v ∈ l.map (·.2) := by
  induction l with
  | nil => simp [List.lookup] at h
  | cons a t ih =>
    obtain ⟨a1, a2⟩ := a
    simp only [List.lookup] at h
    split at h
    · simp only [Option.some.injEq] at h; subst h; simp
    · simp only [List.map_cons, List.mem_cons]; exact Or.inr (ih h)

/-- every configuration `fractions_config` can return is one the converter holds, or the default one -/
theorem consumers_config_mem (f : Fractions Rat) (sys : Option System) (q : PhysQ) (id : Nat) :
    f.config sys q id ∈ defaultCfg (α := Rat) :: f.cfgs := by
  unfold Fractions.config Fractions.cfgs
  split
  · rename_i cfg h
    have := consumers_lookup_mem _ _ _ h
    simp only [List.mem_cons, List.mem_append]; exact Or.inr (Or.inr this)
  · split
    · rename_i cfg h
      have := consumers_lookup_mem _ _ _ h
      simp only [List.mem_cons, List.mem_append]; exact Or.inr (Or.inl (Or.inr this))
    · split
      · rename_i cfg h
        simp only [List.mem_cons, List.mem_append, Option.mem_toList]
        cases sys with
        | none => simp [systemCfg] at h
        | some sy =>
          cases sy with
          | metric =>
            simp only [systemCfg] at h
            exact Or.inr (Or.inl (Or.inl (Or.inl (Or.inr h))))
          | imperial =>
            simp only [systemCfg] at h
            exact Or.inr (Or.inl (Or.inl (Or.inr h)))
      · split
        · rename_i cfg h
          simp only [List.mem_cons, List.mem_append, Option.mem_toList]
          exact Or.inr (Or.inl (Or.inl (Or.inl (Or.inl h))))
        · exact List.mem_cons_self ..

/-- the two `assert!`s of `new_approx` hold at every call the consumers make, for a well-formed converter -/
theorem consumers_config_pre {c : Converter Rat} (hw : c.wf = true) (u : Unit Rat) :
    newApproxPre (c.fractionsConfig u).accuracy (c.fractionsConfig u).maxDen = true := by
  simp only [Converter.wf, Bool.and_eq_true, List.all_eq_true] at hw
  exact hw.2 _ (consumers_config_mem c.fractions u.system u.pq u.id)

/-! ### `ScaledRecipe::convert` -/

theorem consumers_convStep_no_panic {c : Converter Rat} (hc : c.Sound) (to : System) (q : SQuantity Rat) :
    ∀ e ∈ (convStep c to q).2, ∀ s, e ≠ .panic s := by
  intro e he s
  unfold convStep at he
  split at he
  · cases he
  · rename_i e' he'
    simp only [List.mem_singleton] at he
    subst he
    intro h; subst h
    exact consumers_convertImpl_no_panic hc q (.best to) (fun x hx => by cases hx) s he'

theorem consumers_convOpt_no_panic {c : Converter Rat} (hc : c.Sound) (to : System) (q : Option (SQuantity Rat)) :
    ∀ e ∈ (convOpt c to q).2, ∀ s, e ≠ .panic s := by
  cases q with
  | none => intro e he; cases he
  | some q => exact consumers_convStep_no_panic hc to q

/-- every error `ScaledRecipe::convert` returns is a `ConvertError`, never a panic -/
theorem consumers_recipeConvert_no_panic {c : Converter Rat} (hc : c.Sound) (to : System)
    (r : ScaledRecipe Rat) : ∀ e ∈ (recipeConvert c to r).2, ∀ s, e ≠ .panic s := by
  intro e he s
  simp only [recipeConvert, List.mem_append, List.mem_flatten, List.mem_map] at he
  rcases he with (⟨l, ⟨p, ⟨i, _, rfl⟩, rfl⟩, hel⟩ | ⟨l, ⟨p, ⟨t, _, rfl⟩, rfl⟩, hel⟩) | ⟨l, ⟨p, ⟨q, _, rfl⟩, rfl⟩, hel⟩
  · exact consumers_convOpt_no_panic hc to i.quantity e hel s
  · exact consumers_convOpt_no_panic hc to t.quantity e hel s
  · exact consumers_convStep_no_panic hc to q e hel s

/-! ### the recipe the analysis returns, and its reference tables through scaling and conversion -/

/-- the `Recipe` inside the collector the analysis returns (`RecipeContent`: sections and the four tables) -/
def Col.recipe {α : Type} (c : Col α) : ScalableRecipe α :=
  { sections := c.sections, ingredients := c.ingredients.toList, cookware := c.cookware.toList,
    timers := c.timers.toList, inlineQuantities := c.inlineQ.toList }

/-- every `referenced_from` index of every cookware item is in range -/
def CwRefsInRange {V : Type} (all : List (Cookware V)) : Prop :=
  ∀ i ∈ all, ∀ j ∈ i.relation.referencedFrom, j < all.length

/-- the relations of a table, which is all that the grouping code indexes with -/
theorem refsInRange_of_relations {all all' : List (Ingredient (Value Rat))}
    (h : all'.map (·.relation) = all.map (·.relation)) (hr : RefsInRange all) : RefsInRange all' := by
  have hlen : all'.length = all.length := by simpa using congrArg List.length h
  intro i hi j hj
  obtain ⟨k, hk, rfl⟩ := List.mem_iff_getElem.mp hi
  have hk' : k < all.length := hlen ▸ hk
  have e : all'[k].relation = all[k].relation := by
    have := congrArg (fun l => l[k]?) h
    simpa [hk, hk'] using this
  rw [e] at hj
  rw [hlen]
  exact hr _ (List.getElem_mem hk') j hj

theorem cwRefsInRange_of_relations {V V' : Type} {all : List (Cookware V)} {all' : List (Cookware V')}
    (h : all'.map (·.relation) = all.map (·.relation)) (hr : CwRefsInRange all) : CwRefsInRange all' := by
  have hlen : all'.length = all.length := by simpa using congrArg List.length h
  intro i hi j hj
  obtain ⟨k, hk, rfl⟩ := List.mem_iff_getElem.mp hi
  have hk' : k < all.length := hlen ▸ hk
  have e : all'[k].relation = all[k].relation := by
    have := congrArg (fun l => l[k]?) h
    simpa [hk, hk'] using this
  rw [e] at hj
  rw [hlen]
  exact hr _ (List.getElem_mem hk') j hj

theorem recipeScale_relations (c : Converter Rat) (r : ScalableRecipe Rat) (f : Rat) :
    (recipeScale c r f).1.ingredients.map (·.relation) = r.ingredients.map (·.relation) ∧
    (recipeScale c r f).1.cookware.map (·.relation) = r.cookware.map (·.relation) := by
  refine ⟨?_, ?_⟩
  · simp [recipeScale, scaleIngredient, List.map_map, Function.comp_def]
  · simp only [recipeScale, List.map_map]
    apply List.map_congr_left
    intro k _
    simp only [Function.comp_def, scaleCookware]
    split <;> rfl

theorem recipeDefaultScale_relations (r : ScalableRecipe Rat) :
    (recipeDefaultScale r).ingredients.map (·.relation) = r.ingredients.map (·.relation) ∧
    (recipeDefaultScale r).cookware.map (·.relation) = r.cookware.map (·.relation) := by
  refine ⟨?_, ?_⟩ <;> simp [recipeDefaultScale, List.map_map, Function.comp_def]

theorem recipeConvert_relations (c : Converter Rat) (to : System) (r : ScaledRecipe Rat) :
    (recipeConvert c to r).1.ingredients.map (·.relation) = r.ingredients.map (·.relation) ∧
    (recipeConvert c to r).1.cookware = r.cookware := by
  refine ⟨?_, rfl⟩
  simp [recipeConvert, convIngredient, List.map_map, Function.comp_def]

/-! ### grouping and listing -/

theorem consumers_group_total {c : Converter Rat} (r : ScaledRecipe Rat) (hr : RefsInRange r.ingredients) :
    ∃ es, groupIngredients c r = some es :=
  groupFrom_total (c := c) hr r.ingredients 0 (fun _ h => h)

theorem refAmounts_some {all : List (Cookware (Value Rat))} {js : List Nat} (h : ∀ j ∈ js, j < all.length) :
    ∃ qs, refAmounts all js = some qs := by
  induction js with
  | nil => exact ⟨[], rfl⟩
  | cons j rest ih =>
    obtain ⟨qs, hqs⟩ := ih (fun x hx => h x (List.mem_cons_of_mem _ hx))
    have hj : j < all.length := h j (List.mem_cons_self ..)
    refine ⟨all[j].quantity :: qs, ?_⟩
    simp [refAmounts, List.getElem?_eq_getElem hj, hqs]

/-- `Cookware::group_amounts`: no index panic, and the `expect` of `GroupedValue::add` never fires -/
theorem consumers_groupAmounts_total (all : List (Cookware (Value Rat))) (hr : CwRefsInRange all) :
    ∀ i ∈ all, ∃ g, groupAmounts all i = some g := by
  intro i hi
  obtain ⟨qs, hqs⟩ := refAmounts_some (all := all) (hr i hi)
  unfold groupAmounts allAmounts
  rw [hqs]
  exact groupedValueAddAll_some _ _

/-! ### the reference tables of a parsed recipe are in range -/

variable {α : Type} [Arith α]

theorem col_backlinks (env : Env) (input : Str) (c : Col α)
    (h : (parseRecipe (α := α) env input).output = some c) : BackInv c :=
  parseEventsLoop_back env input _ {} c (Inv.init env) BackInv.init (pullEvents_evOK env.cs env.ext input) h

theorem col_refs_in_range (env : Env) (input : Str) (c : Col Rat)
    (h : (parseRecipe (α := Rat) env input).output = some c) :
    (∀ i ∈ c.recipe.ingredients, ∀ j ∈ i.relation.relation.referencedFrom, j < c.recipe.ingredients.length) ∧
    CwRefsInRange c.recipe.cookware := by
  obtain ⟨h1, h2⟩ := col_backlinks env input c h
  refine ⟨?_, ?_⟩
  · intro i hi j hj
    obtain ⟨k, hk, rfl⟩ := List.mem_iff_getElem.mp hi
    simp only [Col.recipe, Array.length_toList] at hk ⊢
    have hk' : c.ingredients[k]? = some c.ingredients.toList[k] := by
      simp [Array.getElem?_eq_getElem hk]
    obtain ⟨_, ig, hig, _⟩ := h1 k _ hk' j hj
    apply Classical.byContradiction
    intro hlt
    rw [Array.getElem?_eq_none (Nat.le_of_not_lt hlt)] at hig
    cases hig
  · intro i hi j hj
    obtain ⟨k, hk, rfl⟩ := List.mem_iff_getElem.mp hi
    simp only [Col.recipe, Array.length_toList] at hk ⊢
    have hk' : c.cookware[k]? = some c.cookware.toList[k] := by
      simp [Array.getElem?_eq_getElem hk]
    obtain ⟨_, cw, hcw, _⟩ := h2 k _ hk' j hj
    apply Classical.byContradiction
    intro hlt
    rw [Array.getElem?_eq_none (Nat.le_of_not_lt hlt)] at hcw
    cases hcw

end Cook
