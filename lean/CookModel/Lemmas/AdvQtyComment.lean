import CookModel.Lemmas.SimQty
/-
  C17, defect F-C17-1 and its repair: a block comment between the blank and the unit word of an
  ADVANCED_UNITS quantity `value blank unit` (`{1 [- c -]kg}`).

  * `parseAdvancedQuantityOrig` is a copy of the model of `parse_advanced_quantity` BEFORE the repair
    (blank test on the very last value token); it is kept only to document the defect and is not
    part of the driver.
  * for the repaired function: whatever stands between value and unit — blanks and block comments in
    any order and number, at least one blank (`A17qFiller`) — the result is the same up to spans
    (`a17q_parseQuantity_filler`).
  Tag of this file: `a17q`.
-/
set_option linter.unusedSectionVars false
set_option linter.unusedSimpArgs false
set_option linter.unusedVariables false
namespace Cook

variable {α : Type} [Arith α]

/-! ### the function before the repair -/

/-- `parse_advanced_quantity` as it was before the repair of F-C17-1: the blank test looks at the
    very last value token (`value_tokens.last().unwrap().kind != T![ws]`) -/
def parseAdvancedQuantityOrig : P α (Option (ParsedQuantity α)) := do
  let all ← allToks
  if all.any (fun t => t.kind == .percent) then return none
  let lock ← scalingLock
  let _ ← wsComments
  let vt ← consumeWhile (fun k => k != .word)
  match vt.getLast? with
  | none => return none
  | some l =>
    if l.kind != .ws then return none
    let vt := (vt.reverse.dropWhile (fun t => t.kind == .ws || t.kind == .blockComment)).reverse
    if vt.isEmpty then panicWith "advanced quantity: rposition unwrap"
    let ut ← consumeRest
    if ut.isEmpty then return none
    let vspan := tokensSpan vt
    let rangeExt ← hasExt Gen.EXT_RANGE_VALUES
    match numOrRange (α := α) rangeExt vt with
    | none => return none
    | some r =>
      let v : Value α ← (match r with
        | .ok v => pure v
        | .error e => do pushEv (.error e); pure recoverValue)
      let unit ← bpText ((ut.head?.map (·.start)).getD 0) ut
      let sp ← tokensSpanP "quantity" all
      return some ⟨⟨⟨⟨⟨v, vspan⟩, lock⟩, some unit⟩, sp⟩, none⟩

/-! ### list facts -/

theorem a17q_dropWhile_append_all {p : Tok → Bool} {A B : List Tok} (h : ∀ t ∈ A, p t = true) :
    (A ++ B).dropWhile p = B.dropWhile p := by
  induction A with
  | nil => rfl
  | cons a A ih =>
    have ha := h a (by simp)
    simp only [List.cons_append, List.dropWhile_cons, ha, if_true]
    exact ih (fun t ht => h t (by simp [ht]))

theorem a17q_dropWhile_append_ne {p : Tok → Bool} {A B : List Tok} (h : A.dropWhile p ≠ []) :
    (A ++ B).dropWhile p = A.dropWhile p ++ B := by
  induction A with
  | nil => exact absurd rfl h
  | cons a A ih =>
    by_cases ha : p a = true
    · simp only [List.cons_append, List.dropWhile_cons, ha, if_true] at h ⊢
      exact ih h
    · simp only [List.cons_append, List.dropWhile_cons, ha, Bool.false_eq_true, if_false]

theorem a17q_takeWhile_append_all {p : Tok → Bool} {A B : List Tok} (h : ∀ t ∈ A, p t = true) :
    (A ++ B).takeWhile p = A ++ B.takeWhile p := by
  induction A with
  | nil => rfl
  | cons a A ih =>
    have ha := h a (by simp)
    simp only [List.cons_append, List.takeWhile_cons, ha, if_true]
    rw [ih (fun t ht => h t (by simp [ht]))]

/-- the trimming of the value tokens: trailing blanks and block comments removed (`rposition`) -/
def a17qTrim (vt : List Tok) : List Tok :=
  (vt.reverse.dropWhile (fun t => t.kind == .ws || t.kind == .blockComment)).reverse

/-- what may stand between the value and the unit word: blanks and block comments, in any order and
    number, at least one blank -/
def A17qFiller (F : List Tok) : Prop :=
  (∀ t ∈ F, t.kind = .ws ∨ t.kind = .blockComment) ∧ ∃ t ∈ F, t.kind = .ws

theorem a17qTrim_filler {X F : List Tok} (hF : A17qFiller F) : a17qTrim (X ++ F) = a17qTrim X := by
  unfold a17qTrim
  rw [List.reverse_append, a17q_dropWhile_append_all]
  intro t ht
  rcases hF.1 t (List.mem_reverse.mp ht) with h | h <;> simp [h]

/-- the token the repaired blank test looks at is a blank of the filler -/
theorem a17q_find_filler {X F : List Tok} (hF : A17qFiller F) :
    ∃ l, (X ++ F).reverse.find? (fun t => t.kind != .blockComment) = some l ∧ l.kind = .ws := by
  obtain ⟨w, hw, hwk⟩ := hF.2
  rw [List.reverse_append, List.find?_append]
  cases hf : F.reverse.find? (fun t => t.kind != .blockComment) with
  | none =>
    have := List.find?_eq_none.mp hf w (List.mem_reverse.mpr hw)
    simp [hwk] at this
  | some l =>
    refine ⟨l, rfl, ?_⟩
    have h1 := List.find?_some hf
    have h2 := List.mem_reverse.mp (List.mem_of_find?_eq_some hf)
    rcases hF.1 l h2 with h | h
    · exact h
    · simp [h] at h1

/-! ### the part of `parse_advanced_quantity` in front of the blank test, as list functions -/

/-- the scaling lock `scaling_lock` finds: the `=` after leading blanks -/
def a17qLock (r : List Tok) : Option Span :=
  match r.dropWhile (fun t => isWsComment t.kind) with
  | [] => none
  | t :: _ => if t.kind == .eq then some ⟨t.start, t.stop⟩ else none

/-- the unit tokens: from the first word after lock, blanks and value on -/
def a17qUnitToks (q : List Tok) : List Tok :=
  ((lockRest q).dropWhile (fun t => isWsComment t.kind)).dropWhile (fun t => t.kind != .word)

theorem a17q_scalingLock (s : BP α) :
    ∃ c, scalingLock s = (a17qLock s.rest, { s with cur := c }) ∧
      ({ s with cur := c } : BP α).rest = lockRest s.rest := by
  unfold scalingLock wsComments
  obtain ⟨c, h1, h2⟩ := consumeWhile_rest isWsComment s
  rw [P_bind_run, h1]
  simp only [P_bind_run]
  have ha : ∀ s' : BP α, atK .eq s' = ((s'.toks[s'.cur]?).map (·.kind) == some .eq, s') := fun _ => rfl
  rw [ha]
  unfold lockRest a17qLock
  rw [← h2]
  cases hr : ({ s with cur := c } : BP α).rest with
  | nil =>
    have : ({ s with cur := c } : BP α).toks[({ s with cur := c } : BP α).cur]? = none := by
      have := congrArg List.head? hr
      unfold BP.rest at this
      rw [List.head?_drop] at this
      simpa using this
    rw [this]
    exact ⟨c, rfl, hr⟩
  | cons t r =>
    obtain ⟨g1, g2⟩ := rest_cons_of hr
    rw [g1]
    by_cases hk : t.kind = .eq
    · have : ((some t).map (·.kind) == some TK.eq) = true := by simp [hk]
      simp only [this, if_true, hk, beq_self_eq_true]
      have hb : bumpAny ({ s with cur := c } : BP α) = (t, { s with cur := c + 1 }) := by
        unfold bumpAny
        rw [P_bind_run, nextToken_run, g1]
        rfl
      rw [P_bind_run, hb]
      exact ⟨c + 1, rfl, g2⟩
    · have : ((some t).map (·.kind) == some TK.eq) = false := by simp [hk]
      have hk' : (t.kind == TK.eq) = false := by simp [hk]
      simp only [this, Bool.false_eq_true, if_false, hk']
      exact ⟨c, rfl, hr⟩

/-- everything `parse_advanced_quantity` does from the blank test on -/
def a17qCont (all : List Tok) (lock : Option Span) (vt : List Tok) : P α (Option (ParsedQuantity α)) :=
  match vt.reverse.find? (fun t => t.kind != .blockComment) with
  | none => return none
  | some l => do
    if l.kind != .ws then return none
    let vt := (vt.reverse.dropWhile (fun t => t.kind == .ws || t.kind == .blockComment)).reverse
    if vt.isEmpty then panicWith "advanced quantity: rposition unwrap"
    let ut ← consumeRest
    if ut.isEmpty then return none
    let vspan := tokensSpan vt
    let rangeExt ← hasExt Gen.EXT_RANGE_VALUES
    match numOrRange (α := α) rangeExt vt with
    | none => return none
    | some r =>
      let v : Value α ← (match r with
        | .ok v => pure v
        | .error e => do pushEv (.error e); pure recoverValue)
      let unit ← bpText ((ut.head?.map (·.start)).getD 0) ut
      let sp ← tokensSpanP "quantity" all
      return some ⟨⟨⟨⟨⟨v, vspan⟩, lock⟩, some unit⟩, sp⟩, none⟩

/-- `parse_advanced_quantity` on a quantity without `%`: lock, value tokens and unit tokens are list
    functions of the tokens between the braces -/
theorem a17q_adv_prefix (s : BP α) (hc : s.cur = 0)
    (hp : s.toks.any (fun t => t.kind == .percent) = false) :
    ∃ c, parseAdvancedQuantity s = a17qCont s.toks (a17qLock s.toks) (advValueToks s.toks) ({ s with cur := c } : BP α) ∧
      ({ s with cur := c } : BP α).rest = a17qUnitToks s.toks := by
  unfold parseAdvancedQuantity
  rw [P_bind_run]
  have ha : allToks s = (s.toks, s) := rfl
  rw [ha]
  dsimp only
  simp only [hp, Bool.false_eq_true, if_false]
  have hr0 : s.rest = s.toks := by unfold BP.rest; rw [hc]; rfl
  obtain ⟨c1, e1, r1⟩ := a17q_scalingLock s
  rw [P_bind_run, e1]
  dsimp only
  unfold wsComments
  obtain ⟨c2, e2, r2⟩ := consumeWhile_rest isWsComment ({ s with cur := c1 } : BP α)
  rw [P_bind_run, e2]
  dsimp only
  obtain ⟨c3, e3, r3⟩ := consumeWhile_rest (fun k => k != .word) ({ s with cur := c2 } : BP α)
  rw [P_bind_run]
  have r2' : ({ s with cur := c2 } : BP α).rest = (lockRest s.toks).dropWhile (fun t => isWsComment t.kind) := by
    have : ({ s with cur := c2 } : BP α).rest =
        ({ s with cur := c1 } : BP α).rest.dropWhile (fun t => isWsComment t.kind) := r2
    rw [this, r1, hr0]
  have e3' : consumeWhile (fun k => k != .word) ({ s with cur := c2 } : BP α) =
      (advValueToks s.toks, { s with cur := c3 }) := by
    rw [e3]
    congr 1
    unfold advValueToks
    rw [r2']
  rw [e3']
  dsimp only
  rw [hr0]
  refine ⟨c3, rfl, ?_⟩
  have : ({ s with cur := c3 } : BP α).rest =
      ({ s with cur := c2 } : BP α).rest.dropWhile (fun t => (fun k => k != TK.word) t.kind) := r3
  rw [this, r2']
  rfl

/-! ### value, filler, unit: what the list functions give -/

theorem a17q_mem_lockRest {H : List Tok} {t : Tok} (h : t ∈ lockRest H) : t ∈ H := by
  unfold lockRest at h
  have hsub : ∀ x ∈ H.dropWhile (fun t => isWsComment t.kind), x ∈ H :=
    fun x hx => (List.dropWhile_sublist _).subset hx
  cases hd : H.dropWhile (fun t => isWsComment t.kind) with
  | nil => rw [hd] at h; cases h
  | cons a r =>
    rw [hd] at h hsub
    dsimp only at h
    split at h
    · exact hsub t (List.mem_cons_of_mem _ h)
    · exact hsub t h

/-- `H` = everything in front of the filler (optional lock, value; no word, not only lock and blanks),
    `F` the filler, `U` the unit tokens starting with a word: lock, value tokens and unit tokens of
    `H ++ F ++ U` -/
theorem a17q_decomp (H F U' : List Tok) (w : Tok) (hw : w.kind = .word)
    (hH : ∀ t ∈ H, t.kind ≠ .word) (hne : advValueToks H ≠ []) (hF : A17qFiller F) :
    a17qLock (H ++ (F ++ w :: U')) = a17qLock H ∧
    advValueToks (H ++ (F ++ w :: U')) = advValueToks H ++ F ∧
    a17qUnitToks (H ++ (F ++ w :: U')) = w :: U' := by
  have hDH : H.dropWhile (fun t => isWsComment t.kind) ≠ [] := by
    intro h
    apply hne
    unfold advValueToks lockRest
    rw [h]
    rfl
  have hD := a17q_dropWhile_append_ne (B := F ++ w :: U') hDH
  have hLR : lockRest (H ++ (F ++ w :: U')) = lockRest H ++ (F ++ w :: U') := by
    unfold lockRest
    rw [hD]
    cases hd : H.dropWhile (fun t => isWsComment t.kind) with
    | nil => exact absurd hd hDH
    | cons a r =>
      dsimp only [List.cons_append]
      split <;> rfl
  have hA : ∀ t ∈ (lockRest H).dropWhile (fun t => isWsComment t.kind), (t.kind != TK.word) = true := by
    intro t ht
    have := hH t (a17q_mem_lockRest ((List.dropWhile_sublist _).subset ht))
    simpa using this
  have hAV : advValueToks H = (lockRest H).dropWhile (fun t => isWsComment t.kind) := by
    unfold advValueToks
    have := a17q_takeWhile_append_all (B := []) hA
    simpa using this
  have hAne : (lockRest H).dropWhile (fun t => isWsComment t.kind) ≠ [] := by rw [← hAV]; exact hne
  have hFw : ∀ t ∈ F, (t.kind != TK.word) = true := by
    intro t ht
    rcases hF.1 t ht with h | h <;> simp [h]
  refine ⟨?_, ?_, ?_⟩
  · unfold a17qLock
    rw [hD]
    cases hd : H.dropWhile (fun t => isWsComment t.kind) with
    | nil => exact absurd hd hDH
    | cons a r => rfl
  · rw [hAV]
    unfold advValueToks
    rw [hLR, a17q_dropWhile_append_ne hAne, a17q_takeWhile_append_all hA, a17q_takeWhile_append_all hFw]
    simp [hw]
  · unfold a17qUnitToks
    rw [hLR, a17q_dropWhile_append_ne hAne, a17q_dropWhile_append_all hA, a17q_dropWhile_append_all hFw]
    simp [hw]

/-! ### the part after the blank test, in closed form -/

theorem a17q_panicWith_run (site : String) (s : BP α) : ∃ p, panicWith site s = ((), { s with panic := p }) := by
  unfold panicWith
  simp only [modify, modifyGet, MonadStateOf.modifyGet, StateT.modifyGet, pure, StateT.pure]
  split
  · exact ⟨_, rfl⟩
  · exact ⟨s.panic, rfl⟩

theorem a17q_bpText_run (o : Nat) (l : List Tok) (s : BP α) :
    ∃ p, bpText o l s = (buildText o l, { s with panic := p }) := by
  unfold bpText
  dsimp only
  split
  · obtain ⟨p, hp⟩ := a17q_panicWith_run "text: offset/order assertion" s
    exact ⟨p, by rw [P_bind_run, hp]; rfl⟩
  · exact ⟨s.panic, rfl⟩

theorem a17q_tokensSpanP_run (site : String) (l : List Tok) (s : BP α) :
    ∃ p, tokensSpanP site l s = (tokensSpan l, { s with panic := p }) := by
  unfold tokensSpanP
  split
  · obtain ⟨p, hp⟩ := a17q_panicWith_run (α := α) s!"tokens_span empty: {site}" s
    exact ⟨p, by rw [P_bind_run, hp]; rfl⟩
  · exact ⟨s.panic, rfl⟩

/-- result and pushed events of `parse_advanced_quantity` once the blank test has passed: a function of
    the lock, the trimmed value tokens `W`, the unit tokens `ut` and all tokens -/
def a17qOut (rangeExt : Bool) (lock : Option Span) (W ut all : List Tok) :
    Option (ParsedQuantity α) × List (Ev α) :=
  if ut.isEmpty then (none, []) else
  match numOrRange (α := α) rangeExt W with
  | none => (none, [])
  | some (.ok v) =>
    (some ⟨⟨⟨⟨⟨v, tokensSpan W⟩, lock⟩, some (buildText ((ut.head?.map (·.start)).getD 0) ut)⟩, tokensSpan all⟩, none⟩, [])
  | some (.error e) =>
    (some ⟨⟨⟨⟨⟨recoverValue, tokensSpan W⟩, lock⟩, some (buildText ((ut.head?.map (·.start)).getD 0) ut)⟩,
      tokensSpan all⟩, none⟩, [.error e])

/-- the part after the `rposition(..).unwrap()` -/
def a17qCont2 (all : List Tok) (lock : Option Span) (W : List Tok) : P α (Option (ParsedQuantity α)) := do
  let ut ← consumeRest
  if ut.isEmpty then return none
  let vspan := tokensSpan W
  let rangeExt ← hasExt Gen.EXT_RANGE_VALUES
  match numOrRange (α := α) rangeExt W with
  | none => return none
  | some r =>
    let v : Value α ← (match r with
      | .ok v => pure v
      | .error e => do pushEv (.error e); pure recoverValue)
    let unit ← bpText ((ut.head?.map (·.start)).getD 0) ut
    let sp ← tokensSpanP "quantity" all
    return some ⟨⟨⟨⟨⟨v, vspan⟩, lock⟩, some unit⟩, sp⟩, none⟩

theorem a17qCont2_out (all : List Tok) (lock : Option Span) (W : List Tok) (t : BP α) :
    (a17qCont2 all lock W t).1 = (a17qOut (α := α) (t.ext.has Gen.EXT_RANGE_VALUES) lock W t.rest all).1 ∧
    (a17qCont2 all lock W t).2.evs.toList =
      t.evs.toList ++ (a17qOut (α := α) (t.ext.has Gen.EXT_RANGE_VALUES) lock W t.rest all).2 ∧
    (a17qCont2 all lock W t).2.ext = t.ext ∧ (a17qCont2 all lock W t).2.cs = t.cs ∧
    (a17qCont2 all lock W t).2.toks = t.toks := by
  unfold a17qCont2
  rw [P_bind_run]
  have h2 : consumeRest t = (t.rest, ({ t with cur := t.cur + t.rest.length } : BP α)) := rfl
  rw [h2]
  dsimp only
  unfold a17qOut
  by_cases hu : t.rest.isEmpty = true
  · simp only [hu, if_true]
    exact ⟨rfl, by simp [pure, StateT.pure], rfl, rfl, rfl⟩
  · simp only [hu, Bool.false_eq_true, if_false]
    rw [P_bind_run]
    have hx : hasExt (α := α) Gen.EXT_RANGE_VALUES ({ t with cur := t.cur + t.rest.length } : BP α) =
        (t.ext.has Gen.EXT_RANGE_VALUES, ({ t with cur := t.cur + t.rest.length } : BP α)) := rfl
    rw [hx]
    dsimp only
    cases hn : numOrRange (α := α) (t.ext.has Gen.EXT_RANGE_VALUES) W with
    | none =>
      exact ⟨rfl, by simp [pure, StateT.pure], rfl, rfl, rfl⟩
    | some r =>
      cases r with
      | ok v =>
        dsimp only
        simp only [P_bind_run]
        obtain ⟨p2, hp2⟩ := a17q_bpText_run ((t.rest.head?.map (·.start)).getD 0) t.rest
          ((pure v : P α (Value α)) ({ t with cur := t.cur + t.rest.length } : BP α)).2
        rw [hp2]
        dsimp only
        obtain ⟨p3, hp3⟩ := a17q_tokensSpanP_run "quantity" all
          ({ ((pure v : P α (Value α)) ({ t with cur := t.cur + t.rest.length } : BP α)).2 with panic := p2 } : BP α)
        rw [hp3]
        exact ⟨rfl, by simp [pure, StateT.pure], rfl, rfl, rfl⟩
      | error e =>
        dsimp only
        simp only [P_bind_run]
        have hpe : pushEv (α := α) (.error e) ({ t with cur := t.cur + t.rest.length } : BP α) =
            ((), ({ t with cur := t.cur + t.rest.length, evs := t.evs.push (.error e) } : BP α)) := rfl
        rw [hpe]
        obtain ⟨p2, hp2⟩ := a17q_bpText_run ((t.rest.head?.map (·.start)).getD 0) t.rest
          ((pure recoverValue : P α (Value α))
            ({ t with cur := t.cur + t.rest.length, evs := t.evs.push (.error e) } : BP α)).2
        rw [hp2]
        dsimp only
        obtain ⟨p3, hp3⟩ := a17q_tokensSpanP_run "quantity" all
          ({ ((pure recoverValue : P α (Value α))
            ({ t with cur := t.cur + t.rest.length, evs := t.evs.push (.error e) } : BP α)).2 with panic := p2 } : BP α)
        rw [hp3]
        exact ⟨rfl, by simp [pure, StateT.pure], rfl, rfl, rfl⟩

theorem a17qCont_out (all : List Tok) (lock : Option Span) (X : List Tok) (t : BP α) (l : Tok)
    (hfind : X.reverse.find? (fun t => t.kind != .blockComment) = some l) (hl : l.kind = .ws) :
    (a17qCont all lock X t).1 = (a17qOut (α := α) (t.ext.has Gen.EXT_RANGE_VALUES) lock (a17qTrim X) t.rest all).1 ∧
    (a17qCont all lock X t).2.evs.toList =
      t.evs.toList ++ (a17qOut (α := α) (t.ext.has Gen.EXT_RANGE_VALUES) lock (a17qTrim X) t.rest all).2 ∧
    (a17qCont all lock X t).2.ext = t.ext ∧ (a17qCont all lock X t).2.cs = t.cs ∧
    (a17qCont all lock X t).2.toks = t.toks := by
  unfold a17qCont
  rw [hfind]
  have hk : (l.kind != TK.ws) = false := by simp [hl]
  simp only [hk, Bool.false_eq_true, if_false]
  split
  · rw [P_bind_run]
    obtain ⟨p, hp⟩ := a17q_panicWith_run "advanced quantity: rposition unwrap" t
    rw [hp]
    exact a17qCont2_out all lock (a17qTrim X) ({ t with panic := p } : BP α)
  · exact a17qCont2_out all lock (a17qTrim X) t

/-! ### `parse_quantity` on `H ++ F ++ U` -/

theorem a17q_inner (t : BP α) (hadv : t.ext.has Gen.EXT_ADVANCED_UNITS = true) (q : ParsedQuantity α)
    (h : (parseAdvancedQuantity t).1 = some q) :
    parseQuantityInner t = (q, (parseAdvancedQuantity t).2) := by
  unfold parseQuantityInner
  rw [P_bind_run, P_bind_run]
  have hx : hasExt (α := α) Gen.EXT_ADVANCED_UNITS t = (true, t) := by
    show (t.ext.has Gen.EXT_ADVANCED_UNITS, t) = _
    rw [hadv]
  rw [hx]
  simp only [if_true]
  rw [withRecover_run_ext, h]
  simp only [Option.isNone_some, Bool.false_eq_true, if_false]
  rw [h]
  rfl

/-- `parse_advanced_quantity` on `H ++ F ++ w :: U'` (optional lock and value `H`, filler `F`, unit tokens
    starting with the word `w`, no `%`) in closed form: its result and events are those of `a17qOut` -/
theorem a17q_adv_closed (s : BP α) (H F U' : List Tok) (w : Tok) (hw : w.kind = .word)
    (hH : ∀ t ∈ H, t.kind ≠ .word) (hne : advValueToks H ≠ []) (hF : A17qFiller F)
    (hp : ∀ t ∈ H ++ w :: U', t.kind ≠ .percent) :
    (parseAdvancedQuantity ({ s with toks := H ++ (F ++ w :: U'), cur := 0 } : BP α)).1 =
      (a17qOut (α := α) (s.ext.has Gen.EXT_RANGE_VALUES) (a17qLock H) (a17qTrim (advValueToks H)) (w :: U')
        (H ++ (F ++ w :: U'))).1 ∧
    (parseAdvancedQuantity ({ s with toks := H ++ (F ++ w :: U'), cur := 0 } : BP α)).2.evs.toList = s.evs.toList ++
      (a17qOut (α := α) (s.ext.has Gen.EXT_RANGE_VALUES) (a17qLock H) (a17qTrim (advValueToks H)) (w :: U')
        (H ++ (F ++ w :: U'))).2 ∧
    (parseAdvancedQuantity ({ s with toks := H ++ (F ++ w :: U'), cur := 0 } : BP α)).2.ext = s.ext ∧
    (parseAdvancedQuantity ({ s with toks := H ++ (F ++ w :: U'), cur := 0 } : BP α)).2.cs = s.cs ∧
    (parseAdvancedQuantity ({ s with toks := H ++ (F ++ w :: U'), cur := 0 } : BP α)).2.toks = H ++ (F ++ w :: U') := by
  generalize hq : H ++ (F ++ w :: U') = q at *
  have hpq : (q.any (fun t => t.kind == .percent)) = false := by
    rw [List.any_eq_false]
    intro t ht
    rw [← hq] at ht
    simp only [List.mem_append] at ht
    rcases ht with ht | ht | ht
    · simpa using hp t (List.mem_append.mpr (Or.inl ht))
    · rcases hF.1 t ht with h | h <;> simp [h]
    · simpa using hp t (List.mem_append.mpr (Or.inr ht))
  obtain ⟨c, hpre, hrest⟩ := a17q_adv_prefix ({ s with toks := q, cur := 0 } : BP α) rfl hpq
  obtain ⟨d1, d2, d3⟩ := a17q_decomp H F U' w hw hH hne hF
  rw [hq] at d1 d2 d3
  have hpre' : parseAdvancedQuantity ({ s with toks := q, cur := 0 } : BP α) =
      a17qCont q (a17qLock H) (advValueToks H ++ F) ({ s with toks := q, cur := c } : BP α) := by
    rw [hpre]
    show a17qCont q (a17qLock q) (advValueToks q) _ = _
    rw [d1, d2]
  have hrest' : ({ s with toks := q, cur := c } : BP α).rest = w :: U' := by
    have : ({ s with toks := q, cur := c } : BP α).rest = a17qUnitToks q := hrest
    rw [this, d3]
  obtain ⟨l, hfind, hl⟩ := a17q_find_filler (X := advValueToks H) hF
  obtain ⟨o1, o2, o3, o4, o5⟩ := a17qCont_out q (a17qLock H) (advValueToks H ++ F)
    ({ s with toks := q, cur := c } : BP α) l hfind hl
  rw [hrest', a17qTrim_filler hF] at o1 o2
  rw [hpre']
  exact ⟨o1, o2, o3, o4, o5⟩

/-- one side: `parse_quantity` on optional lock and value `H`, filler `F`, unit tokens `w :: U'`, under
    ADVANCED_UNITS, when the advanced reading goes through (`a17qOut … = some r`): result, pushed
    events and the untouched parts of the state -/
theorem a17q_side (s : BP α) (hadv : s.ext.has Gen.EXT_ADVANCED_UNITS = true)
    (H F U' : List Tok) (w : Tok) (hw : w.kind = .word)
    (hH : ∀ t ∈ H, t.kind ≠ .word) (hne : advValueToks H ≠ []) (hF : A17qFiller F)
    (hp : ∀ t ∈ H ++ w :: U', t.kind ≠ .percent) (r : ParsedQuantity α)
    (hr : (a17qOut (α := α) (s.ext.has Gen.EXT_RANGE_VALUES) (a17qLock H) (a17qTrim (advValueToks H)) (w :: U')
      (H ++ (F ++ w :: U'))).1 = some r) :
    (parseQuantity (H ++ (F ++ w :: U')) s).1 = r ∧
    (parseQuantity (H ++ (F ++ w :: U')) s).2.evs.toList = s.evs.toList ++
      (a17qOut (α := α) (s.ext.has Gen.EXT_RANGE_VALUES) (a17qLock H) (a17qTrim (advValueToks H)) (w :: U')
        (H ++ (F ++ w :: U'))).2 ∧
    (parseQuantity (H ++ (F ++ w :: U')) s).2.ext = s.ext ∧
    (parseQuantity (H ++ (F ++ w :: U')) s).2.cs = s.cs ∧
    (parseQuantity (H ++ (F ++ w :: U')) s).2.toks = s.toks ∧
    (parseQuantity (H ++ (F ++ w :: U')) s).2.cur = s.cur := by
  have hqne : (H ++ (F ++ w :: U')).isEmpty = false := by
    cases H <;> cases F <;> rfl
  obtain ⟨o1, o2, o3, o4, o5⟩ := a17q_adv_closed s H F U' w hw hH hne hF hp
  rw [parseQuantity_run]
  simp only [hqne, Bool.false_eq_true, if_false]
  have hs' : ((pure () : P α Unit) s).2 = s := rfl
  rw [hs']
  rw [a17q_inner ({ s with toks := H ++ (F ++ w :: U'), cur := 0 } : BP α) hadv r (by rw [o1]; exact hr)]
  exact ⟨rfl, o2, o3, o4, rfl, rfl⟩

theorem a17q_lrel_kinds {P : TK → Prop} {A B : List Tok} (h : LRel TokSim A B) (hA : ∀ t ∈ A, P t.kind) :
    ∀ t ∈ B, P t.kind := by
  induction h with
  | nil => intro t ht; cases ht
  | cons h1 _ ih =>
    intro t ht
    rcases List.mem_cons.mp ht with rfl | ht
    · rw [← h1.kind]; exact hA _ (by simp)
    · exact ih (fun x hx => hA x (by simp [hx])) t ht

/-- **F-C17-1 after the repair.** Under ADVANCED_UNITS, for a quantity `H F U` — `H` the optional lock and
    the value tokens (no word token, not only lock and blanks), `U` the unit tokens starting with a word,
    no `%`, the value reading as a number or range — whatever fillers `F₁`, `F₂` of blanks and block comments
    (at least one blank each, any order and number: `1 kg`, `1 [- c -]kg`, `1[- c -] kg`, `1 [- c -] kg`,
    `1 [- c -][- d -]  kg`) stand between value and unit, `parse_quantity` gives the same quantity up to spans:
    equal value WITH its span and lock, unit texts with the same content (`TextSim`; the unit tokens of the
    two sides may sit at different offsets and differ in comment texts: `LRel TokSim`), no unit separator, and
    the same events are pushed; extensions, character table, outer tokens and cursor are left alike.
    Not compared: the span of the whole quantity (it contains the filler) and the panic flag (never set on
    lexed tokens, C03). -/
theorem a17q_parseQuantity_filler (s : BP α) (hu : UwsNL s.cs)
    (hadv : s.ext.has Gen.EXT_ADVANCED_UNITS = true) (H F₁ F₂ U₁ U₂ : List Tok)
    (hH : ∀ t ∈ H, t.kind ≠ .word) (hne : advValueToks H ≠ [])
    (hF₁ : A17qFiller F₁) (hF₂ : A17qFiller F₂)
    (hU : LRel TokSim U₁ U₂) (hw : ∃ w r, U₁ = w :: r ∧ w.kind = .word)
    (hp : ∀ t ∈ H ++ U₁, t.kind ≠ .percent)
    (hnum : (numOrRange (α := α) (s.ext.has Gen.EXT_RANGE_VALUES) (a17qTrim (advValueToks H))).isSome = true) :
    ParsedQSim s.cs.uws (parseQuantity (H ++ (F₁ ++ U₁)) s).1 (parseQuantity (H ++ (F₂ ++ U₂)) s).1 ∧
    (parseQuantity (H ++ (F₁ ++ U₁)) s).1.quantity.val.value = (parseQuantity (H ++ (F₂ ++ U₂)) s).1.quantity.val.value ∧
    (parseQuantity (H ++ (F₁ ++ U₁)) s).1.quantity.val.unit.isSome = true ∧
    (parseQuantity (H ++ (F₁ ++ U₁)) s).1.unitSep = none ∧ (parseQuantity (H ++ (F₂ ++ U₂)) s).1.unitSep = none ∧
    (parseQuantity (H ++ (F₁ ++ U₁)) s).2.evs = (parseQuantity (H ++ (F₂ ++ U₂)) s).2.evs ∧
    (parseQuantity (H ++ (F₁ ++ U₁)) s).2.ext = (parseQuantity (H ++ (F₂ ++ U₂)) s).2.ext ∧
    (parseQuantity (H ++ (F₁ ++ U₁)) s).2.cs = (parseQuantity (H ++ (F₂ ++ U₂)) s).2.cs ∧
    (parseQuantity (H ++ (F₁ ++ U₁)) s).2.toks = (parseQuantity (H ++ (F₂ ++ U₂)) s).2.toks ∧
    (parseQuantity (H ++ (F₁ ++ U₁)) s).2.cur = (parseQuantity (H ++ (F₂ ++ U₂)) s).2.cur := by
  obtain ⟨w₁, R₁, rfl, hw₁⟩ := hw
  cases hU with
  | cons hww hRR =>
    rename_i w₂ R₂
    have hU' : LRel TokSim (w₁ :: R₁) (w₂ :: R₂) := .cons hww hRR
    have hw₂ : w₂.kind = .word := by rw [← hww.kind]; exact hw₁
    have hp₂ : ∀ t ∈ H ++ w₂ :: R₂, t.kind ≠ .percent := by
      intro t ht
      rcases List.mem_append.mp ht with ht | ht
      · exact hp t (List.mem_append.mpr (Or.inl ht))
      · exact a17q_lrel_kinds (P := fun k => k ≠ .percent) hU'
          (fun x hx => hp x (List.mem_append.mpr (Or.inr hx))) t ht
    cases hn : numOrRange (α := α) (s.ext.has Gen.EXT_RANGE_VALUES) (a17qTrim (advValueToks H)) with
    | none => rw [hn] at hnum; cases hnum
    | some r0 =>
      cases r0 with
      | ok v =>
        have e₁ := a17q_side s hadv H F₁ R₁ w₁ hw₁ hH hne hF₁ hp _ (by unfold a17qOut; simp only [hn]; rfl)
        have e₂ := a17q_side s hadv H F₂ R₂ w₂ hw₂ hH hne hF₂ hp₂ _ (by unfold a17qOut; simp only [hn]; rfl)
        obtain ⟨a1, a2, a3, a4, a5, a6⟩ := e₁
        obtain ⟨b1, b2, b3, b4, b5, b6⟩ := e₂
        rw [a1, b1]
        refine ⟨⟨⟨rfl, rfl⟩, OptRel.some_some (buildText_sim hu hU' _ _)⟩, rfl, rfl, rfl, rfl, ?_, ?_, ?_, ?_, ?_⟩
        · apply Array.toList_inj.mp
          rw [a2, b2]
          unfold a17qOut
          simp only [hn]
          rfl
        · rw [a3, b3]
        · rw [a4, b4]
        · rw [a5, b5]
        · rw [a6, b6]
      | error e =>
        have e₁ := a17q_side s hadv H F₁ R₁ w₁ hw₁ hH hne hF₁ hp _ (by unfold a17qOut; simp only [hn]; rfl)
        have e₂ := a17q_side s hadv H F₂ R₂ w₂ hw₂ hH hne hF₂ hp₂ _ (by unfold a17qOut; simp only [hn]; rfl)
        obtain ⟨a1, a2, a3, a4, a5, a6⟩ := e₁
        obtain ⟨b1, b2, b3, b4, b5, b6⟩ := e₂
        rw [a1, b1]
        refine ⟨⟨⟨rfl, rfl⟩, OptRel.some_some (buildText_sim hu hU' _ _)⟩, rfl, rfl, rfl, rfl, ?_, ?_, ?_, ?_, ?_⟩
        · apply Array.toList_inj.mp
          rw [a2, b2]
          unfold a17qOut
          simp only [hn]
          rfl
        · rw [a3, b3]
        · rw [a4, b4]
        · rw [a5, b5]
        · rw [a6, b6]

/-! ### the minimal input of the defect: `1 kg` and `1 [- c -]kg` as tokens -/

/-- the tokens of `1 kg` -/
def a17qPlain : List Tok := [⟨.int, ['1'], 0⟩, ⟨.ws, [' '], 1⟩, ⟨.word, ['k', 'g'], 2⟩]
/-- the tokens of `1 [- c -]kg` -/
def a17qGlued : List Tok :=
  [⟨.int, ['1'], 0⟩, ⟨.ws, [' '], 1⟩, ⟨.blockComment, ['[', '-', ' ', 'c', ' ', '-', ']'], 2⟩, ⟨.word, ['k', 'g'], 9⟩]

/-- **F-C17-1 before the repair**: the old `parse_advanced_quantity` declines `1 [- c -]kg` (the last value token
    is the block comment, not the blank), whatever the extensions and the character table, … -/
theorem a17q_orig_declines_glued (e : Ext) (cs : CharSpec) (evs : Array (Ev α)) :
    (parseAdvancedQuantityOrig (α := α) ⟨a17qGlued, 0, e, cs, evs, none⟩).1 = none := rfl

theorem a17q_num_one (b : Bool) : (numOrRange (α := α) b [⟨.int, ['1'], 0⟩]).isSome = true := by
  cases b <;> rfl

/-- … while the repaired function reads it (and `1 kg`) as a quantity with a unit, whatever the extensions
    and the character table -/
theorem a17q_new_accepts (e : Ext) (cs : CharSpec) (evs : Array (Ev α)) :
    (parseAdvancedQuantity (α := α) ⟨a17qGlued, 0, e, cs, evs, none⟩).1.isSome = true ∧
    (parseAdvancedQuantity (α := α) ⟨a17qPlain, 0, e, cs, evs, none⟩).1.isSome = true := by
  have hF1 : A17qFiller [(⟨.ws, [' '], 1⟩ : Tok), ⟨.blockComment, ['[', '-', ' ', 'c', ' ', '-', ']'], 2⟩] :=
    ⟨by intro t ht; simp only [List.mem_cons, List.not_mem_nil, or_false] at ht; rcases ht with rfl | rfl <;> simp,
     ⟨⟨.ws, [' '], 1⟩, by simp, rfl⟩⟩
  have hF2 : A17qFiller [(⟨.ws, [' '], 1⟩ : Tok)] :=
    ⟨by intro t ht; simp only [List.mem_cons, List.not_mem_nil, or_false] at ht; subst ht; simp, ⟨⟨.ws, [' '], 1⟩, by simp, rfl⟩⟩
  have hv : a17qTrim (advValueToks [(⟨.int, ['1'], 0⟩ : Tok)]) = [⟨.int, ['1'], 0⟩] := by decide
  have c1 : (parseAdvancedQuantity (α := α) ⟨a17qGlued, 0, e, cs, evs, none⟩).1 =
      (a17qOut (α := α) (e.has Gen.EXT_RANGE_VALUES) (a17qLock [(⟨.int, ['1'], 0⟩ : Tok)])
        (a17qTrim (advValueToks [(⟨.int, ['1'], 0⟩ : Tok)])) [⟨.word, ['k', 'g'], 9⟩] a17qGlued).1 :=
    (a17q_adv_closed (α := α) ⟨[], 0, e, cs, evs, none⟩ [⟨.int, ['1'], 0⟩]
      [⟨.ws, [' '], 1⟩, ⟨.blockComment, ['[', '-', ' ', 'c', ' ', '-', ']'], 2⟩] [] ⟨.word, ['k', 'g'], 9⟩ rfl
      (by decide) (by decide) hF1 (by decide)).1
  have c2 : (parseAdvancedQuantity (α := α) ⟨a17qPlain, 0, e, cs, evs, none⟩).1 =
      (a17qOut (α := α) (e.has Gen.EXT_RANGE_VALUES) (a17qLock [(⟨.int, ['1'], 0⟩ : Tok)])
        (a17qTrim (advValueToks [(⟨.int, ['1'], 0⟩ : Tok)])) [⟨.word, ['k', 'g'], 2⟩] a17qPlain).1 :=
    (a17q_adv_closed (α := α) ⟨[], 0, e, cs, evs, none⟩ [⟨.int, ['1'], 0⟩]
      [⟨.ws, [' '], 1⟩] [] ⟨.word, ['k', 'g'], 2⟩ rfl
      (by decide) (by decide) hF2 (by decide)).1
  have hn := a17q_num_one (α := α) (e.has Gen.EXT_RANGE_VALUES)
  constructor
  · rw [c1, hv]
    unfold a17qOut
    cases hn' : numOrRange (α := α) (e.has Gen.EXT_RANGE_VALUES) [⟨.int, ['1'], 0⟩] with
    | none => rw [hn'] at hn; cases hn
    | some r => cases r <;> rfl
  · rw [c2, hv]
    unfold a17qOut
    cases hn' : numOrRange (α := α) (e.has Gen.EXT_RANGE_VALUES) [⟨.int, ['1'], 0⟩] with
    | none => rw [hn'] at hn; cases hn
    | some r => cases r <;> rfl

end Cook
