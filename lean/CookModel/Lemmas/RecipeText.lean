import CookModel.Lemmas.ClosingStream
import CookModel.Lemmas.CloseC03
import CookModel.Lemmas.CollectorTrans
import CookModel.Lemmas.CoverInput
/-
  C05 through the analysis (partial): the text of every `Text` event reaches the returned recipe — as a
  `Text` item of a step, or inside the text of a text block — unless it was analysed in define mode
  `components` (then it is dropped WITH the warning `text-in-components-mode`, when it has a letter or
  digit).  Fold invariant over `parseEventsLoop`, on top of the bracketing automaton of
  `Lemmas/ClosingFold.lean` and the `Trans` description of `Lemmas/CollectorTrans.lean`.
  Not covered: the INLINE_QUANTITIES extension (a step text is split at the inline quantities).
-/
set_option linter.unusedSectionVars false
set_option linter.unusedSimpArgs false
set_option linter.unusedVariables false
namespace Cook
variable {α : Type} [Arith α]

/-- the content item holds the text `τ`: a step has the item `Text τ`; a text block contains `τ` -/
def ContentHas (τ : Str) : Content → Prop
  | .step st => Item.text τ ∈ st.items
  | .text buf => τ <:+: buf

/-- some content item of some of the sections holds `τ` -/
def SecsHave (τ : Str) (secs : List Section) : Prop := ∃ sec ∈ secs, ∃ ct ∈ sec.content, ContentHas τ ct

/-- the open block of the collector holds `τ` (and will be pushed when it ends) -/
def BlockHas (τ : Str) (s : Col α) : Prop :=
  (∃ items, s.block = some (.step items) ∧ Item.text τ ∈ items ∧ s.defineMode ≠ .components) ∨
  (∃ buf, s.block = some (.text buf) ∧ τ <:+: buf ∧ τ ≠ [])

/-- `τ` is in the finished sections, in the current section or in the open block -/
def TextKept (τ : Str) (s : Col α) : Prop := SecsHave τ (s.sections ++ [s.cur]) ∨ BlockHas τ s

/-- the collector state after the events `pre` (none of which is an error) -/
def collectorAfter (env : Env) (input : Str) (pre : List (Ev α)) (s : Col α) : Col α :=
  pre.foldl (fun s ev => (processEvent env input ev s).2) s

variable {τ : Str}

theorem rt_secs_push {secs : List Section} {cur : Section} (h : SecsHave τ (secs ++ [cur])) :
    SecsHave τ (if (!cur.isEmpty) = true then secs ++ [cur] else secs) := by
  obtain ⟨sec, hm, ct, hct, hh⟩ := h
  simp only [List.mem_append, List.mem_singleton] at hm
  rcases hm with hm | rfl
  · refine ⟨sec, ?_, ct, hct, hh⟩
    split
    · simp [hm]
    · exact hm
  · have hne : sec.isEmpty = false := by
      unfold Section.isEmpty
      cases hc : sec.content with
      | nil => rw [hc] at hct; cases hct
      | cons _ _ => simp
    refine ⟨sec, ?_, ct, hct, hh⟩
    rw [hne]; simp

/-- what is in the sections stays there, whatever the event -/
theorem rt_secs_mono {env : Env} {ev : Ev α} {s s' : Col α} (h : Trans env ev s s')
    (hk : SecsHave τ (s.sections ++ [s.cur])) : SecsHave τ (s'.sections ++ [s'.cur]) := by
  cases h with
  | keep hsec hcur => rw [hsec, hcur]; exact hk
  | newSection name _ hsec hcur =>
    obtain ⟨sec, hm, ct, hct, hh⟩ := rt_secs_push hk
    rw [hsec]
    exact ⟨sec, List.mem_append_left _ hm, ct, hct, hh⟩
  | pushBlock c hsec hcur =>
    obtain ⟨sec, hm, ct, hct, hh⟩ := hk
    rw [hsec, hcur]
    simp only [List.mem_append, List.mem_singleton] at hm
    rcases hm with hm | rfl
    · exact ⟨sec, List.mem_append_left _ hm, ct, hct, hh⟩
    · exact ⟨_, List.mem_append_right _ (List.mem_singleton.2 rfl), ct, List.mem_append_left _ hct, hh⟩
  | ingr ings igr hsec hcur => rw [hsec, hcur]; exact hk
  | cw cws cwn hsec hcur => rw [hsec, hcur]; exact hk

/-! ### the open block -/

theorem rt_endBlock_step (k : BlockKind) (s : Col α) (items : List Item) (hb : s.block = some (.step items))
    (hne : items ≠ []) (hm : s.defineMode ≠ .components) :
    (endBlock k s).2.sections = s.sections ∧
    (endBlock k s).2.cur.content = s.cur.content ++ [Content.step ⟨items, s.stepCounter⟩] := by
  unfold endBlock
  simp +instances only [A_bind, A_modify]
  obtain ⟨d, p, h⟩ := (endBlockContent_diagOnly k).out s
  have hv := endBlockContent_val k s
  rw [hv, hb]
  simp only []
  unfold pushContent
  have hc1 : (s.defineMode != DefineMode.components) = true := by
    cases hd : s.defineMode <;> simp_all
  have hc2 : (Content.step ⟨items, s.stepCounter⟩).isEmptyContent = false := by
    cases items with
    | nil => exact absurd rfl hne
    | cons _ _ => rfl
  simp +instances only [A_bind, A_get, A_ite, A_modify, A_pure, h, hc1, hc2, Bool.true_or, Bool.not_false,
    Bool.and_self, if_true]
  refine ⟨?_, ?_⟩ <;> first | trivial | rfl

theorem rt_endBlock_text (k : BlockKind) (s : Col α) (buf : Str) (hb : s.block = some (.text buf))
    (hne : buf ≠ []) :
    (endBlock k s).2.sections = s.sections ∧
    (endBlock k s).2.cur.content = s.cur.content ++ [Content.text buf] := by
  unfold endBlock
  simp +instances only [A_bind, A_modify]
  obtain ⟨d, p, h⟩ := (endBlockContent_diagOnly k).out s
  have hv := endBlockContent_val k s
  rw [hv, hb]
  simp only []
  unfold pushContent
  have hc2 : (Content.text buf).isEmptyContent = false := by
    cases buf with
    | nil => exact absurd rfl hne
    | cons _ _ => rfl
  simp +instances only [A_bind, A_get, A_ite, A_modify, A_pure, h, hc2, Content.isStep, Bool.not_false,
    Bool.or_true, Bool.and_self, if_true]
  refine ⟨?_, ?_⟩ <;> first | trivial | rfl

theorem rt_infix_ne {τ buf : Str} (h : τ <:+: buf) (hne : τ ≠ []) : buf ≠ [] := by
  rintro rfl
  obtain ⟨a, b, hab⟩ := h
  simp at hab
  exact hne hab.2.1

/-- the `End` event pushes the open block that holds `τ` -/
theorem rt_stop (k : BlockKind) (s : Col α) (hk : BlockHas τ s) :
    SecsHave τ ((endBlock k s).2.sections ++ [(endBlock k s).2.cur]) := by
  rcases hk with ⟨items, h1, h2, h3⟩ | ⟨buf, h1, h2, h3⟩
  · obtain ⟨e1, e2⟩ := rt_endBlock_step k s items h1 (List.ne_nil_of_mem h2) h3
    exact ⟨(endBlock k s).2.cur, by simp, Content.step ⟨items, s.stepCounter⟩, by rw [e2]; simp, h2⟩
  · obtain ⟨e1, e2⟩ := rt_endBlock_text k s buf h1 (rt_infix_ne h2 h3)
    exact ⟨(endBlock k s).2.cur, by simp, Content.text buf, by rw [e2]; simp, h2⟩

/-- a `Text` event adds its text to the open block -/
theorem rt_text_block (env : Env) (t : Text) (s : Col α) (hiq : env.ext.has Gen.EXT_INLINE_QUANTITIES = false) :
    (inStepText env t s).2.defineMode = s.defineMode ∧
    (∀ items, s.block = some (.step items) → s.defineMode ≠ .components →
      (inStepText env t s).2.block = some (.step (items ++ [Item.text t.text]))) ∧
    (∀ buf, s.block = some (.text buf) → (inStepText env t s).2.block = some (.text (buf ++ t.text))) := by
  have e := (inStepText_pres env t).out s
  simp only [Prod.mk.injEq] at e
  refine ⟨e.2, ?_, ?_⟩
  · intro items hb hm
    unfold inStepText
    simp +instances only [A_bind, A_get, hb]
    unfold inStepTextStep
    have hc1 : (s.defineMode == DefineMode.components) = false := by
      cases hd : s.defineMode <;> simp_all
    simp +instances only [A_bind, A_get, A_ite, A_modify, A_pure, hc1, hiq, Bool.false_eq_true, if_false]
  · intro buf hb
    unfold inStepText
    simp +instances only [A_bind, A_get, hb, A_modify]

theorem rt_text_keeps (env : Env) (t : Text) (s : Col α) (hiq : env.ext.has Gen.EXT_INLINE_QUANTITIES = false)
    (hk : BlockHas τ s) : BlockHas τ (inStepText env t s).2 := by
  obtain ⟨hm, hs, ht⟩ := rt_text_block env t s hiq
  rcases hk with ⟨items, h1, h2, h3⟩ | ⟨buf, h1, h2, h3⟩
  · exact Or.inl ⟨_, hs items h1 h3, by simp [h2], by rw [hm]; exact h3⟩
  · refine Or.inr ⟨_, ht buf h1, ?_, h3⟩
    obtain ⟨a, b, hab⟩ := h2
    exact ⟨a, b ++ t.text, by rw [← hab]; simp⟩

/-- the `Text` event's own text enters the open block -/
theorem rt_text_enters (env : Env) (t : Text) (s : Col α) (k : BlockKind)
    (hiq : env.ext.has Gen.EXT_INLINE_QUANTITIES = false) (hb : BlockRel s (some k))
    (hm : s.defineMode ≠ .components) (hne : t.text ≠ []) : BlockHas t.text (inStepText env t s).2 := by
  obtain ⟨hmode, hs, ht⟩ := rt_text_block env t s hiq
  rcases hb with ⟨items, h1, -⟩ | ⟨buf, h1, -⟩
  · exact Or.inl ⟨_, hs items h1 hm, by simp, by rw [hmode]; exact hm⟩
  · exact Or.inr ⟨_, ht buf h1, ⟨buf, [], by simp⟩, hne⟩

/-- `m` leaves the open block alone or replaces it by the text buffer `buf ++ sl` for some `sl` -/
structure BlkOK (buf : Str) {β : Type} (m : A α β) : Prop where
  out : ∀ s, (m s).2.block = s.block ∨ ∃ sl, (m s).2.block = some (.text (buf ++ sl))

namespace BlkOK
variable {buf : Str} {β δ : Type}
theorem pure (a : β) : BlkOK (α := α) buf (Pure.pure a : A α β) := ⟨fun _ => Or.inl rfl⟩
theorem get : BlkOK (α := α) buf (MonadState.get : A α (Col α)) := ⟨fun _ => Or.inl rfl⟩
theorem bind {m : A α β} {k : β → A α δ} (hm : BlkOK buf m) (hk : ∀ a, BlkOK buf (k a)) : BlkOK buf (m >>= k) := by
  constructor
  intro s
  show (k (m s).1 (m s).2).2.block = s.block ∨ _
  rcases hm.out s with h1 | ⟨sl, h1⟩ <;> rcases (hk (m s).1).out (m s).2 with h2 | ⟨sl', h2⟩
  · exact Or.inl (h2.trans h1)
  · exact Or.inr ⟨sl', h2⟩
  · exact Or.inr ⟨sl, h2.trans h1⟩
  · exact Or.inr ⟨sl', h2⟩
theorem keep (g : Col α → Col α) (h : ∀ s, (g s).block = s.block) : BlkOK buf (_root_.modify g : A α PUnit) :=
  ⟨fun s => Or.inl (h s)⟩
theorem app (sl : Str) : BlkOK (α := α) buf
    (_root_.modify (fun s : Col α => { s with block := some (.text (buf ++ sl)) }) : A α PUnit) :=
  ⟨fun _ => Or.inr ⟨sl, rfl⟩⟩
theorem apanic (site : String) : BlkOK (α := α) buf (Cook.apanic site) := by
  unfold Cook.apanic
  exact keep _ (fun s => by split <;> rfl)
theorem awarn (k : String) (l : List Span) : BlkOK (α := α) buf (Cook.awarn k l) := by
  unfold Cook.awarn
  exact keep _ (fun _ => rfl)
end BlkOK

/-- a component in a text buffer (define mode `text`): its source text is appended, or nothing changes -/
theorem inTextComponent_blkOK (input : Str) (ev : Ev α) (buf : Str) : BlkOK buf (inTextComponent input ev buf) := by
  unfold inTextComponent
  repeat' (first
    | intro _
    | with_reducible exact BlkOK.pure _
    | with_reducible exact BlkOK.get
    | with_reducible exact BlkOK.apanic _
    | with_reducible exact BlkOK.awarn _ _
    | with_reducible exact BlkOK.app _
    | with_reducible apply BlkOK.bind
    | split
    | dsimp only)

theorem rt_inTextComponent_block (input : Str) (ev : Ev α) (buf : Str) (s : Col α) :
    (inTextComponent input ev buf s).2.defineMode = s.defineMode ∧
    ((inTextComponent input ev buf s).2.block = s.block ∨
      ∃ sl, (inTextComponent input ev buf s).2.block = some (.text (buf ++ sl))) := by
  have e := (inTextComponent_pres input ev buf).out s
  simp only [Prod.mk.injEq] at e
  exact ⟨e.2, (inTextComponent_blkOK input ev buf).out s⟩

/-- a component keeps what the open block holds -/
theorem rt_component_keeps (env : Env) (input : Str) (ev : Ev α) (s : Col α) (hnp : NP env s)
    (hev : EvOK' ev) (hcomp : (∃ i, ev = .ingredient i) ∨ (∃ c, ev = .cookware c) ∨ (∃ t, ev = .timer t))
    (hk : BlockHas τ s) : BlockHas τ (inBlockComponent env input ev s).2 := by
  unfold inBlockComponent
  simp +instances only [A_bind, A_get]
  rcases hk with ⟨items, h1, h2, h3⟩ | ⟨buf, h1, h2, h3⟩
  · rw [h1]
    simp only []
    unfold inStepComponent
    rcases hcomp with ⟨li, rfl⟩ | ⟨lc, rfl⟩ | ⟨lt, rfl⟩
    · simp only [A_bind]
      obtain ⟨dg, p, ings, igr, e1, -, -⟩ := ingredientA_spec env input li s hnp.inv.locI hnp.inv.itab.nonREF_def hev.1
      have hblk : (ingredientA env input li s).2.block = s.block := by rw [e1]
      rw [pushItem_step' _ items s (ingredientA env input li s).2 hblk h1, e1]
      exact Or.inl ⟨_, rfl, by simp [h2], h3⟩
    · simp only [A_bind]
      obtain ⟨dg, p, cws, cw, e1, -, -⟩ := cookwareA_spec env input lc s hnp.inv.locC hnp.inv.ctab.nonREF_def
      have hblk : (cookwareA env input lc s).2.block = s.block := by rw [e1]
      rw [pushItem_step' _ items s (cookwareA env input lc s).2 hblk h1, e1]
      exact Or.inl ⟨_, rfl, by simp [h2], h3⟩
    · simp only [A_bind]
      obtain ⟨dg, p, tm, e1, -, -⟩ := timerA_spec env lt s
      have hblk : (timerA env lt s).2.block = s.block := by rw [e1]
      rw [pushItem_step' _ items s (timerA env lt s).2 hblk h1, e1]
      exact Or.inl ⟨_, rfl, by simp [h2], h3⟩
  · rw [h1]
    simp only []
    obtain ⟨hm, hblk⟩ := rt_inTextComponent_block input ev buf s
    refine Or.inr ?_
    rcases hblk with hblk | ⟨sl, hblk⟩
    · exact ⟨buf, hblk.trans h1, h2, h3⟩
    · refine ⟨_, hblk, ?_, h3⟩
      obtain ⟨a, b, hab⟩ := h2
      exact ⟨a, b ++ sl, by rw [← hab]; simp⟩

/-! ### the fold -/

theorem rt_blockHas_frame {s s' : Col α} (hb : s'.block = s.block) (hm : s'.defineMode = s.defineMode)
    (hk : BlockHas τ s) : BlockHas τ s' := by
  rcases hk with ⟨items, h1, h2, h3⟩ | ⟨buf, h1, h2, h3⟩
  · exact Or.inl ⟨items, hb.trans h1, h2, by rw [hm]; exact h3⟩
  · exact Or.inr ⟨buf, hb.trans h1, h2, h3⟩

/-- one event keeps what is kept -/
theorem rt_event_kept (env : Env) (input : Str) (ev : Ev α) (s : Col α) (o o' : Option BlockKind)
    (hnp : NP env s) (hb : BlockRel s o) (hw : wbStep o ev = some o') (hev : EvOK' ev)
    (hiq : env.ext.has Gen.EXT_INLINE_QUANTITIES = false) (hk : TextKept τ s) :
    TextKept τ (processEvent env input ev s).2 := by
  rcases hk with hsec | hblk
  · exact Or.inl (rt_secs_mono (processEvent_trans env input ev s hnp.inv hev.evOK) hsec)
  · have noblk : s.block = none → False := by
      intro h0
      rcases hblk with ⟨items, h1, -⟩ | ⟨buf, h1, -⟩ <;> rw [h0] at h1 <;> cases h1
    cases ev with
    | frontMatter t =>
      simp only [processEvent, A_modify]
      exact Or.inr (rt_blockHas_frame rfl rfl hblk)
    | warning d =>
      simp only [processEvent, A_modify]
      exact Or.inr (rt_blockHas_frame rfl rfl hblk)
    | error d =>
      simp only [processEvent, A_pure]
      exact Or.inr hblk
    | «section» name =>
      simp only [processEvent, A_modify]
      exact Or.inr (rt_blockHas_frame rfl rfl hblk)
    | metadata k v =>
      exfalso
      simp only [wbStep] at hw
      split at hw
      · rename_i ho; subst ho; exact noblk hb
      · cases hw
    | start kind =>
      exfalso
      simp only [wbStep] at hw
      split at hw
      · rename_i ho; subst ho; exact noblk hb
      · cases hw
    | stop kind =>
      simp only [processEvent]
      exact Or.inl (rt_stop kind s hblk)
    | text t =>
      simp only [processEvent]
      exact Or.inr (rt_text_keeps env t s hiq hblk)
    | ingredient i =>
      simp only [processEvent]
      exact Or.inr (rt_component_keeps env input _ s hnp hev (Or.inl ⟨i, rfl⟩) hblk)
    | cookware c =>
      simp only [processEvent]
      exact Or.inr (rt_component_keeps env input _ s hnp hev (Or.inr (Or.inl ⟨c, rfl⟩)) hblk)
    | timer t =>
      simp only [processEvent]
      exact Or.inr (rt_component_keeps env input _ s hnp hev (Or.inr (Or.inr ⟨t, rfl⟩)) hblk)

theorem rt_final_sections (env : Env) (input : Str) (s c : Col α)
    (hout : (parseEventsLoop env input ([] : List (Ev α)) s).output = some c) :
    c.sections = if (!s.cur.isEmpty) = true then s.sections ++ [s.cur] else s.sections := by
  unfold parseEventsLoop at hout
  simp only [Option.some.injEq] at hout
  rw [← hout]
  split <;> split <;> simp_all

/-- what is kept when the remaining events `evs` start (and the stream ends outside a block) is in the
    sections of the recipe -/
theorem rt_fold_kept (env : Env) (input : Str) (hiq : env.ext.has Gen.EXT_INLINE_QUANTITIES = false)
    (evs : List (Ev α)) (s : Col α) (o : Option BlockKind) (hnp : NP env s) (hb : BlockRel s o)
    (hw : WBFrom o (evs ++ [Ev.start .step])) (hev : ∀ ev ∈ evs, EvOK' ev) (hsp : SpansOK input evs)
    (c : Col α) (hout : (parseEventsLoop env input evs s).output = some c) (hk : TextKept τ s) :
    SecsHave τ c.sections := by
  induction evs generalizing s o with
  | nil =>
    obtain ⟨o', hw1, -⟩ := hw
    have ho : o = none := by
      simp only [wbStep] at hw1
      split at hw1
      · assumption
      · cases hw1
    subst ho
    have hbn : s.block = none := hb
    rcases hk with hsec | hblk
    · rw [rt_final_sections env input s c hout]
      exact rt_secs_push hsec
    · exfalso
      rcases hblk with ⟨items, h1, -⟩ | ⟨buf, h1, -⟩ <;> rw [hbn] at h1 <;> cases h1
  | cons ev rest ih =>
    by_cases he : ∃ d0, ev = .error d0
    · obtain ⟨d0, rfl⟩ := he
      simp only [parseEventsLoop] at hout
      cases hout
    · rw [parseEventsLoop_cons_nonerror env input ev rest s he] at hout
      obtain ⟨o', hw1, hw2⟩ := hw
      obtain ⟨hnp', hb'⟩ := processEvent_np env input ev s o o' hnp hb hw1 (hev ev List.mem_cons_self)
        (hsp ev List.mem_cons_self)
      exact ih _ o' hnp' hb' hw2 (fun e he' => hev e (List.mem_cons_of_mem _ he'))
        (fun e he' => hsp e (List.mem_cons_of_mem _ he')) hout
        (rt_event_kept env input ev s o o' hnp hb hw1 (hev ev List.mem_cons_self) hiq hk)

/-- the text of the `Text` event after `pre` is in the sections of the recipe -/
theorem rt_fold_text (env : Env) (input : Str) (hiq : env.ext.has Gen.EXT_INLINE_QUANTITIES = false)
    (pre : List (Ev α)) (t : Text) (post : List (Ev α)) (s : Col α) (o : Option BlockKind) (hnp : NP env s)
    (hb : BlockRel s o) (hw : WBFrom o ((pre ++ Ev.text t :: post) ++ [Ev.start .step]))
    (hev : ∀ ev ∈ pre ++ Ev.text t :: post, EvOK' ev) (hsp : SpansOK input (pre ++ Ev.text t :: post))
    (c : Col α) (hout : (parseEventsLoop env input (pre ++ Ev.text t :: post) s).output = some c)
    (hm : (collectorAfter env input pre s).defineMode ≠ .components) (hne : t.text ≠ []) :
    SecsHave t.text c.sections := by
  induction pre generalizing s o with
  | nil =>
    simp only [List.nil_append] at hw hev hsp hout
    rw [parseEventsLoop_cons_nonerror env input _ post s (by rintro ⟨d, hd⟩; cases hd)] at hout
    obtain ⟨o', hw1, hw2⟩ := hw
    obtain ⟨hnp', hb'⟩ := processEvent_np env input _ s o o' hnp hb hw1 (hev _ List.mem_cons_self)
      (hsp _ List.mem_cons_self)
    have hok : ∃ k, o = some k := by
      cases o with
      | none => simp [wbStep] at hw1
      | some k => exact ⟨k, rfl⟩
    obtain ⟨k, rfl⟩ := hok
    have hk : TextKept t.text (processEvent env input (.text t) s).2 := by
      simp only [processEvent]
      exact Or.inr (rt_text_enters env t s k hiq hb hm hne)
    exact rt_fold_kept env input hiq post _ o' hnp' hb' hw2 (fun e he' => hev e (List.mem_cons_of_mem _ he'))
      (fun e he' => hsp e (List.mem_cons_of_mem _ he')) c hout hk
  | cons ev pre ih =>
    simp only [List.cons_append] at hw hev hsp hout
    by_cases he : ∃ d0, ev = .error d0
    · obtain ⟨d0, rfl⟩ := he
      simp only [parseEventsLoop] at hout
      cases hout
    · rw [parseEventsLoop_cons_nonerror env input ev _ s he] at hout
      obtain ⟨o', hw1, hw2⟩ := hw
      obtain ⟨hnp', hb'⟩ := processEvent_np env input ev s o o' hnp hb hw1 (hev ev List.mem_cons_self)
        (hsp ev List.mem_cons_self)
      exact ih _ o' hnp' hb' hw2 (fun e he' => hev e (List.mem_cons_of_mem _ he'))
        (fun e he' => hsp e (List.mem_cons_of_mem _ he')) hout hm

/-- the pull parser's stream ends outside every block: a `Start` event could follow -/
theorem pullEvents_closedStart (cs : CharSpec) (ext : Ext) (input : List Char) :
    WBFrom none ((pullEvents (α := α) cs ext input).1.toList ++ [Ev.start .step]) := by
  unfold pullEvents
  split
  rename_i toks evs0 oldStyle heq
  obtain ⟨l, h1, c⟩ := closing_foldl_runBlock_closed (α := α) cs ext oldStyle
    (allBlocks (toks.length + 1) toks) (evs0, none)
  rw [h1]
  have hc := c [Ev.start .step] ⟨some .step, rfl, trivial⟩
  split at heq
  · simp only [Prod.mk.injEq] at heq
    rw [← heq.2.1]
    simp only [Array.toList_append, List.toList_toArray, List.append_assoc]
    exact ⟨none, rfl, by simpa using hc⟩
  · simp only [Prod.mk.injEq] at heq
    rw [← heq.2.1]
    simp only [Array.toList_append, List.toList_toArray, List.append_assoc]
    show WBFrom none _
    simpa using hc

/-- **`parse`: the text of every `Text` event reaches the recipe** (no INLINE_QUANTITIES; the define mode at
    the moment the event is analysed is not `components`; the text is not empty) -/
theorem rt_parseRecipe_text (env : Env) (input : Str) (hiq : env.ext.has Gen.EXT_INLINE_QUANTITIES = false)
    (c : Col α) (hout : (parseRecipe (α := α) env input).output = some c)
    (pre post : List (Ev α)) (t : Text)
    (hsplit : (pullEvents (α := α) env.cs env.ext input).1.toList = pre ++ Ev.text t :: post)
    (hm : (collectorAfter env input pre ({} : Col α)).defineMode ≠ .components) (hne : t.text ≠ []) :
    SecsHave t.text c.sections := by
  have hw := pullEvents_closedStart (α := α) env.cs env.ext input
  have hev := pullEvents_evOK' (α := α) env.cs env.ext input
  have hsp := pullEvents_spansOK (α := α) env.cs env.ext input
  rw [hsplit] at hw hev hsp
  have hout' : (parseEventsLoop env input (pre ++ Ev.text t :: post) ({} : Col α)).output = some c := by
    rw [← hsplit]; exact hout
  exact rt_fold_text env input hiq pre t post {} none (NP.init env) rfl hw hev hsp c hout' hm hne

/-- in define mode `components` a step text with a letter or digit is dropped WITH the warning
    `text-in-components-mode` -/
theorem rt_components_mode_warns (env : Env) (t : Text) (items : List Item) (s : Col α)
    (hb : s.block = some (.step items)) (hm : s.defineMode = .components)
    (ha : t.text.any env.cs.alnum = true) :
    (inStepText env t s).2.diags = s.diags.push ⟨.warning, .analysis, "text-in-components-mode", [t.span]⟩ := by
  unfold inStepText
  simp +instances only [A_bind, A_get, hb]
  unfold inStepTextStep
  simp +instances only [A_bind, A_get, A_ite, A_modify, A_pure, awarn, hm, ha, beq_self_eq_true, if_true]

/-! ### from byte positions to characters of the recipe -/

/-- a character of the input whose bytes lie inside a fragment that is the source slice at its offset is a
    character of the fragment's text -/
theorem rt_char_in_frag {input a z : List Char} {ch : Char} (hin : input = a ++ ch :: z) {f : Frag}
    (hs : SliceAt 0 input f.offset f.text) (h1 : f.offset ≤ utf8Len a)
    (h2 : utf8Len a + ch.utf8Size ≤ f.stop) : ch ∈ f.text := by
  obtain ⟨pre, suf, hw, hp⟩ := hs
  have hpos := utf8Size_pos ch
  have e1 : a ++ ch :: z = pre ++ (f.text ++ suf) := by rw [← hin, hw]; simp
  rcases cov_char_in_append e1 with ⟨z', e2⟩ | ⟨a', e2, e3⟩
  · exfalso
    rw [e2, utf8Len_append, utf8Len_cons] at hp
    omega
  · rcases cov_char_in_append e3.symm with ⟨z', e4⟩ | ⟨a'', e4, e5⟩
    · rw [e4]; simp
    · exfalso
      unfold Frag.stop at h2
      rw [e2, e4, utf8Len_append, utf8Len_append] at h2
      omega

/-- … hence, when the fragment is not a soft line break, of the text (`Text::text`) -/
theorem rt_char_in_text {t : Text} {f : Frag} (hf : f ∈ t.frags) (hsoft : f.soft = false) {ch : Char}
    (hc : ch ∈ f.text) : ch ∈ t.text := by
  unfold Text.text
  exact List.mem_flatMap.2 ⟨f, hf, by simp [hsoft, hc]⟩

/-- the character occurs in a `Text` item of a step or in a text block of the recipe -/
def RecipeHasChar (c : Col α) (ch : Char) : Prop :=
  ∃ sec ∈ c.sections, ∃ ct ∈ sec.content,
    (∃ st τ, ct = .step st ∧ Item.text τ ∈ st.items ∧ ch ∈ τ) ∨ (∃ buf, ct = .text buf ∧ ch ∈ buf)

theorem rt_hasChar_of_secsHave {c : Col α} {τ : Str} {ch : Char} (h : SecsHave τ c.sections) (hc : ch ∈ τ) :
    RecipeHasChar c ch := by
  obtain ⟨sec, hsec, ct, hct, hh⟩ := h
  refine ⟨sec, hsec, ct, hct, ?_⟩
  cases ct with
  | step st => exact Or.inl ⟨st, τ, rfl, hh, hc⟩
  | text buf =>
    obtain ⟨x, y, hxy⟩ := hh
    exact Or.inr ⟨buf, rfl, by rw [← hxy]; simp [hc]⟩

/-- the text of a `Text` event of the pull parser is made of source slices -/
theorem rt_pullEvents_text_slices (cs : CharSpec) (ext : Ext) (input : List Char) (t : Text)
    (ht : Ev.text t ∈ (pullEvents (α := α) cs ext input).1.toList) :
    ∀ f ∈ t.frags, SliceAt 0 input f.offset f.text := by
  obtain ⟨b, h⟩ := pullEvents_topInv (α := α) cs ext input (frontMatterOffsetsOK cs input)
  have hok := h.ok _ ht
  exact hok.2

/-- a small environment for the examples: the toy character table, no extension, no converter -/
def rtToyEnv : Env := ⟨toyCharSpec, ⟨0⟩, fun _ => none, fun _ _ => .ok, fun c => [c], 0⟩

end Cook
