import CookModel.Num.Display
import CookModel.Lemmas.ArithRat
import CookModel.Lemmas.FractionDisplay
/-
  The printed decimal numerals of the printing model (Num/Display.lean), read back: a specification-side
  reader of signed decimal numerals (`readDecimal`) and the theorems that it returns the exact value on
  what `ratText` prints (`Display for f64` at the exact instance) — in particular on everything that has
  been through `round_float`.  Names carry the prefix `dsp_`.
-/
namespace Cook
open Arith

/-- what a reader understands by `ddd` or `ddd.ddd` (decimal digits, at most one point with digits on
    both sides, nothing else); `none` for every other string -/
def readUDecimal (cs : List Char) : Option Rat :=
  match readNatPrefix cs with
  | some (a, []) => some (a : Rat)
  | some (a, '.' :: r) =>
    if r ≠ [] ∧ r.all Char.isDigit = true then
      some ((a : Rat) + ((Nat.ofDigitChars 10 r 0 : Nat) : Rat) / ((10 ^ r.length : Nat) : Rat))
    else none
  | _ => none

/-- a decimal numeral with an optional sign `-` / `+` in front -/
def readDecimal : List Char → Option Rat
  | '-' :: r => (readUDecimal r).map (fun x => -x)
  | '+' :: r => readUDecimal r
  | cs => readUDecimal cs

theorem dsp_toDigits_all (n : Nat) : (Nat.toDigits 10 n).all Char.isDigit = true := by
  rw [List.all_eq_true]
  exact fun c hc => Nat.isDigit_of_mem_toDigits (by decide) (by decide) hc

theorem dsp_pad_length (j r : Nat) (hj : 0 < j) (hr : r < 10 ^ j) : (padDigits j r).length = j := by
  have h := (Nat.length_toDigits_le_iff (b := 10) (n := r) (k := j) (by decide) hj).2 hr
  simp only [padDigits, List.length_append, List.length_replicate]
  omega

theorem dsp_pad_all (j r : Nat) : (padDigits j r).all Char.isDigit = true := by
  simp only [padDigits, List.all_append, List.all_replicate, dsp_toDigits_all, Bool.and_true]
  simp

theorem dsp_pad_value (j r : Nat) : Nat.ofDigitChars 10 (padDigits j r) 0 = r := by
  simp only [padDigits, Nat.ofDigitChars_append, Nat.ofDigitChars_replicate_zero, Nat.mul_zero,
    Nat.ofDigitChars_ten_toDigits]

theorem dsp_pad_ne_nil (j r : Nat) : padDigits j r ≠ [] := by
  simp [padDigits, Nat.toDigits_ne_nil]

theorem dsp_readNat_nil (n : Nat) : readNatPrefix (Nat.toDigits 10 n) = some (n, []) := by
  have := frd_readNat n [] (by simp)
  simpa using this

theorem dsp_pow_pos (j : Nat) : 0 < 10 ^ j := Nat.pow_pos (by decide)

/-- reading `fixedText c j` gives `c / 10^j` -/
theorem dsp_read_fixed (c j : Nat) :
    readUDecimal (fixedText c j) = some ((c : Rat) / ((10 ^ j : Nat) : Rat)) := by
  unfold fixedText
  by_cases hj : j = 0
  · subst hj
    simp only [if_true, readUDecimal, dsp_readNat_nil, Nat.pow_zero, Option.some.injEq]
    grind
  · have hj' : 0 < j := Nat.pos_of_ne_zero hj
    have hp := dsp_pow_pos j
    have hr : c % 10 ^ j < 10 ^ j := Nat.mod_lt _ hp
    simp only [hj, if_false, readUDecimal,
      frd_readNat (c / 10 ^ j) ('.' :: padDigits j (c % 10 ^ j)) (by simp),
      dsp_pad_ne_nil, dsp_pad_all, dsp_pad_value, dsp_pad_length j _ hj' hr, ne_eq, not_false_eq_true,
      and_self, if_true, Option.some.injEq]
    have hne : ((10 ^ j : Nat) : Rat) ≠ 0 := by
      have : (10 ^ j : Nat) ≠ 0 := Nat.ne_of_gt hp
      exact_mod_cast this
    have hc : (c : Rat) = ((c / 10 ^ j : Nat) : Rat) * ((10 ^ j : Nat) : Rat) + ((c % 10 ^ j : Nat) : Rat) := by
      have := Nat.div_add_mod c (10 ^ j)
      have h2 : ((10 ^ j * (c / 10 ^ j) + c % 10 ^ j : Nat) : Rat) = (c : Rat) := by rw [this]
      rw [← h2]; simp [Rat.natCast_add, Rat.natCast_mul, Rat.mul_comm]
    rw [hc]
    grind

theorem dsp_readNat_nondigit (c : Char) (r : List Char) (hc : c.isDigit = false) :
    readNatPrefix (c :: r) = none := by
  simp [readNatPrefix, hc]

/-- a sign in front of an unsigned numeral -/
theorem dsp_read_signed (neg plus : Bool) (t : List Char) (x : Rat) (h : readUDecimal t = some x) :
    readDecimal (signText neg plus ++ t) = some (if neg then -x else x) := by
  cases neg with
  | true => simp [signText, readDecimal, h]
  | false =>
    cases plus with
    | true => simp [signText, readDecimal, h]
    | false =>
      simp only [signText, Bool.false_eq_true, if_false, List.nil_append]
      cases t with
      | nil => simp [readUDecimal, readNatPrefix] at h
      | cons c r =>
        by_cases hc : c.isDigit = true
        · have h1 : c ≠ '-' := by intro e; rw [e] at hc; exact absurd hc (by decide)
          have h2 : c ≠ '+' := by intro e; rw [e] at hc; exact absurd hc (by decide)
          unfold readDecimal
          split
          · rename_i heq; exact absurd (List.cons.inj heq).1 h1
          · rename_i heq; exact absurd (List.cons.inj heq).1 h2
          · exact h
        · have : readNatPrefix (c :: r) = none := dsp_readNat_nondigit c r (by simpa using hc)
          simp [readUDecimal, this] at h

theorem dsp_rat_eq_num_div_den (x : Rat) : x = (x.num : Rat) / (x.den : Rat) := by
  have := Rat.mkRat_self x
  rw [Rat.mkRat_eq_div] at this
  exact this.symm

/-- the text of a rational with a terminating expansion reads back as that rational -/
theorem dsp_ratText_read (plus : Bool) (x : Rat) (j : Nat) (h : ratDecimalPlaces x.den = some j) :
    readDecimal (ratText plus x) = some x := by
  unfold ratText
  rw [h]
  simp only
  rw [dsp_read_signed _ _ _ _ (dsp_read_fixed _ _)]
  congr 1
  have hdvd : x.den ∣ 10 ^ j := by
    have := List.find?_some h
    simp only [beq_iff_eq] at this
    exact Nat.dvd_of_mod_eq_zero this
  obtain ⟨q, hq⟩ := hdvd
  have hden : 0 < x.den := x.den_pos
  have hqpos : 0 < q := by
    rcases Nat.eq_zero_or_pos q with h0 | h0
    · rw [h0, Nat.mul_zero] at hq; exact absurd hq (Nat.ne_of_gt (dsp_pow_pos j))
    · exact h0
  have hc : x.num.natAbs * 10 ^ j / x.den = x.num.natAbs * q := by
    rw [hq, ← Nat.mul_assoc, Nat.mul_comm x.num.natAbs x.den, Nat.mul_assoc, Nat.mul_div_cancel_left _ hden]
  rw [hc, hq]
  have hx := dsp_rat_eq_num_div_den x
  have hdR : (x.den : Rat) ≠ 0 := by
    have : x.den ≠ 0 := Nat.ne_of_gt hden
    exact_mod_cast this
  have hqR : (q : Rat) ≠ 0 := by
    have : q ≠ 0 := Nat.ne_of_gt hqpos
    exact_mod_cast this
  simp only [Rat.natCast_mul, decide_eq_true_eq]
  have hnn : (0 ≤ x.num) ↔ (0 ≤ x) := Rat.num_nonneg
  by_cases hs : x < 0
  · have hneg : x.num < 0 := by
      by_cases h1 : 0 ≤ x.num
      · exact absurd (hnn.1 h1) (Rat.not_le.2 hs)
      · omega
    have habs : ((x.num.natAbs : Nat) : Rat) = -(x.num : Rat) := by
      have : (x.num.natAbs : Int) = -x.num := Int.ofNat_natAbs_of_nonpos (Int.le_of_lt hneg)
      rw [← Rat.intCast_natCast, this]; rfl
    rw [if_pos hs, habs]
    generalize (x.num : Rat) = n at hx
    generalize (x.den : Rat) = d at hx hdR
    generalize (q : Rat) = q' at hqR
    rw [hx]; grind
  · have hpos : 0 ≤ x.num := hnn.2 (Rat.not_lt.1 hs)
    have habs : ((x.num.natAbs : Nat) : Rat) = (x.num : Rat) := by
      have : (x.num.natAbs : Int) = x.num := Int.natAbs_of_nonneg hpos
      rw [← Rat.intCast_natCast, this]
    rw [if_neg hs, habs]
    generalize (x.num : Rat) = n at hx
    generalize (x.den : Rat) = d at hx hdR
    generalize (q : Rat) = q' at hqR
    rw [hx]; grind

/-! ### `round_float` over ℚ -/

/-- `round_float` at the exact instance: the nearest multiple of 1/1000 (half away from zero) -/
theorem dsp_roundFloat_rat (v : Rat) :
    roundFloat v = ((ratRound (v * 1000) : Int) : Rat) / 1000 := by
  simp only [roundFloat, rat_mul, rat_div, rat_round, rat_const]
  have h1 : Gen.ROUND_MUL.rat = 1000 := by decide +kernel
  have h2 : Gen.ROUND_DIV.rat = 1000 := by decide +kernel
  rw [h1, h2]

/-- rounding half away from zero moves a number by at most 1/2 -/
theorem dsp_ratRound_close (y : Rat) :
    ((ratRound y : Int) : Rat) - y ≤ 1 / 2 ∧ y - ((ratRound y : Int) : Rat) ≤ 1 / 2 := by
  unfold ratRound
  split
  · have h1 := Rat.floor_le (y + 1 / 2)
    have h2 := Rat.lt_floor_add_one (y + 1 / 2)
    rw [Rat.intCast_add] at h2
    generalize (((y + 1 / 2).floor : Int) : Rat) = f at h1 h2
    constructor <;> grind
  · have h1 := Rat.floor_le (-y + 1 / 2)
    have h2 := Rat.lt_floor_add_one (-y + 1 / 2)
    rw [Rat.intCast_add] at h2
    rw [Rat.intCast_neg]
    generalize (((-y + 1 / 2).floor : Int) : Rat) = f at h1 h2
    constructor <;> grind

/-- the denominator of `k/1000` in lowest terms divides 1000 -/
theorem dsp_den_thousandth (k : Int) : ((k : Rat) / 1000).den ∣ 1000 := by
  have h : (k : Rat) / 1000 = mkRat k 1000 := by
    rw [Rat.mkRat_eq_div]; rfl
  rw [h, Rat.den_mkRat]
  simp only [show (1000 : Nat) ≠ 0 by decide, if_false]
  exact Nat.div_dvd_of_dvd (Nat.gcd_dvd_left _ _)

/-- a denominator that divides 1000 has a terminating expansion -/
theorem dsp_places_of_dvd (d : Nat) (h : d ∣ 1000) : ∃ j, ratDecimalPlaces d = some j := by
  have hpos : 0 < d := Nat.pos_of_dvd_of_pos h (by decide)
  have hs : (ratDecimalPlaces d).isSome = true := by
    unfold ratDecimalPlaces
    rw [List.find?_isSome]
    by_cases h3 : 3 ≤ d
    · refine ⟨3, by simp; omega, ?_⟩
      simp only [beq_iff_eq]
      exact Nat.mod_eq_zero_of_dvd h
    · have : d = 1 ∨ d = 2 := by omega
      rcases this with rfl | rfl
      · exact ⟨0, by simp, by decide⟩
      · exact ⟨1, by simp, by decide⟩
  exact Option.isSome_iff_exists.1 hs

/-- what `Display for f64` prints for a rounded number reads back as exactly that number -/
theorem dsp_read_round (plus : Bool) (v : Rat) :
    readDecimal (FloatText.text plus (roundFloat v)) = some (((ratRound (v * 1000) : Int) : Rat) / 1000) := by
  rw [dsp_roundFloat_rat]
  obtain ⟨j, hj⟩ := dsp_places_of_dvd _ (dsp_den_thousandth (ratRound (v * 1000)))
  exact dsp_ratText_read plus _ j hj

/-- the rounded number is within 0.0005 of the number -/
theorem dsp_round_close (v : Rat) :
    ((ratRound (v * 1000) : Int) : Rat) / 1000 - v ≤ 1 / 2000 ∧
    v - ((ratRound (v * 1000) : Int) : Rat) / 1000 ≤ 1 / 2000 := by
  have h := dsp_ratRound_close (v * 1000)
  generalize ((ratRound (v * 1000) : Int) : Rat) = r at h
  constructor <;> grind

/-! ### `Display for Number` at the exact instance -/

theorem dsp_abs_close (a b : Rat) (h1 : a - b ≤ 1 / 2000) (h2 : b - a ≤ 1 / 2000) :
    Rat.abs (a - b) ≤ 1 / 2000 := by
  show (if 0 ≤ a - b then a - b else -(a - b)) ≤ 1 / 2000
  split <;> grind

theorem dsp_errSuffix_rat (alt : Bool) (e : Rat) :
    errSuffix alt e =
      if alt = true ∧ 1 / 1000 < Rat.abs e then
        ' ' :: '(' :: (FloatText.text true (roundFloat e) ++ [')'])
      else [] := by
  have h : Gen.ALT_ERR_MIN.rat = 1 / 1000 := by decide +kernel
  simp only [errSuffix, rat_lt, rat_const, rat_abs, rat_abs_eq, h, Bool.and_eq_true, decide_eq_true_eq,
    List.cons_append, List.nil_append]

theorem dsp_zero_text : FloatText.text false (Arith.ofNat 0 : Rat) = ['0'] := by decide +kernel

theorem dsp_display_fraction (alt : Bool) (w n d : Nat) (e : Rat) :
    (Number.fraction w n d e : Number Rat).display alt =
      if (Number.fraction w n d e : Number Rat).value = 0 then ['0']
      else (fracForm false w n d).render.toList ++ errSuffix alt e := by
  simp only [Number.display, rat_eq, rat_ofNat, decide_eq_true_eq]
  rfl

/-! ### the f64 printer of the model: what its digits read back as -/

theorem dsp_stripZeros_value (c j : Nat) :
    ((stripZeros c j).1 : Rat) / ((10 ^ (stripZeros c j).2 : Nat) : Rat)
      = (c : Rat) / ((10 ^ j : Nat) : Rat) := by
  induction j generalizing c with
  | zero => rfl
  | succ j ih =>
    unfold stripZeros
    split
    · rename_i h0
      rw [ih]
      have hc : c = 10 * (c / 10) := by omega
      have hp : ((10 ^ j : Nat) : Rat) ≠ 0 := by
        have : (10 ^ j : Nat) ≠ 0 := Nat.ne_of_gt (dsp_pow_pos j)
        exact_mod_cast this
      have h1 : (c : Rat) = 10 * ((c / 10 : Nat) : Rat) := by
        have : ((10 * (c / 10) : Nat) : Rat) = (c : Rat) := by rw [← hc]
        rw [← this]; simp [Rat.natCast_mul]
      have h2 : ((10 ^ (j + 1) : Nat) : Rat) = ((10 ^ j : Nat) : Rat) * 10 := by
        rw [Nat.pow_succ]; simp [Rat.natCast_mul]
      rw [h1, h2]
      generalize ((c / 10 : Nat) : Rat) = a
      generalize ((10 ^ j : Nat) : Rat) = p at hp
      grind
    · rfl

/-- the numeral `decimalText c s` denotes `c · 10^(-s)` -/
theorem dsp_read_decimalText (c : Nat) (s : Int) :
    readUDecimal (decimalText c s) =
      some (if s ≤ 0 then ((c * 10 ^ (-s).toNat : Nat) : Rat) else (c : Rat) / ((10 ^ s.toNat : Nat) : Rat)) := by
  unfold decimalText
  split
  · simp only [readUDecimal, dsp_readNat_nil]
  · rw [dsp_read_fixed, dsp_stripZeros_value]

/-- every result of the digit search reads back (by the correctly rounded parser of Basic/Decimal.lean)
    as the f64 that was printed — unless the search ran out of fuel, in which case the result sits at
    digit position `n + fuel` -/
theorem dsp_shortestFrom_roundtrip (mb : UInt64) (num den : Nat) (k : Int) (fuel n : Nat) :
    bitsOfDecimal (shortestFrom mb num den k fuel n).1 (shortestFrom mb num den k fuel n).2 = mb ∨
    (shortestFrom mb num den k fuel n).2 = ((n + fuel : Nat) : Int) - k := by
  induction fuel generalizing n with
  | zero => right; simp [shortestFrom]
  | succ fuel ih =>
    unfold shortestFrom
    simp only
    split
    · rename_i h
      simp only [Bool.and_eq_true, beq_iff_eq] at h
      left; exact h.1
    · split
      · rename_i h
        simp only [beq_iff_eq] at h
        left; exact h
      · have := ih (n + 1)
        rcases this with h | h
        · left; exact h
        · right; rw [h]; congr 2; omega

/-- numerator / denominator of the exact value of the finite f64 with bit pattern `b` (as `f64Text`
    decodes it: mantissa `m`, exponent `e`, value `m · 2^e`) -/
def f64Mant (b : Nat) : Nat := if (b / 2 ^ 52) % 2048 = 0 then b % 2 ^ 52 else 2 ^ 52 + b % 2 ^ 52
def f64Exp (b : Nat) : Int := if (b / 2 ^ 52) % 2048 = 0 then -1074 else (((b / 2 ^ 52) % 2048 : Nat) : Int) - 1075
def f64Num (b : Nat) : Nat := if f64Exp b ≥ 0 then f64Mant b * 2 ^ (f64Exp b).toNat else f64Mant b
def f64Den (b : Nat) : Nat := if f64Exp b ≥ 0 then 1 else 2 ^ (-(f64Exp b)).toNat

/-- `f64Text` on a finite non-zero number: sign, then the layout of the digits the search returns -/
theorem dsp_f64Text_finite (plus : Bool) (x : Float)
    (hfin : (x.toBits.toNat / 2 ^ 52) % 2048 ≠ 2047)
    (hnz : ¬ ((x.toBits.toNat / 2 ^ 52) % 2048 = 0 ∧ x.toBits.toNat % 2 ^ 52 = 0)) :
    f64Text plus x = signText (decide (x.toBits.toNat / 2 ^ 63 = 1)) plus ++
      decimalText
        (shortestDigits (UInt64.ofNat (x.toBits.toNat % 2 ^ 63)) (f64Num x.toBits.toNat) (f64Den x.toBits.toNat)).1
        (shortestDigits (UInt64.ofNat (x.toBits.toNat % 2 ^ 63)) (f64Num x.toBits.toNat) (f64Den x.toBits.toNat)).2 := by
  unfold f64Text
  simp only [if_neg hfin, if_neg hnz]
  rfl
