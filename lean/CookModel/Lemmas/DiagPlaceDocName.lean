import CookModel.Lemmas.DiagPlaceDocQty
import CookModel.Lemmas.DiagPlaceName
import CookModel.Lemmas.DiagPlaceInter
/-
  C07, arbitrary placement, document level: the pieces WITHOUT a quantity diagnostic (`c07v_` prefix, wave 10) —
  duplicate modifiers, cookware modifiers, the empty-name family (`@{}`, `#{}`, `@{Q}`, `#{Q}`, `@|x{}`), alias
  errors.  The step-level pieces (Lemmas/DiagPlaceInst, DiagPlaceFam, DiagPlaceName) are stated on ACTUAL tokens;
  here the construct is given by SPECIFICATION tokens, the conditions are on the specification tokens (they read
  kinds and texts only, so they transfer along `Spells`), and the expected events are a function of the actual parts
  of the block (`c07v_compSpec`).
-/
set_option linter.unusedSectionVars false
set_option linter.unusedSimpArgs false
set_option linter.unusedVariables false
namespace Cook

variable {α : Type} [Arith α]

/-- the actual block `tB` is a braces component `marker ms name { Q }` whose parts spell the specified ones, and its
    events are `F` of the actual parts -/
def c07v_compSpec (msS nameS QS tB : List Tok)
    (F : Tok → List Tok → List Tok → Tok → List Tok → Tok → List (Ev α) → Prop) (evs : List (Ev α)) : Prop :=
  ∃ (tm : Tok) (ms nameT : List Tok) (tob : Tok) (Q : List Tok) (tcb : Tok),
    tB = c07p_comp tm ms nameT tob Q tcb ∧ Spells ms msS ∧ Spells nameT nameS ∧ Spells Q QS ∧
    F tm ms nameT tob Q tcb evs

/-- schema: a piece lemma on actual tokens whose hypotheses follow from the transferred shape gives the piece on
    every actual block spelling the specification -/
theorem c07v_pieceAt_of {cs : CharSpec} {e : Ext} {k : TK} {tmS : Tok} {msS nameS : List Tok} {tobS : Tok}
    {QS : List Tok} {tcbS : Tok} {restS : List Tok} (sh : PlShape e k tmS msS nameS tobS QS tcbS restS)
    (F : Tok → List Tok → List Tok → Tok → List Tok → Tok → List (Ev α) → Prop)
    (T tpre tB tpost : List Tok) (hT : T = tpre ++ (tB ++ tpost))
    (hsB : Spells tB (c07p_comp tmS msS nameS tobS QS tcbS)) (hpost : Spells tpost restS)
    (hrun : RunAt (baseOff T) T)
    (H : ∀ (tm : Tok) (ms nameT : List Tok) (tob : Tok) (Q : List Tok) (tcb : Tok), Spells ms msS →
      Spells nameT nameS → Spells Q QS → PlShape e k tm ms nameT tob Q tcb tpost →
      T = tpre ++ (c07p_comp tm ms nameT tob Q tcb ++ tpost) → WF T →
      PlPieceAt (α := α) T cs e tpre ⟨c07p_comp tm ms nameT tob Q tcb, F tm ms nameT tob Q tcb⟩) :
    PlPieceAt (α := α) T cs e tpre ⟨tB, c07v_compSpec msS nameS QS tB F⟩ := by
  obtain ⟨tm, ms, nameT, tob, Q, tcb, rfl, k1, k2, k3, k4, k5, k6⟩ := c07d_comp_spells_inv hsB
  have sh' := c07x_shape_transfer sh k1 k2 k3 k4 k5 k6 hpost
  have hw : WF T := ⟨by rw [hT]; simp [c07p_comp], hrun⟩
  exact (H tm ms nameT tob Q tcb k2 k3 k5 sh' hT hw).mono
    (fun evs he => ⟨tm, ms, nameT, tob, Q, tcb, rfl, k2, k3, k5, he⟩)

theorem c07v_simple_transfer {ms msS : List Tok} (k : Spells ms msS) (h : SimpleMods msS) : SimpleMods ms :=
  c07d_kind_of_spells k (fun k => (modifierFlag k).isSome = true) h

theorem c07v_pad_transfer {Q QS : List Tok} (k : Spells Q QS) (h : ∀ t ∈ QS, isPadK t = true) :
    ∀ t ∈ Q, isPadK t = true :=
  c07d_kind_of_spells k (fun k => (k == .ws || k == .blockComment) = true) (fun u hu => h u hu)

/-- name tokens that are padding only (spaces, block comments; none at all) make a blank name at every offset -/
theorem c07v_blank_transfer {cs : CharSpec} {nameT nameS : List Tok} (k : Spells nameT nameS)
    (h : padOK cs nameS = true) (o : Nat) : (buildText o nameT).isTextEmpty cs = true :=
  rtt_buildText_pad_empty _ _ (k.padOK_of h)

theorem c07v_spells_take {ts spec : List Tok} (h : Spells ts spec) (i : Nat) : Spells (ts.take i) (spec.take i) := by
  unfold Spells at *
  rw [List.map_take, List.map_take, h]

/-- the index of the first `|` reads kinds only -/
theorem c07v_findIdx_transfer {ts spec : List Tok} (h : Spells ts spec) :
    ts.findIdx? (fun t => t.kind == .or) = spec.findIdx? (fun t => t.kind == .or) := by
  induction spec generalizing ts with
  | nil => rw [h.nil_inv]
  | cons u r ih =>
    obtain ⟨t, ts', rfl, hk, -, hr⟩ := h.cons_inv
    rw [List.findIdx?_cons, List.findIdx?_cons, hk, ih hr]

/-! ### the expected events, as functions of the actual parts (`T` the block, `A` the tokens before the construct) -/

/-- `@ ms name {}`: one `duplicate-modifier` per repeated modifier token, then the ingredient -/
def c07v_dupIngrF (T A : List Tok) : Tok → List Tok → List Tok → Tok → List Tok → Tok → List (Ev α) → Prop :=
  fun tm ms nameT tob Q tcb evs =>
    evs = List.replicate (foldMods Modifiers.empty ms).2
        (.error ⟨.error, .parse, "duplicate-modifier", [tokensSpan ms]⟩) ++
      [.ingredient ⟨⟨simpleFlags ms (offAt T (A.length + 1)), none,
        buildText (offAt T (A.length + 1 + ms.length)) nameT, none, none, none⟩,
      ⟨offAt T A.length, offAt T (A.length + (c07p_comp tm ms nameT tob Q tcb).length)⟩⟩]

/-- `# ms name {}`: `duplicate-modifier`*, `cookware-recipe-modifier` iff `@` is among the modifiers, the item -/
def c07v_cwModsF (T A : List Tok) : Tok → List Tok → List Tok → Tok → List Tok → Tok → List (Ev α) → Prop :=
  fun tm ms nameT tob Q tcb evs =>
    evs = List.replicate (foldMods Modifiers.empty ms).2
        (.error ⟨.error, .parse, "duplicate-modifier", [tokensSpan ms]⟩) ++ recipeModEvs ms ++
      [.cookware ⟨⟨simpleFlags ms (offAt T (A.length + 1)),
        buildText (offAt T (A.length + 1 + ms.length)) nameT, none, none, none⟩,
      ⟨offAt T A.length, offAt T (A.length + (c07p_comp tm ms nameT tob Q tcb).length)⟩⟩]

/-- `@{}` (blank name, no modifiers): `empty-name:ingredient` on the span of the blank name text, the ingredient -/
def c07v_emptyNameIngrF (T A : List Tok) : Tok → List Tok → List Tok → Tok → List Tok → Tok → List (Ev α) → Prop :=
  fun tm _ nameT tob Q tcb evs =>
    evs = [.error ⟨.error, .parse, "empty-name:ingredient", [(buildText (offAt T (A.length + 1)) nameT).span]⟩,
      .ingredient ⟨⟨⟨Modifiers.empty, Span.pos (offAt T (A.length + 1))⟩, none,
        buildText (offAt T (A.length + 1)) nameT, none, none, none⟩,
      ⟨offAt T A.length, offAt T (A.length + (c07p_comp tm [] nameT tob Q tcb).length)⟩⟩]

/-- `# ms {}` (blank name): `empty-name:cookware`, `duplicate-modifier`*, `cookware-recipe-modifier`?, the item -/
def c07v_emptyNameCwF (T A : List Tok) : Tok → List Tok → List Tok → Tok → List Tok → Tok → List (Ev α) → Prop :=
  fun tm ms nameT tob Q tcb evs =>
    evs = [.error ⟨.error, .parse, "empty-name:cookware",
        [(buildText (offAt T (A.length + 1 + ms.length)) nameT).span]⟩] ++ dupEvs ms ++ recipeModEvs ms ++
      [.cookware ⟨⟨simpleFlags ms (offAt T (A.length + 1)),
        buildText (offAt T (A.length + 1 + ms.length)) nameT, none, none, none⟩,
      ⟨offAt T A.length, offAt T (A.length + (c07p_comp tm ms nameT tob Q tcb).length)⟩⟩]

/-- `@{Q}` (blank name, no modifiers), the quantity tokens read as `l` / `R`: `empty-name:ingredient` FIRST, then
    `l Q`, then the ingredient carrying the quantity read -/
def c07v_emptyNameIngrQF (T A : List Tok) (l : List Tok → List (Ev α)) (R : List Tok → ParsedQuantity α → Prop) :
    Tok → List Tok → List Tok → Tok → List Tok → Tok → List (Ev α) → Prop :=
  fun tm _ nameT tob Q tcb evs => ∃ q : ParsedQuantity α, R Q q ∧
    evs = .error ⟨.error, .parse, "empty-name:ingredient", [(buildText (offAt T (A.length + 1)) nameT).span]⟩ ::
      l Q ++ [.ingredient ⟨⟨⟨Modifiers.empty, Span.pos (offAt T (A.length + 1))⟩, none,
        buildText (offAt T (A.length + 1)) nameT, none, some q.quantity, none⟩,
      ⟨offAt T A.length, offAt T (A.length + (c07p_comp tm [] nameT tob Q tcb).length)⟩⟩]

/-- `#{Q}`: `empty-name:cookware`, `l Q`, `cookware-unit` iff the quantity read has a unit, the item -/
def c07v_emptyNameCwQF (T A : List Tok) (l : List Tok → List (Ev α)) (R : List Tok → ParsedQuantity α → Prop) :
    Tok → List Tok → List Tok → Tok → List Tok → Tok → List (Ev α) → Prop :=
  fun tm _ nameT tob Q tcb evs => ∃ q : ParsedQuantity α, R Q q ∧
    evs = .error ⟨.error, .parse, "empty-name:cookware", [(buildText (offAt T (A.length + 1)) nameT).span]⟩ ::
      (l Q ++ c07f_cwUnitEvs q) ++ [.cookware ⟨⟨⟨Modifiers.empty, Span.pos (offAt T (A.length + 1))⟩,
        buildText (offAt T (A.length + 1)) nameT, none, some ⟨q.quantity.val.value, q.quantity.span⟩, none⟩,
      ⟨offAt T A.length, offAt T (A.length + (c07p_comp tm [] nameT tob Q tcb).length)⟩⟩]

/-- `@ ms name|alias… {}` (first `|` at index `i`, non-blank name before it): the alias errors, `duplicate-modifier`*,
    the ingredient named by the tokens before the `|` -/
def c07v_aliasIngrF (cs : CharSpec) (i : Nat) (T A : List Tok) :
    Tok → List Tok → List Tok → Tok → List Tok → Tok → List (Ev α) → Prop :=
  fun tm ms nameT tob Q tcb evs =>
    evs = aliasEvs "ingredient" nameT i cs ++ dupEvs ms ++
      [.ingredient ⟨⟨simpleFlags ms (offAt T (A.length + 1)), none,
        buildText (offAt T (A.length + 1 + ms.length)) (nameT.take i), aliasRes nameT i cs, none, none⟩,
      ⟨offAt T A.length, offAt T (A.length + (c07p_comp tm ms nameT tob Q tcb).length)⟩⟩]

def c07v_aliasCwF (cs : CharSpec) (i : Nat) (T A : List Tok) :
    Tok → List Tok → List Tok → Tok → List Tok → Tok → List (Ev α) → Prop :=
  fun tm ms nameT tob Q tcb evs =>
    evs = aliasEvs "cookware" nameT i cs ++ dupEvs ms ++ recipeModEvs ms ++
      [.cookware ⟨⟨simpleFlags ms (offAt T (A.length + 1)),
        buildText (offAt T (A.length + 1 + ms.length)) (nameT.take i), aliasRes nameT i cs, none, none⟩,
      ⟨offAt T A.length, offAt T (A.length + (c07p_comp tm ms nameT tob Q tcb).length)⟩⟩]

/-- `@ ms |alias {}` (blank text before the first `|`): the alias errors, `empty-name:ingredient` on the blank text
    before the `|`, `duplicate-modifier`*, the ingredient -/
def c07v_enAliasIngrF (cs : CharSpec) (i : Nat) (T A : List Tok) :
    Tok → List Tok → List Tok → Tok → List Tok → Tok → List (Ev α) → Prop :=
  fun tm ms nameT tob Q tcb evs =>
    evs = aliasEvs "ingredient" nameT i cs ++
      [.error ⟨.error, .parse, "empty-name:ingredient",
        [(buildText (offAt T (A.length + 1 + ms.length)) (nameT.take i)).span]⟩] ++ dupEvs ms ++
      [.ingredient ⟨⟨simpleFlags ms (offAt T (A.length + 1)), none,
        buildText (offAt T (A.length + 1 + ms.length)) (nameT.take i), aliasRes nameT i cs, none, none⟩,
      ⟨offAt T A.length, offAt T (A.length + (c07p_comp tm ms nameT tob Q tcb).length)⟩⟩]

def c07v_enAliasCwF (cs : CharSpec) (i : Nat) (T A : List Tok) :
    Tok → List Tok → List Tok → Tok → List Tok → Tok → List (Ev α) → Prop :=
  fun tm ms nameT tob Q tcb evs =>
    evs = aliasEvs "cookware" nameT i cs ++
      [.error ⟨.error, .parse, "empty-name:cookware",
        [(buildText (offAt T (A.length + 1 + ms.length)) (nameT.take i)).span]⟩] ++ dupEvs ms ++
      recipeModEvs ms ++
      [.cookware ⟨⟨simpleFlags ms (offAt T (A.length + 1)),
        buildText (offAt T (A.length + 1 + ms.length)) (nameT.take i), aliasRes nameT i cs, none, none⟩,
      ⟨offAt T A.length, offAt T (A.length + (c07p_comp tm ms nameT tob Q tcb).length)⟩⟩]

/-! ### the pieces on every actual block -/

section
variable (cs : CharSpec) (e : Ext) (tmS : Tok) (msS nameS : List Tok) (tobS : Tok) (QS : List Tok) (tcbS : Tok)
  (restS : List Tok) (T tpre tB tpost : List Tok)

theorem c07v_dup_ingr_pieceAt (sh : PlShape e .at tmS msS nameS tobS QS tcbS restS) (hs : SimpleMods msS)
    (hQ : ∀ t ∈ QS, isPadK t = true)
    (ha : e.has Gen.EXT_COMPONENT_ALIAS = false ∨ ∀ t ∈ nameS, t.kind ≠ .or)
    (hname : ∃ t ∈ nameS, plainKind t.kind = true ∧ NBs cs t.text)
    (hT : T = tpre ++ (tB ++ tpost)) (hsB : Spells tB (c07p_comp tmS msS nameS tobS QS tcbS))
    (hpost : Spells tpost restS) (hrun : RunAt (baseOff T) T) :
    PlPieceAt (α := α) T cs e tpre ⟨tB, c07v_compSpec msS nameS QS tB (c07v_dupIngrF T tpre)⟩ :=
  c07v_pieceAt_of sh _ T tpre tB tpost hT hsB hpost hrun (fun tm ms nameT tob Q tcb k2 k3 k5 sh' hT' hw =>
    c07p_duplicate_modifier_piece T tpre tpost cs e tm ms nameT tob Q tcb hT' hw sh' (c07v_simple_transfer k2 hs)
      (c07v_pad_transfer k5 hQ) (c07x_alias_transfer k3 ha) (c07x_name_transfer k3 hname _))

theorem c07v_cw_mods_pieceAt (sh : PlShape e .hash tmS msS nameS tobS QS tcbS restS) (hs : SimpleMods msS)
    (hQ : ∀ t ∈ QS, isPadK t = true)
    (ha : e.has Gen.EXT_COMPONENT_ALIAS = false ∨ ∀ t ∈ nameS, t.kind ≠ .or)
    (hname : ∃ t ∈ nameS, plainKind t.kind = true ∧ NBs cs t.text)
    (hT : T = tpre ++ (tB ++ tpost)) (hsB : Spells tB (c07p_comp tmS msS nameS tobS QS tcbS))
    (hpost : Spells tpost restS) (hrun : RunAt (baseOff T) T) :
    PlPieceAt (α := α) T cs e tpre ⟨tB, c07v_compSpec msS nameS QS tB (c07v_cwModsF T tpre)⟩ :=
  c07v_pieceAt_of sh _ T tpre tB tpost hT hsB hpost hrun (fun tm ms nameT tob Q tcb k2 k3 k5 sh' hT' hw =>
    c07p_cookware_modifiers_piece T tpre tpost cs e tm ms nameT tob Q tcb hT' hw sh' (c07v_simple_transfer k2 hs)
      (c07v_pad_transfer k5 hQ) (c07x_alias_transfer k3 ha) (c07x_name_transfer k3 hname _))

theorem c07v_empty_name_ingr_pieceAt (sh : PlShape e .at tmS [] nameS tobS QS tcbS restS)
    (hQ : ∀ t ∈ QS, isPadK t = true)
    (ha : e.has Gen.EXT_COMPONENT_ALIAS = false ∨ ∀ t ∈ nameS, t.kind ≠ .or)
    (hname : padOK cs nameS = true)
    (hT : T = tpre ++ (tB ++ tpost)) (hsB : Spells tB (c07p_comp tmS [] nameS tobS QS tcbS))
    (hpost : Spells tpost restS) (hrun : RunAt (baseOff T) T) :
    PlPieceAt (α := α) T cs e tpre ⟨tB, c07v_compSpec [] nameS QS tB (c07v_emptyNameIngrF T tpre)⟩ :=
  c07v_pieceAt_of sh _ T tpre tB tpost hT hsB hpost hrun (fun tm ms nameT tob Q tcb k2 k3 k5 sh' hT' hw => by
    have := k2.nil_inv
    subst this
    exact c07p_empty_name_piece T tpre tpost cs e tm nameT tob Q tcb hT' hw sh' (c07v_pad_transfer k5 hQ)
      (c07x_alias_transfer k3 ha) (c07v_blank_transfer k3 hname _))

theorem c07v_empty_name_cw_pieceAt (sh : PlShape e .hash tmS msS nameS tobS QS tcbS restS) (hs : SimpleMods msS)
    (hQ : ∀ t ∈ QS, isPadK t = true)
    (ha : e.has Gen.EXT_COMPONENT_ALIAS = false ∨ ∀ t ∈ nameS, t.kind ≠ .or)
    (hname : padOK cs nameS = true)
    (hT : T = tpre ++ (tB ++ tpost)) (hsB : Spells tB (c07p_comp tmS msS nameS tobS QS tcbS))
    (hpost : Spells tpost restS) (hrun : RunAt (baseOff T) T) :
    PlPieceAt (α := α) T cs e tpre ⟨tB, c07v_compSpec msS nameS QS tB (c07v_emptyNameCwF T tpre)⟩ :=
  c07v_pieceAt_of sh _ T tpre tB tpost hT hsB hpost hrun (fun tm ms nameT tob Q tcb k2 k3 k5 sh' hT' hw =>
    c07y_cookware_empty_name_piece T tpre tpost cs e tm ms nameT tob Q tcb hT' hw sh' (c07v_simple_transfer k2 hs)
      (c07v_pad_transfer k5 hQ) (c07x_alias_transfer k3 ha) (c07v_blank_transfer k3 hname _))

theorem c07v_empty_name_ingr_qty_pieceAt (sh : PlShape e .at tmS [] nameS tobS QS tcbS restS)
    (ha : e.has Gen.EXT_COMPONENT_ALIAS = false ∨ ∀ t ∈ nameS, t.kind ≠ .or)
    (hname : padOK cs nameS = true) (hne : ∃ t ∈ QS, isPadK t = false)
    (l : List Tok → List (Ev α)) (R : List Tok → ParsedQuantity α → Prop)
    (hQ : ∀ Q, Spells Q QS → ∀ sq : BP α, sq.cs = cs → sq.ext = e →
      Sat (parseQuantity (α := α) Q) sq (fun r s' => Pushed (l Q) sq s' ∧ R Q r))
    (hT : T = tpre ++ (tB ++ tpost)) (hsB : Spells tB (c07p_comp tmS [] nameS tobS QS tcbS))
    (hpost : Spells tpost restS) (hrun : RunAt (baseOff T) T) :
    PlPieceAt (α := α) T cs e tpre ⟨tB, c07v_compSpec [] nameS QS tB (c07v_emptyNameIngrQF T tpre l R)⟩ :=
  c07v_pieceAt_of sh _ T tpre tB tpost hT hsB hpost hrun (fun tm ms nameT tob Q tcb k2 k3 k5 sh' hT' hw => by
    have := k2.nil_inv
    subst this
    exact c07y_ingredient_empty_name_qty_piece T tpre tpost cs e tm nameT tob Q tcb hT' hw sh'
      (c07x_alias_transfer k3 ha) (c07v_blank_transfer k3 hname _) (c07x_notpad_transfer k5 hne) (l Q) (R Q)
      (hQ Q k5))

theorem c07v_empty_name_cw_qty_pieceAt (sh : PlShape e .hash tmS [] nameS tobS QS tcbS restS)
    (ha : e.has Gen.EXT_COMPONENT_ALIAS = false ∨ ∀ t ∈ nameS, t.kind ≠ .or)
    (hname : padOK cs nameS = true) (hne : ∃ t ∈ QS, isPadK t = false)
    (l : List Tok → List (Ev α)) (R : List Tok → ParsedQuantity α → Prop)
    (hQ : ∀ Q, Spells Q QS → ∀ sq : BP α, sq.cs = cs → sq.ext = e →
      Sat (parseQuantity (α := α) Q) sq (fun r s' => Pushed (l Q) sq s' ∧ R Q r))
    (hT : T = tpre ++ (tB ++ tpost)) (hsB : Spells tB (c07p_comp tmS [] nameS tobS QS tcbS))
    (hpost : Spells tpost restS) (hrun : RunAt (baseOff T) T) :
    PlPieceAt (α := α) T cs e tpre ⟨tB, c07v_compSpec [] nameS QS tB (c07v_emptyNameCwQF T tpre l R)⟩ :=
  c07v_pieceAt_of sh _ T tpre tB tpost hT hsB hpost hrun (fun tm ms nameT tob Q tcb k2 k3 k5 sh' hT' hw => by
    have := k2.nil_inv
    subst this
    exact c07y_cookware_empty_name_qty_piece T tpre tpost cs e tm nameT tob Q tcb hT' hw sh'
      (c07x_alias_transfer k3 ha) (c07v_blank_transfer k3 hname _) (c07x_notpad_transfer k5 hne) (l Q) (R Q)
      (hQ Q k5))

/-- alias errors / empty name with an alias: the four pieces (ingredient / cookware, name before the first `|`
    non-blank / blank) on every actual block; the conditions are on the specification tokens -/
theorem c07v_alias_pieceAt (i : Nat) (hs : SimpleMods msS) (hQ : ∀ t ∈ QS, isPadK t = true)
    (he : e.has Gen.EXT_COMPONENT_ALIAS = true) (hi : nameS.findIdx? (fun t => t.kind == .or) = some i)
    (hT : T = tpre ++ (tB ++ tpost)) (hsB : Spells tB (c07p_comp tmS msS nameS tobS QS tcbS))
    (hpost : Spells tpost restS) (hrun : RunAt (baseOff T) T) :
    ((∃ t ∈ nameS.take i, plainKind t.kind = true ∧ NBs cs t.text) →
      (PlShape e .at tmS msS nameS tobS QS tcbS restS →
        PlPieceAt (α := α) T cs e tpre ⟨tB, c07v_compSpec msS nameS QS tB (c07v_aliasIngrF cs i T tpre)⟩) ∧
      (PlShape e .hash tmS msS nameS tobS QS tcbS restS →
        PlPieceAt (α := α) T cs e tpre ⟨tB, c07v_compSpec msS nameS QS tB (c07v_aliasCwF cs i T tpre)⟩)) ∧
    (padOK cs (nameS.take i) = true →
      (PlShape e .at tmS msS nameS tobS QS tcbS restS →
        PlPieceAt (α := α) T cs e tpre ⟨tB, c07v_compSpec msS nameS QS tB (c07v_enAliasIngrF cs i T tpre)⟩) ∧
      (PlShape e .hash tmS msS nameS tobS QS tcbS restS →
        PlPieceAt (α := α) T cs e tpre ⟨tB, c07v_compSpec msS nameS QS tB (c07v_enAliasCwF cs i T tpre)⟩)) := by
  refine ⟨fun hname => ⟨fun sh => ?_, fun sh => ?_⟩, fun hname => ⟨fun sh => ?_, fun sh => ?_⟩⟩
  · exact c07v_pieceAt_of sh _ T tpre tB tpost hT hsB hpost hrun (fun tm ms nameT tob Q tcb k2 k3 k5 sh' hT' hw =>
      c07w_ingredient_alias_piece T tpre tpost cs e tm ms nameT tob Q tcb i hT' hw sh' (c07v_simple_transfer k2 hs)
        (c07v_pad_transfer k5 hQ) he ((c07v_findIdx_transfer k3).trans hi)
        (c07x_name_transfer (c07v_spells_take k3 i) hname _))
  · exact c07v_pieceAt_of sh _ T tpre tB tpost hT hsB hpost hrun (fun tm ms nameT tob Q tcb k2 k3 k5 sh' hT' hw =>
      c07w_cookware_alias_piece T tpre tpost cs e tm ms nameT tob Q tcb i hT' hw sh' (c07v_simple_transfer k2 hs)
        (c07v_pad_transfer k5 hQ) he ((c07v_findIdx_transfer k3).trans hi)
        (c07x_name_transfer (c07v_spells_take k3 i) hname _))
  · exact c07v_pieceAt_of sh _ T tpre tB tpost hT hsB hpost hrun (fun tm ms nameT tob Q tcb k2 k3 k5 sh' hT' hw =>
      c07y_ingredient_empty_name_alias_piece T tpre tpost cs e tm ms nameT tob Q tcb i hT' hw sh'
        (c07v_simple_transfer k2 hs) (c07v_pad_transfer k5 hQ) he ((c07v_findIdx_transfer k3).trans hi)
        (c07v_blank_transfer (c07v_spells_take k3 i) hname _))
  · exact c07v_pieceAt_of sh _ T tpre tB tpost hT hsB hpost hrun (fun tm ms nameT tob Q tcb k2 k3 k5 sh' hT' hw =>
      c07y_cookware_empty_name_alias_piece T tpre tpost cs e tm ms nameT tob Q tcb i hT' hw sh'
        (c07v_simple_transfer k2 hs) (c07v_pad_transfer k5 hQ) he ((c07v_findIdx_transfer k3).trans hi)
        (c07v_blank_transfer (c07v_spells_take k3 i) hname _))

end

/-! ### the intermediate-reference group `@&( inner )name{}` (wave 9's `PlShapeI`, group alone) -/

/-- the actual block is `marker & ( inner ) name { Q }`, its parts spell the specified ones, its events are `F` of
    the actual parts -/
def c07v_interSpec (innerS nameS QS tB : List Tok)
    (F : Tok → Tok → Tok → List Tok → Tok → List Tok → Tok → List Tok → Tok → List (Ev α) → Prop)
    (evs : List (Ev α)) : Prop :=
  ∃ (tm tand top : Tok) (inner : List Tok) (tcp : Tok) (nameT : List Tok) (tob : Tok) (Q : List Tok) (tcb : Tok),
    tB = c07p_comp tm (c07i_mods [] tand top inner tcp []) nameT tob Q tcb ∧ top.kind = .openParen ∧
    tcp.kind = .closeParen ∧ Spells inner innerS ∧ Spells nameT nameS ∧ Spells Q QS ∧
    F tm tand top inner tcp nameT tob Q tcb evs

theorem c07v_spells_cons {t u : Tok} {ts spec : List Tok} (hk : t.kind = u.kind) (ht : t.text = u.text)
    (h : Spells ts spec) : Spells (t :: ts) (u :: spec) := by
  unfold Spells at *
  simp only [List.map_cons, Tok.kt, hk, ht, h]

/-- the non-blank tokens of the group spell those of the specification -/
theorem c07v_filter_transfer {ts spec : List Tok} (h : Spells ts spec) :
    Spells (ts.filter nonBlankTok) (spec.filter nonBlankTok) := by
  induction spec generalizing ts with
  | nil => rw [h.nil_inv]; exact Spells.rfl' _
  | cons u r ih =>
    obtain ⟨t, ts', rfl, hk, htx, hr⟩ := h.cons_inv
    have hnb : nonBlankTok t = nonBlankTok u := by unfold nonBlankTok; rw [hk]
    rw [List.filter_cons, List.filter_cons, hnb]
    cases nonBlankTok u with
    | true => exact c07v_spells_cons hk htx (ih hr)
    | false => exact ih hr

/-- tokens spelling `marker & ( inner ) name { Q }` are such a component, part by part, and the shape transfers -/
theorem c07v_inter_spells_inv {e : Ext} {k : TK} {tB : List Tok} {tmS tandS topS : Tok} {innerS : List Tok}
    {tcpS : Tok} {nameS : List Tok} {tobS : Tok} {QS : List Tok} {tcbS : Tok} {restS tpost : List Tok}
    (sh : PlShapeI e k tmS [] tandS topS innerS tcpS [] nameS tobS QS tcbS restS)
    (h : Spells tB (c07p_comp tmS (c07i_mods [] tandS topS innerS tcpS []) nameS tobS QS tcbS))
    (hpost : Spells tpost restS) :
    ∃ (tm tand top : Tok) (inner : List Tok) (tcp : Tok) (nameT : List Tok) (tob : Tok) (Q : List Tok) (tcb : Tok),
      tB = c07p_comp tm (c07i_mods [] tand top inner tcp []) nameT tob Q tcb ∧ Spells inner innerS ∧
      Spells nameT nameS ∧ Spells Q QS ∧
      PlShapeI e k tm [] tand top inner tcp [] nameT tob Q tcb tpost := by
  obtain ⟨tm, ms, nameT, tob, Q, tcb, rfl, k1, k2, k3, k4, k5, k6⟩ := c07d_comp_spells_inv h
  unfold c07i_mods at k2
  simp only [List.nil_append] at k2
  obtain ⟨tand, r1, rfl, ka, -, h1⟩ := k2.cons_inv
  obtain ⟨top, r2, rfl, ko, -, h2⟩ := h1.cons_inv
  obtain ⟨inner, r3, rfl, ki, h3⟩ := h2.append_inv
  obtain ⟨tcp, rfl, kc, -⟩ := h3.single_inv
  refine ⟨tm, tand, top, inner, tcp, nameT, tob, Q, tcb, by simp [c07i_mods], ki, k3, k5, ?_⟩
  refine ⟨by rw [k1]; exact sh.hk, sh.hmod, sh.hint, (by intro m hm; cases hm), ka.trans sh.hand, ko.trans sh.hop,
    c07d_kind_of_spells ki (fun k => k ≠ .closeParen) sh.hin, kc.trans sh.hcp, (by intro m hm; cases hm), ?_,
    c07d_kind_of_spells k3 (fun k => (k == .openBrace || isMarker k) = false) sh.hn, k4.trans sh.hob,
    c07d_kind_of_spells k5 (fun k => k ≠ .closeBrace) sh.hQ, k6.trans sh.hcb, ?_⟩
  · intro x hx
    cases nameS with
    | nil =>
      rw [k3.nil_inv] at hx
      simp only [List.nil_append, List.head?_cons, Option.some.injEq] at hx
      subst hx
      rw [k4]; exact sh.hx tobS rfl
    | cons u r =>
      obtain ⟨a, r', rfl, ka', -, -⟩ := k3.cons_inv
      simp only [List.cons_append, List.head?_cons, Option.some.injEq] at hx
      subst hx
      rw [ka']; exact sh.hx u rfl
  · intro t ht
    have hh := hpost.head_kind
    rw [ht] at hh
    cases hr : restS.head? with
    | none => rw [hr] at hh; simp at hh
    | some u =>
      rw [hr] at hh
      simp only [Option.map_some, Option.some.injEq] at hh
      rw [hh]; exact sh.hrest u hr

end Cook
