import CookModel.Lemmas.CollectorOrder
/-
  C06: one description of what an event does to the part of the collector state the reference
  clauses talk about (sections, current section, open block, ingredient and cookware tables).
  `Trans env b s s'` has one constructor per kind of change; the invariants about back-links
  (Lemmas/CollectorBack.lean) and intermediate references (Lemmas/CollectorInterRef.lean) are proved
  against it instead of against the monadic code.
-/
set_option linter.unusedSectionVars false
set_option linter.unusedSimpArgs false
set_option linter.unusedVariables false
namespace Cook
variable {α : Type} [Arith α]

def Ev.isSec : Ev α → Bool
  | .«section» _ => true
  | _ => false

/-- what one event does to sections / current section / open block / ingredient and cookware tables;
    `ev` is the event: only a `Section` event can give `newSection`, and an empty text item can only come
    from a `Text` event whose text is empty -/
inductive Trans (env : Env) (ev : Ev α) (s s' : Col α) : Prop
  /-- nothing but the open block changes: it is emptied or replaced, or gets items that are neither
      ingredient nor cookware items -/
  | keep (hsec : s'.sections = s.sections) (hcur : s'.cur = s.cur) (hi : s'.ingredients = s.ingredients)
      (hc : s'.cookware = s.cookware)
      (hb : blockItems s'.block = [] ∨ ∃ extra, blockItems s'.block = blockItems s.block ++ extra ∧
         extra.filterMap Item.ingrIdx = [] ∧ extra.filterMap Item.cwIdx = [] ∧
         ∀ v, Item.text v ∈ extra → v ≠ [] ∨ ∃ t, ev = .text t ∧ v = t.text)
  /-- a `Section` event: the current section is finished (pushed unless empty), a new one starts -/
  | newSection (name : Option Str) (hsecEv : ev.isSec = true)
      (hsec : s'.sections = if (!s.cur.isEmpty) = true then s.sections ++ [s.cur] else s.sections)
      (hcur : s'.cur = ⟨name, []⟩) (hi : s'.ingredients = s.ingredients) (hc : s'.cookware = s.cookware)
      (hb : s'.block = s.block)
  /-- an `End` event that pushes the open block at the end of the current section -/
  | pushBlock (c : Content) (hsec : s'.sections = s.sections)
      (hcur : s'.cur = { s.cur with content := s.cur.content ++ [c] })
      (hi : s'.ingredients = s.ingredients) (hc : s'.cookware = s.cookware) (hb : s'.block = none)
      (hitems : contentItems c = blockItems s.block)
  /-- an ingredient in a step block: the table gets a new last entry (after the back-link update), the
      block the item with the new index -/
  | ingr (ings : Array (Ingredient (ScalableValue α))) (igr : Ingredient (ScalableValue α))
      (hsec : s'.sections = s.sections) (hcur : s'.cur = s.cur)
      (hi : s'.ingredients = ings.push igr) (hsz : ings.size = s.ingredients.size) (hstep : IngrStep env s ings igr)
      (hc : s'.cookware = s.cookware)
      (hb : blockItems s'.block = blockItems s.block ++ [Item.ingredient s.ingredients.size])
  /-- a cookware item in a step block -/
  | cw (cws : Array (Cookware (ScalableValue α))) (cwn : Cookware (ScalableValue α))
      (hsec : s'.sections = s.sections) (hcur : s'.cur = s.cur) (hi : s'.ingredients = s.ingredients)
      (hc : s'.cookware = cws.push cwn) (hsz : cws.size = s.cookware.size) (hstep : CwStep env s cws cwn)
      (hb : blockItems s'.block = blockItems s.block ++ [Item.cookware s.cookware.size])

theorem Trans.same {env : Env} {b : Ev α} {s s' : Col α} (hsec : s'.sections = s.sections) (hcur : s'.cur = s.cur)
    (hi : s'.ingredients = s.ingredients) (hc : s'.cookware = s.cookware) (hb : s'.block = s.block) : Trans env b s s' :=
  .keep hsec hcur hi hc (Or.inr ⟨[], by rw [hb]; simp, rfl, rfl, fun v hv => by cases hv⟩)

theorem Trans.of_coreEq {env : Env} {b : Ev α} {s s' : Col α} (h : CoreEq s s') : Trans env b s s' := by
  obtain ⟨h1, h2, h3, h4, h5, h6, h7, h8, h9, h10⟩ := h
  rcases h10 with h10 | ⟨t, ht⟩
  · exact .same h1 h2 h3 h4 h10
  · exact .keep h1 h2 h3 h4 (Or.inl (by rw [ht]; rfl))

/-- the text items `inlineLoop` adds are not empty -/
theorem inlineLoop_text_ne (env : Env) (fuel : Nat) (hay : Str) (items : List Item) (iq : Array (Quantity (Value α))) :
    ∃ extra, (inlineLoop env fuel hay items iq).1 = items ++ extra ∧ ∀ v, Item.text v ∈ extra → v ≠ [] := by
  induction fuel generalizing hay items iq with
  | zero =>
    unfold inlineLoop
    exact ⟨[], by simp, fun v hv => by cases hv⟩
  | succ fuel ih =>
    unfold inlineLoop
    split
    · rename_i hit _
      dsimp only
      obtain ⟨extra, he, hne⟩ := ih hit.after
        ((if hit.before.isEmpty = true then items else items ++ [Item.text hit.before]) ++ [Item.inlineQuantity iq.size])
        (iq.push hit.q)
      refine ⟨(if hit.before.isEmpty = true then [] else [Item.text hit.before]) ++ [Item.inlineQuantity iq.size] ++ extra,
        ?_, ?_⟩
      · rw [he]; split <;> simp [List.append_assoc]
      · intro v hv
        simp only [List.mem_append, List.mem_singleton, reduceCtorEq, or_false] at hv
        rcases hv with hv | hv
        · split at hv
          · cases hv
          · rename_i hb
            simp only [List.mem_singleton, Item.text.injEq] at hv
            subst hv
            intro hc; rw [hc] at hb; exact hb rfl
        · exact hne v hv
    · refine ⟨if hay.isEmpty = true then [] else [Item.text hay], ?_, ?_⟩
      · split <;> simp
      · intro v hv
        split at hv
        · cases hv
        · rename_i hb
          simp only [List.mem_singleton, Item.text.injEq] at hv
          subst hv
          intro hc; rw [hc] at hb; exact hb rfl

theorem inStepTextStep_trans (env : Env) (t : Text) (items : List Item) (s : Col α)
    (hb : s.block = some (.step items)) : Trans env (.text t) s (inStepTextStep env t items s).2 := by
  unfold inStepTextStep
  simp +instances only [A_bind, A_get, A_ite, A_modify, A_pure, awarn]
  split
  · split
    · exact .same rfl rfl rfl rfl rfl
    · exact .same rfl rfl rfl rfl rfl
  · split
    · obtain ⟨extra, he, e1, e2, e3, e4⟩ := inlineLoop_order env (t.text.length + 1) t.text items s.inlineQ
      refine .keep rfl rfl rfl rfl (Or.inr ⟨extra, ?_, e1, e2, ?_⟩)
      · rw [hb]
        exact he
      · intro v hv
        left
        obtain ⟨extra2, he2, hne⟩ := inlineLoop_text_ne env (t.text.length + 1) t.text items s.inlineQ
        have : extra = extra2 := List.append_cancel_left (he.symm.trans he2)
        exact hne v (this ▸ hv)
    · refine .keep rfl rfl rfl rfl (Or.inr ⟨[Item.text t.text], ?_, rfl, rfl, ?_⟩)
      · rw [hb]; rfl
      · intro v hv
        simp only [List.mem_singleton, Item.text.injEq] at hv
        exact Or.inr ⟨t, rfl, hv⟩

theorem inStepText_trans (env : Env) (t : Text) (s : Col α) : Trans env (.text t) s (inStepText env t s).2 := by
  unfold inStepText
  simp +instances only [A_bind, A_get]
  cases hb : s.block with
  | none =>
    simp only []
    exact .of_coreEq ((DiagOnly.apanic _).coreOnly.out s)
  | some buf =>
    cases buf with
    | step items => simp only []; exact inStepTextStep_trans env t items s hb
    | text b =>
      simp only [A_modify]
      exact .keep rfl rfl rfl rfl (Or.inl rfl)

theorem inStepComponent_trans {b : Ev α} (env : Env) (input : Str) (ev : Ev α) (items : List Item) (s : Col α) (hi : Inv env s)
    (hb : s.block = some (.step items)) (hev : EvOK ev) : Trans env b s (inStepComponent env input ev s).2 := by
  unfold inStepComponent
  have hpanic : Trans env b s (apanic "Unexpected event in step" s).2 :=
    .of_coreEq ((DiagOnly.apanic _).coreOnly.out s)
  cases ev with
  | ingredient li =>
    simp only [A_bind]
    obtain ⟨dg, p, ings, igr, h1, h2, h3⟩ := ingredientA_spec env input li s hi.locI hi.itab.nonREF_def hev
    have hblk : (ingredientA env input li s).2.block = s.block := by rw [h1]
    rw [pushItem_step' _ items s (ingredientA env input li s).2 hblk hb, h1]
    simp only []
    exact .ingr ings igr rfl rfl rfl h2 h3 rfl (by rw [hb]; rfl)
  | cookware lc =>
    simp only [A_bind]
    obtain ⟨dg, p, cws, cw, h1, h2, h3⟩ := cookwareA_spec env input lc s hi.locC hi.ctab.nonREF_def
    have hblk : (cookwareA env input lc s).2.block = s.block := by rw [h1]
    rw [pushItem_step' _ items s (cookwareA env input lc s).2 hblk hb, h1]
    simp only []
    exact .cw cws cw rfl rfl rfl rfl h2 h3 (by rw [hb]; rfl)
  | timer lt =>
    simp only [A_bind]
    obtain ⟨dg, p, tm, h1, h2, h3⟩ := timerA_spec env lt s
    have hblk : (timerA env lt s).2.block = s.block := by rw [h1]
    rw [pushItem_step' _ items s (timerA env lt s).2 hblk hb, h1]
    simp only []
    exact .keep rfl rfl rfl rfl (Or.inr ⟨[Item.timer s.timers.size], by rw [hb]; rfl, rfl, rfl, fun v hv => by simp at hv⟩)
  | frontMatter _ => exact hpanic
  | metadata _ _ => exact hpanic
  | «section» _ => exact hpanic
  | start _ => exact hpanic
  | stop _ => exact hpanic
  | text _ => exact hpanic
  | error _ => exact hpanic
  | warning _ => exact hpanic

theorem inBlockComponent_trans {b : Ev α} (env : Env) (input : Str) (ev : Ev α) (s : Col α) (hi : Inv env s) (hev : EvOK ev) :
    Trans env b s (inBlockComponent env input ev s).2 := by
  unfold inBlockComponent
  simp +instances only [A_bind, A_get]
  cases hb : s.block with
  | none =>
    simp only []
    exact .of_coreEq ((DiagOnly.apanic _).coreOnly.out s)
  | some buf =>
    cases buf with
    | step items => simp only []; exact inStepComponent_trans env input ev items s hi hb hev
    | text b => simp only []; exact .of_coreEq ((inTextComponent_coreOnly input ev b).out s)

theorem endBlock_trans {b : Ev α} (env : Env) (kind : BlockKind) (s : Col α) : Trans env b s (endBlock kind s).2 := by
  unfold endBlock
  simp +instances only [A_bind, A_modify]
  obtain ⟨d, p, h⟩ := (endBlockContent_diagOnly kind).out s
  have hv := endBlockContent_val kind s
  have hplain : ∀ (d' : Array Diag) (p' : Option String),
      Trans env b s { s with diags := d', panic := p', block := none } :=
    fun d' p' => .keep rfl rfl rfl rfl (Or.inl rfl)
  rw [hv]
  cases hb : s.block with
  | none =>
    simp only [A_pure, h]
    exact hplain d p
  | some buf =>
    cases buf with
    | step items =>
      simp only []
      unfold pushContent
      simp +instances only [A_bind, A_get, A_ite, A_modify, A_pure, h]
      split
      · exact .pushBlock (.step ⟨items, s.stepCounter⟩) rfl rfl rfl rfl rfl (by rw [hb]; rfl)
      · exact hplain d p
    | text t =>
      simp only []
      unfold pushContent
      simp +instances only [A_bind, A_get, A_ite, A_modify, A_pure, h]
      split
      · exact .pushBlock (.text t) rfl rfl rfl rfl rfl (by rw [hb]; rfl)
      · exact hplain d p

/-- **every event is one of the five kinds of change** -/
theorem processEvent_trans (env : Env) (input : Str) (ev : Ev α) (s : Col α) (hi : Inv env s) (hev : EvOK ev) :
    Trans env ev s (processEvent env input ev s).2 := by
  cases ev with
  | frontMatter t =>
    simp only [processEvent, A_modify]
    exact .same rfl rfl rfl rfl rfl
  | metadata k v =>
    simp only [processEvent]
    exact .of_coreEq ((metadataA_coreOnly env k v).out s)
  | «section» name =>
    simp only [processEvent, A_modify]
    exact .newSection (name.map (·.trimmed env.cs)) rfl rfl rfl rfl rfl rfl
  | start kind =>
    simp only [processEvent, A_modify]
    refine .keep rfl rfl rfl rfl (Or.inl ?_)
    dsimp only
    split
    · rfl
    · cases kind <;> rfl
  | stop kind => simp only [processEvent]; exact endBlock_trans env kind s
  | text t => simp only [processEvent]; exact inStepText_trans env t s
  | ingredient i => simp only [processEvent]; exact inBlockComponent_trans env input _ s hi hev
  | cookware c => simp only [processEvent]; exact inBlockComponent_trans env input _ s hi hev
  | timer t => simp only [processEvent]; exact inBlockComponent_trans env input _ s hi hev
  | error d => simp only [processEvent]; exact .same rfl rfl rfl rfl rfl
  | warning d =>
    simp only [processEvent, A_modify]
    exact .same rfl rfl rfl rfl rfl

end Cook
