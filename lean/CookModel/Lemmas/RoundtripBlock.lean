import CookModel.Lemmas.RoundtripStepX
/-
  C01, block layer: `parse_block` (through `runBlock`: `BlockParser::new`, `parse_block`, `finish`)
  on the tokens of one block — a step, a section line, a `>>` metadata line — gives exactly the
  intended events.  (`rtb_` prefix.)
-/
set_option linter.unusedSectionVars false
set_option linter.unusedSimpArgs false
set_option linter.unusedVariables false
namespace Cook

variable {α : Type} [Arith α]

/-! ### a step block -/

/-- the first token of a step block is not `>>`, `=` or `>`, and some token is not blank -/
def stepBlockOK (ts : List Tok) : Bool :=
  ts.head?.all (fun t => t.kind != .metaStart && t.kind != .eq && t.kind != .textStep) &&
  ts.any (fun t => !isEmptyTok t.kind)

theorem stepBlockOK_transfer {ts spec : List Tok} (hs : Spells ts spec) (h : stepBlockOK spec = true) :
    stepBlockOK ts = true := by
  unfold stepBlockOK at *
  simp only [Bool.and_eq_true] at h ⊢
  constructor
  · have hk := hs.head_kind
    cases hr : spec.head? with
    | none =>
      rw [hr] at hk
      cases ht : ts.head? with
      | none => rfl
      | some t => rw [ht] at hk; simp at hk
    | some u =>
      have h1 := h.1
      rw [hr] at hk h1
      cases ht : ts.head? with
      | none => rfl
      | some t =>
        rw [ht] at hk
        simp only [Option.map_some, Option.some.injEq] at hk
        simp only [Option.all_some] at h1 ⊢
        rw [hk]; exact h1
  · have h2 := h.2
    rw [List.any_eq_true] at h2 ⊢
    obtain ⟨u, hu, hk⟩ := h2
    obtain ⟨t, ht, hkt, -⟩ := hs.mem' hu
    exact ⟨t, ht, by rw [hkt]; exact hk⟩

theorem rtb_runBlock_step (segs : List SegX) (cs : CharSpec) (ext : Ext) (oldStyle : Bool) (ts : List Tok)
    (evs0 : Array (Ev α)) (panic : Option String)
    (hs : Spells ts (segs.flatMap SegX.spell)) (hrun : RunAt (baseOff ts) ts)
    (hok : segsXOK cs ext segs = true) (hb : stepBlockOK ts = true) :
    ∃ (evs : List (Ev α)) (arr : Array (Ev α)),
      runBlock cs ext oldStyle ts evs0 panic = (arr, panic) ∧
      arr.toList = evs0.toList ++ [.start .step] ++ evs ++ [.stop .step] ∧ SegsXEvs cs segs evs := by
  simp only [stepBlockOK, Bool.and_eq_true] at hb
  obtain ⟨hhead, hany⟩ := hb
  obtain ⟨evs, arr, hstep, harr, hall⟩ := rt_parseStepX segs (⟨ts, 0, ext, cs, evs0, panic⟩ : BP α) ts hs rfl rfl hrun hok
  refine ⟨evs, arr, ?_, harr, hall⟩
  have hne : ts.isEmpty = false := by
    cases ts with
    | nil => simp at hany
    | cons _ _ => rfl
  have hpk := peekK_split (⟨ts, 0, ext, cs, evs0, panic⟩ : BP α) [] ts rfl rfl
  have hall' : ts.all (fun t => isEmptyTok t.kind) = false := by
    rw [Bool.eq_false_iff]
    intro hall'
    rw [List.any_eq_true] at hany
    obtain ⟨t, ht, hk⟩ := hany
    rw [List.all_eq_true] at hall'
    have := hall' t ht
    rw [this] at hk; cases hk
  obtain ⟨t0, tr, rfl⟩ : ∃ t0 tr, ts = t0 :: tr := by
    cases ts with
    | nil => simp at hne
    | cons a b => exact ⟨a, b, rfl⟩
  simp only [List.head?_cons, Option.all_some, Bool.and_eq_true, bne_iff_ne, ne_eq] at hhead
  obtain ⟨⟨hk1, hk2⟩, hk3⟩ := hhead
  unfold runBlock
  simp only [hne, Bool.false_eq_true, if_false, bind, StateT.bind, pure, StateT.pure]
  have hpb : parseBlock (α := α) oldStyle ⟨t0 :: tr, 0, ext, cs, evs0, panic⟩ =
      ((), { (⟨t0 :: tr, 0, ext, cs, evs0, panic⟩ : BP α) with cur := (t0 :: tr).length, evs := arr }) := by
    unfold parseBlock
    simp only [bind, StateT.bind, hpk, List.head?_cons, Option.map_some]
    have hml : parseMultilineBlock (α := α) ⟨t0 :: tr, 0, ext, cs, evs0, panic⟩ =
        ((), { (⟨t0 :: tr, 0, ext, cs, evs0, panic⟩ : BP α) with cur := (t0 :: tr).length, evs := arr }) := by
      unfold parseMultilineBlock
      simp only [bind, StateT.bind, allToks, get, getThe, MonadStateOf.get, StateT.get, pure, StateT.pure, hall',
        Bool.false_eq_true, if_false, hpk, List.head?_cons, Option.map_some]
      have : (some t0.kind == some TK.textStep) = false := by simp [hk3]
      simp only [this, Bool.false_eq_true, if_false]
      exact hstep
    cases hk : t0.kind <;> simp [hk] at hk1 hk2 <;> simp only [pure, StateT.pure, hml]
  rw [hpb]
  simp only [get, getThe, MonadStateOf.get, StateT.get, ne_eq, not_true_eq_false, if_false, pure, StateT.pure]

/-! ### a section line -/

theorem Spells.replicate_inv {ts : List Tok} {n : Nat} {u : Tok} (h : Spells ts (List.replicate n u)) :
    ts.length = n ∧ ∀ t ∈ ts, t.kind = u.kind := by
  refine ⟨by simpa using h.length, ?_⟩
  intro t ht
  obtain ⟨u', hu', hk, -⟩ := h.mem ht
  rw [List.mem_replicate] at hu'
  rw [hk, hu'.2]

def SectionMatches (cs : CharSpec) (name : Option (List Tok)) : Ev α → Prop
  | .section t => t.map (fun x => x.trimmed cs) = name.map leafText
  | _ => False

/-- side conditions of a section line: the name is a leaf without `=`; an unnamed section
    written with trailing `=` has a blank between the two runs (otherwise they are one run) -/
def sectionOK (cs : CharSpec) (name : Option (List Tok)) (p : SPad) : Bool :=
  p.ok cs &&
  (match name with
    | some n => leafOK cs sectionKind n
    | none => !p.a.isEmpty || !p.b.isEmpty || p.n1 == 0)

theorem sectionKind_not_eq {k : TK} (h : sectionKind k = true ∨ k = .ws ∨ k = .blockComment) : k ≠ .eq := by
  rcases h with h | h | h
  · cases k <;> simp [sectionKind, nameKind] at h ⊢
  · subst h; simp
  · subst h; simp

theorem rtb_sectionP (name : Option (List Tok)) (p : SPad) (s : BP α) (hok : sectionOK s.cs name p = true)
    (ts : List Tok) (hs : Spells ts (spellSection name p)) (ht : s.toks = ts) (hc : s.cur = 0)
    (hrun : RunAt (baseOff ts) ts) :
    ∃ ev : Ev α, sectionP s = (some ev, { s with cur := ts.length }) ∧ SectionMatches s.cs name ev := by
  subst ht
  simp only [sectionOK, Bool.and_eq_true] at hok
  obtain ⟨hp, hname⟩ := hok
  simp only [SPad.ok, Bool.and_eq_true] at hp
  obtain ⟨⟨hpa, hpb⟩, hpc⟩ := hp
  simp only [spellSection] at hs
  obtain ⟨r1, tail, hts, hs1, htail⟩ := hs.append_inv
  obtain ⟨eqs, mid, rfl, heqs, hmid⟩ := hs1.append_inv
  obtain ⟨r2, tb, rfl, hs2, htb⟩ := hmid.append_inv
  obtain ⟨ta, nm, rfl, hta, hnm⟩ := hs2.append_inv
  obtain ⟨heqlen, heqk⟩ := heqs.replicate_inv
  simp only [tk] at heqk
  obtain ⟨e0, er, rfl⟩ : ∃ e0 er, eqs = e0 :: er := by
    cases eqs with
    | nil => simp at heqlen
    | cons a b => exact ⟨a, b, rfl⟩
  -- the tail: `=`s and blanks
  obtain ⟨eq2, tc, htaileq, heq2k, htck, hn1, hnil⟩ : ∃ eq2 tc, tail = eq2 ++ tc ∧ (∀ t ∈ eq2, t.kind = .eq) ∧
      (∀ t ∈ tc, t.kind = .ws ∨ t.kind = .blockComment) ∧ (p.n1 = 0 → eq2 = [] ∧ tc = []) ∧ (eq2 = [] → tc = []) := by
    by_cases hn : p.n1 = 0
    · simp only [hn, if_true] at htail
      rw [htail.nil_inv]
      exact ⟨[], [], rfl, by simp, by simp, fun _ => ⟨rfl, rfl⟩, fun _ => rfl⟩
    · simp only [hn, if_false] at htail
      obtain ⟨eq2, tc, rfl, heq2, htc⟩ := htail.append_inv
      refine ⟨eq2, tc, rfl, ?_, pad_kinds hpc htc, fun h => absurd h hn, ?_⟩
      · have := heq2.replicate_inv.2
        simpa [tk] using this
      · intro h0
        have := heq2.replicate_inv.1
        rw [h0] at this; simp at this; omega
  subst htaileq
  -- kinds of the middle part
  have hmidk : ∀ t ∈ ta ++ nm ++ tb, t.kind ≠ .eq := by
    intro t ht'
    simp only [List.mem_append] at ht'
    rcases ht' with (ht' | ht') | ht'
    · exact sectionKind_not_eq (Or.inr (pad_kinds hpa hta t ht'))
    · cases hcn : name with
      | none => rw [hcn] at hnm; simp only [spellOptLeaf] at hnm; rw [hnm.nil_inv] at ht'; simp at ht'
      | some n =>
        rw [hcn] at hnm hname
        simp only [spellOptLeaf] at hnm
        rcases leaf_kinds hname hnm t ht' with h' | h'
        · exact sectionKind_not_eq (Or.inl h')
        · exact sectionKind_not_eq (Or.inr (Or.inl h'))
    · exact sectionKind_not_eq (Or.inr (pad_kinds hpb htb t ht'))
  -- if the middle is empty there is no tail
  have hmid_empty : ta ++ nm ++ tb = [] → eq2 = [] ∧ tc = [] := by
    intro hmt
    apply hn1
    simp only [List.append_eq_nil_iff] at hmt
    cases hcn : name with
    | some n =>
      rw [hcn] at hnm hname
      simp only [spellOptLeaf] at hnm
      obtain ⟨u, ur, hu, -⟩ := (leafOK_facts hname).head
      have := hnm.length; rw [hmt.1.2, hu] at this; simp at this
    | none =>
      rw [hcn] at hname
      have h1 := hta.length; rw [hmt.1.1] at h1
      have h2 := htb.length; rw [hmt.2] at h2
      simp only [List.length_nil] at h1 h2
      have ha : p.a = [] := List.length_eq_zero_iff.mp h1.symm
      have hb : p.b = [] := List.length_eq_zero_iff.mp h2.symm
      simp only [ha, hb, List.isEmpty_nil, Bool.not_true, Bool.false_or, beq_iff_eq] at hname
      exact hname
  have e1 : s.toks = [] ++ e0 :: (er ++ ((ta ++ nm ++ tb) ++ (eq2 ++ tc))) := by rw [hts]; simp
  have h1 := consumeK_split_some .eq s [] e0 _ e1 (by simpa using hc) (heqk e0 (by simp))
  have h2 := consumeWhile_split (fun k => k == .eq) ({ s with cur := ([] : List Tok).length + 1 } : BP α) [e0] er
    ((ta ++ nm ++ tb) ++ (eq2 ++ tc)) (by rw [e1]; simp) (by lenarith)
    (by intro t ht'; simp [heqk t (by simp [ht'])])
    (by
      intro t ht'
      cases hm : ta ++ nm ++ tb with
      | nil => rw [hm, (hmid_empty hm).1, (hmid_empty hm).2] at ht'; simp at ht'
      | cons y ys =>
        rw [hm] at ht'; simp at ht'; subst ht'
        simpa using hmidk y (by rw [hm]; simp))
  have h3 := consumeWhile_split (fun k => k != .eq) ({ s with cur := [e0].length + er.length } : BP α) (e0 :: er)
    (ta ++ nm ++ tb) (eq2 ++ tc) (by rw [e1]; simp) (by lenarith)
    (by intro t ht'; simpa using hmidk t ht')
    (by
      intro t ht'
      cases heq2 : eq2 with
      | nil => rw [heq2, hnil heq2] at ht'; simp at ht'
      | cons y ys =>
        rw [heq2] at ht'; simp at ht'; subst ht'
        simp [heq2k y (by rw [heq2]; simp)])
  have h4 := consumeWhile_split (fun k => k == .eq)
    ({ s with cur := (e0 :: er).length + (ta ++ nm ++ tb).length } : BP α) (e0 :: er ++ (ta ++ nm ++ tb)) eq2 tc
    (by rw [e1]; simp) (by lenarith)
    (by intro t ht'; simp [heq2k t ht'])
    (by
      intro t ht'
      have := htck t (List.mem_of_mem_head? ht')
      rcases this with h' | h' <;> simp [h'])
  have h5 := consumeWhile_split isWsComment
    ({ s with cur := (e0 :: er ++ (ta ++ nm ++ tb)).length + eq2.length } : BP α)
    (e0 :: er ++ (ta ++ nm ++ tb) ++ eq2) tc [] (by rw [e1]; simp) (by lenarith)
    (by intro t ht'; rcases htck t ht' with h' | h' <;> simp [isWsComment, h'])
    (by intro t ht'; simp at ht')
  have hrunName : RunAt (offAt s.toks ([e0].length + er.length)) (ta ++ nm ++ tb) := by
    have := rt_runAt_mid hrun (e0 :: er) (ta ++ nm ++ tb) (eq2 ++ tc) (by rw [e1]; simp)
    have e2 : (e0 :: er).length = [e0].length + er.length := by lenarith
    rwa [e2] at this
  have hnameR : ∀ off, (if (buildText off (ta ++ nm ++ tb)).isTextEmpty s.cs then none
        else some (buildText off (ta ++ nm ++ tb))).map (fun x => x.trimmed s.cs) = name.map leafText := by
    intro off
    cases hcn : name with
    | none =>
      rw [hcn] at hnm; simp only [spellOptLeaf] at hnm
      have := hnm.nil_inv; subst this
      have := rtt_buildText_pad_empty (cs := s.cs) off (ta ++ [] ++ tb)
        (by
          have h1 := hta.padOK_of hpa
          have h2 := htb.padOK_of hpb
          unfold padOK at *
          simp [List.all_append, h1, h2])
      rw [this]; rfl
    | some n =>
      rw [hcn] at hnm hname
      simp only [spellOptLeaf] at hnm
      have := rt_leaf_text (cs := s.cs) (allowed := sectionKind) (pre := p.a) (l := n) (post := p.b)
        (ts := ta ++ nm ++ tb) ((hta.append hnm).append htb) hpa hpb hname off
      rw [this.2]
      simp only [Bool.false_eq_true, if_false, Option.map_some, this.1]
  have hlenfin : (e0 :: er ++ (ta ++ nm ++ tb) ++ eq2).length + tc.length = s.toks.length := by
    rw [hts]; simp only [List.length_append, List.length_cons]; omega
  rw [hlenfin] at h5
  have hdrop : (s.toks.drop s.toks.length) = [] := by simp
  refine ⟨.section (if (buildText (offAt s.toks ([e0].length + er.length)) (ta ++ nm ++ tb)).isTextEmpty s.cs then none
        else some (buildText (offAt s.toks ([e0].length + er.length)) (ta ++ nm ++ tb))), ?_, hnameR _⟩
  unfold sectionP wsComments
  simp only [bind, StateT.bind, h1, h2, currentOffset_run, h3, bpText_run hrunName, h4, h5, restToks_run, hdrop,
    List.isEmpty_nil, Bool.not_true, Bool.false_eq_true, if_false, get, getThe, MonadStateOf.get, StateT.get, pure,
    StateT.pure]

theorem rtb_runBlock_section (name : Option (List Tok)) (p : SPad) (cs : CharSpec) (ext : Ext) (oldStyle : Bool)
    (ts : List Tok) (evs0 : Array (Ev α)) (panic : Option String) (hok : sectionOK cs name p = true)
    (hs : Spells ts (spellSection name p)) (hrun : RunAt (baseOff ts) ts) :
    ∃ ev : Ev α, runBlock cs ext oldStyle ts evs0 panic = (evs0.push ev, panic) ∧ SectionMatches cs name ev := by
  obtain ⟨ev, hsec, hm⟩ := rtb_sectionP name p (⟨ts, 0, ext, cs, evs0, panic⟩ : BP α) hok ts hs rfl rfl hrun
  refine ⟨ev, ?_, hm⟩
  obtain ⟨t0, tr, hts, hk0⟩ : ∃ t0 tr, ts = t0 :: tr ∧ t0.kind = .eq := by
    simp only [spellSection, List.replicate_succ, List.cons_append] at hs
    obtain ⟨t, r, rfl, hk, -, -⟩ := hs.cons_inv
    exact ⟨t, r, rfl, hk⟩
  have hne : ts.isEmpty = false := by rw [hts]; rfl
  have hpk := peekK_split (⟨ts, 0, ext, cs, evs0, panic⟩ : BP α) [] ts rfl rfl
  unfold runBlock
  simp only [hne, Bool.false_eq_true, if_false, bind, StateT.bind, pure, StateT.pure]
  have hpb : parseBlock (α := α) oldStyle ⟨ts, 0, ext, cs, evs0, panic⟩ =
      ((), { (⟨ts, 0, ext, cs, evs0, panic⟩ : BP α) with cur := ts.length, evs := evs0.push ev }) := by
    unfold parseBlock
    simp only [bind, StateT.bind, hpk]
    rw [hts] at hpk ⊢
    simp only [List.head?_cons, Option.map_some, hk0]
    rw [← hts]
    simp only [withRecover_run, hsec, Option.isNone_some, Bool.false_eq_true, if_false, pure, StateT.pure, pushEv_run]
  rw [hpb]
  simp only [get, getThe, MonadStateOf.get, StateT.get, ne_eq, not_true_eq_false, if_false, pure, StateT.pure]

/-! ### a `>>` metadata line -/

def MetaMatches (cs : CharSpec) (key value : List Tok) : Ev α → Prop
  | .metadata k v => k.trimmed cs = leafText key ∧ v.trimmed cs = leafText value ∧ v.outerTrimmed cs = leafText value
  | _ => False

/-- the text assembled from a padded leaf, trimmed at both ends only (`Text::text_outer_trimmed`, what the
    analysis stores as a metadata value), is the leaf's string -/
theorem rt_leaf_outerTrimmed {cs : CharSpec} {allowed : TK → Bool} {pre l post ts : List Tok}
    (hs : Spells ts (pre ++ l ++ post)) (hpre : padOK cs pre = true) (hpost : padOK cs post = true)
    (hl : leafOK cs allowed l = true) (off : Nat) :
    (buildText off ts).outerTrimmed cs = leafText l := by
  have lf := leafOK_facts hl
  unfold Text.outerTrimmed
  rw [buildText_text, hs.vis_eq]
  simp only [List.flatMap_append]
  rw [leaf_vis lf, rt_trim_leaf lf _ _ (pad_vis_uws hpre) (pad_vis_uws hpost)]

def metaOK (cs : CharSpec) (key value : List Tok) (p : MPad) : Bool :=
  p.ok cs && leafOK cs keyKind key && leafOK cs metaValKind value

theorem keyKind_not_colon {k : TK} (h : keyKind k = true ∨ k = .ws ∨ k = .blockComment) : k ≠ .colon := by
  rcases h with h | h | h
  · cases k <;> simp [keyKind, nameKind] at h ⊢
  · subst h; simp
  · subst h; simp

theorem rtb_metadataEntry (key value : List Tok) (p : MPad) (s : BP α) (hok : metaOK s.cs key value p = true)
    (ts : List Tok) (hs : Spells ts (spellMeta key value p)) (ht : s.toks = ts) (hc : s.cur = 0)
    (hrun : RunAt (baseOff ts) ts) :
    ∃ k v : Text, metadataEntry s = (some (.metadata k v), { s with cur := ts.length }) ∧
      k.trimmed s.cs = leafText key ∧ v.trimmed s.cs = leafText value ∧ v.outerTrimmed s.cs = leafText value := by
  subst ht
  simp only [metaOK, Bool.and_eq_true] at hok
  obtain ⟨⟨hp, hkey⟩, hval⟩ := hok
  simp only [MPad.ok, Bool.and_eq_true] at hp
  obtain ⟨⟨⟨hpa, hpb⟩, hpc⟩, hpd⟩ := hp
  simp only [spellMeta, List.append_assoc, List.cons_append, List.nil_append] at hs
  obtain ⟨tm, r, hts, hmk, -, hs⟩ := hs.cons_inv
  obtain ⟨ta, r, rfl, hta, hs⟩ := hs.append_inv
  obtain ⟨tk', r, rfl, htk, hs⟩ := hs.append_inv
  obtain ⟨tb, r, rfl, htb, hs⟩ := hs.append_inv
  obtain ⟨tcol, r, rfl, hcolk, -, hs⟩ := hs.cons_inv
  obtain ⟨tc, r, rfl, htc, hs⟩ := hs.append_inv
  obtain ⟨tv, td, rfl, htv, htd⟩ := hs.append_inv
  simp only [tk] at hmk hcolk
  have hkeyk : ∀ t ∈ ta ++ tk' ++ tb, (t.kind == .colon) = false := by
    intro t ht'
    simp only [List.mem_append] at ht'
    have : t.kind ≠ .colon := by
      rcases ht' with (ht' | ht') | ht'
      · exact keyKind_not_colon (Or.inr (pad_kinds hpa hta t ht'))
      · rcases leaf_kinds hkey htk t ht' with h' | h'
        · exact keyKind_not_colon (Or.inl h')
        · exact keyKind_not_colon (Or.inr (Or.inl h'))
      · exact keyKind_not_colon (Or.inr (pad_kinds hpb htb t ht'))
    simpa using this
  have e1 : s.toks = [] ++ tm :: ((ta ++ tk' ++ tb) ++ tcol :: (tc ++ tv ++ td)) := by rw [hts]; simp
  have h1 := consumeK_split_some .metaStart s [] tm _ e1 (by simpa using hc) hmk
  have h2 := untilK_split (fun k => k == .colon) ({ s with cur := ([] : List Tok).length + 1 } : BP α) [tm]
    (ta ++ tk' ++ tb) tcol (tc ++ tv ++ td) (by rw [e1]; simp) (by lenarith) hkeyk (by simp [hcolk])
  have h3 : bump (α := α) .colon ({ s with cur := [tm].length + (ta ++ tk' ++ tb).length } : BP α) =
      (tcol, { s with cur := (tm :: (ta ++ tk' ++ tb)).length + 1 }) := by
    unfold bump
    have hb := bumpAny_split ({ s with cur := [tm].length + (ta ++ tk' ++ tb).length } : BP α)
      (tm :: (ta ++ tk' ++ tb)) tcol (tc ++ tv ++ td) (by rw [e1]; simp) (by lenarith)
    simp only [bind, StateT.bind, hb, hcolk, ne_eq, not_true_eq_false, if_false]
    rfl
  have h4 := consumeRest_split ({ s with cur := (tm :: (ta ++ tk' ++ tb)).length + 1 } : BP α)
    (tm :: (ta ++ tk' ++ tb) ++ [tcol]) (tc ++ tv ++ td) (by rw [e1]; simp) (by lenarith)
  have hrunKey : RunAt (offAt s.toks (([] : List Tok).length + 1)) (ta ++ tk' ++ tb) := by
    have := rt_runAt_mid hrun [tm] (ta ++ tk' ++ tb) (tcol :: (tc ++ tv ++ td)) (by rw [e1]; simp)
    have e2 : [tm].length = ([] : List Tok).length + 1 := by lenarith
    rwa [e2] at this
  have hrunVal : RunAt (offAt s.toks ((tm :: (ta ++ tk' ++ tb)).length + 1)) (tc ++ tv ++ td) := by
    have := rt_runAt_mid hrun (tm :: (ta ++ tk' ++ tb) ++ [tcol]) (tc ++ tv ++ td) [] (by rw [e1]; simp)
    have e2 : (tm :: (ta ++ tk' ++ tb) ++ [tcol]).length = (tm :: (ta ++ tk' ++ tb)).length + 1 := by lenarith
    rwa [e2] at this
  have hkl := rt_leaf_text (cs := s.cs) (allowed := keyKind) (pre := p.a) (l := key) (post := p.b)
    (ts := ta ++ tk' ++ tb) ((hta.append htk).append htb) hpa hpb hkey (offAt s.toks (([] : List Tok).length + 1))
  have hvl := rt_leaf_text (cs := s.cs) (allowed := metaValKind) (pre := p.c) (l := value) (post := p.d)
    (ts := tc ++ tv ++ td) ((htc.append htv).append htd) hpc hpd hval
    (offAt s.toks ((tm :: (ta ++ tk' ++ tb)).length + 1))
  have hvo := rt_leaf_outerTrimmed (cs := s.cs) (allowed := metaValKind) (pre := p.c) (l := value) (post := p.d)
    (ts := tc ++ tv ++ td) ((htc.append htv).append htd) hpc hpd hval
    (offAt s.toks ((tm :: (ta ++ tk' ++ tb)).length + 1))
  refine ⟨_, _, ?_, hkl.1, hvl.1, hvo⟩
  unfold metadataEntry
  simp only [bind, StateT.bind, h1, currentOffset_run, h2, bpText_run hrunKey, h3, h4, bpText_run hrunVal, get, getThe,
    MonadStateOf.get, StateT.get, hkl.2, hvl.2, Bool.false_eq_true, if_false, pure, StateT.pure]
  congr 2
  rw [hts]; simp only [List.length_append, List.length_cons, List.length_nil]; omega

theorem rtb_runBlock_meta (key value : List Tok) (p : MPad) (cs : CharSpec) (ext : Ext)
    (ts : List Tok) (evs0 : Array (Ev α)) (panic : Option String) (hok : metaOK cs key value p = true)
    (hs : Spells ts (spellMeta key value p)) (hrun : RunAt (baseOff ts) ts) :
    ∃ ev : Ev α, runBlock cs ext true ts evs0 panic = (evs0.push ev, panic) ∧ MetaMatches cs key value ev := by
  obtain ⟨k, v, hme, hk, hv, hvo⟩ := rtb_metadataEntry key value p (⟨ts, 0, ext, cs, evs0, panic⟩ : BP α) hok ts hs rfl rfl hrun
  refine ⟨.metadata k v, ?_, ⟨hk, hv, hvo⟩⟩
  obtain ⟨t0, tr, hts, hk0⟩ : ∃ t0 tr, ts = t0 :: tr ∧ t0.kind = .metaStart := by
    simp only [spellMeta, List.append_assoc, List.cons_append, List.nil_append] at hs
    obtain ⟨t, r, rfl, hk, -, -⟩ := hs.cons_inv
    exact ⟨t, r, rfl, hk⟩
  have hne : ts.isEmpty = false := by rw [hts]; rfl
  have hpk := peekK_split (⟨ts, 0, ext, cs, evs0, panic⟩ : BP α) [] ts rfl rfl
  unfold runBlock
  simp only [hne, Bool.false_eq_true, if_false, bind, StateT.bind, pure, StateT.pure]
  have hpb : parseBlock (α := α) true ⟨ts, 0, ext, cs, evs0, panic⟩ =
      ((), { (⟨ts, 0, ext, cs, evs0, panic⟩ : BP α) with cur := ts.length, evs := evs0.push (.metadata k v) }) := by
    unfold parseBlock
    simp only [bind, StateT.bind, hpk]
    rw [hts] at hpk ⊢
    simp only [List.head?_cons, Option.map_some, hk0]
    rw [← hts]
    simp only [withRecover_run, bind, StateT.bind, hme, get, getThe, MonadStateOf.get, StateT.get, hasExt_run,
      Bool.or_true, if_true, Option.isNone_some, Bool.false_eq_true, if_false, pure, StateT.pure, pushEv_run]
  rw [hpb]
  simp only [get, getThe, MonadStateOf.get, StateT.get, ne_eq, not_true_eq_false, if_false, pure, StateT.pure]

end Cook
