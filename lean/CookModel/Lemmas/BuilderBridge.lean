import CookModel.Lemmas.BuilderSound
import CookModel.Lemmas.Convert
import CookModel.Side.BuilderConv
/-
  C16 → C09 / C03 / C13 — the converter the builder model returns, read as the conversion model's converter
  (`convOfBuilt`, Side/BuilderConv.lean), satisfies `Converter.Sound` and `Converter.wf`.
-/
namespace Cook.Bld
open Cook

variable {α : Type}

/-! ### the fraction configurations are all produced by `FractionsConfigHelper::define` -/

def IsDefined [Arith α] (cfg : FracCfg α) : Prop := ∃ h : FracH α, cfg = h.define

theorem bridge_unitLayer_defined [Arith α] (c : Core α) (inh : Unit α → Option (FracH α)) (l : List (Key × FracW α))
    (m m' : List (Nat × FracCfg α)) (h : unitLayer c inh l m = .ok m') (hm : ∀ e, e ∈ m → IsDefined e.2) :
    ∀ e, e ∈ m' → IsDefined e.2 := by
  induction l generalizing m with
  | nil => simp only [unitLayer] at h; cases h; exact hm
  | cons kw rest ih =>
    unfold unitLayer at h
    split at h
    · cases h
    · split at h
      · cases h
      · refine ih _ h ?_
        intro e he
        simp only [mapInsert, List.mem_cons, List.mem_filter] at he
        rcases he with rfl | ⟨he, _⟩
        · exact ⟨_, rfl⟩
        · exact hm e he

theorem bridge_unitLayers_defined [Arith α] (c : Core α) (inh : Unit α → Option (FracH α)) (fs : List (FractionsDecl α))
    (m m' : List (Nat × FracCfg α)) (h : unitLayers c inh fs m = .ok m') (hm : ∀ e, e ∈ m → IsDefined e.2) :
    ∀ e, e ∈ m' → IsDefined e.2 := by
  induction fs generalizing m with
  | nil => simp only [unitLayers] at h; cases h; exact hm
  | cons f fs ih =>
    unfold unitLayers at h
    split at h
    · cases h
    · rename_i m1 hm1
      exact ih m1 h (bridge_unitLayer_defined c inh f.unit m m1 hm1 hm)

theorem bridge_buildFractions_defined [Arith α] (c : Core α) (layers : List (FractionsDecl α)) (fr : Fractions α)
    (h : buildFractions c layers = .ok fr) :
    (∀ x, fr.all = some x → IsDefined x) ∧ (∀ x, fr.metric = some x → IsDefined x) ∧
    (∀ x, fr.imperial = some x → IsDefined x) ∧ (∀ q x, fr.quantity q = some x → IsDefined x) ∧
    (∀ e, e ∈ fr.unit → IsDefined e.2) := by
  unfold buildFractions at h
  simp only at h
  split at h
  · cases h
  · rename_i unit hunit
    cases h
    have hopt : ∀ (o : Option (FracH α)) x, o.map FracH.define = some x → IsDefined x := by
      intro o x hx
      obtain ⟨y, _, rfl⟩ := Option.map_eq_some_iff.mp hx
      exact ⟨y, rfl⟩
    exact ⟨hopt _, hopt _, hopt _, fun q => hopt _, bridge_unitLayers_defined c _ layers [] unit hunit (by simp)⟩

/-! ### what the bridge needs of a built converter -/

/-- a property of every list of a best-unit store -/
def BestStore.AllLists (P : List (α × Nat) → Prop) : BestStore α → Prop
  | .unified l => P l
  | .bySystem m i => P m ∧ P i

/-- the facts about a built converter the translation relies on (all of them are C16 theorems) -/
structure BuiltOK [Arith α] (conv : Converter α) : Prop where
  index : ∀ (id : Nat) (u : Unit α) (k : Key), conv.units[id]? = some u → k ∈ u.keys → idxGet conv.index k = some id
  index_sound : ∀ k id, idxGet conv.index k = some id → ∃ u, conv.units[id]? = some u ∧ k ∈ u.keys
  best_keys : conv.best.map (·.1) = PQ.all
  best_units : ∀ q s, (q, s) ∈ conv.best →
    s.AllLists (fun l => l ≠ [] ∧ ∀ e, e ∈ l → ∃ u, conv.units[e.2]? = some u ∧ u.quantity = q)
  fractions : (∀ x, conv.fractions.all = some x → IsDefined x) ∧ (∀ x, conv.fractions.metric = some x → IsDefined x) ∧
    (∀ x, conv.fractions.imperial = some x → IsDefined x) ∧ (∀ q x, conv.fractions.quantity q = some x → IsDefined x) ∧
    (∀ e, e ∈ conv.fractions.unit → IsDefined e.2)

theorem BuiltOK.keys_unique [Arith α] {conv : Converter α} (h : BuiltOK conv) {i j : Nat} {u v : Unit α} {k : Key}
    (hu : conv.units[i]? = some u) (hv : conv.units[j]? = some v) (hku : k ∈ u.keys) (hkv : k ∈ v.keys) : i = j := by
  have a := h.index i u k hu hku
  have b := h.index j v k hv hkv
  rw [a] at b; exact Option.some.inj b

theorem bridge_builtOK [Arith α] (files : List (UnitsFile α)) (conv : Converter α) (h : build files = .ok conv) : BuiltOK conv := by
  obtain ⟨b, c, hbc, hready, hp⟩ := (build_good files).of_ok h
  obtain ⟨b', c', hbc', hfr⟩ := audit_build_fractions files conv h
  rw [hbc] at hbc'; cases hbc'
  refine ⟨?_, ?_, hp.best_keys, ?_, bridge_buildFractions_defined c b.fractions conv.fractions hfr⟩
  · intro id u k hu hk
    rw [hp.units, List.getElem?_map] at hu
    obtain ⟨ub, hub, rfl⟩ := Option.map_eq_some_iff.mp hu
    rw [hp.index]; exact hready.1.complete id ub (by simp) hub k hk
  · intro k id hk
    rw [hp.index] at hk
    obtain ⟨_, ub, hub, hkk⟩ := hready.1.sound k id hk
    exact ⟨ub.unit, by rw [hp.units, List.getElem?_map, hub]; rfl, hkk⟩
  · intro q s hqs
    obtain ⟨bd, _, hspec⟩ := hp.best (q, s) hqs
    have hfin : ∀ names l, BestSpec c q names l →
        l ≠ [] ∧ ∀ e, e ∈ l → ∃ u, conv.units[e.2]? = some u ∧ u.quantity = q := by
      intro names l hs
      obtain ⟨base, _, ts, hl, _, _⟩ := hs.shape
      refine ⟨by rw [hl]; simp, ?_⟩
      intro e he
      obtain ⟨u, hu, hq⟩ := hs.quantity e he
      exact ⟨u.unit, by rw [hp.units, List.getElem?_map, hu]; rfl, hq⟩
    cases bd <;> cases s <;> simp only [StoreSpec] at hspec
    · exact hfin _ _ hspec
    · exact ⟨hfin _ _ hspec.1, hfin _ _ hspec.2⟩

/-! ### the translation, unfolded -/

@[simp] theorem pqOf_pqTo (q : PhysQ) : pqOf (pqTo q) = q := by cases q <;> rfl
@[simp] theorem pqTo_pqOf (q : PQ) : pqTo (pqOf q) = q := by cases q <;> rfl

@[simp] theorem unitOfBuilt_allKeys (i : Nat) (u : Unit α) : (unitOfBuilt i u).allKeys = u.keys := rfl
@[simp] theorem unitOfBuilt_id (i : Nat) (u : Unit α) : (unitOfBuilt i u).id = i := rfl
@[simp] theorem unitOfBuilt_ratio (i : Nat) (u : Unit α) : (unitOfBuilt i u).ratio = u.ratio := rfl
@[simp] theorem unitOfBuilt_pq (i : Nat) (u : Unit α) : (unitOfBuilt i u).pq = pqOf u.quantity := rfl

theorem unitOfBuilt_symbol (i : Nat) (u : Unit α) (h : u.keys ≠ []) : (unitOfBuilt i u).symbol?.isSome = true := by
  unfold Cook.Unit.symbol? unitOfBuilt
  simp only
  cases hs : u.symbols with
  | cons a t => simp
  | nil =>
    cases hn : u.names with
    | cons a t => simp
    | nil =>
      cases ha : u.aliases with
      | cons a t => simp
      | nil => exfalso; apply h; simp [Unit.keys, hs, hn, ha]

theorem mem_allUnits [Arith α] (conv : Converter α) (x : Cook.Unit α) :
    x ∈ (convOfBuilt conv).allUnits ↔ ∃ i u, conv.units[i]? = some u ∧ x = unitOfBuilt i u := by
  simp only [convOfBuilt, List.mem_iff_getElem?, List.getElem?_mapIdx, Option.map_eq_some_iff]
  constructor
  · rintro ⟨i, u, hu, rfl⟩; exact ⟨i, u, hu, rfl⟩
  · rintro ⟨i, u, hu, rfl⟩; exact ⟨i, u, hu, rfl⟩

theorem allUnits_getElem? [Arith α] (conv : Converter α) (i : Nat) :
    (convOfBuilt conv).allUnits[i]? = (conv.units[i]?).map (unitOfBuilt i) := by
  simp [convOfBuilt, List.getElem?_mapIdx]

theorem mem_bestOfBuilt (units : List (Unit α)) (l : List (α × Nat)) (x : Cook.Unit α) :
    x ∈ (bestOfBuilt units l).unitsOf ↔ ∃ e u, e ∈ l ∧ units[e.2]? = some u ∧ x = unitOfBuilt e.2 u := by
  simp only [BestConversions.unitsOf, bestOfBuilt, List.mem_map, List.mem_filterMap, Option.map_eq_some_iff]
  constructor
  · rintro ⟨p, ⟨e, he, u, hu, rfl⟩, rfl⟩; exact ⟨e, u, he, hu, rfl⟩
  · rintro ⟨e, u, he, hu, rfl⟩; exact ⟨(e.1, unitOfBuilt e.2 u), ⟨e, he, u, hu, rfl⟩, rfl⟩

/-- the best list of quantity `q` for system `s` in the translation comes from a list of the store of `q` -/
theorem conversions_of_built [Arith α] (conv : Converter α) (q : PhysQ) (s : System) :
    (bestOfQuantity conv q).conversions s = ⟨[]⟩ ∨
    ∃ st l, (pqTo q, st) ∈ conv.best ∧ (bestOfQuantity conv q).conversions s = bestOfBuilt conv.units l ∧
      ∀ P, st.AllLists P → P l := by
  unfold bestOfQuantity
  split
  · rename_i e he
    have hmem := List.mem_of_find?_eq_some he
    have hq : e.1 = pqTo q := by simpa using List.find?_some he
    right
    obtain ⟨q', st⟩ := e
    simp only at hq; subst hq
    cases st with
    | unified l => exact ⟨_, l, hmem, rfl, fun P hP => hP⟩
    | bySystem m i =>
      cases s with
      | metric => exact ⟨_, m, hmem, rfl, fun P hP => hP.1⟩
      | imperial => exact ⟨_, i, hmem, rfl, fun P hP => hP.2⟩
  · left; rfl

theorem find?_unique {β : Type} {l : List β} {p : β → Bool} {x : β} (hx : x ∈ l) (hp : p x = true)
    (huniq : ∀ y, y ∈ l → p y = true → y = x) : l.find? p = some x := by
  cases h : l.find? p with
  | none => exact absurd hp (by simpa using List.find?_eq_none.mp h x hx)
  | some y => rw [huniq y (List.mem_of_find?_eq_some h) (List.find?_some h)]

/-! ### no best-list entry is lost, no quantity is without a store -/

theorem bestOfBuilt_entries (units : List (Unit α)) (l : List (α × Nat)) (h : ∀ e, e ∈ l → ∃ u, units[e.2]? = some u) :
    (bestOfBuilt units l).entries.map (fun e => (e.1, e.2.id)) = l := by
  induction l with
  | nil => rfl
  | cons e l ih =>
    obtain ⟨u, hu⟩ := h e (by simp)
    have := ih (fun x hx => h x (by simp [hx]))
    simp only [bestOfBuilt, List.filterMap_cons, hu, Option.map_some, List.map_cons, unitOfBuilt_id] at this ⊢
    rw [this]

theorem bridge_best_found [Arith α] {conv : Converter α} (hok : BuiltOK conv) (q : PhysQ) :
    ∃ st, (pqTo q, st) ∈ conv.best ∧ bestOfQuantity conv q = storeOfBuilt conv.units st := by
  have hmem : pqTo q ∈ conv.best.map (·.1) := by rw [hok.best_keys]; exact PQ.mem_all _
  obtain ⟨e, he, heq⟩ := List.mem_map.mp hmem
  unfold bestOfQuantity
  split
  · rename_i e' he'
    have hq : e'.1 = pqTo q := by simpa using List.find?_some he'
    refine ⟨e'.2, ?_, rfl⟩
    rw [← hq]; exact List.mem_of_find?_eq_some he'
  · rename_i hnone
    exact absurd heq (by simpa using List.find?_eq_none.mp hnone e he)

/-- in the translation of a built converter the best list of every quantity and system is a list of that quantity's
    store, entry by entry (thresholds and ids), and it is not empty -/
theorem bridge_best_entries [Arith α] {conv : Converter α} (hok : BuiltOK conv) (q : PhysQ) (s : System) :
    ∃ st l, (pqTo q, st) ∈ conv.best ∧ (∀ P, st.AllLists P → P l) ∧ l ≠ [] ∧
      ((convOfBuilt conv).best q).conversions s = bestOfBuilt conv.units l ∧
      (((convOfBuilt conv).best q).conversions s).entries.map (fun e => (e.1, e.2.id)) = l := by
  obtain ⟨st, hst, heq⟩ := bridge_best_found hok q
  have key : ∀ l, (∀ P, st.AllLists P → P l) → (storeOfBuilt conv.units st).conversions s = bestOfBuilt conv.units l →
      ∃ st l, (pqTo q, st) ∈ conv.best ∧ (∀ P, st.AllLists P → P l) ∧ l ≠ [] ∧
        ((convOfBuilt conv).best q).conversions s = bestOfBuilt conv.units l ∧
        (((convOfBuilt conv).best q).conversions s).entries.map (fun e => (e.1, e.2.id)) = l := by
    intro l hall hl
    obtain ⟨hne, hunits⟩ := hall _ (hok.best_units _ _ hst)
    have e1 : ((convOfBuilt conv).best q).conversions s = bestOfBuilt conv.units l := by
      show (bestOfQuantity conv q).conversions s = _
      rw [heq, hl]
    refine ⟨st, l, hst, hall, hne, e1, ?_⟩
    rw [e1]
    exact bestOfBuilt_entries conv.units l (fun e he => by obtain ⟨u, hu, _⟩ := hunits e he; exact ⟨u, hu⟩)
  cases st with
  | unified l => exact key l (fun P hP => hP) rfl
  | bySystem m i =>
    cases s with
    | metric => exact key m (fun P hP => hP.1) rfl
    | imperial => exact key i (fun P hP => hP.2) rfl

theorem bridge_best_nonempty [Arith α] {conv : Converter α} (hok : BuiltOK conv) (q : PhysQ) (s : System) :
    (((convOfBuilt conv).best q).conversions s).entries ≠ [] := by
  obtain ⟨_, l, _, _, hne, _, hmap⟩ := bridge_best_entries hok q s
  intro h0
  rw [h0] at hmap
  exact hne hmap.symm

/-! ### the metadata view -/

/-- `SM.convOfBuilt` is the view `src/metadata.rs` takes (`SM.viewOf`) of the translated converter: the same units in
    the same order, and `find_unit` gives the same unit identity for every name. -/
theorem bridge_views_agree [Arith α] {conv : Converter α} (hok : BuiltOK conv) :
    (SM.convOfBuilt conv).units = (SM.viewOf (convOfBuilt conv)).units ∧
    ∀ k, (SM.convOfBuilt conv).index k = (SM.viewOf (convOfBuilt conv)).index k := by
  constructor
  · apply List.ext_getElem?
    intro i
    simp only [SM.convOfBuilt, SM.viewOf, List.getElem?_map, allUnits_getElem?, Option.map_map]
    cases conv.units[i]? with
    | none => rfl
    | some u =>
      simp only [Option.map_some, Function.comp, unitOfBuilt_pq, unitOfBuilt_ratio, Option.some.injEq]
      have : decide (u.quantity = PQ.time) = decide (pqOf u.quantity = PhysQ.time) := by
        cases u.quantity <;> rfl
      rw [this]; rfl
  · intro k
    show idxGet conv.index k = ((convOfBuilt conv).findUnit k).map (·.id)
    cases hk : idxGet conv.index k with
    | some id =>
      obtain ⟨u, hu, hku⟩ := hok.index_sound k id hk
      have hx : unitOfBuilt id u ∈ (convOfBuilt conv).allUnits := (mem_allUnits conv _).mpr ⟨id, u, hu, rfl⟩
      have : (convOfBuilt conv).findUnit k = some (unitOfBuilt id u) := by
        unfold Cook.Converter.findUnit
        refine find?_unique hx (by simpa using hku) ?_
        intro y hy hky
        obtain ⟨j, v, hv1, rfl⟩ := (mem_allUnits conv y).mp hy
        have hkv : k ∈ v.keys := by simpa using hky
        have := hok.keys_unique hu hv1 hku hkv
        subst this
        rw [hu] at hv1; cases hv1; rfl
      rw [this]; rfl
    | none =>
      cases hf : (convOfBuilt conv).findUnit k with
      | none => rfl
      | some y =>
        exfalso
        have hy := List.mem_of_find?_eq_some hf
        have hky := List.find?_some hf
        obtain ⟨j, v, hv1, rfl⟩ := (mem_allUnits conv y).mp hy
        have hkv : k ∈ v.keys := by simpa using hky
        rw [hok.index j v k hv1 hkv] at hk
        cases hk

/-! ### `Sound` -/

/-- **The bridge.**  The translation of a built converter all of whose units have a non-zero ratio and a key is sound
    in the sense of the conversion theorems (C09). -/
theorem bridge_sound (conv : Converter Rat) (hok : BuiltOK conv) (hu : ∀ u, u ∈ conv.units → u.ratio ≠ 0 ∧ u.keys ≠ []) :
    (convOfBuilt conv).Sound := by
  refine ⟨?_, ?_, ?_, ?_, ?_⟩
  · intro q s x hx
    change x ∈ ((bestOfQuantity conv q).conversions s).unitsOf at hx
    rcases conversions_of_built conv q s with h0 | ⟨st, l, hst, hl, hall⟩
    · rw [h0] at hx; simp [BestConversions.unitsOf] at hx
    · rw [hl, mem_bestOfBuilt] at hx
      obtain ⟨e, u, he, hue, rfl⟩ := hx
      obtain ⟨_, hunits⟩ := hall _ (hok.best_units _ _ hst)
      obtain ⟨u', hu', hq⟩ := hunits e he
      rw [hue] at hu'; cases hu'
      exact ⟨(mem_allUnits conv _).mpr ⟨e.2, u, hue, rfl⟩, by simp [hq]⟩
  · intro x y hx hy hid
    obtain ⟨i, u, hu1, rfl⟩ := (mem_allUnits conv x).mp hx
    obtain ⟨j, v, hv1, rfl⟩ := (mem_allUnits conv y).mp hy
    simp only [unitOfBuilt_id] at hid
    subst hid
    rw [hu1] at hv1; cases hv1; rfl
  · intro x hx
    obtain ⟨i, u, hu1, rfl⟩ := (mem_allUnits conv x).mp hx
    exact (hu u (List.mem_of_getElem? hu1)).1
  · intro x hx
    obtain ⟨i, u, hu1, rfl⟩ := (mem_allUnits conv x).mp hx
    exact unitOfBuilt_symbol i u (hu u (List.mem_of_getElem? hu1)).2
  · intro x hx k hk
    obtain ⟨i, u, hu1, rfl⟩ := (mem_allUnits conv x).mp hx
    unfold Cook.Converter.findUnit
    refine find?_unique hx (by simpa using hk) ?_
    intro y hy hky
    obtain ⟨j, v, hv1, rfl⟩ := (mem_allUnits conv y).mp hy
    have hkv : k ∈ v.keys := by simpa using hky
    have := hok.keys_unique hu1 hv1 (by simpa using hk) hkv
    subst this
    rw [hu1] at hv1; cases hv1; rfl

/-! ### `wf` -/

theorem lists_conversions (s : Cook.BestStore Rat) (bc : BestConversions Rat) (h : bc ∈ s.lists) :
    ∃ sys, bc = s.conversions sys := by
  cases s with
  | unified u => simp only [Cook.BestStore.lists, List.mem_singleton] at h; exact ⟨.metric, h⟩
  | bySystem m i =>
    simp only [Cook.BestStore.lists, List.mem_cons, List.not_mem_nil, or_false] at h
    rcases h with h | h
    · exact ⟨.metric, h⟩
    · exact ⟨.imperial, h⟩

/-- a sound converter whose fraction configurations satisfy the precondition of `new_approx` is well-formed -/
theorem wf_of_sound {c : Cook.Converter Rat} (hc : c.Sound)
    (hcfg : (defaultCfg (α := Rat) :: c.fractions.cfgs).all cfgPre = true) : c.wf = true := by
  unfold Cook.Converter.wf
  simp only [Bool.and_eq_true]
  refine ⟨⟨?_, ?_⟩, hcfg⟩
  · simp only [bestListsOK, List.all_eq_true, Bool.and_eq_true, decide_eq_true_eq]
    intro q _ bc hbc u hu
    obtain ⟨sys, rfl⟩ := lists_conversions _ bc hbc
    obtain ⟨hm, hq⟩ := hc.best_mem q sys u hu
    exact ⟨hq, hc.symbol u hm⟩
  · simp only [List.all_eq_true]
    intro u hu
    exact hc.symbol u hu

theorem clampA_range (x : Rat) : 0 ≤ clampA (0 : Rat) 1 x ∧ clampA (0 : Rat) 1 x ≤ 1 := by
  unfold clampA
  simp only [rat_lt, decide_eq_true_eq]
  split
  · exact ⟨Rat.le_refl, by decide⟩
  · split
    · exact ⟨by decide, Rat.le_refl⟩
    · exact ⟨Rat.not_lt.mp (by assumption), Rat.not_lt.mp (by assumption)⟩

theorem cfgPre_defined (cfg : FracCfg Rat) (h : IsDefined cfg) : cfgPre (cfgOfBuilt cfg) = true := by
  obtain ⟨hh, rfl⟩ := h
  have hlo : (Arith.const Gen.FRAC_ACC_LO : Rat) = 0 := by decide +kernel
  have hhi : (Arith.const Gen.FRAC_ACC_HI : Rat) = 1 := by decide +kernel
  have hr := clampA_range (hh.accuracy.getD (Arith.const Gen.FRAC_DEFAULT_ACCURACY))
  have hden : clampN Gen.FRAC_DEN_LO Gen.FRAC_DEN_HI (hh.maxDen.getD Gen.FRAC_DEFAULT_MAXDEN) ≤ 64 := by
    unfold clampN Gen.FRAC_DEN_LO Gen.FRAC_DEN_HI
    split
    · omega
    · split <;> omega
  simp only [cfgPre, newApproxPre, cfgOfBuilt, FracH.define, hlo, hhi, rat_le, rat_ofNat, Bool.and_eq_true,
    decide_eq_true_eq]
  exact ⟨⟨by simpa using hr.1, by simpa using hr.2⟩, hden⟩

theorem bridge_cfgs (conv : Converter Rat) (hok : BuiltOK conv) :
    (defaultCfg (α := Rat) :: (convOfBuilt conv).fractions.cfgs).all cfgPre = true := by
  obtain ⟨f1, f2, f3, f4, f5⟩ := hok.fractions
  have hd : cfgPre (defaultCfg (α := Rat)) = true := by decide +kernel
  simp only [List.all_cons, hd, Bool.true_and, List.all_eq_true]
  intro cfg hcfg
  simp only [Cook.Fractions.cfgs, convOfBuilt, fractionsOfBuilt, List.mem_append, Option.mem_toList,
    Option.map_eq_some_iff, List.mem_map, List.mem_filterMap] at hcfg
  rcases hcfg with (((⟨x, hx, rfl⟩ | ⟨x, hx, rfl⟩) | ⟨x, hx, rfl⟩) | ⟨p, ⟨q, _, x, hx, rfl⟩, rfl⟩) | ⟨p, ⟨e, he, rfl⟩, rfl⟩
  · exact cfgPre_defined x (f1 x hx)
  · exact cfgPre_defined x (f2 x hx)
  · exact cfgPre_defined x (f3 x hx)
  · exact cfgPre_defined x (f4 _ x hx)
  · exact cfgPre_defined e.2 (f5 e he)

/-- **Sound and well-formed**, for every successful build whose files give no zero ratio. -/
theorem bridge_build (files : List (UnitsFile Rat)) (conv : Converter Rat) (h : build files = .ok conv)
    (hr : ratiosNonzero files = true) : (convOfBuilt conv).Sound ∧ (convOfBuilt conv).wf = true := by
  have hok := bridge_builtOK files conv h
  have hs := bridge_sound conv hok (bs_build prefixClosed_ne_zero files conv h (ratiosNonzero_fileG files hr))
  exact ⟨hs, wf_of_sound hs (bridge_cfgs conv hok)⟩

end Cook.Bld

namespace Cook
open Bld

/-! ### comparing two converters of the conversion model (specification side) -/

def FracCfg.tup (c : Cook.FracCfg Rat) : Bool × Rat × Nat × Nat := (c.enabled, c.accuracy, c.maxDen, c.maxWhole)

/-- the same fraction settings; the per-unit table (a hash map in the code) is compared as a map on the ids `< n` -/
def SameFractions (n : Nat) (a b : Cook.Fractions Rat) : Prop :=
  a.all.map FracCfg.tup = b.all.map FracCfg.tup ∧
  a.metric.map FracCfg.tup = b.metric.map FracCfg.tup ∧
  a.imperial.map FracCfg.tup = b.imperial.map FracCfg.tup ∧
  a.quantity.map (fun p => (p.1, p.2.tup)) = b.quantity.map (fun p => (p.1, p.2.tup)) ∧
  (∀ e ∈ a.unit ++ b.unit, e.1 < n) ∧
  (∀ id ∈ List.range n, (a.unit.lookup id).map FracCfg.tup = (b.unit.lookup id).map FracCfg.tup)

instance (n : Nat) (a b : Cook.Fractions Rat) : Decidable (SameFractions n a b) :=
  instDecidableAnd (dq := instDecidableAnd (dq := instDecidableAnd (dq := instDecidableAnd (dq := instDecidableAnd))))

/-- the same converter: units (ids, keys, numbers, quantity, system), the best list of every quantity and system entry
    by entry, default system, fraction table, fraction settings -/
def SameConverter (a b : Cook.Converter Rat) : Prop :=
  a.allUnits = b.allUnits ∧
  (∀ q ∈ PhysQ.all, ∀ s ∈ [System.metric, System.imperial],
    ((a.best q).conversions s).entries = ((b.best q).conversions s).entries) ∧
  a.defaultSystem = b.defaultSystem ∧ a.fracTable = b.fracTable ∧
  SameFractions a.allUnits.length a.fractions b.fractions

instance (a b : Cook.Converter Rat) : Decidable (SameConverter a b) :=
  instDecidableAnd (dq := instDecidableAnd (dq := instDecidableAnd (dq := instDecidableAnd)))

/-! ### "`c` is a converter the builder made of `files`" -/

/-- `c` is the converter `ConverterBuilder` makes of the layers `files` (the build succeeds), read as the conversion
    model's converter, and no ratio of the files is zero -/
def Bld.BuiltAs (files : List (UnitsFile Rat)) (c : Cook.Converter Rat) : Prop :=
  ∃ conv, build files = .ok conv ∧ ratiosNonzero files = true ∧ c = convOfBuilt conv

theorem Bld.BuiltAs.sound {files : List (UnitsFile Rat)} {c : Cook.Converter Rat} (h : BuiltAs files c) : c.Sound := by
  obtain ⟨conv, hb, hr, rfl⟩ := h; exact (bridge_build files conv hb hr).1

theorem Bld.BuiltAs.wf {files : List (UnitsFile Rat)} {c : Cook.Converter Rat} (h : BuiltAs files c) : c.wf = true := by
  obtain ⟨conv, hb, hr, rfl⟩ := h; exact (bridge_build files conv hb hr).2

theorem Bld.BuiltAs.best_nonempty {files : List (UnitsFile Rat)} {c : Cook.Converter Rat} (h : BuiltAs files c)
    (q : PhysQ) (s : System) : ((c.best q).conversions s).entries ≠ [] := by
  obtain ⟨conv, hb, _, rfl⟩ := h; exact bridge_best_nonempty (bridge_builtOK files conv hb) q s

end Cook
