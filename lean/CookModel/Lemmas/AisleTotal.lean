import CookModel.Lemmas.AisleText
/-
  `parse` never reaches a panic site and every span of every error is the span of an
  occurrence of the reported text inside the input.
  Invariant: every slice stored in the two "used" sets lies inside the input.
-/
namespace Cook.Aisle

theorem spanOf_of_within {input : List Char} {s : Slice} (h : Within s ⟨0, input⟩) :
    SpanOf input s.span s.chars := by
  obtain ⟨a, c, hc, ho⟩ := h
  exact ⟨a, c, hc, by simp [Slice.span, ho], by simp [Slice.span, ho]⟩

theorem calcSpan_ok {input : List Char} {s : Slice} (h : Within s ⟨0, input⟩) :
    calcSpan (utf8Len input) s = .ok s.span := by
  obtain ⟨a, c, hc, ho⟩ := h
  simp only at hc ho
  have : s.off ≤ utf8Len input := by rw [ho, hc]; simp
  simp [calcSpan, this]

theorem spanLegal_of_spanOf {input : List Char} {sp : Span} {text : List Char} (h : SpanOf input sp text) :
    SpanLegal input sp := by
  obtain ⟨pre, post, hi, h1, h2⟩ := h
  refine ⟨by omega, ?_, ⟨pre, text ++ post, by simp [hi], h1.symm⟩, ⟨pre ++ text, post, hi, by simp [h2]⟩⟩
  rw [h2, hi]; simp

theorem findUsed_some {used : List Slice} {key : List Char} {o : Slice} (h : findUsed used key = some o) :
    o ∈ used ∧ o.chars = key := by
  unfold findUsed at h
  exact ⟨List.mem_of_find?_eq_some h, by simpa using List.find?_some h⟩

theorem findUsed_none {used : List Slice} {key : List Char} (h : findUsed used key = none) :
    key ∉ used.map (·.chars) := by
  unfold findUsed at h
  rw [List.find?_eq_none] at h
  intro hm
  obtain ⟨o, ho, he⟩ := List.mem_map.1 hm
  exact h o ho (by simpa using he)

theorem findUsed_none_of {used : List Slice} {key : List Char} (h : key ∉ used.map (·.chars)) :
    findUsed used key = none := by
  unfold findUsed
  rw [List.find?_eq_none]
  intro o ho he
  exact h (List.mem_map.2 ⟨o, ho, by simpa using he⟩)

/-- a category line has at least the two brackets -/
theorem isCatLine_length {l : List Char} (h : isCatLine l = true) : 2 ≤ l.length := by
  match l with
  | [] => simp [isCatLine] at h
  | [c] => simp [isCatLine] at h; obtain ⟨h1, h2⟩ := h; subst h1; cases h2
  | _ :: _ :: _ => simp

theorem inner_decomp (l : List Char) (h : 2 ≤ l.length) :
    ∃ c, l = l.take 1 ++ innerChars l ++ c := by
  have hd : l.drop 1 ≠ [] := by
    intro e; have := congrArg List.length e; simp at this; omega
  refine ⟨[(l.drop 1).getLast hd], ?_⟩
  unfold innerChars
  rw [List.append_assoc, List.dropLast_concat_getLast hd, List.take_append_drop]

theorem inner_within (line : Slice) (h : 2 ≤ line.chars.length) : Within (inner line) line := by
  obtain ⟨c, hc⟩ := inner_decomp line.chars h
  exact ⟨line.chars.take 1, c, hc, rfl⟩

/-- slices of the used sets lie inside the input -/
def StIn (input : List Char) (st : St) : Prop :=
  (∀ s ∈ st.usedCats, Within s ⟨0, input⟩) ∧ (∀ s ∈ st.usedNames, Within s ⟨0, input⟩)

def ResOK (input : List Char) : Except Err St → Prop
  | .ok st => StIn input st
  | .error e => ErrOK input e

theorem catLine_total (input : List Char) (st : St) (line : Slice) (hst : StIn input st)
    (hl : Within line ⟨0, input⟩) (hc : isCatLine line.chars = true) :
    ResOK input (catLine (utf8Len input) st line) := by
  have hlen := isCatLine_length hc
  have hin : Within (inner line) ⟨0, input⟩ := (inner_within line hlen).trans hl
  unfold catLine
  rw [if_neg (by omega)]
  split
  · rename_i hbar
    rw [calcSpan_ok hin]
    exact ⟨_, spanOf_of_within hin, by simpa using hbar⟩
  · split
    · rename_i other ho
      obtain ⟨hmem, hch⟩ := findUsed_some ho
      have hw := hst.1 other hmem
      rw [calcSpan_ok hw, calcSpan_ok hin]
      refine ⟨?_, spanOf_of_within hin⟩
      have := spanOf_of_within hw
      rwa [hch] at this
    · refine ⟨?_, hst.2⟩
      intro s hs
      rcases List.mem_cons.1 hs with rfl | hs
      · exact hin
      · exact hst.1 s hs

def NamesOK (input : List Char) : Except Err (List Slice) → Prop
  | .ok used => ∀ s ∈ used, Within s ⟨0, input⟩
  | .error e => ErrOK input e

theorem addNames_total (input : List Char) (segs used : List Slice)
    (hu : ∀ s ∈ used, Within s ⟨0, input⟩) (hs : ∀ s ∈ segs, Within s ⟨0, input⟩) :
    NamesOK input (addNames (utf8Len input) used segs) := by
  induction segs generalizing used with
  | nil => simpa [addNames, NamesOK] using hu
  | cons seg rest ih =>
    have hseg : Within (trim seg) ⟨0, input⟩ := (trim_within seg).trans (hs seg (by simp))
    unfold addNames
    split
    · rename_i other ho
      obtain ⟨hmem, hch⟩ := findUsed_some ho
      have hw := hu other hmem
      rw [calcSpan_ok hw, calcSpan_ok hseg]
      refine ⟨?_, spanOf_of_within hseg⟩
      have := spanOf_of_within hw
      rwa [hch] at this
    · apply ih
      · intro s hs'
        rcases List.mem_cons.1 hs' with rfl | hs'
        · exact hseg
        · exact hu s hs'
      · exact fun s h => hs s (List.mem_cons_of_mem _ h)

theorem igrLine_total (input : List Char) (st : St) (line : Slice) (hst : StIn input st)
    (hl : Within line ⟨0, input⟩) (hne : line.chars ≠ []) :
    ResOK input (igrLine (utf8Len input) st line) := by
  have hsegs : ∀ s ∈ slicesFrom line.off (pieces '|' line.chars), Within s ⟨0, input⟩ := by
    intro s hs
    have := slicesFrom_within '|' bar_size (pieces '|' line.chars) line.off s hs
    rw [joinSep_pieces] at this
    exact this.trans hl
  have := addNames_total input _ st.usedNames hst.2 hsegs
  unfold igrLine
  split
  · rename_i e he; rw [he] at this; exact this
  · rename_i used he
    rw [he] at this
    split
    · exact ⟨hst.1, this⟩
    · rw [calcSpan_ok hl]
      exact ⟨_, spanOf_of_within hl, hne⟩

theorem stepLine_total (input : List Char) (st : St) (raw : Slice) (hst : StIn input st)
    (hr : Within raw ⟨0, input⟩) : ResOK input (stepLine (utf8Len input) st raw) := by
  have hline : Within (trim (stripComment raw)) ⟨0, input⟩ := by
    refine (trim_within _).trans (Within.trans ?_ hr)
    obtain ⟨c, hc⟩ := stripComment_prefix raw.chars
    exact ⟨[], c, by simpa [stripComment] using hc, by simp [stripComment]⟩
  unfold stepLine
  split
  · rename_i hc; exact catLine_total input st _ hst hline hc
  · split
    · rename_i hne
      exact igrLine_total input st _ hst hline (by simpa using hne)
    · exact hst

theorem parseLines_total (input : List Char) (ls : List Slice) (st : St) (hst : StIn input st)
    (hl : ∀ l ∈ ls, Within l ⟨0, input⟩) : ResOK input (parseLines (utf8Len input) st ls) := by
  induction ls generalizing st with
  | nil => exact hst
  | cons l ls ih =>
    have := stepLine_total input st l hst (hl l (by simp))
    unfold parseLines
    split
    · rename_i e he; rw [he] at this; exact this
    · rename_i st' he
      rw [he] at this
      exact ih st' this (fun x hx => hl x (List.mem_cons_of_mem _ hx))

/-- every error of `parse` is a legal, faithful error; in particular not a panic -/
theorem parse_error_ok (input : List Char) (e : Err) (h : parse input = .error e) : ErrOK input e := by
  have := parseLines_total input (lines input) St.init ⟨by simp [St.init], by simp [St.init]⟩ (lines_within input)
  unfold parse at h
  split at h
  · rename_i e' he; rw [he] at this; cases h; exact this
  · cases h

theorem errOK_spans {input : List Char} {e : Err} (h : ErrOK input e) : ∀ sp ∈ e.spans, SpanLegal input sp := by
  intro sp hsp
  cases e with
  | invalidCategory s => obtain ⟨t, ht, _⟩ := h; simp [Err.spans] at hsp; subst hsp; exact spanLegal_of_spanOf ht
  | expectedCategory s => obtain ⟨t, ht, _⟩ := h; simp [Err.spans] at hsp; subst hsp; exact spanLegal_of_spanOf ht
  | duplicateCategory n a b =>
    simp [Err.spans] at hsp
    rcases hsp with rfl | rfl
    · exact spanLegal_of_spanOf h.1
    · exact spanLegal_of_spanOf h.2
  | duplicateIngredient n a b =>
    simp [Err.spans] at hsp
    rcases hsp with rfl | rfl
    · exact spanLegal_of_spanOf h.1
    · exact spanLegal_of_spanOf h.2
  | panic s => exact absurd h (by simp [ErrOK])

end Cook.Aisle
