import CookModel.Lemmas.ExtLawsLocal
/-
  C02, INTERMEDIATE_PREPARATIONS alone (COMPONENT_MODIFIERS may be on): the flag is read at two places,
  `modifiers()` (after a `&` it tries to consume `( … )`) and `parse_modifiers` (after a `&` it calls
  `parse_intermediate_ref_data`, which looks for a `(`).  Both are no-ops when no `&` token is directly
  followed by a `(` token (`interCore`).
-/
set_option linter.unusedSectionVars false
set_option linter.unusedSimpArgs false
set_option linter.unusedVariables false
namespace Cook

variable {α : Type} [Arith α]

/-- INTERMEDIATE_PREPARATIONS: no `&` token is directly followed by a `(` token -/
def interCore : List Tok → Bool
  | [] => true
  | t :: rest => !(t.kind == .and && (rest.head?.map (·.kind)) == some .openParen) && interCore rest

theorem c02inter_at {ts : List Tok} (h : interCore ts = true) {i : Nat} {t : Tok} (ht : ts[i]? = some t)
    (hk : t.kind = .and) : (ts[i + 1]?.map (·.kind)) ≠ some .openParen := by
  induction ts generalizing i with
  | nil => simp at ht
  | cons a ts ih =>
    unfold interCore at h
    simp only [Bool.and_eq_true, Bool.not_eq_true', Bool.and_eq_false_iff] at h
    cases i with
    | zero =>
      simp only [List.getElem?_cons_zero, Option.some.injEq] at ht
      subst ht
      rcases h.1 with h1 | h1
      · rw [hk] at h1; simp at h1
      · simp only [Nat.zero_add, List.getElem?_cons_succ]
        rw [← List.head?_eq_getElem?]
        intro hc; rw [hc] at h1; simp at h1
    | succ i =>
      simp only [List.getElem?_cons_succ] at ht ⊢
      exact ih h.2 ht

theorem c02inter_tail {t : Tok} {ts : List Tok} (h : interCore (t :: ts) = true) : interCore ts = true := by
  unfold interCore at h
  simp only [Bool.and_eq_true] at h
  exact h.2

theorem c02inter_drop {ts : List Tok} (h : interCore ts = true) (n : Nat) : interCore (ts.drop n) = true := by
  induction n generalizing ts with
  | zero => exact h
  | succ n ih =>
    cases ts with
    | nil => rfl
    | cons t ts => exact ih (c02inter_tail h)

theorem c02inter_take {ts : List Tok} (h : interCore ts = true) (n : Nat) : interCore (ts.take n) = true := by
  induction ts generalizing n with
  | nil => simp [interCore]
  | cons t ts ih =>
    cases n with
    | zero => rfl
    | succ n =>
      have h2 := ih (c02inter_tail h) n
      unfold interCore at h
      simp only [Bool.and_eq_true, Bool.not_eq_true', Bool.and_eq_false_iff] at h
      rw [List.take_succ_cons]
      unfold interCore
      simp only [Bool.and_eq_true, Bool.not_eq_true', Bool.and_eq_false_iff]
      refine ⟨?_, h2⟩
      rcases h.1 with h1 | h1
      · exact Or.inl h1
      · right
        cases n with
        | zero => simp
        | succ n =>
          cases ts with
          | nil => simp
          | cons u us => simpa using h1

/-! ### `modifiers()` -/

theorem c02inter_bumpAny_run (s : BP α) (t : Tok) (ht : s.toks[s.cur]? = some t) :
    bumpAny s = (t, { s with cur := s.cur + 1 }) := by
  unfold bumpAny
  rw [P_bind_run, nextToken_run, ht]
  rfl

theorem c02inter_modifiersLoop (fuel : Nat) (s : BP α) (h : interCore s.toks = true) :
    modifiersLoop true fuel s = modifiersLoop false fuel s := by
  induction fuel generalizing s with
  | zero => rfl
  | succ fuel ih =>
    unfold modifiersLoop
    rw [P_bind_run, P_bind_run]
    have hp : peekK s = ((s.toks[s.cur]?).map (·.kind), s) := rfl
    rw [hp]
    cases ht : s.toks[s.cur]? with
    | none => rfl
    | some t =>
      simp only [Option.map_some]
      have hb := c02inter_bumpAny_run s t ht
      by_cases hm : isModifierTok t.kind = true
      · simp only [hm, if_true]
        rw [P_bind_run, P_bind_run, hb]
        exact ih _ h
      · simp only [hm, Bool.false_eq_true, if_false]
        by_cases ha : (t.kind == TK.and) = true
        · simp only [ha, if_true]
          rw [P_bind_run, P_bind_run, hb]
          dsimp only
          rw [P_bind_run]
          have hk : t.kind = .and := by simpa using ha
          have hno := c02inter_at h ht hk
          have hc : consumeK (α := α) .openParen ({ s with cur := s.cur + 1 } : BP α) =
              (none, ({ s with cur := s.cur + 1 } : BP α)) := by
            rw [consumeK_run]
            show (match s.toks[s.cur + 1]? with
              | some t => if t.kind = TK.openParen then
                  (some t, ({ ({ s with cur := s.cur + 1 } : BP α) with cur := s.cur + 1 + 1 } : BP α))
                else (none, ({ s with cur := s.cur + 1 } : BP α))
              | none => (none, ({ s with cur := s.cur + 1 } : BP α))) = _
            cases hn : s.toks[s.cur + 1]? with
            | none => rfl
            | some t' =>
              rw [hn] at hno
              have : t'.kind ≠ .openParen := by
                intro hc; apply hno; rw [Option.map_some, hc]
              simp only [this, if_false]
          rw [withRecover_run_ext]
          simp only [P_bind_run, hc, hb]
          exact ih _ h
        · simp only [ha, Bool.false_eq_true, if_false]

/-- `modifiers()` without the intermediate-reference attempt -/
def modifiersP0 : P α (List Tok) := do
  if !(← hasExt Gen.EXT_COMPONENT_MODIFIERS) then return []
  let start ← getCur
  let r ← restToks
  modifiersLoop false (r.length + 1)
  let s ← get
  return (s.toks.take s.cur).drop start

theorem c02inter_modifiersP_eq0 (s : BP α) (h : interCore s.toks = true) : modifiersP s = modifiersP0 s := by
  unfold modifiersP modifiersP0
  rw [P_bind_run, P_bind_run]
  have hx : hasExt (α := α) Gen.EXT_COMPONENT_MODIFIERS s = (s.ext.has Gen.EXT_COMPONENT_MODIFIERS, s) := rfl
  rw [hx]
  cases s.ext.has Gen.EXT_COMPONENT_MODIFIERS with
  | false => rfl
  | true =>
    simp only [Bool.not_true, Bool.false_eq_true, if_false]
    simp only [P_bind_run]
    have h1 : getCur s = (s.cur, s) := rfl
    have h2 : hasExt (α := α) Gen.EXT_INTERMEDIATE_PREPARATIONS s = (s.ext.has Gen.EXT_INTERMEDIATE_PREPARATIONS, s) := rfl
    have h3 : restToks s = (s.toks.drop s.cur, s) := rfl
    simp only [h1, h2, h3]
    cases s.ext.has Gen.EXT_INTERMEDIATE_PREPARATIONS with
    | false => rfl
    | true => rw [c02inter_modifiersLoop _ s h]

section G
variable {G : List Nat} {β : Type}

theorem c02inter_modifiersP0_indGA (h1 : Gen.EXT_COMPONENT_MODIFIERS ∈ G) : IndGA G (modifiersP0 (α := α)) := by
  have := modifiersLoop_indGA (α := α) (G := G)
  unfold modifiersP0
  indg_auto
  all_goals exact this _ _

/-- transfer along an equality that holds under every extension set -/
theorem c02inter_indG_of_eq {m m' : P α β} {s : BP α} (h : IndG G m' s)
    (heq : ∀ e, m (s.withExt e) = m' (s.withExt e)) : IndG G m s := by
  have h0 : m s = m' s := heq s.ext
  constructor
  · intro e he
    rw [heq e, h0]
    exact h.ext e he
  · rw [h0]; exact h.toks
  · rw [h0]; exact h.cs
  · rw [h0]; exact h.extEq

/-- `modifiers()` with COMPONENT_MODIFIERS in `G` and no `&(` in the block does not need
    INTERMEDIATE_PREPARATIONS -/
theorem c02inter_modifiersP_indG (s : BP α) (h1 : Gen.EXT_COMPONENT_MODIFIERS ∈ G) (h : interCore s.toks = true) :
    IndG G (modifiersP (α := α)) s :=
  c02inter_indG_of_eq ((c02inter_modifiersP0_indGA h1).all s) (fun e => c02inter_modifiersP_eq0 (s.withExt e) h)

/-- the tokens `modifiers()` returns are a contiguous part of the block -/
theorem c02inter_modifiersP_result (s : BP α) :
    (modifiersP s).1 = [] ∨ ∃ c, (modifiersP s).1 = (s.toks.take c).drop s.cur := by
  unfold modifiersP
  rw [P_bind_run]
  have hx : hasExt (α := α) Gen.EXT_COMPONENT_MODIFIERS s = (s.ext.has Gen.EXT_COMPONENT_MODIFIERS, s) := rfl
  rw [hx]
  cases s.ext.has Gen.EXT_COMPONENT_MODIFIERS with
  | false => exact Or.inl rfl
  | true =>
    right
    simp only [Bool.not_true, Bool.false_eq_true, if_false]
    simp only [P_bind_run]
    have h1 : getCur s = (s.cur, s) := rfl
    have h2 : hasExt (α := α) Gen.EXT_INTERMEDIATE_PREPARATIONS s = (s.ext.has Gen.EXT_INTERMEDIATE_PREPARATIONS, s) := rfl
    have h3 : restToks s = (s.toks.drop s.cur, s) := rfl
    simp only [h1, h2, h3]
    have ht := ((modifiersLoop_indGA (α := α) (G := []) (s.ext.has Gen.EXT_INTERMEDIATE_PREPARATIONS)
      ((s.toks.drop s.cur).length + 1)).all s).toks
    refine ⟨(modifiersLoop (s.ext.has Gen.EXT_INTERMEDIATE_PREPARATIONS) ((s.toks.drop s.cur).length + 1) s).2.cur, ?_⟩
    show (List.take _ (modifiersLoop _ _ s).2.toks).drop s.cur = _
    rw [ht]
    rfl

theorem c02inter_modifiersP_interCore (s : BP α) (h : interCore s.toks = true) :
    interCore (modifiersP s).1 = true := by
  rcases c02inter_modifiersP_result s with h0 | ⟨c, h0⟩
  · rw [h0]; rfl
  · rw [h0]; exact c02inter_drop (c02inter_take h c) _

/-! ### `parse_modifiers` -/

theorem c02inter_parseInterRef_none (rest : List Tok) (h : (rest.head?.map (·.kind)) ≠ some .openParen) :
    parseInterRef (α := α) rest = pure (none, rest) := by
  cases rest with
  | nil => rfl
  | cons t0 r =>
    have hk : (t0.kind != TK.openParen) = true := by
      simp only [List.head?_cons, Option.map_some, ne_eq, Option.some.injEq] at h
      simpa using h
    unfold parseInterRef
    simp only [hk, if_true]

theorem c02inter_parseModifiersLoop (span : Span) (fuel : Nat) (toks : List Tok) (m : Modifiers)
    (h : interCore toks = true) :
    parseModifiersLoop (α := α) span true fuel toks m none = parseModifiersLoop span false fuel toks m none := by
  induction fuel generalizing toks m with
  | zero => rfl
  | succ fuel ih =>
    cases toks with
    | nil => rfl
    | cons tok rest =>
      have hr := c02inter_tail h
      unfold interCore at h
      simp only [Bool.and_eq_true, Bool.not_eq_true', Bool.and_eq_false_iff] at h
      unfold parseModifiersLoop
      by_cases ha : (tok.kind == TK.and) = true
      · have hno : (rest.head?.map (·.kind)) ≠ some .openParen := by
          rcases h.1 with h1 | h1
          · rw [ha] at h1; cases h1
          · intro hc; rw [hc] at h1; simp at h1
        simp only [ha, Bool.and_true, Bool.and_false, Bool.false_eq_true, if_true, if_false,
          c02inter_parseInterRef_none rest hno, pure_bind, ih _ _ hr]
      · simp only [ha, Bool.false_and, Bool.false_eq_true, if_false, ih _ _ hr]

/-- `parse_modifiers` on modifier tokens without `&(` does not depend on the extension set -/
theorem c02inter_parseModifiers_indA (mtoks : List Tok) (pos : Nat) (h : interCore mtoks = true) :
    IndA (parseModifiers (α := α) mtoks pos) := by
  have hl := parseModifiersLoop_indA (α := α)
  unfold parseModifiers
  split
  · exact IndA.pure _
  · refine IndA.hasExtBind ?_ ?_
    · intro b
      cases b
      · rfl
      · simp only [c02inter_parseModifiersLoop _ _ _ _ h]
    · apply IndA.bind (hl _ _ _ _ _ _)
      intro r
      exact IndA.pure _

end G

end Cook
