import CookModel.Print.Printer
import CookModel.Lemmas.ParserNoPanic
import CookModel.Lemmas.TextLaws
import CookModel.Lemmas.LexLaws
/-
  C01, value layer: the value parser reads back what `spellVal` writes.
  (`rt_` prefix; the property-level statements are in Props/C01.lean.)
-/
set_option linter.unusedSectionVars false
set_option linter.unusedSimpArgs false
set_option linter.unusedVariables false
namespace Cook

variable {α : Type} [Arith α]

/-! ### `Spells`: same kinds and texts -/

theorem Spells.rfl' (ts : List Tok) : Spells ts ts := rfl

theorem Spells.nil_inv {ts : List Tok} (h : Spells ts []) : ts = [] := by
  simpa [Spells] using h

theorem Spells.cons_inv {ts spec : List Tok} {u : Tok} (h : Spells ts (u :: spec)) :
    ∃ t ts', ts = t :: ts' ∧ t.kind = u.kind ∧ t.text = u.text ∧ Spells ts' spec := by
  cases ts with
  | nil => simp [Spells] at h
  | cons t ts' =>
    simp only [Spells, List.map_cons, List.cons.injEq, Tok.kt, Prod.mk.injEq] at h
    exact ⟨t, ts', rfl, h.1.1, h.1.2, h.2⟩

theorem Spells.single_inv {ts : List Tok} {u : Tok} (h : Spells ts [u]) :
    ∃ t, ts = [t] ∧ t.kind = u.kind ∧ t.text = u.text := by
  obtain ⟨t, ts', rfl, h1, h2, h3⟩ := h.cons_inv
  exact ⟨t, by rw [h3.nil_inv], h1, h2⟩

theorem Spells.append_inv {ts a b : List Tok} (h : Spells ts (a ++ b)) :
    ∃ ta tb, ts = ta ++ tb ∧ Spells ta a ∧ Spells tb b := by
  unfold Spells at h
  rw [List.map_append, List.map_eq_append_iff] at h
  obtain ⟨ta, tb, rfl, h1, h2⟩ := h
  exact ⟨ta, tb, rfl, h1, h2⟩

theorem Spells.append {ta tb a b : List Tok} (h1 : Spells ta a) (h2 : Spells tb b) : Spells (ta ++ tb) (a ++ b) := by
  unfold Spells at *; rw [List.map_append, List.map_append, h1, h2]

theorem Spells.length {ts spec : List Tok} (h : Spells ts spec) : ts.length = spec.length := by
  have := congrArg List.length h
  simpa using this

theorem Spells.mem {ts spec : List Tok} (h : Spells ts spec) {t : Tok} (ht : t ∈ ts) :
    ∃ u ∈ spec, t.kind = u.kind ∧ t.text = u.text := by
  have : t.kt ∈ spec.map Tok.kt := by rw [← h]; exact List.mem_map_of_mem ht
  obtain ⟨u, hu, he⟩ := List.mem_map.mp this
  simp only [Tok.kt, Prod.mk.injEq] at he
  exact ⟨u, hu, he.1.symm, he.2.symm⟩

theorem Spells.mem' {ts spec : List Tok} (h : Spells ts spec) {u : Tok} (hu : u ∈ spec) :
    ∃ t ∈ ts, t.kind = u.kind ∧ t.text = u.text := by
  have : u.kt ∈ ts.map Tok.kt := by rw [h]; exact List.mem_map_of_mem hu
  obtain ⟨t, ht, he⟩ := List.mem_map.mp this
  simp only [Tok.kt, Prod.mk.injEq] at he
  exact ⟨t, ht, he.1, he.2⟩

theorem Spells.flatMap_kt {β : Type} {ts spec : List Tok} (h : Spells ts spec) (f : TK × List Char → List β) :
    ts.flatMap (fun t => f t.kt) = spec.flatMap (fun t => f t.kt) := by
  have : ∀ l : List Tok, l.flatMap (fun t => f t.kt) = (l.map Tok.kt).flatMap f := by
    intro l; rw [List.flatMap_map]
  rw [this, this, h]

theorem Spells.render_eq {ts spec : List Tok} (h : Spells ts spec) : Cook.render ts = Cook.render spec :=
  h.flatMap_kt (fun p => p.2)

theorem Spells.vis_eq {ts spec : List Tok} (h : Spells ts spec) : ts.flatMap Cook.vis = spec.flatMap Cook.vis := by
  have e : ∀ t : Tok, Cook.vis t = (fun p : TK × List Char => Cook.vis ⟨p.1, p.2, 0⟩) t.kt := by
    intro t; simp [Cook.vis, Tok.kt]
  have := h.flatMap_kt (fun p : TK × List Char => Cook.vis ⟨p.1, p.2, 0⟩)
  simpa [← e] using this

theorem Spells.head_kind {ts spec : List Tok} (h : Spells ts spec) :
    ts.head?.map (·.kind) = spec.head?.map (·.kind) := by
  cases spec with
  | nil => rw [h.nil_inv]
  | cons u spec =>
    obtain ⟨t, ts', rfl, h1, -, -⟩ := h.cons_inv
    simp [h1]

/-- a predicate on kind and text transfers along `Spells` -/
theorem Spells.all_of {ts spec : List Tok} (h : Spells ts spec) (p : TK → List Char → Prop)
    (hp : ∀ u ∈ spec, p u.kind u.text) : ∀ t ∈ ts, p t.kind t.text := by
  intro t ht
  obtain ⟨u, hu, h1, h2⟩ := h.mem ht
  rw [h1, h2]; exact hp u hu

/-! ### blank padding -/

/-- blank tokens the printer may put around the pieces of a value (as the value parser sees them) -/
def BlankT (t : Tok) : Prop := isWsComment t.kind = true

theorem padTok_blank {cs : CharSpec} {t : Tok} (h : padTok cs t = true) : BlankT t := by
  unfold padTok at h; unfold BlankT isWsComment
  simp only [Bool.or_eq_true, Bool.and_eq_true, beq_iff_eq] at h ⊢
  rcases h with ⟨h, -⟩ | h <;> simp [h]

/-- padding is whitespace or block comments -/
def PadT (t : Tok) : Prop := t.kind = .ws ∨ t.kind = .blockComment

theorem padTok_padT {cs : CharSpec} {t : Tok} (h : padTok cs t = true) : PadT t := by
  unfold padTok at h; unfold PadT
  simp only [Bool.or_eq_true, Bool.and_eq_true, beq_iff_eq] at h
  rcases h with ⟨h, -⟩ | h <;> simp [h]

theorem Spells.padOK_of {cs : CharSpec} {ts spec : List Tok} (h : Spells ts spec) (hp : padOK cs spec = true) :
    padOK cs ts = true := by
  unfold Cook.padOK at *
  rw [List.all_eq_true] at *
  intro t ht
  obtain ⟨u, hu, h1, h2⟩ := h.mem ht
  have := hp u hu
  unfold padTok at *
  rw [h1, h2]; exact this

theorem padOK_blank {cs : CharSpec} {l : List Tok} (h : padOK cs l = true) : ∀ t ∈ l, BlankT t := by
  intro t ht
  unfold padOK at h; rw [List.all_eq_true] at h
  exact padTok_blank (h t ht)

theorem padOK_padT {cs : CharSpec} {l : List Tok} (h : padOK cs l = true) : ∀ t ∈ l, PadT t := by
  intro t ht
  unfold padOK at h; rw [List.all_eq_true] at h
  exact padTok_padT (h t ht)

theorem blank_filter {l : List Tok} (h : ∀ t ∈ l, BlankT t) : l.filter notWsComment = [] := by
  rw [List.filter_eq_nil_iff]
  intro t ht
  have := h t ht
  simp [notWsComment, BlankT] at this ⊢
  exact this

theorem rt_trim_gen {β : Type} (p : β → Bool) (pre mid post : List β) (hpre : ∀ t ∈ pre, p t = true)
    (hpost : ∀ t ∈ post, p t = true) (hne : mid ≠ []) (hfirst : ∀ t, mid.head? = some t → p t = false)
    (hlast : ∀ t, mid.getLast? = some t → p t = false) :
    (((pre ++ mid ++ post).dropWhile p).reverse.dropWhile p).reverse = mid := by
  have h1 : (pre ++ mid ++ post).dropWhile p = mid ++ post := by
    rw [List.append_assoc, List.dropWhile_append_of_pos (by intro t ht; exact hpre t ht)]
    cases mid with
    | nil => contradiction
    | cons m ms =>
      have : p m = false := hfirst m rfl
      simp [List.dropWhile_cons, this]
  rw [h1, List.reverse_append]
  have h2 : (post.reverse ++ mid.reverse).dropWhile p = mid.reverse := by
    rw [List.dropWhile_append_of_pos (by intro t ht; exact hpost t (by simpa using ht))]
    cases hm : mid.reverse with
    | nil => simp at hm; contradiction
    | cons m ms =>
      have hl : mid.getLast? = some m := by
        rw [← List.head?_reverse, hm]; rfl
      have : p m = false := hlast m hl
      simp [List.dropWhile_cons, this]
  rw [h2, List.reverse_reverse]

theorem rt_trim (pre post mid : List Tok) (hpre : ∀ t ∈ pre, BlankT t) (hpost : ∀ t ∈ post, BlankT t)
    (hne : mid ≠ []) (hfirst : ∀ t, mid.head? = some t → ¬ BlankT t) (hlast : ∀ t, mid.getLast? = some t → ¬ BlankT t) :
    trimTokens (pre ++ mid ++ post) = mid := by
  unfold trimTokens
  exact rt_trim_gen (fun t : Tok => isWsComment t.kind) pre mid post (fun t ht => hpre t ht) (fun t ht => hpost t ht) hne
    (fun t ht => by simpa [BlankT] using hfirst t ht) (fun t ht => by simpa [BlankT] using hlast t ht)

/-! ### `numeric_value` through its filtered form -/

/-- the two fraction shapes `numeric_value` accepts after dropping inner blanks -/
def rtFiltered (f : List Tok) : Option (Except Diag (Value α)) :=
  match f with
  | [i, x, s, y] =>
    if i.kind == .int && x.kind == .int && s.kind == .slash && y.kind == .int then
      some ((mixedNum (α := α) i x y).map .number) else none
  | [x, s, y] =>
    if x.kind == .int && s.kind == .slash && y.kind == .int then
      some ((fracNum (α := α) x y).map .number) else none
  | _ => none

theorem rt_numericValue_long (tokens : List Tok)
    (h : 3 ≤ (trimTokens tokens).length ∧
      ((trimTokens tokens).length = 3 → ∀ x, (trimTokens tokens)[1]? = some x → x.kind ≠ .dot)) :
    numericValue (α := α) tokens = rtFiltered ((trimTokens tokens).filter notWsComment) := by
  unfold numericValue
  generalize trimTokens tokens = tr at h
  rcases tr with _ | ⟨a, _ | ⟨b, _ | ⟨c, _ | ⟨d, r⟩⟩⟩⟩
  · simp at h
  · simp at h
  · simp at h
  · have h := h.2 rfl
    · have hb : b.kind ≠ .dot := h b rfl
      simp only [List.isEmpty_cons, Bool.false_eq_true, if_false, hb, beq_iff_eq, Bool.and_false, Bool.false_and]
      generalize hf : List.filter notWsComment [a, b, c] = f
      have hl : f.length ≤ 3 := by rw [← hf]; exact List.length_filter_le _ _
      rcases f with _ | ⟨x, _ | ⟨y, _ | ⟨z, _ | ⟨w, r⟩⟩⟩⟩ <;> simp [rtFiltered, hb] at hl ⊢
  · simp only [List.isEmpty_cons, Bool.false_eq_true, if_false]
    generalize List.filter notWsComment (a :: b :: c :: d :: r) = f
    unfold rtFiltered
    split <;> simp_all

theorem rtFiltered_none_of_no_slash (f : List Tok) (h : ∀ t ∈ f, t.kind ≠ .slash) :
    rtFiltered (α := α) f = none := by
  unfold rtFiltered
  split
  · rename_i i x s y
    have := h s (by simp)
    simp [this]
  · rename_i x s y
    have := h s (by simp)
    simp [this]
  · rfl

theorem rtFiltered_none_of_minus (f : List Tok) (h : ∃ t ∈ f, t.kind = .minus) :
    rtFiltered (α := α) f = none := by
  obtain ⟨t, ht, hk⟩ := h
  unfold rtFiltered
  split
  · rename_i i x s y
    simp only [List.mem_cons, List.not_mem_nil, or_false] at ht
    rcases ht with rfl | rfl | rfl | rfl <;> simp [hk]
  · rename_i x s y
    simp only [List.mem_cons, List.not_mem_nil, or_false] at ht
    rcases ht with rfl | rfl | rfl <;> simp [hk]
  · rfl

/-! ### numbers -/

theorem rt_parseU32_ok (t : Tok) (h : digitsToNat t.text ≤ u32Max) : parseU32 t = .ok (digitsToNat t.text) := by
  simp [parseU32, h]

theorem rt_not_blank_of_kind {t : Tok} (h : isWsComment t.kind = false) : ¬ BlankT t := by
  simp [BlankT, h]

theorem rt_blank_not_dot {t : Tok} (h : BlankT t) : t.kind ≠ .dot := by
  intro hk; simp [BlankT, isWsComment, hk] at h

/-- a number spelling, padded with blanks, is read back as that number -/
theorem rt_num {cs : CharSpec} (n : ANum) (np : NPad) (hn : n.ok = true) (hp : np.ok cs = true)
    (pre mid post : List Tok) (hs : Spells mid (spellNum n np))
    (hpre : ∀ t ∈ pre, BlankT t) (hpost : ∀ t ∈ post, BlankT t) :
    numericValue (α := α) (pre ++ mid ++ post) = some (.ok (.number n.denote)) := by
  simp only [NPad.ok, Bool.and_eq_true] at hp
  obtain ⟨⟨hpw, hpa⟩, hpb⟩ := hp
  cases n with
  | int ds =>
    obtain ⟨t, rfl, hk, ht⟩ := hs.single_inv
    simp only [tk] at hk ht
    have hnb : ¬ BlankT t := rt_not_blank_of_kind (by simp [hk, isWsComment])
    have htrim := rt_trim pre post [t] hpre hpost (by simp)
      (by intro x hx; simp at hx; subst hx; exact hnb) (by intro x hx; simp at hx; subst hx; exact hnb)
    unfold numericValue
    simp only [htrim]
    simp [hk, ht, ANum.denote]
  | dec i f =>
    simp only [spellNum] at hs
    obtain ⟨a, r1, rfl, hak, hat, hs⟩ := hs.cons_inv
    obtain ⟨d, r2, rfl, hdk, hdt, hs⟩ := hs.cons_inv
    obtain ⟨b, rfl, hbk, hbt⟩ := hs.single_inv
    simp only [tk] at hak hat hdk hdt hbk hbt
    have hbk' : b.kind = .int ∨ b.kind = .zeroInt := by
      rw [hbk]; unfold fracKind; split <;> simp
    have hna : ¬ BlankT a := rt_not_blank_of_kind (by simp [hak, isWsComment])
    have hnb : ¬ BlankT b := rt_not_blank_of_kind (by rcases hbk' with h | h <;> simp [h, isWsComment])
    have htrim := rt_trim pre post [a, d, b] hpre hpost (by simp)
      (by intro x hx; simp at hx; subst hx; exact hna) (by intro x hx; simp at hx; subst hx; exact hnb)
    unfold numericValue
    simp only [htrim]
    rcases hbk' with h | h <;> simp [hak, hdk, h, isIntLike, hat, hbt, ANum.denote]
  | dec0 f =>
    simp only [spellNum] at hs
    obtain ⟨d, r2, rfl, hdk, hdt, hs⟩ := hs.cons_inv
    obtain ⟨b, rfl, hbk, hbt⟩ := hs.single_inv
    simp only [tk] at hdk hdt hbk hbt
    have hbk' : b.kind = .int ∨ b.kind = .zeroInt := by
      rw [hbk]; unfold fracKind; split <;> simp
    have hnd : ¬ BlankT d := rt_not_blank_of_kind (by simp [hdk, isWsComment])
    have hnb : ¬ BlankT b := rt_not_blank_of_kind (by rcases hbk' with h | h <;> simp [h, isWsComment])
    have htrim := rt_trim pre post [d, b] hpre hpost (by simp)
      (by intro x hx; simp at hx; subst hx; exact hnd) (by intro x hx; simp at hx; subst hx; exact hnb)
    unfold numericValue
    simp only [htrim]
    rcases hbk' with h | h <;> simp [hdk, h, isIntLike, hbt, ANum.denote]
  | frac n d =>
    simp only [spellNum, List.append_assoc, List.cons_append, List.nil_append] at hs
    obtain ⟨tn, r1, rfl, hnk, hnt, hs⟩ := hs.cons_inv
    obtain ⟨a, r2, rfl, ha, hs⟩ := hs.append_inv
    obtain ⟨tsl, r3, rfl, hsk, hst, hs⟩ := hs.cons_inv
    obtain ⟨b, r4, rfl, hb, hs⟩ := hs.append_inv
    obtain ⟨td, rfl, hdk, hdt⟩ := hs.single_inv
    simp only [tk] at hnk hnt hsk hst hdk hdt
    have hab := padOK_blank (ha.padOK_of hpa)
    have hbb := padOK_blank (hb.padOK_of hpb)
    simp only [ANum.ok, Bool.and_eq_true, decide_eq_true_eq, bne_iff_ne, ne_eq] at hn
    obtain ⟨⟨hn1, hn2⟩, hn3⟩ := hn
    have hnn : ¬ BlankT tn := rt_not_blank_of_kind (by simp [hnk, isWsComment])
    have hnd : ¬ BlankT td := rt_not_blank_of_kind (by simp [hdk, isWsComment])
    have htrim := rt_trim pre post (tn :: (a ++ tsl :: (b ++ [td]))) hpre hpost (by simp)
      (by intro x hx; simp at hx; subst hx; exact hnn)
      (by
        intro x hx
        have : (tn :: (a ++ tsl :: (b ++ [td]))) = (tn :: (a ++ tsl :: b)) ++ [td] := by simp
        rw [this, List.getLast?_concat] at hx
        simp at hx; subst hx; exact hnd)
    rw [rt_numericValue_long]
    · rw [htrim]
      have hf : List.filter notWsComment (tn :: (a ++ tsl :: (b ++ [td]))) = [tn, tsl, td] := by
        simp [List.filter_cons, List.filter_append, blank_filter hab, blank_filter hbb, notWsComment,
          isWsComment, hnk, hsk, hdk]
      rw [hf]
      simp [rtFiltered, hnk, hsk, hdk, fracNum, parseU32, hnt, hdt, hn1, hn2, hn3, ANum.denote, Except.map]
    · rw [htrim]
      refine ⟨by simp; omega, ?_⟩
      intro _ x hx
      cases a with
      | nil => simp at hx; subst hx; simp [hsk]
      | cons y a' => simp at hx; subst hx; exact rt_blank_not_dot (hab _ (by simp))
  | mixed w n d =>
    simp only [spellNum, List.append_assoc, List.cons_append, List.nil_append] at hs
    obtain ⟨tw, r0, rfl, hwk, hwt, hs⟩ := hs.cons_inv
    obtain ⟨pw, r0', rfl, hw, hs⟩ := hs.append_inv
    obtain ⟨tn, r1, rfl, hnk, hnt, hs⟩ := hs.cons_inv
    obtain ⟨a, r2, rfl, ha, hs⟩ := hs.append_inv
    obtain ⟨tsl, r3, rfl, hsk, hst, hs⟩ := hs.cons_inv
    obtain ⟨b, r4, rfl, hb, hs⟩ := hs.append_inv
    obtain ⟨td, rfl, hdk, hdt⟩ := hs.single_inv
    simp only [tk] at hwk hwt hnk hnt hsk hst hdk hdt
    have hwb := padOK_blank (hw.padOK_of hpw)
    have hab := padOK_blank (ha.padOK_of hpa)
    have hbb := padOK_blank (hb.padOK_of hpb)
    simp only [ANum.ok, Bool.and_eq_true, decide_eq_true_eq, bne_iff_ne, ne_eq] at hn
    obtain ⟨⟨⟨hn0, hn1⟩, hn2⟩, hn3⟩ := hn
    have hnw : ¬ BlankT tw := rt_not_blank_of_kind (by simp [hwk, isWsComment])
    have hnd : ¬ BlankT td := rt_not_blank_of_kind (by simp [hdk, isWsComment])
    have htrim := rt_trim pre post (tw :: (pw ++ tn :: (a ++ tsl :: (b ++ [td])))) hpre hpost (by simp)
      (by intro x hx; simp at hx; subst hx; exact hnw)
      (by
        intro x hx
        have : (tw :: (pw ++ tn :: (a ++ tsl :: (b ++ [td])))) = (tw :: (pw ++ tn :: (a ++ tsl :: b))) ++ [td] := by simp
        rw [this, List.getLast?_concat] at hx
        simp at hx; subst hx; exact hnd)
    rw [rt_numericValue_long]
    · rw [htrim]
      have hf : List.filter notWsComment (tw :: (pw ++ tn :: (a ++ tsl :: (b ++ [td])))) = [tw, tn, tsl, td] := by
        simp [List.filter_cons, List.filter_append, blank_filter hwb, blank_filter hab, blank_filter hbb,
          notWsComment, isWsComment, hwk, hnk, hsk, hdk]
      rw [hf]
      simp [rtFiltered, hwk, hnk, hsk, hdk, mixedNum, fracNum, parseU32, hwt, hnt, hdt, hn0, hn1, hn2, hn3,
        ANum.denote, Except.map]
    · rw [htrim]
      refine ⟨by simp; omega, ?_⟩
      intro hl
      simp at hl
      omega

/-! ### ranges -/

theorem rt_range_needs_extension (ts : List Tok) : rangeValue (α := α) false ts = none := rfl

theorem rt_findIdx_append {β : Type} (p : β → Bool) (A : List β) (x : β) (B : List β)
    (hA : ∀ t ∈ A, p t = false) (hx : p x = true) : (A ++ x :: B).findIdx? p = some A.length := by
  induction A with
  | nil => simp [List.findIdx?_cons, hx]
  | cons a A ih =>
    have ha := hA a (by simp)
    simp only [List.cons_append, List.findIdx?_cons, ha, Bool.false_eq_true, if_false]
    rw [ih (fun t ht => hA t (by simp [ht]))]
    simp

theorem rt_findIdx_none {β : Type} (p : β → Bool) (A : List β) (hA : ∀ t ∈ A, p t = false) :
    A.findIdx? p = none := by
  rw [List.findIdx?_eq_none_iff]; exact hA

/-- kinds a number spelling is made of -/
def numKind (k : TK) : Bool :=
  k == .ws || k == .blockComment || k == .int || k == .zeroInt || k == .dot || k == .slash

theorem padT_numKind {t : Tok} (h : PadT t) : numKind t.kind = true := by
  rcases h with h | h <;> simp [numKind, h]

theorem rt_spellNum_kinds {cs : CharSpec} (n : ANum) (np : NPad) (hp : np.ok cs = true) :
    ∀ u ∈ spellNum n np, numKind u.kind = true := by
  simp only [NPad.ok, Bool.and_eq_true] at hp
  obtain ⟨⟨hpw, hpa⟩, hpb⟩ := hp
  have hw := padOK_padT hpw
  have ha := padOK_padT hpa
  have hb := padOK_padT hpb
  intro u hu
  cases n with
  | int ds => simp [spellNum, tk] at hu; subst hu; rfl
  | dec i f =>
    simp [spellNum, tk] at hu
    rcases hu with rfl | rfl | rfl
    · rfl
    · rfl
    · simp only [fracKind]; split <;> rfl
  | dec0 f =>
    simp [spellNum, tk] at hu
    rcases hu with rfl | rfl
    · rfl
    · simp only [fracKind]; split <;> rfl
  | frac n d =>
    simp [spellNum, tk] at hu
    rcases hu with rfl | hu | rfl | hu | rfl
    · rfl
    · exact padT_numKind (ha u hu)
    · rfl
    · exact padT_numKind (hb u hu)
    · rfl
  | mixed w n d =>
    simp [spellNum, tk] at hu
    rcases hu with rfl | hu | rfl | hu | rfl | hu | rfl
    · rfl
    · exact padT_numKind (hw u hu)
    · rfl
    · exact padT_numKind (ha u hu)
    · rfl
    · exact padT_numKind (hb u hu)
    · rfl

theorem rt_num_kinds {cs : CharSpec} {n : ANum} {np : NPad} (hp : np.ok cs = true) {mid : List Tok}
    (hs : Spells mid (spellNum n np)) : ∀ t ∈ mid, numKind t.kind = true :=
  hs.all_of (fun k _ => numKind k = true) (rt_spellNum_kinds n np hp)

theorem rangeValue_none_of_no_minus (ext : Bool) (ts : List Tok) (h : ∀ t ∈ ts, t.kind ≠ .minus) :
    rangeValue (α := α) ext ts = none := by
  unfold rangeValue
  split
  · rfl
  · rw [rt_findIdx_none _ _ (by intro t ht; simpa using h t ht)]

/-- `lo - hi` with blanks anywhere the syntax allows is read back as the range -/
theorem rt_range {cs : CharSpec} (lo hi : ANum) (p : VPad) (hlo : lo.ok = true) (hhi : hi.ok = true)
    (hp : p.ok cs = true) (ts : List Tok) (hs : Spells ts (spellVal (.range lo hi) p)) :
    rangeValue (α := α) true ts = some (.ok (.range lo.denote hi.denote)) := by
  simp only [VPad.ok, Bool.and_eq_true] at hp
  obtain ⟨⟨⟨⟨⟨hpre, hpost⟩, hplo⟩, hphi⟩, hm1⟩, hm2⟩ := hp
  simp only [spellVal, spellCore, List.append_assoc, List.cons_append, List.nil_append] at hs
  obtain ⟨pre, r1, rfl, hpre', hs⟩ := hs.append_inv
  obtain ⟨tlo, r2, rfl, hlo', hs⟩ := hs.append_inv
  obtain ⟨m1, r3, rfl, hm1', hs⟩ := hs.append_inv
  obtain ⟨tm, r4, rfl, hmk, hmt, hs⟩ := hs.cons_inv
  obtain ⟨m2, r5, rfl, hm2', hs⟩ := hs.append_inv
  obtain ⟨thi, post, rfl, hhi', hpost'⟩ := hs.append_inv
  simp only [tk] at hmk
  have bpre := padOK_blank (hpre'.padOK_of hpre)
  have bpost := padOK_blank (hpost'.padOK_of hpost)
  have bm1 := padOK_blank (hm1'.padOK_of hm1)
  have bm2 := padOK_blank (hm2'.padOK_of hm2)
  have nominus : ∀ t ∈ pre ++ tlo ++ m1, (t.kind == TK.minus) = false := by
    intro t ht
    simp only [List.mem_append] at ht
    rcases ht with (ht | ht) | ht
    · have := bpre t ht; simp [BlankT, isWsComment] at this; rcases this with (h | h) | h <;> simp [h]
    · have := rt_num_kinds hplo hlo' t ht
      cases hk : t.kind <;> simp [numKind, hk] at this ⊢
    · have := bm1 t ht; simp [BlankT, isWsComment] at this; rcases this with (h | h) | h <;> simp [h]
  have e : pre ++ (tlo ++ (m1 ++ tm :: (m2 ++ (thi ++ post)))) = (pre ++ tlo ++ m1) ++ tm :: (m2 ++ thi ++ post) := by
    simp
  rw [e]
  unfold rangeValue
  simp only [Bool.not_true, Bool.false_eq_true, if_false]
  rw [rt_findIdx_append (fun t => t.kind == TK.minus) _ tm _ nominus (by simp [hmk])]
  dsimp only
  have h1 : (pre ++ tlo ++ m1 ++ tm :: (m2 ++ thi ++ post)).take (pre ++ tlo ++ m1).length = pre ++ tlo ++ m1 := by
    rw [List.take_left']; rfl
  have h2 : (pre ++ tlo ++ m1 ++ tm :: (m2 ++ thi ++ post)).drop ((pre ++ tlo ++ m1).length + 1) = m2 ++ thi ++ post := by
    rw [show pre ++ tlo ++ m1 ++ tm :: (m2 ++ thi ++ post) = (pre ++ tlo ++ m1 ++ [tm]) ++ (m2 ++ thi ++ post) by simp]
    have hl : (pre ++ tlo ++ m1).length + 1 = (pre ++ tlo ++ m1 ++ [tm]).length := by simp; omega
    rw [hl, List.drop_left' rfl]
  rw [h1, h2, rt_num lo p.lo hlo hplo pre tlo m1 hlo' bpre bm1, rt_num hi p.hi hhi hphi m2 thi post hhi' bm2 bpost]

/-! ### text leaves -/

theorem hasDoubleSpace_cons_ne (c : Char) (t : List Char) (hc : c ≠ ' ') :
    hasDoubleSpace (c :: t) = hasDoubleSpace t := by
  rw [hasDoubleSpace.eq_def]
  split
  · rename_i heq; injection heq with h1 h2; exact absurd h1 hc
  · rename_i heq; injection heq with h1 h2; rw [h2]
  · rename_i heq; cases heq

theorem hasDoubleSpace_append_nospace (a s : List Char) (ha : ∀ c ∈ a, c ≠ ' ') :
    hasDoubleSpace (a ++ s) = hasDoubleSpace s := by
  induction a with
  | nil => rfl
  | cons c a ih =>
    rw [List.cons_append, hasDoubleSpace_cons_ne _ _ (ha c (by simp)), ih (fun c hc' => ha c (by simp [hc']))]

theorem hasDoubleSpace_space_cons (c : Char) (s : List Char) (hc : c ≠ ' ') :
    hasDoubleSpace (' ' :: c :: s) = hasDoubleSpace (c :: s) := by
  rw [hasDoubleSpace.eq_def]
  split
  · rename_i heq; injection heq with h1 h2; injection h2 with h3 h4; exact absurd h3 hc
  · rename_i heq; injection heq with h1 h2; rw [h2]
  · rename_i heq; cases heq

theorem isAtomTok_facts {cs : CharSpec} {allowed : TK → Bool} {t : Tok} (h : isAtomTok cs allowed t = true) :
    allowed t.kind = true ∧ plainKind t.kind = true ∧ t.text ≠ [] ∧ ∀ c ∈ t.text, cs.uws c = false ∧ c ≠ ' ' := by
  unfold isAtomTok at h
  simp only [Bool.and_eq_true, Bool.not_eq_true', List.isEmpty_eq_false_iff, List.all_eq_true,
    bne_iff_ne, ne_eq] at h
  exact ⟨h.1.1.1, h.1.1.2, h.1.2, h.2⟩

theorem plainKind_vis {t : Tok} (h : plainKind t.kind = true) : vis t = t.text := by
  unfold vis
  cases hk : t.kind <;> simp [plainKind, hk] at h ⊢

theorem isSpTok_facts {t : Tok} (h : isSpTok t = true) : t.kind = .ws ∧ t.text = [' '] := by
  unfold isSpTok at h
  simpa using h

theorem leaf_tok_vis {cs : CharSpec} {allowed : TK → Bool} {t : Tok}
    (h : (isAtomTok cs allowed t || isSpTok t) = true) : vis t = t.text := by
  rw [Bool.or_eq_true] at h
  rcases h with h | h
  · exact plainKind_vis (isAtomTok_facts h).2.1
  · simp [vis, (isSpTok_facts h).1]

structure LeafFacts (cs : CharSpec) (allowed : TK → Bool) (l : List Tok) : Prop where
  toks : ∀ t ∈ l, (isAtomTok cs allowed t || isSpTok t) = true
  adj : noAdjSp l = true
  head : ∃ t r, l = t :: r ∧ isAtomTok cs allowed t = true
  last : ∃ i t, l = i ++ [t] ∧ isAtomTok cs allowed t = true

theorem leafOK_facts {cs : CharSpec} {allowed : TK → Bool} {l : List Tok} (h : leafOK cs allowed l = true) :
    LeafFacts cs allowed l := by
  unfold leafOK at h
  simp only [Bool.and_eq_true, List.all_eq_true] at h
  obtain ⟨⟨⟨h1, h2⟩, h3⟩, h4⟩ := h
  refine ⟨h1, h2, ?_, ?_⟩
  · cases l with
    | nil => simp at h3
    | cons t r => exact ⟨t, r, rfl, by simpa using h3⟩
  · cases hl : l.getLast? with
    | none => rw [hl] at h4; simp at h4
    | some t =>
      rw [hl] at h4
      obtain ⟨i, hi⟩ := List.getLast?_eq_some_iff.mp hl
      exact ⟨i, t, hi, by simpa using h4⟩

theorem leaf_vis {cs : CharSpec} {allowed : TK → Bool} {l : List Tok} (h : LeafFacts cs allowed l) :
    l.flatMap vis = leafText l := by
  unfold leafText
  have : ∀ l : List Tok, (∀ t ∈ l, (isAtomTok cs allowed t || isSpTok t) = true) →
      l.flatMap vis = l.flatMap (·.text) := by
    intro l hl
    induction l with
    | nil => rfl
    | cons t r ih =>
      simp only [List.flatMap_cons]
      rw [leaf_tok_vis (hl t (by simp)), ih (fun x hx => hl x (by simp [hx]))]
  exact this l h.toks

theorem leaf_noDoubleSpace {cs : CharSpec} {allowed : TK → Bool} (l : List Tok)
    (ht : ∀ t ∈ l, (isAtomTok cs allowed t || isSpTok t) = true) (ha : noAdjSp l = true) :
    hasDoubleSpace (leafText l) = false := by
  induction l with
  | nil => simp [leafText, hasDoubleSpace]
  | cons t r ih =>
    have ihr := ih (fun x hx => ht x (by simp [hx]))
      (by cases r with
          | nil => simp [noAdjSp]
          | cons u r' => simp only [noAdjSp, Bool.and_eq_true] at ha; exact ha.2)
    have h0 := ht t (by simp)
    rw [Bool.or_eq_true] at h0
    simp only [leafText, List.flatMap_cons] at ihr ⊢
    rcases h0 with h0 | h0
    · rw [hasDoubleSpace_append_nospace _ _ (fun c hc => ((isAtomTok_facts h0).2.2.2 c hc).2)]
      exact ihr
    · obtain ⟨hk, hx⟩ := isSpTok_facts h0
      rw [hx]
      cases r with
      | nil => simp [hasDoubleSpace]
      | cons u r' =>
        simp only [noAdjSp, Bool.and_eq_true, Bool.not_eq_true', Bool.and_eq_false_iff, beq_eq_false_iff_ne] at ha
        have hu : u.kind ≠ .ws := by
          rcases ha.1 with h | h
          · exact absurd hk h
          · exact h
        have h1 := ht u (by simp)
        rw [Bool.or_eq_true] at h1
        rcases h1 with h1 | h1
        · obtain ⟨-, -, hne, hc⟩ := isAtomTok_facts h1
          cases hu' : u.text with
          | nil => exact absurd hu' hne
          | cons c cr =>
            have hcs : c ≠ ' ' := (hc c (by simp [hu'])).2
            simp only [List.flatMap_cons, hu', List.cons_append, List.nil_append] at ihr ⊢
            rw [hasDoubleSpace_space_cons _ _ hcs]
            exact ihr
        · exact absurd (isSpTok_facts h1).1 hu

theorem leaf_head_char {cs : CharSpec} {allowed : TK → Bool} {l : List Tok} (h : LeafFacts cs allowed l) :
    ∃ c r, leafText l = c :: r ∧ cs.uws c = false := by
  obtain ⟨t, r, rfl, ht⟩ := h.head
  obtain ⟨-, -, hne, hc⟩ := isAtomTok_facts ht
  cases hx : t.text with
  | nil => exact absurd hx hne
  | cons c cr =>
    exact ⟨c, cr ++ leafText r, by simp [leafText, hx], (hc c (by simp [hx])).1⟩

theorem leaf_last_char {cs : CharSpec} {allowed : TK → Bool} {l : List Tok} (h : LeafFacts cs allowed l) :
    ∃ i c, leafText l = i ++ [c] ∧ cs.uws c = false := by
  obtain ⟨i, t, rfl, ht⟩ := h.last
  obtain ⟨-, -, hne, hc⟩ := isAtomTok_facts ht
  obtain ⟨j, c, hj⟩ : ∃ j c, t.text = j ++ [c] := by
    cases hl : t.text.getLast? with
    | none => simp at hl; exact absurd hl hne
    | some c => obtain ⟨j, hj⟩ := List.getLast?_eq_some_iff.mp hl; exact ⟨j, c, hj⟩
  exact ⟨leafText i ++ j, c, by simp [leafText, hj], (hc c (by simp [hj])).1⟩

theorem pad_vis_uws {cs : CharSpec} {l : List Tok} (h : padOK cs l = true) : ∀ c ∈ l.flatMap vis, cs.uws c = true := by
  intro c hc
  simp only [List.mem_flatMap] at hc
  obtain ⟨t, ht, hc⟩ := hc
  unfold padOK at h; rw [List.all_eq_true] at h
  have := h t ht
  unfold padTok at this
  simp only [Bool.or_eq_true, Bool.and_eq_true, beq_iff_eq, List.all_eq_true] at this
  rcases this with ⟨hk, hall⟩ | hk
  · simp only [vis, hk] at hc; exact hall c hc
  · simp [vis, hk] at hc

/-- characters of a padded leaf: the leaf's string between characters that `trim` removes -/
theorem rt_trim_leaf {cs : CharSpec} {allowed : TK → Bool} {l : List Tok} (h : LeafFacts cs allowed l)
    (a b : List Char) (ha : ∀ c ∈ a, cs.uws c = true) (hb : ∀ c ∈ b, cs.uws c = true) :
    trim cs.uws (a ++ leafText l ++ b) = leafText l := by
  unfold trim trimEnd trimStart
  obtain ⟨c, r, hc, hcu⟩ := leaf_head_char h
  obtain ⟨i, d, hd, hdu⟩ := leaf_last_char h
  apply rt_trim_gen cs.uws a (leafText l) b ha hb
  · rw [hc]; simp
  · intro x hx; rw [hc] at hx; simp at hx; subst hx; exact hcu
  · intro x hx; rw [hd, List.getLast?_concat] at hx; simp at hx; subst hx; exact hdu

/-! ### a text with a visible, non-blank token is not empty -/

def NBs (cs : CharSpec) (s : List Char) : Prop := ∃ c ∈ s, cs.uws c = false

theorem trim_nonempty {cs : CharSpec} {s : List Char} (h : NBs cs s) : (trim cs.uws s).isEmpty = false := by
  obtain ⟨c, hc, hcu⟩ := h
  cases ht : trim cs.uws s with
  | cons _ _ => rfl
  | nil =>
    exfalso
    unfold trim trimEnd trimStart at ht
    have h1 : (s.dropWhile cs.uws).reverse.dropWhile cs.uws = [] := by simpa using ht
    have h2 := dropWhile_nil_all _ _ h1
    cases hd : s.dropWhile cs.uws with
    | nil =>
      have := dropWhile_nil_all _ _ hd c hc
      rw [hcu] at this; cases this
    | cons x xs =>
      have hx : cs.uws x = true := h2 x (by rw [hd]; simp)
      have := lexlaws_head_dropWhile cs.uws s
      rw [hd] at this
      simp only [List.head?_cons, Option.any_some] at this
      rw [hx] at this; cases this

def AccNB (cs : CharSpec) (a : TextAcc) : Prop := (∃ f ∈ a.t.frags, NBs cs f.text) ∨ NBs cs a.cur

theorem appendFrag_frags (t : Text) (f : Frag) :
    (t.appendFrag f).frags = t.frags ++ (if f.text.isEmpty then [] else [f]) := by
  unfold Text.appendFrag
  by_cases he : f.text.isEmpty <;> simp [he] <;> split <;> rfl

theorem appendStr_NB {cs : CharSpec} (t : Text) (s : List Char) (off : Nat)
    (h : (∃ f ∈ t.frags, NBs cs f.text) ∨ NBs cs s) : ∃ f ∈ (t.appendStr s off).frags, NBs cs f.text := by
  unfold Text.appendStr
  rw [appendFrag_frags]
  rcases h with ⟨f, hf, hn⟩ | hn
  · exact ⟨f, by simp [hf], hn⟩
  · have : s.isEmpty = false := by
      obtain ⟨c, hc, -⟩ := hn
      cases s <;> simp_all
    exact ⟨⟨s, off, false⟩, by simp [this], hn⟩

theorem textStep_NB {cs : CharSpec} (a : TextAcc) (tok : Tok) (h : AccNB cs a) : AccNB cs (textStep a tok) := by
  unfold textStep
  split
  · left
    obtain ⟨f, hf, hn⟩ := appendStr_NB (cs := cs) a.t a.cur a.start h
    simp only [appendFrag_frags]
    exact ⟨f, by simp [hf], hn⟩
  · left; exact appendStr_NB a.t a.cur a.start h
  · left; exact appendStr_NB a.t a.cur a.start h
  · left; exact appendStr_NB a.t a.cur a.start h
  · rcases h with h | ⟨c, hc, hn⟩
    · left; exact h
    · right; exact ⟨c, by simp [hc], hn⟩

theorem textStep_NB_intro {cs : CharSpec} (a : TextAcc) (tok : Tok) (hk : plainKind tok.kind = true)
    (hn : NBs cs tok.text) : AccNB cs (textStep a tok) := by
  obtain ⟨c, hc, hcu⟩ := hn
  unfold textStep
  cases hk' : tok.kind <;> simp [plainKind, hk'] at hk ⊢ <;> exact Or.inr ⟨c, by simp [hc], hcu⟩

theorem foldl_textStep_NB {cs : CharSpec} (ts : List Tok) (a : TextAcc)
    (h : AccNB cs a ∨ ∃ t ∈ ts, plainKind t.kind = true ∧ NBs cs t.text) : AccNB cs (ts.foldl textStep a) := by
  induction ts generalizing a with
  | nil =>
    rcases h with h | ⟨t, ht, -⟩
    · exact h
    · simp at ht
  | cons t r ih =>
    rw [List.foldl_cons]
    apply ih
    rcases h with h | ⟨x, hx, hp, hn⟩
    · left; exact textStep_NB a t h
    · simp only [List.mem_cons] at hx
      rcases hx with rfl | hx
      · left; exact textStep_NB_intro a x hp hn
      · right; exact ⟨x, hx, hp, hn⟩

theorem buildText_not_empty {cs : CharSpec} (off : Nat) (ts : List Tok)
    (h : ∃ t ∈ ts, plainKind t.kind = true ∧ NBs cs t.text) : (buildText off ts).isTextEmpty cs = false := by
  have key : ∀ t : Text, (∃ f ∈ t.frags, NBs cs f.text) → t.isTextEmpty cs = false := by
    intro t ⟨f, hf, hn⟩
    unfold Text.isTextEmpty
    rw [Bool.eq_false_iff]
    intro hall
    rw [List.all_eq_true] at hall
    have := hall f hf
    rw [trim_nonempty hn] at this; cases this
  unfold buildText
  cases ts with
  | nil => obtain ⟨t, ht, -⟩ := h; simp at ht
  | cons t0 rest =>
    simp only
    have hacc := foldl_textStep_NB (cs := cs) (t0 :: rest) ⟨Text.empty off, t0.start, []⟩ (Or.inr h)
    have hfr := appendStr_NB (cs := cs) _ _ ((t0 :: rest).foldl textStep ⟨Text.empty off, t0.start, []⟩).start hacc
    split
    · exact key _ hfr
    · exact key _ hfr

/-- the text assembled from a padded leaf: trimmed it is the leaf's string, and it is not empty -/
theorem rt_leaf_text {cs : CharSpec} {allowed : TK → Bool} {pre l post ts : List Tok}
    (hs : Spells ts (pre ++ l ++ post)) (hpre : padOK cs pre = true) (hpost : padOK cs post = true)
    (hl : leafOK cs allowed l = true) (off : Nat) :
    (buildText off ts).trimmed cs = leafText l ∧ (buildText off ts).isTextEmpty cs = false := by
  have lf := leafOK_facts hl
  constructor
  · unfold Text.trimmed Text.outerTrimmed
    rw [buildText_text, hs.vis_eq]
    simp only [List.flatMap_append]
    rw [leaf_vis lf, rt_trim_leaf lf _ _ (pad_vis_uws hpre) (pad_vis_uws hpost)]
    simp [leaf_noDoubleSpace l lf.toks lf.adj]
  · apply buildText_not_empty
    obtain ⟨u, r, hu, hat⟩ := lf.head
    obtain ⟨t, ht, hk, hx⟩ := hs.mem' (u := u) (by rw [hu]; simp)
    obtain ⟨-, hp, hne, hc⟩ := isAtomTok_facts hat
    refine ⟨t, ht, by rw [hk]; exact hp, ?_⟩
    rw [hx]
    cases hx' : u.text with
    | nil => exact absurd hx' hne
    | cons c cr => exact ⟨c, by simp, (hc c (by simp [hx'])).1⟩

/-! ### values: `numOrRange` and `parseValue` -/

theorem numKind_not_minus {k : TK} (h : numKind k = true) : k ≠ .minus := by
  cases k <;> simp [numKind] at h ⊢

theorem blank_not_minus {t : Tok} (h : BlankT t) : t.kind ≠ .minus := by
  intro hk; simp [BlankT, isWsComment, hk] at h

/-- a numeric value (number, or range with RANGE_VALUES) is read back -/
theorem rt_numOrRange {cs : CharSpec} (v : AVal) (p : VPad) (hv : v.ok cs = true) (hp : p.ok cs = true)
    (hnt : v.isText = false) (ext : Bool) (hext : v.isRange = true → ext = true)
    (ts : List Tok) (hs : Spells ts (spellVal v p)) :
    numOrRange (α := α) ext ts = some (.ok v.denote) := by
  cases v with
  | text l => simp [AVal.isText] at hnt
  | range lo hi =>
    have : ext = true := hext rfl
    subst this
    simp only [AVal.ok, Bool.and_eq_true] at hv
    unfold numOrRange
    rw [rt_range lo hi p hv.1 hv.2 hp ts hs]
    rfl
  | num n =>
    have hp' := hp
    simp only [VPad.ok, Bool.and_eq_true] at hp
    obtain ⟨⟨⟨⟨⟨hpre, hpost⟩, hplo⟩, hphi⟩, hm1⟩, hm2⟩ := hp
    simp only [spellVal, spellCore] at hs
    obtain ⟨r1, post, rfl, hs, hpost'⟩ := hs.append_inv
    obtain ⟨pre, mid, rfl, hpre', hmid⟩ := hs.append_inv
    have bpre := padOK_blank (hpre'.padOK_of hpre)
    have bpost := padOK_blank (hpost'.padOK_of hpost)
    unfold numOrRange
    rw [rangeValue_none_of_no_minus]
    · simp only [AVal.ok] at hv
      exact rt_num n p.lo hv hplo pre mid post hmid bpre bpost
    · intro t ht
      simp only [List.mem_append] at ht
      rcases ht with (ht | ht) | ht
      · exact blank_not_minus (bpre t ht)
      · exact numKind_not_minus (rt_num_kinds hplo hmid t ht)
      · exact blank_not_minus (bpost t ht)

theorem rt_spellNum_head (n : ANum) (np : NPad) :
    ∃ h r, spellNum n np = h :: r ∧ isWsComment h.kind = false := by
  cases n <;> simp [spellNum, tk, isWsComment]

theorem rt_spellNum_last (n : ANum) (np : NPad) :
    ∃ i l, spellNum n np = i ++ [l] ∧ isWsComment l.kind = false := by
  cases n with
  | int ds => exact ⟨[], _, rfl, by simp [tk, isWsComment]⟩
  | dec i f => exact ⟨[_, _], _, rfl, by simp only [tk, fracKind]; split <;> simp [isWsComment]⟩
  | dec0 f => exact ⟨[_], _, rfl, by simp only [tk, fracKind]; split <;> simp [isWsComment]⟩
  | frac n d => exact ⟨_, _, rfl, by simp [tk, isWsComment]⟩
  | mixed w n d => exact ⟨_, _, rfl, by simp [tk, isWsComment]⟩

/-- with RANGE_VALUES off a range spelling is not numeric (so it is read as a text value) -/
theorem rt_range_off {cs : CharSpec} (lo hi : ANum) (p : VPad) (hp : p.ok cs = true)
    (ts : List Tok) (hs : Spells ts (spellVal (.range lo hi) p)) :
    numOrRange (α := α) false ts = none := by
  simp only [VPad.ok, Bool.and_eq_true] at hp
  obtain ⟨⟨⟨⟨⟨hpre, hpost⟩, hplo⟩, hphi⟩, hm1⟩, hm2⟩ := hp
  obtain ⟨h, r, hh, hhk⟩ := rt_spellNum_head lo p.lo
  obtain ⟨i, l, hl, hlk⟩ := rt_spellNum_last hi p.hi
  simp only [spellVal, spellCore, hh, hl, List.append_assoc, List.cons_append, List.nil_append] at hs
  obtain ⟨pre, r1, rfl, hpre', hs⟩ := hs.append_inv
  obtain ⟨th, r2, rfl, hthk, -, hs⟩ := hs.cons_inv
  obtain ⟨tr, r3, rfl, -, hs⟩ := hs.append_inv
  obtain ⟨m1, r4, rfl, -, hs⟩ := hs.append_inv
  obtain ⟨tm, r5, rfl, hmk, -, hs⟩ := hs.cons_inv
  obtain ⟨m2, r6, rfl, -, hs⟩ := hs.append_inv
  obtain ⟨ti, r7, rfl, -, hs⟩ := hs.append_inv
  obtain ⟨tl, post, rfl, htlk, -, hpost'⟩ := hs.cons_inv
  simp only [tk] at hmk
  have bpre := padOK_blank (hpre'.padOK_of hpre)
  have bpost := padOK_blank (hpost'.padOK_of hpost)
  unfold numOrRange
  simp only [rt_range_needs_extension]
  have e : pre ++ th :: (tr ++ (m1 ++ tm :: (m2 ++ (ti ++ tl :: post)))) =
      pre ++ (th :: (tr ++ m1) ++ tm :: (m2 ++ ti) ++ [tl]) ++ post := by simp
  have htrim := rt_trim pre post (th :: (tr ++ m1) ++ tm :: (m2 ++ ti) ++ [tl]) bpre bpost (by simp)
    (by intro x hx; simp at hx; subst hx; exact rt_not_blank_of_kind (by rw [hthk]; exact hhk))
    (by intro x hx; rw [List.getLast?_concat] at hx; simp at hx; subst hx
        exact rt_not_blank_of_kind (by rw [htlk]; exact hlk))
  rw [e, rt_numericValue_long]
  · rw [htrim]
    apply rtFiltered_none_of_minus
    refine ⟨tm, ?_, hmk⟩
    simp [List.mem_filter, notWsComment, isWsComment, hmk]
  · rw [htrim]
    refine ⟨by simp; omega, ?_⟩
    intro hlen x hx
    cases hrm : tr ++ m1 with
    | nil =>
      simp only [hrm, List.cons_append, List.nil_append] at hx
      simp at hx; subst hx; simp [hmk]
    | cons y ys =>
      have : (tr ++ m1).length ≥ 1 := by rw [hrm]; simp
      simp at hlen this
      omega

theorem rt_dropWhile_concat {β : Type} (p : β → Bool) (a : List β) (z : β) (hz : p z = false) :
    (a ++ [z]).dropWhile p = a.dropWhile p ++ [z] := by
  induction a with
  | nil => simp [List.dropWhile_cons, hz]
  | cons x a ih =>
    simp only [List.cons_append, List.dropWhile_cons]
    split
    · exact ih
    · rfl

theorem rt_trim_head (pre rest : List Tok) (z : Tok) (hz : isWsComment z.kind = false) (hpre : ∀ t ∈ pre, BlankT t) :
    ∃ X, trimTokens (pre ++ z :: rest) = z :: X := by
  unfold trimTokens
  have h1 : (pre ++ z :: rest).dropWhile (fun t => isWsComment t.kind) = z :: rest := by
    rw [List.dropWhile_append_of_pos (by intro t ht; exact hpre t ht)]
    simp [List.dropWhile_cons, hz]
  rw [h1, List.reverse_cons, rt_dropWhile_concat (fun t : Tok => isWsComment t.kind) _ _ hz, List.reverse_append]
  exact ⟨_, rfl⟩

/-- `01…`: a token run whose first non-blank token is a `ZeroInt` is never a number -/
theorem rt_zeroInt_numericValue (pre rest : List Tok) (z : Tok) (hz : z.kind = .zeroInt)
    (hpre : ∀ t ∈ pre, BlankT t) : numericValue (α := α) (pre ++ z :: rest) = none := by
  obtain ⟨X, hX⟩ := rt_trim_head pre rest z (by simp [hz, isWsComment]) hpre
  unfold numericValue
  rw [hX]
  have hf : ∀ Y, List.filter notWsComment (z :: Y) = z :: List.filter notWsComment Y := by
    intro Y; simp [List.filter_cons, notWsComment, isWsComment, hz]
  rcases X with _ | ⟨b, _ | ⟨c, _ | ⟨d, r⟩⟩⟩
  · simp [hz]
  · simp [hz]
  · simp only [List.isEmpty_cons, Bool.false_eq_true, if_false, hz]
    rw [hf]
    generalize List.filter notWsComment [b, c] = f
    rcases f with _ | ⟨b', _ | ⟨c', _ | ⟨d', r'⟩⟩⟩ <;> simp [hz]
  · simp only [List.isEmpty_cons, Bool.false_eq_true, if_false]
    rw [hf]
    generalize List.filter notWsComment (b :: c :: d :: r) = f
    rcases f with _ | ⟨b', _ | ⟨c', _ | ⟨d', _ | ⟨e', r'⟩⟩⟩⟩ <;> simp [hz]

theorem rt_zeroInt_numOrRange (pre rest : List Tok) (z : Tok) (hz : z.kind = .zeroInt)
    (hpre : ∀ t ∈ pre, BlankT t) (ext : Bool) : numOrRange (α := α) ext (pre ++ z :: rest) = none := by
  unfold numOrRange
  have hr : rangeValue (α := α) ext (pre ++ z :: rest) = none := by
    unfold rangeValue
    split
    · rfl
    · cases hf : (pre ++ z :: rest).findIdx? (fun t => t.kind == .minus) with
      | none => rfl
      | some mid =>
        dsimp only
        rw [List.findIdx?_eq_some_iff_getElem] at hf
        obtain ⟨hlt, hp, hbefore⟩ := hf
        have hmid : pre.length < mid := by
          rcases Nat.lt_or_ge pre.length mid with h | h
          · exact h
          · exfalso
            rcases Nat.lt_or_ge mid pre.length with h' | h'
            · have : (pre ++ z :: rest)[mid] = pre[mid] := by rw [List.getElem_append_left h']
              rw [this] at hp
              have := blank_not_minus (hpre _ (List.getElem_mem h'))
              simp [this] at hp
            · have hm : mid = pre.length := by omega
              subst hm
              simp [hz] at hp
        obtain ⟨k, hk⟩ : ∃ k, mid = pre.length + (k + 1) := ⟨mid - pre.length - 1, by omega⟩
        have ht : (pre ++ z :: rest).take mid = pre ++ z :: rest.take k := by
          rw [hk, List.take_append]; simp [List.take_of_length_le]
        rw [ht, rt_zeroInt_numericValue pre _ z hz hpre]
  rw [hr]
  exact rt_zeroInt_numericValue pre rest z hz hpre

theorem bpText_run {off : Nat} {toks : List Tok} (hr : RunAt off toks) (s : BP α) :
    bpText off toks s = (buildText off toks, s) := by
  have hb := (buildText_faithful off toks hr.1 hr.2).1
  unfold bpText
  simp only [hb, Bool.false_eq_true, if_false]
  rfl

/-- where `parse_value` says a value starts: its first token, or the current offset -/
def valStart (tokens : List Tok) (s : BP α) : Nat := (tokens.head?.map (·.start)).getD (offAt s.toks s.cur)

theorem parseValue_num_run (tokens : List Tok) (s : BP α) (v : Value α)
    (h : numOrRange (α := α) (s.ext.has Gen.EXT_RANGE_VALUES) tokens = some (.ok v)) :
    parseValue tokens s = (⟨v, ⟨valStart tokens s, offAt s.toks s.cur⟩⟩, s) := by
  unfold parseValue
  simp only [bind, StateT.bind, currentOffset_run]
  have : hasExt (α := α) Gen.EXT_RANGE_VALUES s = (s.ext.has Gen.EXT_RANGE_VALUES, s) := rfl
  rw [this]
  simp only [h]
  rfl

theorem parseValue_text_run {off : Nat} (tokens : List Tok) (s : BP α) (hr : RunAt off tokens)
    (h : numOrRange (α := α) (s.ext.has Gen.EXT_RANGE_VALUES) tokens = none)
    (hne : (buildText (valStart tokens s) tokens).isTextEmpty s.cs = false) :
    parseValue tokens s =
      (⟨.text ((buildText (valStart tokens s) tokens).trimmed s.cs), ⟨valStart tokens s, offAt s.toks s.cur⟩⟩, s) := by
  unfold parseValue
  simp only [bind, StateT.bind, currentOffset_run]
  have : hasExt (α := α) Gen.EXT_RANGE_VALUES s = (s.ext.has Gen.EXT_RANGE_VALUES, s) := rfl
  rw [this]
  simp only [h]
  unfold textValue
  simp only [bind, StateT.bind]
  have hr' : RunAt (valStart tokens s) tokens := hr.headStart _
  unfold valStart at hr' hne ⊢
  rw [bpText_run hr']
  simp only [get, getThe, MonadStateOf.get, StateT.get, pure, StateT.pure, hne, Bool.false_eq_true, if_false]

/-! ### text values -/

theorem leaf_tok_kind {cs : CharSpec} {allowed : TK → Bool} {l : List Tok} (h : LeafFacts cs allowed l) :
    ∀ t ∈ l, allowed t.kind = true ∨ t.kind = .ws := by
  intro t ht
  have := h.toks t ht
  rw [Bool.or_eq_true] at this
  rcases this with h1 | h1
  · exact Or.inl (isAtomTok_facts h1).1
  · exact Or.inr (isSpTok_facts h1).1

theorem plainKind_not_blank {k : TK} (h : plainKind k = true) : isWsComment k = false := by
  cases k <;> simp [plainKind, isWsComment] at h ⊢

/-- the actual tokens of a leaf: first and last are visible (not blank) -/
theorem leaf_actual_ends {cs : CharSpec} {allowed : TK → Bool} {l tl : List Tok} (h : LeafFacts cs allowed l)
    (hs : Spells tl l) : tl ≠ [] ∧ (∀ t, tl.head? = some t → ¬ BlankT t) ∧ (∀ t, tl.getLast? = some t → ¬ BlankT t) := by
  obtain ⟨u, r, hu, hau⟩ := h.head
  obtain ⟨i, w, hw, haw⟩ := h.last
  refine ⟨?_, ?_, ?_⟩
  · intro h0; subst h0
    have := hs.length; rw [hu] at this; simp at this
  · intro t ht
    rw [hu] at hs
    obtain ⟨t', r', rfl, hk, -, -⟩ := hs.cons_inv
    simp at ht; subst ht
    exact rt_not_blank_of_kind (by rw [hk]; exact plainKind_not_blank (isAtomTok_facts hau).2.1)
  · intro t ht
    rw [hw] at hs
    obtain ⟨ti, tw, rfl, -, hs2⟩ := hs.append_inv
    obtain ⟨t', rfl, hk, -⟩ := hs2.single_inv
    rw [List.getLast?_concat] at ht
    simp at ht; subst ht
    exact rt_not_blank_of_kind (by rw [hk]; exact plainKind_not_blank (isAtomTok_facts haw).2.1)

theorem valKind_excl {k : TK} (h : valKind k = true ∨ k = .ws) :
    k ≠ .slash ∧ k ≠ .dot ∧ k ≠ .minus ∧ k ≠ .percent ∧ k ≠ .closeBrace ∧ k ≠ .eq := by
  rcases h with h | h
  · cases k <;> simp [valKind] at h ⊢
  · subst h; simp

/-- a text value is not numeric, whatever the extensions -/
theorem rt_text_not_numeric {cs : CharSpec} (l : List Tok) (hl : leafOK cs valKind l = true)
    (hns : notSingleInt l = true) (pre tl post : List Tok) (hs : Spells tl l)
    (bpre : ∀ t ∈ pre, BlankT t) (bpost : ∀ t ∈ post, BlankT t) (ext : Bool) :
    numOrRange (α := α) ext (pre ++ tl ++ post) = none := by
  have lf := leafOK_facts hl
  have hkinds : ∀ t ∈ tl, t.kind ≠ .slash ∧ t.kind ≠ .dot ∧ t.kind ≠ .minus := by
    intro t ht
    obtain ⟨u, hu, hk, -⟩ := hs.mem ht
    have := valKind_excl (leaf_tok_kind lf u hu)
    rw [hk]; exact ⟨this.1, this.2.1, this.2.2.1⟩
  obtain ⟨hne, hhead, hlast⟩ := leaf_actual_ends lf hs
  have hnm : ∀ t ∈ pre ++ tl ++ post, t.kind ≠ .minus := by
    intro t ht
    simp only [List.mem_append] at ht
    rcases ht with (ht | ht) | ht
    · exact blank_not_minus (bpre t ht)
    · exact (hkinds t ht).2.2
    · exact blank_not_minus (bpost t ht)
  unfold numOrRange
  rw [rangeValue_none_of_no_minus _ _ hnm]
  dsimp only
  have htrim := rt_trim pre post tl bpre bpost hne hhead hlast
  rcases tl with _ | ⟨a, _ | ⟨b, _ | ⟨c, r⟩⟩⟩
  · exact absurd rfl hne
  · -- one token: not an integer
    have : a.kind ≠ .int := by
      have hlen := hs.length
      cases l with
      | nil => simp at hlen
      | cons u l' =>
        cases l' with
        | cons _ _ => simp at hlen
        | nil =>
          obtain ⟨t, ht, hk, -⟩ := hs.single_inv
          simp only [List.cons.injEq, and_true] at ht; subst ht
          simp only [notSingleInt, bne_iff_ne, ne_eq] at hns
          rw [hk]; exact hns
    unfold numericValue
    simp only [htrim]
    simp [this]
  · have hb := (hkinds a (by simp)).2.1
    unfold numericValue
    simp only [htrim]
    simp [hb]
  · rw [rt_numericValue_long]
    · rw [htrim]
      apply rtFiltered_none_of_no_slash
      intro t ht
      exact (hkinds t (List.mem_filter.mp ht).1).1
    · rw [htrim]
      refine ⟨by simp, ?_⟩
      intro _ x hx
      simp at hx; subst hx
      exact (hkinds b (by simp)).2.1

end Cook
