import CookModel.Side.AisleSpec
/-
  Lemmas about the text primitives of the aisle model: byte lengths, split/join,
  sub-slices, comment stripping, trimming, lines.
-/
namespace Cook.Aisle

/-! ### byte length -/

@[simp] theorem utf8Len_nil : utf8Len [] = 0 := rfl
@[simp] theorem utf8Len_cons (c : Char) (cs : List Char) : utf8Len (c :: cs) = c.utf8Size + utf8Len cs := rfl
@[simp] theorem utf8Len_append (a b : List Char) : utf8Len (a ++ b) = utf8Len a + utf8Len b := by
  induction a with
  | nil => simp
  | cons c cs ih => simp [ih, Nat.add_assoc]

/-! ### sub-slices -/

/-- `t` lies inside `s`: same text at the position the offsets say -/
def Within (t s : Slice) : Prop := ∃ a c, s.chars = a ++ t.chars ++ c ∧ t.off = s.off + utf8Len a

theorem Within.refl (s : Slice) : Within s s := ⟨[], [], by simp, by simp⟩

theorem Within.trans {t s u : Slice} (h1 : Within t s) (h2 : Within s u) : Within t u := by
  obtain ⟨a, c, hc, ho⟩ := h1
  obtain ⟨a', c', hc', ho'⟩ := h2
  refine ⟨a' ++ a, c ++ c', ?_, ?_⟩
  · rw [hc', hc]; simp
  · rw [ho, ho']; simp [Nat.add_assoc]

theorem Within.mk' {t s : Slice} (a c : List Char) (hc : s.chars = a ++ t.chars ++ c)
    (ho : t.off = s.off + utf8Len a) : Within t s := ⟨a, c, hc, ho⟩

/-! ### split and join -/

theorem joinSep_cons_cons (sep c : Char) (p : List Char) (ps : List (List Char)) :
    joinSep sep ((c :: p) :: ps) = c :: joinSep sep (p :: ps) := by
  cases ps <;> simp [joinSep]

theorem joinSep_nil_cons (sep : Char) (p : List Char) (ps : List (List Char)) :
    joinSep sep ([] :: p :: ps) = sep :: joinSep sep (p :: ps) := by
  simp [joinSep]

theorem joinSep_cons_of_ne (sep : Char) (p : List Char) (ps : List (List Char)) (h : ps ≠ []) :
    joinSep sep (p :: ps) = p ++ sep :: joinSep sep ps := by
  cases ps with
  | nil => exact absurd rfl h
  | cons q qs => simp [joinSep]

/-- splitting and joining again gives the text back -/
theorem joinSep_pieces (sep : Char) (l : List Char) : joinSep sep (pieces sep l) = l := by
  induction l with
  | nil => simp [pieces, splitOn, joinSep]
  | cons c cs ih =>
    unfold pieces at ih ⊢
    by_cases h : c = sep
    · simp [splitOn, h, joinSep_nil_cons, ih]
    · simp [splitOn, h, joinSep_cons_cons, ih]

theorem pieces_ne_nil (sep : Char) (l : List Char) : pieces sep l ≠ [] := by simp [pieces]

theorem pieces_cons_sep (sep : Char) (cs : List Char) : pieces sep (sep :: cs) = [] :: pieces sep cs := by
  simp [pieces, splitOn]

theorem pieces_cons_ne (sep c : Char) (cs : List Char) (h : c ≠ sep) :
    pieces sep (c :: cs) = (c :: (splitOn sep cs).1) :: (splitOn sep cs).2 := by
  simp [pieces, splitOn, h]

/-- no piece contains the separator -/
theorem pieces_noSep (sep : Char) (l : List Char) : ∀ p ∈ pieces sep l, sep ∉ p := by
  induction l with
  | nil => simp [pieces, splitOn]
  | cons c cs ih =>
    by_cases h : c = sep
    · subst h; rw [pieces_cons_sep]; intro p hp
      rcases List.mem_cons.1 hp with rfl | hp
      · simp
      · exact ih p hp
    · rw [pieces_cons_ne _ _ _ h]; intro p hp
      unfold pieces at ih
      rcases List.mem_cons.1 hp with rfl | hp
      · have := ih _ (List.mem_cons_self)
        simp only [List.mem_cons, not_or]; exact ⟨fun e => h e.symm, this⟩
      · exact ih p (List.mem_cons_of_mem _ hp)

theorem splitOn_noSep (sep : Char) (p : List Char) (h : sep ∉ p) : splitOn sep p = (p, []) := by
  induction p with
  | nil => simp [splitOn]
  | cons c cs ih =>
    simp only [List.mem_cons, not_or] at h
    have hc : c ≠ sep := fun e => h.1 e.symm
    simp [splitOn, hc, ih h.2]

theorem pieces_noSep_eq (sep : Char) (p : List Char) (h : sep ∉ p) : pieces sep p = [p] := by
  simp [pieces, splitOn_noSep sep p h]

theorem pieces_append_sep (sep : Char) (p rest : List Char) (h : sep ∉ p) :
    pieces sep (p ++ sep :: rest) = p :: pieces sep rest := by
  induction p with
  | nil => simp [pieces_cons_sep]
  | cons c cs ih =>
    simp only [List.mem_cons, not_or] at h
    have hc : c ≠ sep := fun e => h.1 e.symm
    have := ih h.2
    unfold pieces at this ⊢
    simp only [List.cons_append, splitOn, hc, if_false]
    simp only [List.cons.injEq] at this
    simp [this.1, this.2]

/-- joining pieces that do not contain the separator and splitting again gives the pieces back -/
theorem pieces_joinSep (sep : Char) (ps : List (List Char)) (hne : ps ≠ [])
    (h : ∀ p ∈ ps, sep ∉ p) : pieces sep (joinSep sep ps) = ps := by
  induction ps with
  | nil => exact absurd rfl hne
  | cons p qs ih =>
    cases qs with
    | nil => simpa [joinSep] using pieces_noSep_eq sep p (h p (by simp))
    | cons q qs =>
      rw [joinSep, pieces_append_sep sep p _ (h p (by simp)), ih (by simp) (fun x hx => h x (List.mem_cons_of_mem _ hx))]

theorem joinSep_append_singleton (sep : Char) (init : List (List Char)) (last : List Char) (h : init ≠ []) :
    joinSep sep (init ++ [last]) = joinSep sep init ++ sep :: last := by
  induction init with
  | nil => exact absurd rfl h
  | cons p qs ih =>
    cases qs with
    | nil => simp [joinSep]
    | cons q qs =>
      have := ih (by simp)
      simp only [List.cons_append] at this ⊢
      simp [joinSep, this]

/-- the last piece: either the whole text or what follows the last separator -/
theorem pieces_last (sep : Char) (l : List Char) :
    ∃ init last, pieces sep l = init ++ [last] ∧ sep ∉ last ∧
      ((init = [] ∧ l = last) ∨ (init ≠ [] ∧ l = joinSep sep init ++ sep :: last)) := by
  induction l with
  | nil => exact ⟨[], [], by simp [pieces, splitOn], by simp, Or.inl ⟨rfl, rfl⟩⟩
  | cons c cs ih =>
    obtain ⟨init, last, hp, hl, hd⟩ := ih
    by_cases h : c = sep
    · subst h
      refine ⟨[] :: init, last, by simp [pieces_cons_sep, hp], hl, Or.inr ⟨by simp, ?_⟩⟩
      rcases hd with ⟨hi, hcs⟩ | ⟨hi, hcs⟩
      · subst hi; simp [joinSep, hcs]
      · rw [joinSep_cons_of_ne _ _ _ hi]; simp [hcs]
    · rw [pieces_cons_ne _ _ _ h]
      unfold pieces at hp
      rcases hd with ⟨hi, hcs⟩ | ⟨hi, hcs⟩
      · subst hi
        simp only [List.nil_append, List.cons.injEq] at hp
        refine ⟨[], c :: last, by simp [hp.1, hp.2], ?_, Or.inl ⟨rfl, by simp [hcs]⟩⟩
        simp only [List.mem_cons, not_or]; exact ⟨fun e => h e.symm, hl⟩
      · cases init with
        | nil => exact absurd rfl hi
        | cons i1 is =>
          simp only [List.cons_append, List.cons.injEq] at hp
          refine ⟨(c :: i1) :: is, last, by simp [hp.1, hp.2], hl, Or.inr ⟨by simp, ?_⟩⟩
          rw [joinSep_cons_cons]; simp [hcs]

/-- every slice made from the pieces lies inside the joined text (one-byte separator) -/
theorem slicesFrom_within (sep : Char) (hsep : sep.utf8Size = 1) (ps : List (List Char)) (off : Nat) :
    ∀ t ∈ slicesFrom off ps, Within t ⟨off, joinSep sep ps⟩ := by
  induction ps generalizing off with
  | nil => simp [slicesFrom]
  | cons p qs ih =>
    intro t ht
    cases qs with
    | nil =>
      simp only [slicesFrom, List.mem_singleton] at ht
      subst ht; exact ⟨[], [], by simp [joinSep], by simp⟩
    | cons q qs =>
      rw [slicesFrom] at ht
      rcases List.mem_cons.1 ht with rfl | ht
      · exact ⟨[], sep :: joinSep sep (q :: qs), by simp [joinSep], by simp⟩
      · obtain ⟨a, c, hc, ho⟩ := ih _ t ht
        refine ⟨p ++ sep :: a, c, ?_, ?_⟩
        · simp only [joinSep] at hc ⊢; simp [hc]
        · simp only at ho ⊢; rw [ho]; simp [hsep, Nat.add_assoc]

theorem slicesFrom_chars (off : Nat) (ps : List (List Char)) : (slicesFrom off ps).map (·.chars) = ps := by
  induction ps generalizing off with
  | nil => rfl
  | cons p qs ih => simp [slicesFrom, ih]

/-! ### comments -/

theorem stripComment_cons (c : Char) (cs : List Char) :
    stripCommentChars (c :: cs) = [] ∨ ∃ t, stripCommentChars (c :: cs) = c :: t := by
  cases cs with
  | nil => simp [stripCommentChars]
  | cons c2 cs => by_cases h : c = '/' ∧ c2 = '/' <;> simp [stripCommentChars, h]

theorem stripComment_prefix (l : List Char) : ∃ c, l = stripCommentChars l ++ c := by
  fun_induction stripCommentChars l with
  | case1 => exact ⟨[], rfl⟩
  | case2 c => exact ⟨[], rfl⟩
  | case3 c c2 cs h => exact ⟨_, rfl⟩
  | case4 c c2 cs h ih => obtain ⟨t, ht⟩ := ih; exact ⟨t, by simp [← ht]⟩

theorem hasComment_tail (c : Char) (l : List Char) (h : hasComment (c :: l) = false) : hasComment l = false := by
  cases l with
  | nil => rfl
  | cons c2 cs => simp only [hasComment, Bool.or_eq_false_iff] at h; exact h.2

theorem hasComment_strip (l : List Char) : hasComment (stripCommentChars l) = false := by
  fun_induction stripCommentChars l with
  | case1 => rfl
  | case2 c => rfl
  | case3 c c2 cs h => rfl
  | case4 c c2 cs h ih =>
    rcases stripComment_cons c2 cs with h0 | ⟨t, ht⟩
    · rw [h0]; rfl
    · rw [ht] at ih ⊢
      simp only [hasComment, Bool.or_eq_false_iff]
      refine ⟨?_, ih⟩
      simp only [not_and] at h
      by_cases hc : c = '/'
      · simp [hc, h hc]
      · simp [hc]

theorem strip_of_noComment (l : List Char) (h : hasComment l = false) : stripCommentChars l = l := by
  fun_induction stripCommentChars l with
  | case1 => rfl
  | case2 c => rfl
  | case3 c c2 cs hc => simp [hasComment, hc.1, hc.2] at h
  | case4 c c2 cs hc ih => rw [ih (hasComment_tail _ _ h)]

theorem hasComment_append_left (a b : List Char) (h : hasComment (a ++ b) = false) : hasComment a = false := by
  fun_induction hasComment a with
  | case1 => rfl
  | case2 c => rfl
  | case3 c c2 cs ih =>
    simp only [List.cons_append, hasComment, Bool.or_eq_false_iff] at h ⊢
    exact ⟨h.1, ih h.2⟩

theorem hasComment_append_right (a b : List Char) (h : hasComment (a ++ b) = false) : hasComment b = false := by
  induction a with
  | nil => exact h
  | cons c cs ih => exact ih (hasComment_tail c _ h)

/-- gluing two comment-free texts with a character other than `/` creates no comment -/
theorem hasComment_sep (a b : List Char) (c : Char) (hc : c ≠ '/')
    (ha : hasComment a = false) (hb : hasComment b = false) : hasComment (a ++ c :: b) = false := by
  have base : hasComment (c :: b) = false := by
    cases b with
    | nil => rfl
    | cons b0 bs => simp only [hasComment, Bool.or_eq_false_iff]; exact ⟨by simp [hc], hb⟩
  fun_induction hasComment a with
  | case1 => exact base
  | case2 x => simp only [List.cons_append, List.nil_append, hasComment, Bool.or_eq_false_iff]; exact ⟨by simp [hc], base⟩
  | case3 x y rest ih =>
    simp only [Bool.or_eq_false_iff] at ha
    simp only [List.cons_append, hasComment, Bool.or_eq_false_iff]
    exact ⟨ha.1, ih ha.2⟩

theorem noComment_infix (a l c : List Char) (h : hasComment (a ++ l ++ c) = false) : hasComment l = false :=
  hasComment_append_right a l (hasComment_append_left (a ++ l) c h)

/-! ### trimming -/

def NoWsHead (l : List Char) : Prop := ∀ c, l.head? = some c → isWhitespace c = false
def NoWsLast (l : List Char) : Prop := ∀ c, l.getLast? = some c → isWhitespace c = false

theorem trimEnd_cons_nonws (c : Char) (cs : List Char) (h : isWhitespace c = false) :
    trimEndChars (c :: cs) = c :: trimEndChars cs := by simp [trimEndChars, h]

theorem trimEnd_suffix (l : List Char) : ∃ c, l = trimEndChars l ++ c := by
  induction l with
  | nil => exact ⟨[], rfl⟩
  | cons c cs ih =>
    obtain ⟨t, ht⟩ := ih
    unfold trimEndChars
    split
    · exact ⟨c :: cs, rfl⟩
    · exact ⟨t, by simp [← ht]⟩

theorem trimEnd_noWsLast (l : List Char) : NoWsLast (trimEndChars l) := by
  induction l with
  | nil => intro c h; simp [trimEndChars] at h
  | cons c cs ih =>
    intro x hx
    unfold trimEndChars at hx
    split at hx
    · simp at hx
    · rename_i hcond
      cases hte : trimEndChars cs with
      | nil =>
        rw [hte] at hx hcond
        simp at hx hcond
        subst hx; exact hcond
      | cons y ys =>
        rw [hte] at hx
        rw [List.getLast?_cons_cons] at hx
        exact ih x (by rw [hte]; exact hx)

theorem trimEnd_of_noWsLast (l : List Char) (h : NoWsLast l) : trimEndChars l = l := by
  induction l with
  | nil => rfl
  | cons c cs ih =>
    cases cs with
    | nil =>
      have := h c (by simp)
      simp [trimEndChars, this]
    | cons y ys =>
      have h' : NoWsLast (y :: ys) := fun x hx => h x (by rw [List.getLast?_cons_cons]; exact hx)
      have e := ih h'
      unfold trimEndChars
      rw [e]; simp

theorem trimEnd_idem (l : List Char) : trimEndChars (trimEndChars l) = trimEndChars l :=
  trimEnd_of_noWsLast _ (trimEnd_noWsLast l)

theorem dropWhile_noWsHead (l : List Char) : NoWsHead (l.dropWhile isWhitespace) := by
  induction l with
  | nil => intro c h; simp at h
  | cons c cs ih =>
    by_cases hc : isWhitespace c = true
    · simpa [List.dropWhile_cons, hc] using ih
    · intro x hx
      simp only [List.dropWhile_cons, hc] at hx
      simp at hx; subst hx; simpa using hc

theorem dropWhile_of_noWsHead (l : List Char) (h : NoWsHead l) : l.dropWhile isWhitespace = l := by
  cases l with
  | nil => rfl
  | cons c cs => have := h c (by simp); simp [this]

theorem trimEnd_head (l : List Char) (h : NoWsHead l) : (trimEndChars l).head? = l.head? := by
  cases l with
  | nil => rfl
  | cons c cs => rw [trimEnd_cons_nonws c cs (h c (by simp))]; simp

theorem trimChars_noWsHead (l : List Char) : NoWsHead (trimChars l) := by
  intro c hc
  unfold trimChars at hc
  rw [trimEnd_head _ (dropWhile_noWsHead l)] at hc
  exact dropWhile_noWsHead l c hc

theorem trimChars_noWsLast (l : List Char) : NoWsLast (trimChars l) := trimEnd_noWsLast _

theorem trimChars_of_noWs (l : List Char) (h1 : NoWsHead l) (h2 : NoWsLast l) : trimChars l = l := by
  unfold trimChars; rw [dropWhile_of_noWsHead l h1, trimEnd_of_noWsLast l h2]

theorem trimChars_idem (l : List Char) : trimChars (trimChars l) = trimChars l :=
  trimChars_of_noWs _ (trimChars_noWsHead l) (trimChars_noWsLast l)

theorem noWs_of_trimmed (l : List Char) (h : trimChars l = l) : NoWsHead l ∧ NoWsLast l := by
  rw [← h]; exact ⟨trimChars_noWsHead l, trimChars_noWsLast l⟩

theorem trimChars_nil : trimChars [] = [] := rfl

theorem trimChars_infix (l : List Char) : ∃ a c, l = a ++ trimChars l ++ c := by
  obtain ⟨c, hc⟩ := trimEnd_suffix (l.dropWhile isWhitespace)
  refine ⟨l.takeWhile isWhitespace, c, ?_⟩
  unfold trimChars
  rw [List.append_assoc, ← hc, List.takeWhile_append_dropWhile]

theorem trim_chars (s : Slice) : (trim s).chars = trimChars s.chars := by
  unfold trim trimChars
  split
  · rename_i h; simp only [List.isEmpty_iff] at h; rw [h]; rfl
  · rfl

theorem trim_within (s : Slice) : Within (trim s) s := by
  unfold trim
  split
  · exact ⟨[], s.chars, by simp, by simp⟩
  · obtain ⟨c, hc⟩ := trimEnd_suffix (s.chars.dropWhile isWhitespace)
    refine ⟨s.chars.takeWhile isWhitespace, c, ?_, rfl⟩
    simp only
    rw [List.append_assoc, ← hc, List.takeWhile_append_dropWhile]

theorem dropWhile_getLast (p : Char → Bool) (l : List Char) (c : Char) (h : l.getLast? = some c) (hp : p c = false) :
    (l.dropWhile p).getLast? = some c := by
  induction l with
  | nil => simp at h
  | cons x xs ih =>
    cases xs with
    | nil => simp at h; subst h; simp [hp]
    | cons y ys =>
      rw [List.getLast?_cons_cons] at h
      by_cases hx : p x = true
      · simpa [List.dropWhile_cons, hx] using ih h
      · simp only [List.dropWhile_cons, hx]; simpa [List.getLast?_cons_cons] using h

theorem trimChars_getLast (l : List Char) (c : Char) (h : l.getLast? = some c) (hc : isWhitespace c = false) :
    (trimChars l).getLast? = some c := by
  have h1 := dropWhile_getLast isWhitespace l c h hc
  unfold trimChars
  rw [trimEnd_of_noWsLast]
  · exact h1
  · intro x hx; rw [h1] at hx; cases hx; exact hc

theorem trimChars_head (l : List Char) (c : Char) (h : l.head? = some c) (hc : isWhitespace c = false) :
    (trimChars l).head? = some c := by
  have hn : NoWsHead l := fun x hx => by rw [h] at hx; cases hx; exact hc
  unfold trimChars
  rw [dropWhile_of_noWsHead l hn, trimEnd_head l hn, h]

/-! ### lines -/

theorem stripCR_prefix (l : List Char) : ∃ c, l = stripCRChars l ++ c := by
  fun_induction stripCRChars l with
  | case1 => exact ⟨[], rfl⟩
  | case2 => exact ⟨['\r'], rfl⟩
  | case3 c h => exact ⟨[], rfl⟩
  | case4 c c2 cs ih => obtain ⟨t, ht⟩ := ih; exact ⟨t, by simp [← ht]⟩

theorem cr_isWhitespace : isWhitespace '\r' = true := by decide

theorem stripCR_of_noWsLast (l : List Char) (h : NoWsLast l) : stripCRChars l = l := by
  fun_induction stripCRChars l with
  | case1 => rfl
  | case2 =>
    have := h '\r' (by simp)
    simp [cr_isWhitespace] at this
  | case3 c hc => rfl
  | case4 c c2 cs ih =>
    rw [ih (fun x hx => h x (by rw [List.getLast?_cons_cons]; exact hx))]

theorem finishLines_cons (s : Slice) (t : List Slice) (h : t ≠ []) :
    finishLines (s :: t) = stripCR s :: finishLines t := by
  cases t with
  | nil => exact absurd rfl h
  | cons s2 rest => rfl

theorem finishLines_sub (ls : List Slice) :
    ∀ t ∈ finishLines ls, ∃ s ∈ ls, t.off = s.off ∧ ∃ c, s.chars = t.chars ++ c := by
  fun_induction finishLines ls with
  | case1 => simp
  | case2 last h => simp
  | case3 last h =>
    intro t ht
    simp at ht; subst ht; exact ⟨t, by simp, rfl, [], by simp⟩
  | case4 s s2 rest ih =>
    intro t ht
    rcases List.mem_cons.1 ht with rfl | ht
    · obtain ⟨c, hc⟩ := stripCR_prefix s.chars
      exact ⟨s, by simp, rfl, c, hc⟩
    · obtain ⟨u, hu, h1, h2⟩ := ih t ht
      exact ⟨u, List.mem_cons_of_mem _ hu, h1, h2⟩

theorem newline_size : '\n'.utf8Size = 1 := by decide
theorem bar_size : '|'.utf8Size = 1 := by decide

/-- every line is a slice of the input -/
theorem lines_within (input : List Char) : ∀ t ∈ lines input, Within t ⟨0, input⟩ := by
  intro t ht
  obtain ⟨s, hs, ho, c, hc⟩ := finishLines_sub _ t ht
  have hw := slicesFrom_within '\n' newline_size (pieces '\n' input) 0 s hs
  rw [joinSep_pieces] at hw
  exact Within.trans ⟨[], c, by simp [hc], by simp [ho]⟩ hw

/-- no line contains a newline -/
theorem lines_noNewline (input : List Char) : ∀ t ∈ lines input, '\n' ∉ t.chars := by
  intro t ht
  obtain ⟨s, hs, _, c, hc⟩ := finishLines_sub _ t ht
  have : s.chars ∈ pieces '\n' input := by
    have := List.mem_map_of_mem (f := (·.chars)) hs
    rwa [slicesFrom_chars] at this
  have hn := pieces_noSep '\n' input _ this
  intro hmem; exact hn (by rw [hc]; exact List.mem_append_left _ hmem)

theorem pieces_written (ls : List (List Char)) (h : ∀ l ∈ ls, '\n' ∉ l) :
    pieces '\n' (ls.flatMap (· ++ ['\n'])) = ls ++ [[]] := by
  induction ls with
  | nil => simp [pieces, splitOn]
  | cons l ls ih =>
    simp only [List.flatMap_cons, List.append_assoc, List.cons_append, List.nil_append]
    rw [pieces_append_sep _ _ _ (h l (by simp)), ih (fun x hx => h x (List.mem_cons_of_mem _ hx))]

theorem finishLines_written (ls : List (List Char)) (off : Nat) :
    (finishLines (slicesFrom off (ls ++ [[]]))).map (·.chars) = ls.map stripCRChars := by
  induction ls generalizing off with
  | nil => simp [slicesFrom, finishLines]
  | cons l ls ih =>
    simp only [List.cons_append, slicesFrom]
    rw [finishLines_cons]
    · simp [stripCR, ih]
    · cases ls <;> simp [slicesFrom]

/-- the lines of a text written line by line are those lines (up to one trailing `\r` each) -/
theorem lines_written (ls : List (List Char)) (h : ∀ l ∈ ls, '\n' ∉ l) :
    (lines (ls.flatMap (· ++ ['\n']))).map (·.chars) = ls.map stripCRChars := by
  unfold lines
  rw [pieces_written ls h, finishLines_written]

/-! ### what the primitives remove (full characterisations, used by `C11_text_spec`) -/

theorem trimEnd_suffix_ws (l : List Char) : ∃ c, l = trimEndChars l ++ c ∧ c.all isWhitespace = true := by
  induction l with
  | nil => exact ⟨[], rfl, rfl⟩
  | cons x xs ih =>
    obtain ⟨t, ht, hw⟩ := ih
    unfold trimEndChars
    split
    · rename_i hcond
      simp only [Bool.and_eq_true, List.isEmpty_iff] at hcond
      refine ⟨x :: xs, rfl, ?_⟩
      rw [hcond.1] at ht
      simp only [List.nil_append] at ht
      rw [ht]; simp only [List.all_cons, hcond.2, Bool.true_and]; exact hw
    · exact ⟨t, by simp [← ht], hw⟩

/-- `trimChars` removes white space only, and all of it at both ends -/
theorem trimChars_spec (l : List Char) :
    ∃ a c, l = a ++ trimChars l ++ c ∧ a.all isWhitespace = true ∧ c.all isWhitespace = true ∧
      NoWsHead (trimChars l) ∧ NoWsLast (trimChars l) := by
  obtain ⟨c, hc, hw⟩ := trimEnd_suffix_ws (l.dropWhile isWhitespace)
  refine ⟨l.takeWhile isWhitespace, c, ?_, ?_, hw, trimChars_noWsHead l, trimChars_noWsLast l⟩
  · unfold trimChars
    rw [List.append_assoc, ← hc, List.takeWhile_append_dropWhile]
  · generalize l = m
    induction m with
    | nil => rfl
    | cons x xs ih =>
      by_cases hx : isWhitespace x = true
      · simp [hx, ih]
      · simp [hx]

/-- `stripCommentChars` keeps a comment-free prefix; what it drops starts with `//` -/
theorem stripComment_spec (l : List Char) :
    ∃ c, l = stripCommentChars l ++ c ∧ hasComment (stripCommentChars l) = false ∧
      (c = [] ∨ ∃ r, c = '/' :: '/' :: r) := by
  suffices h : ∃ c, l = stripCommentChars l ++ c ∧ (c = [] ∨ ∃ r, c = '/' :: '/' :: r) by
    obtain ⟨c, h1, h2⟩ := h; exact ⟨c, h1, hasComment_strip l, h2⟩
  fun_induction stripCommentChars l with
  | case1 => exact ⟨[], rfl, Or.inl rfl⟩
  | case2 c => exact ⟨[], rfl, Or.inl rfl⟩
  | case3 c c2 cs h => exact ⟨c :: c2 :: cs, rfl, Or.inr ⟨cs, by rw [h.1, h.2]⟩⟩
  | case4 c c2 cs h ih => obtain ⟨t, ht, hr⟩ := ih; exact ⟨t, by simp [← ht], hr⟩

end Cook.Aisle
