import CookModel.Lemmas.BuilderOrder
/- C16 — iteration order of an extend block, full statement: entries that touch pairwise disjoint key sets can be
   applied in any order with the same outcome. -/
namespace Cook.Bld
open Cook

/-! ## Lock-step simulation: an entry only looks at its own units and its own keys -/

/-- two indexes agree on the keys of `S` -/
def AgreeOn (S : List Key) (i1 i2 : Index) : Prop := ∀ k, k ∈ S → idxGet i1 k = idxGet i2 k

/-- both fail, or both succeed with results related by `R` -/
def SimR {β : Type} (R : β → β → Prop) : Except Err β → Except Err β → Prop
  | .ok a, .ok b => R a b
  | .error _, .error _ => True
  | _, _ => False

theorem indexAddKeys_sim (id : Nat) (ks : List Key) (S : List Key) (hS : ∀ k, k ∈ ks → k ∈ S) (i1 i2 : Index) (h : AgreeOn S i1 i2) :
    SimR (AgreeOn S) (indexAddKeys id ks i1) (indexAddKeys id ks i2) := by
  induction ks generalizing i1 i2 with
  | nil => exact h
  | cons k ks ih =>
    unfold indexAddKeys
    split
    · trivial
    · rw [h k (hS k (by simp))]
      split
      · trivial
      · apply ih (fun x hx => hS x (by simp [hx]))
        intro x hx
        simp only [idxGet_cons]
        split
        · rfl
        · exact h x hx

theorem indexAddUnit_sim {α : Type} (u : Unit α) (id : Nat) (S : List Key) (hS : ∀ k, k ∈ u.keys → k ∈ S) (i1 i2 : Index)
    (h : AgreeOn S i1 i2) : SimR (AgreeOn S) (indexAddUnit i1 u id) (indexAddUnit i2 u id) := by
  unfold indexAddUnit
  have := indexAddKeys_sim id u.keys S hS i1 i2 h
  cases h1 : indexAddKeys id u.keys i1 <;> cases h2 : indexAddKeys id u.keys i2 <;> rw [h1, h2] at this
  · trivial
  · exact this.elim
  · exact this.elim
  · simp only
    split
    · trivial
    · exact this

/-- the two states agree on the units at the positions `P` and on the lookups of the keys `S` -/
def Sim {α : Type} (P : Nat → Prop) (S : List Key) (c1 c2 : Core α) : Prop :=
  (∀ x, P x → c1.units[x]? = c2.units[x]?) ∧ AgreeOn S c1.index c2.index

theorem Sim.set {α : Type} {P : Nat → Prop} {S : List Key} {c1 c2 : Core α} (h : Sim P S c1 c2) (j : Nat) (hj : P j) (v : UnitB α) :
    ∀ x, P x → (c1.units.set j v)[x]? = (c2.units.set j v)[x]? := by
  intro x hx
  rw [getElem?_set', getElem?_set']
  by_cases hjx : j = x
  · subst hjx
    have := h.1 j hj
    by_cases h1 : j < c1.units.length
    · have e1 : c1.units[j]? = some (c1.units[j]) := by simp [h1]
      have h2 : j < c2.units.length := lt_of_getElem?_some (this ▸ e1)
      simp [h1, h2]
    · have h2 : ¬ j < c2.units.length := by
        intro h2
        have e2 : c2.units[j]? = some (c2.units[j]) := by simp [h2]
        exact h1 (lt_of_getElem?_some (this.symm ▸ e2))
      simp [h1, h2]
  · simp [hjx, h.1 x hx]

theorem updateExpandedOne_sim {α : Type} (id : Nat) (new : SIPrefix → UnitB α) (P : Nat → Prop) (S : List Key) (c1 c2 : Core α)
    (u' : UnitB α) (m : SIPrefix → Nat) (p : SIPrefix) (hsim : Sim P S c1 c2) (hid : P id) (hmp : ∀ q, P (m q))
    (hu : c1.units[id]? = some u') (hm : u'.expanded = some m)
    (hnewS : ∀ q k, k ∈ (new q).unit.names ++ (new q).unit.symbols → k ∈ S)
    (haliasS : ∀ q x, c1.units[m q]? = some x → ∀ k, k ∈ x.unit.aliases → k ∈ S) :
    SimR (fun a b => Sim P S a b ∧ (∀ q x, a.units[m q]? = some x → ∀ k, k ∈ x.unit.aliases → k ∈ S) ∧
        (m p ≠ id → a.units[id]? = some u'))
      (updateExpandedOne id new c1 p) (updateExpandedOne id new c2 p) := by
  unfold updateExpandedOne
  rw [← hsim.1 id hid, hu]; simp only [hm]
  rw [← hsim.1 (m p) (hmp p)]
  cases hold : c1.units[m p]? with
  | none => trivial
  | some old =>
    simp only
    have hkeys : ∀ k, k ∈ ((new p).withAliases old.unit.aliases).unit.keys → k ∈ S := by
      intro k hk
      simp only [UnitB.withAliases, Unit.keys, List.mem_append] at hk
      rcases hk with (h | h) | h
      · exact hnewS p k (by simp [h])
      · exact hnewS p k (by simp [h])
      · exact haliasS p old hold k h
    have := indexAddUnit_sim ((new p).withAliases old.unit.aliases).unit (m p) S hkeys c1.index c2.index hsim.2
    cases h1 : indexAddUnit c1.index ((new p).withAliases old.unit.aliases).unit (m p) <;>
      cases h2 : indexAddUnit c2.index ((new p).withAliases old.unit.aliases).unit (m p) <;> rw [h1, h2] at this
    · trivial
    · exact this.elim
    · exact this.elim
    · refine ⟨⟨hsim.set (m p) (hmp p) _, this⟩, ?_, ?_⟩
      · intro q x hx k hk
        change (c1.units.set (m p) _)[m q]? = some x at hx
        rw [getElem?_set'] at hx
        by_cases hpq : m p = m q
        · simp only [hpq, ↓reduceIte] at hx
          split at hx
          · cases hx; exact haliasS p old hold k hk
          · cases hx
        · simp only [hpq, ↓reduceIte] at hx
          exact haliasS q x hx k hk
      · intro hne
        show (c1.units.set (m p) _)[id]? = some u'
        rw [getElem?_set']; simp [hne, hu]

theorem updateExpandedLoop_sim {α : Type} (id : Nat) (new : SIPrefix → UnitB α) (P : Nat → Prop) (S : List Key)
    (u' : UnitB α) (m : SIPrefix → Nat) (hid : P id) (hmp : ∀ q, P (m q)) (hm : u'.expanded = some m) (hne : ∀ q, m q ≠ id)
    (hnewS : ∀ q k, k ∈ (new q).unit.names ++ (new q).unit.symbols → k ∈ S) (ps : List SIPrefix) (c1 c2 : Core α)
    (hsim : Sim P S c1 c2) (hu : c1.units[id]? = some u')
    (haliasS : ∀ q x, c1.units[m q]? = some x → ∀ k, k ∈ x.unit.aliases → k ∈ S) :
    SimR (fun a b => Sim P S a b ∧ a.units[id]? = some u')
      (updateExpandedLoop id new ps c1) (updateExpandedLoop id new ps c2) := by
  induction ps generalizing c1 c2 with
  | nil => exact ⟨hsim, hu⟩
  | cons p ps ih =>
    unfold updateExpandedLoop
    have h1 := updateExpandedOne_sim id new P S c1 c2 u' m p hsim hid hmp hu hm hnewS haliasS
    cases e1 : updateExpandedOne id new c1 p <;> cases e2 : updateExpandedOne id new c2 p <;> rw [e1, e2] at h1
    · trivial
    · exact h1.elim
    · exact h1.elim
    · exact ih _ _ h1.1 (h1.2.2 (hne p)) h1.2.1

/-- the keys an entry touches: those it removes and those it adds -/
def touched {α : Type} [Arith α] (si : SIConf) (c : Core α) (pr : Prec) (ie : Nat × ExtendEntry α) : List Key :=
  match c.units[ie.1]? with
  | none => []
  | some u =>
    let kids : List Key := match u.expanded, si.prefixes, si.symbolPrefixes with
      | some _, some pfx, some sym => SIPrefix.all.flatMap (fun p => (expandOne (u.edit pr ie.2) pfx sym p).unit.keys)
      | _, _, _ => []
    removedKeys c.units u ++ (u.edit pr ie.2).unit.keys ++ kids

/-- the positions an entry touches: the addressed unit and its expansions -/
def posOf {α : Type} (c : Core α) (j : Nat) : Nat → Prop :=
  fun x => x = j ∨ ∃ u m p, c.units[j]? = some u ∧ u.expanded = some m ∧ x = m p

theorem childKeys_congr {α : Type} (u1 u2 : List (UnitB α)) (m : SIPrefix → Nat) (ps : List SIPrefix)
    (h : ∀ p, u1[m p]? = u2[m p]?) : childKeys u1 m ps = childKeys u2 m ps := by
  unfold childKeys
  congr 1
  funext p
  rw [h p]

theorem applyExtendOne_sim {α : Type} [Arith α] (si : SIConf) (pr : Prec) (c1 c2 : Core α) (ie : Nat × ExtendEntry α)
    (hr1 : Ready c1) (hr2 : Ready c2) (hsim : Sim (posOf c1 ie.1) (touched si c1 pr ie) c1 c2) :
    SimR (fun _ _ => True) (applyExtendOne si pr c1 ie) (applyExtendOne si pr c2 ie) := by
  unfold applyExtendOne
  have hj := hsim.1 ie.1 (Or.inl rfl)
  rw [← hj]
  cases hu : c1.units[ie.1]? with
  | none => trivial
  | some u =>
    simp only
    have hu2 : c2.units[ie.1]? = some u := by rw [← hj]; exact hu
    have hlt1 := lt_of_getElem?_some hu
    have hlt2 := lt_of_getElem?_some hu2
    obtain ⟨idx1, hrem1, hget1⟩ := removeUnitRec_spec hr1.1.struct hu c1.index
    obtain ⟨idx2, hrem2, hget2⟩ := removeUnitRec_spec hr2.1.struct hu2 c2.index
    rw [hrem1, hrem2]; simp only
    -- the touched key set, spelled out
    have hS : touched si c1 pr ie = removedKeys c1.units u ++ (u.edit pr ie.2).unit.keys ++
        (match u.expanded, si.prefixes, si.symbolPrefixes with
          | some _, some pfx, some sym => SIPrefix.all.flatMap (fun p => (expandOne (u.edit pr ie.2) pfx sym p).unit.keys)
          | _, _, _ => []) := by
      unfold touched; rw [hu]
    have hkidsame : ∀ m, u.expanded = some m → ∀ p, c1.units[m p]? = c2.units[m p]? :=
      fun m hm p => hsim.1 (m p) (Or.inr ⟨u, m, p, hu, hm, rfl⟩)
    have hremsame : removedKeys c1.units u = removedKeys c2.units u := by
      unfold removedKeys
      cases hm : u.expanded with
      | none => rfl
      | some m => simp only; rw [childKeys_congr c1.units c2.units m SIPrefix.all (hkidsame m hm)]
    have hagree1 : AgreeOn (touched si c1 pr ie) idx1 idx2 := by
      intro k hk
      rw [hget1, hget2, ← hremsame]
      split
      · rfl
      · exact hsim.2 k hk
    generalize hu' : u.edit pr ie.2 = u' at *
    have hsf : SameFlags u' u := by subst hu'; exact ⟨rfl, rfl, rfl⟩
    have hsim1 : Sim (posOf c1 ie.1) (touched si c1 pr ie) { units := c1.units.set ie.1 u', index := idx1 }
        { units := c2.units.set ie.1 u', index := idx2 } := ⟨hsim.set ie.1 (Or.inl rfl) u', hagree1⟩
    have hat1 : (c1.units.set ie.1 u')[ie.1]? = some u' := by simp [hlt1]
    have hkeysS : ∀ k, k ∈ u'.unit.keys → k ∈ touched si c1 pr ie := by
      intro k hk; rw [hS]; simp [hk]
    -- the middle step
    have hmid : SimR (fun a b => Sim (posOf c1 ie.1) (touched si c1 pr ie) a b ∧ a.units[ie.1]? = some u')
        (if u'.expandSi = true then updateExpanded si ie.1 { units := c1.units.set ie.1 u', index := idx1 }
          else .ok { units := c1.units.set ie.1 u', index := idx1 })
        (if u'.expandSi = true then updateExpanded si ie.1 { units := c2.units.set ie.1 u', index := idx2 }
          else .ok { units := c2.units.set ie.1 u', index := idx2 }) := by
      split
      · rename_i hex
        unfold updateExpanded
        have hat2 : (c2.units.set ie.1 u')[ie.1]? = some u' := by simp [hlt2]
        show SimR _ (match (c1.units.set ie.1 u')[ie.1]? with | none => _ | some u => _) (match (c2.units.set ie.1 u')[ie.1]? with | none => _ | some u => _)
        rw [hat1, hat2]; simp only
        cases hnew : expandSi u' si with
        | error e => trivial
        | ok new =>
          simp only
          obtain ⟨pfx, sym, hp1, hp2, rfl⟩ := expandSi_ok hnew
          obtain ⟨m, hm0⟩ := Option.isSome_iff_exists.mp (hr1.2 ie.1 u hu (by rw [← hsf.2.2]; exact hex))
          have hm : u'.expanded = some m := by rw [hsf.1]; exact hm0
          have hne : ∀ q, m q ≠ ie.1 := by
            intro q e
            obtain ⟨ch, hch, hcn, _⟩ := hr1.1.struct.children ie.1 u m hu hm0 q
            rw [e, hu] at hch; cases hch; rw [hm0] at hcn; cases hcn
          refine updateExpandedLoop_sim ie.1 _ (posOf c1 ie.1) (touched si c1 pr ie) u' m (Or.inl rfl)
            (fun q => Or.inr ⟨u, m, q, hu, hm0, rfl⟩) hm hne ?_ SIPrefix.all _ _ hsim1 hat1 ?_
          · intro q k hk
            rw [hS, hm0, hp1, hp2]
            simp only [List.mem_append, List.mem_flatMap]
            refine Or.inr ⟨q, SIPrefix.mem_all q, ?_⟩
            simp only [Unit.keys, List.mem_append]
            simp only [List.mem_append] at hk
            rcases hk with h | h
            · exact Or.inl (Or.inl h)
            · exact Or.inl (Or.inr h)
          · intro q x hx k hk
            change (c1.units.set ie.1 u')[m q]? = some x at hx
            rw [getElem?_set'] at hx
            simp only [Ne.symm (hne q), ↓reduceIte] at hx
            rw [hS]
            simp only [List.mem_append]
            refine Or.inl (Or.inl ?_)
            unfold removedKeys; rw [hm0]
            simp only [List.mem_append]
            refine Or.inl (mem_childKeys.mpr ⟨q, SIPrefix.mem_all q, x, hx, ?_⟩)
            simp [Unit.keys, hk]
      · exact ⟨hsim1, hat1⟩
    -- the last step
    cases e1 : (if u'.expandSi = true then updateExpanded si ie.1 { units := c1.units.set ie.1 u', index := idx1 }
          else Except.ok { units := c1.units.set ie.1 u', index := idx1 }) <;>
      cases e2 : (if u'.expandSi = true then updateExpanded si ie.1 { units := c2.units.set ie.1 u', index := idx2 }
          else Except.ok { units := c2.units.set ie.1 u', index := idx2 }) <;> rw [e1, e2] at hmid
    · trivial
    · exact hmid.elim
    · exact hmid.elim
    · rename_i a b
      simp only
      obtain ⟨hs, hat⟩ := hmid
      rw [← hs.1 ie.1 (Or.inl rfl), hat]; simp only
      have := indexAddUnit_sim u'.unit ie.1 _ hkeysS a.index b.index hs.2
      cases f1 : indexAddUnit a.index u'.unit ie.1 <;> cases f2 : indexAddUnit b.index u'.unit ie.1 <;> rw [f1, f2] at this
      · trivial
      · exact this.elim
      · exact this.elim
      · trivial

theorem SimR.ok_iff {β : Type} {R : β → β → Prop} {x y : Except Err β} (h : SimR R x y) : (∃ a, x = .ok a) ↔ (∃ b, y = .ok b) := by
  cases x <;> cases y <;> simp_all [SimR]

/-! ## What one entry leaves alone -/

theorem touched_spelled {α : Type} [Arith α] (si : SIConf) (c : Core α) (pr : Prec) (ie : Nat × ExtendEntry α) (u : UnitB α)
    (hu : c.units[ie.1]? = some u) :
    touched si c pr ie = removedKeys c.units u ++ (u.edit pr ie.2).unit.keys ++
        (match u.expanded, si.prefixes, si.symbolPrefixes with
          | some _, some pfx, some sym => SIPrefix.all.flatMap (fun p => (expandOne (u.edit pr ie.2) pfx sym p).unit.keys)
          | _, _, _ => []) := by
  unfold touched; rw [hu]

theorem mem_removedKeys {α : Type} {units : List (UnitB α)} {u : UnitB α} {k : Key} :
    k ∈ removedKeys units u ↔ k ∈ u.unit.keys ∨ ∃ m, u.expanded = some m ∧ ∃ p ch, units[m p]? = some ch ∧ k ∈ ch.unit.keys := by
  unfold removedKeys
  cases hm : u.expanded with
  | none => simp
  | some m =>
    simp only [List.mem_append, mem_childKeys, Option.some.injEq, exists_eq_left']
    constructor
    · rintro (⟨p, _, ch, h1, h2⟩ | h); exact Or.inr ⟨p, ch, h1, h2⟩; exact Or.inl h
    · rintro (h | ⟨p, ch, h1, h2⟩); exact Or.inr h; exact Or.inl ⟨p, SIPrefix.mem_all p, ch, h1, h2⟩

/-- the units an entry does not address (neither the unit nor its expansions) are left as they are -/
theorem applyExtendOne_units_frame {α : Type} [Arith α] (si : SIConf) (pr : Prec) (c c' : Core α) (ie : Nat × ExtendEntry α) (u : UnitB α)
    (hc : Ready c) (hu : c.units[ie.1]? = some u) (h : applyExtendOne si pr c ie = .ok c') :
    ∀ x, ¬ posOf c ie.1 x → c'.units[x]? = c.units[x]? := by
  obtain ⟨_, hA, hB⟩ := applyExtendOne_exact si pr c c' ie u hc hu h
  intro x hx
  have hxi : x ≠ ie.1 := fun e => hx (Or.inl e)
  cases hex : u.expandSi with
  | false => exact hA hex x hxi
  | true =>
    obtain ⟨m, _, _, hm, _, _, hother, _⟩ := hB hex
    exact hother x hxi (fun p e => hx (Or.inr ⟨u, m, p, hu, hm, e⟩))

/-- the keys of a unit the entry changes are touched keys, before and after -/
theorem applyExtendOne_changed_keys {α : Type} [Arith α] (si : SIConf) (pr : Prec) (c c' : Core α) (ie : Nat × ExtendEntry α) (u : UnitB α)
    (hc : Ready c) (hu : c.units[ie.1]? = some u) (h : applyExtendOne si pr c ie = .ok c') :
    ∀ x, posOf c ie.1 x →
      (∀ v k, c.units[x]? = some v → k ∈ v.unit.keys → k ∈ touched si c pr ie) ∧
      (∀ v k, c'.units[x]? = some v → k ∈ v.unit.keys → k ∈ touched si c pr ie) := by
  obtain ⟨hat, _, hB⟩ := applyExtendOne_exact si pr c c' ie u hc hu h
  have hS := touched_spelled si c pr ie u hu
  intro x hx
  rcases hx with rfl | ⟨u0, m, p, hu0, hm, rfl⟩
  · refine ⟨?_, ?_⟩
    · intro v k hv hk
      rw [hu] at hv; cases hv
      rw [hS]; simp only [List.mem_append]
      exact Or.inl (Or.inl (mem_removedKeys.mpr (Or.inl hk)))
    · intro v k hv hk
      rw [hat] at hv; cases hv
      rw [hS]; simp only [List.mem_append]
      exact Or.inl (Or.inr hk)
  · rw [hu] at hu0; cases hu0
    have hex : u.expandSi = true := hc.1.struct.parent ie.1 u hu (by rw [hm]; rfl)
    obtain ⟨m', pfx, sym, hm', hp1, hp2, _, hkids⟩ := hB hex
    rw [hm] at hm'; cases hm'
    refine ⟨?_, ?_⟩
    · intro v k hv hk
      rw [hS]; simp only [List.mem_append]
      exact Or.inl (Or.inl (mem_removedKeys.mpr (Or.inr ⟨m, hm, p, v, hv, hk⟩)))
    · intro v k hv hk
      obtain ⟨old, hold, hnew⟩ := hkids p
      rw [hnew] at hv; cases hv
      rw [hS, hm, hp1, hp2]
      simp only [UnitB.withAliases, Unit.keys, List.mem_append] at hk
      simp only [List.mem_append, List.mem_flatMap]
      rcases hk with (hk | hk) | hk
      · exact Or.inr ⟨p, SIPrefix.mem_all p, by simp [Unit.keys, hk]⟩
      · exact Or.inr ⟨p, SIPrefix.mem_all p, by simp [Unit.keys, hk]⟩
      · exact Or.inl (Or.inl (mem_removedKeys.mpr (Or.inr ⟨m, hm, p, old, hold, by simp [Unit.keys, hk]⟩)))

/-- … and so are the lookups of the keys it does not touch -/
theorem applyExtendOne_lookup_frame {α : Type} [Arith α] (si : SIConf) (pr : Prec) (c c' : Core α) (ie : Nat × ExtendEntry α) (u : UnitB α)
    (hc : Ready c) (hu : c.units[ie.1]? = some u) (h : applyExtendOne si pr c ie = .ok c') :
    ∀ k, k ∉ touched si c pr ie → idxGet c'.index k = idxGet c.index k := by
  have hc' := ((applyExtendOne_good si pr c ie hc (lt_of_getElem?_some hu)).of_ok h).1
  have hframe := applyExtendOne_units_frame si pr c c' ie u hc hu h
  have hchg := applyExtendOne_changed_keys si pr c c' ie u hc hu h
  intro k hk
  cases h1 : idxGet c.index k with
  | some x =>
    obtain ⟨_, v, hv, hkv⟩ := hc.1.sound k x h1
    have hnp : ¬ posOf c ie.1 x := fun hp => hk ((hchg x hp).1 v k hv hkv)
    exact hc'.1.complete x v (by simp) (by rw [hframe x hnp]; exact hv) k hkv
  | none =>
    cases h2 : idxGet c'.index k with
    | none => rfl
    | some x =>
      obtain ⟨_, v, hv, hkv⟩ := hc'.1.sound k x h2
      have hnp : ¬ posOf c ie.1 x := fun hp => hk ((hchg x hp).2 v k hv hkv)
      have := hc.1.complete x v (by simp) (by rw [← hframe x hnp]; exact hv) k hkv
      rw [h1] at this; cases this

/-! ## Independent entries -/

/-- the addressed unit has a key (it was found through one) -/
def HasKey {α : Type} (c : Core α) (j : Nat) : Prop := ∃ u k, c.units[j]? = some u ∧ k ∈ u.unit.keys

/-- two entries address different units and touch disjoint key sets -/
def Indep {α : Type} [Arith α] (si : SIConf) (c : Core α) (pr : Prec) (a b : Nat × ExtendEntry α) : Prop :=
  a.1 ≠ b.1 ∧ ∀ k, k ∈ touched si c pr a → k ∉ touched si c pr b

theorem Indep.symm {α : Type} [Arith α] {si : SIConf} {c : Core α} {pr : Prec} {a b : Nat × ExtendEntry α} (h : Indep si c pr a b) :
    Indep si c pr b a := ⟨fun e => h.1 e.symm, fun k hb ha => h.2 k ha hb⟩

/-- independent entries address disjoint sets of positions -/
theorem indep_positions {α : Type} [Arith α] (si : SIConf) (c : Core α) (pr : Prec) (a b : Nat × ExtendEntry α)
    (hc : Ready c) (hsi : SIInv si c.units) (ha : HasKey c a.1) (hb : HasKey c b.1) (hind : Indep si c pr a b) :
    ∀ x, posOf c b.1 x → ¬ posOf c a.1 x := by
  obtain ⟨ua, ka, hua, hka⟩ := ha
  obtain ⟨ub, kb, hub, hkb⟩ := hb
  have hSa := touched_spelled si c pr a ua hua
  have hSb := touched_spelled si c pr b ub hub
  have inA : ∀ k, k ∈ removedKeys c.units ua → k ∈ touched si c pr a := by
    intro k hk; rw [hSa]; simp [hk]
  have inB : ∀ k, k ∈ removedKeys c.units ub → k ∈ touched si c pr b := by
    intro k hk; rw [hSb]; simp [hk]
  intro x hxb hxa
  rcases hxb with rfl | ⟨u2, m2, p2, hu2, hm2, rfl⟩ <;> rcases hxa with hxa | ⟨u1, m1, p1, hu1, hm1, hxa⟩
  · exact hind.1 hxa.symm
  · -- b's unit is an expansion of a's unit
    rw [hua] at hu1; cases hu1
    exact hind.2 kb (inA kb (mem_removedKeys.mpr (Or.inr ⟨m1, hm1, p1, ub, by rw [← hxa]; exact hub, hkb⟩)))
      (inB kb (mem_removedKeys.mpr (Or.inl hkb)))
  · -- a's unit is an expansion of b's unit
    rw [hub] at hu2; cases hu2
    exact hind.2 ka (inA ka (mem_removedKeys.mpr (Or.inl hka)))
      (inB ka (mem_removedKeys.mpr (Or.inr ⟨m2, hm2, p2, ua, by rw [hxa]; exact hua, hka⟩)))
  · rw [hua] at hu1; cases hu1; rw [hub] at hu2; cases hu2
    exact hind.1 (hsi.owned a.1 b.1 ua ub m1 m2 p1 p2 hua hub hm1 hm2 hxa.symm)

theorem touched_congr {α : Type} [Arith α] (si : SIConf) (c c' : Core α) (pr : Prec) (b : Nat × ExtendEntry α)
    (h : ∀ x, posOf c b.1 x → c'.units[x]? = c.units[x]?) : touched si c' pr b = touched si c pr b := by
  unfold touched
  rw [h b.1 (Or.inl rfl)]
  cases hu : c.units[b.1]? with
  | none => rfl
  | some u =>
    simp only
    have : removedKeys c'.units u = removedKeys c.units u := by
      unfold removedKeys
      cases hm : u.expanded with
      | none => rfl
      | some m => simp only; rw [childKeys_congr c'.units c.units m SIPrefix.all (fun p => h (m p) (Or.inr ⟨u, m, p, hu, hm, rfl⟩))]
    rw [this]

theorem posOf_congr {α : Type} (c c' : Core α) (j : Nat) (h : c'.units[j]? = c.units[j]?) : posOf c' j = posOf c j := by
  unfold posOf; rw [h]

/-- after an independent entry `a`, entry `b` sees the same units at its positions and the same lookups of its keys -/
theorem sim_after {α : Type} [Arith α] (si : SIConf) (pr : Prec) (c ca : Core α) (a b : Nat × ExtendEntry α)
    (hc : Ready c) (hsi : SIInv si c.units) (ha : HasKey c a.1) (hb : HasKey c b.1) (hind : Indep si c pr a b)
    (h : applyExtendOne si pr c a = .ok ca) :
    (∀ x, posOf c b.1 x → ca.units[x]? = c.units[x]?) ∧ Sim (posOf c b.1) (touched si c pr b) c ca := by
  obtain ⟨ua, _, hua, _⟩ := ha
  have hpos := indep_positions si c pr a b hc hsi ⟨ua, _, hua, ‹_›⟩ hb hind
  have hframe := applyExtendOne_units_frame si pr c ca a ua hc hua h
  have hlook := applyExtendOne_lookup_frame si pr c ca a ua hc hua h
  have hunits : ∀ x, posOf c b.1 x → ca.units[x]? = c.units[x]? := fun x hx => hframe x (hpos x hx)
  exact ⟨hunits, fun x hx => (hunits x hx).symm, fun k hk => (hlook k (fun hka => hind.2 k hka hk)).symm⟩

/-! ## Locality: a list of pairwise independent entries succeeds iff every entry succeeds on its own -/

/-- the side conditions that hold for the resolved entries of a block -/
structure Entries {α : Type} [Arith α] (si : SIConf) (c : Core α) (pr : Prec) (l : List (Nat × ExtendEntry α)) : Prop where
  haskey : ∀ ie, ie ∈ l → HasKey c ie.1
  child : ∀ ie, ie ∈ l → ∀ u, c.units[ie.1]? = some u → u.isExpanded = true → entryTouchesBase ie.2 = false
  indep : l.Pairwise (Indep si c pr)

theorem applyExtendList_local {α : Type} [Arith α] (si : SIConf) (pr : Prec) (l : List (Nat × ExtendEntry α)) (c : Core α)
    (hc : Ready c) (hsi : SIInv si c.units) (he : Entries si c pr l) :
    (∃ c', applyExtendList si pr l c = .ok c') ↔ ∀ ie, ie ∈ l → ∃ c', applyExtendOne si pr c ie = .ok c' := by
  induction l generalizing c with
  | nil => simp [applyExtendList]
  | cons a rest ih =>
    obtain ⟨ua, ka, hua, hka⟩ := he.haskey a (by simp)
    have hpw := List.pairwise_cons.mp he.indep
    -- what holds after `a`, if `a` succeeds
    have hafter : ∀ ca, applyExtendOne si pr c a = .ok ca →
        Ready ca ∧ SIInv si ca.units ∧ Entries si ca pr rest ∧
        ∀ x, x ∈ rest → ((∃ c', applyExtendOne si pr c x = .ok c') ↔ (∃ c', applyExtendOne si pr ca x = .ok c')) := by
      intro ca hca
      have hrca := ((applyExtendOne_good si pr c a hc (lt_of_getElem?_some hua)).of_ok hca).1
      have hsica := applyExtendOne_si si pr c ca a ua hc hsi hua (he.child a (by simp) ua hua) hca
      have hsim : ∀ x, x ∈ rest → (∀ y, posOf c x.1 y → ca.units[y]? = c.units[y]?) ∧ Sim (posOf c x.1) (touched si c pr x) c ca :=
        fun x hx => sim_after si pr c ca a x hc hsi ⟨ua, ka, hua, hka⟩ (he.haskey x (by simp [hx])) (hpw.1 x hx) hca
      refine ⟨hrca, hsica, ⟨?_, ?_, ?_⟩, ?_⟩
      · intro x hx
        obtain ⟨ux, kx, hux, hkx⟩ := he.haskey x (by simp [hx])
        exact ⟨ux, kx, by rw [(hsim x hx).1 x.1 (Or.inl rfl)]; exact hux, hkx⟩
      · intro x hx u hu hexp
        rw [(hsim x hx).1 x.1 (Or.inl rfl)] at hu
        exact he.child x (by simp [hx]) u hu hexp
      · refine hpw.2.imp_of_mem ?_
        intro x y hx hy hxy
        refine ⟨hxy.1, ?_⟩
        rw [touched_congr si c ca pr x (hsim x hx).1, touched_congr si c ca pr y (hsim y hy).1]
        exact hxy.2
      · intro x hx
        exact (applyExtendOne_sim si pr c ca x hc hrca (hsim x hx).2).ok_iff
    constructor
    · rintro ⟨c', h⟩
      unfold applyExtendList at h
      split at h
      · cases h
      · rename_i ca hca
        obtain ⟨hrca, hsica, heca, hiff⟩ := hafter ca hca
        have hrest := (ih ca hrca hsica heca).mp ⟨c', h⟩
        intro x hx
        rcases List.mem_cons.mp hx with rfl | hx
        · exact ⟨ca, hca⟩
        · exact (hiff x hx).mpr (hrest x hx)
    · intro hall
      obtain ⟨ca, hca⟩ := hall a (by simp)
      obtain ⟨hrca, hsica, heca, hiff⟩ := hafter ca hca
      obtain ⟨c', h'⟩ := (ih ca hrca hsica heca).mpr (fun x hx => (hiff x hx).mp (hall x (by simp [hx])))
      exact ⟨c', by unfold applyExtendList; rw [hca]; exact h'⟩

theorem Entries.perm {α : Type} [Arith α] {si : SIConf} {c : Core α} {pr : Prec} {l l' : List (Nat × ExtendEntry α)}
    (h : Entries si c pr l) (hp : l'.Perm l) : Entries si c pr l' :=
  ⟨fun ie hie => h.haskey ie (hp.mem_iff.mp hie), fun ie hie => h.child ie (hp.mem_iff.mp hie),
   (hp.pairwise_iff (fun hxy => hxy.symm)).mpr h.indep⟩

/-- success of a list of independent entries does not depend on their order -/
theorem applyExtendList_perm_ok {α : Type} [Arith α] (si : SIConf) (pr : Prec) (l l' : List (Nat × ExtendEntry α)) (c : Core α)
    (hc : Ready c) (hsi : SIInv si c.units) (he : Entries si c pr l) (hp : l'.Perm l)
    (h : ∃ c1, applyExtendList si pr l c = .ok c1) : ∃ c2, applyExtendList si pr l' c = .ok c2 := by
  rw [applyExtendList_local si pr l' c hc hsi (he.perm hp)]
  intro ie hie
  exact (applyExtendList_local si pr l c hc hsi he).mp h ie (hp.mem_iff.mp hie)

/-! ## The resolve loop is a map with side conditions -/

def resolveFn {α : Type} (c : Core α) (ke : Key × ExtendEntry α) : Nat × ExtendEntry α := ((idxGet c.index ke.1).getD 0, ke.2)

def ResolvCond {α : Type} (c : Core α) (acc : List (Nat × ExtendEntry α)) (l : List (Key × ExtendEntry α)) : Prop :=
  (∀ ke, ke ∈ l → ∃ id u, idxGet c.index ke.1 = some id ∧ c.units[id]? = some u ∧ (u.isExpanded && entryTouchesBase ke.2) = false) ∧
  (acc.map (·.1) ++ l.map (fun ke => (resolveFn c ke).1)).Nodup

theorem resolveExtend_iff {α : Type} (c : Core α) (l : List (Key × ExtendEntry α)) (acc upd : List (Nat × ExtendEntry α))
    (hacc : (acc.map (·.1)).Nodup) :
    resolveExtend c l acc = .ok upd ↔ ResolvCond c acc l ∧ upd = acc ++ l.map (resolveFn c) := by
  induction l generalizing acc upd with
  | nil =>
    simp only [resolveExtend, Except.ok.injEq, ResolvCond, List.not_mem_nil, false_imp_iff, implies_true, List.map_nil,
      List.append_nil, true_and]
    constructor
    · rintro rfl; exact ⟨hacc, rfl⟩
    · rintro ⟨_, rfl⟩; rfl
  | cons ke rest ih =>
    have hany : ∀ id, acc.any (fun x => x.1 == id) = true ↔ id ∈ acc.map (·.1) := by
      intro id; simp [List.any_eq_true]
    constructor
    · intro h
      unfold resolveExtend at h
      split at h
      · cases h
      · rename_i id hid
        split at h
        · cases h
        · rename_i hnot
          split at h
          · cases h
          · rename_i u hu
            split at h
            · cases h
            · rename_i hexp
              have hidnot : id ∉ acc.map (·.1) := fun hm => hnot ((hany id).mpr hm)
              have hacc' : ((acc ++ [(id, ke.2)]).map (·.1)).Nodup := by
                simp only [List.map_append, List.map_cons, List.map_nil]
                exact List.nodup_append.mpr ⟨hacc, by simp, by
                  intro a ha b hb; simp at hb; subst hb; intro e; subst e; exact hidnot ha⟩
              obtain ⟨⟨c1, c2⟩, c3⟩ := (ih (acc ++ [(id, ke.2)]) upd hacc').mp h
              have hfn : resolveFn c ke = (id, ke.2) := by simp [resolveFn, hid]
              refine ⟨⟨?_, ?_⟩, ?_⟩
              · intro x hx
                rcases List.mem_cons.mp hx with rfl | hx
                · exact ⟨id, u, hid, hu, by simpa using hexp⟩
                · exact c1 x hx
              · simpa [hfn, List.append_assoc] using c2
              · rw [c3]; simp [hfn]
    · rintro ⟨⟨c1, c2⟩, rfl⟩
      obtain ⟨id, u, hid, hu, hexp⟩ := c1 ke (by simp)
      have hfn : resolveFn c ke = (id, ke.2) := by simp [resolveFn, hid]
      have c2' : (acc.map (·.1) ++ id :: rest.map (fun ke => (resolveFn c ke).1)).Nodup := by simpa [hfn] using c2
      have hidnot : id ∉ acc.map (·.1) := by
        intro hm
        have := (List.nodup_append.mp c2').2.2 id hm id (by simp)
        exact this rfl
      have hacc' : ((acc ++ [(id, ke.2)]).map (·.1)).Nodup := by
        simp only [List.map_append, List.map_cons, List.map_nil]
        exact List.nodup_append.mpr ⟨hacc, by simp, by
          intro a ha b hb; simp at hb; subst hb; intro e; subst e; exact hidnot ha⟩
      unfold resolveExtend
      rw [hid]; simp only
      have hn : ¬ acc.any (fun x => x.1 == id) = true := fun h => hidnot ((hany id).mp h)
      simp only [hn, Bool.false_eq_true, ↓reduceIte, hu, hexp]
      rw [(ih (acc ++ [(id, ke.2)]) _ hacc').mpr ⟨⟨fun x hx => c1 x (by simp [hx]), by simpa [List.append_assoc] using c2'⟩, rfl⟩]
      simp [hfn]

theorem ResolvCond.perm {α : Type} {c : Core α} {l l' : List (Key × ExtendEntry α)} (h : ResolvCond c [] l) (hp : l'.Perm l) :
    ResolvCond c [] l' := by
  refine ⟨fun ke hke => h.1 ke (hp.mem_iff.mp hke), ?_⟩
  have := h.2
  simp only [List.map_nil, List.nil_append] at this ⊢
  exact ((hp.map _).nodup_iff).mpr this

/-! ## The full order theorem for a block -/

/-- the keys an entry `(key, e)` of a block touches in state `c`: an unknown key touches itself -/
def entryKeys {α : Type} [Arith α] (si : SIConf) (c : Core α) (pr : Prec) (ke : Key × ExtendEntry α) : List Key :=
  match idxGet c.index ke.1 with
  | none => [ke.1]
  | some id => touched si c pr (id, ke.2)

/-- the entries of a block touch pairwise disjoint key sets -/
def DisjointEntries {α : Type} [Arith α] (si : SIConf) (c : Core α) (g : Extend α) : Prop :=
  g.units.Pairwise (fun a b => ∀ k, k ∈ entryKeys si c g.precedence a → k ∉ entryKeys si c g.precedence b)

theorem DisjointEntries.perm {α : Type} [Arith α] {si : SIConf} {c : Core α} {g g' : Extend α} (h : DisjointEntries si c g)
    (hprec : g'.precedence = g.precedence) (hp : g'.units.Perm g.units) : DisjointEntries si c g' := by
  unfold DisjointEntries at *
  rw [hprec]
  exact (hp.pairwise_iff (fun hxy k hb ha => hxy k ha hb)).mpr h

/-- the resolved entries of a block with disjoint entries satisfy the side conditions of the locality theorem -/
theorem entries_of_resolved {α : Type} [Arith α] (si : SIConf) (c : Core α) (g : Extend α) (hc : Ready c)
    (hcond : ResolvCond c [] g.units) (hdis : DisjointEntries si c g) :
    Entries si c g.precedence (g.units.map (resolveFn c)) := by
  refine ⟨?_, ?_, ?_⟩
  · intro ie hie
    obtain ⟨ke, hke, rfl⟩ := List.mem_map.mp hie
    obtain ⟨id, u, hid, hu, _⟩ := hcond.1 ke hke
    obtain ⟨_, u', hu', hk⟩ := hc.1.sound _ _ hid
    exact ⟨u', ke.1, by simpa [resolveFn, hid] using hu', hk⟩
  · intro ie hie u hu hexp
    obtain ⟨ke, hke, rfl⟩ := List.mem_map.mp hie
    obtain ⟨id, u', hid, hu', hx⟩ := hcond.1 ke hke
    simp only [resolveFn, hid, Option.getD_some] at hu
    rw [hu'] at hu; cases hu
    show entryTouchesBase ke.2 = false
    simpa [hexp] using hx
  · rw [List.pairwise_map]
    have hnd : g.units.Pairwise (fun a b => (resolveFn c a).1 ≠ (resolveFn c b).1) := by
      have := hcond.2
      simp only [List.map_nil, List.nil_append] at this
      exact List.pairwise_map.mp this
    refine (hnd.and hdis).imp_of_mem ?_
    intro a b ha hb ⟨hne, hd⟩
    obtain ⟨ida, _, hida, _, _⟩ := hcond.1 a ha
    obtain ⟨idb, _, hidb, _, _⟩ := hcond.1 b hb
    refine ⟨hne, ?_⟩
    intro k hka hkb
    apply hd k
    · simpa [entryKeys, hida, resolveFn] using hka
    · simpa [entryKeys, hidb, resolveFn] using hkb

/-- one direction: if the block succeeds in one order it succeeds in every other, with the same result -/
theorem applyExtendGroup_order_ok {α : Type} [Arith α] (si : SIConf) (c c1 : Core α) (g g' : Extend α) (hc : Ready c)
    (hsi : SIInv si c.units) (hprec : g'.precedence = g.precedence) (hperm : g'.units.Perm g.units) (hdis : DisjointEntries si c g)
    (h1 : applyExtendGroup si c g = .ok c1) : ∃ c2, applyExtendGroup si c g' = .ok c2 ∧ CoreEq c1 c2 := by
  have h1' := h1
  unfold applyExtendGroup at h1
  split at h1
  · cases h1
  · rename_i upd hupd
    obtain ⟨hcond, hupdeq⟩ := (resolveExtend_iff c g.units [] upd (by simp)).mp hupd
    simp only [List.nil_append] at hupdeq
    subst hupdeq
    have hcond' := hcond.perm hperm
    have hupd' : resolveExtend c g'.units [] = .ok (g'.units.map (resolveFn c)) :=
      (resolveExtend_iff c g'.units [] _ (by simp)).mpr ⟨hcond', by simp⟩
    have hent := entries_of_resolved si c g hc hcond hdis
    obtain ⟨c2, h2⟩ := applyExtendList_perm_ok si g.precedence _ (g'.units.map (resolveFn c)) c hc hsi hent (hperm.map _) ⟨c1, h1⟩
    have hg' : applyExtendGroup si c g' = .ok c2 := by
      unfold applyExtendGroup; rw [hupd', hprec]; exact h2
    exact ⟨c2, hg', applyExtendGroup_order_unique si c c1 c2 g g' hc hsi hprec hperm h1' hg'⟩

/-- The order clause in full: for a block whose entries touch pairwise disjoint key sets, every iteration order has the
    same outcome — the same units and lookups, or an error in every order. -/
theorem applyExtendGroup_order_full {α : Type} [Arith α] (si : SIConf) (c : Core α) (g g' : Extend α) (hc : Ready c)
    (hsi : SIInv si c.units) (hprec : g'.precedence = g.precedence) (hperm : g'.units.Perm g.units) (hdis : DisjointEntries si c g) :
    (∃ c1 c2, applyExtendGroup si c g = .ok c1 ∧ applyExtendGroup si c g' = .ok c2 ∧ CoreEq c1 c2) ∨
    (∃ e1 e2, applyExtendGroup si c g = .error e1 ∧ applyExtendGroup si c g' = .error e2) := by
  cases h1 : applyExtendGroup si c g with
  | ok c1 =>
    obtain ⟨c2, h2, heq⟩ := applyExtendGroup_order_ok si c c1 g g' hc hsi hprec hperm hdis h1
    exact Or.inl ⟨c1, c2, rfl, h2, heq⟩
  | error e1 =>
    cases h2 : applyExtendGroup si c g' with
    | error e2 => exact Or.inr ⟨e1, e2, rfl, rfl⟩
    | ok c2 =>
      obtain ⟨c1, h1', _⟩ := applyExtendGroup_order_ok si c c2 g' g hc hsi hprec.symm hperm.symm (hdis.perm hprec hperm) h2
      rw [h1] at h1'; cases h1'

end Cook.Bld
