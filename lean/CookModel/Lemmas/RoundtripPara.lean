import CookModel.Lemmas.RoundtripInput
/-
  C01, block layer for text paragraphs (`>` blocks): `parse_text_block` on the tokens of a paragraph —
  lines that may start with `>` and one blank, joined by newline tokens — emits `start text`, one text
  event per line (the line's body and its newline, shown as one space) and `end text`, nothing else.
  (`rtp_` prefix.)
-/
set_option linter.unusedSectionVars false
set_option linter.unusedSimpArgs false
set_option linter.unusedVariables false
namespace Cook
variable {α : Type} [Arith α]

theorem rtp_textLineK (k : P α Unit) (s : BP α) (A B N R : List Tok) (ht : s.toks = A ++ (B ++ (N ++ R)))
    (hc : s.cur = A.length) (hB : ∀ t ∈ B, t.kind ≠ .newline)
    (hN : (N = [] ∧ R = []) ∨ ∃ n, N = [n] ∧ n.kind = .newline)
    (hrun : RunAt (baseOff s.toks) s.toks) (hvis : ∃ t ∈ B, plainKind t.kind = true ∧ NBs s.cs t.text) :
    textLineK k s = k { s with cur := A.length + (B ++ N).length,
                               evs := s.evs.push (.text (buildText (offAt s.toks A.length) (B ++ N))) } := by
  have h3 := consumeWhile_split (fun k => k != .newline) s A B (N ++ R) ht hc
    (by intro t ht'; simpa using hB t ht')
    (by
      intro t ht'
      rcases hN with ⟨rfl, rfl⟩ | ⟨n, rfl, hn⟩
      · simp at ht'
      · simp at ht'; subst ht'; simp [hn])
  have hr : RunAt (offAt s.toks A.length) (B ++ N) :=
    rt_runAt_mid hrun A (B ++ N) R (by rw [ht]; simp)
  have hne : (buildText (offAt s.toks A.length) (B ++ N)).isTextEmpty s.cs = false := by
    apply buildText_not_empty
    obtain ⟨t, htB, h1, h2⟩ := hvis
    exact ⟨t, by simp [htB], h1, h2⟩
  unfold textLineK
  rcases hN with ⟨rfl, rfl⟩ | ⟨n, rfl, hn⟩
  · have h4 := consumeK_split_none .newline ({ s with cur := A.length + B.length } : BP α) (A ++ B) [] (by rw [ht]; simp)
      (by simp) (by intro t ht'; simp at ht')
    have hslice : (s.toks.take (A.length + B.length)).drop A.length = B := by
      rw [ht]
      simp only [List.append_nil]
      rw [← List.length_append, List.take_length, List.drop_left]
    simp only [List.append_nil] at hr hne ⊢
    simp only [bind, StateT.bind, currentOffset_run, getCur, get, getThe, MonadStateOf.get, StateT.get, pure, StateT.pure,
      hc, h3, h4, hslice, bpText_run hr, hne, Bool.not_false, if_true, pushEv_run]
  · have h4 := consumeK_split_some .newline ({ s with cur := A.length + B.length } : BP α) (A ++ B) n R (by rw [ht]; simp)
      (by simp) hn
    have hslice : (s.toks.take ((A ++ B).length + 1)).drop A.length = B ++ [n] := by
      rw [ht, show A ++ (B ++ ([n] ++ R)) = (A ++ B ++ [n]) ++ R by simp, List.take_left' (by lenarith)]
      rw [show A ++ B ++ [n] = A ++ (B ++ [n]) by simp, List.drop_left]
    simp only [bind, StateT.bind, currentOffset_run, getCur, get, getThe, MonadStateOf.get, StateT.get, pure, StateT.pure,
      hc, h3, h4, hslice, bpText_run hr, hne, Bool.not_false, if_true, pushEv_run]
    congr 2
    simp only [List.length_append, List.length_cons, List.length_nil]; omega

/-- one line of a text paragraph: `>` (optional except on the first line) with the blank after it, the body,
    the newline (absent on the last line) -/
structure PLine where
  marker : Bool := true
  sp : List Tok := []
  body : List Tok
  nl : List Tok := []

def PLine.head (l : PLine) : List Tok := if l.marker then tk .textStep ['>'] :: l.sp else []
def PLine.spell (l : PLine) : List Tok := l.head ++ (l.body ++ l.nl)
/-- the text a line contributes: its body and the newline (shown as one space) -/
def PLine.text (l : PLine) : Str := (l.body ++ l.nl).flatMap vis

def PLine.ok (cs : CharSpec) (l : PLine) : Bool :=
  l.body.all (fun t => t.kind != .newline) &&
  l.body.any (fun t => plainKind t.kind && t.text.any (fun c => !cs.uws c)) &&
  (if l.marker then
     (l.sp.isEmpty || (l.sp.length == 1 && l.sp.all (fun t => t.kind == .ws))) &&
       l.body.head?.all (fun t => t.kind != .ws)
   else l.sp.isEmpty && l.body.head?.all (fun t => t.kind != .textStep)) &&
  l.nl.all (fun t => t.kind == .newline)

theorem rtp_iter (fuel : Nat) (l : PLine) (s : BP α) (A tline R : List Tok) (hs : Spells tline l.spell)
    (hok : l.ok s.cs = true) (hnl : (l.nl = [] ∧ R = []) ∨ l.nl.length = 1)
    (ht : s.toks = A ++ (tline ++ R)) (hc : s.cur = A.length) (hrun : RunAt (baseOff s.toks) s.toks) :
    ∃ t : Text, textBlockLoop (fuel + 1) s =
        textBlockLoop fuel { s with cur := A.length + tline.length, evs := s.evs.push (.text t) } ∧
      t.text = l.text := by
  simp only [PLine.spell] at hs
  obtain ⟨M, BN, rfl, hM, hBN⟩ := hs.append_inv
  obtain ⟨B, N, rfl, hB, hN⟩ := hBN.append_inv
  simp only [PLine.ok, Bool.and_eq_true] at hok
  obtain ⟨⟨⟨ok1, ok2⟩, ok3⟩, ok4⟩ := hok
  have hBnl : ∀ t ∈ B, t.kind ≠ .newline := by
    intro t ht'
    obtain ⟨u, hu, hk, -⟩ := hB.mem ht'
    rw [hk]; simpa using List.all_eq_true.1 ok1 u hu
  have hvis : ∃ t ∈ B, plainKind t.kind = true ∧ NBs s.cs t.text := by
    rw [List.any_eq_true] at ok2
    obtain ⟨u, hu, hp⟩ := ok2
    simp only [Bool.and_eq_true, List.any_eq_true, Bool.not_eq_true'] at hp
    obtain ⟨t, htB, hk, hx⟩ := hB.mem' hu
    obtain ⟨c, hcm, hcu⟩ := hp.2
    exact ⟨t, htB, by rw [hk]; exact hp.1, c, by rw [hx]; exact hcm, hcu⟩
  have hNshape : (N = [] ∧ R = []) ∨ ∃ n, N = [n] ∧ n.kind = .newline := by
    rcases hnl with ⟨h1, h2⟩ | h1
    · rw [h1] at hN; exact Or.inl ⟨hN.nil_inv, h2⟩
    · right
      have hlen := hN.length
      rw [h1] at hlen
      obtain ⟨n, rfl⟩ := List.length_eq_one_iff.1 hlen
      obtain ⟨u, hu, hk, -⟩ := hN.mem (t := n) (by simp)
      exact ⟨n, rfl, by rw [hk]; simpa using List.all_eq_true.1 ok4 u hu⟩
  have hd : (s.toks.drop s.cur).isEmpty = false := by
    rw [ht, hc, List.drop_left]
    obtain ⟨t, htB, -⟩ := hvis
    cases B with
    | nil => simp at htB
    | cons b B' => cases M <;> rfl
  refine ⟨buildText (offAt s.toks (A ++ M).length) (B ++ N), ?_, by rw [buildText_text, (hB.append hN).vis_eq]; rfl⟩
  have hBhead : ∀ (k : TK), l.body.head?.all (fun t => t.kind != k) = true →
      ∀ t, (B ++ N ++ R).head? = some t → t.kind ≠ k := by
    intro k hk t ht'
    obtain ⟨b, htB, -⟩ := hvis
    cases B with
    | nil => simp at htB
    | cons b0 B' =>
      simp at ht'; subst ht'
      have hh := hB.head_kind
      cases hb : l.body.head? with
      | none => rw [hb] at hh; simp at hh
      | some u =>
        rw [hb] at hh hk
        simp only [List.head?_cons, Option.map_some, Option.some.injEq] at hh
        simp only [Option.all_some, bne_iff_ne, ne_eq] at hk
        rw [hh]; exact hk
  conv => lhs; unfold textBlockLoop
  simp only [bind, StateT.bind, restToks_run, hd, Bool.false_eq_true, if_false]
  cases hm : l.marker with
  | false =>
    simp only [PLine.head, hm, Bool.false_eq_true, if_false] at hM ok3
    have := hM.nil_inv; subst this
    simp only [Bool.and_eq_true] at ok3
    have h1 := consumeK_split_none .textStep s A (B ++ N ++ R) (by rw [ht]; simp) hc (hBhead _ ok3.2)
    simp only [h1]
    refine (rtp_textLineK (textBlockLoop fuel) s A B N R (by rw [ht]; simp) hc hBnl hNshape hrun hvis).trans ?_
    simp
  | true =>
    simp only [PLine.head, hm, if_true] at hM ok3
    obtain ⟨tm, Msp, rfl, htmk, -, hMsp⟩ := hM.cons_inv
    have htmk' : tm.kind = .textStep := by rw [htmk]; rfl
    simp only [Bool.and_eq_true, Bool.or_eq_true] at ok3
    have h1 := consumeK_split_some .textStep s A tm (Msp ++ (B ++ N) ++ R) (by rw [ht]; simp) hc htmk'
    simp only [h1]
    rcases ok3.1 with hsp | hsp
    · have : l.sp = [] := by simpa using hsp
      rw [this] at hMsp
      have := hMsp.nil_inv; subst this
      have h2 := consumeK_split_none .ws ({ s with cur := A.length + 1 } : BP α) (A ++ [tm]) (B ++ N ++ R)
        (by rw [ht]; simp) (by simp) (hBhead _ ok3.2)
      simp only [StateT.bind, h2]
      refine (rtp_textLineK (textBlockLoop fuel) ({ s with cur := A.length + 1 } : BP α) (A ++ [tm]) B N R
        (by rw [ht]; simp) (by simp) hBnl hNshape hrun hvis).trans ?_
      refine congrArg (textBlockLoop fuel) ?_
      simp
      try omega
    · simp only [Bool.and_eq_true, beq_iff_eq] at hsp
      obtain ⟨w, hw⟩ := List.length_eq_one_iff.1 hsp.1
      rw [hw] at hMsp
      obtain ⟨tw, rfl, htwk, -⟩ := hMsp.single_inv
      have htwk' : tw.kind = .ws := by
        rw [htwk]
        have := List.all_eq_true.1 hsp.2 w (by rw [hw]; simp)
        simpa using this
      have h2 := consumeK_split_some .ws ({ s with cur := A.length + 1 } : BP α) (A ++ [tm]) tw (B ++ N ++ R)
        (by rw [ht]; simp) (by simp) htwk'
      simp only [StateT.bind, h2]
      refine (rtp_textLineK (textBlockLoop fuel) ({ s with cur := (A ++ [tm]).length + 1 } : BP α) (A ++ [tm, tw]) B N R
        (by rw [ht]; simp) (by simp) hBnl hNshape hrun hvis).trans ?_
      refine congrArg (textBlockLoop fuel) ?_
      simp
      try omega

/-- the lines of a paragraph: each line is well formed; every line but the last ends with its newline token -/
def paraLinesOK (cs : CharSpec) : List PLine → Bool
  | [] => true
  | l :: r => l.ok cs && (if r.isEmpty then l.nl.isEmpty else l.nl.length == 1) && paraLinesOK cs r

theorem rtp_loop : ∀ (lines : List PLine) (fuel : Nat) (s : BP α) (A tl : List Tok),
    Spells tl (lines.flatMap PLine.spell) → s.toks = A ++ tl → s.cur = A.length → RunAt (baseOff s.toks) s.toks →
    paraLinesOK s.cs lines = true → tl.length ≤ fuel →
    ∃ (txts : List Text) (arr : Array (Ev α)),
      textBlockLoop fuel s = ((), { s with cur := A.length + tl.length, evs := arr }) ∧
      arr.toList = s.evs.toList ++ txts.map Ev.text ∧ txts.map (·.text) = lines.map PLine.text := by
  intro lines
  induction lines with
  | nil =>
    intro fuel s A tl hs ht hc hrun hok hf
    simp only [List.flatMap_nil] at hs
    have := hs.nil_inv; subst this
    have hd : s.toks.drop s.cur = [] := by rw [ht, hc]; simp
    refine ⟨[], s.evs, ?_, by simp, rfl⟩
    cases fuel with
    | zero =>
      unfold textBlockLoop
      simp only [bind, StateT.bind, restToks_run, hd, List.isEmpty_nil, Bool.not_true, Bool.false_eq_true, if_false,
        List.length_nil, Nat.add_zero, ← hc]
      rfl
    | succ f =>
      unfold textBlockLoop
      simp only [bind, StateT.bind, restToks_run, hd, List.isEmpty_nil, if_true, List.length_nil, Nat.add_zero, ← hc]
      rfl
  | cons l r ih =>
    intro fuel s A tl hs ht hc hrun hok hf
    simp only [List.flatMap_cons] at hs
    obtain ⟨tline, trest, rfl, hline, hrest⟩ := hs.append_inv
    simp only [paraLinesOK, Bool.and_eq_true] at hok
    obtain ⟨⟨hlok, hnl⟩, hrok⟩ := hok
    have hnl' : (l.nl = [] ∧ trest = []) ∨ l.nl.length = 1 := by
      cases r with
      | nil =>
        simp only [List.flatMap_nil] at hrest
        simp only [List.isEmpty_nil, if_true, List.isEmpty_iff] at hnl
        exact Or.inl ⟨hnl, hrest.nil_inv⟩
      | cons a b =>
        simp only [List.isEmpty_cons, Bool.false_eq_true, if_false, beq_iff_eq] at hnl
        exact Or.inr hnl
    have hne : tline ≠ [] := by
      intro h0
      subst h0
      have hl0 := hline.length
      simp only [PLine.spell, List.length_nil, List.length_append] at hl0
      have hlok' := hlok
      simp only [PLine.ok, Bool.and_eq_true] at hlok'
      have := hlok'.1.1.2
      rw [List.any_eq_true] at this
      obtain ⟨u, hu, -⟩ := this
      have : 0 < l.body.length := List.length_pos_of_mem hu
      omega
    obtain ⟨f, rfl⟩ : ∃ f, fuel = f + 1 := by
      cases tline with
      | nil => exact absurd rfl hne
      | cons t r' => exact ⟨fuel - 1, by simp at hf; omega⟩
    obtain ⟨t, hit, htx⟩ := rtp_iter f l s A tline trest hline hlok hnl' ht hc hrun
    obtain ⟨txts, arr, hl, harr, hall⟩ := ih f ({ s with cur := A.length + tline.length, evs := s.evs.push (.text t) } : BP α)
      (A ++ tline) trest hrest (by simp [ht]) (by simp) hrun hrok
      (by have := List.length_pos_iff.mpr hne; simp only [List.length_append] at hf; omega)
    refine ⟨t :: txts, arr, ?_, by rw [harr]; simp, by simp only [List.map_cons, htx, hall]⟩
    rw [hit, hl]
    congr 2
    simp only [List.length_append]; omega

theorem rtp_parseTextBlock (lines : List PLine) (s : BP α) (ts : List Tok) (hs : Spells ts (lines.flatMap PLine.spell))
    (ht : s.toks = ts) (hc : s.cur = 0) (hrun : RunAt (baseOff ts) ts) (hok : paraLinesOK s.cs lines = true) :
    ∃ (txts : List Text) (arr : Array (Ev α)),
      parseTextBlock s = ((), { s with cur := ts.length, evs := arr }) ∧
      arr.toList = s.evs.toList ++ [.start .text] ++ txts.map Ev.text ++ [.stop .text] ∧ txts.map (·.text) = lines.map PLine.text := by
  subst ht
  obtain ⟨txts, arr, hl, harr, hall⟩ := rtp_loop lines s.toks.length
    ({ s with evs := s.evs.push (.start .text) } : BP α) [] s.toks hs (by simp) (by simpa using hc) hrun hok
    (Nat.le_refl _)
  refine ⟨txts, arr.push (.stop .text), ?_, by simp [harr], hall⟩
  unfold parseTextBlock
  have hd : (s.toks.drop s.cur).length = s.toks.length := by rw [hc]; simp
  simp only [bind, StateT.bind, pushEv_run, restToks_run, hd, hl]
  simp

/-- a text paragraph through `parse_block` + `finish` -/
theorem rtp_runBlock_para (lines : List PLine) (cs : CharSpec) (ext : Ext) (oldStyle : Bool) (ts : List Tok)
    (evs0 : Array (Ev α)) (panic : Option String) (hs : Spells ts (lines.flatMap PLine.spell))
    (hrun : RunAt (baseOff ts) ts) (hok : paraLinesOK cs lines = true) (hfirst : lines.head?.any (·.marker) = true) :
    ∃ (txts : List Text) (arr : Array (Ev α)),
      runBlock cs ext oldStyle ts evs0 panic = (arr, panic) ∧
      arr.toList = evs0.toList ++ [.start .text] ++ txts.map Ev.text ++ [.stop .text] ∧ txts.map (·.text) = lines.map PLine.text := by
  obtain ⟨txts, arr, hstep, harr, hall⟩ := rtp_parseTextBlock lines (⟨ts, 0, ext, cs, evs0, panic⟩ : BP α) ts hs rfl rfl
    hrun hok
  refine ⟨txts, arr, ?_, harr, hall⟩
  obtain ⟨l, r, rfl⟩ : ∃ l r, lines = l :: r := by
    cases lines with
    | nil => simp at hfirst
    | cons a b => exact ⟨a, b, rfl⟩
  simp only [List.head?_cons, Option.any_some] at hfirst
  simp only [List.flatMap_cons, PLine.spell, PLine.head, hfirst, if_true, List.cons_append] at hs
  obtain ⟨t0, tr, rfl, hk0, -, -⟩ := hs.cons_inv
  have hk : t0.kind = .textStep := by rw [hk0]; rfl
  have hpk := peekK_split (⟨t0 :: tr, 0, ext, cs, evs0, panic⟩ : BP α) [] (t0 :: tr) rfl rfl
  have hall' : (t0 :: tr).all (fun t => isEmptyTok t.kind) = false := by
    simp [List.all_cons, hk, isEmptyTok]
  unfold runBlock
  simp only [List.isEmpty_cons, Bool.false_eq_true, if_false, bind, StateT.bind, pure, StateT.pure]
  have hpb : parseBlock (α := α) oldStyle ⟨t0 :: tr, 0, ext, cs, evs0, panic⟩ =
      ((), { (⟨t0 :: tr, 0, ext, cs, evs0, panic⟩ : BP α) with cur := (t0 :: tr).length, evs := arr }) := by
    unfold parseBlock
    simp only [bind, StateT.bind, hpk, List.head?_cons, Option.map_some, hk, pure, StateT.pure]
    unfold parseMultilineBlock
    simp only [bind, StateT.bind, allToks, get, getThe, MonadStateOf.get, StateT.get, pure, StateT.pure, hall',
      Bool.false_eq_true, if_false, hpk, List.head?_cons, Option.map_some, hk, BEq.rfl, if_true]
    exact hstep
  rw [hpb]
  simp only [get, getThe, MonadStateOf.get, StateT.get, ne_eq, not_true_eq_false, if_false, pure, StateT.pure]
end Cook
