import CookModel.Lemmas.CollectorAgree
import CookModel.Lemmas.ExtLaws
/-
  C14 with front matter.

  Parser level: with front matter the full pull parser runs every block with
  `old_style_metadata = false`; the only `Metadata` events it can then emit are `[config]` keys
  under the MODES extension (`parseBlock_front_meta`, `pullEvents_front_meta`).
  Analysis level: once the front-matter event is processed (`oldStyle = false`), such a config
  event never touches the metadata part of the collector (`pf_metadataA_cfg`); so the metadata
  part of the full analysis equals the one of the metadata-only analysis, which sees the
  front-matter event alone (`analysis_agree_front`).  `analysis_agree_all` joins the two cases.
-/
set_option linter.unusedSectionVars false
namespace Cook
variable {α : Type} [Arith α]

/-! ### parser level -/

/-- a `Metadata` event the full parser lets through after front matter: a `[config]` key, MODES on -/
def CfgEv (cs : CharSpec) (ext : Ext) (ev : Ev α) : Prop :=
  ∃ k v, ev = .metadata k v ∧ isConfigKey cs k = true ∧ ext.has Gen.EXT_MODES = true

/-- `metadata_entry` leaves the character tables and the extension set alone -/
theorem mfront_metadataEntry_frame (s : BP α) :
    (metadataEntry (α := α) s).2.cs = s.cs ∧ (metadataEntry (α := α) s).2.ext = s.ext := by
  have h := (metadataEntry_indA (α := α)).all s
  refine ⟨h.cs, ?_⟩
  have h2 := h.ext s.ext
  rw [BP.withExt_self] at h2
  exact congrArg (fun r => r.2.ext) h2

theorem mfront_parseBlock (s0 : BP α) :
    ∃ L, metaOf (parseBlock (α := α) false s0).2.evs = metaOf s0.evs ++ L ∧
      ∀ ev ∈ L, CfgEv s0.cs s0.ext ev := by
  by_cases hk : (s0.toks[s0.cur]?).map (·.kind) = some .metaStart
  · have hm := (mf_metadataEntry (α := α)).run s0
    have hfr := mfront_metadataEntry_frame s0
    have hret := ((mf_metadataEntry_ret (α := α)).run s0).2
    unfold parseBlock
    simp only [bind, StateT.bind, peekK_run, hk]
    rcases hme : metadataEntry (α := α) s0 with ⟨e, s1⟩
    rw [hme] at hm hret hfr
    have hother : ∀ s : BP α, metaOf s.evs = metaOf s0.evs →
        metaOf ((match ((none : Option (Ev α)), s) with
          | (a, s) => (match a with
            | some ev => pushEv ev
            | none => parseMultilineBlock) s).2.evs) = metaOf s0.evs := by
      intro s hs
      exact ((mf_parseMultilineBlock (α := α)).run s).1.trans hs
    cases e with
    | none =>
      refine ⟨[], ?_, by simp⟩
      rw [withRecover_none_ma (s2 := s1)]
      · simpa using hother { s1 with cur := s0.cur } hm.1
      · simp only [StateT.bind, hme]; rfl
    | some ev =>
      obtain ⟨k, v, rfl⟩ := hret ev rfl
      cases hc : (isConfigKey s1.cs k && s1.ext.has Gen.EXT_MODES)
      · refine ⟨[], ?_, by simp⟩
        rw [withRecover_none_ma (s2 := s1)]
        · simpa using hother { s1 with cur := s0.cur } hm.1
        · simp only [StateT.bind, hme, hasExt, get, getThe, MonadStateOf.get, StateT.get, pure, StateT.pure, bind,
            hc, Bool.or_false]
          rfl
      · refine ⟨[.metadata k v], ?_, ?_⟩
        · rw [withRecover_some_ma (s2 := s1) (a := .metadata k v)]
          · show metaOf (s1.evs.push (.metadata k v)) = _
            rw [metaOf_push, hm.1]; rfl
          · simp only [StateT.bind, hme, hasExt, get, getThe, MonadStateOf.get, StateT.get, pure, StateT.pure, bind,
              hc, Bool.or_false]
            rfl
        · intro ev hev
          simp only [List.mem_singleton] at hev
          subst hev
          simp only [Bool.and_eq_true] at hc
          exact ⟨k, v, rfl, by rw [← hfr.1]; exact hc.1, by rw [← hfr.2]; exact hc.2⟩
  · exact ⟨[], by simpa using parseBlock_other_head false s0 hk, by simp⟩

theorem mfront_runBlock (cs : CharSpec) (ext : Ext) (b : List Tok) (evs : Array (Ev α)) (p : Option String)
    (hb : b ≠ []) :
    ∃ L, metaOf (runBlock (α := α) cs ext false b evs p).1 = metaOf evs ++ L ∧ ∀ ev ∈ L, CfgEv cs ext ev := by
  rw [runBlock_evs cs ext false b evs p hb]
  exact mfront_parseBlock ⟨b, 0, ext, cs, evs, p⟩

theorem mfront_fold (cs : CharSpec) (ext : Ext) : ∀ (bs : List (List Tok)), (∀ b ∈ bs, b ≠ []) →
    ∀ (acc : Array (Ev α) × Option String),
    ∃ L, metaOf (bs.foldl (fun acc b => runBlock (α := α) cs ext false b acc.1 acc.2) acc).1 = metaOf acc.1 ++ L ∧
      ∀ ev ∈ L, CfgEv cs ext ev := by
  intro bs
  induction bs with
  | nil => intro _ acc; exact ⟨[], by simp, by simp⟩
  | cons b bs ih =>
    intro hne acc
    simp only [List.foldl_cons]
    obtain ⟨L1, e1, h1⟩ := mfront_runBlock cs ext b acc.1 acc.2 (hne b (List.mem_cons_self ..))
    obtain ⟨L2, e2, h2⟩ := ih (fun b' hb' => hne b' (List.mem_cons_of_mem _ hb')) (runBlock (α := α) cs ext false b acc.1 acc.2)
    refine ⟨L1 ++ L2, by rw [e2, e1, List.append_assoc], ?_⟩
    intro ev hev
    rcases List.mem_append.1 hev with hev | hev
    · exact h1 ev hev
    · exact h2 ev hev

/-- with front matter, the metadata-carrying events of the full pull parser are the front-matter
    event followed by `[config]` entries only (and those only under MODES) -/
theorem mfront_pullEvents (cs : CharSpec) (ext : Ext) (input : List Char) (fm : FrontMatter)
    (h : parseFrontmatter cs input = some fm) :
    ∃ L, metaOf (pullEvents (α := α) cs ext input).1 =
        .frontMatter (Text.fromStr fm.yamlText fm.yamlOffset) :: L ∧ ∀ ev ∈ L, CfgEv cs ext ev := by
  unfold pullEvents
  simp only [h]
  obtain ⟨L, e, hL⟩ := mfront_fold (α := α) cs ext
    (allBlocks ((lexFrom cs fm.cookOffset fm.cookText).length + 1) (lexFrom cs fm.cookOffset fm.cookText))
    (fun b hb => (blocks_all_infix _ _ b hb).1)
    (#[.frontMatter (Text.fromStr fm.yamlText fm.yamlOffset)], none)
  refine ⟨L, ?_, hL⟩
  rw [e]
  rfl

/-- with front matter the metadata-only pull parser emits the front-matter event alone -/
theorem mfront_pullMetaEvents (cs : CharSpec) (ext : Ext) (input : List Char) (fm : FrontMatter)
    (h : parseFrontmatter cs input = some fm) :
    (pullMetaEvents (α := α) cs ext input).1.toList = [.frontMatter (Text.fromStr fm.yamlText fm.yamlOffset)] := by
  unfold pullMetaEvents
  simp only [h]

/-! ### the trimmed form of a `[config]` key -/

theorem mfront_collapse_getLast (c : Char) (hc : c ≠ ' ') : ∀ (s : List Char) (p : Char),
    s.getLast? = some c → (collapseSpaces p s).getLast? = some c := by
  intro s
  induction s with
  | nil => intro p h; simp at h
  | cons a t ih =>
    intro p h
    cases t with
    | nil =>
      simp only [List.getLast?_singleton, Option.some.injEq] at h
      subst h
      simp [collapseSpaces, hc]
    | cons b t =>
      rw [List.getLast?_cons_cons] at h
      have h2 := ih a h
      unfold collapseSpaces
      split
      · cases hx : collapseSpaces a (b :: t) with
        | nil => rw [hx] at h2; simp at h2
        | cons x xs => rw [List.getLast?_cons_cons, ← hx]; exact h2
      · exact h2

theorem mfront_collapse_head (c : Char) (hc : c ≠ ' ') (s : List Char) (p : Char)
    (h : s.head? = some c) : (collapseSpaces p s).head? = some c := by
  cases s with
  | nil => simp at h
  | cons a t =>
    simp only [List.head?_cons, Option.some.injEq] at h
    subst h
    simp [collapseSpaces, hc]

theorem mfront_len2 {β : Type} (l : List β) (a b : β) (h1 : l.head? = some a) (h2 : l.getLast? = some b)
    (hab : a ≠ b) : l.length ≥ 2 := by
  match l, h1, h2 with
  | [x], h1, h2 =>
    simp at h1 h2
    exact absurd (h1.symm.trans h2) hab
  | _ :: _ :: _, _, _ => simp

/-- a key that `parse_block` takes for a `[config]` key is one for the analysis as well
    (`text_trimmed` keeps the first and the last character of `text_outer_trimmed`) -/
theorem mfront_cfg_trimmed (cs : CharSpec) (k : Text) (h : isConfigKey cs k = true) :
    (k.trimmed cs).head? = some '[' ∧ (k.trimmed cs).getLast? = some ']' ∧ (k.trimmed cs).length ≥ 2 := by
  unfold isConfigKey at h
  simp only [Bool.and_eq_true, beq_iff_eq] at h
  have hh : (k.trimmed cs).head? = some '[' := by
    unfold Text.trimmed
    dsimp only
    split
    · exact mfront_collapse_head '[' (by decide) _ _ h.1
    · exact h.1
  have hl : (k.trimmed cs).getLast? = some ']' := by
    unfold Text.trimmed
    dsimp only
    split
    · exact mfront_collapse_getLast ']' (by decide) _ _ h.2
    · exact h.2
  exact ⟨hh, hl, mfront_len2 _ _ _ hh hl (by decide)⟩

/-! ### analysis level -/

/-- after front matter (`oldStyle = false`) a `[config]` entry under MODES leaves the metadata part
    of the collector alone: it sets a mode, or reports a bad value / an unknown key, and the
    unknown key is not inserted in the map -/
theorem pf_metadataA_cfg (m : MS) (hm : m.oldStyle = false) (env : Env) (k v : Text)
    (hk : isConfigKey env.cs k = true) (hx : env.ext.has Gen.EXT_MODES = true) :
    PF (α := α) m (metadataA env k v) := by
  obtain ⟨h1, h2, h3⟩ := mfront_cfg_trimmed env.cs k hk
  unfold metadataA
  dsimp only
  apply PF.get_bind
  intro s0 hs0
  have ho : s0.oldStyle = false := (congrArg MS.oldStyle hs0).trans hm
  simp only [hx, h1, h2, h3, ho, beq_self_eq_true, Bool.and_self, decide_true, if_true]
  pf
  all_goals (rename_i hft; exact absurd hft Bool.false_ne_true)

/-- `final_keys` without the side condition: only the metadata-carrying events (`Metadata`, front
    matter) matter for the metadata part of the final collector state -/
theorem final_keys_all (env : Env) (input : Str) : ∀ (l : List (Ev α)) (s s' : Col α), s.ms = s'.ms →
    (finalOf env input l s).ms = (finalOf env input (l.filter Ev.isKey) s').ms := by
  intro l
  induction l with
  | nil => intro s s' h; exact h
  | cons ev rest ih =>
    intro s s' h
    simp only [finalOf, List.foldl_cons, List.filter_cons]
    cases hkey : ev.isKey with
    | true =>
      simp only [if_true, List.foldl_cons]
      apply ih
      cases ev with
      | metadata k v => exact ((sm_metadataA env k v).run s s' h).2
      | frontMatter t =>
        obtain ⟨h1, h2, h3, h4, h5, h6⟩ := ms_eq h
        show Col.ms { s with oldStyle := false, frontMatter := some t } =
          Col.ms { s' with oldStyle := false, frontMatter := some t }
        simp only [Col.ms, h1, h3, h4, h6]
      | _ => simp [Ev.isKey] at hkey
    | false =>
      simp only [Bool.false_eq_true, if_false]
      apply ih
      exact ((pf_processEvent s.ms env input ev hkey).run s rfl).trans h

/-- a run of `[config]` entries after front matter does not change the metadata part -/
theorem final_cfg (env : Env) (input : Str) : ∀ (L : List (Ev α)) (s : Col α), s.oldStyle = false →
    (∀ ev ∈ L, CfgEv env.cs env.ext ev) → (finalOf env input L s).ms = s.ms := by
  intro L
  induction L with
  | nil => intro s _ _; rfl
  | cons ev rest ih =>
    intro s ho hL
    obtain ⟨k, v, rfl, hk, hx⟩ := hL _ (List.mem_cons_self ..)
    simp only [finalOf, List.foldl_cons]
    have hp : ((processEvent env input (.metadata k v) s).2).ms = s.ms :=
      (pf_metadataA_cfg (α := α) s.ms ho env k v hk hx).run s rfl
    have := ih (processEvent env input (.metadata k v) s).2
      ((congrArg MS.oldStyle hp).trans ho) (fun e he => hL e (List.mem_cons_of_mem _ he))
    exact this.trans hp

/-- the metadata part of a collector that has only seen the front-matter event -/
def frontMS (t : Text) : MS := ⟨[], some t, [], none, false, []⟩

/-- WITH front matter: whenever the full analysis has output, its metadata part is the one left by
    the front-matter event alone: no `>>` line contributes to the map, the std-key locations, the
    servings or the old-style spans -/
theorem analysis_front_full (env : Env) (input : Str) (fm : FrontMatter)
    (h : parseFrontmatter env.cs input = some fm) (r1 : Col α)
    (h1 : (parseRecipe (α := α) env input).output = some r1) :
    r1.ms = frontMS (Text.fromStr fm.yamlText fm.yamlOffset) := by
  unfold parseRecipe at h1
  simp only at h1
  unfold parseEvents at h1
  obtain ⟨_, e1⟩ := loop_output env input _ _ r1 h1
  obtain ⟨L, eL, hL⟩ := mfront_pullEvents (α := α) env.cs env.ext input fm h
  unfold metaOf at eL
  rw [e1, final_keys_all env input _ _ _ rfl, eL]
  simp only [finalOf, List.foldl_cons]
  exact final_cfg env input L _ rfl hL

/-- WITH front matter the metadata-only analysis always has output, and its metadata part is the
    one left by the front-matter event -/
theorem analysis_front_meta (env : Env) (input : Str) (fm : FrontMatter)
    (h : parseFrontmatter env.cs input = some fm) :
    ∃ r2 : Col α, (parseMetadata (α := α) env input).output = some r2 ∧
      r2.ms = frontMS (Text.fromStr fm.yamlText fm.yamlOffset) := by
  unfold parseMetadata
  simp only [mfront_pullMetaEvents env.cs env.ext input fm h]
  exact ⟨_, rfl, rfl⟩

/-- `C14_agree`, all inputs: whenever both analyses have output, their metadata parts are equal -/
theorem analysis_agree_all (env : Env) (input : Str) (r1 r2 : Col α)
    (h1 : (parseRecipe (α := α) env input).output = some r1)
    (h2 : (parseMetadata (α := α) env input).output = some r2) : r1.ms = r2.ms := by
  cases h : parseFrontmatter env.cs input with
  | none => exact analysis_agree env input h r1 r2 h1 h2
  | some fm =>
    obtain ⟨r2', e2, m2⟩ := analysis_front_meta (α := α) env input fm h
    rw [e2] at h2
    cases h2
    rw [analysis_front_full env input fm h r1 h1, m2]

end Cook
