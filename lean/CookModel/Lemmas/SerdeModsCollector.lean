import CookModel.Lemmas.CollectorTrans
import CookModel.Lemmas.SerdeModsStream
/-
  C15 — `RecipeModsKnown` for parsed recipes, analysis side: an invariant of the collector fold.  Every
  ingredient / cookware item stored in the tables has modifier bits among the five declared flags
  (`ColModsOK`).  `ingredientA` / `cookwareA` start from the event's modifiers (`EvModsOK`, Lemmas/SerdeModsStream.lean),
  `resolve_reference` joins them with inherited flags and REF (`audit_resolveReference_bits`), the back-link update
  (`set_referenced_from`) rewrites the relation of an existing entry only; nothing else touches the two tables.
-/
set_option linter.unusedSectionVars false
set_option linter.unusedVariables false
set_option linter.unusedSimpArgs false
namespace Cook
variable {α : Type} [Arith α]

/-- every stored ingredient / cookware item carries declared modifier flags only -/
def ColModsOK (s : Col α) : Prop :=
  (∀ i ∈ s.ingredients.toList, i.modifiers.bits < 32) ∧ (∀ c ∈ s.cookware.toList, c.modifiers.bits < 32)

theorem ColModsOK.init : ColModsOK (α := α) {} :=
  ⟨fun i hi => (by simp at hi), fun c hc => (by simp at hc)⟩

theorem ColModsOK.of_tabs {s s' : Col α} (h : ColModsOK s) (hi : s'.ingredients = s.ingredients)
    (hc : s'.cookware = s.cookware) : ColModsOK s' := by
  unfold ColModsOK; rw [hi, hc]; exact h

theorem ColModsOK.of_coreEq {s s' : Col α} (h : ColModsOK s) (he : CoreEq s s') : ColModsOK s' :=
  h.of_tabs he.2.2.1 he.2.2.2.1

/-- `m` keeps `ColModsOK` and returns a result satisfying `R` -/
structure MKeeps {β : Type} (m : A α β) (R : β → Prop) : Prop where
  run : ∀ s : Col α, ColModsOK s → ColModsOK (m s).2 ∧ R (m s).1

namespace MKeeps
variable {β γ : Type}

theorem pure {a : β} {R : β → Prop} (h : R a) : MKeeps (Pure.pure a : A α β) R := ⟨fun s hs => ⟨hs, h⟩⟩

theorem bind {m : A α β} {k : β → A α γ} {R : β → Prop} {R' : γ → Prop}
    (hm : MKeeps m R) (hk : ∀ a, R a → MKeeps (k a) R') : MKeeps (m >>= k) R' :=
  ⟨fun s hs => (hk _ (hm.run s hs).2).run _ (hm.run s hs).1⟩

theorem mono {m : A α β} {R R' : β → Prop} (h : MKeeps m R) (hr : ∀ a, R a → R' a) : MKeeps m R' :=
  ⟨fun s hs => ⟨(h.run s hs).1, hr _ (h.run s hs).2⟩⟩

theorem get_bind {k : Col α → A α γ} {R' : γ → Prop} (h : ∀ s0 : Col α, ColModsOK s0 → MKeeps (k s0) R') :
    MKeeps (get >>= k) R' := ⟨fun s hs => (h s hs).run s hs⟩

theorem modifyOK (f : Col α → Col α) (h : ∀ s, ColModsOK s → ColModsOK (f s)) :
    MKeeps (modify f : A α PUnit) (fun _ => True) := ⟨fun s hs => ⟨h s hs, trivial⟩⟩

theorem modify (f : Col α → Col α) (h : ∀ s, (f s).ingredients = s.ingredients ∧ (f s).cookware = s.cookware) :
    MKeeps (modify f : A α PUnit) (fun _ => True) := modifyOK f (fun s hs => hs.of_tabs (h s).1 (h s).2)

theorem set {s1 : Col α} (h : ColModsOK s1) : MKeeps (set s1 : A α PUnit) (fun _ => True) :=
  ⟨fun s hs => ⟨h, trivial⟩⟩

theorem of_coreOnly {m : A α β} (h : CoreOnly m) : MKeeps m (fun _ => True) :=
  ⟨fun s hs => ⟨hs.of_coreEq (h.out s), trivial⟩⟩

theorem of_diagOnly {m : A α β} (h : DiagOnly m) : MKeeps m (fun _ => True) := of_coreOnly h.coreOnly

theorem of_diagOnly_val {m : A α β} {R : β → Prop} (h : DiagOnly m) (hv : ∀ s, R (m s).1) : MKeeps m R :=
  ⟨fun s hs => ⟨((of_diagOnly h).run s hs).1, hv s⟩⟩

end MKeeps

syntax "mkeeps_leaf" : tactic
macro_rules | `(tactic| mkeeps_leaf) => `(tactic| first
  | ((with_reducible refine MKeeps.pure (R := fun _ => True) ?_) <;> exact True.intro)
  | ((with_reducible refine MKeeps.pure ?_) <;> exact True.intro)
  | with_reducible exact MKeeps.modify _ (fun _ => ⟨rfl, rfl⟩)
  | with_reducible exact MKeeps.of_diagOnly (DiagOnly.apanic _)
  | with_reducible exact MKeeps.of_diagOnly (DiagOnly.aerr _ _)
  | with_reducible exact MKeeps.of_diagOnly (DiagOnly.awarn _ _)
  | ((with_reducible refine MKeeps.set ?_) <;> (refine ColModsOK.of_tabs ?_ rfl rfl; assumption))
  | with_reducible assumption)

/-- decomposes an `MKeeps` goal along the structure of the `do` block; goals it cannot close are left -/
macro "mkeeps" : tactic => `(tactic|
  repeat' (first
    | intro _
    | mkeeps_leaf
    | with_reducible apply MKeeps.get_bind
    | with_reducible apply MKeeps.bind
    | dsimp only
    | split))

/-! ### the two tables under the back-link update -/

theorem mods_mem_setIfInBounds {β : Type} (xs : Array β) (t : Nat) (v x : β)
    (h : x ∈ (xs.setIfInBounds t v).toList) : x ∈ xs.toList ∨ x = v := by
  rw [Array.toList_setIfInBounds] at h
  exact List.mem_or_eq_of_mem_set h

theorem mods_ingrSetReferencedFrom (refTo newIndex : Nat) (defn : Ingredient (ScalableValue α))
    (hd : defn.modifiers.bits < 32) : MKeeps (ingrSetReferencedFrom (α := α) refTo newIndex defn) (fun _ => True) := by
  unfold ingrSetReferencedFrom
  split
  · refine MKeeps.modifyOK _ (fun s hs => ⟨?_, hs.2⟩)
    intro i hi
    rcases mods_mem_setIfInBounds _ _ _ _ hi with h | h
    · exact hs.1 i h
    · rw [h]; exact hd
  · exact MKeeps.of_diagOnly (DiagOnly.apanic _)

theorem mods_cwSetReferencedFrom (refTo newIndex : Nat) (defn : Cookware (ScalableValue α))
    (hd : defn.modifiers.bits < 32) : MKeeps (cwSetReferencedFrom (α := α) refTo newIndex defn) (fun _ => True) := by
  unfold cwSetReferencedFrom
  split
  · refine MKeeps.modifyOK _ (fun s hs => ⟨hs.1, ?_⟩)
    intro i hi
    rcases mods_mem_setIfInBounds _ _ _ _ hi with h | h
    · exact hs.2 i h
    · rw [h]; exact hd
  · exact MKeeps.of_diagOnly (DiagOnly.apanic _)

/-! ### ingredients -/

theorem mods_resolveReference (env : Env) (container : String) (inherit : Nat)
    (existing : List (Str × Modifiers)) (name : Str) (mods : Modifiers) (location modLoc : Span)
    (hm : mods.bits < 32) (hi : inherit < 32) :
    MKeeps (resolveReference (α := α) env container inherit existing name mods location modLoc)
      (fun r => r.1.bits < 32) :=
  MKeeps.of_diagOnly_val (resolveReference_diagOnly ..)
    (fun s => audit_resolveReference_bits env container inherit existing name mods location modLoc s hm hi)

theorem mods_ingrRegular (env : Env) (input : Str) (li : Loc (PIngredient α)) (igr0 : Ingredient (ScalableValue α))
    (h0 : igr0.modifiers.bits < 32) :
    MKeeps (ingrRegular env input li igr0) (fun r => r.modifiers.bits < 32) := by
  unfold ingrRegular
  apply MKeeps.get_bind
  intro s hs
  dsimp only
  refine MKeeps.bind (mods_resolveReference env _ _ _ _ _ _ _ h0 (by decide)) (fun r hr => ?_)
  split
  · exact MKeeps.pure hr
  · apply MKeeps.get_bind
    intro s' hs'
    split
    · rename_i defn defLoc hdefn _
      refine MKeeps.bind (MKeeps.of_diagOnly (ingrRefChecks_diagOnly ..)) (fun _ _ => ?_)
      refine MKeeps.bind (R := fun _ => True) ?_ (fun _ _ => MKeeps.pure hr)
      exact mods_ingrSetReferencedFrom _ _ _ (hs'.1 defn (getElem?_mem' _ _ _ (by simpa using hdefn)))
    · exact MKeeps.bind (MKeeps.of_diagOnly (DiagOnly.apanic _)) (fun _ _ => MKeeps.pure hr)

theorem mods_ingrInter (i : PIngredient α) (igr : Ingredient (ScalableValue α)) (d : Loc InterData)
    (h0 : igr.modifiers.bits < 32) : MKeeps (ingrInter i igr d) (fun r => r.modifiers.bits < 32) := by
  refine MKeeps.of_diagOnly_val (ingrInter_diagOnly i igr d) (fun s => ?_)
  rcases ingrInter_val i igr d s with h | ⟨rel, _, h⟩ <;> rw [h] <;> exact h0

theorem mods_ingrBuild (env : Env) (input : Str) (li : Loc (PIngredient α)) (igr0 : Ingredient (ScalableValue α))
    (h0 : igr0.modifiers.bits < 32) : MKeeps (ingrBuild env input li igr0) (fun _ => True) := by
  unfold ingrBuild
  apply MKeeps.bind (R := fun r => r.modifiers.bits < 32)
  · split
    · exact mods_ingrInter _ _ _ h0
    · exact mods_ingrRegular env input li igr0 h0
  · intro igr higr
    refine MKeeps.bind (R := fun _ => True) ?_ (fun _ _ => ?_)
    · refine MKeeps.modifyOK _ (fun s hs => ⟨?_, hs.2⟩)
      intro i hi
      simp only [Array.toList_push, List.mem_append, List.mem_singleton] at hi
      rcases hi with hi | rfl
      · exact hs.1 i hi
      · exact higr
    · mkeeps

theorem mods_ingredientA (env : Env) (input : Str) (li : Loc (PIngredient α))
    (h0 : li.val.modifiers.val.bits < 32) : MKeeps (ingredientA env input li) (fun _ => True) := by
  unfold ingredientA
  dsimp only
  refine MKeeps.bind (MKeeps.of_diagOnly (optQuantityOf_diagOnly ..)) (fun q _ => ?_)
  apply MKeeps.get_bind
  intro s0 _
  exact mods_ingrBuild env input li _ h0

/-! ### cookware -/

theorem mods_cwResolve (env : Env) (input : Str) (lc : Loc (PCookware α)) (cw0 : Cookware (ScalableValue α))
    (h0 : cw0.modifiers.bits < 32) :
    MKeeps (cwResolve env input lc cw0) (fun r => r.modifiers.bits < 32) := by
  unfold cwResolve
  apply MKeeps.get_bind
  intro s hs
  dsimp only
  refine MKeeps.bind (mods_resolveReference env _ _ _ _ _ _ _ h0 (by decide)) (fun r hr => ?_)
  split
  · exact MKeeps.pure hr
  · apply MKeeps.get_bind
    intro s' hs'
    split
    · rename_i defn defLoc hdefn _
      refine MKeeps.bind (MKeeps.of_diagOnly (cwRefChecks_diagOnly ..)) (fun _ _ => ?_)
      refine MKeeps.bind (R := fun _ => True) ?_ (fun _ _ => MKeeps.pure hr)
      exact mods_cwSetReferencedFrom _ _ _ (hs'.2 defn (getElem?_mem' _ _ _ (by simpa using hdefn)))
    · exact MKeeps.bind (MKeeps.of_diagOnly (DiagOnly.apanic _)) (fun _ _ => MKeeps.pure hr)

theorem mods_cwBuild (env : Env) (input : Str) (lc : Loc (PCookware α)) (cw0 : Cookware (ScalableValue α))
    (h0 : cw0.modifiers.bits < 32) : MKeeps (cwBuild env input lc cw0) (fun _ => True) := by
  unfold cwBuild
  refine MKeeps.bind (mods_cwResolve env input lc cw0 h0) (fun cw hcw => ?_)
  refine MKeeps.bind (R := fun _ => True) ?_ (fun _ _ => ?_)
  · refine MKeeps.modifyOK _ (fun s hs => ⟨hs.1, ?_⟩)
    intro i hi
    simp only [Array.toList_push, List.mem_append, List.mem_singleton] at hi
    rcases hi with hi | rfl
    · exact hs.2 i hi
    · exact hcw
  · mkeeps

theorem mods_cookwareA (env : Env) (input : Str) (lc : Loc (PCookware α))
    (h0 : lc.val.modifiers.val.bits < 32) : MKeeps (cookwareA env input lc) (fun _ => True) := by
  unfold cookwareA
  dsimp only
  refine MKeeps.bind (MKeeps.of_diagOnly (optValueOf_diagOnly ..)) (fun q _ => ?_)
  apply MKeeps.get_bind
  intro s0 _
  exact mods_cwBuild env input lc _ h0

/-! ### the other pieces of `processEvent`: the two tables are not touched -/

theorem mods_timerA (env : Env) (lt : Loc (PTimer α)) : MKeeps (timerA env lt) (fun _ => True) := by
  unfold timerA
  dsimp only
  refine MKeeps.bind (MKeeps.of_diagOnly (timerQuantity_diagOnly ..)) (fun q _ => ?_)
  mkeeps

theorem mods_pushItem (it : Item) : MKeeps (pushItem (α := α) it) (fun _ => True) := by
  unfold pushItem
  mkeeps

theorem mods_inStepComponent (env : Env) (input : Str) (ev : Ev α) (hev : EvModsOK ev) :
    MKeeps (inStepComponent env input ev) (fun _ => True) := by
  have hp : MKeeps (apanic (α := α) "Unexpected event in step") (fun _ => True) :=
    MKeeps.of_diagOnly (DiagOnly.apanic _)
  cases ev with
  | ingredient li => exact MKeeps.bind (mods_ingredientA env input li hev) (fun _ _ => mods_pushItem _)
  | cookware lc => exact MKeeps.bind (mods_cookwareA env input lc hev) (fun _ _ => mods_pushItem _)
  | timer lt => exact MKeeps.bind (mods_timerA env lt) (fun _ _ => mods_pushItem _)
  | frontMatter _ => exact hp
  | metadata _ _ => exact hp
  | «section» _ => exact hp
  | start _ => exact hp
  | stop _ => exact hp
  | text _ => exact hp
  | error _ => exact hp
  | warning _ => exact hp

theorem mods_inBlockComponent (env : Env) (input : Str) (ev : Ev α) (hev : EvModsOK ev) :
    MKeeps (inBlockComponent env input ev) (fun _ => True) := by
  unfold inBlockComponent
  apply MKeeps.get_bind
  intro s hs
  split
  · exact mods_inStepComponent env input ev hev
  · exact MKeeps.of_coreOnly (inTextComponent_coreOnly ..)
  · exact MKeeps.of_diagOnly (DiagOnly.apanic _)

theorem mods_inStepText (env : Env) (t : Text) : MKeeps (inStepText (α := α) env t) (fun _ => True) := by
  unfold inStepText
  apply MKeeps.get_bind
  intro s hs
  split
  · unfold inStepTextStep
    mkeeps
  · mkeeps
  · mkeeps

theorem mods_endBlock (kind : BlockKind) : MKeeps (endBlock (α := α) kind) (fun _ => True) := by
  unfold endBlock
  refine MKeeps.bind (MKeeps.of_diagOnly (endBlockContent_diagOnly kind)) (fun c _ => ?_)
  dsimp only
  split
  · refine MKeeps.bind (R := fun _ => True) ?_ (fun _ _ => by mkeeps)
    unfold pushContent
    mkeeps
  · mkeeps

/-- **one event keeps the invariant**, provided its own modifiers are declared flags -/
theorem mods_processEvent (env : Env) (input : Str) (ev : Ev α) (hev : EvModsOK ev) :
    MKeeps (processEvent env input ev) (fun _ => True) := by
  cases ev with
  | frontMatter t => simp only [processEvent]; mkeeps
  | metadata k v => simp only [processEvent]; exact MKeeps.of_coreOnly (metadataA_coreOnly env k v)
  | «section» name => simp only [processEvent]; mkeeps
  | start kind => simp only [processEvent]; mkeeps
  | stop kind => simp only [processEvent]; exact mods_endBlock kind
  | text t => simp only [processEvent]; exact mods_inStepText env t
  | ingredient i => simp only [processEvent]; exact mods_inBlockComponent env input _ hev
  | cookware c => simp only [processEvent]; exact mods_inBlockComponent env input _ hev
  | timer t => simp only [processEvent]; exact mods_inBlockComponent env input _ hev
  | error d => simp only [processEvent]; mkeeps
  | warning d => simp only [processEvent]; mkeeps

/-! ### the fold -/

theorem mods_parseEventsLoop (env : Env) (input : Str) (evs : List (Ev α)) (s c : Col α) (hs : ColModsOK s)
    (hev : ∀ ev ∈ evs, EvModsOK ev) (hc : (parseEventsLoop env input evs s).output = some c) : ColModsOK c := by
  induction evs generalizing s with
  | nil =>
    simp only [parseEventsLoop, Option.some.injEq] at hc
    subst hc
    split <;> split <;> exact hs.of_tabs rfl rfl
  | cons ev rest ih =>
    by_cases he : ∃ d0, ev = .error d0
    · obtain ⟨d0, rfl⟩ := he
      simp only [parseEventsLoop] at hc
      cases hc
    · rw [parseEventsLoop_cons_nonerror env input ev rest s he] at hc
      exact ih _ ((mods_processEvent env input ev (hev ev List.mem_cons_self)).run s hs).1
        (fun e he' => hev e (List.mem_cons_of_mem _ he')) hc

/-- **the collector `parse` returns stores declared modifier flags only** -/
theorem parseRecipe_modsOK (env : Env) (input : Str) (c : Col α)
    (h : (parseRecipe (α := α) env input).output = some c) : ColModsOK c := by
  unfold parseRecipe parseEvents at h
  exact mods_parseEventsLoop env input _ {} c ColModsOK.init (pullEvents_modsOK env.cs env.ext input) h

/-- the same for the metadata-only entry point (its stream has no components at all) -/
theorem parseMetadata_modsOK (env : Env) (input : Str) (c : Col α)
    (h : (parseMetadata (α := α) env input).output = some c) : ColModsOK c := by
  unfold parseMetadata parseEvents at h
  refine mods_parseEventsLoop env input _ {} c ColModsOK.init (fun ev hev => ?_) h
  have := pullMetaEvents_meta env.cs env.ext input ev hev
  cases ev <;> first | trivial | cases this

end Cook
