import CookModel.Lemmas.CollectorFrame
/-
  The invariant of the analysis fold (C06): specifications of the pieces of `ingredientA`,
  `cookwareA`, `timerA`, and preservation of the invariant by every event.
-/
namespace Cook
variable {α : Type} [Arith α]
set_option linter.unusedSectionVars false

theorem Modifiers.contains_or_REF (a : Nat) : (Modifiers.mk (a ||| Modifiers.REF)).contains Modifiers.REF = true := by
  simp only [Modifiers.contains, beq_iff_eq]
  apply Nat.eq_of_testBit_eq
  intro i
  simp only [Nat.testBit_and, Nat.testBit_or]
  cases a.testBit i <;> cases Modifiers.REF.testBit i <;> rfl

theorem sameNameIdx_spec (env : Env) (existing : List (Str × Modifiers)) (name : Str) (t : Nat)
    (h : sameNameIdx env existing name = some t) :
    ∃ n m, existing[t]? = some (n, m) ∧ m.contains Modifiers.REF = false ∧ nameEq env name n = true := by
  unfold sameNameIdx at h
  have hm := List.mem_of_getLast? h
  simp only [List.mem_filter, List.mem_range] at hm
  obtain ⟨_, hp⟩ := hm
  split at hp
  · rename_i n m he
    simp only [Bool.and_eq_true, Bool.not_eq_true'] at hp
    exact ⟨n, m, he, hp.1, hp.2⟩
  · cases hp

/-- when `resolve_reference` yields a target it is the last non-REF component of the same name, and the
    returned modifiers carry REF -/
theorem resolveReference_out (env : Env) (container : String) (inherit : Nat)
    (existing : List (Str × Modifiers)) (name : Str) (mods : Modifiers) (location modLoc : Span) (s : Col α)
    (o : RefOutcome)
    (h : (resolveReference env container inherit existing name mods location modLoc s).1.2 = some o) :
    sameNameIdx env existing name = some o.refTo ∧
      (resolveReference env container inherit existing name mods location modLoc s).1.1.contains Modifiers.REF = true := by
  generalize hr : resolveReference env container inherit existing name mods location modLoc s = r at h ⊢
  unfold resolveReference at hr
  simp +instances only [A_bind, A_pure, A_get, A_ite, aerr, awarn, A_modify] at hr
  generalize sameNameIdx env existing name = sn at hr ⊢
  repeat' split at hr
  all_goals subst hr
  all_goals try (simp at h; done)
  all_goals simp only [A_bind, A_pure, A_modify, Option.some.injEq] at h ⊢
  all_goals first | (cases h; done) | (subst h; exact ⟨rfl, Modifiers.contains_or_REF _⟩)

theorem resolveInterRef_val (d : Loc InterData) (s : Col α) (rel : IngredientRelation)
    (h : (resolveInterRef d s).1 = some rel) :
    interRefTarget s.cur.content s.sections.length d.val = .ok rel := by
  unfold resolveInterRef at h
  cases hx : interRefTarget s.cur.content s.sections.length d.val with
  | ok rel' =>
    simp +instances only [hx, A_bind, A_ite, A_pure, A_get] at h
    split at h <;> simp only [Option.some.injEq] at h <;> rw [h]
  | error k =>
    simp +instances only [hx, A_bind, A_ite, A_pure, A_get] at h
    split at h <;> simp only [reduceCtorEq] at h

theorem ingrUnitChecks_diagOnly (env : Env) (i : PIngredient α) (newQ : Quantity (ScalableValue α)) (idxs : List Nat) :
    DiagOnly (ingrUnitChecks env i newQ idxs) := by
  unfold ingrUnitChecks
  diag_only

macro_rules | `(tactic| diag_leaf) => `(tactic| exact ingrUnitChecks_diagOnly ..)

theorem ingrRefChecks_diagOnly (env : Env) (input : Str) (li : Loc (PIngredient α)) (igr : Ingredient (ScalableValue α))
    (refTo : Nat) (defn : Ingredient (ScalableValue α)) (defLoc : Loc (PIngredient α)) :
    DiagOnly (ingrRefChecks env input li igr refTo defn defLoc) := by
  unfold ingrRefChecks
  diag_only

macro_rules | `(tactic| diag_leaf) => `(tactic| exact ingrRefChecks_diagOnly ..)

theorem cwRefChecks_diagOnly (input : Str) (lc : Loc (PCookware α)) (cw : Cookware (ScalableValue α))
    (defn : Cookware (ScalableValue α)) (defLoc : Loc (PCookware α)) :
    DiagOnly (cwRefChecks input lc cw defn defLoc) := by
  unfold cwRefChecks
  diag_only

macro_rules | `(tactic| diag_leaf) => `(tactic| exact cwRefChecks_diagOnly ..)

theorem ingrInterChecks_diagOnly (i : PIngredient α) (igr : Ingredient (ScalableValue α)) :
    DiagOnly (ingrInterChecks i igr) := by
  unfold ingrInterChecks
  diag_only
macro_rules | `(tactic| diag_leaf) => `(tactic| exact ingrInterChecks_diagOnly ..)

theorem ingrInter_diagOnly (i : PIngredient α) (igr : Ingredient (ScalableValue α)) (d : Loc InterData) :
    DiagOnly (ingrInter i igr d) := by
  unfold ingrInter
  diag_only
macro_rules | `(tactic| diag_leaf) => `(tactic| exact ingrInter_diagOnly ..)

/-- the ingredient built by the intermediate-reference branch: unchanged, or with the resolved target -/
theorem ingrInter_val (i : PIngredient α) (igr : Ingredient (ScalableValue α)) (d : Loc InterData) (s : Col α) :
    (ingrInter i igr d s).1 = igr ∨
    ∃ rel, interRefTarget s.cur.content s.sections.length d.val = .ok rel ∧
      (ingrInter i igr d s).1 = { igr with relation := rel } := by
  unfold ingrInter
  simp only [A_bind]
  obtain ⟨dg, p, hp⟩ := (ingrInterChecks_diagOnly i igr).out s
  cases hr : (resolveInterRef d (ingrInterChecks i igr s).2).1 with
  | none => left; rfl
  | some rel =>
    right
    have := resolveInterRef_val d _ rel hr
    rw [hp] at this
    exact ⟨rel, this, rfl⟩

/-- what the regular branch of `ingredient` does to the table and which ingredient it builds -/
theorem ingrRegular_spec (env : Env) (input : Str) (li : Loc (PIngredient α)) (igr0 : Ingredient (ScalableValue α))
    (s : Col α) (hloc : s.locIngr.size = s.ingredients.size)
    (hdef : ∀ (k : Nat) (ig : Ingredient (ScalableValue α)), s.ingredients[k]? = some ig →
      ig.modifiers.contains Modifiers.REF = false → ∃ rf b, ig.relation.relation = .definition rf b) :
    ∃ dg p ings, (ingrRegular env input li igr0 s).2 = { s with diags := dg, panic := p, ingredients := ings } ∧
      (ingrRegular env input li igr0 s).1.name = igr0.name ∧
      ((ings = s.ingredients ∧ (ingrRegular env input li igr0 s).1.relation = igr0.relation) ∨
       (∃ t defn rf b, s.ingredients[t]? = some defn ∧ defn.relation.relation = .definition rf b ∧
          defn.modifiers.contains Modifiers.REF = false ∧ nameEq env igr0.name defn.name = true ∧
          (ingrRegular env input li igr0 s).1.relation = ⟨.reference t, some .ingredient⟩ ∧
          (ingrRegular env input li igr0 s).1.modifiers.contains Modifiers.REF = true ∧
          ings = s.ingredients.setIfInBounds t
            { defn with relation := ⟨.definition (rf ++ [s.ingredients.size]) b, defn.relation.referenceTarget⟩ })) := by
  unfold ingrRegular
  simp +instances only [A_bind, A_get]
  obtain ⟨d1, p1, h1⟩ := (resolveReference_diagOnly (α := α) env "ingredient"
    (Modifiers.HIDDEN ||| Modifiers.OPT ||| Modifiers.RECIPE) (s.ingredients.toList.map (fun x => (x.name, x.modifiers)))
    igr0.name igr0.modifiers li.span li.val.modifiers.span).out s
  have hout := resolveReference_out (α := α) env "ingredient"
    (Modifiers.HIDDEN ||| Modifiers.OPT ||| Modifiers.RECIPE) (s.ingredients.toList.map (fun x => (x.name, x.modifiers)))
    igr0.name igr0.modifiers li.span li.val.modifiers.span s
  generalize resolveReference (α := α) env "ingredient"
    (Modifiers.HIDDEN ||| Modifiers.OPT ||| Modifiers.RECIPE) (s.ingredients.toList.map (fun x => (x.name, x.modifiers)))
    igr0.name igr0.modifiers li.span li.val.modifiers.span s = rr at h1 hout ⊢
  cases ho : rr.1.2 with
  | none =>
    simp only [A_pure]
    exact ⟨d1, p1, s.ingredients, h1, trivial, Or.inl ⟨rfl, trivial⟩⟩
  | some o =>
    obtain ⟨hsn, hREF⟩ := hout o ho
    obtain ⟨n, m, hex, hmREF, hname⟩ := sameNameIdx_spec _ _ _ _ hsn
    simp only [List.getElem?_map, Array.getElem?_toList, Option.map_eq_some_iff, Prod.mk.injEq] at hex
    obtain ⟨defn, hdefn, rfl, rfl⟩ := hex
    have hlt : o.refTo < s.ingredients.size := by
      rcases Nat.lt_or_ge o.refTo s.ingredients.size with h | h
      · exact h
      · rw [Array.getElem?_eq_none h] at hdefn; cases hdefn
    obtain ⟨defLoc, hdefLoc⟩ : ∃ dl, s.locIngr[o.refTo]? = some dl :=
      ⟨s.locIngr[o.refTo]'(by omega), Array.getElem?_eq_getElem _⟩
    obtain ⟨rf, b, hrel⟩ := hdef _ _ hdefn hmREF
    simp +instances only [A_bind, A_get, A_pure, h1, hdefn, hdefLoc]
    obtain ⟨d2, p2, h2⟩ := (ingrRefChecks_diagOnly env input li
      { igr0 with relation := ⟨.reference o.refTo, some .ingredient⟩, modifiers := rr.1.1 } o.refTo defn defLoc).out
      { s with diags := d1, panic := p1 }
    simp only [h2, ingrSetReferencedFrom, hrel, A_modify]
    exact ⟨d2, p2, _, rfl, trivial, Or.inr ⟨o.refTo, defn, rf, b, hdefn, hrel, hmREF, hname, rfl, hREF, rfl⟩⟩

theorem optQuantityOf_diagOnly (env : Env) (q : Option (Loc (PQuantity α))) (b : Bool) :
    DiagOnly (optQuantityOf env q b) := by
  unfold optQuantityOf
  diag_only
macro_rules | `(tactic| diag_leaf) => `(tactic| exact optQuantityOf_diagOnly ..)

theorem optValueOf_diagOnly (env : Env) (q : Option (Loc (PQValue α))) : DiagOnly (optValueOf env q) := by
  unfold optValueOf
  diag_only
macro_rules | `(tactic| diag_leaf) => `(tactic| exact optValueOf_diagOnly ..)

theorem timerQuantityChecks_diagOnly (env : Env) (q : Loc (PQuantity α)) (r : Quantity (ScalableValue α)) :
    DiagOnly (timerQuantityChecks env q r) := by
  unfold timerQuantityChecks
  diag_only
macro_rules | `(tactic| diag_leaf) => `(tactic| exact timerQuantityChecks_diagOnly ..)

theorem timerQuantity_diagOnly (env : Env) (q : Option (Loc (PQuantity α))) : DiagOnly (timerQuantity env q) := by
  unfold timerQuantity
  diag_only
macro_rules | `(tactic| diag_leaf) => `(tactic| exact timerQuantity_diagOnly ..)

theorem timerQuantity_isSome (env : Env) (q : Option (Loc (PQuantity α))) (s : Col α) :
    (timerQuantity env q s).1.isSome = q.isSome := by
  unfold timerQuantity
  cases q with
  | none => rfl
  | some q => rfl

/-- how `ingredientA` extends the ingredient table: `ings` is the old table after the back-link update,
    `igr` the new last entry -/
def IngrStep (env : Env) (s : Col α) (ings : Array (Ingredient (ScalableValue α)))
    (igr : Ingredient (ScalableValue α)) : Prop :=
  (ings = s.ingredients ∧ ∃ b, igr.relation = ⟨.definition [] b, none⟩) ∨
  (ings = s.ingredients ∧ igr.modifiers.contains Modifiers.REF = true ∧
    ∃ rel d, interRefTarget s.cur.content s.sections.length d = .ok rel ∧ igr.relation = rel) ∨
  (∃ t defn rf b, s.ingredients[t]? = some defn ∧ defn.relation.relation = .definition rf b ∧
    defn.modifiers.contains Modifiers.REF = false ∧ nameEq env igr.name defn.name = true ∧
    igr.relation = ⟨.reference t, some .ingredient⟩ ∧ igr.modifiers.contains Modifiers.REF = true ∧
    ings = s.ingredients.setIfInBounds t
      { defn with relation := ⟨.definition (rf ++ [s.ingredients.size]) b, defn.relation.referenceTarget⟩ })

theorem ingrBuild_spec (env : Env) (input : Str) (li : Loc (PIngredient α)) (igr0 : Ingredient (ScalableValue α))
    (s : Col α) (hloc : s.locIngr.size = s.ingredients.size)
    (hdef : ∀ (k : Nat) (ig : Ingredient (ScalableValue α)), s.ingredients[k]? = some ig →
      ig.modifiers.contains Modifiers.REF = false → ∃ rf b, ig.relation.relation = .definition rf b)
    (hev : li.val.inter.isSome = true → igr0.modifiers.contains Modifiers.REF = true)
    (h0 : ∃ b, igr0.relation = ⟨.definition [] b, none⟩) :
    ∃ dg p ings igr, ingrBuild env input li igr0 s =
        (s.ingredients.size, { s with diags := dg, panic := p, ingredients := ings.push igr,
                                      locIngr := s.locIngr.push li }) ∧
      ings.size = s.ingredients.size ∧ IngrStep env s ings igr := by
  unfold ingrBuild
  simp +instances only [A_bind, A_get, A_pure, A_modify]
  cases hi : li.val.inter with
  | some d =>
    simp only []
    obtain ⟨d1, p1, h1⟩ := (ingrInter_diagOnly li.val igr0 d).out s
    refine ⟨d1, p1, s.ingredients, (ingrInter li.val igr0 d s).1, ?_, rfl, ?_⟩
    · rw [h1]; simp only [Array.size_push, Nat.add_sub_cancel]
    · rcases ingrInter_val li.val igr0 d s with hv | ⟨rel, hrel, hv⟩
      · rw [hv]; exact Or.inl ⟨rfl, h0⟩
      · rw [hv]; exact Or.inr (Or.inl ⟨rfl, hev (by rw [hi]; rfl), rel, d.val, hrel, rfl⟩)
  | none =>
    simp only []
    obtain ⟨d1, p1, ings, h1, hname, hcase⟩ := ingrRegular_spec env input li igr0 s hloc hdef
    refine ⟨d1, p1, ings, (ingrRegular env input li igr0 s).1, ?_, ?_, ?_⟩
    · rw [h1]
      rcases hcase with ⟨he, _⟩ | ⟨t, defn, rf, b, _, _, _, _, _, _, he⟩ <;> rw [he] <;>
        simp only [Array.size_push, Array.size_setIfInBounds, Nat.add_sub_cancel]
    · rcases hcase with ⟨he, _⟩ | ⟨t, defn, rf, b, _, _, _, _, _, _, he⟩ <;> rw [he]
      simp only [Array.size_setIfInBounds]
    · rcases hcase with ⟨he, hr⟩ | ⟨t, defn, rf, b, h1, h2, h3, h4, h5, h6, he⟩
      · obtain ⟨b, hb⟩ := h0
        exact Or.inl ⟨he, b, by rw [hr, hb]⟩
      · exact Or.inr (Or.inr ⟨t, defn, rf, b, h1, h2, h3, by rw [hname]; exact h4, h5, h6, he⟩)

theorem ingredientA_spec (env : Env) (input : Str) (li : Loc (PIngredient α)) (s : Col α)
    (hloc : s.locIngr.size = s.ingredients.size)
    (hdef : ∀ (k : Nat) (ig : Ingredient (ScalableValue α)), s.ingredients[k]? = some ig →
      ig.modifiers.contains Modifiers.REF = false → ∃ rf b, ig.relation.relation = .definition rf b)
    (hev : li.val.inter.isSome = true → li.val.modifiers.val.contains Modifiers.REF = true) :
    ∃ dg p ings igr, ingredientA env input li s =
        (s.ingredients.size, { s with diags := dg, panic := p, ingredients := ings.push igr,
                                      locIngr := s.locIngr.push li }) ∧
      ings.size = s.ingredients.size ∧ IngrStep env s ings igr := by
  unfold ingredientA
  simp +instances only [A_bind, A_get]
  obtain ⟨d0, p0, h0⟩ := (optQuantityOf_diagOnly env li.val.quantity true).out s
  generalize optQuantityOf env li.val.quantity true s = qq at h0 ⊢
  rw [h0]
  exact ingrBuild_spec env input li _ { s with diags := d0, panic := p0 } hloc hdef hev ⟨_, rfl⟩

/-- what `cwResolve` does to the cookware table and which item it builds -/
theorem cwResolve_spec (env : Env) (input : Str) (lc : Loc (PCookware α)) (cw0 : Cookware (ScalableValue α))
    (s : Col α) (hloc : s.locCw.size = s.cookware.size)
    (hdef : ∀ (k : Nat) (cw : Cookware (ScalableValue α)), s.cookware[k]? = some cw →
      cw.modifiers.contains Modifiers.REF = false → ∃ rf b, cw.relation = .definition rf b) :
    ∃ dg p cws, (cwResolve env input lc cw0 s).2 = { s with diags := dg, panic := p, cookware := cws } ∧
      (cwResolve env input lc cw0 s).1.name = cw0.name ∧
      ((cws = s.cookware ∧ (cwResolve env input lc cw0 s).1.relation = cw0.relation) ∨
       (∃ t defn rf b, s.cookware[t]? = some defn ∧ defn.relation = .definition rf b ∧
          defn.modifiers.contains Modifiers.REF = false ∧ nameEq env cw0.name defn.name = true ∧
          (cwResolve env input lc cw0 s).1.relation = .reference t ∧
          (cwResolve env input lc cw0 s).1.modifiers.contains Modifiers.REF = true ∧
          cws = s.cookware.setIfInBounds t
            { defn with relation := .definition (rf ++ [s.cookware.size]) b })) := by
  unfold cwResolve
  simp +instances only [A_bind, A_get]
  obtain ⟨d1, p1, h1⟩ := (resolveReference_diagOnly (α := α) env "cookware item"
    (Modifiers.HIDDEN ||| Modifiers.OPT) (s.cookware.toList.map (fun x => (x.name, x.modifiers)))
    cw0.name cw0.modifiers lc.span lc.val.modifiers.span).out s
  have hout := resolveReference_out (α := α) env "cookware item"
    (Modifiers.HIDDEN ||| Modifiers.OPT) (s.cookware.toList.map (fun x => (x.name, x.modifiers)))
    cw0.name cw0.modifiers lc.span lc.val.modifiers.span s
  generalize resolveReference (α := α) env "cookware item"
    (Modifiers.HIDDEN ||| Modifiers.OPT) (s.cookware.toList.map (fun x => (x.name, x.modifiers)))
    cw0.name cw0.modifiers lc.span lc.val.modifiers.span s = rr at h1 hout ⊢
  cases ho : rr.1.2 with
  | none =>
    simp only [A_pure]
    exact ⟨d1, p1, s.cookware, h1, trivial, Or.inl ⟨rfl, trivial⟩⟩
  | some o =>
    obtain ⟨hsn, hREF⟩ := hout o ho
    obtain ⟨n, m, hex, hmREF, hname⟩ := sameNameIdx_spec _ _ _ _ hsn
    simp only [List.getElem?_map, Array.getElem?_toList, Option.map_eq_some_iff, Prod.mk.injEq] at hex
    obtain ⟨defn, hdefn, rfl, rfl⟩ := hex
    have hlt : o.refTo < s.cookware.size := by
      rcases Nat.lt_or_ge o.refTo s.cookware.size with h | h
      · exact h
      · rw [Array.getElem?_eq_none h] at hdefn; cases hdefn
    obtain ⟨defLoc, hdefLoc⟩ : ∃ dl, s.locCw[o.refTo]? = some dl :=
      ⟨s.locCw[o.refTo]'(by omega), Array.getElem?_eq_getElem _⟩
    obtain ⟨rf, b, hrel⟩ := hdef _ _ hdefn hmREF
    simp +instances only [A_bind, A_get, A_pure, h1, hdefn, hdefLoc]
    obtain ⟨d2, p2, h2⟩ := (cwRefChecks_diagOnly input lc
      { cw0 with relation := .reference o.refTo, modifiers := rr.1.1 } defn defLoc).out
      { s with diags := d1, panic := p1 }
    simp only [h2, cwSetReferencedFrom, hrel, A_modify]
    exact ⟨d2, p2, _, rfl, trivial, Or.inr ⟨o.refTo, defn, rf, b, hdefn, hrel, hmREF, hname, rfl, hREF, rfl⟩⟩

/-- how `cookwareA` extends the cookware table -/
def CwStep (env : Env) (s : Col α) (cws : Array (Cookware (ScalableValue α)))
    (cw : Cookware (ScalableValue α)) : Prop :=
  (cws = s.cookware ∧ ∃ b, cw.relation = .definition [] b) ∨
  (∃ t defn rf b, s.cookware[t]? = some defn ∧ defn.relation = .definition rf b ∧
    defn.modifiers.contains Modifiers.REF = false ∧ nameEq env cw.name defn.name = true ∧
    cw.relation = .reference t ∧ cw.modifiers.contains Modifiers.REF = true ∧
    cws = s.cookware.setIfInBounds t { defn with relation := .definition (rf ++ [s.cookware.size]) b })

theorem cwBuild_spec (env : Env) (input : Str) (lc : Loc (PCookware α)) (cw0 : Cookware (ScalableValue α))
    (s : Col α) (hloc : s.locCw.size = s.cookware.size)
    (hdef : ∀ (k : Nat) (cw : Cookware (ScalableValue α)), s.cookware[k]? = some cw →
      cw.modifiers.contains Modifiers.REF = false → ∃ rf b, cw.relation = .definition rf b)
    (h0 : ∃ b, cw0.relation = .definition [] b) :
    ∃ dg p cws cw, cwBuild env input lc cw0 s =
        (s.cookware.size, { s with diags := dg, panic := p, cookware := cws.push cw,
                                   locCw := s.locCw.push lc }) ∧
      cws.size = s.cookware.size ∧ CwStep env s cws cw := by
  unfold cwBuild
  simp +instances only [A_bind, A_get, A_pure, A_modify]
  obtain ⟨d1, p1, cws, h1, hname, hcase⟩ := cwResolve_spec env input lc cw0 s hloc hdef
  refine ⟨d1, p1, cws, (cwResolve env input lc cw0 s).1, ?_, ?_, ?_⟩
  · rw [h1]
    rcases hcase with ⟨he, _⟩ | ⟨t, defn, rf, b, _, _, _, _, _, _, he⟩ <;> rw [he] <;>
      simp only [Array.size_push, Array.size_setIfInBounds, Nat.add_sub_cancel]
  · rcases hcase with ⟨he, _⟩ | ⟨t, defn, rf, b, _, _, _, _, _, _, he⟩ <;> rw [he]
    simp only [Array.size_setIfInBounds]
  · rcases hcase with ⟨he, hr⟩ | ⟨t, defn, rf, b, h1, h2, h3, h4, h5, h6, he⟩
    · obtain ⟨b, hb⟩ := h0
      exact Or.inl ⟨he, b, by rw [hr, hb]⟩
    · exact Or.inr ⟨t, defn, rf, b, h1, h2, h3, by rw [hname]; exact h4, h5, h6, he⟩

theorem cookwareA_spec (env : Env) (input : Str) (lc : Loc (PCookware α)) (s : Col α)
    (hloc : s.locCw.size = s.cookware.size)
    (hdef : ∀ (k : Nat) (cw : Cookware (ScalableValue α)), s.cookware[k]? = some cw →
      cw.modifiers.contains Modifiers.REF = false → ∃ rf b, cw.relation = .definition rf b) :
    ∃ dg p cws cw, cookwareA env input lc s =
        (s.cookware.size, { s with diags := dg, panic := p, cookware := cws.push cw,
                                   locCw := s.locCw.push lc }) ∧
      cws.size = s.cookware.size ∧ CwStep env s cws cw := by
  unfold cookwareA
  simp +instances only [A_bind, A_get]
  obtain ⟨d0, p0, h0⟩ := (optValueOf_diagOnly env lc.val.quantity).out s
  generalize optValueOf env lc.val.quantity s = qq at h0 ⊢
  rw [h0]
  exact cwBuild_spec env input lc _ { s with diags := d0, panic := p0 } hloc hdef ⟨_, rfl⟩

/-- `timerA` pushes one timer that has a quantity exactly when the event has one -/
theorem timerA_spec (env : Env) (lt : Loc (PTimer α)) (s : Col α) :
    ∃ dg p tm, timerA env lt s = (s.timers.size, { s with diags := dg, panic := p, timers := s.timers.push tm }) ∧
      tm.name.isSome = lt.val.name.isSome ∧ tm.quantity.isSome = lt.val.quantity.isSome := by
  unfold timerA
  simp +instances only [A_bind, A_get, A_pure, A_modify]
  obtain ⟨d0, p0, h0⟩ := (timerQuantity_diagOnly env lt.val.quantity).out s
  refine ⟨d0, p0, ⟨lt.val.name.map (·.trimmed env.cs), (timerQuantity env lt.val.quantity s).1⟩, ?_, ?_, ?_⟩
  · rw [h0]; simp only [Array.size_push, Nat.add_sub_cancel]
  · simp only [Option.isSome_map]
  · exact timerQuantity_isSome env _ s

end Cook
