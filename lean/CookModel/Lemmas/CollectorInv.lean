import CookModel.Lemmas.CollectorFrame
/-
  The invariant of the analysis fold (C06): specifications of the pieces of `ingredientA`,
  `cookwareA`, `timerA`, and preservation of the invariant by every event.
-/
namespace Cook
variable {α : Type} [Arith α]
set_option linter.unusedSectionVars false

theorem Modifiers.contains_or_REF (a : Nat) : (Modifiers.mk (a ||| Modifiers.REF)).contains Modifiers.REF = true := by
  simp only [Modifiers.contains, beq_iff_eq]
  apply Nat.eq_of_testBit_eq
  intro i
  simp only [Nat.testBit_and, Nat.testBit_or]
  cases a.testBit i <;> cases Modifiers.REF.testBit i <;> rfl

theorem sameNameIdx_spec (env : Env) (existing : List (Str × Modifiers)) (name : Str) (t : Nat)
    (h : sameNameIdx env existing name = some t) :
    ∃ n m, existing[t]? = some (n, m) ∧ m.contains Modifiers.REF = false ∧ nameEq env name n = true := by
  unfold sameNameIdx at h
  have hm := List.mem_of_getLast? h
  simp only [List.mem_filter, List.mem_range] at hm
  obtain ⟨_, hp⟩ := hm
  split at hp
  · rename_i n m he
    simp only [Bool.and_eq_true, Bool.not_eq_true'] at hp
    exact ⟨n, m, he, hp.1, hp.2⟩
  · cases hp

/-- when `resolve_reference` yields a target it is the last non-REF component of the same name, and the
    returned modifiers carry REF -/
theorem resolveReference_out (env : Env) (container : String) (inherit : Nat)
    (existing : List (Str × Modifiers)) (name : Str) (mods : Modifiers) (location modLoc : Span) (s : Col α)
    (o : RefOutcome)
    (h : (resolveReference env container inherit existing name mods location modLoc s).1.2 = some o) :
    sameNameIdx env existing name = some o.refTo ∧
      (resolveReference env container inherit existing name mods location modLoc s).1.1.contains Modifiers.REF = true := by
  generalize hr : resolveReference env container inherit existing name mods location modLoc s = r at h ⊢
  unfold resolveReference at hr
  simp +instances only [A_bind, A_pure, A_get, A_ite, aerr, awarn, A_modify] at hr
  generalize sameNameIdx env existing name = sn at hr ⊢
  repeat' split at hr
  all_goals subst hr
  all_goals try (simp at h; done)
  all_goals simp only [A_bind, A_pure, A_modify, Option.some.injEq] at h ⊢
  all_goals first | (cases h; done) | (subst h; exact ⟨rfl, Modifiers.contains_or_REF _⟩)

theorem resolveInterRef_val (d : Loc InterData) (s : Col α) (rel : IngredientRelation)
    (h : (resolveInterRef d s).1 = some rel) :
    interRefTarget s.cur.content s.sections.length d.val = .ok rel := by
  unfold resolveInterRef at h
  cases hx : interRefTarget s.cur.content s.sections.length d.val with
  | ok rel' =>
    simp +instances only [hx, A_bind, A_ite, A_pure, A_get] at h
    split at h <;> simp only [Option.some.injEq] at h <;> rw [h]
  | error k =>
    simp +instances only [hx, A_bind, A_ite, A_pure, A_get] at h
    split at h <;> simp only [reduceCtorEq] at h

theorem ingrUnitChecks_diagOnly (env : Env) (i : PIngredient α) (newQ : Quantity (ScalableValue α)) (idxs : List Nat) :
    DiagOnly (ingrUnitChecks env i newQ idxs) := by
  unfold ingrUnitChecks
  diag_only

macro_rules | `(tactic| diag_leaf) => `(tactic| exact ingrUnitChecks_diagOnly ..)

theorem ingrRefChecks_diagOnly (env : Env) (input : Str) (li : Loc (PIngredient α)) (igr : Ingredient (ScalableValue α))
    (refTo : Nat) (defn : Ingredient (ScalableValue α)) (defLoc : Loc (PIngredient α)) :
    DiagOnly (ingrRefChecks env input li igr refTo defn defLoc) := by
  unfold ingrRefChecks
  diag_only

macro_rules | `(tactic| diag_leaf) => `(tactic| exact ingrRefChecks_diagOnly ..)

theorem cwRefChecks_diagOnly (input : Str) (lc : Loc (PCookware α)) (cw : Cookware (ScalableValue α))
    (defn : Cookware (ScalableValue α)) (defLoc : Loc (PCookware α)) :
    DiagOnly (cwRefChecks input lc cw defn defLoc) := by
  unfold cwRefChecks
  diag_only

macro_rules | `(tactic| diag_leaf) => `(tactic| exact cwRefChecks_diagOnly ..)

theorem ingrInterChecks_diagOnly (i : PIngredient α) (igr : Ingredient (ScalableValue α)) :
    DiagOnly (ingrInterChecks i igr) := by
  unfold ingrInterChecks
  diag_only
macro_rules | `(tactic| diag_leaf) => `(tactic| exact ingrInterChecks_diagOnly ..)

theorem ingrInter_diagOnly (i : PIngredient α) (igr : Ingredient (ScalableValue α)) (d : Loc InterData) :
    DiagOnly (ingrInter i igr d) := by
  unfold ingrInter
  diag_only
macro_rules | `(tactic| diag_leaf) => `(tactic| exact ingrInter_diagOnly ..)

/-- the ingredient built by the intermediate-reference branch: unchanged, or with the resolved target -/
theorem ingrInter_val (i : PIngredient α) (igr : Ingredient (ScalableValue α)) (d : Loc InterData) (s : Col α) :
    (ingrInter i igr d s).1 = igr ∨
    ∃ rel, interRefTarget s.cur.content s.sections.length d.val = .ok rel ∧
      (ingrInter i igr d s).1 = { igr with relation := rel } := by
  unfold ingrInter
  simp only [A_bind]
  obtain ⟨dg, p, hp⟩ := (ingrInterChecks_diagOnly i igr).out s
  cases hr : (resolveInterRef d (ingrInterChecks i igr s).2).1 with
  | none => left; rfl
  | some rel =>
    right
    have := resolveInterRef_val d _ rel hr
    rw [hp] at this
    exact ⟨rel, this, rfl⟩

end Cook
