import CookModel.Lemmas.RoundtripInput
import CookModel.Lemmas.RoundtripPara
/-
  C01, document level: a token stream made of blocks (single `>>` / `=` lines, steps of one or more
  lines) separated by blank lines is split by `allBlocks` into exactly those blocks, and
  `pullEvents` is the concatenation of the events of the blocks.  (`rtd_` prefix.)
-/
set_option linter.unusedSectionVars false
set_option linter.unusedSimpArgs false
set_option linter.unusedVariables false
namespace Cook

variable {α : Type} [Arith α]

/-! ### lines of a token stream -/

/-- no newline token -/
def NoNL (l : List Tok) : Prop := ∀ t ∈ l, t.kind ≠ .newline

theorem rtd_noNL_pos {l : List Tok} (h : NoNL l) : ∀ t ∈ l, (t.kind != TK.newline) = true := by
  intro t ht; simpa using h t ht

theorem rtd_lineOf_nl (L : List Tok) (nl : Tok) (R : List Tok) (hL : NoNL L) (hnl : nl.kind = .newline) :
    lineOf (L ++ nl :: R) = L ++ [nl] ∧ afterLine (L ++ nl :: R) = R := by
  unfold lineOf afterLine
  rw [List.takeWhile_append_of_pos (rtd_noNL_pos hL), List.dropWhile_append_of_pos (rtd_noNL_pos hL)]
  simp [hnl]

theorem rtd_lineOf_noNL (L : List Tok) (hL : NoNL L) : lineOf L = L ∧ afterLine L = [] := by
  have hd : L.dropWhile (fun t => t.kind != .newline) = [] := by
    have := List.dropWhile_append_of_pos (l₂ := []) (rtd_noNL_pos hL)
    simpa using this
  have ht : L.takeWhile (fun t => t.kind != .newline) = L := by
    have := List.takeWhile_append_dropWhile (p := fun t : Tok => t.kind != .newline) (l := L)
    rw [hd, List.append_nil] at this; exact this
  unfold lineOf afterLine
  rw [hd, ht]; simp

/-- every stream is a newline-free line followed by nothing or by a newline token and the rest -/
theorem rtd_line_split (X : List Tok) :
    ∃ L, NoNL L ∧ (X = L ∨ ∃ nl X', X = L ++ nl :: X' ∧ nl.kind = .newline) := by
  refine ⟨X.takeWhile (fun t => t.kind != .newline), ?_, ?_⟩
  · intro t ht
    have := blocks_mem_takeWhile _ _ _ ht
    simpa using this
  · have h := List.takeWhile_append_dropWhile (p := fun t : Tok => t.kind != .newline) (l := X)
    cases hd : X.dropWhile (fun t => t.kind != .newline) with
    | nil => left; rw [hd, List.append_nil] at h; exact h.symm
    | cons nl X' =>
      right
      refine ⟨nl, X', by rw [← hd, h], ?_⟩
      have := List.head?_dropWhile_not (fun t : Tok => t.kind != .newline) X
      rw [hd] at this
      simpa using this

/-! ### the shape of a block, on kinds -/

/-- `>>` or `=`: the first token of a single-line block -/
def kIsMarker (k : TK) : Bool := k == .metaStart || k == .eq

theorem rtd_isSingleLineMarker (t : Tok) : isSingleLineMarker (some t) = kIsMarker t.kind := rfl

/-- The lines of a multi-line block, read left to right: every line (the last one included) has a
    token that is not blank, and no line starts with `>>` or `=`.  `ls`: at the start of a line;
    `nb`: a non-blank token was seen on the current line. -/
def contShapeK : (ls nb : Bool) → List TK → Bool
  | _, nb, [] => nb
  | ls, nb, k :: r =>
    if k == .newline then nb && contShapeK true false r
    else !(ls && kIsMarker k) && contShapeK false (nb || !isEmptyTok k) r

/-- a step block: lines as `contShapeK` says -/
def stepShape (b : List Tok) : Bool := contShapeK true false (b.map (·.kind))

/-- a single-line block: starts with `>>` or `=` and has no newline token -/
def singleShapeK (ks : List TK) : Bool := ks.head?.any kIsMarker && ks.all (· != .newline)

def singleShape (b : List Tok) : Bool := singleShapeK (b.map (·.kind))

/-- the tokens of one block -/
def blockShape (b : List Tok) : Bool := singleShape b || stepShape b

theorem rtd_contShape_mid (L : List Tok) (hL : NoNL L) (nb : Bool) (Y : List TK) :
    contShapeK false nb (L.map (·.kind) ++ Y) =
      contShapeK false (nb || L.any (fun t => !isEmptyTok t.kind)) Y := by
  induction L generalizing nb with
  | nil => simp
  | cons t r ih =>
    have hk : (t.kind == TK.newline) = false := by simpa using hL t (by simp)
    simp only [List.map_cons, List.cons_append, contShapeK, hk, Bool.false_eq_true, if_false, Bool.false_and,
      Bool.not_false, Bool.true_and, List.any_cons]
    rw [ih (fun x hx => hL x (by simp [hx])), Bool.or_assoc]

/-- a stream with the shape of a step block starts with a non-blank line whose first token is not a
    marker; what follows the line's newline token has the shape again -/
theorem rtd_stepShape_split (X : List Tok) (h : stepShape X = true) :
    ∃ L, NoNL L ∧ L.all (fun t => isEmptyTok t.kind) = false ∧
      (∀ t, L.head? = some t → kIsMarker t.kind = false) ∧
      (X = L ∨ ∃ nl X', X = L ++ nl :: X' ∧ nl.kind = .newline ∧ stepShape X' = true) := by
  obtain ⟨L, hL, hX⟩ := rtd_line_split X
  have hnb : ∀ (Y : List TK), contShapeK true false (L.map (·.kind) ++ Y) = true →
      L ≠ [] → (∀ t, L.head? = some t → kIsMarker t.kind = false) ∧
        contShapeK false (L.any (fun t => !isEmptyTok t.kind)) Y = true := by
    intro Y hY hne
    cases L with
    | nil => exact absurd rfl hne
    | cons t r =>
      have hk : (t.kind == TK.newline) = false := by simpa using hL t (by simp)
      simp only [List.map_cons, List.cons_append, contShapeK, hk, Bool.false_eq_true, if_false, Bool.true_and,
        Bool.false_or, Bool.and_eq_true, Bool.not_eq_true'] at hY
      rw [rtd_contShape_mid r (fun x hx => hL x (by simp [hx]))] at hY
      refine ⟨by intro t' ht'; simp at ht'; rw [← ht']; exact hY.1, ?_⟩
      simpa [List.any_cons] using hY.2
  have hall : ∀ l : List Tok, l.any (fun t => !isEmptyTok t.kind) = true → l.all (fun t => isEmptyTok t.kind) = false := by
    intro l hl
    rw [List.any_eq_true] at hl
    obtain ⟨t, ht, hk⟩ := hl
    rw [Bool.eq_false_iff]
    intro ha
    rw [List.all_eq_true] at ha
    have := ha t ht
    rw [this] at hk; cases hk
  rcases hX with rfl | ⟨nl, X', rfl, hnl⟩
  · have hne : X ≠ [] := by
      intro h0; subst h0; simp [stepShape, contShapeK] at h
    have := hnb [] (by simpa [stepShape] using h) hne
    refine ⟨X, hL, hall _ ?_, this.1, Or.inl rfl⟩
    simpa [contShapeK] using this.2
  · have hne : L ≠ [] := by
      intro h0; subst h0
      simp [stepShape, contShapeK, hnl] at h
    have h' : contShapeK true false (L.map (·.kind) ++ (nl :: X').map (·.kind)) = true := by
      simpa [stepShape] using h
    have := hnb _ h' hne
    have h2 := this.2
    simp only [List.map_cons, contShapeK, hnl, beq_self_eq_true, if_true, Bool.and_eq_true] at h2
    exact ⟨L, hL, hall _ h2.1, this.1, Or.inr ⟨nl, X', rfl, hnl, h2.2⟩⟩

theorem rtd_contShapeK_cons (ls nb : Bool) (k : TK) (r : List TK) :
    contShapeK ls nb (k :: r) =
      if k == .newline then nb && contShapeK true false r
      else !(ls && kIsMarker k) && contShapeK false (nb || !isEmptyTok k) r := by
  rw [contShapeK]

theorem rtd_contShape_last (ls nb : Bool) (b : List Tok) (h : contShapeK ls nb (b.map (·.kind)) = true) :
    ∀ t, b.getLast? = some t → t.kind ≠ .newline := by
  induction b generalizing ls nb with
  | nil => intro t ht; simp at ht
  | cons a r ih =>
    intro t ht
    cases r with
    | nil =>
      simp only [List.getLast?_singleton, Option.some.injEq] at ht
      subst ht
      intro hk
      simp [contShapeK, hk] at h
    | cons u r' =>
      rw [List.getLast?_cons_cons] at ht
      rw [List.map_cons, rtd_contShapeK_cons] at h
      split at h
      · simp only [Bool.and_eq_true] at h
        exact ih _ _ h.2 t ht
      · simp only [Bool.and_eq_true] at h
        exact ih _ _ h.2 t ht

theorem rtd_trim_last (b : List Tok) (h : ∀ t, b.getLast? = some t → t.kind ≠ .newline) :
    trimTrailingNewlines b = b := by
  unfold trimTrailingNewlines
  cases hr : b.reverse with
  | nil =>
    have : b = [] := by simpa using hr
    simp [this]
  | cons a r =>
    have ha : b.getLast? = some a := by rw [← List.head?_reverse, hr]; rfl
    have : (a.kind == TK.newline) = false := by simpa using h a ha
    rw [List.dropWhile_cons, this]
    simp only [Bool.false_eq_true, if_false]
    rw [← hr, List.reverse_reverse]

/-! ### `moreLines` on a block followed by a blank line -/

/-- the first line of `F` is blank (or `F` is empty): the continuation stops there and drops it -/
theorem rtd_more_blank (F : List Tok) (h : (lineOf F).all (fun t => isEmptyTok t.kind) = true) :
    moreLines (F.length + 1) F = ([], afterLine F) := by
  cases F with
  | nil => simp [moreLines, pullLine, isSingleLineMarker, afterLine]
  | cons t0 tl =>
    have hb : isEmptyTok t0.kind = true := by
      have hh := blocks_lineOf_head t0 tl
      rw [List.all_eq_true] at h
      cases hl : lineOf (t0 :: tl) with
      | nil => rw [hl] at hh; cases hh
      | cons a r =>
        rw [hl] at hh; simp only [List.head?_cons, Option.some.injEq] at hh
        subst hh
        exact h a (by rw [hl]; exact List.mem_cons_self ..)
    have hm : isSingleLineMarker (some t0) = false := by
      cases hk : t0.kind <;> simp [isSingleLineMarker, hk] <;> simp [isEmptyTok, hk] at hb
    rw [blocks_more_unfold]
    simp only [List.head?_cons, hm, Bool.false_eq_true, if_false, blocks_pullLine_cons, h, if_true]

/-- what may follow a block: nothing, or a newline token and then a blank line (or nothing) -/
def FollowOK (T : List Tok) : Prop :=
  T = [] ∨ ∃ nl F, T = nl :: F ∧ nl.kind = .newline ∧ (lineOf F).all (fun t => isEmptyTok t.kind) = true

theorem rtd_more_unfold_line (S : List Tok) (hne : S ≠ []) (hm : isSingleLineMarker S.head? = false) :
    moreLines (S.length + 1) S =
      if (lineOf S).all (fun t => isEmptyTok t.kind) then ([], afterLine S)
      else (lineOf S ++ (moreLines ((afterLine S).length + 1) (afterLine S)).1,
            (moreLines ((afterLine S).length + 1) (afterLine S)).2) := by
  cases S with
  | nil => exact absurd rfl hne
  | cons t0 tl =>
    rw [blocks_more_unfold, hm, blocks_pullLine_cons]
    simp only [Bool.false_eq_true, if_false]

theorem rtd_more_step : ∀ (n : Nat) (X : List Tok), X.length ≤ n → stepShape X = true → ∀ T, FollowOK T →
    moreLines ((X ++ T).length + 1) (X ++ T) = (X ++ T.take 1, afterLine (T.drop 1)) := by
  intro n
  induction n with
  | zero =>
    intro X hl h
    have : X = [] := List.eq_nil_of_length_eq_zero (by omega)
    subst this; simp [stepShape, contShapeK] at h
  | succ n ih =>
    intro X hl h T hT
    obtain ⟨L, hL, hnb, hhead, hX⟩ := rtd_stepShape_split X h
    obtain ⟨t0, tl, hLc⟩ : ∃ t0 tl, L = t0 :: tl := by
      cases L with
      | nil => simp at hnb
      | cons a b => exact ⟨a, b, rfl⟩
    have hm : ∀ R, isSingleLineMarker (L ++ R).head? = false := by
      intro R
      rw [hLc, List.cons_append, List.head?_cons, rtd_isSingleLineMarker]; exact hhead t0 (by rw [hLc]; rfl)
    have hne : ∀ R, L ++ R ≠ [] := by intro R; rw [hLc]; simp
    have hnb' : ∀ nl : Tok, (L ++ [nl]).all (fun t => isEmptyTok t.kind) = false := by
      intro nl; rw [List.all_append, hnb]; rfl
    rcases hX with hX | ⟨nl, X', hX, hnl, hX'⟩
    · -- the last line of the block
      subst hX
      rcases hT with hT | ⟨nl, F, hT, hnl, hF⟩
      · subst hT
        obtain ⟨e1, e2⟩ := rtd_lineOf_noNL X hL
        have := rtd_more_unfold_line (X ++ []) (hne []) (hm [])
        rw [List.append_nil] at this ⊢
        rw [this, e1, e2, hnb]
        simp [moreLines, pullLine, isSingleLineMarker, afterLine]
      · subst hT
        obtain ⟨e1, e2⟩ := rtd_lineOf_nl X nl F hL hnl
        rw [rtd_more_unfold_line _ (hne _) (hm _), e1, e2, hnb' nl, rtd_more_blank F hF]
        simp
    · subst hX
      have hlen : X'.length ≤ n := by simp only [List.length_append, List.length_cons] at hl; omega
      have e0 : L ++ nl :: X' ++ T = L ++ nl :: (X' ++ T) := by simp
      obtain ⟨e1, e2⟩ := rtd_lineOf_nl L nl (X' ++ T) hL hnl
      rw [e0, rtd_more_unfold_line _ (hne _) (hm _), e1, e2, hnb' nl, ih X' hlen hX' T hT]
      simp

/-! ### leading blank lines -/

/-- blank tokens, ending (if any) with a newline token: whole blank lines -/
def BlankLines (E : List Tok) : Prop := AllBlank E ∧ ∀ t, E.getLast? = some t → t.kind = .newline

theorem rtd_blankLines_nil : BlankLines [] := ⟨blocks_allBlank_nil, by intro t ht; simp at ht⟩

/-- non-empty blank lines: a blank first line, then blank lines -/
theorem rtd_blankLines_split (E : List Tok) (h : BlankLines E) (hne : E ≠ []) :
    ∃ L nl E', E = L ++ nl :: E' ∧ NoNL L ∧ nl.kind = .newline ∧ AllBlank (L ++ [nl]) ∧ BlankLines E' := by
  obtain ⟨L, hL, hE⟩ := rtd_line_split E
  rcases hE with hE | ⟨nl, E', hE, hnl⟩
  · subst hE
    exfalso
    cases hl : E.getLast? with
    | none => exact hne (List.getLast?_eq_none_iff.1 hl)
    | some t => exact hL t (List.mem_of_getLast? hl) (h.2 t hl)
  · subst hE
    refine ⟨L, nl, E', rfl, hL, hnl, ?_, ?_, ?_⟩
    · intro t ht
      apply h.1 t
      simp only [List.mem_append, List.mem_singleton, List.mem_cons] at ht ⊢
      rcases ht with ht | ht | ht
      · exact Or.inl ht
      · exact Or.inr (Or.inl ht)
      · cases ht
    · intro t ht; exact h.1 t (by simp [ht])
    · intro t ht
      apply h.2 t
      cases E' with
      | nil => simp at ht
      | cons a b => rw [List.getLast?_append, List.getLast?_cons_cons, ht]; rfl

theorem rtd_skip_unfold_line (S : List Tok) (hne : S ≠ []) :
    skipEmptyLines (S.length + 1) S =
      if (lineOf S).all (fun t => isEmptyTok t.kind) then skipEmptyLines ((afterLine S).length + 1) (afterLine S)
      else some (⟨lineOf S, (lineOf S).all (fun t => isEmptyTok t.kind), isSingleLineMarker S.head?⟩, afterLine S) := by
  cases S with
  | nil => exact absurd rfl hne
  | cons t0 tl => rw [blocks_skip_unfold, blocks_pullLine_cons]; rfl

theorem rtd_skip_blankLines : ∀ (n : Nat) (E : List Tok), E.length ≤ n → BlankLines E → ∀ R,
    skipEmptyLines ((E ++ R).length + 1) (E ++ R) = skipEmptyLines (R.length + 1) R := by
  intro n
  induction n with
  | zero =>
    intro E hl _ R
    have : E = [] := List.eq_nil_of_length_eq_zero (by omega)
    subst this; rfl
  | succ n ih =>
    intro E hl h R
    by_cases hne : E = []
    · subst hne; rfl
    · obtain ⟨L, nl, E', hE, hL, hnl, hb, hE'⟩ := rtd_blankLines_split E h hne
      subst hE
      have e0 : L ++ nl :: E' ++ R = L ++ nl :: (E' ++ R) := by simp
      obtain ⟨e1, e2⟩ := rtd_lineOf_nl L nl (E' ++ R) hL hnl
      rw [e0, rtd_skip_unfold_line _ (by simp), e1, e2, (blocks_allBlank_iff_all _).1 hb, if_pos rfl]
      apply ih E' _ hE'
      simp only [List.length_append, List.length_cons] at hl; omega

theorem rtd_next_blankLines (E : List Tok) (h : BlankLines E) (R : List Tok) :
    nextBlock (E ++ R) = nextBlock R := by
  rw [blocks_next_eq, blocks_next_eq, rtd_skip_blankLines E.length E (Nat.le_refl _) h R]

/-! ### `nextBlock` on a block and what follows it -/

theorem rtd_singleShape_facts (B : List Tok) (h : singleShape B = true) :
    ∃ t0 tl, B = t0 :: tl ∧ kIsMarker t0.kind = true ∧ NoNL B := by
  simp only [singleShape, singleShapeK, Bool.and_eq_true, List.all_map] at h
  cases B with
  | nil => simp at h
  | cons t0 tl =>
    refine ⟨t0, tl, rfl, by simpa using h.1, ?_⟩
    intro t ht
    have := List.all_eq_true.1 h.2 t ht
    simpa using this

theorem rtd_marker_not_blank {k : TK} (h : kIsMarker k = true) : isEmptyTok k = false := by
  cases k <;> simp [kIsMarker] at h <;> rfl

theorem rtd_not_all_blank_of_head (t0 : Tok) (tl R : List Tok) (h : isEmptyTok t0.kind = false) :
    ((t0 :: tl) ++ R).all (fun t => isEmptyTok t.kind) = false := by
  simp [h]

theorem rtd_follow_take_newline (T : List Tok) (h : FollowOK T) : ∀ t ∈ T.take 1, t.kind = .newline := by
  rcases h with rfl | ⟨nl, F, rfl, hnl, -⟩
  · intro t ht; simp at ht
  · intro t ht; simp at ht; subst ht; exact hnl

/-- a single-line block followed by nothing or a newline: it is the next block, the newline is dropped -/
theorem rtd_next_single (B T : List Tok) (hB : singleShape B = true) (hT : FollowOK T) :
    nextBlock (B ++ T) = some (B, T.drop 1) := by
  obtain ⟨t0, tl, hBc, hmk, hnl⟩ := rtd_singleShape_facts B hB
  have hnb := rtd_marker_not_blank hmk
  have hhead : ∀ R, (B ++ R).head? = some t0 := by intro R; rw [hBc]; rfl
  have hsl : isSingleLineMarker (some t0) = true := by rw [rtd_isSingleLineMarker]; exact hmk
  have hne : ∀ R, B ++ R ≠ [] := by intro R; rw [hBc]; simp
  rw [blocks_next_eq, rtd_skip_unfold_line _ (hne _), hhead]
  rcases hT with hT | ⟨nl, F, hT, hnlk, -⟩
  · subst hT
    obtain ⟨e1, e2⟩ := rtd_lineOf_noNL B hnl
    rw [List.append_nil, e1, e2]
    have : B.all (fun t => isEmptyTok t.kind) = false := by
      have := rtd_not_all_blank_of_head t0 tl [] hnb
      rwa [List.append_nil, ← hBc] at this
    simp only [this, Bool.false_eq_true, if_false, blockMore, hsl, if_true, List.append_nil, List.drop_nil]
    rw [blocks_trim_id B hnl]
  · subst hT
    obtain ⟨e1, e2⟩ := rtd_lineOf_nl B nl F hnl hnlk
    rw [e1, e2]
    have : (B ++ [nl]).all (fun t => isEmptyTok t.kind) = false := by
      rw [hBc]; exact rtd_not_all_blank_of_head t0 tl [nl] hnb
    simp only [this, Bool.false_eq_true, if_false, blockMore, hsl, if_true, List.append_nil, List.drop_succ_cons,
      List.drop_zero]
    rw [blocks_trim_append_newlines B [nl] (by intro t ht; simp at ht; subst ht; exact hnlk), blocks_trim_id B hnl]

/-- a step block (one or more lines) followed by nothing or by a newline and a blank line: it is the
    next block; its final newline and the blank line are dropped -/
theorem rtd_next_step (B T : List Tok) (hB : stepShape B = true) (hT : FollowOK T) :
    nextBlock (B ++ T) = some (B, afterLine (T.drop 1)) := by
  obtain ⟨L, hL, hnb, hhead, hX⟩ := rtd_stepShape_split B hB
  obtain ⟨t0, tl, hLc⟩ : ∃ t0 tl, L = t0 :: tl := by
    cases L with
    | nil => simp at hnb
    | cons a b => exact ⟨a, b, rfl⟩
  have hm : ∀ R, isSingleLineMarker (L ++ R).head? = false := by
    intro R
    rw [hLc, List.cons_append, List.head?_cons, rtd_isSingleLineMarker]; exact hhead t0 (by rw [hLc]; rfl)
  have hne : ∀ R, L ++ R ≠ [] := by intro R; rw [hLc]; simp
  have hnb' : ∀ nl : Tok, (L ++ [nl]).all (fun t => isEmptyTok t.kind) = false := by
    intro nl; rw [List.all_append, hnb]; rfl
  have htrim : trimTrailingNewlines (B ++ T.take 1) = B := by
    rw [blocks_trim_append_newlines _ _ (rtd_follow_take_newline T hT)]
    exact rtd_trim_last B (rtd_contShape_last _ _ B hB)
  rw [blocks_next_eq]
  rcases hX with hX | ⟨nl, X', hX, hnl, hX'⟩
  · subst hX
    rcases hT with hT | ⟨nl, F, hT, hnl, hF⟩
    · subst hT
      obtain ⟨e1, e2⟩ := rtd_lineOf_noNL B hL
      have := rtd_skip_unfold_line (B ++ []) (hne [])
      rw [List.append_nil] at this ⊢
      rw [this, e1, e2, hnb]
      have hmm := hm []
      rw [List.append_nil] at hmm
      simp only [Bool.false_eq_true, if_false, blockMore, hmm, List.length_nil, Nat.zero_add, List.drop_nil]
      simp only [List.take_nil, List.append_nil] at htrim
      simp [moreLines, pullLine, isSingleLineMarker, afterLine, htrim]
    · subst hT
      obtain ⟨e1, e2⟩ := rtd_lineOf_nl B nl F hL hnl
      rw [rtd_skip_unfold_line _ (hne _), e1, e2, hnb' nl]
      simp only [Bool.false_eq_true, if_false, blockMore, hm, rtd_more_blank F hF, List.append_nil,
        List.drop_succ_cons, List.drop_zero]
      simp only [List.take_succ_cons, List.take_zero] at htrim
      rw [htrim]
  · subst hX
    have e0 : L ++ nl :: X' ++ T = L ++ nl :: (X' ++ T) := by simp
    obtain ⟨e1, e2⟩ := rtd_lineOf_nl L nl (X' ++ T) hL hnl
    rw [e0, rtd_skip_unfold_line _ (hne _), e1, e2, hnb' nl]
    simp only [Bool.false_eq_true, if_false, blockMore, hm, rtd_more_step X'.length X' (Nat.le_refl _) hX' T hT]
    have e3 : L ++ [nl] ++ (X' ++ List.take 1 T) = L ++ nl :: X' ++ List.take 1 T := by simp
    rw [e3, htrim]

/-! ### documents: blocks separated by blank lines -/

/-- a separator between two blocks, on kinds: a newline, then one or more blank lines -/
def sepOKK : List TK → Bool
  | [] => false
  | k :: E => k == .newline && E.all isEmptyTok && E.getLast?.any (· == .newline)

/-- what may follow the last block, on kinds: nothing, or a newline and blank material -/
def tailOKK : List TK → Bool
  | [] => true
  | k :: E => k == .newline && E.all isEmptyTok

def sepOK (s : List Tok) : Bool := sepOKK (s.map (·.kind))
def tailOK (s : List Tok) : Bool := tailOKK (s.map (·.kind))

/-- the token stream of a document: each block with what follows it -/
def docToks : List (List Tok × List Tok) → List Tok
  | [] => []
  | d :: r => d.1 ++ d.2 ++ docToks r

/-- every block has the shape of a block; blocks are separated by a newline and at least one blank
    line; after the last block nothing or a newline and blank material -/
def docOK : List (List Tok × List Tok) → Bool
  | [] => true
  | [d] => blockShape d.1 && tailOK d.2
  | d :: x :: r => blockShape d.1 && sepOK d.2 && docOK (x :: r)

theorem rtd_allBlank_of_map {E : List Tok} (h : (E.map (·.kind)).all isEmptyTok = true) : AllBlank E := by
  rw [List.all_map] at h
  exact (blocks_allBlank_iff_all E).2 h

theorem rtd_sepOK_facts (s : List Tok) (h : sepOK s = true) :
    ∃ nl E, s = nl :: E ∧ nl.kind = .newline ∧ BlankLines E ∧ E ≠ [] := by
  cases s with
  | nil => simp [sepOK, sepOKK] at h
  | cons nl E =>
    simp only [sepOK, List.map_cons, sepOKK, Bool.and_eq_true, beq_iff_eq] at h
    obtain ⟨⟨h1, h2⟩, h3⟩ := h
    refine ⟨nl, E, rfl, h1, ⟨rtd_allBlank_of_map h2, ?_⟩, ?_⟩
    · intro t ht
      rw [List.getLast?_map, ht] at h3
      simpa using h3
    · intro h0; subst h0; simp at h3

theorem rtd_tailOK_facts (s : List Tok) (h : tailOK s = true) :
    s = [] ∨ ∃ nl E, s = nl :: E ∧ nl.kind = .newline ∧ AllBlank E := by
  cases s with
  | nil => exact Or.inl rfl
  | cons nl E =>
    simp only [tailOK, List.map_cons, tailOKK, Bool.and_eq_true, beq_iff_eq] at h
    exact Or.inr ⟨nl, E, rfl, h.1, rtd_allBlank_of_map h.2⟩

theorem rtd_allBlank_lineOf {E : List Tok} (h : AllBlank E) : AllBlank (lineOf E) ∧ AllBlank (afterLine E) := by
  have := blocks_lineOf_afterLine E
  rw [← this] at h
  exact blocks_allBlank_append.1 h

/-- after a separator: the rest of the stream is blank lines and then the next block, both for a
    single-line block (the newline is dropped) and for a step (the first blank line is dropped too) -/
theorem rtd_follow_sep (s R : List Tok) (h : sepOK s = true) :
    FollowOK (s ++ R) ∧ ∃ E1 E2, BlankLines E1 ∧ BlankLines E2 ∧ (s ++ R).drop 1 = E1 ++ R ∧
      afterLine ((s ++ R).drop 1) = E2 ++ R := by
  obtain ⟨nl, E, rfl, hnl, hE, hne⟩ := rtd_sepOK_facts s h
  obtain ⟨L, nl', E', hEs, hL, hnl', hb, hE'⟩ := rtd_blankLines_split E hE hne
  subst hEs
  have e0 : L ++ nl' :: E' ++ R = L ++ nl' :: (E' ++ R) := by simp
  obtain ⟨e1, e2⟩ := rtd_lineOf_nl L nl' (E' ++ R) hL hnl'
  refine ⟨Or.inr ⟨nl, L ++ nl' :: E' ++ R, by simp, hnl, ?_⟩, L ++ nl' :: E', E', hE, hE', by simp, ?_⟩
  · rw [e0, e1]; exact (blocks_allBlank_iff_all _).1 hb
  · simp only [List.cons_append, List.drop_succ_cons, List.drop_zero]
    rw [e0, e2]

theorem rtd_follow_tail (s : List Tok) (h : tailOK s = true) :
    FollowOK s ∧ AllBlank (s.drop 1) ∧ AllBlank (afterLine (s.drop 1)) := by
  rcases rtd_tailOK_facts s h with rfl | ⟨nl, E, rfl, hnl, hE⟩
  · exact ⟨Or.inl rfl, blocks_allBlank_nil, by simp [afterLine]; exact blocks_allBlank_nil⟩
  · obtain ⟨h1, h2⟩ := rtd_allBlank_lineOf hE
    exact ⟨Or.inr ⟨nl, E, rfl, hnl, (blocks_allBlank_iff_all _).1 h1⟩, by simpa using hE, by simpa using h2⟩

theorem rtd_allBlocks_blank (ts : List Tok) (h : AllBlank ts) : allBlocks (ts.length + 1) ts = [] := by
  rw [blocks_all_unfold, (blocks_next_none ts).2 h]

theorem rtd_next_block (B T : List Tok) (hB : blockShape B = true) (hT : FollowOK T) :
    nextBlock (B ++ T) = some (B, T.drop 1) ∨ nextBlock (B ++ T) = some (B, afterLine (T.drop 1)) := by
  simp only [blockShape, Bool.or_eq_true] at hB
  rcases hB with hB | hB
  · exact Or.inl (rtd_next_single B T hB hT)
  · exact Or.inr (rtd_next_step B T hB hT)

/-- The splitter on a document: leading blank lines, then blocks — single `>>` / `=` lines or steps
    of one or more non-blank lines — separated by a newline and at least one blank line (`docOK`):
    `allBlocks` returns exactly the blocks, in order. -/
theorem rtd_allBlocks_doc (ds : List (List Tok × List Tok)) (h : docOK ds = true) :
    ∀ pre, BlankLines pre →
      allBlocks ((pre ++ docToks ds).length + 1) (pre ++ docToks ds) = ds.map (·.1) := by
  induction ds with
  | nil =>
    intro pre hpre
    simp only [docToks, List.append_nil, List.map_nil]
    exact rtd_allBlocks_blank pre hpre.1
  | cons d r ih =>
    intro pre hpre
    have e0 : pre ++ docToks (d :: r) = pre ++ (d.1 ++ (d.2 ++ docToks r)) := by simp [docToks]
    rw [e0, blocks_all_unfold, rtd_next_blankLines pre hpre]
    cases r with
    | nil =>
      simp only [docOK, Bool.and_eq_true] at h
      obtain ⟨hf, hb1, hb2⟩ := rtd_follow_tail d.2 h.2
      simp only [docToks, List.append_nil, List.map_cons, List.map_nil]
      rcases rtd_next_block d.1 d.2 h.1 hf with hn | hn <;> rw [hn]
      · simp only; rw [rtd_allBlocks_blank _ hb1]
      · simp only; rw [rtd_allBlocks_blank _ hb2]
    | cons x r' =>
      simp only [docOK, Bool.and_eq_true] at h
      obtain ⟨hf, E1, E2, hE1, hE2, e1, e2⟩ := rtd_follow_sep d.2 (docToks (x :: r')) h.1.2
      simp only [List.map_cons]
      rcases rtd_next_block d.1 _ h.1.1 hf with hn | hn <;> rw [hn]
      · simp only; rw [e1, ih h.2 E1 hE1]; rfl
      · simp only; rw [e2, ih h.2 E2 hE2]; rfl

/-! ### from the spelled document to the lexer's tokens -/

/-- element-wise relation of two lists of the same length (core Lean has no `Forall₂`) -/
inductive All2 {β γ : Type} (R : β → γ → Prop) : List β → List γ → Prop where
  | nil : All2 R [] []
  | cons {a b l₁ l₂} : R a b → All2 R l₁ l₂ → All2 R (a :: l₁) (b :: l₂)

theorem rtd_spells_kinds {ts spec : List Tok} (h : Spells ts spec) : ts.map (·.kind) = spec.map (·.kind) := by
  have := congrArg (List.map Prod.fst) h
  simpa [List.map_map, Tok.kt, Function.comp_def] using this

theorem rtd_blockShape_transfer {ts spec : List Tok} (h : Spells ts spec) : blockShape ts = blockShape spec := by
  simp only [blockShape, singleShape, stepShape, rtd_spells_kinds h]

theorem rtd_sepOK_transfer {ts spec : List Tok} (h : Spells ts spec) : sepOK ts = sepOK spec := by
  simp only [sepOK, rtd_spells_kinds h]

theorem rtd_tailOK_transfer {ts spec : List Tok} (h : Spells ts spec) : tailOK ts = tailOK spec := by
  simp only [tailOK, rtd_spells_kinds h]

/-- tokens that spell a document are a document: the same blocks and separators, token for token -/
theorem rtd_spells_doc {β : Type} (f : β → List Tok × List Tok) (ds : List β) :
    ∀ ts, Spells ts (docToks (ds.map f)) →
      ∃ tds, ts = docToks tds ∧
        All2 (fun (td : List Tok × List Tok) d => Spells td.1 (f d).1 ∧ Spells td.2 (f d).2) tds ds := by
  induction ds with
  | nil =>
    intro ts h
    simp only [List.map_nil, docToks] at h
    exact ⟨[], by rw [h.nil_inv]; rfl, All2.nil⟩
  | cons d r ih =>
    intro ts h
    simp only [List.map_cons, docToks] at h
    obtain ⟨t12, t3, rfl, h12, h3⟩ := h.append_inv
    obtain ⟨t1, t2, rfl, h1, h2⟩ := h12.append_inv
    obtain ⟨tds, rfl, hF⟩ := ih t3 h3
    exact ⟨(t1, t2) :: tds, rfl, All2.cons ⟨h1, h2⟩ hF⟩

theorem rtd_docOK_transfer {β : Type} (f : β → List Tok × List Tok) (tds : List (List Tok × List Tok)) (ds : List β)
    (h : All2 (fun (td : List Tok × List Tok) d => Spells td.1 (f d).1 ∧ Spells td.2 (f d).2) tds ds) :
    docOK tds = docOK (ds.map f) := by
  induction h with
  | nil => rfl
  | cons hd htl ih =>
    cases htl with
    | nil => simp only [List.map_cons, List.map_nil, docOK, rtd_blockShape_transfer hd.1, rtd_tailOK_transfer hd.2]
    | cons hd2 htl2 =>
      simp only [List.map_cons, docOK, rtd_blockShape_transfer hd.1, rtd_sepOK_transfer hd.2]
      simp only [List.map_cons] at ih
      rw [ih]

/-- leading blank lines, on kinds -/
def blankLinesOK (pre : List Tok) : Bool :=
  (pre.map (·.kind)).all isEmptyTok && (pre.map (·.kind)).getLast?.all (· == .newline)

theorem rtd_blankLinesOK_facts (pre : List Tok) (h : blankLinesOK pre = true) : BlankLines pre := by
  simp only [blankLinesOK, Bool.and_eq_true] at h
  refine ⟨rtd_allBlank_of_map h.1, ?_⟩
  intro t ht
  have h2 := h.2
  rw [List.getLast?_map, ht] at h2
  simpa using h2

theorem rtd_blankLinesOK_transfer {ts spec : List Tok} (h : Spells ts spec) : blankLinesOK ts = blankLinesOK spec := by
  simp only [blankLinesOK, rtd_spells_kinds h]

/-- every block of a document cut out of a run is a run -/
theorem rtd_doc_runs (tds : List (List Tok × List Tok)) : ∀ (off : Nat) (A : List Tok), RunAt off (A ++ docToks tds) →
    ∀ td ∈ tds, RunAt (baseOff td.1) td.1 := by
  induction tds with
  | nil => intro off A _ td h; cases h
  | cons d r ih =>
    intro off A h td hm
    simp only [List.mem_cons] at hm
    rcases hm with rfl | hm
    · simp only [docToks, List.append_assoc] at h
      rw [runAt_append, runAt_append] at h
      exact h.2.1.base
    · have e : A ++ docToks (d :: r) = (A ++ d.1 ++ d.2) ++ docToks r := by simp [docToks]
      rw [e] at h
      exact ih off _ h td hm

/-! ### the events of a document -/

/-- the blocks of a recipe text: a step (one or more lines), a section line, a `>>` metadata line, a text
    paragraph (`>` block of one or more lines) -/
inductive DocItem where
  | step (segs : List SegX)
  | sectionLine (name : Option (List Tok)) (p : SPad)
  | metaLine (key value : List Tok) (p : MPad)
  | para (lines : List PLine)

def DocItem.spell : DocItem → List Tok
  | .step segs => segs.flatMap SegX.spell
  | .sectionLine name p => spellSection name p
  | .metaLine k v p => spellMeta k v p
  | .para lines => lines.flatMap PLine.spell

/-- side conditions of a block: those of its layer; a step additionally has the shape of a
    multi-line block (no blank line inside, no line starting with `>>` or `=`) -/
def DocItem.ok (cs : CharSpec) (ext : Ext) : DocItem → Bool
  | .step segs =>
    segsXOK cs ext segs && stepBlockOK (segs.flatMap SegX.spell) && stepShape (segs.flatMap SegX.spell)
  | .sectionLine name p => sectionOK cs name p
  | .metaLine k v p => metaOK cs k v p
  | .para lines =>
    paraLinesOK cs lines && lines.head?.any (·.marker) && stepShape (lines.flatMap PLine.spell)

/-- the events a block must produce -/
def DocItemEvs (cs : CharSpec) : DocItem → List (Ev α) → Prop
  | .step segs, evs => ∃ e, evs = [.start .step] ++ e ++ [.stop .step] ∧ SegsXEvs cs segs e
  | .sectionLine name _, evs => ∃ ev, evs = [ev] ∧ SectionMatches cs name ev
  | .metaLine k v _, evs => ∃ ev, evs = [ev] ∧ MetaMatches cs k v ev
  | .para lines, evs =>
    ∃ ts : List Text, evs = [.start .text] ++ ts.map Ev.text ++ [.stop .text] ∧ ts.map (·.text) = lines.map PLine.text

theorem rtd_pad_noNL {cs : CharSpec} {l : List Tok} (h : padOK cs l = true) : NoNL l := by
  intro t ht hk
  rcases padOK_padT h t ht with h' | h' <;> rw [hk] at h' <;> cases h'

theorem rtd_leaf_noNL {cs : CharSpec} {allowed : TK → Bool} {l : List Tok} (h : leafOK cs allowed l = true) : NoNL l := by
  intro t ht hk
  have := (leafOK_facts h).toks t ht
  rw [Bool.or_eq_true] at this
  rcases this with h' | h'
  · have := (isAtomTok_facts h').2.1
    simp [plainKind, hk] at this
  · have := (isSpTok_facts h').1
    rw [hk] at this; cases this

theorem rtd_noNL_append {a b : List Tok} (ha : NoNL a) (hb : NoNL b) : NoNL (a ++ b) := by
  intro t ht
  rcases List.mem_append.1 ht with h | h
  · exact ha t h
  · exact hb t h

theorem rtd_singleShape_intro (t0 : Tok) (tl : List Tok) (hm : kIsMarker t0.kind = true) (hn : NoNL (t0 :: tl)) :
    singleShape (t0 :: tl) = true := by
  have h2 : ((t0 :: tl).map (·.kind)).all (· != .newline) = true := by
    rw [List.all_map, List.all_eq_true]
    intro t ht
    simpa using hn t ht
  simp only [singleShape, singleShapeK, h2, Bool.and_true]
  simp [hm]

theorem rtd_noNL_replicate (n : Nat) (t : Tok) (h : t.kind ≠ .newline) : NoNL (List.replicate n t) := by
  intro x hx
  rw [(List.mem_replicate.1 hx).2]; exact h

theorem rtd_section_shape (cs : CharSpec) (name : Option (List Tok)) (p : SPad) (h : sectionOK cs name p = true) :
    singleShape (spellSection name p) = true := by
  simp only [sectionOK, Bool.and_eq_true] at h
  obtain ⟨hp, hname⟩ := h
  simp only [SPad.ok, Bool.and_eq_true] at hp
  obtain ⟨⟨hpa, hpb⟩, hpc⟩ := hp
  have hnn : NoNL (spellOptLeaf name) := by
    cases name with
    | none => intro t ht; simp [spellOptLeaf] at ht
    | some n => exact rtd_leaf_noNL hname
  have heq : (tk .eq ['=']).kind ≠ .newline := by simp [tk]
  have hall : NoNL (spellSection name p) := by
    unfold spellSection
    refine rtd_noNL_append (rtd_noNL_append (rtd_noNL_replicate _ _ heq)
      (rtd_noNL_append (rtd_noNL_append (rtd_pad_noNL hpa) hnn) (rtd_pad_noNL hpb))) ?_
    split
    · intro t ht; cases ht
    · exact rtd_noNL_append (rtd_noNL_replicate _ _ heq) (rtd_pad_noNL hpc)
  have e : spellSection name p = tk .eq ['='] :: (List.replicate p.n0 (tk .eq ['=']) ++ (p.a ++ spellOptLeaf name ++ p.b) ++
      (if p.n1 = 0 then [] else List.replicate p.n1 (tk .eq ['=']) ++ p.c)) := by
    simp [spellSection, List.replicate_succ]
  rw [e] at hall ⊢
  exact rtd_singleShape_intro _ _ (by simp [tk, kIsMarker]) hall

theorem rtd_meta_shape (cs : CharSpec) (key value : List Tok) (p : MPad) (h : metaOK cs key value p = true) :
    singleShape (spellMeta key value p) = true := by
  simp only [metaOK, Bool.and_eq_true] at h
  obtain ⟨⟨hp, hkey⟩, hval⟩ := h
  simp only [MPad.ok, Bool.and_eq_true] at hp
  obtain ⟨⟨⟨hpa, hpb⟩, hpc⟩, hpd⟩ := hp
  have hone : ∀ k s, k ≠ TK.newline → NoNL [tk k s] := by
    intro k s hk t ht; simp at ht; subst ht; simpa [tk] using hk
  have hall : NoNL (spellMeta key value p) := by
    unfold spellMeta
    exact rtd_noNL_append (rtd_noNL_append (rtd_noNL_append (rtd_noNL_append (rtd_noNL_append (rtd_noNL_append
      (rtd_noNL_append (hone _ _ (by simp)) (rtd_pad_noNL hpa)) (rtd_leaf_noNL hkey)) (rtd_pad_noNL hpb))
      (hone _ _ (by simp))) (rtd_pad_noNL hpc)) (rtd_leaf_noNL hval)) (rtd_pad_noNL hpd)
  have e : spellMeta key value p = tk .metaStart ['>', '>'] :: (p.a ++ key ++ p.b ++ [tk .colon [':']] ++ p.c ++ value ++ p.d) := by
    simp [spellMeta]
  rw [e] at hall ⊢
  exact rtd_singleShape_intro _ _ (by simp [tk, kIsMarker]) hall

theorem rtd_item_shape (cs : CharSpec) (ext : Ext) (d : DocItem) (h : d.ok cs ext = true) : blockShape d.spell = true := by
  unfold blockShape
  rw [Bool.or_eq_true]
  cases d with
  | step segs =>
    simp only [DocItem.ok, Bool.and_eq_true] at h
    exact Or.inr h.2
  | sectionLine name p => exact Or.inl (rtd_section_shape cs name p h)
  | metaLine k v p => exact Or.inl (rtd_meta_shape cs k v p h)
  | para lines =>
    simp only [DocItem.ok, Bool.and_eq_true] at h
    exact Or.inr h.2

/-- one block of a document through `parse_block`: its events are appended, the panic flag is kept -/
theorem rtd_runBlock_item (cs : CharSpec) (ext : Ext) (d : DocItem) (h : d.ok cs ext = true) (ts : List Tok)
    (hs : Spells ts d.spell) (hrun : RunAt (baseOff ts) ts) (evs0 : Array (Ev α)) (panic : Option String) :
    ∃ (evs : List (Ev α)) (arr : Array (Ev α)), runBlock cs ext true ts evs0 panic = (arr, panic) ∧
      arr.toList = evs0.toList ++ evs ∧ DocItemEvs cs d evs := by
  cases d with
  | step segs =>
    simp only [DocItem.ok, Bool.and_eq_true] at h
    obtain ⟨e, arr, h1, h2, h3⟩ := rtb_runBlock_step (α := α) segs cs ext true ts evs0 panic hs hrun h.1.1
      (stepBlockOK_transfer hs h.1.2)
    exact ⟨[.start .step] ++ e ++ [.stop .step], arr, h1, by rw [h2]; simp, e, rfl, h3⟩
  | sectionLine name p =>
    obtain ⟨ev, h1, h2⟩ := rtb_runBlock_section (α := α) name p cs ext true ts evs0 panic h hs hrun
    exact ⟨[ev], _, h1, by simp, ev, rfl, h2⟩
  | metaLine k v p =>
    obtain ⟨ev, h1, h2⟩ := rtb_runBlock_meta (α := α) k v p cs ext ts evs0 panic h hs hrun
    exact ⟨[ev], _, h1, by simp, ev, rfl, h2⟩
  | para lines =>
    simp only [DocItem.ok, Bool.and_eq_true] at h
    obtain ⟨txts, arr, h1, h2, h3⟩ := rtp_runBlock_para (α := α) lines cs ext true ts evs0 panic hs hrun h.1.1 h.1.2
    exact ⟨[.start .text] ++ txts.map Ev.text ++ [.stop .text], arr, h1, by rw [h2]; simp, txts, rfl, h3⟩

/-- running the blocks of a document one after the other: the events of the blocks, concatenated -/
theorem rtd_fold_items (cs : CharSpec) (ext : Ext) (doc : List (DocItem × List Tok)) (tds : List (List Tok × List Tok))
    (hF : All2 (fun (td : List Tok × List Tok) (d : DocItem × List Tok) =>
      Spells td.1 d.1.spell ∧ Spells td.2 d.2) tds doc)
    (hok : ∀ d ∈ doc, d.1.ok cs ext = true) (hrun : ∀ td ∈ tds, RunAt (baseOff td.1) td.1) :
    ∀ (evs0 : Array (Ev α)) (panic : Option String), ∃ (evss : List (List (Ev α))) (arr : Array (Ev α)),
      (tds.map (·.1)).foldl (fun acc b => runBlock cs ext true b acc.1 acc.2) (evs0, panic) = (arr, panic) ∧
      arr.toList = evs0.toList ++ evss.flatten ∧
      All2 (fun (d : DocItem × List Tok) evs => DocItemEvs cs d.1 evs) doc evss := by
  induction hF with
  | nil => intro evs0 panic; exact ⟨[], evs0, rfl, by simp, All2.nil⟩
  | @cons td d tds' doc' hd htl ih =>
    intro evs0 panic
    obtain ⟨evs, arr1, h1, h2, h3⟩ := rtd_runBlock_item cs ext d.1 (hok d (by simp)) td.1 hd.1
      (hrun td (by simp)) evs0 panic
    obtain ⟨evss, arr, g1, g2, g3⟩ := ih (fun x hx => hok x (by simp [hx])) (fun x hx => hrun x (by simp [hx])) arr1 panic
    refine ⟨evs :: evss, arr, ?_, ?_, All2.cons h3 g3⟩
    · simp only [List.map_cons, List.foldl_cons, h1]; exact g1
    · rw [g2, h2]; simp

/-- separators of a document: between blocks `sepOK`, after the last block `tailOK` -/
def sepsOK : List (List Tok) → Bool
  | [] => true
  | [t] => tailOK t
  | s :: x :: r => sepOK s && sepsOK (x :: r)

theorem rtd_docOK_intro (ds : List (List Tok × List Tok)) (hb : ∀ d ∈ ds, blockShape d.1 = true)
    (hs : sepsOK (ds.map (·.2)) = true) : docOK ds = true := by
  induction ds with
  | nil => rfl
  | cons d r ih =>
    cases r with
    | nil =>
      simp only [List.map_cons, List.map_nil, sepsOK] at hs
      simp only [docOK, hb d (by simp), hs, Bool.and_self]
    | cons x r' =>
      simp only [List.map_cons, sepsOK, Bool.and_eq_true] at hs
      simp only [docOK, hb d (by simp), hs.1, Bool.true_and]
      exact ih (fun y hy => hb y (by simp [hy])) (by simpa using hs.2)

theorem rtd_all2_blocks (tds : List (List Tok × List Tok)) (doc : List (DocItem × List Tok))
    (hF : All2 (fun (td : List Tok × List Tok) (d : DocItem × List Tok) =>
      Spells td.1 d.1.spell ∧ Spells td.2 d.2) tds doc) :
    All2 (fun b (d : DocItem × List Tok) => Spells b d.1.spell) (tds.map (·.1)) doc := by
  induction hF with
  | nil => exact All2.nil
  | cons hd _ ih => exact All2.cons hd.1 ih

/-- the token list a document is printed from -/
def docSpec (doc : List (DocItem × List Tok)) : List Tok := docToks (doc.map (fun d => (d.1.spell, d.2)))

/-- Document level.  The characters of `pre ++ docSpec doc` — leading blank lines, then blocks
    (steps of one or more lines, section lines, `>>` lines), each followed by its separator — when
    the list is well spelled and the text has no front matter fence: the splitter cuts the lexer's
    tokens into exactly one block per item, each spelling its item, and `pullEvents` returns the
    concatenation of the items' events, no panic. -/
theorem rtd_pullEvents_doc (cs : CharSpec) (ext : Ext) (pre : List Tok) (doc : List (DocItem × List Tok))
    (hpre : blankLinesOK pre = true) (hok : ∀ d ∈ doc, d.1.ok cs ext = true)
    (hseps : sepsOK (doc.map (·.2)) = true) (hw : WellSpelled cs (pre ++ docSpec doc))
    (hfm : parseFrontmatter cs (render (pre ++ docSpec doc)) = none) :
    ∃ (blocks : List (List Tok)) (evss : List (List (Ev α))) (arr : Array (Ev α)),
      allBlocks ((lex cs (render (pre ++ docSpec doc))).length + 1) (lex cs (render (pre ++ docSpec doc))) = blocks ∧
      All2 (fun b (d : DocItem × List Tok) => Spells b d.1.spell) blocks doc ∧
      pullEvents (α := α) cs ext (render (pre ++ docSpec doc)) = (arr, none) ∧
      arr.toList = evss.flatten ∧
      All2 (fun (d : DocItem × List Tok) evs => DocItemEvs cs d.1 evs) doc evss := by
  obtain ⟨hsp, hrun⟩ := rtin_lex_spells cs 0 (pre ++ docSpec doc) hw
  generalize hts : lexFrom cs 0 (render (pre ++ docSpec doc)) = ts at hsp hrun
  have hlex : lex cs (render (pre ++ docSpec doc)) = ts := hts
  obtain ⟨tpre, tdoc, rfl, hsp1, hsp2⟩ := hsp.append_inv
  obtain ⟨tds, rfl, hF⟩ := rtd_spells_doc (fun d : DocItem × List Tok => (d.1.spell, d.2)) doc tdoc hsp2
  have hdoc : docOK tds = true := by
    rw [rtd_docOK_transfer _ tds doc hF]
    apply rtd_docOK_intro (doc.map (fun d : DocItem × List Tok => (d.1.spell, d.2)))
    · intro d hd
      obtain ⟨x, hx, rfl⟩ := List.mem_map.1 hd
      exact rtd_item_shape cs ext x.1 (hok x hx)
    · simpa [List.map_map, Function.comp_def] using hseps
  have hbl : BlankLines tpre := rtd_blankLinesOK_facts tpre (by rw [rtd_blankLinesOK_transfer hsp1]; exact hpre)
  have hall := rtd_allBlocks_doc tds hdoc tpre hbl
  have hruns := rtd_doc_runs tds 0 tpre hrun
  obtain ⟨evss, arr, g1, g2, g3⟩ := rtd_fold_items (α := α) cs ext doc tds hF hok hruns #[] none
  refine ⟨tds.map (·.1), evss, arr, by rw [hlex]; exact hall, ?_, ?_, by simpa using g2, g3⟩
  · exact rtd_all2_blocks tds doc hF
  · unfold pullEvents
    simp only [hfm, hlex, hall]
    exact g1

end Cook
