import CookModel.Lemmas.RoundtripInput
/-
  C01, document level: a token stream made of blocks (single `>>` / `=` lines, steps of one or more
  lines) separated by blank lines is split by `allBlocks` into exactly those blocks, and
  `pullEvents` is the concatenation of the events of the blocks.  (`rtd_` prefix.)
-/
set_option linter.unusedSectionVars false
set_option linter.unusedSimpArgs false
set_option linter.unusedVariables false
namespace Cook

variable {α : Type} [Arith α]

/-! ### lines of a token stream -/

/-- no newline token -/
def NoNL (l : List Tok) : Prop := ∀ t ∈ l, t.kind ≠ .newline

theorem rtd_noNL_pos {l : List Tok} (h : NoNL l) : ∀ t ∈ l, (t.kind != TK.newline) = true := by
  intro t ht; simpa using h t ht

theorem rtd_lineOf_nl (L : List Tok) (nl : Tok) (R : List Tok) (hL : NoNL L) (hnl : nl.kind = .newline) :
    lineOf (L ++ nl :: R) = L ++ [nl] ∧ afterLine (L ++ nl :: R) = R := by
  unfold lineOf afterLine
  rw [List.takeWhile_append_of_pos (rtd_noNL_pos hL), List.dropWhile_append_of_pos (rtd_noNL_pos hL)]
  simp [hnl]

theorem rtd_lineOf_noNL (L : List Tok) (hL : NoNL L) : lineOf L = L ∧ afterLine L = [] := by
  have hd : L.dropWhile (fun t => t.kind != .newline) = [] := by
    have := List.dropWhile_append_of_pos (l₂ := []) (rtd_noNL_pos hL)
    simpa using this
  have ht : L.takeWhile (fun t => t.kind != .newline) = L := by
    have := List.takeWhile_append_dropWhile (p := fun t : Tok => t.kind != .newline) (l := L)
    rw [hd, List.append_nil] at this; exact this
  unfold lineOf afterLine
  rw [hd, ht]; simp

/-- every stream is a newline-free line followed by nothing or by a newline token and the rest -/
theorem rtd_line_split (X : List Tok) :
    ∃ L, NoNL L ∧ (X = L ∨ ∃ nl X', X = L ++ nl :: X' ∧ nl.kind = .newline) := by
  refine ⟨X.takeWhile (fun t => t.kind != .newline), ?_, ?_⟩
  · intro t ht
    have := blocks_mem_takeWhile _ _ _ ht
    simpa using this
  · have h := List.takeWhile_append_dropWhile (p := fun t : Tok => t.kind != .newline) (l := X)
    cases hd : X.dropWhile (fun t => t.kind != .newline) with
    | nil => left; rw [hd, List.append_nil] at h; exact h.symm
    | cons nl X' =>
      right
      refine ⟨nl, X', by rw [← hd, h], ?_⟩
      have := List.head?_dropWhile_not (fun t : Tok => t.kind != .newline) X
      rw [hd] at this
      simpa using this

/-! ### the shape of a block, on kinds -/

/-- `>>` or `=`: the first token of a single-line block -/
def kIsMarker (k : TK) : Bool := k == .metaStart || k == .eq

theorem rtd_isSingleLineMarker (t : Tok) : isSingleLineMarker (some t) = kIsMarker t.kind := rfl

/-- The lines of a multi-line block, read left to right: every line (the last one included) has a
    token that is not blank, and no line starts with `>>` or `=`.  `ls`: at the start of a line;
    `nb`: a non-blank token was seen on the current line. -/
def contShapeK : (ls nb : Bool) → List TK → Bool
  | _, nb, [] => nb
  | ls, nb, k :: r =>
    if k == .newline then nb && contShapeK true false r
    else !(ls && kIsMarker k) && contShapeK false (nb || !isEmptyTok k) r

/-- a step block: lines as `contShapeK` says -/
def stepShape (b : List Tok) : Bool := contShapeK true false (b.map (·.kind))

/-- a single-line block: starts with `>>` or `=` and has no newline token -/
def singleShape (b : List Tok) : Bool :=
  b.head?.any (fun t => kIsMarker t.kind) && b.all (fun t => t.kind != .newline)

theorem rtd_contShape_mid (L : List Tok) (hL : NoNL L) (nb : Bool) (Y : List TK) :
    contShapeK false nb (L.map (·.kind) ++ Y) =
      contShapeK false (nb || L.any (fun t => !isEmptyTok t.kind)) Y := by
  induction L generalizing nb with
  | nil => simp
  | cons t r ih =>
    have hk : (t.kind == TK.newline) = false := by simpa using hL t (by simp)
    simp only [List.map_cons, List.cons_append, contShapeK, hk, Bool.false_eq_true, if_false, Bool.false_and,
      Bool.not_false, Bool.true_and, List.any_cons]
    rw [ih (fun x hx => hL x (by simp [hx])), Bool.or_assoc]

/-- a stream with the shape of a step block starts with a non-blank line whose first token is not a
    marker; what follows the line's newline token has the shape again -/
theorem rtd_stepShape_split (X : List Tok) (h : stepShape X = true) :
    ∃ L, NoNL L ∧ L.all (fun t => isEmptyTok t.kind) = false ∧
      (∀ t, L.head? = some t → kIsMarker t.kind = false) ∧
      (X = L ∨ ∃ nl X', X = L ++ nl :: X' ∧ nl.kind = .newline ∧ stepShape X' = true) := by
  obtain ⟨L, hL, hX⟩ := rtd_line_split X
  have hnb : ∀ (Y : List TK), contShapeK true false (L.map (·.kind) ++ Y) = true →
      L ≠ [] → (∀ t, L.head? = some t → kIsMarker t.kind = false) ∧
        contShapeK false (L.any (fun t => !isEmptyTok t.kind)) Y = true := by
    intro Y hY hne
    cases L with
    | nil => exact absurd rfl hne
    | cons t r =>
      have hk : (t.kind == TK.newline) = false := by simpa using hL t (by simp)
      simp only [List.map_cons, List.cons_append, contShapeK, hk, Bool.false_eq_true, if_false, Bool.true_and,
        Bool.false_or, Bool.and_eq_true, Bool.not_eq_true'] at hY
      rw [rtd_contShape_mid r (fun x hx => hL x (by simp [hx]))] at hY
      refine ⟨by intro t' ht'; simp at ht'; rw [← ht']; exact hY.1, ?_⟩
      simpa [List.any_cons] using hY.2
  have hall : ∀ l : List Tok, l.any (fun t => !isEmptyTok t.kind) = true → l.all (fun t => isEmptyTok t.kind) = false := by
    intro l hl
    rw [List.any_eq_true] at hl
    obtain ⟨t, ht, hk⟩ := hl
    rw [Bool.eq_false_iff]
    intro ha
    rw [List.all_eq_true] at ha
    have := ha t ht
    rw [this] at hk; cases hk
  rcases hX with rfl | ⟨nl, X', rfl, hnl⟩
  · have hne : X ≠ [] := by
      intro h0; subst h0; simp [stepShape, contShapeK] at h
    have := hnb [] (by simpa [stepShape] using h) hne
    refine ⟨X, hL, hall _ ?_, this.1, Or.inl rfl⟩
    simpa [contShapeK] using this.2
  · have hne : L ≠ [] := by
      intro h0; subst h0
      simp [stepShape, contShapeK, hnl] at h
    have h' : contShapeK true false (L.map (·.kind) ++ (nl :: X').map (·.kind)) = true := by
      simpa [stepShape] using h
    have := hnb _ h' hne
    have h2 := this.2
    simp only [List.map_cons, contShapeK, hnl, beq_self_eq_true, if_true, Bool.and_eq_true] at h2
    exact ⟨L, hL, hall _ h2.1, this.1, Or.inr ⟨nl, X', rfl, hnl, h2.2⟩⟩

theorem rtd_contShapeK_cons (ls nb : Bool) (k : TK) (r : List TK) :
    contShapeK ls nb (k :: r) =
      if k == .newline then nb && contShapeK true false r
      else !(ls && kIsMarker k) && contShapeK false (nb || !isEmptyTok k) r := by
  rw [contShapeK]

theorem rtd_contShape_last (ls nb : Bool) (b : List Tok) (h : contShapeK ls nb (b.map (·.kind)) = true) :
    ∀ t, b.getLast? = some t → t.kind ≠ .newline := by
  induction b generalizing ls nb with
  | nil => intro t ht; simp at ht
  | cons a r ih =>
    intro t ht
    cases r with
    | nil =>
      simp only [List.getLast?_singleton, Option.some.injEq] at ht
      subst ht
      intro hk
      simp [contShapeK, hk] at h
    | cons u r' =>
      rw [List.getLast?_cons_cons] at ht
      rw [List.map_cons, rtd_contShapeK_cons] at h
      split at h
      · simp only [Bool.and_eq_true] at h
        exact ih _ _ h.2 t ht
      · simp only [Bool.and_eq_true] at h
        exact ih _ _ h.2 t ht

theorem rtd_trim_last (b : List Tok) (h : ∀ t, b.getLast? = some t → t.kind ≠ .newline) :
    trimTrailingNewlines b = b := by
  unfold trimTrailingNewlines
  cases hr : b.reverse with
  | nil =>
    have : b = [] := by simpa using hr
    simp [this]
  | cons a r =>
    have ha : b.getLast? = some a := by rw [← List.head?_reverse, hr]; rfl
    have : (a.kind == TK.newline) = false := by simpa using h a ha
    rw [List.dropWhile_cons, this]
    simp only [Bool.false_eq_true, if_false]
    rw [← hr, List.reverse_reverse]

/-! ### `moreLines` on a block followed by a blank line -/

/-- the first line of `F` is blank (or `F` is empty): the continuation stops there and drops it -/
theorem rtd_more_blank (F : List Tok) (h : (lineOf F).all (fun t => isEmptyTok t.kind) = true) :
    moreLines (F.length + 1) F = ([], afterLine F) := by
  cases F with
  | nil => simp [moreLines, pullLine, isSingleLineMarker, afterLine]
  | cons t0 tl =>
    have hb : isEmptyTok t0.kind = true := by
      have hh := blocks_lineOf_head t0 tl
      rw [List.all_eq_true] at h
      cases hl : lineOf (t0 :: tl) with
      | nil => rw [hl] at hh; cases hh
      | cons a r =>
        rw [hl] at hh; simp only [List.head?_cons, Option.some.injEq] at hh
        subst hh
        exact h a (by rw [hl]; exact List.mem_cons_self ..)
    have hm : isSingleLineMarker (some t0) = false := by
      cases hk : t0.kind <;> simp [isSingleLineMarker, hk] <;> simp [isEmptyTok, hk] at hb
    rw [blocks_more_unfold]
    simp only [List.head?_cons, hm, Bool.false_eq_true, if_false, blocks_pullLine_cons, h, if_true]

/-- what may follow a block: nothing, or a newline token and then a blank line (or nothing) -/
def FollowOK (T : List Tok) : Prop :=
  T = [] ∨ ∃ nl F, T = nl :: F ∧ nl.kind = .newline ∧ (lineOf F).all (fun t => isEmptyTok t.kind) = true

theorem rtd_more_unfold_line (S : List Tok) (hne : S ≠ []) (hm : isSingleLineMarker S.head? = false) :
    moreLines (S.length + 1) S =
      if (lineOf S).all (fun t => isEmptyTok t.kind) then ([], afterLine S)
      else (lineOf S ++ (moreLines ((afterLine S).length + 1) (afterLine S)).1,
            (moreLines ((afterLine S).length + 1) (afterLine S)).2) := by
  cases S with
  | nil => exact absurd rfl hne
  | cons t0 tl =>
    rw [blocks_more_unfold, hm, blocks_pullLine_cons]
    simp only [Bool.false_eq_true, if_false]

theorem rtd_more_step : ∀ (n : Nat) (X : List Tok), X.length ≤ n → stepShape X = true → ∀ T, FollowOK T →
    moreLines ((X ++ T).length + 1) (X ++ T) = (X ++ T.take 1, afterLine (T.drop 1)) := by
  intro n
  induction n with
  | zero =>
    intro X hl h
    have : X = [] := List.eq_nil_of_length_eq_zero (by omega)
    subst this; simp [stepShape, contShapeK] at h
  | succ n ih =>
    intro X hl h T hT
    obtain ⟨L, hL, hnb, hhead, hX⟩ := rtd_stepShape_split X h
    obtain ⟨t0, tl, hLc⟩ : ∃ t0 tl, L = t0 :: tl := by
      cases L with
      | nil => simp at hnb
      | cons a b => exact ⟨a, b, rfl⟩
    have hm : ∀ R, isSingleLineMarker (L ++ R).head? = false := by
      intro R
      rw [hLc, List.cons_append, List.head?_cons, rtd_isSingleLineMarker]; exact hhead t0 (by rw [hLc]; rfl)
    have hne : ∀ R, L ++ R ≠ [] := by intro R; rw [hLc]; simp
    have hnb' : ∀ nl : Tok, (L ++ [nl]).all (fun t => isEmptyTok t.kind) = false := by
      intro nl; rw [List.all_append, hnb]; rfl
    rcases hX with hX | ⟨nl, X', hX, hnl, hX'⟩
    · -- the last line of the block
      subst hX
      rcases hT with hT | ⟨nl, F, hT, hnl, hF⟩
      · subst hT
        obtain ⟨e1, e2⟩ := rtd_lineOf_noNL X hL
        have := rtd_more_unfold_line (X ++ []) (hne []) (hm [])
        rw [List.append_nil] at this ⊢
        rw [this, e1, e2, hnb]
        simp [moreLines, pullLine, isSingleLineMarker, afterLine]
      · subst hT
        obtain ⟨e1, e2⟩ := rtd_lineOf_nl X nl F hL hnl
        rw [rtd_more_unfold_line _ (hne _) (hm _), e1, e2, hnb' nl, rtd_more_blank F hF]
        simp
    · subst hX
      have hlen : X'.length ≤ n := by simp only [List.length_append, List.length_cons] at hl; omega
      have e0 : L ++ nl :: X' ++ T = L ++ nl :: (X' ++ T) := by simp
      obtain ⟨e1, e2⟩ := rtd_lineOf_nl L nl (X' ++ T) hL hnl
      rw [e0, rtd_more_unfold_line _ (hne _) (hm _), e1, e2, hnb' nl, ih X' hlen hX' T hT]
      simp

end Cook
