import CookModel.Analysis.RefCheck
import CookModel.Lemmas.SpansAnalysis
/-
  `ParseOptions::recipe_ref_check` (Analysis/RefCheck.lean): what its diagnostic is and that its label is a valid span.
  Prefix `rck_`.
-/
namespace Cook
namespace RC
variable {α : Type} [Arith α]

/-- the diagnostic of the check: kind, stage, severity = the verdict, ONE label = the component's span -/
theorem rck_refDiag_some (chk : Str → FM.CheckRes) (loc : Span) (ig : Ingredient (ScalableValue α)) (d : Diag)
    (h : refDiag chk loc ig = some d) :
    d.labels = [loc] ∧ d.kind = "recipe-not-found" ∧ d.stage = .analysis ∧
    ig.modifiers.contains Modifiers.RECIPE = true ∧ ig.modifiers.contains Modifiers.REF = false ∧
    ((chk ig.name = .warning ∧ d.sev = .warning) ∨ (chk ig.name = .error ∧ d.sev = .error)) := by
  unfold refDiag at h
  split at h
  · rename_i hc
    simp only [Bool.and_eq_true, Bool.not_eq_eq_eq_not, Bool.not_true] at hc
    split at h
    · cases h
    · rename_i hv; cases h; exact ⟨rfl, rfl, rfl, hc.1, hc.2, .inl ⟨hv, rfl⟩⟩
    · rename_i hv; cases h; exact ⟨rfl, rfl, rfl, hc.1, hc.2, .inr ⟨hv, rfl⟩⟩
  · cases h

/-- when there is a diagnostic, exactly -/
theorem rck_refDiag_iff (chk : Str → FM.CheckRes) (loc : Span) (ig : Ingredient (ScalableValue α)) :
    (refDiag chk loc ig).isSome =
      (ig.modifiers.contains Modifiers.RECIPE && !ig.modifiers.contains Modifiers.REF && chk ig.name != .ok) := by
  unfold refDiag
  split
  · rename_i hc
    rw [hc]
    cases chk ig.name <;> rfl
  · rename_i hc
    simp only [Bool.not_eq_true] at hc
    rw [hc]; rfl

/-- what `afterIngredient` does to the collector: nothing, or it pushes ONE diagnostic whose only label is the span of
    the ingredient component of the event; every other field is untouched -/
theorem rck_afterIngredient (chk : Str → FM.CheckRes) (li : Loc (PIngredient α)) (s s' : Col α) :
    afterIngredient chk li s s' = s' ∨
    ∃ d ig, s'.ingredients.back? = some ig ∧ s'.ingredients.size = s.ingredients.size + 1 ∧
      refDiag chk li.span ig = some d ∧ afterIngredient chk li s s' = { s' with diags := s'.diags.push d } := by
  unfold afterIngredient
  split
  · rename_i hsz
    split
    · rename_i ig hig
      split
      · rename_i d hd
        exact .inr ⟨d, ig, hig, hsz, hd, rfl⟩
      · exact .inl rfl
    · exact .inl rfl
  · exact .inl rfl

theorem rck_afterIngredient_ok (chk : Str → FM.CheckRes) (input : Str) (li : Loc (PIngredient α)) (s s' : Col α)
    (hs : ColOK input s') (hli : SpanOK 0 input li.span) : ColOK input (afterIngredient chk li s s') := by
  rcases rck_afterIngredient chk li s s' with h | ⟨d, ig, _, _, hd, h⟩
  · rw [h]; exact hs
  · rw [h]
    refine hs.pushDiag d ?_
    intro l hl
    rw [(rck_refDiag_some chk li.span ig d hd).1] at hl
    simp only [List.mem_singleton] at hl
    subst hl; exact hli

/-- a callback that always answers `Ok` is no callback -/
theorem rck_afterIngredient_allOk (li : Loc (PIngredient α)) (s s' : Col α) :
    afterIngredient (fun _ => FM.CheckRes.ok) li s s' = s' := by
  rcases rck_afterIngredient (fun _ => FM.CheckRes.ok) li s s' with h | ⟨d, ig, _, _, hd, _⟩
  · exact h
  · have := (rck_refDiag_some _ li.span ig d hd).2.2.2.2.2
    rcases this with ⟨h, _⟩ | ⟨h, _⟩ <;> cases h

theorem rck_loopR_cons_other (env : Env) (input : Str) (chk : Str → FM.CheckRes) (ev : Ev α) (rest : List (Ev α)) (s : Col α)
    (he : ¬ ∃ d0, ev = .error d0) (hi : ¬ ∃ li, ev = .ingredient li) :
    loopR env input chk (ev :: rest) s = loopR env input chk rest (processEvent env input ev s).2 := by
  cases ev <;> first | rfl | (exfalso; exact he ⟨_, rfl⟩) | (exfalso; exact hi ⟨_, rfl⟩)

theorem rck_loopR_allOk (env : Env) (input : Str) (evs : List (Ev α)) (s : Col α) :
    loopR env input (fun _ => FM.CheckRes.ok) evs s = parseEventsLoop env input evs s := by
  induction evs generalizing s with
  | nil => rfl
  | cons ev rest ih =>
    by_cases he : ∃ d0, ev = .error d0
    · obtain ⟨d0, rfl⟩ := he; rfl
    · rw [parseEventsLoop_cons_nonerror env input ev rest s he]
      by_cases hi : ∃ li, ev = .ingredient li
      · obtain ⟨li, rfl⟩ := hi
        simp only [loopR]
        rw [rck_afterIngredient_allOk, ih]
      · rw [rck_loopR_cons_other env input _ ev rest s he hi, ih]

/-- every diagnostic of the fold with a `recipe_ref_check` has valid labels; so has every location the returned
    collector keeps -/
theorem rck_loopR_spOK (input : Str) (env : Env) (chk : Str → FM.CheckRes) (evs : List (Ev α)) (s : Col α)
    (hs : ColOK input s) (hev : ∀ ev ∈ evs, EvSpansOK 0 input ev) :
    (∀ d ∈ (loopR env input chk evs s).diags.toList, DiagOK 0 input d) ∧
    (∀ c, (loopR env input chk evs s).output = some c → ColOK input c) := by
  induction evs generalizing s with
  | nil => exact parseEventsLoop_spOK input env [] s hs hev
  | cons ev rest ih =>
    by_cases he : ∃ d0, ev = .error d0
    · obtain ⟨d0, rfl⟩ := he
      exact parseEventsLoop_spOK input env _ s hs hev
    · have hstep := (processEvent_spOK input env ev (hev ev List.mem_cons_self)).out s hs
      have hrest : ∀ e ∈ rest, EvSpansOK 0 input e := fun e he' => hev e (List.mem_cons_of_mem _ he')
      by_cases hi : ∃ li, ev = .ingredient li
      · obtain ⟨li, rfl⟩ := hi
        simp only [loopR]
        have hli : SpanOK 0 input li.span := (hev _ List.mem_cons_self).1
        exact ih _ (rck_afterIngredient_ok chk input li s _ hstep hli) hrest
      · rw [rck_loopR_cons_other env input chk ev rest s he hi]
        exact ih _ hstep hrest

end RC
end Cook
