import CookModel.Lemmas.FragTimer
/-
  C05 at fragment level, ALL block shapes and the whole token stream: the sweep of `Lemmas/CoverAll.lean`
  redone with the queue predicate `FragQ` ("an `Error` was pushed, or every content token (`CoreTok`) before the
  cursor, and those of the earlier blocks, is CARRIED by an event": inside one fragment of one of its
  texts, or inside the span of its modifiers / number).
-/
set_option linter.unusedSectionVars false
set_option linter.unusedSimpArgs false
set_option linter.unusedVariables false
namespace Cook

variable {α : Type} [Arith α]

/-- the body of the token is carried by an event of the queue -/
def TokCarried (cs : CharSpec) (evs : Array (Ev α)) (t : Tok) : Prop :=
  Carried cs evs (tokBodyStart t) t.stop

/-- the queue has an error, or: the tokens of `K` (earlier blocks) and the content tokens of the block
    before position `n` are carried -/
def FragQ (cs : CharSpec) (K : Tok → Prop) (ts : List Tok) (n : Nat) (evs : Array (Ev α)) : Prop :=
  HasErrEv evs ∨ ((∀ t, K t → TokCarried cs evs t) ∧
    ∀ i, i < n → ∀ t, ts[i]? = some t → CoreTok cs t → TokCarried cs evs t)

variable {cs : CharSpec} {K : Tok → Prop} {ts : List Tok} {e : Ext} {s : BP α} {off : Nat} {w : List Char}

theorem FragQ.push {n : Nat} {evs : Array (Ev α)} (h : FragQ cs K ts n evs) (ev : Ev α) : FragQ cs K ts n (evs.push ev) := by
  rcases h with h | ⟨h1, h2⟩
  · exact Or.inl (h.push ev)
  · exact Or.inr ⟨fun t ht => (h1 t ht).push ev, fun i hi t ht hc => (h2 i hi t ht hc).push ev⟩

theorem FragQ.up {n : Nat} : UpP (FragQ (α := α) cs K ts n) := fun _ ev h => h.push ev

theorem FragQ.advance {n n' : Nat} {evs : Array (Ev α)} (h : FragQ cs K ts n evs)
    (hn : ∀ i, n ≤ i → i < n' → ∀ t, ts[i]? = some t → CoreTok cs t → HasErrEv evs ∨ TokCarried cs evs t) :
    FragQ cs K ts n' evs := by
  by_cases he : HasErrEv evs
  · exact Or.inl he
  · rcases h with h | ⟨h1, h2⟩
    · exact Or.inl h
    · refine Or.inr ⟨h1, fun i hi t ht hc => ?_⟩
      rcases Nat.lt_or_ge i n with h' | h'
      · exact h2 i h' t ht hc
      · rcases hn i h' hi t ht hc with h'' | h''
        · exact absurd h'' he
        · exact h''

theorem FragQ.pushCover {n n' : Nat} {evs : Array (Ev α)} (h : FragQ cs K ts n evs) (ev : Ev α)
    (hn : ∀ i, n ≤ i → i < n' → ∀ t, ts[i]? = some t → CoreTok cs t →
      HasErrEv evs ∨ ev.carries cs (tokBodyStart t) t.stop) :
    FragQ cs K ts n' (evs.push ev) :=
  (h.push ev).advance (fun i h1 h2 t ht hc => by
    rcases hn i h1 h2 t ht hc with h' | h'
    · exact Or.inl (h'.push ev)
    · exact Or.inr ⟨ev, by simp, h'⟩)

theorem GE.fqAdv {n n' : Nat} (h : GE (FragQ cs K ts n) ts e s)
    (hn : ∀ i, n ≤ i → i < n' → ∀ t, ts[i]? = some t → ¬ CoreTok cs t) : GE (FragQ cs K ts n') ts e s :=
  h.mono (fun hi => hi.advance (fun i a b t ht hc => absurd hc (hn i a b t ht)))

/-! ### the character tables are kept -/

theorem stepOne_fragGA : IndGA fragFlags (stepOne (α := α)) := by
  have a1 := ingredientP_indGA (α := α) fragFlags_1 fragFlags_2 fragFlags_3 fragFlags_4 fragFlags_5
  have a2 := cookwareP_indGA (α := α) fragFlags_1 fragFlags_2 fragFlags_3 fragFlags_4 fragFlags_5
  have ht := timerP_indGA (α := α) fragFlags_1 fragFlags_2 fragFlags_3 fragFlags_4 fragFlags_5 fragFlags_6
  unfold stepOne
  indg_auto

/-! ### steps, with components -/

theorem stepOne_fq (hw : WFI off w ts) (hz : Boundary off w 0) (h : GE (FragQ cs K ts s.cur) ts e s)
    (hcs : s.cs = cs) (hlt : s.cur < ts.length) :
    Sat (stepOne (α := α)) s (fun _ s' => GE (FragQ cs K ts s'.cur) ts e s' ∧ s.cur < s'.cur) := by
  have hup : UpP (FragQ (α := α) cs K ts s.cur) := FragQ.up
  have hc : Ctx off w (FragQ (α := α) cs K ts s.cur) ts := upCtx hw hup
  unfold stepOne
  apply Sat.bind
  apply Sat.mono (Q := fun r s' => GE (FragQ cs K ts s.cur) ts e s' ∧
    match r with
    | none => s'.cur = s.cur
    | some ev => s.cur < s'.cur ∧ CompGood cs ts s.cur (some ev) s')
  · have comp : ∀ (p : P α (Option (Ev α))),
        (∀ s0 : BP α, GE (FragQ cs K ts s.cur) ts e s0 → s0.cs = cs → Sat p s0 (fun r s' =>
          GE (FragQ cs K ts s.cur) ts e s' ∧ (r.isSome = true → s0.cur < s'.cur) ∧ CompGood cs ts s0.cur r s')) →
        Sat (withRecover p) s (fun r s' => GE (FragQ cs K ts s.cur) ts e s' ∧
          match r with
          | none => s'.cur = s.cur
          | some ev => s.cur < s'.cur ∧ CompGood cs ts s.cur (some ev) s') := by
      intro p hp
      apply withRecover_sat
      refine Sat.mono (hp s h hcs) ?_
      rintro r s1 ⟨g1, h1, h3⟩
      cases r with
      | none => exact ⟨g1.setCur h.le, rfl⟩
      | some ev => exact ⟨g1, h1 rfl, h3⟩
    refine Sat.bind (peekK_sat h.g ?_)
    split
    · refine comp _ (fun s0 h0 c0 => Sat.mono ((ingredientP_evx hc h0).covBoth (ingredientP_fc hup hw h0 c0)) ?_)
      rintro r s' ⟨⟨g, hp, -, -⟩, ⟨-, good⟩⟩
      exact ⟨g, hp, good⟩
    · refine comp _ (fun s0 h0 c0 => Sat.mono ((cookwareP_evx hc h0).covBoth (cookwareP_fc hup hw h0 c0)) ?_)
      rintro r s' ⟨⟨g, hp, -, -⟩, ⟨-, good⟩⟩
      exact ⟨g, hp, good⟩
    · refine comp _ (fun s0 h0 c0 => Sat.mono ((timerP_evx hc hz h0).covBoth (timerP_fc hup hw h0 c0)) ?_)
      rintro r s' ⟨⟨g, hp, -, -⟩, ⟨-, good⟩⟩
      exact ⟨g, hp, good⟩
    · exact Sat.pure ⟨h, rfl⟩
  rintro comp s1 ⟨g1, h1⟩
  cases comp with
  | some ev =>
    obtain ⟨c1, hgood⟩ := h1
    refine Sat.pushEv ⟨g1.push (g1.evs.pushCover ev ?_), c1⟩
    intro i hi1 hi2 t ht hct
    exact hgood ev rfl i t hi1 hi2 ht hct
  | none =>
    dsimp only at h1 ⊢
    refine Sat.bind (currentOffset_sat g1.g ?_)
    refine Sat.bind (Sat.getCur ?_)
    have hget : ts[s1.cur]? = some ts[s1.cur] := List.getElem?_eq_getElem (by omega)
    refine Sat.bind (Sat.mono (bumpAny_ge g1 hget) ?_)
    rintro _ s2 ⟨-, g2, c2⟩
    refine Sat.bind (Sat.mono (consumeWhile_ge _ g2) ?_)
    rintro _ s3 ⟨g3, c3, -, -, -⟩
    refine Sat.bind (Sat.get ?_)
    try dsimp only
    have hle : s1.cur ≤ s3.cur := by omega
    have hr : RunAt (offAt ts s1.cur) ((s3.toks.take s3.cur).drop s1.cur) := by
      rw [g3.g.toks]; exact slice_runAt hw.wf.run hle
    refine Sat.bind (bpText_sat hr ?_)
    have hcov : ∀ i, s1.cur ≤ i → i < s3.cur → ∀ t, ts[i]? = some t → CoreTok cs t →
        (buildText (offAt ts s1.cur) ((s3.toks.take s3.cur).drop s1.cur)).holds (tokBodyStart t) t.stop := by
      intro i k1 k2 t ht hct
      have hm : t ∈ (s3.toks.take s3.cur).drop s1.cur := by rw [g3.g.toks]; exact cover_mem_slice k1 k2 ht
      exact frag_run hr hm (hct.hasBody hr.2 hm)
    split
    · refine Sat.pushEv ⟨g3.push (g3.evs.pushCover _ ?_), by show s.cur < s3.cur; omega⟩
      intro i k1 k2 t ht hct
      exact Or.inr (hcov i (by omega) k2 t ht hct)
    · rename_i hemp
      refine Sat.pure ⟨g3.mono (fun hi => hi.advance ?_), by omega⟩
      intro i k1 k2 t ht hct
      exfalso
      obtain ⟨f, hf, -⟩ := hcov i (by omega) k2 t ht hct
      apply hemp
      cases hfr : (buildText (offAt ts s1.cur) ((s3.toks.take s3.cur).drop s1.cur)).frags with
      | nil => rw [hfr] at hf; cases hf
      | cons _ _ => simp

theorem stepLoop_fq (hw : WFI off w ts) (hz : Boundary off w 0) (fuel : Nat)
    (h : GE (FragQ cs K ts s.cur) ts e s) (hcs : s.cs = cs) (hf : ts.length - s.cur ≤ fuel) :
    Sat (stepLoop (α := α) fuel) s (fun _ s' => GE (FragQ cs K ts ts.length) ts e s' ∧ s'.cur = ts.length) := by
  have hle := h.le
  induction fuel generalizing s with
  | zero =>
    unfold stepLoop
    refine Sat.bind (restToks_sat h.g ?_)
    have : ts.drop s.cur = [] := List.drop_eq_nil_of_le (by omega)
    rw [this]
    have e1 : s.cur = ts.length := by omega
    exact Sat.pure ⟨by rw [← e1]; exact h, e1⟩
  | succ fuel ih =>
    unfold stepLoop
    refine Sat.bind (restToks_sat h.g ?_)
    split
    · rename_i hemp
      have := drop_isEmpty_true hemp
      have e1 : s.cur = ts.length := by omega
      exact Sat.pure ⟨by rw [← e1]; exact h, e1⟩
    · rename_i hemp
      have hlt := drop_isEmpty_false (by simpa using hemp)
      refine Sat.bind (Sat.mono ((stepOne_fq hw hz h hcs hlt).fragCs stepOne_fragGA) ?_)
      rintro _ s1 ⟨⟨g1, c1⟩, cs1⟩
      exact ih g1 (by rw [cs1, hcs]) (by omega) g1.le

theorem parseStep_fq (hw : WFI off w ts) (hz : Boundary off w 0) (h : GE (FragQ cs K ts s.cur) ts e s)
    (hcs : s.cs = cs) :
    Sat (parseStep (α := α)) s (fun _ s' => GE (FragQ cs K ts ts.length) ts e s' ∧ s'.cur = ts.length) := by
  unfold parseStep
  refine Sat.bind (Sat.pushEv ?_)
  have g1 : GE (FragQ cs K ts s.cur) ts e { s with evs := s.evs.push (.start .step) } := h.push (h.evs.push _)
  refine Sat.bind (restToks_sat g1.g ?_)
  refine Sat.bind (Sat.mono (stepLoop_fq hw hz _ g1 hcs (by simp)) ?_)
  rintro _ s2 ⟨g2, c2⟩
  exact Sat.pushEv ⟨g2.push (g2.evs.push _), c2⟩

/-! ### text blocks -/

theorem textLineK_fq (hw : WFI off w ts) (h : GE (FragQ cs K ts s.cur) ts e s) (hcs : s.cs = cs)
    (k : P α Unit) (Q : Unit → BP α → Prop)
    (hk : ∀ (s2 : BP α), GE (FragQ cs K ts s2.cur) ts e s2 → s2.cs = cs → s.cur ≤ s2.cur →
      (s.cur < ts.length → s.cur < s2.cur) → Sat k s2 Q) :
    Sat (textLineK (α := α) k) s Q := by
  unfold textLineK
  refine Sat.bind (currentOffset_sat h.g ?_)
  refine Sat.bind (Sat.getCur ?_)
  refine Sat.bind (Sat.mono ((consumeWhile_ge _ h).covWithCs (consumeWhile_indA _)) ?_)
  rintro _ s1 ⟨⟨g1, c1, -, -, hend⟩, cs1⟩
  refine Sat.bind (Sat.mono ((consumeK_ge _ g1).covWithCs (consumeK_indA _)) ?_)
  rintro r2 s2 ⟨⟨g2, h2⟩, cs2⟩
  have hprog : s1.cur ≤ s2.cur ∧ (s.cur < ts.length → s.cur < s2.cur) := by
    cases r2 with
    | some nl =>
      obtain ⟨-, -, c2⟩ := h2
      exact ⟨by omega, fun _ => by omega⟩
    | none =>
      obtain ⟨c2, hk'⟩ := h2
      refine ⟨by omega, fun hlt => ?_⟩
      rcases Nat.lt_or_ge s.cur s1.cur with h' | h'
      · omega
      · exfalso
        have e1 : s1.cur = s.cur := by omega
        have hget : ts[s1.cur]? = some ts[s1.cur] := List.getElem?_eq_getElem (by omega)
        have := hend _ hget
        apply hk'
        rw [hget]
        simp only [Option.map_some, Option.some.injEq]
        simpa using this
  refine Sat.bind (Sat.get ?_)
  dsimp only
  have hle : s.cur ≤ s2.cur := by omega
  have hcs2 : s2.cs = cs := by rw [cs2, cs1, hcs]
  have hr : RunAt (offAt ts s.cur) ((s2.toks.take s2.cur).drop s.cur) := by
    rw [g2.g.toks]; exact slice_runAt hw.wf.run hle
  refine Sat.bind (bpText_sat hr ?_)
  have hcov : ∀ i, s.cur ≤ i → i < s2.cur → ∀ t, ts[i]? = some t → CoreTok cs t →
      (buildText (offAt ts s.cur) ((s2.toks.take s2.cur).drop s.cur)).isTextEmpty s2.cs = false ∧
      (buildText (offAt ts s.cur) ((s2.toks.take s2.cur).drop s.cur)).holds (tokBodyStart t) t.stop := by
    intro i k1 k2 t ht hct
    have hm : t ∈ (s2.toks.take s2.cur).drop s.cur := by rw [g2.g.toks]; exact cover_mem_slice k1 k2 ht
    rw [hcs2]
    exact ⟨frag_run_not_empty hm hct, frag_run hr hm (hct.hasBody hr.2 hm)⟩
  split
  · refine Sat.bind (Sat.pushEv ?_)
    refine hk _ (g2.push (g2.evs.pushCover _ ?_)) hcs2 hle hprog.2
    intro i k1 k2 t ht hct
    exact Or.inr (hcov i k1 k2 t ht hct).2
  · rename_i hemp
    refine hk _ (g2.mono (fun hi => hi.advance ?_)) hcs2 hle hprog.2
    intro i k1 k2 t ht hct
    exfalso
    obtain ⟨m2, -⟩ := hcov i k1 k2 t ht hct
    apply hemp
    rw [m2]; rfl

theorem textBlockLoop_fq (hw : WFI off w ts) (fuel : Nat) (h : GE (FragQ cs K ts s.cur) ts e s)
    (hcs : s.cs = cs) (hf : ts.length - s.cur ≤ fuel) :
    Sat (textBlockLoop (α := α) fuel) s
      (fun _ s' => GE (FragQ cs K ts ts.length) ts e s' ∧ s'.cur = ts.length) := by
  have hle := h.le
  induction fuel generalizing s with
  | zero =>
    unfold textBlockLoop
    refine Sat.bind (restToks_sat h.g ?_)
    have : ts.drop s.cur = [] := List.drop_eq_nil_of_le (by omega)
    rw [this]
    have e1 : s.cur = ts.length := by omega
    exact Sat.pure ⟨by rw [← e1]; exact h, e1⟩
  | succ fuel ih =>
    unfold textBlockLoop
    refine Sat.bind (restToks_sat h.g ?_)
    split
    · rename_i hemp
      have := drop_isEmpty_true hemp
      have e1 : s.cur = ts.length := by omega
      exact Sat.pure ⟨by rw [← e1]; exact h, e1⟩
    · rename_i hemp
      have hlt := drop_isEmpty_false (by simpa using hemp)
      have tail : ∀ s1 : BP α, GE (FragQ cs K ts s1.cur) ts e s1 → s1.cs = cs → s.cur ≤ s1.cur →
          Sat (textLineK (α := α) (textBlockLoop fuel)) s1
            (fun _ s' => GE (FragQ cs K ts ts.length) ts e s' ∧ s'.cur = ts.length) := by
        intro s1 g1 cs1 c1
        refine textLineK_fq hw g1 cs1 _ _ ?_
        intro s2 g2 cs2 c2 hp
        have hle2 := g2.le
        have hle1 := g1.le
        refine ih g2 cs2 ?_ g2.le
        rcases Nat.lt_or_ge s1.cur ts.length with h' | h'
        · have := hp h'; omega
        · omega
      refine Sat.bind (Sat.mono ((consumeK_ge _ h).covWithCs (consumeK_indA _)) ?_)
      rintro r1 s1 ⟨⟨g1, h1⟩, cs1⟩
      cases r1 with
      | none => exact tail s1 (by rw [h1.1]; exact g1) (by rw [cs1, hcs]) (by omega)
      | some m =>
        obtain ⟨hm, hmk, c1⟩ := h1
        have g1' : GE (FragQ cs K ts s1.cur) ts e s1 := by
          refine g1.fqAdv ?_
          intro i k1 k2 t ht hct
          have : i = s.cur := by omega
          subst this
          rw [hm] at ht
          simp only [Option.some.injEq] at ht
          subst ht
          exact hct.1.2.2.2.2.2 hmk
        dsimp only
        refine Sat.bind (Sat.mono ((consumeK_ge _ g1').covWithCs (consumeK_indA _)) ?_)
        rintro r2 s2 ⟨⟨g2, h2⟩, cs2⟩
        cases r2 with
        | none => exact tail s2 (by rw [h2.1]; exact g2) (by rw [cs2, cs1, hcs]) (by omega)
        | some w' =>
          obtain ⟨hw', hwk, c2⟩ := h2
          refine tail s2 ?_ (by rw [cs2, cs1, hcs]) (by omega)
          refine g2.fqAdv ?_
          intro i k1 k2 t ht hct
          have : i = s1.cur := by omega
          subst this
          rw [hw'] at ht
          simp only [Option.some.injEq] at ht
          subst ht
          exact hct.1.2.2.1 hwk

theorem parseTextBlock_fq (hw : WFI off w ts) (h : GE (FragQ cs K ts s.cur) ts e s) (hcs : s.cs = cs) :
    Sat (parseTextBlock (α := α)) s
      (fun _ s' => GE (FragQ cs K ts ts.length) ts e s' ∧ s'.cur = ts.length) := by
  unfold parseTextBlock
  refine Sat.bind (Sat.pushEv ?_)
  have g1 : GE (FragQ cs K ts s.cur) ts e { s with evs := s.evs.push (.start .text) } := h.push (h.evs.push _)
  refine Sat.bind (restToks_sat g1.g ?_)
  refine Sat.bind (Sat.mono (textBlockLoop_fq hw _ g1 hcs (by simp)) ?_)
  rintro _ s2 ⟨g2, c2⟩
  exact Sat.pushEv ⟨g2.push (g2.evs.push _), c2⟩

/-! ### section and metadata lines -/

/-- every content token of the block is carried by the event -/
def EvCarriesAll (cs : CharSpec) (ts : List Tok) (ev : Ev α) : Prop :=
  ∀ (i : Nat) (t : Tok), ts[i]? = some t → CoreTok cs t → ev.carries cs (tokBodyStart t) t.stop

theorem sectionP_fq (hw : WFI off w ts) (h : G ts e s) (h0 : s.cur = 0) (hcs : s.cs = cs) :
    Sat (sectionP (α := α)) s (fun r _ => ∀ ev, r = some ev → EvCarriesAll cs ts ev) := by
  unfold sectionP
  refine Sat.bind (Sat.mono ((consumeK_sat _ h).covWithCs (consumeK_indA _)) ?_)
  rintro r1 s1 ⟨⟨g1, h1⟩, cs1⟩
  cases r1 with
  | none => exact Sat.pure (fun ev hev => by cases hev)
  | some m =>
    obtain ⟨hm, hmk, c1⟩ := h1
    refine Sat.bind (Sat.mono ((consumeWhile_sat _ g1).covWithCs (consumeWhile_indA _)) ?_)
    rintro eq1 s2 ⟨⟨g2, c2, he1, hall1, -⟩, cs2⟩
    refine Sat.bind (currentOffset_sat g2 ?_)
    refine Sat.bind (Sat.mono ((consumeWhile_sat _ g2).covWithCs (consumeWhile_indA _)) ?_)
    rintro nameT s3 ⟨⟨g3, c3, hn, -, -⟩, cs3⟩
    have hr : RunAt (offAt ts s2.cur) nameT := by rw [hn]; exact slice_runAt hw.wf.run c3
    refine Sat.bind (bpText_sat hr ?_)
    refine Sat.bind (Sat.mono ((consumeWhile_sat _ g3).covWithCs (consumeWhile_indA _)) ?_)
    rintro eq2 s4 ⟨⟨g4, c4, he2, hall2, -⟩, cs4⟩
    unfold wsComments
    refine Sat.bind (Sat.mono ((consumeWhile_sat _ g4).covWithCs (consumeWhile_indA _)) ?_)
    rintro wsT s5 ⟨⟨g5, c5, he3, hall3, -⟩, cs5⟩
    refine Sat.bind (restToks_sat g5 ?_)
    split
    · refine Sat.bind (Sat.pwarnE ?_)
      exact Sat.pure (fun ev hev => by cases hev)
    · rename_i hemp
      refine Sat.bind (Sat.get ?_)
      have hlen := drop_isEmpty_true (ts := ts) (c := s5.cur) (by simpa using hemp)
      have hcs5 : s5.cs = cs := by rw [cs5, cs4, cs3, cs2, cs1, hcs]
      refine Sat.pure ?_
      intro ev hev i t ht hct
      simp only [Option.some.injEq] at hev
      subst hev
      have hi : i < ts.length := getElem?_lt ht
      by_cases a0 : i < s1.cur
      · exfalso
        have : i = s.cur := by omega
        subst this
        rw [hm] at ht
        simp only [Option.some.injEq] at ht
        subst ht
        exact hct.1.2.2.2.2.1 hmk
      by_cases a1 : i < s2.cur
      · exfalso
        have := hall1 t (by rw [he1]; exact cover_mem_slice (by omega) a1 ht)
        exact hct.1.2.2.2.2.1 (by simpa using this)
      by_cases a2 : i < s3.cur
      · have hm' : t ∈ nameT := by rw [hn]; exact cover_mem_slice (by omega) a2 ht
        have hne : (buildText (offAt ts s2.cur) nameT).isTextEmpty s5.cs = false := by
          rw [hcs5]; exact frag_run_not_empty hm' hct
        simp only [hne, Bool.false_eq_true, if_false]
        exact ⟨_, rfl, frag_run hr hm' (hct.hasBody hr.2 hm')⟩
      by_cases a3 : i < s4.cur
      · exfalso
        have := hall2 t (by rw [he2]; exact cover_mem_slice (by omega) a3 ht)
        exact hct.1.2.2.2.2.1 (by simpa using this)
      · exfalso
        have := hall3 t (by rw [he3]; exact cover_mem_slice (by omega) (by omega) ht)
        rw [hct.1.notWsComment] at this; cases this

theorem metadataEntry_fq (hw : WFI off w ts) (h : G ts e s) (h0 : s.cur = 0) :
    Sat (metadataEntry (α := α)) s (fun r _ => ∀ ev, r = some ev → EvCarriesAll cs ts ev) := by
  unfold metadataEntry
  refine Sat.bind (Sat.mono (consumeK_sat _ h) ?_)
  rintro r1 s1 ⟨g1, h1⟩
  cases r1 with
  | none => exact Sat.pure (fun ev hev => by cases hev)
  | some m =>
    obtain ⟨hm, hmk, c1⟩ := h1
    refine Sat.bind (currentOffset_sat g1 ?_)
    refine Sat.bind (Sat.mono (untilK_sat _ g1) ?_)
    rintro r2 s2 ⟨g2, h2⟩
    cases r2 with
    | none =>
      unfold bpSpan
      refine Sat.bind (Sat.bind (Sat.get ?_))
      refine tokensSpanP_sat (by rw [g2.toks]; exact hw.ne) ?_
      refine Sat.bind (Sat.pwarnE ?_)
      exact Sat.pure (fun ev hev => by cases hev)
    | some keyT =>
      obtain ⟨c2, hkey, ⟨c, hcl, hck⟩, -⟩ := h2
      have hr : RunAt (offAt ts s1.cur) keyT := by rw [hkey]; exact slice_runAt hw.wf.run c2
      refine Sat.bind (bpText_sat hr ?_)
      refine Sat.bind (Sat.mono (bump_sat g2 hcl (by simpa using hck)) ?_)
      rintro _ s3 ⟨-, g3, c3⟩
      refine Sat.bind (currentOffset_sat g3 ?_)
      refine Sat.bind (Sat.mono (consumeRest_sat g3) ?_)
      rintro valT s4 ⟨g4, c4, hv⟩
      have hr2 : RunAt (offAt ts s3.cur) valT := by rw [hv]; exact slice_runAt hw.wf.run g3.le
      refine Sat.bind (bpText_sat hr2 ?_)
      refine Sat.bind (Sat.get ?_)
      dsimp only
      have key : EvCarriesAll cs ts (Ev.metadata (α := α) (buildText (offAt ts s1.cur) keyT)
          (buildText (offAt ts s3.cur) valT)) := by
        intro i t ht hct
        have hi : i < ts.length := getElem?_lt ht
        by_cases a0 : i < s1.cur
        · exfalso
          have : i = s.cur := by omega
          subst this
          rw [hm] at ht
          simp only [Option.some.injEq] at ht
          subst ht
          exact hct.1.2.2.2.1 hmk
        by_cases a1 : i < s2.cur
        · have hm' : t ∈ keyT := by rw [hkey]; exact cover_mem_slice (by omega) a1 ht
          exact Or.inl (frag_run hr hm' (hct.hasBody hr.2 hm'))
        by_cases a2 : i < s3.cur
        · exfalso
          have : i = s2.cur := by omega
          subst this
          rw [hcl] at ht
          simp only [Option.some.injEq] at ht
          subst ht
          exact hct.kindNe (k := .colon) (by decide) (by simpa using hck)
        · have hm' : t ∈ valT := by rw [hv]; exact cover_mem_slice (by omega) hi ht
          exact Or.inr (frag_run hr2 hm' (hct.hasBody hr2.2 hm'))
      have fin : ∀ s' : BP α, Sat (pure (some (Ev.metadata (α := α) (buildText (offAt ts s1.cur) keyT)
          (buildText (offAt ts s3.cur) valT))) : P α (Option (Ev α))) s'
          (fun r _ => ∀ ev, r = some ev → EvCarriesAll cs ts ev) := by
        intro s'
        refine Sat.pure ?_
        intro ev hev
        simp only [Option.some.injEq] at hev
        subst hev
        exact key
      split
      · refine Sat.bind (Sat.perrE ?_)
        exact fin _
      · split
        · refine Sat.bind (Sat.pwarnE ?_)
          exact fin _
        · exact fin _

/-! ### blocks -/

theorem parseMultilineBlock_fq (hw : WFI off w ts) (hz : Boundary off w 0)
    (h : GE (FragQ cs K ts s.cur) ts e s) (hcs : s.cs = cs) :
    Sat (parseMultilineBlock (α := α)) s
      (fun _ s' => GE (FragQ cs K ts ts.length) ts e s' ∧ s'.cur = ts.length) := by
  unfold parseMultilineBlock
  refine Sat.bind (allToks_sat h.g ?_)
  split
  · rename_i hall
    refine Sat.bind (Sat.mono (consumeRest_ge h) ?_)
    rintro _ s1 ⟨g1, c1, -⟩
    refine Sat.pure ⟨g1.fqAdv ?_, c1⟩
    intro i _ _ t ht hct
    rw [List.all_eq_true] at hall
    have := hall t (List.mem_of_getElem? ht)
    rw [hct.1.notEmptyTok] at this; cases this
  · refine Sat.bind (peekK_sat h.g ?_)
    split
    · exact parseTextBlock_fq hw h hcs
    · exact parseStep_fq hw hz h hcs

theorem parseBlock_fq (oldStyle : Bool) (hw : WFI off w ts) (hz : Boundary off w 0)
    (h : GE (FragQ cs K ts 0) ts e s) (h0 : s.cur = 0) (hcs : s.cs = cs) :
    Sat (parseBlock (α := α) oldStyle) s
      (fun _ s' => GE (FragQ cs K ts ts.length) ts e s' ∧ s'.cur = ts.length) := by
  have hc : Ctx off w (FragQ (α := α) cs K ts 0) ts := upCtx hw FragQ.up
  unfold parseBlock
  apply Sat.bind
  apply Sat.mono (Q := fun r s' => GE (FragQ cs K ts 0) ts e s' ∧ s'.cs = cs ∧
    match r with
    | none => s'.cur = 0
    | some ev => s'.cur = ts.length ∧ EvCarriesAll cs ts ev)
  · refine Sat.bind (peekK_sat h.g ?_)
    split
    · apply withRecover_sat
      refine Sat.bind (Sat.mono (((metadataEntry_ev hc h).covBoth
        (metadataEntry_fq (cs := cs) hw h.g h0)).covWithCs metadataEntry_indA) ?_)
      rintro r1 s1 ⟨⟨⟨g1, h1, -⟩, hcv⟩, cs1⟩
      have hcs1 : s1.cs = cs := by rw [cs1, hcs]
      split
      · refine Sat.bind (Sat.get ?_)
        refine Sat.bind (hasExt_sat g1.g ?_)
        split
        · exact Sat.pure ⟨g1, hcs1, h1 rfl, hcv _ rfl⟩
        · exact Sat.pure ⟨g1.setCur h.le, hcs1, h0⟩
      · exact Sat.pure ⟨g1.setCur h.le, hcs1, h0⟩
    · apply withRecover_sat
      refine Sat.mono (((sectionP_ev hc h).covBoth
        (sectionP_fq (cs := cs) hw h.g h0 hcs)).covWithCs sectionP_indA) ?_
      rintro r1 s1 ⟨⟨⟨g1, h1, -⟩, hcv⟩, cs1⟩
      have hcs1 : s1.cs = cs := by rw [cs1, hcs]
      cases r1 with
      | none => exact ⟨g1.setCur h.le, hcs1, h0⟩
      | some ev => exact ⟨g1, hcs1, h1 rfl, hcv ev rfl⟩
    · exact Sat.pure ⟨h, hcs, h0⟩
  rintro r s1 ⟨g1, cs1, h1⟩
  cases r with
  | some ev =>
    obtain ⟨c1, hcv⟩ := h1
    exact Sat.pushEv ⟨g1.push (g1.evs.pushCover ev (fun i _ _ t ht hct => Or.inr (hcv i t ht hct))), c1⟩
  | none =>
    dsimp only at h1
    exact parseMultilineBlock_fq hw hz (by rw [h1]; exact g1) cs1

/-- **one block, any shape** -/
theorem runBlock_fq (cs : CharSpec) (ext : Ext) (oldStyle : Bool) (blk : List Tok) (evs : Array (Ev α))
    (hw : WFI off w blk) (hz : Boundary off w 0) (hK : FragQ cs K blk 0 evs) :
    FragQ cs K blk blk.length (runBlock cs ext oldStyle blk evs none).1 := by
  have g0 : GE (FragQ cs K blk 0) blk ext (⟨blk, 0, ext, cs, evs, none⟩ : BP α) :=
    ⟨⟨rfl, rfl, rfl, Nat.zero_le _⟩, hK⟩
  have hne : blk.isEmpty = false := by
    have := hw.ne
    cases blk <;> simp_all
  have key : Sat (do
      if blk.isEmpty then panicWith "BlockParser::new: empty tokens"
      parseBlock (α := α) oldStyle
      let s ← get
      if s.cur ≠ s.toks.length then panicWith "Block tokens not parsed") ⟨blk, 0, ext, cs, evs, none⟩
      (fun _ s' => FragQ cs K blk blk.length s'.evs) := by
    simp only [hne, Bool.false_eq_true, if_false]
    refine Sat.bind (Sat.mono (parseBlock_fq oldStyle hw hz g0 rfl rfl) ?_)
    rintro _ s1 ⟨g1, c1⟩
    refine Sat.bind (Sat.get ?_)
    have : s1.cur = s1.toks.length := by rw [g1.g.toks]; exact c1
    simp only [this, ne_eq, not_true_eq_false, if_false]
    exact Sat.pure g1.evs
  exact key

/-! ### whole token streams -/

theorem foldl_runBlock_fq (cs : CharSpec) (ext : Ext) (oldStyle : Bool) (blocks : List (List Tok))
    (K : Tok → Prop) (acc : Array (Ev α) × Option String) {b : Nat} (hz : Boundary off w 0)
    (hbl : BlocksIn off w b blocks) (hp : acc.2 = none)
    (hK : HasErrEv acc.1 ∨ ∀ t, K t → TokCarried cs acc.1 t) :
    HasErrEv (blocks.foldl (fun acc blk => runBlock (α := α) cs ext oldStyle blk acc.1 acc.2) acc).1 ∨
    ((∀ t, K t → TokCarried cs
      (blocks.foldl (fun acc blk => runBlock (α := α) cs ext oldStyle blk acc.1 acc.2) acc).1 t) ∧
    ∀ blk ∈ blocks, ∀ t ∈ blk, CoreTok cs t → TokCarried cs
      (blocks.foldl (fun acc blk => runBlock (α := α) cs ext oldStyle blk acc.1 acc.2) acc).1 t) := by
  induction blocks generalizing K acc b with
  | nil =>
    rcases hK with h | h
    · exact Or.inl h
    · exact Or.inr ⟨h, fun blk hb => by cases hb⟩
  | cons blk bs ih =>
    rw [List.foldl_cons]
    obtain ⟨hw, hb, hrest⟩ := hbl
    have h1 := runBlock_no_panic (α := α) cs ext oldStyle blk acc.1 hw.wf
    have hK0 : FragQ cs K blk 0 acc.1 := by
      rcases hK with h | h
      · exact Or.inl h
      · exact Or.inr ⟨h, fun i hi => absurd hi (Nat.not_lt_zero _)⟩
    have hcov := runBlock_fq (K := K) cs ext oldStyle blk acc.1 hw hz hK0
    have hnext : HasErrEv (runBlock (α := α) cs ext oldStyle blk acc.1 acc.2).1 ∨
        ∀ t, (K t ∨ (t ∈ blk ∧ CoreTok cs t)) →
          TokCarried cs (runBlock (α := α) cs ext oldStyle blk acc.1 acc.2).1 t := by
      rw [hp]
      rcases hcov with h | ⟨k1, k2⟩
      · exact Or.inl h
      · right
        rintro t (ht | ⟨ht, hct⟩)
        · exact k1 t ht
        · obtain ⟨i, hi, hget⟩ := List.mem_iff_getElem.1 ht
          exact k2 i hi t (by rw [List.getElem?_eq_getElem hi, hget]) hct
    rcases ih (fun t => K t ∨ (t ∈ blk ∧ CoreTok cs t))
      (runBlock (α := α) cs ext oldStyle blk acc.1 acc.2) hrest (by rw [hp]; exact h1) hnext with h | ⟨k1, k2⟩
    · exact Or.inl h
    · refine Or.inr ⟨fun t ht => k1 t (Or.inl ht), ?_⟩
      intro blk' hb' t ht hct
      simp only [List.mem_cons] at hb'
      rcases hb' with rfl | hb'
      · exact k1 t (Or.inr ⟨ht, hct⟩)
      · exact k2 blk' hb' t ht hct

theorem frag_core_in_block {cs : CharSpec} (ts : List Tok) {t : Tok} (ht : t ∈ ts) (hct : CoreTok cs t) :
    ∃ b ∈ allBlocks (ts.length + 1) ts, t ∈ b := cov_wordy_in_block ts ht hct.1

/-- **the whole input**: the stream has an `Error` event, or every content token of the body is carried
    by an event of the pull parser -/
theorem pullEvents_fq (cs : CharSpec) (ext : Ext) (input : List Char) :
    HasErrEv (pullEvents (α := α) cs ext input).1 ∨
    ∀ t ∈ bodyToks cs input, CoreTok cs t → TokCarried cs (pullEvents (α := α) cs ext input).1 t := by
  have hz : Boundary 0 input 0 := Boundary.first
  have hfm := frontMatterOffsetsOK cs input
  unfold pullEvents bodyToks
  cases hp : parseFrontmatter cs input with
  | none =>
    simp only
    have hbl : BlocksIn 0 input 0 (allBlocks ((lex cs input).length + 1) (lex cs input)) := by
      apply allBlocks_blocksIn _ _ 0 _ (Nat.le_refl _)
      unfold lex
      exact ⟨⟨lexFrom_chain cs 0 input, lexFrom_escapedOK cs 0 input⟩,
        ⟨[], [], by simp [lexFrom_tile], by simp [utf8Len]⟩⟩
    rcases foldl_runBlock_fq (α := α) cs ext true _ (fun _ => False) (#[], none) hz hbl rfl
      (Or.inr (fun _ h => h.elim)) with h | ⟨-, k2⟩
    · exact Or.inl h
    · right
      intro t ht hct
      obtain ⟨b, hb, htb⟩ := frag_core_in_block _ ht hct
      exact k2 b hb t htb hct
  | some fm =>
    simp only
    obtain ⟨⟨pre, h1, h2⟩, -⟩ := hfm fm hp
    have hbl : BlocksIn 0 input 0 (allBlocks ((lexFrom cs fm.cookOffset fm.cookText).length + 1)
        (lexFrom cs fm.cookOffset fm.cookText)) := by
      apply allBlocks_blocksIn _ _ fm.cookOffset _ (Nat.zero_le _)
      exact ⟨⟨lexFrom_chain cs _ _, lexFrom_escapedOK cs _ _⟩,
        ⟨pre, [], by simp [lexFrom_tile, h1], by simp [h2]⟩⟩
    rcases foldl_runBlock_fq (α := α) cs ext false _ (fun _ => False) (_, none) hz hbl rfl
      (Or.inr (fun _ h => h.elim)) with h | ⟨-, k2⟩
    · exact Or.inl h
    · right
      intro t ht hct
      obtain ⟨b, hb, htb⟩ := frag_core_in_block _ ht hct
      exact k2 b hb t htb hct

end Cook
