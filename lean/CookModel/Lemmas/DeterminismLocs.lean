import CookModel.Analysis.Collector
import CookModel.Lemmas.Collector
/-
  C18: the collector's `locations.metadata` (`HashMap<StdKey, (Text, Text)>`,
  src/analysis/event_consumer.rs:106-111) is modelled by the association list `Col.metaLocs`.
  Here: the analysis fold is a congruence for "same entries in another order" — two collector states
  that differ only in the order of the entries of that map are taken by every event to two such
  states, with the same diagnostics, panic flag and every other field.  So no result of a parse can
  depend on the enumeration order of that map.  (`detl_` prefix; mirrors the relational tactic of
  Lemmas/CollectorMeta.lean.)
-/
set_option linter.unusedSectionVars false
set_option linter.tactic.unusedName false
set_option linter.unusedVariables false
namespace Cook
variable {α : Type} [Arith α]

/-- same entries (unique keys) in another order -/
def LocsEq (m m' : List (StdKey × Span)) : Prop := m.Perm m' ∧ (m.map (·.1)).Nodup

def setLocs (m : List (StdKey × Span)) (s : Col α) : Col α := { s with metaLocs := m }

/-- the two collector states differ at most in the order of the entries of `locations.metadata` -/
def Rl (s s' : Col α) : Prop := ∃ m', s' = setLocs m' s ∧ LocsEq s.metaLocs m'

theorem LocsEq.refl {m : List (StdKey × Span)} (h : (m.map (·.1)).Nodup) : LocsEq m m := ⟨List.Perm.refl _, h⟩

theorem Rl.refl (s : Col α) (h : (s.metaLocs.map (·.1)).Nodup) : Rl s s := ⟨s.metaLocs, rfl, LocsEq.refl h⟩

/-- lookup by key does not see the order -/
theorem detl_find_perm {m m' : List (StdKey × Span)} (h : LocsEq m m') (k : StdKey) :
    m'.find? (fun p => p.1 == k) = m.find? (fun p => p.1 == k) := by
  obtain ⟨hp, hu⟩ := h
  induction hp with
  | nil => rfl
  | cons x _ ih =>
    simp only [List.map_cons, List.nodup_cons] at hu
    simp only [List.find?_cons, ih hu.2]
  | swap x y l =>
    simp only [List.map_cons, List.nodup_cons, List.mem_cons, not_or] at hu
    have hne : ¬ y.1 = x.1 := hu.1.1
    simp only [List.find?_cons]
    by_cases h1 : x.1 = k
    · have h2 : (y.1 == k) = false := by simpa using fun h => hne (h.trans h1.symm)
      have h1' : (x.1 == k) = true := by simpa using h1
      simp [h1', h2]
    · have h1' : (x.1 == k) = false := by simpa using h1
      simp [h1']
  | trans h1 _ ih1 ih2 =>
    rw [ih2 ((h1.map _).nodup_iff.1 hu), ih1 hu]

theorem detl_filter {m m' : List (StdKey × Span)} (h : LocsEq m m') (p : StdKey × Span → Bool) :
    LocsEq (m.filter p) (m'.filter p) :=
  ⟨h.1.filter p, h.2.sublist ((List.filter_sublist (l := m)).map _)⟩

theorem detl_replace {m m' : List (StdKey × Span)} (h : LocsEq m m') (sk : StdKey) (sp : Span) :
    LocsEq (m.filter (fun p => p.1 != sk) ++ [(sk, sp)]) (m'.filter (fun p => p.1 != sk) ++ [(sk, sp)]) := by
  refine ⟨(detl_filter h _).1.append_right _, ?_⟩
  rw [List.map_append, List.nodup_append]
  refine ⟨(detl_filter h _).2, by simp, ?_⟩
  intro a ha b hb
  simp only [List.map_cons, List.map_nil, List.mem_singleton] at hb
  subst hb
  obtain ⟨x, hx, rfl⟩ := List.mem_map.1 ha
  have := (List.mem_filter.1 hx).2
  simpa using this

/-- `f` and `f'` take states that differ only in the order of the map entries to such states, with
    the same value -/
structure NI {β : Type} (f f' : A α β) : Prop where
  run : ∀ s s', Rl s s' → (f s).1 = (f' s').1 ∧ Rl (f s).2 (f' s').2

theorem NI.pure {β : Type} (a : β) : NI (α := α) (pure a) (pure a) := ⟨fun _ _ h => ⟨rfl, h⟩⟩

theorem NI.bind {β γ : Type} {f f' : A α β} {g g' : β → A α γ}
    (hf : NI f f') (hg : ∀ a, NI (g a) (g' a)) : NI (f >>= g) (f' >>= g') := by
  refine ⟨fun s s' h => ?_⟩
  have h1 := hf.run s s' h
  have h2 := (hg (f s).1).run (f s).2 (f' s').2 h1.2
  have e1 : (f >>= g) s = g (f s).1 (f s).2 := rfl
  have e2 : (f' >>= g') s' = g' (f' s').1 (f' s').2 := rfl
  rw [e1, e2, ← h1.1]
  exact h2

theorem NI.get_bind {γ : Type} {g g' : Col α → A α γ}
    (hg : ∀ (s0 : Col α) (m' : List (StdKey × Span)), LocsEq s0.metaLocs m' → NI (g s0) (g' (setLocs m' s0))) :
    NI ((get : A α (Col α)) >>= g) ((get : A α (Col α)) >>= g') := by
  refine ⟨fun s s' h => ?_⟩
  obtain ⟨m', rfl, hl⟩ := h
  exact (hg s m' hl).run s (setLocs m' s) ⟨m', rfl, hl⟩

/-- the continuation does not look at the map of the state it was handed -/
theorem NI.get_bind_same {γ : Type} {g : Col α → A α γ}
    (hsame : ∀ (s0 : Col α) (m' : List (StdKey × Span)), g (setLocs m' s0) = g s0)
    (hg : ∀ s0 : Col α, NI (g s0) (g s0)) :
    NI ((get : A α (Col α)) >>= g) ((get : A α (Col α)) >>= g) :=
  NI.get_bind (fun s0 m' _ => by rw [hsame]; exact hg s0)

theorem NI.set (x : Col α) (m' : List (StdKey × Span)) (h : LocsEq x.metaLocs m') :
    NI (α := α) (set x : A α PUnit) (set (setLocs m' x)) :=
  ⟨fun _ _ _ => ⟨rfl, m', rfl, h⟩⟩

/-- a modification that neither reads nor writes the map -/
theorem NI.modifyK (k : Col α → Col α) (h1 : ∀ s m, k (setLocs m s) = setLocs m (k s))
    (h2 : ∀ s, (k s).metaLocs = s.metaLocs) : NI (α := α) (modify k : A α PUnit) (modify k) := by
  refine ⟨fun s s' h => ⟨rfl, ?_⟩⟩
  obtain ⟨m', rfl, hl⟩ := h
  refine ⟨m', h1 s m', ?_⟩
  show LocsEq (k s).metaLocs m'
  rw [h2]; exact hl

/-- a modification of the map itself that respects "same entries in another order" -/
theorem NI.modifyLocs (F : List (StdKey × Span) → List (StdKey × Span))
    (hF : ∀ m m', LocsEq m m' → LocsEq (F m) (F m')) :
    NI (α := α) (modify (fun s => { s with metaLocs := F s.metaLocs }) : A α PUnit)
      (modify (fun s => { s with metaLocs := F s.metaLocs })) := by
  refine ⟨fun s s' h => ⟨rfl, ?_⟩⟩
  obtain ⟨m', rfl, hl⟩ := h
  exact ⟨F m', rfl, hF _ _ hl⟩

theorem ni_apanic (site : String) : NI (α := α) (apanic site) (apanic site) := by
  unfold apanic
  apply NI.modifyK
  · intro s m; by_cases h : s.panic.isNone = true <;> simp [setLocs, h]
  · intro s; split <;> rfl
theorem ni_aerr (k : String) (l : List Span) : NI (α := α) (aerr k l) (aerr k l) := by
  unfold aerr; exact NI.modifyK _ (fun _ _ => rfl) (fun _ => rfl)
theorem ni_awarn (k : String) (l : List Span) : NI (α := α) (awarn k l) (awarn k l) := by
  unfold awarn; exact NI.modifyK _ (fun _ _ => rfl) (fun _ => rfl)

syntax "ni_leaf" : tactic
macro_rules | `(tactic| ni_leaf) => `(tactic| with_reducible exact NI.pure _)
macro_rules | `(tactic| ni_leaf) => `(tactic| with_reducible exact ni_apanic _)
macro_rules | `(tactic| ni_leaf) => `(tactic| with_reducible exact ni_aerr _ _)
macro_rules | `(tactic| ni_leaf) => `(tactic| with_reducible exact ni_awarn _ _)
macro_rules | `(tactic| ni_leaf) => `(tactic| (with_reducible apply NI.modifyK) <;> (intros; rfl))
macro_rules | `(tactic| ni_leaf) => `(tactic| (refine NI.set _ _ ?_) <;> assumption)

syntax "nit" : tactic
macro_rules | `(tactic| nit) => `(tactic| repeat' (first
  | intro _
  | ni_leaf
  | dsimp only [setLocs]
  | (with_reducible refine NI.get_bind_same (fun _ _ => rfl) ?_
     intro s0)
  | (with_reducible apply NI.get_bind
     intro s0 m0 hl0
     have hf0 := fun k => detl_find_perm hl0 k
     try dsimp only [setLocs]
     try simp only [hf0])
  | with_reducible apply NI.bind
  | split))

/-- variant that keeps the join points of the `do` blocks as local definitions (no duplication) -/
syntax "nitj" : tactic
macro_rules | `(tactic| nitj) => `(tactic| repeat' (first
  | intro _
  | ni_leaf
  | with_reducible apply_assumption (maxDepth := 1) -exfalso -symm
  | (extract_lets +onlyGivenNames x
     first
       | (have hjp : ∀ r, NI (x r) (x r) := by (intro r; unfold x; nitj))
       | (have hjp : ∀ r r', NI (x r r') (x r r') := by (intro r r'; unfold x; nitj))
       | skip
     try clear_value x)
  | dsimp -zeta only [setLocs]
  | (with_reducible refine NI.get_bind_same (fun _ _ => rfl) ?_
     intro s0)
  | with_reducible apply NI.bind
  | split))

theorem NI.forIn {β γ : Type} (l : List γ) (init : β) (body body' : γ → β → A α (ForInStep β))
    (h : ∀ a b, NI (body a b) (body' a b)) : NI (forIn l init body) (forIn l init body') := by
  induction l generalizing init with
  | nil => simp only [List.forIn_nil]; exact NI.pure _
  | cons a l ih =>
    simp only [List.forIn_cons]
    apply NI.bind (h a init)
    intro r
    split
    · exact NI.pure _
    · exact ih _
macro_rules | `(tactic| ni_leaf) => `(tactic| with_reducible apply NI.forIn)

theorem ni_valueOf (env : Env) (v : PQValue α) (b : Bool) : NI (α := α) (valueOf env v b) (valueOf env v b) := by
  unfold valueOf; nit
macro_rules | `(tactic| ni_leaf) => `(tactic| with_reducible exact ni_valueOf _ _ _)
theorem ni_quantityOf (env : Env) (q : Loc (PQuantity α)) (b : Bool) : NI (α := α) (quantityOf env q b) (quantityOf env q b) := by
  unfold quantityOf; nit
macro_rules | `(tactic| ni_leaf) => `(tactic| with_reducible exact ni_quantityOf _ _ _)
theorem ni_resolveReference (env : Env) (c : String) (inh : Nat) (ex : List (Str × Modifiers)) (n : Str)
    (mods : Modifiers) (l ml : Span) :
    NI (α := α) (resolveReference (α := α) env c inh ex n mods l ml) (resolveReference env c inh ex n mods l ml) := by
  unfold resolveReference; nit
macro_rules | `(tactic| ni_leaf) => `(tactic| with_reducible exact ni_resolveReference _ _ _ _ _ _ _ _)
theorem ni_resolveInterRef (d : Loc InterData) : NI (α := α) (resolveInterRef (α := α) d) (resolveInterRef d) := by
  unfold resolveInterRef; nit
macro_rules | `(tactic| ni_leaf) => `(tactic| with_reducible exact ni_resolveInterRef _)
theorem ni_noteReferenceError (i : Str) (a b : Span) (c : Option Span) :
    NI (α := α) (noteReferenceError (α := α) i a b c) (noteReferenceError i a b c) := by
  unfold noteReferenceError; nit
macro_rules | `(tactic| ni_leaf) => `(tactic| with_reducible exact ni_noteReferenceError _ _ _ _)
theorem ni_optQuantityOf (env : Env) (q : Option (Loc (PQuantity α))) (b : Bool) :
    NI (α := α) (optQuantityOf (α := α) env q b) (optQuantityOf env q b) := by
  unfold optQuantityOf; nit
macro_rules | `(tactic| ni_leaf) => `(tactic| with_reducible exact ni_optQuantityOf _ _ _)
theorem ni_optValueOf (env : Env) (q : Option (Loc (PQValue α))) : NI (α := α) (optValueOf (α := α) env q) (optValueOf env q) := by
  unfold optValueOf; nit
macro_rules | `(tactic| ni_leaf) => `(tactic| with_reducible exact ni_optValueOf _ _)
theorem ni_ingrInterChecks (i : PIngredient α) (igr : Ingredient (ScalableValue α)) :
    NI (α := α) (ingrInterChecks (α := α) i igr) (ingrInterChecks i igr) := by
  unfold ingrInterChecks; nit
macro_rules | `(tactic| ni_leaf) => `(tactic| with_reducible exact ni_ingrInterChecks _ _)
theorem ni_ingrInter (i : PIngredient α) (igr : Ingredient (ScalableValue α)) (d : Loc InterData) :
    NI (α := α) (ingrInter (α := α) i igr d) (ingrInter i igr d) := by
  unfold ingrInter; nit
macro_rules | `(tactic| ni_leaf) => `(tactic| with_reducible exact ni_ingrInter _ _ _)
theorem ni_ingrUnitChecks (env : Env) (i : PIngredient α) (newQ : Quantity (ScalableValue α)) (idxs : List Nat) :
    NI (α := α) (ingrUnitChecks (α := α) env i newQ idxs) (ingrUnitChecks env i newQ idxs) := by
  unfold ingrUnitChecks; nit
macro_rules | `(tactic| ni_leaf) => `(tactic| with_reducible exact ni_ingrUnitChecks _ _ _ _)
theorem ni_ingrRefChecks (env : Env) (input : Str) (li : Loc (PIngredient α)) (igr : Ingredient (ScalableValue α))
    (refTo : Nat) (defn : Ingredient (ScalableValue α)) (defLoc : Loc (PIngredient α)) :
    NI (α := α) (ingrRefChecks (α := α) env input li igr refTo defn defLoc) (ingrRefChecks env input li igr refTo defn defLoc) := by
  unfold ingrRefChecks; nitj
macro_rules | `(tactic| ni_leaf) => `(tactic| with_reducible exact ni_ingrRefChecks _ _ _ _ _ _ _)
theorem ni_ingrSetReferencedFrom (refTo newIndex : Nat) (defn : Ingredient (ScalableValue α)) :
    NI (α := α) (ingrSetReferencedFrom (α := α) refTo newIndex defn) (ingrSetReferencedFrom refTo newIndex defn) := by
  unfold ingrSetReferencedFrom; nit
macro_rules | `(tactic| ni_leaf) => `(tactic| with_reducible exact ni_ingrSetReferencedFrom _ _ _)
theorem ni_ingrRegular (env : Env) (input : Str) (li : Loc (PIngredient α)) (igr0 : Ingredient (ScalableValue α)) :
    NI (α := α) (ingrRegular (α := α) env input li igr0) (ingrRegular env input li igr0) := by
  unfold ingrRegular; nit
macro_rules | `(tactic| ni_leaf) => `(tactic| with_reducible exact ni_ingrRegular _ _ _ _)
theorem ni_ingrBuild (env : Env) (input : Str) (li : Loc (PIngredient α)) (igr0 : Ingredient (ScalableValue α)) :
    NI (α := α) (ingrBuild (α := α) env input li igr0) (ingrBuild env input li igr0) := by
  unfold ingrBuild; nit
macro_rules | `(tactic| ni_leaf) => `(tactic| with_reducible exact ni_ingrBuild _ _ _ _)
theorem ni_cwRefChecks (input : Str) (lc : Loc (PCookware α)) (cw : Cookware (ScalableValue α))
    (defn : Cookware (ScalableValue α)) (defLoc : Loc (PCookware α)) :
    NI (α := α) (cwRefChecks (α := α) input lc cw defn defLoc) (cwRefChecks input lc cw defn defLoc) := by
  unfold cwRefChecks; nit
macro_rules | `(tactic| ni_leaf) => `(tactic| with_reducible exact ni_cwRefChecks _ _ _ _ _)
theorem ni_cwSetReferencedFrom (refTo newIndex : Nat) (defn : Cookware (ScalableValue α)) :
    NI (α := α) (cwSetReferencedFrom (α := α) refTo newIndex defn) (cwSetReferencedFrom refTo newIndex defn) := by
  unfold cwSetReferencedFrom; nit
macro_rules | `(tactic| ni_leaf) => `(tactic| with_reducible exact ni_cwSetReferencedFrom _ _ _)
theorem ni_cwResolve (env : Env) (input : Str) (lc : Loc (PCookware α)) (cw0 : Cookware (ScalableValue α)) :
    NI (α := α) (cwResolve (α := α) env input lc cw0) (cwResolve env input lc cw0) := by
  unfold cwResolve; nit
macro_rules | `(tactic| ni_leaf) => `(tactic| with_reducible exact ni_cwResolve _ _ _ _)
theorem ni_cwBuild (env : Env) (input : Str) (lc : Loc (PCookware α)) (cw0 : Cookware (ScalableValue α)) :
    NI (α := α) (cwBuild (α := α) env input lc cw0) (cwBuild env input lc cw0) := by
  unfold cwBuild; nit
macro_rules | `(tactic| ni_leaf) => `(tactic| with_reducible exact ni_cwBuild _ _ _ _)
theorem ni_timerQuantityChecks (env : Env) (q : Loc (PQuantity α)) (r : Quantity (ScalableValue α)) :
    NI (α := α) (timerQuantityChecks (α := α) env q r) (timerQuantityChecks env q r) := by
  unfold timerQuantityChecks; nit
macro_rules | `(tactic| ni_leaf) => `(tactic| with_reducible exact ni_timerQuantityChecks _ _ _)
theorem ni_timerQuantity (env : Env) (tq : Option (Loc (PQuantity α))) :
    NI (α := α) (timerQuantity (α := α) env tq) (timerQuantity env tq) := by
  unfold timerQuantity; nit
macro_rules | `(tactic| ni_leaf) => `(tactic| with_reducible exact ni_timerQuantity _ _)
theorem ni_ingredientA (env : Env) (input : Str) (li : Loc (PIngredient α)) :
    NI (α := α) (ingredientA env input li) (ingredientA env input li) := by
  unfold ingredientA; nit
macro_rules | `(tactic| ni_leaf) => `(tactic| with_reducible exact ni_ingredientA _ _ _)
theorem ni_cookwareA (env : Env) (input : Str) (lc : Loc (PCookware α)) :
    NI (α := α) (cookwareA env input lc) (cookwareA env input lc) := by
  unfold cookwareA; nit
macro_rules | `(tactic| ni_leaf) => `(tactic| with_reducible exact ni_cookwareA _ _ _)
theorem ni_timerA (env : Env) (lt : Loc (PTimer α)) : NI (α := α) (timerA env lt) (timerA env lt) := by
  unfold timerA; nit
macro_rules | `(tactic| ni_leaf) => `(tactic| with_reducible exact ni_timerA _ _)
theorem ni_inStepTextStep (env : Env) (t : Text) (items : List Item) :
    NI (α := α) (inStepTextStep (α := α) env t items) (inStepTextStep env t items) := by
  unfold inStepTextStep; nit
macro_rules | `(tactic| ni_leaf) => `(tactic| with_reducible exact ni_inStepTextStep _ _ _)
theorem ni_inStepText (env : Env) (t : Text) : NI (α := α) (inStepText (α := α) env t) (inStepText env t) := by
  unfold inStepText; nit
macro_rules | `(tactic| ni_leaf) => `(tactic| with_reducible exact ni_inStepText _ _)
theorem ni_pushItem (it : Item) : NI (α := α) (pushItem (α := α) it) (pushItem it) := by
  unfold pushItem; nit
macro_rules | `(tactic| ni_leaf) => `(tactic| with_reducible exact ni_pushItem _)
theorem ni_inStepComponent (env : Env) (input : Str) (ev : Ev α) :
    NI (α := α) (inStepComponent (α := α) env input ev) (inStepComponent env input ev) := by
  unfold inStepComponent; nit
macro_rules | `(tactic| ni_leaf) => `(tactic| with_reducible exact ni_inStepComponent _ _ _)
theorem ni_inTextComponent (input : Str) (ev : Ev α) (buf : Str) :
    NI (α := α) (inTextComponent (α := α) input ev buf) (inTextComponent input ev buf) := by
  unfold inTextComponent; nit
macro_rules | `(tactic| ni_leaf) => `(tactic| with_reducible exact ni_inTextComponent _ _ _)
theorem ni_inBlockComponent (env : Env) (input : Str) (ev : Ev α) :
    NI (α := α) (inBlockComponent env input ev) (inBlockComponent env input ev) := by
  unfold inBlockComponent; nit
macro_rules | `(tactic| ni_leaf) => `(tactic| with_reducible exact ni_inBlockComponent _ _ _)
theorem ni_endBlockContent (kind : BlockKind) : NI (α := α) (endBlockContent (α := α) kind) (endBlockContent kind) := by
  unfold endBlockContent; nit
macro_rules | `(tactic| ni_leaf) => `(tactic| with_reducible exact ni_endBlockContent _)
theorem ni_pushContent (c : Content) : NI (α := α) (pushContent (α := α) c) (pushContent c) := by
  unfold pushContent; nit
macro_rules | `(tactic| ni_leaf) => `(tactic| with_reducible exact ni_pushContent _)
theorem ni_endBlock (k : BlockKind) : NI (α := α) (endBlock (α := α) k) (endBlock k) := by
  unfold endBlock; nit
macro_rules | `(tactic| ni_leaf) => `(tactic| with_reducible exact ni_endBlock _)

/-! ### the two pieces that read and write the map -/

theorem NI.get_bind2 {γ : Type} {g g' : Col α → A α γ}
    (hg : ∀ s0 s0' : Col α, Rl s0 s0' → NI (g s0) (g' s0')) :
    NI ((get : A α (Col α)) >>= g) ((get : A α (Col α)) >>= g') :=
  ⟨fun s s' h => (hg s s' h).run s s' h⟩

theorem Rl.fields {s s' : Col α} (h : Rl s s') : s'.oldStyle = s.oldStyle ∧ LocsEq s.metaLocs s'.metaLocs := by
  obtain ⟨m', rfl, hl⟩ := h
  exact ⟨rfl, hl⟩

macro_rules | `(tactic| ni_leaf) => `(tactic| exact NI.modifyLocs (fun m => List.filter _ m) (fun _ _ h => detl_filter h _))
macro_rules | `(tactic| ni_leaf) => `(tactic| exact NI.modifyLocs (fun m => List.filter _ m ++ [_]) (fun _ _ h => detl_replace h _ _))

syntax "nit2" : tactic
macro_rules | `(tactic| nit2) => `(tactic| repeat' (first
  | intro _
  | ni_leaf
  | dsimp only
  | (with_reducible apply NI.get_bind2
     intro s0 s0' h0
     obtain ⟨e0, hl0⟩ := Rl.fields h0
     have hf0 := fun k => detl_find_perm hl0 k
     try simp only [e0, hf0])
  | with_reducible apply NI.bind
  | split))

theorem ni_timeOverrideCheck (k : StdKey) : NI (α := α) (timeOverrideCheck (α := α) k) (timeOverrideCheck k) := by
  unfold timeOverrideCheck; nit2
macro_rules | `(tactic| ni_leaf) => `(tactic| with_reducible exact ni_timeOverrideCheck _)

set_option maxHeartbeats 4000000 in
theorem ni_metadataA (env : Env) (k v : Text) : NI (α := α) (metadataA (α := α) env k v) (metadataA env k v) := by
  unfold metadataA; nit2

theorem ni_processEvent (env : Env) (input : Str) (ev : Ev α) :
    NI (α := α) (processEvent env input ev) (processEvent env input ev) := by
  cases ev <;> unfold processEvent <;> dsimp only <;> first | exact ni_metadataA _ _ _ | nit

/-! ### the fold with the map re-enumerated in an arbitrary order after every event -/

/-- `parse_events` where, after every event, the entries of `locations.metadata` are put in the order
    `shuffle i` chooses (a `HashMap` may enumerate its entries in any order, and the order may change
    with every insertion) -/
def parseEventsLoopO (shuffle : Nat → List (StdKey × Span) → List (StdKey × Span)) (env : Env) (input : Str) :
    Nat → List (Ev α) → Col α → AnalysisResult α
  | _, [], s => parseEventsLoop env input [] s
  | _, .error d :: rest, s => parseEventsLoop env input (.error d :: rest) s
  | i, ev :: rest, s =>
    parseEventsLoopO shuffle env input (i + 1) rest
      (setLocs (shuffle i (processEvent env input ev s).2.metaLocs) (processEvent env input ev s).2)

def parseEventsO (shuffle : Nat → List (StdKey × Span) → List (StdKey × Span)) (env : Env) (input : Str)
    (evs : List (Ev α)) : AnalysisResult α :=
  parseEventsLoopO shuffle env input 0 evs {}

/-- `CooklangParser::parse` over the re-enumerating fold -/
def parseRecipeO (shuffle : Nat → List (StdKey × Span) → List (StdKey × Span)) (env : Env) (input : Str) :
    AnalysisResult α :=
  let pe := pullEvents (α := α) env.cs env.ext input
  let r := parseEventsO shuffle env input pe.1.toList
  { r with panic := match pe.2 with
                    | some p => some p
                    | none => r.panic }

/-- `CooklangParser::parse_metadata` over the re-enumerating fold -/
def parseMetadataO (shuffle : Nat → List (StdKey × Span) → List (StdKey × Span)) (env : Env) (input : Str) :
    AnalysisResult α :=
  let pe := pullMetaEvents (α := α) env.cs env.ext input
  let r := parseEventsO shuffle env input pe.1.toList
  { r with panic := match pe.2 with
                    | some p => some p
                    | none => r.panic }

/-- same diagnostics, same panic flag, outputs equal up to the order of the map entries -/
def ResRel (r r' : AnalysisResult α) : Prop :=
  r.diags = r'.diags ∧ r.panic = r'.panic ∧
  match r.output, r'.output with
  | some c, some c' => Rl c c'
  | none, none => True
  | _, _ => False

theorem detl_loopO_cons (shuffle : Nat → List (StdKey × Span) → List (StdKey × Span)) (env : Env) (input : Str)
    (i : Nat) (ev : Ev α) (rest : List (Ev α)) (s : Col α) (h : ¬ ∃ d, ev = .error d) :
    parseEventsLoopO shuffle env input i (ev :: rest) s =
      parseEventsLoopO shuffle env input (i + 1) rest
        (setLocs (shuffle i (processEvent env input ev s).2.metaLocs) (processEvent env input ev s).2) := by
  cases ev <;> first | rfl | exact absurd ⟨_, rfl⟩ h

theorem detl_final (env : Env) (input : Str) (s s' : Col α) (h : Rl s s') :
    ResRel (parseEventsLoop env input [] s) (parseEventsLoop env input [] s') := by
  obtain ⟨m', rfl, hl⟩ := h
  unfold parseEventsLoop
  by_cases h1 : (!s.cur.isEmpty) = true <;> by_cases h2 : (!s.oldStyleUsed.isEmpty) = true <;>
    simp only [setLocs, h1, h2, if_true, if_false, Bool.false_eq_true] <;>
    exact ⟨rfl, rfl, m', rfl, hl⟩

theorem detl_error (env : Env) (input : Str) (d : Diag) (rest : List (Ev α)) (s s' : Col α) (h : Rl s s') :
    ResRel (parseEventsLoop env input (.error d :: rest) s) (parseEventsLoop env input (.error d :: rest) s') := by
  obtain ⟨m', rfl, hl⟩ := h
  simp only [parseEventsLoop, setLocs]
  exact ⟨rfl, rfl, trivial⟩

theorem detl_shuffle {s s' : Col α} (h : Rl s s') (m : List (StdKey × Span)) (hm : m.Perm s'.metaLocs) :
    Rl s (setLocs m s') := by
  obtain ⟨m', rfl, hl⟩ := h
  exact ⟨m, rfl, hl.1.trans hm.symm, hl.2⟩

theorem detl_loop (shuffle : Nat → List (StdKey × Span) → List (StdKey × Span))
    (hsh : ∀ i m, (shuffle i m).Perm m) (env : Env) (input : Str) :
    ∀ (evs : List (Ev α)) (i : Nat) (s s' : Col α), Rl s s' →
      ResRel (parseEventsLoop env input evs s) (parseEventsLoopO shuffle env input i evs s') := by
  intro evs
  induction evs with
  | nil => intro i s s' h; exact detl_final env input s s' h
  | cons ev rest ih =>
    intro i s s' h
    by_cases he : ∃ d, ev = .error d
    · obtain ⟨d, rfl⟩ := he
      exact detl_error env input d rest s s' h
    · rw [parseEventsLoop_cons_nonerror env input ev rest s he, detl_loopO_cons shuffle env input i ev rest s' he]
      apply ih
      exact detl_shuffle ((ni_processEvent env input ev).run s s' h).2 _ (hsh _ _)

theorem detl_parseEvents (shuffle : Nat → List (StdKey × Span) → List (StdKey × Span))
    (hsh : ∀ i m, (shuffle i m).Perm m) (env : Env) (input : Str) (evs : List (Ev α)) :
    ResRel (parseEvents env input evs) (parseEventsO shuffle env input evs) :=
  detl_loop shuffle hsh env input evs 0 {} {} (Rl.refl _ (by simp))

theorem detl_forget {c c' : Col α} (h : Rl c c') : setLocs [] c = setLocs [] c' := by
  obtain ⟨m', rfl, _⟩ := h
  rfl

end Cook
