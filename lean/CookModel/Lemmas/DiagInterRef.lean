import CookModel.Lemmas.DiagMore
/-
  C07: the syntax errors of the intermediate-reference data `&( … )` (`parse_intermediate_ref_data`),
  each on the minimal construct family: the tokens are `(`, `inner`, `)`, `rest` where `inner` has no
  `)`, and the non-blank tokens of `inner` have the stated shape.
-/
namespace Cook
variable {α : Type} [Arith α]
set_option linter.unusedSimpArgs false
set_option linter.unusedSectionVars false
set_option linter.unusedVariables false

def nonBlankTok (t : Tok) : Bool := !(t.kind == .ws || t.kind == .blockComment)

theorem interRef_lists (op cp : Tok) (inner rest : List Tok) :
    (op :: (inner ++ cp :: rest)).take (inner.length + 1 + 1) = op :: (inner ++ [cp]) ∧
    (op :: (inner ++ cp :: rest)).drop (inner.length + 1 + 1) = rest ∧
    ((op :: (inner ++ [cp])).drop 1).take ((op :: (inner ++ [cp])).length - 2) = inner := by
  refine ⟨?_, ?_, ?_⟩
  · simp [List.take_append, List.take_of_length_le]
  · simp [List.drop_append]
  · simp [List.take_append]

def pushErr (s : BP α) (kind : String) (labels : List Span) : BP α :=
  { s with evs := s.evs.push (.error ⟨.error, .parse, kind, labels⟩) }

section
variable (op cp : Tok) (inner rest : List Tok) (s : BP α)
  (hop : op.kind = .openParen) (hcp : cp.kind = .closeParen) (hin : ∀ t ∈ inner, t.kind ≠ .closeParen)
include hop hcp hin

/-- `&()` -/
theorem parseInterRef_empty (hf : inner.filter nonBlankTok = []) :
    parseInterRef (α := α) (op :: (inner ++ cp :: rest)) s =
      ((none, rest), pushErr s "inter-ref-empty" [tokensSpan (op :: (inner ++ [cp]))]) := by
  have hfind := findIdx_ref (fun t => t.kind == .closeParen) op cp inner rest (by simp [hop])
    (by intro t ht; simpa using hin t ht) (by simp [hcp])
  obtain ⟨l1, l2, l3⟩ := interRef_lists op cp inner rest
  have hop' : (op.kind != .openParen) = false := by simp [hop]
  unfold nonBlankTok at hf
  unfold parseInterRef
  simp only [hop', Bool.false_eq_true, if_false, hfind, l1, l2, l3, hf]
  rfl

/-- `&(~=1)`: relative marker before the section marker -/
theorem parseInterRef_wrong_order (a b i : Tok) (hf : inner.filter nonBlankTok = [a, b, i])
    (ha : a.kind = .tilde) (hb : b.kind = .eq) (hi : i.kind = .int) :
    parseInterRef (α := α) (op :: (inner ++ cp :: rest)) s =
      ((none, rest), pushErr s "inter-ref-wrong-order" [⟨a.start, a.stop⟩, ⟨b.start, b.stop⟩]) := by
  have hfind := findIdx_ref (fun t => t.kind == .closeParen) op cp inner rest (by simp [hop])
    (by intro t ht; simpa using hin t ht) (by simp [hcp])
  obtain ⟨l1, l2, l3⟩ := interRef_lists op cp inner rest
  have hop' : (op.kind != .openParen) = false := by simp [hop]
  unfold nonBlankTok at hf
  unfold parseInterRef
  simp only [hop', Bool.false_eq_true, if_false, hfind, l1, l2, l3, hf, ha, hb, hi]
  simp [ha, hb, hi]
  rfl

/-- `&(99999)`: the number does not fit `i16` -/
theorem parseInterRef_too_large (i : Tok) (hf : inner.filter nonBlankTok = [i]) (hi : i.kind = .int)
    (hbig : 32767 < digitsToNat i.text) :
    parseInterRef (α := α) (op :: (inner ++ cp :: rest)) s =
      ((none, rest), pushErr s "int-parse" [⟨i.start, i.stop⟩]) := by
  have hfind := findIdx_ref (fun t => t.kind == .closeParen) op cp inner rest (by simp [hop])
    (by intro t ht; simpa using hin t ht) (by simp [hcp])
  obtain ⟨l1, l2, l3⟩ := interRef_lists op cp inner rest
  have hop' : (op.kind != .openParen) = false := by simp [hop]
  have hnle : ¬ digitsToNat i.text ≤ 32767 := by omega
  unfold nonBlankTok at hf
  unfold parseInterRef
  simp only [hop', Bool.false_eq_true, if_false, hfind, l1, l2, l3, hf, hi, hnle]
  simp [hnle]
  rfl

/-- `&(-1)`, `&(+1)`: a sign -/
theorem parseInterRef_signed (sg i : Tok) (hf : inner.filter nonBlankTok = [sg, i])
    (hs : sg.kind = .minus ∨ sg.kind = .plus) (hi : i.kind = .int) :
    parseInterRef (α := α) (op :: (inner ++ cp :: rest)) s =
      ((none, rest), pushErr s "inter-ref-sign" [⟨sg.start, sg.stop⟩]) := by
  have hfind := findIdx_ref (fun t => t.kind == .closeParen) op cp inner rest (by simp [hop])
    (by intro t ht; simpa using hin t ht) (by simp [hcp])
  obtain ⟨l1, l2, l3⟩ := interRef_lists op cp inner rest
  have hop' : (op.kind != .openParen) = false := by simp [hop]
  unfold nonBlankTok at hf
  unfold parseInterRef
  rcases hs with hs | hs <;>
    simp only [hop', Bool.false_eq_true, if_false, hfind, l1, l2, l3, hf, hs, hi] <;> simp [hs, hi] <;> rfl

/-- `&(x)`: a single token that is not an integer -/
theorem parseInterRef_invalid (x : Tok) (hf : inner.filter nonBlankTok = [x]) (hx : x.kind ≠ .int) :
    parseInterRef (α := α) (op :: (inner ++ cp :: rest)) s =
      ((none, rest), pushErr s "inter-ref-invalid" [tokensSpan inner]) := by
  have hfind := findIdx_ref (fun t => t.kind == .closeParen) op cp inner rest (by simp [hop])
    (by intro t ht; simpa using hin t ht) (by simp [hcp])
  obtain ⟨l1, l2, l3⟩ := interRef_lists op cp inner rest
  have hop' : (op.kind != .openParen) = false := by simp [hop]
  have hx' : (x.kind == .int) = false := by simpa using hx
  have hne : inner.isEmpty = false := by
    cases inner with
    | nil => simp at hf
    | cons _ _ => rfl
  unfold nonBlankTok at hf
  unfold parseInterRef tokensSpanP
  simp only [hop', Bool.false_eq_true, if_false, hfind, l1, l2, l3, hf, hx', hne]
  simp
  rfl

/-- `&(3)`: a number that fits is accepted without event; the data's span covers the parentheses -/
theorem parseInterRef_good (i : Tok) (hf : inner.filter nonBlankTok = [i]) (hi : i.kind = .int)
    (hfit : digitsToNat i.text ≤ 32767) :
    parseInterRef (α := α) (op :: (inner ++ cp :: rest)) s =
      ((some ⟨⟨false, false, digitsToNat i.text⟩, tokensSpan (op :: (inner ++ [cp]))⟩, rest), s) := by
  have hfind := findIdx_ref (fun t => t.kind == .closeParen) op cp inner rest (by simp [hop])
    (by intro t ht; simpa using hin t ht) (by simp [hcp])
  obtain ⟨l1, l2, l3⟩ := interRef_lists op cp inner rest
  have hop' : (op.kind != .openParen) = false := by simp [hop]
  unfold nonBlankTok at hf
  unfold parseInterRef
  simp only [hop', Bool.false_eq_true, if_false, hfind, l1, l2, l3, hf, hi, hfit]
  simp [hfit]
  try rfl

end

/-- **empty value**: value tokens that are not a number and whose text is blank -/
theorem parseValue_empty (tokens : List Tok) (s : BP α)
    (hnone : numOrRange (α := α) (s.ext.has Gen.EXT_RANGE_VALUES) tokens = none)
    (hemp : (buildText ((tokens.head?.map (·.start)).getD (curOff s)) tokens).isTextEmpty s.cs = true) :
    Sat (parseValue (α := α) tokens) s (fun r s' =>
      Pushed [.error ⟨.error, .parse, "empty-value",
        [(buildText ((tokens.head?.map (·.start)).getD (curOff s)) tokens).span]⟩] s s' ∧
      r.span = ⟨(tokens.head?.map (·.start)).getD (curOff s), curOff s⟩) := by
  unfold parseValue
  refine Sat.bind (Sat.currentOffset ?_)
  dsimp only
  refine Sat.bind (Sat.hasExt ?_)
  rw [hnone]
  dsimp only
  refine Sat.bind ?_
  unfold textValue
  refine Sat.bind (Sat.mono (bpText_spec _ _ s) ?_)
  rintro _ s1 ⟨rfl, q1⟩
  refine Sat.bind (Sat.get ?_)
  dsimp only
  have hemp' : (buildText ((tokens.head?.map (·.start)).getD (offAt s.toks s.cur)) tokens).isTextEmpty s1.cs = true := by
    rw [q1.1]; exact hemp
  rw [hemp']
  simp only [if_true]
  refine Sat.bind (Sat.perrE ?_)
  refine Sat.pure ?_
  exact Sat.pure ⟨(q1.pushed.trans (Pushed.one _ _)).cast (by simp [curOff]), rfl⟩

/-! ### the same errors at the level of the component: `@&( … )name{}` -/

theorem Sat.of_eq2 {β : Type} {m : P α β} {s s' : BP α} {a : β} (h : m s = (a, s')) {Q : β → BP α → Prop}
    (hq : Q a s') : Sat m s Q := by
  unfold Sat; rw [h]; exact hq

/-- `parse_modifiers` on `&` `(` inner `)` with INTERMEDIATE_PREPARATIONS, when the data reader rejects
    the group with the event `ev`: exactly `ev` is pushed, the flags are `&`, there is no data -/
theorem parseModifiers_interref_err (amp op cp : Tok) (inner : List Tok) (pos : Nat) (ev : Ev α) (s : BP α)
    (hamp : amp.kind = .and) (he : s.ext.has Gen.EXT_INTERMEDIATE_PREPARATIONS = true)
    (hPI : ∀ s0 : BP α, parseInterRef (α := α) (op :: (inner ++ cp :: [])) s0 =
      ((none, []), { s0 with evs := s0.evs.push ev })) :
    Sat (parseModifiers (α := α) (amp :: op :: (inner ++ [cp])) pos) s (fun r s' =>
      Pushed [ev] s s' ∧
      r = ⟨⟨Modifiers.empty.insert Modifiers.REF, tokensSpan (amp :: op :: (inner ++ [cp]))⟩, none⟩) := by
  unfold parseModifiers
  simp only [List.isEmpty_cons, Bool.false_eq_true, if_false]
  refine Sat.bind (Sat.hasExt ?_)
  rw [he]
  apply Sat.bind
  apply Sat.mono (Q := fun (r : Modifiers × Option (Loc InterData)) s' => Pushed [ev] s s' ∧
    r = (Modifiers.empty.insert Modifiers.REF, none))
  · unfold parseModifiersLoop
    have hf : modifierFlag amp.kind = some Modifiers.REF := by rw [hamp]; rfl
    simp only [hf]
    refine Sat.bind (Sat.pure ?_)
    have hc : (amp.kind == TK.and && true) = true := by rw [hamp]; rfl
    simp only [hc, if_true]
    refine Sat.bind (Sat.of_eq2 (hPI s) ?_)
    have hnc : (decide (Modifiers.REF ≠ 0) && Modifiers.empty.contains Modifiers.REF) = false := by decide
    simp only [hnc, Bool.false_eq_true, if_false]
    unfold parseModifiersLoop
    exact Sat.pure ⟨Pushed.one _ _, rfl⟩
  · rintro r s1 ⟨p1, rfl⟩
    exact Sat.pure ⟨p1, rfl⟩

/-- an ingredient without quantity, with a non-blank name without alias separator, whose modifiers are
    `&( … )` rejected with `ev`: exactly `ev` is pushed -/
theorem ingredientTail_interref_err (start stop modPos nameOffset : Nat) (amp op cp : Tok) (inner : List Tok)
    (body : Body) (note : Option Text) (ev : Ev α) (s : BP α)
    (hamp : amp.kind = .and) (he : s.ext.has Gen.EXT_INTERMEDIATE_PREPARATIONS = true)
    (hPI : ∀ s0 : BP α, parseInterRef (α := α) (op :: (inner ++ cp :: [])) s0 =
      ((none, []), { s0 with evs := s0.evs.push ev }))
    (hq : body.quantity = none)
    (ha : s.ext.has Gen.EXT_COMPONENT_ALIAS = false ∨ ∀ t ∈ body.name, t.kind ≠ .or)
    (hn : (buildText nameOffset body.name).isTextEmpty s.cs = false) :
    Sat (ingredientTail (α := α) start stop modPos nameOffset (amp :: op :: (inner ++ [cp])) body note) s
      (fun r s' => Pushed [ev] s s' ∧
        r = some (.ingredient ⟨⟨⟨Modifiers.empty.insert Modifiers.REF, tokensSpan (amp :: op :: (inner ++ [cp]))⟩,
          none, buildText nameOffset body.name, none, none, note⟩, ⟨start, stop⟩⟩)) := by
  unfold ingredientTail
  refine Sat.bind (Sat.mono (parseAlias_quiet "ingredient" body.name nameOffset s ha) ?_)
  rintro ⟨name, alias⟩ s5 ⟨q5, heq⟩
  cases heq
  dsimp only
  refine Sat.bind ?_
  unfold checkEmptyName
  refine Sat.bind (Sat.get ?_)
  rw [q5.1, hn]
  simp only [Bool.false_eq_true, if_false]
  refine Sat.pure ?_
  refine Sat.bind (Sat.mono (parseModifiers_interref_err amp op cp inner modPos ev s5 hamp
    (by rw [q5.2.1]; exact he) hPI) ?_)
  rintro pm s6 ⟨p6, rfl⟩
  rw [hq]
  refine Sat.bind (Sat.pure ?_)
  exact Sat.pure ⟨(q5.pushed.trans p6).cast (by simp), rfl⟩

/-! ### metadata entries (`>> key: value`) -/

/-- **empty metadata key / value**: what `metadata_entry` pushes when it returns an entry -/
theorem metadataEntry_spec (s : BP α) :
    Sat (metadataEntry (α := α)) s (fun r s' => ∀ k v, r = some (.metadata k v) →
      (k.isTextEmpty s.cs = true →
        Pushed [.error ⟨.error, .parse, "empty-metadata-key", [k.span]⟩] s s') ∧
      (k.isTextEmpty s.cs = false → v.isTextEmpty s.cs = true →
        Pushed [.warning ⟨.warning, .parse, "empty-metadata-value", [v.span, k.span]⟩] s s') ∧
      (k.isTextEmpty s.cs = false → v.isTextEmpty s.cs = false → Pushed [] s s')) := by
  unfold metadataEntry
  refine Sat.bind (Sat.mono ((FQ.consumeK _).sat s) ?_)
  rintro r1 s1 q1
  cases r1 with
  | none => exact Sat.pure (by intro k v h; cases h)
  | some m =>
    refine Sat.bind (Sat.currentOffset ?_)
    refine Sat.bind (Sat.mono ((FQ.untilK _).sat s1) ?_)
    rintro r2 s2 q2
    cases r2 with
    | none =>
      refine Sat.bind (Sat.mono (FQ.bpSpan.sat s2) ?_)
      rintro sp s3 q3
      refine Sat.bind (Sat.pwarnE ?_)
      exact Sat.pure (by intro k v h; cases h)
    | some keyT =>
      refine Sat.bind (Sat.mono (bpText_spec _ _ s2) ?_)
      rintro key s3 ⟨rfl, q3⟩
      refine Sat.bind (Sat.mono ((FQ.bump _).sat s3) ?_)
      rintro _ s4 q4
      refine Sat.bind (Sat.currentOffset ?_)
      refine Sat.bind (Sat.mono (FQ.consumeRest.sat s4) ?_)
      rintro valT s5 q5
      refine Sat.bind (Sat.mono (bpText_spec _ _ s5) ?_)
      rintro value s6 ⟨rfl, q6⟩
      refine Sat.bind (Sat.get ?_)
      have q : Same s s6 := ((((q1.trans q2).trans q3).trans q4).trans q5).trans q6
      dsimp only
      rw [q.1]
      split
      · rename_i hk
        refine Sat.bind (Sat.perrE ?_)
        refine Sat.pure ?_
        intro k v h
        simp only [Option.some.injEq, Ev.metadata.injEq] at h
        obtain ⟨rfl, rfl⟩ := h
        refine ⟨fun _ => (q.pushed.trans (Pushed.one _ _)).cast (by simp), ?_, ?_⟩
        · intro h0; rw [hk] at h0; cases h0
        · intro h0; rw [hk] at h0; cases h0
      · rename_i hk
        split
        · rename_i hv
          refine Sat.bind (Sat.pwarnE ?_)
          refine Sat.pure ?_
          intro k v h
          simp only [Option.some.injEq, Ev.metadata.injEq] at h
          obtain ⟨rfl, rfl⟩ := h
          refine ⟨fun h0 => absurd h0 hk, fun _ _ => (q.pushed.trans (Pushed.one _ _)).cast (by simp), ?_⟩
          intro _ h0; rw [hv] at h0; cases h0
        · rename_i hv
          refine Sat.bind (Sat.pure ?_)
          refine Sat.pure ?_
          intro k v h
          simp only [Option.some.injEq, Ev.metadata.injEq] at h
          obtain ⟨rfl, rfl⟩ := h
          exact ⟨fun h0 => absurd h0 hk, fun _ h0 => absurd h0 hv, fun _ _ => q.pushed⟩

end Cook
