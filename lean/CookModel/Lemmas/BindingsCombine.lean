import CookModel.Lemmas.Bindings
/-
  Lemmas about `combine_ingredients(_selected)` and the two merge functions of the bindings.
-/
namespace Cook.Ffi
open Cook

variable {α : Type} [Arith α]
set_option linter.unusedSectionVars false

/-! ## association lists -/

theorem AList.get_append_of_mem {κ β} [DecidableEq κ] (m m' : AList κ β) (k : κ) (h : k ∈ m.keys) :
    AList.get (m ++ m') k = AList.get m k := by
  induction m with
  | nil => simp [AList.keys] at h
  | cons p rest ih =>
    obtain ⟨k', v⟩ := p
    by_cases hk : k' = k
    · simp [AList.get, hk]
    · have : k ∈ AList.keys rest := by
        simp [AList.keys] at h ⊢
        rcases h with h | h
        · exact absurd h.symm hk
        · exact h
      simp [AList.get, hk, ih this]

theorem AList.get_append_of_not_mem {κ β} [DecidableEq κ] (m m' : AList κ β) (k : κ) (h : k ∉ m.keys) :
    AList.get (m ++ m') k = AList.get m' k := by
  induction m with
  | nil => simp
  | cons p rest ih =>
    obtain ⟨k', v⟩ := p
    have hk : k' ≠ k := by intro e; apply h; simp [AList.keys, e]
    have : k ∉ AList.keys rest := by intro e; apply h; simp [AList.keys] at e ⊢; exact Or.inr e
    simp [AList.get, hk, ih this]

theorem AList.get_eq_none_iff {κ β} [DecidableEq κ] (m : AList κ β) (k : κ) :
    AList.get m k = none ↔ k ∉ m.keys := by
  induction m with
  | nil => simp [AList.get, AList.keys]
  | cons p rest ih =>
    obtain ⟨k', v⟩ := p
    by_cases hk : k' = k
    · simp [AList.get, AList.keys, hk]
    · simp only [AList.get, hk, if_false, ih]
      simp [AList.keys]
      intro h; exact fun e => hk e.symm

theorem AList.mem_of_get {κ β} [DecidableEq κ] (m : AList κ β) (k : κ) (v : β) (h : AList.get m k = some v) :
    (k, v) ∈ m := by
  induction m with
  | nil => simp [AList.get] at h
  | cons p rest ih =>
    obtain ⟨k', v'⟩ := p
    by_cases hk : k' = k
    · simp [AList.get, hk] at h; simp [hk, h]
    · simp [AList.get, hk] at h; simp [ih h]

/-! ## one value added to a stored value -/

/-- what `and_modify` leaves in the map when the kinds agree -/
def plus (stored value : FValue α) : FValue α :=
  match stored, value with
  | .number s, .number a => .number (s + a)
  | .range s e, .range st en => .range (s + st) (e + en)
  | .text s, .text a => .text (s ++ a)
  | st, _ => st

theorem modifyStored_ok (ty : QuantityType) (value stored : FValue α)
    (hv : value.kind = ty) (hs : stored.kind = ty) :
    modifyStored ty value stored = .ok (plus stored value) := by
  cases ty <;> cases value <;> simp [FValue.kind] at hv <;> cases stored <;> simp [FValue.kind] at hs <;>
    simp [modifyStored, plus]

theorem plus_kind (stored value : FValue α) : (plus stored value).kind = stored.kind := by
  cases stored <;> cases value <;> simp [plus, FValue.kind]

/-- every stored value has the kind its key says -/
def KindOK (g : GroupedQuantity α) : Prop := ∀ p ∈ g, p.2.kind = p.1.unitType

/-- what is stored under `key` after one more value -/
def accum (o : Option (FValue α)) (value : FValue α) : Option (FValue α) :=
  match o with
  | none => some value
  | some st => some (plus st value)

theorem entryModify_spec (g : GroupedQuantity α) (key : GKey) (value : FValue α)
    (hg : KindOK g) (hv : value.kind = key.unitType) :
    ∃ g', entryModify g key value = .ok g' ∧ KindOK g' ∧
      g'.keys = (if key ∈ g.keys then g.keys else g.keys ++ [key]) ∧
      ∀ k, AList.get g' k = if k = key then accum (AList.get g key) value else AList.get g k := by
  induction g with
  | nil =>
    refine ⟨[(key, value)], rfl, ?_, by simp [AList.keys], ?_⟩
    · intro p hp; simp at hp; subst hp; exact hv
    · intro k
      by_cases hk : k = key
      · simp [AList.get, hk, accum]
      · have : ¬ key = k := fun e => hk e.symm
        simp [AList.get, hk, this]
  | cons p rest ih =>
    obtain ⟨k0, stored⟩ := p
    have hrest : KindOK rest := fun p hp => hg p (by simp [hp])
    have hst : stored.kind = k0.unitType := hg (k0, stored) (by simp)
    by_cases hk : k0 = key
    · subst hk
      refine ⟨(k0, plus stored value) :: rest, ?_, ?_, ?_, ?_⟩
      · simp [entryModify, modifyStored_ok _ _ _ hv hst, Except.map]
      · intro p hp
        simp at hp
        rcases hp with rfl | hp
        · simp [plus_kind, hst]
        · exact hrest p hp
      · simp [AList.keys]
      · intro k
        by_cases hkk : k = k0
        · subst hkk; simp [AList.get, accum]
        · have : ¬ k0 = k := fun e => hkk e.symm
          simp [AList.get, hkk, this]
    · obtain ⟨r', hr1, hr2, hr3, hr4⟩ := ih hrest
      refine ⟨(k0, stored) :: r', ?_, ?_, ?_, ?_⟩
      · simp [entryModify, hk, hr1, Except.map]
      · intro p hp
        simp at hp
        rcases hp with rfl | hp
        · exact hst
        · exact hr2 p hp
      · have hne : ¬ key = k0 := fun e => hk e.symm
        simp only [AList.keys, List.map_cons, List.mem_cons, hne, false_or] at hr3 ⊢
        split <;> simp_all
      · intro k
        by_cases hkk : k = key
        · subst hkk; simp [AList.get, hk, hr4]
        · by_cases hk0 : k0 = k
          · simp [AList.get, hk0, hkk]
          · simp [AList.get, hk0, hkk, hr4]

theorem nodup_keys_step {κ : Type} (ks : List κ) (key : κ) [Decidable (key ∈ ks)] (h : ks.Nodup) :
    (if key ∈ ks then ks else ks ++ [key]).Nodup := by
  split
  · exact h
  · rename_i hn
    rw [List.nodup_append]
    refine ⟨h, by simp, ?_⟩
    intro a ha b hb
    simp at hb; subst hb
    intro e; subst e; exact hn ha

theorem merge_singleton (g : GroupedQuantity α) (key : GKey) (value : FValue α) :
    mergeGroupedQuantities g [(key, value)] = entryModify g key value := by
  simp only [mergeGroupedQuantities]
  cases entryModify g key value <;> rfl

/-! ## one ingredient added to the list -/

/-- key and value of the one-entry map `into_group_quantity` makes -/
def keyOf (amount : Option (Amount α)) : GKey :=
  match amount with
  | some a => ⟨a.units.getD [], a.quantity.kind⟩
  | none => ⟨[], .empty⟩

def valOf (amount : Option (Amount α)) : FValue α :=
  match amount with
  | some a => a.quantity
  | none => .empty

theorem intoGroupQuantity_eq (amount : Option (Amount α)) :
    intoGroupQuantity amount = [(keyOf amount, valOf amount)] := by
  cases amount <;> rfl

theorem valOf_kind (amount : Option (Amount α)) : (valOf amount).kind = (keyOf amount).unitType := by
  cases amount <;> rfl

/-- all grouped maps of the list are kind-consistent -/
def AllKindOK (m : IngredientList α) : Prop := ∀ p ∈ m, KindOK p.2

def InnerNodup (m : IngredientList α) : Prop := ∀ p ∈ m, (AList.keys p.2).Nodup

theorem value_cons (n : Str) (g : GroupedQuantity α) (rest : IngredientList α) (name : Str) (key : GKey) :
    IngredientList.value ((n, g) :: rest) name key =
      if n = name then AList.get g key else IngredientList.value rest name key := by
  by_cases h : n = name <;> simp [IngredientList.value, AList.get, h]

theorem addToIngredientList_spec (m : IngredientList α) (name : Str) (key : GKey) (value : FValue α)
    (hm : AllKindOK m) (hv : value.kind = key.unitType) :
    ∃ m', addToIngredientList m name [(key, value)] = .ok m' ∧ AllKindOK m' ∧
      AList.keys m' = (if name ∈ AList.keys m then AList.keys m else AList.keys m ++ [name]) ∧
      (InnerNodup m → InnerNodup m') ∧
      ∀ n k, IngredientList.value m' n k =
        if n = name ∧ k = key then accum (IngredientList.value m name key) value
        else IngredientList.value m n k := by
  induction m with
  | nil =>
    refine ⟨[(name, [(key, value)])], rfl, ?_, by simp [AList.keys], ?_, ?_⟩
    · intro p hp; simp at hp; subst hp
      intro q hq; simp at hq; subst hq; exact hv
    · intro _ p hp; simp at hp; subst hp; simp [AList.keys]
    · intro n k
      by_cases hn : n = name
      · subst hn
        by_cases hk : k = key
        · subst hk; simp [IngredientList.value, AList.get, accum]
        · have : ¬ key = k := fun e => hk e.symm
          simp [IngredientList.value, AList.get, hk, this]
      · have : ¬ name = n := fun e => hn e.symm
        simp [IngredientList.value, AList.get, hn, this]
  | cons p rest ih =>
    obtain ⟨n0, g⟩ := p
    have hrest : AllKindOK rest := fun p hp => hm p (by simp [hp])
    have hg : KindOK g := hm (n0, g) (by simp)
    by_cases hn0 : n0 = name
    · subst hn0
      obtain ⟨g', hg1, hg2, hg3, hg4⟩ := entryModify_spec g key value hg hv
      refine ⟨(n0, g') :: rest, ?_, ?_, by simp [AList.keys], ?_, ?_⟩
      · simp [addToIngredientList, merge_singleton, hg1, Except.map]
      · intro p hp
        simp at hp
        rcases hp with rfl | hp
        · exact hg2
        · exact hrest p hp
      · intro hnd2 p hp
        simp at hp
        rcases hp with rfl | hp
        · have := hnd2 (n0, g) (by simp)
          show (AList.keys g').Nodup
          rw [hg3]; exact nodup_keys_step _ _ this
        · exact hnd2 p (by simp [hp])
      · intro n k
        simp only [value_cons, if_true]
        by_cases hn : n0 = n
        · subst hn
          simp only [if_true, true_and, hg4]
        · have : ¬ n = n0 := fun e => hn e.symm
          simp [hn, this]
    · obtain ⟨r', hr1, hr2, hr3, hr5, hr4⟩ := ih hrest
      refine ⟨(n0, g) :: r', ?_, ?_, ?_, ?_, ?_⟩
      · simp [addToIngredientList, hn0, hr1, Except.map]
      · intro p hp
        simp at hp
        rcases hp with rfl | hp
        · exact hg
        · exact hr2 p hp
      · have hne : ¬ name = n0 := fun e => hn0 e.symm
        simp only [AList.keys, List.map_cons, List.mem_cons, hne, false_or] at hr3 ⊢
        split <;> simp_all
      · intro hnd p hp
        simp at hp
        rcases hp with rfl | hp
        · exact hnd (n0, g) (by simp)
        · exact hr5 (fun q hq => hnd q (by simp [hq])) p hp
      · intro n k
        simp only [value_cons, hr4, hn0, if_false]
        by_cases hn : n0 = n
        · subst hn
          have : ¬ n0 = name := hn0
          simp [this]
        · simp [hn]

/-! ## a list of ingredients added one after the other -/

def addAll (base : IngredientList α) : List (FIngredient α) → Except Panic (IngredientList α)
  | [] => .ok base
  | i :: rest => do
    let b ← addToIngredientList base i.name (intoGroupQuantity i.amount)
    addAll b rest

/-- `expand_with_ingredients` over in-range indices is `addAll` over the selected ingredients -/
theorem expand_eq_addAll (ings : List (FIngredient α)) (idx : List Nat) :
    ∀ (base : IngredientList α) (sel : List (FIngredient α)), idx.map (fun i => ings[i]?) = sel.map some →
      expandWithIngredients ings base idx = addAll base sel := by
  induction idx with
  | nil =>
    intro base sel h
    cases sel with
    | nil => rfl
    | cons x xs => simp at h
  | cons i rest ih =>
    intro base sel h
    cases sel with
    | nil => simp at h
    | cons x xs =>
      simp only [List.map_cons, List.cons.injEq] at h
      obtain ⟨h1, h2⟩ := h
      simp only [expandWithIngredients, getOrPanic, h1, addAll]
      show (do let b ← addToIngredientList base x.name (intoGroupQuantity x.amount); expandWithIngredients ings b rest) = _
      cases addToIngredientList base x.name (intoGroupQuantity x.amount) with
      | error e => rfl
      | ok b => exact ih b xs h2

/-- out-of-range index: the `unwrap` panics (whatever was accumulated) -/
theorem expand_oob (ings : List (FIngredient α)) (base : IngredientList α) (i : Nat) (rest : List Nat)
    (h : ings.length ≤ i) :
    expandWithIngredients ings base (i :: rest) = .error (.unwrapNone "expand_with_ingredients") := by
  have : ings[i]? = none := by simp [h]
  simp [expandWithIngredients, getOrPanic, this]
  rfl

/-- the values that go under (`name`, `key`), in input order -/
def matching (xs : List (FIngredient α)) (name : Str) (key : GKey) : List (FValue α) :=
  (xs.filter (fun i => decide (i.name = name ∧ keyOf i.amount = key))).map (fun i => valOf i.amount)

theorem matching_cons (x : FIngredient α) (xs : List (FIngredient α)) (name : Str) (key : GKey) :
    matching (x :: xs) name key =
      if x.name = name ∧ keyOf x.amount = key then valOf x.amount :: matching xs name key
      else matching xs name key := by
  unfold matching
  by_cases h : x.name = name ∧ keyOf x.amount = key
  · simp [h]
  · simp only [List.filter_cons, h, decide_false, if_false]
    simp

theorem addAll_spec (xs : List (FIngredient α)) :
    ∀ (base : IngredientList α), AllKindOK base →
    ∃ m, addAll base xs = .ok m ∧ AllKindOK m ∧
      ((AList.keys base).Nodup → (AList.keys m).Nodup) ∧
      (InnerNodup base → InnerNodup m) ∧
      ∀ n k, IngredientList.value m n k = (matching xs n k).foldl accum (IngredientList.value base n k) := by
  induction xs with
  | nil => intro base hb; exact ⟨base, rfl, hb, id, id, fun n k => by simp [matching]⟩
  | cons x rest ih =>
    intro base hb
    obtain ⟨b, hb1, hb2, hb3, hb4, hb5⟩ :=
      addToIngredientList_spec base x.name (keyOf x.amount) (valOf x.amount) hb (valOf_kind x.amount)
    obtain ⟨m, hm1, hm2, hm3, hm4, hm5⟩ := ih b hb2
    refine ⟨m, ?_, hm2, ?_, fun h => hm4 (hb4 h), ?_⟩
    · simp only [addAll, intoGroupQuantity_eq, hb1]; exact hm1
    · intro h; apply hm3; rw [hb3]; exact nodup_keys_step _ _ h
    · intro n k
      rw [hm5, hb5, matching_cons]
      by_cases h : x.name = n ∧ keyOf x.amount = k
      · obtain ⟨rfl, rfl⟩ := h
        simp
      · have h' : ¬ (n = x.name ∧ k = keyOf x.amount) := fun ⟨a, b⟩ => h ⟨a.symm, b.symm⟩
        simp [h, h']

/-! ## closed forms of the accumulated value, per kind -/

theorem matching_number (xs : List (FIngredient α)) (name unit : Str) :
    matching xs name ⟨unit, .number⟩ = (numbersOf xs name unit).map .number := by
  induction xs with
  | nil => rfl
  | cons x rest ih =>
    rw [matching_cons, ih]
    unfold numbersOf
    rw [List.filterMap_cons]
    rcases x with ⟨xn, _ | ⟨q, u⟩, d⟩
    · simp [keyOf]
    · cases q <;> simp [keyOf, valOf, FValue.kind] <;> split <;> simp_all

theorem matching_range (xs : List (FIngredient α)) (name unit : Str) :
    matching xs name ⟨unit, .range⟩ = (rangesOf xs name unit).map (fun p => .range p.1 p.2) := by
  induction xs with
  | nil => rfl
  | cons x rest ih =>
    rw [matching_cons, ih]
    unfold rangesOf
    rw [List.filterMap_cons]
    rcases x with ⟨xn, _ | ⟨q, u⟩, d⟩
    · simp [keyOf]
    · cases q <;> simp [keyOf, valOf, FValue.kind] <;> split <;> simp_all

theorem matching_text (xs : List (FIngredient α)) (name unit : Str) :
    matching xs name ⟨unit, .text⟩ = (textsOf xs name unit).map .text := by
  induction xs with
  | nil => rfl
  | cons x rest ih =>
    rw [matching_cons, ih]
    unfold textsOf
    rw [List.filterMap_cons]
    rcases x with ⟨xn, _ | ⟨q, u⟩, d⟩
    · simp [keyOf]
    · cases q <;> simp [keyOf, valOf, FValue.kind] <;> split <;> simp_all

theorem matching_empty (xs : List (FIngredient α)) (name unit : Str) :
    matching xs name ⟨unit, .empty⟩ = (emptiesOf xs name unit).map (fun _ => .empty) := by
  induction xs with
  | nil => rfl
  | cons x rest ih =>
    rw [matching_cons, ih]
    unfold emptiesOf
    rw [List.filterMap_cons]
    rcases x with ⟨xn, _ | ⟨q, u⟩, d⟩
    · simp [keyOf, valOf]; split <;> simp_all
    · cases q <;> simp [keyOf, valOf, FValue.kind] <;> split <;> simp_all

/-! ## exact arithmetic: the accumulated value is the sum -/

theorem foldl_accum_number (l : List Rat) (a : Rat) :
    (l.map FValue.number).foldl accum (some (.number a)) = some (.number (a + l.sum)) := by
  induction l generalizing a with
  | nil => simp [Rat.add_zero]
  | cons x rest ih =>
    simp only [List.map_cons, List.foldl_cons, accum, plus, rat_add, ih, List.sum_cons]
    congr 2; grind

theorem foldl_accum_number_none (l : List Rat) :
    (l.map FValue.number).foldl accum none = if l = [] then none else some (.number l.sum) := by
  cases l with
  | nil => rfl
  | cons x rest =>
    simp only [List.map_cons, List.foldl_cons, accum, foldl_accum_number, List.sum_cons]
    simp

theorem foldl_accum_range (l : List (Rat × Rat)) (a b : Rat) :
    (l.map (fun p => FValue.range p.1 p.2)).foldl accum (some (.range a b)) =
      some (.range (a + (l.map Prod.fst).sum) (b + (l.map Prod.snd).sum)) := by
  induction l generalizing a b with
  | nil => simp [Rat.add_zero]
  | cons x rest ih =>
    simp only [List.map_cons, List.foldl_cons, accum, plus, rat_add, ih, List.sum_cons]
    congr 2 <;> grind

theorem foldl_accum_range_none (l : List (Rat × Rat)) :
    (l.map (fun p => FValue.range p.1 p.2)).foldl accum none =
      if l = [] then none else some (.range (l.map Prod.fst).sum (l.map Prod.snd).sum) := by
  cases l with
  | nil => rfl
  | cons x rest =>
    simp only [List.map_cons, List.foldl_cons, accum, foldl_accum_range, List.sum_cons]
    simp

theorem foldl_accum_text (l : List Str) (a : Str) :
    (l.map (FValue.text (α := α))).foldl accum (some (.text a)) = some (.text (a ++ l.flatten)) := by
  induction l generalizing a with
  | nil => simp
  | cons x rest ih =>
    simp only [List.map_cons, List.foldl_cons, accum, plus, ih, List.flatten_cons, List.append_assoc]

theorem foldl_accum_text_none (l : List Str) :
    (l.map (FValue.text (α := α))).foldl accum none = if l = [] then none else some (.text l.flatten) := by
  cases l with
  | nil => rfl
  | cons x rest =>
    simp only [List.map_cons, List.foldl_cons, accum, foldl_accum_text, List.flatten_cons]
    simp

theorem foldl_accum_empty (l : List Unit) :
    (l.map (fun _ => (FValue.empty : FValue α))).foldl accum (some .empty) = some .empty := by
  induction l with
  | nil => rfl
  | cons x rest ih => simpa [accum, plus] using ih

theorem foldl_accum_empty_none (l : List Unit) :
    (l.map (fun _ => (FValue.empty : FValue α))).foldl accum none = if l = [] then none else some .empty := by
  cases l with
  | nil => rfl
  | cons x rest =>
    simp only [List.map_cons, List.foldl_cons, accum, foldl_accum_empty]
    simp

theorem perm_sum {l₁ l₂ : List Rat} (h : l₁.Perm l₂) : l₁.sum = l₂.sum := by
  induction h with
  | nil => rfl
  | cons x _ ih => simp [ih]
  | swap x y l => simp only [List.sum_cons]; grind
  | trans _ _ ih1 ih2 => exact ih1.trans ih2

theorem perm_nil_iff {β : Type} {l₁ l₂ : List β} (h : l₁.Perm l₂) : l₁ = [] ↔ l₂ = [] := by
  constructor
  · intro e; subst e; exact h.symm.eq_nil
  · intro e; subst e; exact h.eq_nil

theorem range_getElem?_map {β : Type} (l : List β) :
    (List.range l.length).map (fun i => l[i]?) = l.map some := by
  apply List.ext_getElem (by simp)
  intro i h1 h2
  simp at h1 h2 ⊢

/-- `combine_ingredients` is `addAll` from the empty list -/
theorem combineIngredients_eq_addAll (ings : List (FIngredient α)) (hlen : ings.length ≤ 4294967296) :
    combineIngredients ings = addAll [] ings := by
  unfold combineIngredients combineIngredientsSelected
  rw [map_toU32_range hlen]
  exact expand_eq_addAll ings _ [] ings (range_getElem?_map ings)

theorem combineSelected_eq_addAll (ings : List (FIngredient α)) (idx : List Nat) (sel : List (FIngredient α))
    (h : idx.map (fun i => ings[i]?) = sel.map some) :
    combineIngredientsSelected ings idx = addAll [] sel :=
  expand_eq_addAll ings idx [] sel h

/-- the general form of the result of `addAll []` -/
theorem addAll_nil_spec (xs : List (FIngredient α)) :
    ∃ m, addAll [] xs = .ok m ∧ IngredientList.IsMap m ∧
      ∀ n k, IngredientList.value m n k = (matching xs n k).foldl accum none := by
  obtain ⟨m, h1, _, h3, h4, h5⟩ := addAll_spec xs ([] : IngredientList α) (fun p hp => by simp at hp)
  refine ⟨m, h1, ⟨h3 (by simp [AList.keys]), ?_⟩, ?_⟩
  · exact h4 (fun p hp => by simp at hp)
  · intro n k; rw [h5]; simp [IngredientList.value, AList.get]

/-! ## iteration order of `right` in `merge_grouped_quantities` -/

/-- a map seen as a function -/
abbrev Sem (α : Type) := GKey → Option (FValue α)

def stepVal (o : Option (FValue α)) (key : GKey) (value : FValue α) : Except Panic (FValue α) :=
  match o with
  | none => .ok value
  | some st => modifyStored key.unitType value st

def semStep (f : Sem α) (p : GKey × FValue α) : Except Panic (Sem α) :=
  (stepVal (f p.1) p.1 p.2).map (fun w k => if k = p.1 then some w else f k)

def semMerge (f : Sem α) : List (GKey × FValue α) → Except Panic (Sem α)
  | [] => .ok f
  | p :: rest => do
    let f' ← semStep f p
    semMerge f' rest

theorem modifyStored_error (ty : QuantityType) (value stored : FValue α) (e : Panic)
    (h : modifyStored ty value stored = .error e) : e = .unexpectedType := by
  cases ty <;> cases value <;> cases stored <;> simp [modifyStored] at h <;> exact h.symm

theorem stepVal_error (o : Option (FValue α)) (key : GKey) (value : FValue α) (e : Panic)
    (h : stepVal o key value = .error e) : e = .unexpectedType := by
  cases o with
  | none => simp [stepVal] at h
  | some st => exact modifyStored_error _ _ _ _ h

theorem entryModify_sem (g : GroupedQuantity α) (key : GKey) (value : FValue α) :
    (entryModify g key value).map (fun g' => (fun k => AList.get g' k : Sem α)) =
      semStep (fun k => AList.get g k) (key, value) := by
  induction g with
  | nil =>
    simp only [entryModify, semStep, AList.get, stepVal, Except.map]
    congr 1; funext k
    by_cases h : k = key
    · simp [h]
    · have : ¬ key = k := fun e => h e.symm
      simp [h, this]
  | cons p rest ih =>
    obtain ⟨k0, st⟩ := p
    by_cases hk : k0 = key
    · subst hk
      simp only [entryModify, semStep, AList.get, if_true, stepVal]
      cases modifyStored k0.unitType value st with
      | error e => rfl
      | ok v =>
        simp only [Except.map]
        congr 1; funext k
        by_cases h : k = k0
        · simp [h, AList.get]
        · have : ¬ k0 = k := fun e => h e.symm
          simp [h, this, AList.get]
    · simp only [entryModify, hk, if_false]
      simp only [semStep, AList.get, hk, if_false] at ih ⊢
      cases hr : entryModify rest key value with
      | error e =>
        rw [hr] at ih
        cases hs : stepVal (AList.get rest key) key value with
        | error e' => rw [hs] at ih; simp only [Except.map] at ih ⊢; exact ih
        | ok w => rw [hs] at ih; simp [Except.map] at ih
      | ok r =>
        rw [hr] at ih
        cases hs : stepVal (AList.get rest key) key value with
        | error e' => rw [hs] at ih; simp [Except.map] at ih
        | ok w =>
          rw [hs] at ih
          simp only [Except.map, Except.ok.injEq] at ih ⊢
          funext k
          have := congrFun ih k
          by_cases h0 : k0 = k
          · subst h0
            have : ¬ k0 = key := hk
            simp [this, AList.get]
          · simp only [AList.get, h0, if_false]; exact this

theorem merge_sem (right : GroupedQuantity α) : ∀ (left : GroupedQuantity α),
    (mergeGroupedQuantities left right).map (fun g' => (fun k => AList.get g' k : Sem α)) =
      semMerge (fun k => AList.get left k) right := by
  induction right with
  | nil => intro left; rfl
  | cons p rest ih =>
    intro left
    obtain ⟨key, value⟩ := p
    have h := entryModify_sem left key value
    simp only [mergeGroupedQuantities, semMerge]
    cases hr : entryModify left key value with
    | error e =>
      rw [hr] at h
      cases hs : semStep (fun k => AList.get left k) (key, value) with
      | error e' => rw [hs] at h; simp only [Except.map] at h; simpa [bind, Except.bind, Except.map] using h
      | ok w => rw [hs] at h; simp [Except.map] at h
    | ok l =>
      rw [hr] at h
      cases hs : semStep (fun k => AList.get left k) (key, value) with
      | error e' => rw [hs] at h; simp [Except.map] at h
      | ok w =>
        rw [hs] at h
        simp only [Except.map, Except.ok.injEq] at h
        subst h
        simpa [bind, Except.bind] using ih l

theorem semStep_comm (f : Sem α) (a b : GKey × FValue α) (hab : a.1 ≠ b.1) :
    (semStep f a >>= fun f' => semStep f' b) = (semStep f b >>= fun f' => semStep f' a) := by
  have hba : b.1 ≠ a.1 := fun e => hab e.symm
  simp only [semStep]
  cases ha : stepVal (f a.1) a.1 a.2 with
  | error ea =>
    have := stepVal_error _ _ _ _ ha; subst this
    cases hb : stepVal (f b.1) b.1 b.2 with
    | error eb =>
      have := stepVal_error _ _ _ _ hb; subst this
      rfl
    | ok wb =>
      simp only [Except.map, bind, Except.bind, hab, if_false, ha]
  | ok wa =>
    cases hb : stepVal (f b.1) b.1 b.2 with
    | error eb =>
      simp only [Except.map, bind, Except.bind, hba, if_false, hb]
    | ok wb =>
      simp only [Except.map, bind, Except.bind, hab, hba, if_false, ha, hb, Except.ok.injEq]
      funext k
      by_cases h1 : k = a.1
      · have : ¬ k = b.1 := fun e => hab (h1 ▸ e)
        simp [h1, hab]
      · simp [h1]

theorem semMerge_perm {r₁ r₂ : List (GKey × FValue α)} (h : r₁.Perm r₂) :
    ∀ (f : Sem α), (r₁.map Prod.fst).Nodup → semMerge f r₁ = semMerge f r₂ := by
  induction h with
  | nil => intro f _; rfl
  | cons x _ ih =>
    intro f hnd
    simp only [List.map_cons, List.nodup_cons] at hnd
    simp only [semMerge]
    cases semStep f x with
    | error e => rfl
    | ok f' => exact ih f' hnd.2
  | swap x y l =>
    intro f hnd
    simp only [List.map_cons, List.nodup_cons, List.mem_cons, not_or] at hnd
    have hxy : x.1 ≠ y.1 := fun e => hnd.1.1 e.symm
    have hc := semStep_comm f y x (fun e => hxy e.symm)
    simp only [semMerge]
    cases hy : semStep f y with
    | error ey =>
      rw [hy] at hc
      cases hx : semStep f x with
      | error ex =>
        -- both orders stop with a panic; the panic is the same value
        simp only [semStep] at hx hy
        cases h1 : stepVal (f x.1) x.1 x.2 with
        | ok w => rw [h1] at hx; simp [Except.map] at hx
        | error e1 =>
          cases h2 : stepVal (f y.1) y.1 y.2 with
          | ok w => rw [h2] at hy; simp [Except.map] at hy
          | error e2 =>
            rw [h1] at hx; rw [h2] at hy
            simp only [Except.map, Except.error.injEq] at hx hy
            have := stepVal_error _ _ _ _ h1
            have := stepVal_error _ _ _ _ h2
            simp [bind, Except.bind]; grind
      | ok fx =>
        rw [hx] at hc
        simp only [bind, Except.bind] at hc ⊢
        rw [← hc]
    | ok fy =>
      rw [hy] at hc
      cases hx : semStep f x with
      | error ex =>
        rw [hx] at hc
        simp only [bind, Except.bind] at hc ⊢
        rw [hc]
      | ok fx =>
        rw [hx] at hc
        simp only [bind, Except.bind] at hc ⊢
        cases h1 : semStep fy x with
        | error e1 => rw [h1] at hc; rw [← hc]
        | ok f1 => rw [h1] at hc; rw [← hc]
  | trans h12 _ ih1 ih2 =>
    intro f hnd
    rw [ih1 f hnd]
    exact ih2 f ((h12.map Prod.fst).nodup_iff.mp hnd)

/-- Whatever the iteration order of `right` (a map: distinct keys), `merge_grouped_quantities`
    panics in both orders or in none, and the resulting maps hold the same value under every key. -/
theorem merge_order (left right right' : GroupedQuantity α) (h : right.Perm right')
    (hnd : (AList.keys right).Nodup) :
    (mergeGroupedQuantities left right).map (fun g' => (fun k => AList.get g' k : Sem α)) =
      (mergeGroupedQuantities left right').map (fun g' => (fun k => AList.get g' k : Sem α)) := by
  rw [merge_sem, merge_sem]
  exact semMerge_perm h _ hnd

end Cook.Ffi
