import CookModel.Syntax.CharTable
/-
  Kernel-checked facts about the GENERATED tables (`Gen/CharTable.lean`, written on every check by
  `harness chartable` from the real lexer, std's char predicates, unicase and `Converter::bundled()`).

  The property theorems are stated for every `CharSpec` satisfying side conditions (`CrlfSpec`, `TrailSpec`,
  `UwsNL`, `AlnumSpec`, `DigitsNotWs`, `uws ' ' = true`, …).  This file proves the raw facts those side
  conditions consist of FOR THE TABLE THE DRIVER USES (`realCharSpec`): point facts by evaluating the lookup
  (`decide`), facts quantified over all characters by deciding a predicate on every range of the finite
  generated list (`decide +kernel`) and lifting it through `tbl_classBits_cases`.  When the lexer's classes
  change, the generated list changes and these proofs are re-checked; a side condition that stops being true
  makes the build of this file fail (reported by `./check` as a broken theorem obligation).

  Only `Syntax/CharTable.lean` is imported, so every `Props/Cxx.lean` can import this file.
-/
namespace Cook

/-! ### the lookup returns the bits of a range of the list that contains the code point (or 0) -/

theorem tbl_toArray_mem {α : Type} (l : List α) {i : Nat} {r : α} (h : l.toArray[i]? = some r) : r ∈ l := by
  rw [List.getElem?_toArray] at h
  exact List.mem_of_getElem? h

theorem tbl_charRanges_mem {i : Nat} {r : Nat × Nat × Nat} (h : charRanges[i]? = some r) :
    r ∈ Gen.charRangesList := by
  unfold charRanges at h
  exact tbl_toArray_mem Gen.charRangesList h

theorem tbl_classBitsAux_cases (cp lo hi fuel : Nat) :
    classBitsAux cp lo hi fuel = 0 ∨
      ∃ r ∈ Gen.charRangesList, r.1 ≤ cp ∧ cp ≤ r.2.1 ∧ classBitsAux cp lo hi fuel = r.2.2 := by
  induction fuel generalizing lo hi with
  | zero => left; rfl
  | succ n ih =>
    rw [classBitsAux]
    split
    · left; rfl
    · dsimp only
      cases h : charRanges[(lo + hi) / 2]? with
      | none => left; rfl
      | some r =>
        obtain ⟨a, b, bits⟩ := r
        dsimp only
        split
        · exact ih _ _
        · split
          · exact ih _ _
          · right
            exact ⟨(a, b, bits), tbl_charRanges_mem h, by dsimp only; omega, by dsimp only; omega, rfl⟩

/-- the class bits of a character are 0 (never the case for the real table, but harmless) or the bits of a
    range `(lo, hi, bits)` of the generated list with `lo ≤ c ≤ hi` -/
theorem tbl_classBits_cases (c : Char) :
    classBits c = 0 ∨ ∃ r ∈ Gen.charRangesList, r.1 ≤ c.toNat ∧ c.toNat ≤ r.2.1 ∧ classBits c = r.2.2 :=
  tbl_classBitsAux_cases c.toNat 0 charRanges.size 64

/-- lifting a decidable check of every range to every character: `Q lo hi bits` decided for all ranges of the
    list, `P` holds of the bits 0 and follows from `Q` on the range the character lies in -/
theorem tbl_forall_chars (Q : Nat × Nat × Nat → Bool) (P : Char → Nat → Prop)
    (hall : Gen.charRangesList.all Q = true) (h0 : ∀ c, P c 0)
    (hQ : ∀ (c : Char) (r : Nat × Nat × Nat), Q r = true → r.1 ≤ c.toNat → c.toNat ≤ r.2.1 → P c r.2.2) (c : Char) :
    P c (classBits c) := by
  rcases tbl_classBits_cases c with h | ⟨r, hr, h1, h2, h3⟩
  · rw [h]; exact h0 c
  · rw [h3]; exact hQ c r (List.all_eq_true.1 hall r hr) h1 h2

/-! ### point facts (evaluating the lookup at one character) -/

/- each fact is exactly one clause of a side condition (nothing more is pinned down, so a lexer change that keeps
   the clause keeps the proof) -/
theorem tbl_ws_cr : realCharSpec.ws '\r' = false := by decide +kernel
theorem tbl_ws_lf : realCharSpec.ws '\n' = false := by decide +kernel
theorem tbl_word_cr : realCharSpec.wordChar '\r' = false := by decide +kernel
theorem tbl_word_lf : realCharSpec.wordChar '\n' = false := by decide +kernel
theorem tbl_uws_cr : realCharSpec.uws '\r' = true := by decide +kernel
theorem tbl_uws_lf : realCharSpec.uws '\n' = true := by decide +kernel
theorem tbl_ws_sp : realCharSpec.ws ' ' = true := by decide +kernel
theorem tbl_uws_sp : realCharSpec.uws ' ' = true := by decide +kernel
theorem tbl_word_sp : realCharSpec.wordChar ' ' = false := by decide +kernel
theorem tbl_ws_minus : realCharSpec.ws '-' = false := by decide +kernel
theorem tbl_ws_lbrack : realCharSpec.ws '[' = false := by decide +kernel

/-! ### facts about all characters (decided on every range of the generated list) -/

/-- no range carries the alphanumeric bit (16) together with a white-space bit (8 `char::is_whitespace`,
    1 lexer whitespace), and no alphanumeric range contains one of `>`, `=`, backslash, LF, CR, `-` -/
def tblAlnumOK (r : Nat × Nat × Nat) : Bool :=
  r.2.2 &&& 16 == 0 ||
    (r.2.2 &&& 8 == 0 && r.2.2 &&& 1 == 0 &&
      [62, 61, 92, 10, 13, 45].all (fun k => k < r.1 || r.2.1 < k))

theorem tbl_alnumOK_all : Gen.charRangesList.all tblAlnumOK = true := by decide +kernel

/-- a letter or digit (`char::is_alphanumeric`) is neither `char::is_whitespace` nor lexer whitespace, and
    is none of `>`, `=`, backslash, LF, CR, `-` — for every character of the real table -/
theorem tbl_alnum (c : Char) (h : realCharSpec.alnum c = true) :
    realCharSpec.uws c = false ∧ realCharSpec.ws c = false ∧
      c ≠ '>' ∧ c ≠ '=' ∧ c ≠ '\\' ∧ c ≠ '\n' ∧ c ≠ '\r' ∧ c ≠ '-' := by
  have key := tbl_forall_chars tblAlnumOK
    (fun c b => (b &&& 16 != 0) = true → (b &&& 8 != 0) = false ∧ (b &&& 1 != 0) = false ∧
      c.toNat ≠ 62 ∧ c.toNat ≠ 61 ∧ c.toNat ≠ 92 ∧ c.toNat ≠ 10 ∧ c.toNat ≠ 13 ∧ c.toNat ≠ 45)
    tbl_alnumOK_all (fun _ h => by simp at h)
    (fun c r hQ h1 h2 ha => by
      simp only [tblAlnumOK, List.all_cons, List.all_nil, Bool.and_true, Bool.or_eq_true, Bool.and_eq_true,
        beq_iff_eq, decide_eq_true_eq] at hQ
      simp only [bne_iff_ne, ne_eq] at ha ⊢
      rcases hQ with h16 | ⟨⟨h8, h1'⟩, hk⟩
      · exact absurd h16 (by simpa using ha)
      · refine ⟨by simp [h8], by simp [h1'], ?_⟩
        omega) c
  have hb := key h
  refine ⟨hb.1, hb.2.1, ?_⟩
  obtain ⟨-, -, a1, a2, a3, a4, a5, a6⟩ := hb
  refine ⟨?_, ?_, ?_, ?_, ?_, ?_⟩ <;> (intro e; subst e; revert a1 a2 a3 a4 a5 a6; decide)

/-- no range that carries the `char::is_whitespace` bit (8) meets the ASCII digits `0`–`9` -/
def tblDigitOK (r : Nat × Nat × Nat) : Bool := r.2.2 &&& 8 == 0 || r.2.1 < 48 || 57 < r.1

theorem tbl_digitOK_all : Gen.charRangesList.all tblDigitOK = true := by decide +kernel

/-- an ASCII digit is not Unicode white space in the real table -/
theorem tbl_digit_not_uws (c : Char) (h : ('0' ≤ c && c ≤ '9') = true) : realCharSpec.uws c = false := by
  have hc : 48 ≤ c.toNat ∧ c.toNat ≤ 57 := by
    simp only [Bool.and_eq_true, decide_eq_true_eq] at h
    have h1 := Char.le_def.1 h.1
    have h2 := Char.le_def.1 h.2
    exact ⟨by simpa [UInt32.le_iff_toNat_le] using h1, by simpa [UInt32.le_iff_toNat_le] using h2⟩
  exact tbl_forall_chars tblDigitOK
    (fun c b => 48 ≤ c.toNat ∧ c.toNat ≤ 57 → (b &&& 8 != 0) = false)
    tbl_digitOK_all (fun _ _ => by simp)
    (fun c r hQ h1 h2 hd => by
      simp only [tblDigitOK, Bool.or_eq_true, beq_iff_eq, decide_eq_true_eq] at hQ
      rcases hQ with (h8 | h) | h
      · simp [h8]
      · omega
      · omega) c hc

/-! ### the generated table is well formed: ranges ascending, adjacent, covering every code point

    (not needed by a side condition; it makes "the range that contains `c`" unique, so the bits the binary
    search returns are THE bits of `c` in the list) -/

/-- consecutive ranges `(lo, hi, _)`: `lo ≤ hi`, and the next range starts at `hi + 1` or — across the
    surrogate gap, which holds no scalar value — at `0xE000` after `0xD7FF` -/
def tblChain : Nat → List (Nat × Nat × Nat) → Bool
  | _, [] => true
  | next, r :: t => (r.1 == next || (next == 0xD800 && r.1 == 0xE000)) && r.1 ≤ r.2.1 && tblChain (r.2.1 + 1) t

theorem tbl_ranges_chain : tblChain 0 Gen.charRangesList = true := by decide +kernel
theorem tbl_ranges_last : (Gen.charRangesList.getLast?.map (·.2.1)) = some 0x10FFFF := by decide +kernel

/-! ### unit keys of the bundled converter, unicase's fold table -/

/-- the keys of the generated table of `Converter::bundled()` are pairwise different (what `add_unit`'s
    duplicate check guarantees of the real `UnitIndex`) -/
theorem tbl_unitKeys_nodup : (unitKeyTable.map (·.1)).Nodup := by decide +kernel

def tblStrictIncr : List Nat → Bool
  | a :: b :: t => a < b && tblStrictIncr (b :: t)
  | _ => true

theorem tbl_strictIncr_pairwise : ∀ (l : List Nat), tblStrictIncr l = true → l.Pairwise (· < ·)
  | [], _ => List.Pairwise.nil
  | [a], _ => List.pairwise_singleton _ _
  | a :: b :: t, h => by
    simp only [tblStrictIncr, Bool.and_eq_true, decide_eq_true_eq] at h
    have ih := tbl_strictIncr_pairwise (b :: t) h.2
    refine List.Pairwise.cons ?_ ih
    intro x hx
    rcases List.mem_cons.1 hx with rfl | hx
    · exact h.1
    · exact Nat.lt_trans h.1 (List.rel_of_pairwise_cons ih hx)

theorem tbl_strictIncr_nodup (l : List Nat) (h : tblStrictIncr l = true) : l.Nodup :=
  (tbl_strictIncr_pairwise l h).imp (fun h => Nat.ne_of_lt h)

/-- unicase's fold table as an association list on characters (what `envWithFoldTable` reads) -/
def realFoldAssoc : List (Char × List Char) := foldTable.toList.map (fun e => (Char.ofNat e.1, e.2))

/-- the code points of the generated fold table are strictly ascending (the binary search of `realFold`
    relies on it) -/
theorem tbl_fold_sorted : tblStrictIncr (foldTable.toList.map (·.1)) = true := by decide +kernel

/-- every key of the fold table is a scalar value (so `Char.ofNat` keeps it) -/
theorem tbl_fold_keys_valid : foldTable.toList.all (fun e => (Char.ofNat e.1).toNat == e.1) = true := by
  decide +kernel

/-- the characters of the fold table are pairwise different -/
theorem tbl_fold_nodup : (realFoldAssoc.map (·.1)).Nodup := by
  have h1 : ((realFoldAssoc.map (·.1)).map Char.toNat) = foldTable.toList.map (·.1) := by
    unfold realFoldAssoc
    rw [List.map_map, List.map_map]
    apply List.map_congr_left
    intro e he
    have := List.all_eq_true.1 tbl_fold_keys_valid e he
    simpa using this
  have h2 : ((realFoldAssoc.map (·.1)).map Char.toNat).Nodup := by
    rw [h1]; exact tbl_strictIncr_nodup _ tbl_fold_sorted
  exact List.Pairwise.of_map Char.toNat (fun a b hab e => hab (by rw [e])) h2

end Cook
