import CookModel.Lemmas.DiagPlaceDoc
import CookModel.Lemmas.MetaParseDiagsReport
/-
  C07, arbitrary placement, document level, from the events to the REPORT of `parse` (`c07d_` prefix).

  * the items of C01's document grammar and well-spelled segments carry no error / warning event;
  * so in a document `docA ++ [planted step] ++ docB` the error / warning events of the whole event stream are
    those of the planted construct (`c07d_planted_doc_events`);
  * the report of `parse`: its parse-stage part is EXACTLY the parse-stage diagnostics carried by the
    construct's events (`loop_parse_diags`: the collector adds no parse-stage diagnostic of its own and drops
    none); if one of them is an `Error` event the report is exactly that list, there is no output (the
    analysis-stage diagnostics, the `>>` notice included, are dropped: `parse_events` stops at the error);
    otherwise there is output.
-/
set_option linter.unusedSectionVars false
set_option linter.unusedSimpArgs false
set_option linter.unusedVariables false
namespace Cook

variable {α : Type} [Arith α]

/-! ### well-formed parts carry no diagnostic event -/

theorem c07d_segXEv_noDiag {cs : CharSpec} {seg : SegX} {ev : Ev α} (h : SegXEv cs seg ev) : isDiagEv ev = none := by
  cases ev with
  | error d => cases seg <;> exact h.elim
  | warning d => cases seg <;> exact h.elim
  | _ => rfl

theorem c07d_segsXEvs_noDiag {cs : CharSpec} {segs : List SegX} {evs : List (Ev α)} (h : SegsXEvs cs segs evs) :
    evs.filterMap isDiagEv = [] := by
  induction h with
  | nil => rfl
  | cons h1 _ ih => simp only [List.filterMap_cons, c07d_segXEv_noDiag h1, ih]

theorem c07d_itemEvs_noDiag {cs : CharSpec} {d : DocItem} {evs : List (Ev α)} (h : DocItemEvs cs d evs) :
    evs.filterMap isDiagEv = [] := by
  cases d with
  | step segs =>
    obtain ⟨e, rfl, he⟩ := h
    have h0 : isDiagEv (Ev.start .step : Ev α) = none := rfl
    have h9 : isDiagEv (Ev.stop .step : Ev α) = none := rfl
    simp only [List.filterMap_append, c07d_segsXEvs_noDiag he, List.filterMap_cons_none h0,
      List.filterMap_cons_none h9, List.filterMap_nil, List.append_nil]
  | sectionLine name p =>
    obtain ⟨ev, rfl, he⟩ := h
    cases ev <;> first | exact he.elim | rfl
  | metaLine k v p =>
    obtain ⟨ev, rfl, he⟩ := h
    cases ev <;> first | exact he.elim | rfl
  | para lines =>
    obtain ⟨ts, rfl, -⟩ := h
    simp only [List.filterMap_append, List.filterMap_cons, List.filterMap_nil, isDiagEv, List.nil_append,
      List.append_nil]
    induction ts with
    | nil => rfl
    | cons t r ih => simp [isDiagEv]

/-- the diagnostic events of a step with a planted construct are those of the construct -/
theorem c07d_plantedEvs_diag {cs : CharSpec} {pre post : List SegX} {B : List Tok}
    {specB : List Tok → List Tok → List Tok → List (Ev α) → Prop} {ts : List Tok} {evs : List (Ev α)}
    (h : plantedEvs cs pre post B specB ts evs) :
    ∃ (tpre tB tpost : List Tok) (evsB : List (Ev α)), ts = tpre ++ (tB ++ tpost) ∧
      Spells tpre (pre.flatMap SegX.spell) ∧ Spells tB B ∧ Spells tpost (post.flatMap SegX.spell) ∧
      specB ts tpre tB evsB ∧ evs.filterMap isDiagEv = evsB.filterMap isDiagEv ∧
      (∀ d, Ev.error d ∈ evs ↔ Ev.error d ∈ evsB) := by
  obtain ⟨tpre, tB, tpost, evs1, evsB, evs2, e1, s1, s2, s3, rfl, g1, g2, g3⟩ := h
  have n1 := c07d_segsXEvs_noDiag g1
  have n2 := c07d_segsXEvs_noDiag g3
  refine ⟨tpre, tB, tpost, evsB, e1, s1, s2, s3, g2, ?_, ?_⟩
  · have h0 : isDiagEv (Ev.start .step : Ev α) = none := rfl
    have h9 : isDiagEv (Ev.stop .step : Ev α) = none := rfl
    simp only [List.filterMap_append, n1, n2, List.filterMap_cons_none h0, List.filterMap_cons_none h9,
      List.filterMap_nil, List.append_nil, List.nil_append]
  · intro d
    have m1 : Ev.error d ∉ evs1 := by
      intro hm
      have : d ∈ evs1.filterMap isDiagEv := List.mem_filterMap.2 ⟨_, hm, rfl⟩
      rw [n1] at this; cases this
    have m2 : Ev.error d ∉ evs2 := by
      intro hm
      have : d ∈ evs2.filterMap isDiagEv := List.mem_filterMap.2 ⟨_, hm, rfl⟩
      rw [n2] at this; cases this
    simp [m1, m2]

/-! ### documents with one planted step -/

/-- a document of C01 items as a document of abstract blocks -/
def plItems (cs : CharSpec) (doc : List (DocItem × List Tok)) : List (PlBlock α × List Tok) :=
  doc.map (fun d => (PlBlock.ofItem cs d.1, d.2))

/-- the document `docA`, then a step with the construct `B` planted between the segments `pre` and `post`
    (followed by the separator `sep`), then `docB` -/
def plantedDoc (cs : CharSpec) (docA docB : List (DocItem × List Tok)) (pre post : List SegX) (B sep : List Tok)
    (specB : List Tok → List Tok → List Tok → List (Ev α) → Prop) : List (PlBlock α × List Tok) :=
  plItems cs docA ++ (PlBlock.planted cs pre post B specB, sep) :: plItems cs docB

theorem c07d_all2_left {β γ : Type} {R : β → γ → Prop} : ∀ {a1 a2 : List β} {b : List γ}, All2 R (a1 ++ a2) b →
    ∃ b1 b2, b = b1 ++ b2 ∧ All2 R a1 b1 ∧ All2 R a2 b2 := by
  intro a1
  induction a1 with
  | nil => intro a2 b h; exact ⟨[], b, rfl, All2.nil, h⟩
  | cons x xs ih =>
    intro a2 b h
    cases h with
    | cons h1 h2 =>
      obtain ⟨b1, b2, rfl, g1, g2⟩ := ih h2
      exact ⟨_ :: b1, b2, rfl, All2.cons h1 g1, g2⟩

theorem c07d_items_res_noDiag (cs : CharSpec) : ∀ (doc : List (DocItem × List Tok)) (res : List (List Tok × List (Ev α))),
    All2 PlBlock.Res (plItems (α := α) cs doc) res → (res.map (·.2)).flatten.filterMap isDiagEv = [] := by
  intro doc
  induction doc with
  | nil => intro res h; cases h; rfl
  | cons d r ih =>
    intro res h
    cases h with
    | cons h1 h2 =>
      simp only [List.map_cons, List.flatten_cons, List.filterMap_append, ih _ h2, List.append_nil]
      exact c07d_itemEvs_noDiag h1.2

/-- **A document with one planted construct: the events.**  `docA`, the planted step, `docB` (items of C01's
    grammar, well-formed; the planted step with the side conditions `plantedOK` and the construct a piece at its
    position on every actual block): the lexer and the block splitter cut the printed text so that one block
    `T = tpre ++ tB ++ tpost` — a contiguous part of the lexer's token list — spells the planted step, the
    construct's events `evsB` are as `specB T tpre tB` describes, the parser reaches no panic site, and the
    error / warning events of the WHOLE event stream are exactly those of `evsB`, in order. -/
theorem c07d_planted_doc_events (cs : CharSpec) (ext : Ext) (lead : List Tok) (docA docB : List (DocItem × List Tok))
    (pre post : List SegX) (B sep : List Tok) (specB : List Tok → List Tok → List Tok → List (Ev α) → Prop)
    (hlead : blankLinesOK lead = true) (hokA : ∀ d ∈ docA, d.1.ok cs ext = true)
    (hokB : ∀ d ∈ docB, d.1.ok cs ext = true) (hpl : plantedOK cs ext pre post B = true)
    (hB : ∀ (T tpre tB tpost : List Tok), T = tpre ++ (tB ++ tpost) → Spells tpre (pre.flatMap SegX.spell) →
      Spells tB B → Spells tpost (post.flatMap SegX.spell) → RunAt (baseOff T) T →
      PlPieceAt T cs ext tpre ⟨tB, specB T tpre tB⟩)
    (hseps : sepsOK (docA.map (·.2) ++ sep :: docB.map (·.2)) = true)
    (hw : WellSpelled cs (lead ++ plDocSpec (plantedDoc cs docA docB pre post B sep specB)))
    (hfm : parseFrontmatter cs (render (lead ++ plDocSpec (plantedDoc cs docA docB pre post B sep specB))) = none) :
    ∃ (T tpre tB tpost : List Tok) (evsB : List (Ev α)) (arr : Array (Ev α)),
      T <:+: lex cs (render (lead ++ plDocSpec (plantedDoc cs docA docB pre post B sep specB))) ∧
      T = tpre ++ (tB ++ tpost) ∧ Spells tpre (pre.flatMap SegX.spell) ∧ Spells tB B ∧
      Spells tpost (post.flatMap SegX.spell) ∧ specB T tpre tB evsB ∧
      pullEvents (α := α) cs ext (render (lead ++ plDocSpec (plantedDoc cs docA docB pre post B sep specB))) =
        (arr, none) ∧
      arr.toList.filterMap isDiagEv = evsB.filterMap isDiagEv ∧
      (∀ d, Ev.error d ∈ arr.toList ↔ Ev.error d ∈ evsB) := by
  have hok : ∀ d ∈ plantedDoc cs docA docB pre post B sep specB, d.1.Runs cs ext := by
    intro d hd
    simp only [plantedDoc, plItems, List.mem_append, List.mem_cons, List.mem_map] at hd
    rcases hd with ⟨x, hx, rfl⟩ | rfl | ⟨x, hx, rfl⟩
    · exact c07d_item_runs cs ext x.1 (hokA x hx)
    · exact c07d_planted_runs cs ext pre post B specB hpl hB
    · exact c07d_item_runs cs ext x.1 (hokB x hx)
  have hseps' : sepsOK ((plantedDoc cs docA docB pre post B sep specB).map (·.2)) = true := by
    simpa [plantedDoc, plItems, List.map_map, Function.comp_def] using hseps
  obtain ⟨res, arr, -, hin, hpe, harr, hall⟩ :=
    c07d_pullEvents_blocks (α := α) cs ext lead _ hlead hok hseps' hw hfm
  obtain ⟨rA, r2, rfl, hA, h2⟩ := c07d_all2_left hall
  cases h2 with
  | cons hP hBr =>
    rename_i rP rB
    obtain ⟨tpre, tB, tpost, evsB, e1, s1, s2, s3, g2, g3, g4⟩ := c07d_plantedEvs_diag hP.2
    have nA := c07d_items_res_noDiag cs docA rA hA
    have nB := c07d_items_res_noDiag cs docB rB hBr
    have hfm' : arr.toList.filterMap isDiagEv = evsB.filterMap isDiagEv := by
      rw [harr]
      simp only [List.map_append, List.map_cons, List.flatten_append, List.flatten_cons, List.filterMap_append, nA, nB,
        g3, List.nil_append, List.append_nil]
    refine ⟨rP.1, tpre, tB, tpost, evsB, arr, hin rP (by simp), e1, s1, s2, s3, g2, hpe, hfm', ?_⟩
    intro d
    have hno : ∀ l : List (Ev α), l.filterMap isDiagEv = [] → Ev.error d ∉ l := by
      intro l hl hm
      have : d ∈ l.filterMap isDiagEv := List.mem_filterMap.2 ⟨_, hm, rfl⟩
      rw [hl] at this; cases this
    rw [harr]
    simp only [List.map_append, List.map_cons, List.flatten_append, List.flatten_cons, List.mem_append, hno _ nA,
      hno _ nB, g4, false_or, or_false]

/-! ### the report of `parse` -/

/-- **From the events to the report of `parse`.**  Whatever the input: if the parser's events are `arr` (no
    parser panic) and their error / warning events are those of a list `evsB`, then
    * the parse-stage part of the report is exactly the parse-stage diagnostics carried by `evsB`, in order;
    * if `evsB` has an `Error` event: the report is EXACTLY that list (nothing of the analysis stage, no `>>`
      notice), there is no output;
    * if it has none: there is output;
    * so the output is missing iff `evsB` has an `Error` event. -/
theorem c07d_report_of_events (env : Env) (input : Str) (arr : Array (Ev α)) (evsB : List (Ev α))
    (hpe : pullEvents (α := α) env.cs env.ext input = (arr, none))
    (hd : arr.toList.filterMap isDiagEv = evsB.filterMap isDiagEv)
    (he : ∀ d, Ev.error d ∈ arr.toList ↔ Ev.error d ∈ evsB) :
    (parseRecipe (α := α) env input).diags.toList.filter (fun d => d.stage == .parse) = evDiags evsB ∧
    ((∃ d, Ev.error d ∈ evsB) → (parseRecipe (α := α) env input).diags.toList = evDiags evsB ∧
      (parseRecipe (α := α) env input).output = none) ∧
    ((∀ d, Ev.error d ∉ evsB) → (parseRecipe (α := α) env input).output.isSome = true) ∧
    ((parseRecipe (α := α) env input).output = none ↔ ∃ d, Ev.error d ∈ evsB) := by
  have hdi : (parseRecipe (α := α) env input).diags = (parseEvents env input arr.toList).diags := by
    unfold parseRecipe; rw [hpe]
  have hou : (parseRecipe (α := α) env input).output = (parseEvents env input arr.toList).output := by
    unfold parseRecipe; rw [hpe]
  have hev : evDiags arr.toList = evDiags evsB := by unfold evDiags; rw [hd]
  have h1 : (parseRecipe (α := α) env input).diags.toList.filter (fun d => d.stage == .parse) = evDiags evsB := by
    rw [hdi, parseEvents_parse_diags, hev]
  have h2 : (∃ d, Ev.error d ∈ evsB) → (parseRecipe (α := α) env input).diags.toList = evDiags evsB ∧
      (parseRecipe (α := α) env input).output = none := by
    rintro ⟨d, hdm⟩
    obtain ⟨k1, k2⟩ := parseEventsLoop_error_suppresses env input arr.toList {} ⟨d, (he d).2 hdm⟩
    refine ⟨?_, by rw [hou]; exact k1⟩
    rw [← h1, hdi]
    symm
    apply List.filter_eq_self.2
    intro x hx
    have := k2 x hx
    simp [this]
  have h3 : (∀ d, Ev.error d ∉ evsB) → (parseRecipe (α := α) env input).output.isSome = true := by
    intro hn
    rw [hou]
    exact parseEventsLoop_no_error_output env input arr.toList {} (fun d hdm => hn d ((he d).1 hdm))
  refine ⟨h1, h2, h3, ?_⟩
  constructor
  · intro hnone
    by_cases hex : ∃ d, Ev.error d ∈ evsB
    · exact hex
    · have := h3 (fun d hdm => hex ⟨d, hdm⟩)
      rw [hnone] at this; cases this
  · intro hex; exact (h2 hex).2

end Cook
