import CookModel.Side.BindingsSpec
import CookModel.Lemmas.ArithRat
/-
  Lemmas about the model of the bindings (Side/Bindings.lean) used by Props/C19.lean.
-/
namespace Cook.Ffi
open Cook

/-! ## `as u32` -/

theorem toU32_of_lt {n : Nat} (h : n < 4294967296) : toU32 n = n := Nat.mod_eq_of_lt h

theorem map_toU32_range {n : Nat} (h : n ≤ 4294967296) : (List.range n).map toU32 = List.range n := by
  apply List.ext_getElem (by simp)
  intro i h1 h2
  simp at h1 h2 ⊢
  exact toU32_of_lt (by omega)

/-! ## The step loop -/

def ingIdx : Item → Option Nat
  | .ingredient i => some (toU32 i)
  | _ => none
def cwIdx : Item → Option Nat
  | .cookware i => some (toU32 i)
  | _ => none
def tmIdx : Item → Option Nat
  | .timer i => some (toU32 i)
  | _ => none

theorem stepBody_eq (acc : StepAcc) (it : Item) :
    stepBody acc it = ⟨acc.items ++ [intoItem it], acc.ing ++ (ingIdx it).toList,
      acc.cw ++ (cwIdx it).toList, acc.tm ++ (tmIdx it).toList⟩ := by
  cases it <;> simp [stepBody, intoItem, ingIdx, cwIdx, tmIdx]

theorem foldl_stepBody (items : List Item) (acc : StepAcc) :
    items.foldl stepBody acc = ⟨acc.items ++ items.map intoItem, acc.ing ++ items.filterMap ingIdx,
      acc.cw ++ items.filterMap cwIdx, acc.tm ++ items.filterMap tmIdx⟩ := by
  induction items generalizing acc with
  | nil => simp
  | cons it rest ih =>
    rw [List.foldl_cons, ih, stepBody_eq]
    cases h1 : ingIdx it <;> cases h2 : cwIdx it <;> cases h3 : tmIdx it <;>
      simp [h1, h2, h3]

theorem stepLoop_eq (items : List Item) :
    stepLoop items = ⟨items.map intoItem, items.filterMap ingIdx, items.filterMap cwIdx, items.filterMap tmIdx⟩ := by
  simp [stepLoop, foldl_stepBody]

/-- the view of one content element -/
def viewBlock : Content → Block
  | .step s => .stepBlock ⟨s.items.map intoItem, s.items.filterMap ingIdx, s.items.filterMap cwIdx, s.items.filterMap tmIdx⟩
  | .text t => .noteBlock t


theorem secBody_eq (acc : SecAcc) (c : Content) :
    secBody acc c = ⟨acc.blocks ++ [viewBlock c], acc.ing ++ (viewBlock c).ingredientRefs,
      acc.cw ++ (viewBlock c).cookwareRefs, acc.tm ++ (viewBlock c).timerRefs⟩ := by
  cases c <;> simp [secBody, viewBlock, stepLoop_eq, Block.ingredientRefs, Block.cookwareRefs, Block.timerRefs]

theorem foldl_secBody (content : List Content) (acc : SecAcc) :
    content.foldl secBody acc = ⟨acc.blocks ++ content.map viewBlock,
      acc.ing ++ (content.map viewBlock).flatMap Block.ingredientRefs,
      acc.cw ++ (content.map viewBlock).flatMap Block.cookwareRefs,
      acc.tm ++ (content.map viewBlock).flatMap Block.timerRefs⟩ := by
  induction content generalizing acc with
  | nil => simp
  | cons c rest ih =>
    rw [List.foldl_cons, ih, secBody_eq]
    simp [List.flatMap_cons]

theorem intoSection_eq (s : Section) :
    intoSection s = ⟨s.name, s.content.map viewBlock,
      (s.content.map viewBlock).flatMap Block.ingredientRefs,
      (s.content.map viewBlock).flatMap Block.cookwareRefs,
      (s.content.map viewBlock).flatMap Block.timerRefs⟩ := by
  simp [intoSection, secLoop, foldl_secBody]

theorem foldl_push_map {β γ : Type} (f : β → γ) (l : List β) (acc : List γ) :
    l.foldl (fun acc s => acc ++ [f s]) acc = acc ++ l.map f := by
  induction l generalizing acc with
  | nil => simp
  | cons x rest ih => simp [ih]

theorem intoSimpleRecipe_sections {α} [Arith α] (r : ScaledRecipe α) :
    (intoSimpleRecipe r).sections = r.sections.map intoSection := by
  unfold intoSimpleRecipe
  simp only [foldl_push_map, List.nil_append]

/-! ## Mirror relations hold for the conversion -/

theorem forall₂_map_of_forall {β γ : Type} {R : β → γ → Prop} {f : β → γ} :
    ∀ {l : List β}, (∀ x ∈ l, R x (f x)) → Forall₂ R l (l.map f)
  | [], _ => .nil
  | x :: rest, h => .cons (h x (by simp)) (forall₂_map_of_forall (fun y hy => h y (by simp [hy])))

theorem Forall₂.length_eq {β γ : Type} {R : β → γ → Prop} {l₁ : List β} {l₂ : List γ}
    (h : Forall₂ R l₁ l₂) : l₁.length = l₂.length := by
  induction h with
  | nil => rfl
  | cons _ _ ih => simp [ih]

theorem Forall₂.get {β γ : Type} {R : β → γ → Prop} {l₁ : List β} {l₂ : List γ}
    (h : Forall₂ R l₁ l₂) : ∀ (i : Nat) (h1 : i < l₁.length) (h2 : i < l₂.length), R l₁[i] l₂[i] := by
  induction h with
  | nil => intro i h1; simp at h1
  | cons hab _ ih =>
    intro i h1 h2
    cases i with
    | zero => simpa using hab
    | succ j => simpa using ih j (by simpa using h1) (by simpa using h2)

theorem itemMirrors_intoItem {α V} (r : Recipe α V) (hfit : FitsU32 r) (it : Item) (h : ItemInRange r it) :
    ItemMirrors it (intoItem it) := by
  obtain ⟨h1, h2, h3⟩ := hfit
  cases it with
  | text v => exact .text v
  | ingredient i =>
    have : toU32 i = i := toU32_of_lt (by simp [ItemInRange] at h; omega)
    simp only [intoItem, this]; exact .ingredient i
  | cookware i =>
    have : toU32 i = i := toU32_of_lt (by simp [ItemInRange] at h; omega)
    simp only [intoItem, this]; exact .cookware i
  | timer i =>
    have : toU32 i = i := toU32_of_lt (by simp [ItemInRange] at h; omega)
    simp only [intoItem, this]; exact .timer i
  | inlineQuantity i => exact .inlineQuantity i

theorem ingIndex_intoItem (it : Item) : (intoItem it).ingIndex = ingIdx it := by
  cases it <;> rfl
theorem cwIndex_intoItem (it : Item) : (intoItem it).cwIndex = cwIdx it := by
  cases it <;> rfl
theorem tmIndex_intoItem (it : Item) : (intoItem it).tmIndex = tmIdx it := by
  cases it <;> rfl

theorem filterMap_ingIndex (items : List Item) :
    (items.map intoItem).filterMap FItem.ingIndex = items.filterMap ingIdx := by
  rw [List.filterMap_map]; congr 1; funext it; exact ingIndex_intoItem it
theorem filterMap_cwIndex (items : List Item) :
    (items.map intoItem).filterMap FItem.cwIndex = items.filterMap cwIdx := by
  rw [List.filterMap_map]; congr 1; funext it; exact cwIndex_intoItem it
theorem filterMap_tmIndex (items : List Item) :
    (items.map intoItem).filterMap FItem.tmIndex = items.filterMap tmIdx := by
  rw [List.filterMap_map]; congr 1; funext it; exact tmIndex_intoItem it

theorem blockMirrors_viewBlock {α V} (r : Recipe α V) (hfit : FitsU32 r) (c : Content)
    (h : ∀ s, c = .step s → ∀ it ∈ s.items, ItemInRange r it) : BlockMirrors c (viewBlock c) := by
  cases c with
  | text t => exact .text t
  | step s =>
    refine .step s _ ⟨?_, ?_, ?_, ?_⟩
    · exact forall₂_map_of_forall (fun it hit => itemMirrors_intoItem r hfit it (h s rfl it hit))
    · exact (filterMap_ingIndex s.items).symm
    · exact (filterMap_cwIndex s.items).symm
    · exact (filterMap_tmIndex s.items).symm

theorem sectionMirrors_intoSection {α V} (r : Recipe α V) (hfit : FitsU32 r) (sec : Section)
    (h : ∀ s, Content.step s ∈ sec.content → ∀ it ∈ s.items, ItemInRange r it) :
    SectionMirrors sec (intoSection sec) := by
  rw [intoSection_eq]
  refine ⟨rfl, ?_, rfl, rfl, rfl⟩
  exact forall₂_map_of_forall (fun c hc => blockMirrors_viewBlock r hfit c (fun s hs => h s (hs ▸ hc)))

theorem valueMirrors_extract {α} [Arith α] (v : Value α) : ValueMirrors v (extractValue v) := by
  cases v with
  | number n => exact .number n
  | range s e => exact .range s e
  | text t => exact .text t

theorem quantityMirrors_extract {α} [Arith α] (q : Option (Quantity (Value α))) :
    QuantityMirrors q (q.map extractAmountQ) := by
  cases q with
  | none => exact .none
  | some q => exact .some q _ rfl (valueMirrors_extract q.value)

theorem amountMirrors_extract {α} [Arith α] (v : Option (Value α)) :
    AmountMirrors v (v.map extractAmountV) := by
  cases v with
  | none => exact .none
  | some v => exact .some v _ rfl (valueMirrors_extract v)

theorem ingredientMirrors_from {α} [Arith α] (c : Ingredient (Value α)) : IngredientMirrors c (fromIngredient c) :=
  ⟨rfl, quantityMirrors_extract c.quantity, rfl⟩
theorem cookwareMirrors_from {α} [Arith α] (c : Cookware (Value α)) : CookwareMirrors c (fromCookware c) :=
  ⟨rfl, amountMirrors_extract c.quantity⟩
theorem timerMirrors_from {α} [Arith α] (c : Timer (Value α)) : TimerMirrors c (fromTimer c) :=
  ⟨rfl, quantityMirrors_extract c.quantity⟩

theorem getOrPanic_map {β γ : Type} (f : β → γ) (l : List β) (i : Nat) (site : String) (x : β)
    (h : l[i]? = some x) : getOrPanic (l.map f) i site = .ok (f x) := by
  simp [getOrPanic, h]

/-- the image of an in-range core item resolves to the image of the component it denotes -/
theorem itemResolves_intoItem {α} [Arith α] (r : ScaledRecipe α) (hfit : FitsU32 r) (it : Item)
    (h : ItemInRange r it) : ItemResolves r (intoSimpleRecipe r) (intoItem it) := by
  obtain ⟨h1, h2, h3⟩ := hfit
  cases it with
  | text v => simp [intoItem, ItemResolves, derefComponent]
  | inlineQuantity i => simp [intoItem, ItemResolves, derefComponent]
  | ingredient i =>
    have hi : i < r.ingredients.length := h
    have : toU32 i = i := toU32_of_lt (by omega)
    simp only [intoItem, this, ItemResolves]
    refine ⟨r.ingredients[i], fromIngredient r.ingredients[i], by simp, ingredientMirrors_from _, ?_, ?_⟩
    · simp [derefComponent, intoSimpleRecipe, getOrPanic, hi, Except.map]
    · simp [derefIngredient, intoSimpleRecipe, getOrPanic, hi]
  | cookware i =>
    have hi : i < r.cookware.length := h
    have : toU32 i = i := toU32_of_lt (by omega)
    simp only [intoItem, this, ItemResolves]
    refine ⟨r.cookware[i], fromCookware r.cookware[i], by simp, cookwareMirrors_from _, ?_, ?_⟩
    · simp [derefComponent, intoSimpleRecipe, getOrPanic, hi, Except.map]
    · simp [derefCookware, intoSimpleRecipe, getOrPanic, hi]
  | timer i =>
    have hi : i < r.timers.length := h
    have : toU32 i = i := toU32_of_lt (by omega)
    simp only [intoItem, this, ItemResolves]
    refine ⟨r.timers[i], fromTimer r.timers[i], by simp, timerMirrors_from _, ?_, ?_⟩
    · simp [derefComponent, intoSimpleRecipe, getOrPanic, hi, Except.map]
    · simp [derefTimer, intoSimpleRecipe, getOrPanic, hi]

/-- every item of every step block of the view resolves -/
theorem items_resolve {α} [Arith α] (r : ScaledRecipe α) (hfit : FitsU32 r) (hin : IndicesInRange r) :
    ∀ fsec ∈ (intoSimpleRecipe r).sections, ∀ fs, Block.stepBlock fs ∈ fsec.blocks →
      ∀ fit ∈ fs.items, ItemResolves r (intoSimpleRecipe r) fit := by
  intro fsec hfsec fs hfs fit hfit'
  rw [intoSimpleRecipe_sections] at hfsec
  obtain ⟨sec, hsec, rfl⟩ := List.mem_map.mp hfsec
  rw [intoSection_eq] at hfs
  obtain ⟨c, hc, hcv⟩ := List.mem_map.mp hfs
  cases c with
  | text t => simp [viewBlock] at hcv
  | step s =>
    simp only [viewBlock, Block.stepBlock.injEq] at hcv
    subst hcv
    obtain ⟨it, hit, rfl⟩ := List.mem_map.mp hfit'
    exact itemResolves_intoItem r hfit it (hin sec hsec s hc it hit)

end Cook.Ffi
