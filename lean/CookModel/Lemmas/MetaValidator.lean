import CookModel.Analysis.MetaValidator
import CookModel.Lemmas.CollectorAgree
import CookModel.Lemmas.CollectorFrame
import CookModel.Lemmas.MetaFront
import CookModel.Lemmas.DiagAnalysisIff
import CookModel.Lemmas.StdMetaCoupling
/-
  Lemmas about the `>>` arm under a `metadata_validator` (Analysis/MetaValidator.lean), prefix `mvl_`:
  the default verdict gives back `metadataA`; what the arm does to the metadata part of the collector
  depends on that part (and the verdict) only; `parse` and `parse_metadata` agree under a validator.
-/
set_option linter.unusedSectionVars false
set_option linter.unusedVariables false
namespace Cook
namespace MV
open SM (Y)
variable {α : Type} [Arith α]

/-! ### the default verdict is the code without a validator -/

theorem mvl_validatorDiags_ok (v : FM.Verdict) (key value : Text) (h : v.res = .ok) :
    validatorDiags v key value = [] := by
  simp [validatorDiags, FM.validatorDiag, h]

theorem mvl_stdTail_eq (env : Env) (key value : Text) (s : Col α) (hc : isCfg env key = false) :
    metadataA env key value s =
      stdTail env key value (insertEntry env key value
        { s with oldStyleUsed := s.oldStyleUsed ++ [⟨key.span.start, value.span.stop⟩] }) := by
  unfold isCfg at hc
  unfold metadataA stdTail insertEntry
  simp +instances only [A_bind, A_pure, A_get, A_ite, A_modify, hc, if_false, Bool.false_eq_true]
  cases hk : StdKey.ofStr (String.ofList (key.trimmed env.cs)) with
  | none => rfl
  | some sk =>
    cases hv : env.stdCheck sk (value.outerTrimmed env.cs) <;> rfl

/-- with the verdict `Ok`, `include`, `run_std_checks` (what a validator that touches nothing leaves, and
    `CheckOptions::default()`), the arm is the arm without a validator -/
theorem mvl_default (env : Env) (v : FM.Verdict) (key value : Text) (s : Col α)
    (h1 : v.res = .ok) (h2 : v.incl = true) (h3 : v.runStd = true) :
    metadataV env v key value s = metadataA env key value s := by
  unfold metadataV
  cases hc : isCfg env key
  · rw [mvl_stdTail_eq env key value s hc]
    simp +instances only [A_bind, A_ite, A_modify, h2, h3, Bool.false_eq_true, if_false, Bool.not_true,
      noteCall, mvl_validatorDiags_ok v key value h1, Array.append_empty]
  · simp

/-! ### the three cases of a call -/

/-- `include(false)`: only the old-style span and the validator's diagnostic are recorded -/
theorem mvl_excluded (env : Env) (v : FM.Verdict) (key value : Text) (s : Col α)
    (hc : isCfg env key = false) (hi : v.incl = false) :
    (metadataV env v key value s).2 = noteCall v key value s := by
  unfold metadataV
  simp +instances only [hc, A_bind, A_ite, A_modify, hi, Bool.false_eq_true, if_false, Bool.not_false, if_true]
  rfl

/-- `run_std_checks(false)` (entry included): the entry is inserted, nothing else happens -/
theorem mvl_unchecked (env : Env) (v : FM.Verdict) (key value : Text) (s : Col α)
    (hc : isCfg env key = false) (hi : v.incl = true) (hr : v.runStd = false) :
    (metadataV env v key value s).2 = insertEntry env key value (noteCall v key value s) := by
  unfold metadataV
  simp +instances only [hc, A_bind, A_ite, A_modify, hi, hr, Bool.false_eq_true, if_false, Bool.not_false, if_true,
    Bool.not_true]
  rfl

/-- entry included and std checks on: the code without a validator, run after the validator's
    diagnostic was pushed -/
theorem mvl_checked (env : Env) (v : FM.Verdict) (key value : Text) (s : Col α)
    (hc : isCfg env key = false) (hi : v.incl = true) (hr : v.runStd = true) :
    metadataV env v key value s =
      metadataA env key value { s with diags := s.diags ++ (validatorDiags v key value).toArray } := by
  rw [mvl_stdTail_eq env key value _ hc]
  unfold metadataV
  simp +instances only [hc, A_bind, A_ite, A_modify, hi, hr, Bool.false_eq_true, if_false, Bool.not_true, noteCall]

theorem mvl_cfg (env : Env) (v : FM.Verdict) (key value : Text) (hc : isCfg env key = true) :
    metadataV (α := α) env v key value = metadataA env key value := by
  unfold metadataV; simp [hc]

/-! ### what one call leaves in the collector -/

theorem mvl_not_c07i (env : Env) (key : Text) (hc : isCfg env key = false) : c07i_isConfigKey env key = false := by
  unfold isCfg at hc
  unfold c07i_isConfigKey
  rw [hc]; rfl

/-- the report, the map and the servings after a `>>` entry (not a `[config]` entry) on which the validator
    left the verdict `v` -/
theorem mvl_entry_report (env : Env) (v : FM.Verdict) (key value : Text) (s : Col α) (hc : isCfg env key = false) :
    (v.incl = false →
      (metadataV env v key value s).2.metaMap = s.metaMap ∧ (metadataV env v key value s).2.servings = s.servings ∧
      (metadataV env v key value s).2.diags.toList = s.diags.toList ++ validatorDiags v key value) ∧
    (v.incl = true → v.runStd = false →
      (metadataV env v key value s).2.metaMap = metaInsert s.metaMap (key.trimmed env.cs) (value.outerTrimmed env.cs) ∧
      (metadataV env v key value s).2.servings = s.servings ∧
      (metadataV env v key value s).2.diags.toList = s.diags.toList ++ validatorDiags v key value) ∧
    (v.incl = true → v.runStd = true →
      (metadataV env v key value s).2.diags.toList =
        s.diags.toList ++ validatorDiags v key value ++ c07i_entryDiags env key value s.metaLocs) := by
  refine ⟨fun hi => ?_, fun hi hr => ?_, fun hi hr => ?_⟩
  · rw [mvl_excluded env v key value s hc hi]
    exact ⟨rfl, rfl, by simp [noteCall]⟩
  · rw [mvl_unchecked env v key value s hc hi hr]
    exact ⟨rfl, rfl, by simp [noteCall, insertEntry]⟩
  · rw [mvl_checked env v key value s hc hi hr, c07i_metadataA_entry env key value _ (mvl_not_c07i env key hc)]
    simp

/-- the std warning is among the diagnostics of a regular entry exactly when the key names a standard key and
    the check refuses the value -/
theorem mvl_entryDiags_warns (env : Env) (key value : Text) (locs : List (StdKey × Span)) :
    (∃ d ∈ c07i_entryDiags env key value locs, d.kind = "std-unsupported-value") ↔
    ∃ sk, StdKey.ofStr (String.ofList (key.trimmed env.cs)) = some sk ∧
      env.stdCheck sk (value.outerTrimmed env.cs) = .rejected := by
  unfold c07i_entryDiags
  cases hk : StdKey.ofStr (String.ofList (key.trimmed env.cs)) with
  | none => simp
  | some sk =>
    cases hv : env.stdCheck sk (value.outerTrimmed env.cs) with
    | rejected => simp [adiag, hv]
    | ok =>
      simp only [hv, Option.some.injEq, exists_eq_left', reduceCtorEq, iff_false, not_exists, not_and]
      intro d hd hkind
      split at hd
      · rw [c07i_timeOverrideDiags_kind _ _ d hd] at hkind; exact absurd hkind (by decide)
      · simp at hd
    | servings l =>
      simp only [hv, Option.some.injEq, exists_eq_left', reduceCtorEq, iff_false, not_exists, not_and]
      intro d hd hkind
      split at hd
      · rw [c07i_timeOverrideDiags_kind _ _ d hd] at hkind; exact absurd hkind (by decide)
      · simp at hd

/-- the collector's check instantiated with the C13 model refuses exactly when the accessor gives nothing -/
theorem mvl_stdCheckOfSM_rejected (c : SM.Conv α) (alpha : Char → Bool) (k : Cook.StdKey) (v : Str) :
    FM.stdCheckOfSM c alpha k v = .rejected ↔ SM.accessorGives c alpha (FM.toSMKey k) (.str v) = false := by
  have h := SM.check_none_iff c alpha (FM.toSMKey k) (.str v)
  unfold FM.stdCheckOfSM
  cases hc : SM.checkStdEntry c alpha (FM.toSMKey k) (.str v) with
  | none => rw [hc] at h; simpa using h.symm
  | some o =>
    rw [hc] at h
    cases o <;> simpa using h.symm

/-! ### the metadata part after the arm depends on the metadata part before it (and the verdict) -/

theorem mvl_sm_stdTail (env : Env) (k v : Text) : SM (α := α) (stdTail (α := α) env k v) (stdTail env k v) := by
  unfold stdTail; smt

theorem mvl_sm_metadataV (env : Env) (vd : FM.Verdict) (k v : Text) :
    SM (α := α) (metadataV (α := α) env vd k v) (metadataV env vd k v) := by
  unfold metadataV
  split
  · exact sm_metadataA env k v
  · have := mvl_sm_stdTail (α := α) env k v
    unfold noteCall insertEntry
    smt
    all_goals exact this

/-! ### the fold -/

/-- the state after all events (no early exit), with the call counter -/
def finalV (env : Env) (input : Str) (f : Nat → Y → Y → FM.Verdict) : List (Ev α) → Nat → Col α → Col α
  | [], _, s => s
  | .metadata k v :: rest, n, s =>
    finalV env input f rest (if isCfg env k then n else n + 1)
      ((metadataV env (f n (callArgs env k v).1 (callArgs env k v).2) k v s).2)
  | ev :: rest, n, s => finalV env input f rest n ((processEvent env input ev s).2)

theorem mvl_loop_output (env : Env) (input : Str) (f : Nat → Y → Y → FM.Verdict) :
    ∀ (l : List (Ev α)) (n : Nat) (s r : Col α),
    (loopV env input f l n s).output = some r → r.ms = (finalV env input f l n s).ms := by
  intro l
  induction l with
  | nil =>
    intro n s r h
    simp only [loopV, parseEventsLoop, Option.some.injEq] at h
    rw [← h]
    simp only [finalV]
    split <;> split <;> rfl
  | cons ev rest ih =>
    intro n s r h
    cases ev with
    | error d => simp [loopV, parseEventsLoop] at h
    | metadata k v => simp only [loopV] at h; simpa [finalV] using ih _ _ r h
    | _ => simp only [loopV] at h; simpa [finalV] using ih _ _ r h

theorem mvl_final_keys (env : Env) (input : Str) (f : Nat → Y → Y → FM.Verdict) :
    ∀ (l : List (Ev α)) (n : Nat) (s s' : Col α), s.ms = s'.ms →
    (∀ ev ∈ l, ev.isKey = true → ∃ k v, ev = .metadata k v) →
    (finalV env input f l n s).ms = (finalV env input f (l.filter Ev.isKey) n s').ms := by
  intro l
  induction l with
  | nil => intro n s s' h _; exact h
  | cons ev rest ih =>
    intro n s s' h hk
    have hk' : ∀ e ∈ rest, e.isKey = true → ∃ k v, e = .metadata k v :=
      fun e he => hk e (List.mem_cons_of_mem _ he)
    cases hkey : ev.isKey with
    | true =>
      obtain ⟨k, v, rfl⟩ := hk ev (List.mem_cons_self ..) hkey
      simp only [List.filter_cons, hkey, if_true, finalV]
      exact ih _ _ _ ((mvl_sm_metadataV env _ k v).run s s' h).2 hk'
    | false =>
      have hs := ((pf_processEvent s.ms env input ev hkey).run s rfl).trans h
      simp only [List.filter_cons, hkey, Bool.false_eq_true, if_false]
      cases ev with
      | metadata k v => simp [Ev.isKey] at hkey
      | _ => simp only [finalV]; exact ih _ _ _ hs hk'

theorem mvl_events_agree (env : Env) (input : Str) (f : Nat → Y → Y → FM.Verdict) (l1 l2 : List (Ev α))
    (hk : l1.filter Ev.isKey = l2.filter Ev.isKey)
    (hm : ∀ ev ∈ l2, ev.isKey = true → ∃ k v, ev = .metadata k v)
    (r1 r2 : Col α) (h1 : (loopV env input f l1 0 {}).output = some r1)
    (h2 : (loopV env input f l2 0 {}).output = some r2) : r1.ms = r2.ms := by
  have e1 := mvl_loop_output env input f l1 _ _ r1 h1
  have e2 := mvl_loop_output env input f l2 _ _ r2 h2
  have hm1 : ∀ ev ∈ l1, ev.isKey = true → ∃ k v, ev = .metadata k v := by
    intro ev he hkey
    have : ev ∈ l1.filter Ev.isKey := List.mem_filter.2 ⟨he, hkey⟩
    rw [hk] at this
    exact hm ev (List.mem_filter.1 this).1 hkey
  rw [e1, e2, mvl_final_keys env input f l1 _ _ _ rfl hm1, mvl_final_keys env input f l2 _ _ _ rfl hm, hk]

/-- without front matter, under ANY validator (also none): whenever both analyses have output, their
    metadata parts are equal -/
theorem mvl_analysis_agree (env : Env) (val : Option (Nat → Y → Y → FM.Verdict)) (input : Str)
    (h : parseFrontmatter env.cs input = none)
    (r1 r2 : Col α) (h1 : (parseRecipeV (α := α) env val input).output = some r1)
    (h2 : (parseMetadataV (α := α) env val input).output = some r2) : r1.ms = r2.ms := by
  cases val with
  | none => exact analysis_agree env input h r1 r2 h1 h2
  | some f =>
    unfold parseRecipeV at h1
    unfold parseMetadataV at h2
    simp only [parseEventsV] at h1 h2
    exact mvl_events_agree env input f _ _ (metadata_events_agree env.cs env.ext input h)
      (pullMeta_keys_shape env.cs env.ext input h) r1 r2 h1 h2

/-- a validator that always answers `Ok` and touches no option is no validator -/
theorem mvl_loop_default (env : Env) (input : Str) (f : Nat → Y → Y → FM.Verdict)
    (hf : ∀ n a b, (f n a b).res = .ok ∧ (f n a b).incl = true ∧ (f n a b).runStd = true) :
    ∀ (l : List (Ev α)) (n : Nat) (s : Col α), loopV env input f l n s = parseEventsLoop env input l s := by
  intro l
  induction l with
  | nil => intro n s; rfl
  | cons ev rest ih =>
    intro n s
    cases ev with
    | error d => rfl
    | metadata k v =>
      simp only [loopV, parseEventsLoop]
      rw [mvl_default env _ k v s (hf _ _ _).1 (hf _ _ _).2.1 (hf _ _ _).2.2]
      exact ih _ _
    | _ => simp only [loopV, parseEventsLoop]; exact ih _ _

/-! ### with front matter the `>>` arm never calls the validator -/

theorem mvl_loop_cfg (env : Env) (input : Str) (f : Nat → Y → Y → FM.Verdict) :
    ∀ (l : List (Ev α)) (n : Nat) (s : Col α),
    (∀ k v, Ev.metadata k v ∈ l → isCfg env k = true) →
    loopV env input f l n s = parseEventsLoop env input l s := by
  intro l
  induction l with
  | nil => intro n s _; rfl
  | cons ev rest ih =>
    intro n s h
    have h' : ∀ k v, Ev.metadata k v ∈ rest → isCfg env k = true :=
      fun k v hm => h k v (List.mem_cons_of_mem _ hm)
    cases ev with
    | error d => rfl
    | metadata k v =>
      have hc := h k v (List.mem_cons_self ..)
      simp only [loopV, parseEventsLoop, hc, if_true, mvl_cfg env _ k v hc]
      exact ih _ _ h'
    | _ => simp only [loopV, parseEventsLoop]; exact ih _ _ h'

/-- with front matter, a validator changes nothing in what the event fold does: it is consulted by
    `process_frontmatter` only (`FM.processFrontmatter`) -/
theorem mvl_front_same (env : Env) (val : Option (Nat → Y → Y → FM.Verdict)) (input : Str) (fm : FrontMatter)
    (h : parseFrontmatter env.cs input = some fm) :
    parseRecipeV (α := α) env val input = parseRecipe env input ∧
    parseMetadataV (α := α) env val input = parseMetadata env input := by
  cases val with
  | none => exact ⟨rfl, rfl⟩
  | some f =>
    constructor
    · unfold parseRecipeV parseRecipe parseEventsV parseEvents
      obtain ⟨L, e, hL⟩ := mfront_pullEvents (α := α) env.cs env.ext input fm h
      have hcfg : ∀ k v, Ev.metadata k v ∈ (pullEvents (α := α) env.cs env.ext input).1.toList → isCfg env k = true := by
        intro k v hm
        have hm2 : Ev.metadata k v ∈ metaOf (pullEvents (α := α) env.cs env.ext input).1 :=
          List.mem_filter.2 ⟨hm, rfl⟩
        rw [e] at hm2
        rcases List.mem_cons.1 hm2 with hm3 | hm3
        · cases hm3
        · obtain ⟨k', v', e', hk, hx⟩ := hL _ hm3
          cases e'
          obtain ⟨h1, h2, _⟩ := mfront_cfg_trimmed env.cs k hk
          simp [isCfg, hx, h1, h2]
      simp only [mvl_loop_cfg env input f _ 0 {} hcfg]
      rfl
    · unfold parseMetadataV parseMetadata parseEventsV parseEvents
      simp only [mfront_pullMetaEvents (α := α) env.cs env.ext input fm h]
      rfl

end MV
end Cook
