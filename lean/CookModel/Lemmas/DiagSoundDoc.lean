import CookModel.Lemmas.RoundtripDocRefs
/-
  C07, soundness on whole documents (prefix `c07s_`): what a diagnostics array that consists of the `>>`
  deprecation notice only looks like.  Used to read C07's clause S off the C01 document theorems
  (`rtx_parseRecipe_doc`, `rtdr_parseRecipe_doc`), whose result carries `diags = deprecation spans`.
-/
namespace Cook
variable {α : Type} [Arith α]
set_option linter.unusedSectionVars false

/-- the `>>` notice: one analysis-stage WARNING of kind `meta-deprecated`, one label per entry -/
def metaNotice (spans : List Span) : Diag := ⟨.warning, .analysis, "meta-deprecated", spans⟩

theorem c07s_deprecation_nil (spans : List Span) (h : spans.length = 0) : deprecation spans = #[] := by
  cases spans with
  | nil => rfl
  | cons a l => simp at h

theorem c07s_deprecation_cons (spans : List Span) (h : spans.length ≠ 0) :
    deprecation spans = #[metaNotice spans] := by
  cases spans with
  | nil => simp at h
  | cons a l => rfl

/-- every member of the array is the notice; in particular no member is an error -/
theorem c07s_deprecation_mem (spans : List Span) (d : Diag) (h : d ∈ (deprecation spans).toList) :
    d = metaNotice spans ∧ spans ≠ [] := by
  cases spans with
  | nil => simp [deprecation] at h
  | cons a l =>
    simp only [deprecation, List.isEmpty_cons, Bool.false_eq_true, if_false, List.mem_singleton] at h
    exact ⟨h, by simp⟩

theorem c07s_deprecation_no_error (spans : List Span) :
    ((deprecation spans).toList.any (fun d => d.sev == .error)) = false := by
  rw [List.any_eq_false]
  intro d hd
  rw [(c07s_deprecation_mem spans d hd).1]
  simp [metaNotice]

/-- a result `⟨some c, c.diags, none⟩` whose diagnostics are the deprecation notice of `n` entries -/
theorem c07s_notice_result (r : AnalysisResult α) (c : Col α) (spans : List Span) (n : Nat)
    (h : r = ⟨some c, c.diags, none⟩) (hd : c.diags = deprecation spans) (hl : spans.length = n) :
    r.diags = (if n = 0 then #[] else #[metaNotice spans]) ∧
    (∀ d ∈ r.diags.toList, d = metaNotice spans ∧ n ≠ 0) ∧
    r.output.isSome = true ∧ (r.diags.toList.any (fun d => d.sev == .error)) = false ∧ r.panic = none := by
  subst h
  dsimp only
  rw [hd]
  refine ⟨?_, ?_, rfl, c07s_deprecation_no_error spans, rfl⟩
  · by_cases h0 : n = 0
    · rw [if_pos h0, c07s_deprecation_nil spans (by omega)]
    · rw [if_neg h0, c07s_deprecation_cons spans (by omega)]
  · intro d hd'
    obtain ⟨h1, h2⟩ := c07s_deprecation_mem spans d hd'
    refine ⟨h1, ?_⟩
    intro h0
    apply h2
    exact List.eq_nil_of_length_eq_zero (by omega)

end Cook
