import CookModel.Lemmas.Text
/-
  A small Hoare / weakest-precondition layer for the block parser monad `P α = StateM (BP α)`.

  `Sat m s Q` : running `m` from state `s` gives a result and a state satisfying `Q`.
  `G ts e s`  : the invariant "state `s` works on the token list `ts` with extensions `e`, has not
                panicked, and its cursor is inside `ts`".
  For every primitive of `BlockParser` there is one lemma `…_sat` saying what it returns and where
  it leaves the cursor; the parsers of `Syntax/Parser.lean` are then verified by composing them
  (file `Lemmas/ParserNoPanic.lean`).
-/
set_option linter.unusedSectionVars false
set_option linter.unusedSimpArgs false
namespace Cook

variable {α : Type} [Arith α]

/-! ### Runs of adjacent tokens and their slices -/

/-- start of the first token (`BlockParser::base_offset`) -/
def baseOff (ts : List Tok) : Nat := (ts.head?.map (·.start)).getD 0

/-- end of the last token of `ts`, or `off` for the empty list -/
def lastStop (off : Nat) (ts : List Tok) : Nat := (ts.getLast?.map (·.stop)).getD off

/-- adjacent tokens starting at `off`, escaped tokens start with a backslash: what
    `buildText_faithful` needs -/
def RunAt (off : Nat) (ts : List Tok) : Prop := Chain off ts ∧ EscapedOK ts

/-- `ts[i..j]` -/
def slice (ts : List Tok) (i j : Nat) : List Tok := (ts.take j).drop i

/-- what `current_offset` returns when the cursor is `i` -/
def offAt (ts : List Tok) (i : Nat) : Nat := lastStop (baseOff ts) (ts.take i)

theorem lastStop_cons (off : Nat) (t : Tok) (ts : List Tok) :
    lastStop off (t :: ts) = lastStop t.stop ts := by
  cases ts with
  | nil => simp [lastStop]
  | cons u us => simp only [lastStop, List.getLast?_cons_cons]; simp [List.getLast?_cons]

theorem chain_append (off : Nat) (a b : List Tok) :
    Chain off (a ++ b) ↔ Chain off a ∧ Chain (lastStop off a) b := by
  induction a generalizing off with
  | nil => simp [Chain, lastStop]
  | cons t a ih =>
    simp only [List.cons_append, Chain, lastStop_cons, ih t.stop]
    constructor
    · rintro ⟨h1, h2, h3⟩; exact ⟨⟨h1, h2⟩, h3⟩
    · rintro ⟨⟨h1, h2⟩, h3⟩; exact ⟨h1, h2, h3⟩

theorem escapedOK_append (a b : List Tok) : EscapedOK (a ++ b) ↔ EscapedOK a ∧ EscapedOK b := by
  unfold EscapedOK
  constructor
  · intro h
    exact ⟨fun t ht => h t (by simp [ht]), fun t ht => h t (by simp [ht])⟩
  · rintro ⟨h1, h2⟩ t ht
    simp only [List.mem_append] at ht
    rcases ht with ht | ht
    · exact h1 t ht
    · exact h2 t ht

theorem runAt_append (off : Nat) (a b : List Tok) :
    RunAt off (a ++ b) ↔ RunAt off a ∧ RunAt (lastStop off a) b := by
  unfold RunAt
  rw [chain_append, escapedOK_append]
  constructor
  · rintro ⟨⟨h1, h2⟩, h3, h4⟩; exact ⟨⟨h1, h3⟩, h2, h4⟩
  · rintro ⟨⟨h1, h3⟩, h2, h4⟩; exact ⟨⟨h1, h2⟩, h3, h4⟩

theorem runAt_nil (off : Nat) : RunAt off [] := ⟨trivial, by intro t ht; simp at ht⟩

/-- a run can be re-based at the start of its first token -/
theorem RunAt.base {off : Nat} {ts : List Tok} (h : RunAt off ts) : RunAt (baseOff ts) ts := by
  cases ts with
  | nil => exact runAt_nil _
  | cons t ts =>
    obtain ⟨⟨h1, h2⟩, h3⟩ := h
    exact ⟨⟨by simp [baseOff], h2⟩, h3⟩

theorem RunAt.headStart {off : Nat} {ts : List Tok} (h : RunAt off ts) (d : Nat) :
    RunAt ((ts.head?.map (·.start)).getD d) ts := by
  cases ts with
  | nil => exact runAt_nil _
  | cons t ts =>
    obtain ⟨⟨h1, h2⟩, h3⟩ := h
    exact ⟨⟨by simp, h2⟩, h3⟩

theorem slice_split (ts : List Tok) {i j : Nat} (hij : i ≤ j) :
    ts = ts.take i ++ (slice ts i j ++ ts.drop j) := by
  have h1 : ts.take j = ts.take i ++ slice ts i j := by
    unfold slice
    have : ts.take i = (ts.take j).take i := by
      rw [List.take_take]; congr 1; omega
    rw [this, List.take_append_drop]
  calc ts = ts.take j ++ ts.drop j := (List.take_append_drop j ts).symm
    _ = _ := by rw [h1, List.append_assoc]

/-- every slice of a run is a run, starting at the `current_offset` of its left end -/
theorem slice_runAt {ts : List Tok} (h : RunAt (baseOff ts) ts) {i j : Nat} (hij : i ≤ j) :
    RunAt (offAt ts i) (slice ts i j) := by
  have hs := slice_split ts hij
  have h' : RunAt (baseOff ts) (ts.take i ++ (slice ts i j ++ ts.drop j)) := by rw [← hs]; exact h
  rw [runAt_append, runAt_append] at h'
  exact h'.2.1

theorem slice_append (ts : List Tok) {i j k : Nat} (hij : i ≤ j) (hjk : j ≤ k) :
    slice ts i k = slice ts i j ++ slice ts j k := by
  have h1 : ts.take k = ts.take j ++ slice ts j k := by
    unfold slice
    have : ts.take j = (ts.take k).take j := by rw [List.take_take]; congr 1; omega
    rw [this, List.take_append_drop]
  show (ts.take k).drop i = (ts.take j).drop i ++ slice ts j k
  rw [h1, List.drop_append]
  congr 1
  by_cases hl : i ≤ (ts.take j).length
  · have : i - (ts.take j).length = 0 := by omega
    rw [this]; rfl
  · have hlen : ts.length < j := by
      simp only [List.length_take] at hl; omega
    have : slice ts j k = [] := by
      unfold slice
      apply List.drop_eq_nil_of_le
      simp only [List.length_take]; omega
    rw [this]; simp

theorem drop_take_eq_slice (ts : List Tok) (c n : Nat) : (ts.drop c).take n = slice ts c (c + n) := by
  unfold slice; rw [List.take_drop]

theorem drop_eq_slice (ts : List Tok) (c : Nat) : ts.drop c = slice ts c ts.length := by
  unfold slice; rw [List.take_length]

theorem slice_length (ts : List Tok) (i j : Nat) : (slice ts i j).length = min j ts.length - i := by
  unfold slice; simp

theorem slice_self (ts : List Tok) (i : Nat) : slice ts i i = [] := by
  unfold slice; apply List.drop_eq_nil_of_le; simp; omega

theorem slice_one {ts : List Tok} {i : Nat} {t : Tok} (h : ts[i]? = some t) : slice ts i (i + 1) = [t] := by
  have hi : i < ts.length := by
    rcases Nat.lt_or_ge i ts.length with h' | h'
    · exact h'
    · rw [List.getElem?_eq_none h'] at h; simp at h
  apply List.ext_getElem
  · simp [slice_length]; omega
  · intro n h1 h2
    simp only [List.length_singleton] at h2
    have hn : n = 0 := by omega
    subst hn
    rw [List.getElem?_eq_getElem hi] at h
    simp only [Option.some.injEq] at h
    simp [slice, h]

theorem mem_slice {ts : List Tok} {i j : Nat} {t : Tok} (h : t ∈ slice ts i j) :
    ∃ n, i ≤ n ∧ n < j ∧ ts[n]? = some t := by
  unfold slice at h
  obtain ⟨n, hn, rfl⟩ := List.mem_iff_getElem.mp h
  simp only [List.length_drop, List.length_take] at hn
  refine ⟨i + n, by omega, by omega, ?_⟩
  simp only [List.getElem_drop, List.getElem_take]
  rw [List.getElem?_eq_getElem]

/-- what `findIdx?` on the rest of the tokens says in terms of the whole list -/
theorem findIdx_drop_some {ts : List Tok} {p : Tok → Bool} {c pos : Nat}
    (h : (ts.drop c).findIdx? p = some pos) :
    c + pos < ts.length ∧ (∃ t, ts[c + pos]? = some t ∧ p t = true) ∧
      ∀ t ∈ slice ts c (c + pos), p t = false := by
  rw [List.findIdx?_eq_some_iff_getElem] at h
  obtain ⟨hlt, hp, hbefore⟩ := h
  simp only [List.length_drop] at hlt
  have hlt' : c + pos < ts.length := by omega
  refine ⟨hlt', ⟨ts[c + pos], List.getElem?_eq_getElem hlt', ?_⟩, ?_⟩
  · simpa [List.getElem_drop] using hp
  · intro t ht
    obtain ⟨n, h1, h2, h3⟩ := mem_slice ht
    have hn : n < ts.length := by omega
    have := hbefore (n - c) (by omega)
    simp only [List.getElem_drop] at this
    have e : c + (n - c) = n := by omega
    rw [List.getElem?_eq_getElem hn] at h3
    simp only [Option.some.injEq] at h3
    simp only [e] at this
    rw [h3] at this
    simpa using this

theorem findIdx_drop_none {ts : List Tok} {p : Tok → Bool} {c : Nat}
    (h : (ts.drop c).findIdx? p = none) : ∀ t ∈ slice ts c ts.length, p t = false := by
  rw [List.findIdx?_eq_none_iff] at h
  rw [← drop_eq_slice]; exact h

theorem offAt_succ {ts : List Tok} {i : Nat} {t : Tok} (h : ts[i]? = some t) : offAt ts (i + 1) = t.stop := by
  unfold offAt lastStop
  have hi : i < ts.length := by
    rcases Nat.lt_or_ge i ts.length with h' | h'
    · exact h'
    · rw [List.getElem?_eq_none h'] at h; simp at h
  have : (ts.take (i + 1)).getLast? = some t := by
    rw [List.getLast?_eq_getElem?]
    simp only [List.length_take]
    have : min (i + 1) ts.length - 1 = i := by omega
    rw [this, List.getElem?_take]; simp [h]
  rw [this]; rfl

/-! ### The monad layer -/

/-- running `m` from `s` yields a result and a final state satisfying `Q` -/
def Sat {β : Type} (m : P α β) (s : BP α) (Q : β → BP α → Prop) : Prop := Q (m s).1 (m s).2

theorem Sat.bind {β γ : Type} {m : P α β} {k : β → P α γ} {s : BP α} {Q : γ → BP α → Prop}
    (h : Sat m s (fun a s' => Sat (k a) s' Q)) : Sat (m >>= k) s Q := h

theorem Sat.mono {β : Type} {m : P α β} {s : BP α} {Q Q' : β → BP α → Prop}
    (h : Sat m s Q) (hq : ∀ a s', Q a s' → Q' a s') : Sat m s Q' := hq _ _ h

theorem Sat.pure {β : Type} {a : β} {s : BP α} {Q : β → BP α → Prop} (h : Q a s) :
    Sat (Pure.pure a : P α β) s Q := h

theorem Sat.get {s : BP α} {Q : BP α → BP α → Prop} (h : Q s s) : Sat (get : P α (BP α)) s Q := h

theorem Sat.set {s s1 : BP α} {Q : Unit → BP α → Prop} (h : Q () s1) : Sat (set s1 : P α Unit) s Q := h

theorem Sat.modify {s : BP α} {f : BP α → BP α} {Q : Unit → BP α → Prop} (h : Q () (f s)) :
    Sat (modify f : P α Unit) s Q := h

/-- the invariant: working on `ts` with extensions `e`, no panic so far, cursor inside -/
structure G (ts : List Tok) (e : Ext) (s : BP α) : Prop where
  toks : s.toks = ts
  ext : s.ext = e
  panic : s.panic = none
  le : s.cur ≤ ts.length

theorem G.setCur {ts : List Tok} {e : Ext} {s : BP α} (h : G ts e s) {c : Nat} (hc : c ≤ ts.length) :
    G ts e { s with cur := c } := ⟨h.toks, h.ext, h.panic, hc⟩

theorem G.setEvs {ts : List Tok} {e : Ext} {s : BP α} (h : G ts e s) (evs : Array (Ev α)) :
    G ts e { s with evs := evs } := ⟨h.toks, h.ext, h.panic, h.le⟩

/-- a token list the parser may run on: non-empty, adjacent tokens -/
structure WF (ts : List Tok) : Prop where
  ne : ts ≠ []
  run : RunAt (baseOff ts) ts

section prims
variable {ts : List Tok} {e : Ext} {s : BP α}

theorem Sat.pushEv {ev : Ev α} {Q : Unit → BP α → Prop} (h : Q () { s with evs := s.evs.push ev }) :
    Sat (pushEv ev) s Q := h

theorem Sat.perr {kind : String} {labels : List Span} {Q : Unit → BP α → Prop}
    (h : ∀ evs, Q () { s with evs := evs }) : Sat (perr kind labels) s Q := h _

theorem Sat.pwarn {kind : String} {labels : List Span} {Q : Unit → BP α → Prop}
    (h : ∀ evs, Q () { s with evs := evs }) : Sat (pwarn kind labels) s Q := h _

theorem Sat.hasExt {flag : Nat} {Q : Bool → BP α → Prop} (h : Q (s.ext.has flag) s) :
    Sat (hasExt flag) s Q := h

theorem Sat.restToks {Q : List Tok → BP α → Prop} (h : Q (s.toks.drop s.cur) s) : Sat restToks s Q := h
theorem Sat.allToks {Q : List Tok → BP α → Prop} (h : Q s.toks s) : Sat allToks s Q := h
theorem Sat.getCur {Q : Nat → BP α → Prop} (h : Q s.cur s) : Sat getCur s Q := h
theorem Sat.setCur {c : Nat} {Q : Unit → BP α → Prop} (h : Q () { s with cur := c }) : Sat (setCur c) s Q := h

theorem Sat.peekK {Q : Option TK → BP α → Prop} (h : Q ((s.toks[s.cur]?).map (·.kind)) s) :
    Sat peekK s Q := h

theorem Sat.atK {k : TK} {Q : Bool → BP α → Prop} (h : Q ((s.toks[s.cur]?).map (·.kind) == some k) s) :
    Sat (atK k) s Q := h

theorem currentOffset_run (s : BP α) : currentOffset s = (offAt s.toks s.cur, s) := by
  unfold currentOffset offAt lastStop baseOff baseOffset
  simp only [bind, StateT.bind, get, getThe, MonadStateOf.get, StateT.get, pure, StateT.pure]
  cases h : (List.take s.cur s.toks).getLast? <;> rfl

theorem Sat.currentOffset {Q : Nat → BP α → Prop} (h : Q (offAt s.toks s.cur) s) :
    Sat currentOffset s Q := by
  unfold Sat; rw [currentOffset_run]; exact h

theorem nextToken_run (s : BP α) : nextToken s =
    match s.toks[s.cur]? with
    | some t => (some t, { s with cur := s.cur + 1 })
    | none => (none, s) := by
  unfold nextToken
  simp only [bind, StateT.bind, get, getThe, MonadStateOf.get, StateT.get, pure, StateT.pure, set, StateT.set]
  cases h : s.toks[s.cur]? <;> rfl

/-- `bump_any` when there is a token -/
theorem bumpAny_sat (h : G ts e s) {t : Tok} (ht : ts[s.cur]? = some t) :
    Sat bumpAny s (fun r s' => r = t ∧ G ts e s' ∧ s'.cur = s.cur + 1) := by
  have ht' : s.toks[s.cur]? = some t := by rw [h.toks]; exact ht
  have hlt : s.cur < ts.length := by
    rcases Nat.lt_or_ge s.cur ts.length with h' | h'
    · exact h'
    · rw [List.getElem?_eq_none h'] at ht; simp at ht
  have e : bumpAny s = (t, { s with cur := s.cur + 1 }) := by
    unfold bumpAny; simp only [bind, StateT.bind, nextToken_run, ht']; rfl
  unfold Sat; rw [e]; exact ⟨rfl, h.setCur hlt, rfl⟩

/-- `bump(k)` when the next token has kind `k` -/
theorem bump_sat (h : G ts e s) {k : TK} {t : Tok} (ht : ts[s.cur]? = some t) (hk : t.kind = k) :
    Sat (bump k) s (fun r s' => r = t ∧ G ts e s' ∧ s'.cur = s.cur + 1) := by
  unfold bump
  refine Sat.bind (Sat.mono (bumpAny_sat h ht) ?_)
  rintro r s1 ⟨rfl, g1, c1⟩
  simp only [hk, ne_eq, not_true_eq_false, if_false]
  exact ⟨rfl, g1, c1⟩

theorem untilK_run (f : TK → Bool) (s : BP α) : untilK f s =
    match (s.toks.drop s.cur).findIdx? (fun t => f t.kind) with
    | none => (none, s)
    | some pos => (some ((s.toks.drop s.cur).take pos), { s with cur := s.cur + pos }) := by
  unfold untilK restToks
  simp only [bind, StateT.bind, get, getThe, MonadStateOf.get, StateT.get, pure, StateT.pure]
  cases h : (s.toks.drop s.cur).findIdx? (fun t => f t.kind) <;> rfl

/-- `until(f)`: `none` leaves the cursor; `some pre` leaves it AT a token satisfying `f` -/
theorem untilK_sat (f : TK → Bool) (h : G ts e s) :
    Sat (untilK f) s (fun r s' => G ts e s' ∧
      match r with
      | none => s'.cur = s.cur
      | some pre => s.cur ≤ s'.cur ∧ pre = slice ts s.cur s'.cur ∧
          (∃ t, ts[s'.cur]? = some t ∧ f t.kind = true) ∧ ∀ t ∈ pre, f t.kind = false) := by
  have htk := h.toks; subst htk
  unfold Sat; rw [untilK_run]
  cases hf : (s.toks.drop s.cur).findIdx? (fun t => f t.kind) with
  | none => exact ⟨h, rfl⟩
  | some pos =>
    obtain ⟨h1, h2, h3⟩ := findIdx_drop_some hf
    refine ⟨h.setCur (Nat.le_of_lt h1), Nat.le_add_right _ _, drop_take_eq_slice _ _ _, h2, ?_⟩
    show ∀ t ∈ (s.toks.drop s.cur).take pos, f t.kind = false
    rw [drop_take_eq_slice]; exact h3

theorem consumeWhile_run (f : TK → Bool) (s : BP α) : consumeWhile f s =
    (let r := s.toks.drop s.cur
     let pos := (r.findIdx? (fun t => !f t.kind)).getD r.length
     (r.take pos, { s with cur := s.cur + pos })) := by
  unfold consumeWhile restToks; rfl

/-- `consume_while(f)`: the consumed tokens satisfy `f`; the cursor is left at the end or at a
    token that does not -/
theorem consumeWhile_sat (f : TK → Bool) (h : G ts e s) :
    Sat (consumeWhile f) s (fun r s' => G ts e s' ∧ s.cur ≤ s'.cur ∧ r = slice ts s.cur s'.cur ∧
      (∀ t ∈ r, f t.kind = true) ∧ (∀ t, ts[s'.cur]? = some t → f t.kind = false)) := by
  have htk := h.toks; subst htk
  unfold Sat; rw [consumeWhile_run]
  have hle := h.le
  cases hf : (s.toks.drop s.cur).findIdx? (fun t => !f t.kind) with
  | none =>
    have h3 := findIdx_drop_none hf
    simp only [hf, Option.getD_none, List.length_drop]
    have hc : s.cur + (s.toks.length - s.cur) = s.toks.length := by omega
    refine ⟨?_, Nat.le_add_right _ _, ?_, ?_, ?_⟩
    · exact h.setCur (by omega)
    · exact drop_take_eq_slice _ _ _
    · intro t ht
      rw [drop_take_eq_slice, hc] at ht
      simpa using h3 t ht
    · intro t ht
      simp only [hc] at ht
      rw [List.getElem?_eq_none (Nat.le_refl _)] at ht; simp at ht
  | some pos =>
    obtain ⟨h1, ⟨t0, h2, h2'⟩, h3⟩ := findIdx_drop_some hf
    simp only [hf, Option.getD_some]
    refine ⟨h.setCur (Nat.le_of_lt h1), Nat.le_add_right _ _, drop_take_eq_slice _ _ _, ?_, ?_⟩
    · intro t ht
      rw [drop_take_eq_slice] at ht
      simpa using h3 t ht
    · intro t ht
      rw [h2] at ht
      simp only [Option.some.injEq] at ht
      subst ht; simpa using h2'

/-- `consume_while` makes progress when the next token satisfies the predicate -/
theorem consumeWhile_progress {f : TK → Bool} {c c' : Nat} {t : Tok} (hle : c ≤ c')
    (hend : ∀ t, ts[c']? = some t → f t.kind = false) (ht : ts[c]? = some t) (hf : f t.kind = true) :
    c < c' := by
  rcases Nat.lt_or_ge c c' with h | h
  · exact h
  · have : c' = c := by omega
    subst this
    have := hend t ht
    rw [hf] at this; cases this

/-- `consume(k)` -/
theorem consumeK_sat (k : TK) (h : G ts e s) :
    Sat (consumeK k) s (fun r s' => G ts e s' ∧
      match r with
      | none => s'.cur = s.cur ∧ (ts[s.cur]?).map (·.kind) ≠ some k
      | some t => ts[s.cur]? = some t ∧ t.kind = k ∧ s'.cur = s.cur + 1) := by
  unfold consumeK
  refine Sat.bind (Sat.atK ?_)
  rw [h.toks]
  cases ht : ts[s.cur]? with
  | none =>
    simp only [Option.map_none]
    exact ⟨h, rfl, by simp⟩
  | some t =>
    by_cases hk : t.kind = k
    · have : (Option.map (fun x => x.kind) (some t) == some k) = true := by simp [hk]
      rw [this]
      simp only [if_true]
      refine Sat.bind (Sat.mono (bumpAny_sat h ht) ?_)
      rintro r s1 ⟨rfl, g1, c1⟩
      exact ⟨g1, rfl, hk, c1⟩
    · have : (Option.map (fun x => x.kind) (some t) == some k) = false := by simp [hk]
      rw [this]
      exact ⟨h, rfl, by simp [hk]⟩

/-- `consume_rest` -/
theorem consumeRest_sat (h : G ts e s) :
    Sat consumeRest s (fun r s' => G ts e s' ∧ s'.cur = ts.length ∧ r = slice ts s.cur ts.length) := by
  have hle := h.le
  have e1 : consumeRest s = (s.toks.drop s.cur, { s with cur := s.cur + (s.toks.drop s.cur).length }) := rfl
  have htk := h.toks; subst htk
  unfold Sat; rw [e1]
  simp only [List.length_drop]
  exact ⟨h.setCur (by omega), by omega, drop_eq_slice _ _⟩

/-- `with_recover`: on `none` the cursor is restored -/
theorem withRecover_sat {β : Type} {f : P α (Option β)} {Q : Option β → BP α → Prop}
    (h : Sat f s (fun r s' => match r with
      | none => Q none { s' with cur := s.cur }
      | some b => Q (some b) s')) : Sat (withRecover f) s Q := by
  unfold withRecover
  refine Sat.bind (Sat.getCur ?_)
  refine Sat.bind (Sat.mono h ?_)
  intro r s1 h1
  cases r with
  | none => exact h1
  | some b => exact h1

/-- `BlockParser::text` on a run of adjacent tokens starting at `off` never asserts -/
theorem bpText_sat {off : Nat} {toks : List Tok} (hr : RunAt off toks) {Q : Text → BP α → Prop}
    (h : Q (buildText off toks) s) : Sat (bpText off toks) s Q := by
  have hb := (buildText_faithful off toks hr.1 hr.2).1
  have e1 : bpText off toks s = (buildText off toks, s) := by
    unfold bpText
    simp only [hb, Bool.false_eq_true, if_false]
    rfl
  unfold Sat; rw [e1]; exact h

theorem tokensSpanP_sat {site : String} {l : List Tok} (hne : l ≠ []) {Q : Span → BP α → Prop}
    (h : Q (tokensSpan l) s) : Sat (tokensSpanP site l) s Q := by
  have e1 : tokensSpanP site l s = (tokensSpan l, s) := by
    unfold tokensSpanP
    have : l.isEmpty = false := by cases l <;> simp_all
    simp only [this, Bool.false_eq_true, if_false]
    rfl
  unfold Sat; rw [e1]; exact h

/-! versions of the read-only primitives phrased with the invariant -/
theorem peekK_sat (h : G ts e s) {Q : Option TK → BP α → Prop} (hq : Q ((ts[s.cur]?).map (·.kind)) s) :
    Sat peekK s Q := by
  apply Sat.peekK; rw [h.toks]; exact hq

theorem atK_sat (h : G ts e s) {k : TK} {Q : Bool → BP α → Prop}
    (hq : Q ((ts[s.cur]?).map (·.kind) == some k) s) : Sat (atK k) s Q := by
  apply Sat.atK; rw [h.toks]; exact hq

theorem currentOffset_sat (h : G ts e s) {Q : Nat → BP α → Prop} (hq : Q (offAt ts s.cur) s) :
    Sat currentOffset s Q := by
  apply Sat.currentOffset; rw [h.toks]; exact hq

theorem hasExt_sat (h : G ts e s) {flag : Nat} {Q : Bool → BP α → Prop} (hq : Q (e.has flag) s) :
    Sat (hasExt flag) s Q := by
  apply Sat.hasExt; rw [h.ext]; exact hq

theorem restToks_sat (h : G ts e s) {Q : List Tok → BP α → Prop} (hq : Q (ts.drop s.cur) s) :
    Sat restToks s Q := by
  apply Sat.restToks; rw [h.toks]; exact hq

theorem allToks_sat (h : G ts e s) {Q : List Tok → BP α → Prop} (hq : Q ts s) : Sat allToks s Q := by
  apply Sat.allToks; rw [h.toks]; exact hq

theorem atK_true {c : Nat} {k : TK} (h : ((ts[c]?).map (·.kind) == some k) = true) :
    ∃ t, ts[c]? = some t ∧ t.kind = k := by
  cases ht : ts[c]? with
  | none => rw [ht] at h; simp at h
  | some t => rw [ht] at h; exact ⟨t, rfl, by simpa using h⟩

theorem getElem?_lt {c : Nat} {t : Tok} (h : ts[c]? = some t) : c < ts.length := by
  rcases Nat.lt_or_ge c ts.length with h' | h'
  · exact h'
  · rw [List.getElem?_eq_none h'] at h; simp at h

end prims

end Cook
