import CookModel.Num.Scale
import CookModel.Lemmas.Scale
import CookModel.Analysis.Collector
/-
  More lemmas about the scaling model (audit of C08): the analysis model's decision which values
  are `Linear` is `mkScalable`; the recipe-level scaling position by position.
  Names carry the prefix `scm_`.
-/
namespace Cook
open Arith

/-- `RecipeParser::value` of the analysis model returns exactly `mkScalable` of the parsed value
    (for every arithmetic instance, every environment and collector state) -/
theorem scm_valueOf_eq {α : Type} [Arith α] (env : Env) (v : PQValue α) (isIngredient : Bool)
    (s : Col α) :
    (valueOf env v isIngredient s).1 = mkScalable isIngredient v.lock.isSome v.value.val := by
  unfold valueOf mkScalable
  by_cases h : (isIngredient && !v.value.val.isText && !v.lock.isSome) = true
  · simp only [h, if_true]
    rfl
  · simp only [h]
    by_cases hl : v.lock.isSome = true
    · by_cases h2 : (!isIngredient || v.value.val.isText) = true
      · simp [hl, h2, bind, StateT.bind, pure, StateT.pure, awarn, modify, modifyGet,
          MonadStateOf.modifyGet, StateT.modifyGet]
      · simp [hl, h2, pure, StateT.pure]
    · simp [hl, pure, StateT.pure]

theorem scm_mkScalable_not_ingredient {α : Type} [Arith α] (hasLock : Bool) (v : Value α) :
    mkScalable false hasLock v = .fixed v := by
  simp [mkScalable]

theorem scm_getElem?_map_fst {β γ δ : Type} (g : β → γ × δ) (l : List β) (k : Nat) (x : β)
    (h : l[k]? = some x) :
    ((l.map g).map (·.1))[k]? = some (g x).1 ∧ ((l.map g).map (·.2))[k]? = some (g x).2 := by
  simp [List.getElem?_map, h]

/-- `@flour{500%g}`, `@salt{=1%pinch}`, `#pan{2}`, `~{90%s}` as the analysis returns them -/
def scmExampleRecipe : ScalableRecipe Rat :=
  { sections := [],
    ingredients := [
      { name := ['f'], alias := none, quantity := some ⟨.linear (.number (.regular 500)), some ['g']⟩,
        note := none, reference := none, relation := ⟨.definition [] true, none⟩, modifiers := .empty },
      { name := ['s'], alias := none,
        quantity := some ⟨.fixed (.number (.regular 1)), some ['p','i','n','c','h']⟩,
        note := none, reference := none, relation := ⟨.definition [] true, none⟩, modifiers := .empty }],
    cookware := [{ name := ['p'], alias := none, quantity := some (.fixed (.number (.regular 2))),
                   note := none, relation := .definition [] true, modifiers := .empty }],
    timers := [{ name := none, quantity := some ⟨.fixed (.number (.regular 90)), some ['s']⟩ }],
    inlineQuantities := [] }

end Cook
