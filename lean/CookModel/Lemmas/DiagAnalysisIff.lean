import CookModel.Lemmas.DiagAnalysisExact
/-
  C07, analysis stage, exact forms (prefix `c07i_`): the list of diagnostics the timer unit checks and the
  `>>` metadata handler push, as pure functions of their inputs — so that "pushes X when Y" becomes
  "pushes X iff Y" for `timer-value-text`, `timer-unit-unknown`, `timer-unit-not-time`,
  `config-invalid-value`.
-/
namespace Cook
variable {α : Type} [Arith α]
set_option linter.unusedSectionVars false
set_option linter.unusedSimpArgs false
set_option linter.unusedVariables false

/-! ### timer unit checks -/

/-- what `timerQuantityChecks` pushes, in order -/
def c07i_timerCheckDiags (env : Env) (q : Loc (PQuantity α)) (r : Quantity (ScalableValue α)) : List Diag :=
  if env.ext.has Gen.EXT_ADVANCED_UNITS then
    (if r.value.val.isText then [adiag .error "timer-value-text" [q.val.value.value.span]] else []) ++
    (match r.unit with
     | some u =>
       match env.findUnit u with
       | some pq => if pq ≠ env.timeQ then
           [adiag .error "timer-unit-not-time" [(q.val.unit.map (·.span)).getD ⟨0, 0⟩]] else []
       | none => [adiag .error "timer-unit-unknown" [(q.val.unit.map (·.span)).getD ⟨0, 0⟩]]
     | none => [])
  else []

theorem c07i_timerQuantityChecks_exact (env : Env) (q : Loc (PQuantity α)) (r : Quantity (ScalableValue α))
    (s : Col α) :
    (timerQuantityChecks env q r s).2.diags.toList = s.diags.toList ++ c07i_timerCheckDiags env q r ∧
    (timerQuantityChecks env q r s).2 = { s with diags := (timerQuantityChecks env q r s).2.diags } := by
  unfold timerQuantityChecks c07i_timerCheckDiags
  cases he : env.ext.has Gen.EXT_ADVANCED_UNITS <;> cases ht : r.value.val.isText <;>
    cases hu : r.unit with
    | none => simp +instances [A_bind, A_pure, A_ite, aerr, A_modify, he, ht, hu, adiag]
    | some u =>
      cases hf : env.findUnit u with
      | none => simp +instances [A_bind, A_pure, A_ite, aerr, A_modify, he, ht, hu, hf, adiag]
      | some pq =>
        by_cases hp : pq = env.timeQ <;>
          simp +instances [A_bind, A_pure, A_ite, aerr, A_modify, he, ht, hu, hf, hp, adiag]

/-- which kind is in the list, exactly when -/
theorem c07i_timerCheckDiags_kinds (env : Env) (q : Loc (PQuantity α)) (r : Quantity (ScalableValue α)) :
    ((∃ d ∈ c07i_timerCheckDiags env q r, d.kind = "timer-value-text") ↔
      (env.ext.has Gen.EXT_ADVANCED_UNITS = true ∧ r.value.val.isText = true)) ∧
    ((∃ d ∈ c07i_timerCheckDiags env q r, d.kind = "timer-unit-unknown") ↔
      (env.ext.has Gen.EXT_ADVANCED_UNITS = true ∧ ∃ u, r.unit = some u ∧ env.findUnit u = none)) ∧
    ((∃ d ∈ c07i_timerCheckDiags env q r, d.kind = "timer-unit-not-time") ↔
      (env.ext.has Gen.EXT_ADVANCED_UNITS = true ∧
        ∃ u pq, r.unit = some u ∧ env.findUnit u = some pq ∧ pq ≠ env.timeQ)) ∧
    (∀ d ∈ c07i_timerCheckDiags env q r,
      (d = adiag .error "timer-value-text" [q.val.value.value.span] ∨
       d = adiag .error "timer-unit-unknown" [(q.val.unit.map (·.span)).getD ⟨0, 0⟩] ∨
       d = adiag .error "timer-unit-not-time" [(q.val.unit.map (·.span)).getD ⟨0, 0⟩])) := by
  unfold c07i_timerCheckDiags
  cases he : env.ext.has Gen.EXT_ADVANCED_UNITS <;> cases ht : r.value.val.isText <;>
    cases hu : r.unit with
    | none => simp [adiag]
    | some u =>
      cases hf : env.findUnit u with
      | none => simp [adiag, hf]
      | some pq => by_cases hp : pq = env.timeQ <;> simp [adiag, hf, hp]

/-- the diagnostics of a timer EVENT: the lock warning of its value, then the unit checks on the
    converted quantity (`Fixed` value, trimmed unit) -/
def c07i_timerEventDiags (env : Env) (lt : Loc (PTimer α)) : List Diag :=
  match lt.val.quantity with
  | none => []
  | some q =>
    (if q.val.value.lock.isSome then [adiag .warning "unnecessary-scaling-lock" [q.val.value.value.span]] else []) ++
    c07i_timerCheckDiags env q ⟨.fixed q.val.value.value.val, q.val.unit.map (fun t => t.trimmed env.cs)⟩

theorem c07i_quantityOf_timer (env : Env) (q : Loc (PQuantity α)) (s : Col α) :
    (quantityOf env q false s).1 = ⟨.fixed q.val.value.value.val, q.val.unit.map (fun t => t.trimmed env.cs)⟩ := by
  unfold quantityOf valueOf
  cases hl : q.val.value.lock.isSome <;>
    simp +instances only [A_bind, A_pure, A_ite, hl, Bool.false_and, Bool.false_eq_true, if_false, if_true,
      Bool.not_false, Bool.true_or]

theorem c07i_timerA_exact (env : Env) (lt : Loc (PTimer α)) (s : Col α) :
    (timerA env lt s).2.diags.toList = s.diags.toList ++ c07i_timerEventDiags env lt := by
  unfold timerA c07i_timerEventDiags timerQuantity
  cases hq : lt.val.quantity with
  | none => simp +instances only [A_bind, A_pure, A_get, A_modify, List.append_nil]
  | some q =>
    simp +instances only [A_bind, A_pure, A_get, A_modify]
    rw [(c07i_timerQuantityChecks_exact env q _ _).1, c07i_quantityOf_timer]
    have hv : (quantityOf env q false s).2 = (valueOf env q.val.value false s).2 := by
      unfold quantityOf; simp only [A_bind, A_pure]
    rw [hv, valueOf_run]
    cases hl : q.val.value.lock.isSome <;> simp [adiag]

/-! ### `>>` metadata entries -/

/-- what `time_override_check(new)` pushes when `locations.metadata` is `locs` at the call -/
def c07i_timeOverrideDiags (new : StdKey) (locs : List (StdKey × Span)) : List Diag :=
  let lk (keys : List StdKey) : List Span :=
    insertionSort (keys.filterMap (fun k => (locs.find? (fun p => p.1 == k)).map (·.2)))
  let overridenKeys : List StdKey := if new == .time then [.prepTime, .cookTime] else [.time]
  if (lk overridenKeys).isEmpty then []
  else [adiag .warning "time-overridden" (lk overridenKeys ++ [((lk [new])[0]?).getD ⟨0, 0⟩])]

theorem c07i_timeOverrideCheck_exact (new : StdKey) (s : Col α) :
    (timeOverrideCheck (α := α) new s).2.diags.toList = s.diags.toList ++ c07i_timeOverrideDiags new s.metaLocs := by
  unfold timeOverrideCheck c07i_timeOverrideDiags
  simp +instances only [A_bind, A_pure, A_get, A_ite, A_modify, awarn, apanic]
  repeat' split
  all_goals simp_all [adiag]

/-- is the entry a `[…]` configuration key (MODES)? -/
def c07i_isConfigKey (env : Env) (key : Text) : Bool :=
  env.ext.has Gen.EXT_MODES && (key.trimmed env.cs).head? == some '[' && (key.trimmed env.cs).getLast? == some ']' &&
    decide ((key.trimmed env.cs).length ≥ 2)

/-- the diagnostics of a configuration key -/
def c07i_configDiags (env : Env) (key value : Text) : List Diag :=
  let configKey := String.ofList (((key.trimmed env.cs).drop 1).dropLast)
  let v := String.ofList (value.outerTrimmed env.cs)
  if configKey == "define" || configKey == "mode" then
    (if v == "all" || v == "default" || v == "components" || v == "ingredients" || v == "steps" || v == "text"
      then [] else [adiag .error "config-invalid-value" [value.span, key.span]])
  else if configKey == "duplicate" then
    (if v == "new" || v == "default" || v == "reference" || v == "ref"
      then [] else [adiag .error "config-invalid-value" [value.span, key.span]])
  else [adiag .warning "config-unknown-key" [key.span]]

/-- the diagnostics of a regular `>>` entry, given `locations.metadata` before it -/
def c07i_entryDiags (env : Env) (key value : Text) (locs : List (StdKey × Span)) : List Diag :=
  match StdKey.ofStr (String.ofList (key.trimmed env.cs)) with
  | none => []
  | some sk =>
    match env.stdCheck sk (value.outerTrimmed env.cs) with
    | .rejected => [adiag .warning "std-unsupported-value" [value.span, key.span]]
    | _ => if stdKeyIsTime sk then
        c07i_timeOverrideDiags sk ((locs.filter (fun p => p.1 != sk)) ++ [(sk, ⟨key.span.start, value.span.stop⟩)])
      else []

/-- what `RecipeCollector::metadata` pushes, in order -/
def c07i_metaDiags (env : Env) (key value : Text) (locs : List (StdKey × Span)) : List Diag :=
  if c07i_isConfigKey env key then c07i_configDiags env key value else c07i_entryDiags env key value locs

theorem c07i_metadataA_config (env : Env) (key value : Text) (s : Col α) (hc : c07i_isConfigKey env key = true) :
    (metadataA env key value s).2.diags.toList = s.diags.toList ++ c07i_configDiags env key value := by
  unfold c07i_isConfigKey at hc
  unfold metadataA c07i_configDiags
  simp +instances only [A_bind, A_pure, A_get, A_ite, A_modify, aerr, awarn, hc, if_true]
  repeat' split
  all_goals simp_all [adiag]

theorem c07i_metadataA_entry (env : Env) (key value : Text) (s : Col α) (hc : c07i_isConfigKey env key = false) :
    (metadataA env key value s).2.diags.toList = s.diags.toList ++ c07i_entryDiags env key value s.metaLocs := by
  unfold c07i_isConfigKey at hc
  unfold metadataA c07i_entryDiags
  simp +instances only [A_bind, A_pure, A_get, A_ite, A_modify, aerr, awarn, apanic, hc, if_false, Bool.false_eq_true]
  cases hk : StdKey.ofStr (String.ofList (key.trimmed env.cs)) with
  | none => simp +instances only [A_bind, A_pure]; repeat' split
            all_goals simp
  | some sk =>
    cases hv : env.stdCheck sk (value.outerTrimmed env.cs) <;>
      simp +instances only [A_bind, A_pure, A_get, A_ite, A_modify, awarn] <;>
      (try (cases ht : stdKeyIsTime sk <;> simp +instances only [A_pure, if_true, if_false, Bool.false_eq_true,
        c07i_timeOverrideCheck_exact])) <;>
      repeat' split
    all_goals simp_all [adiag, A_modify, A_bind, A_pure, c07i_timeOverrideCheck_exact]

/-- `RecipeCollector::metadata` appends exactly `c07i_metaDiags` -/
theorem c07i_metadataA_exact (env : Env) (key value : Text) (s : Col α) :
    (metadataA env key value s).2.diags.toList = s.diags.toList ++ c07i_metaDiags env key value s.metaLocs := by
  unfold c07i_metaDiags
  cases hc : c07i_isConfigKey env key
  · simp only [Bool.false_eq_true, if_false]; exact c07i_metadataA_entry env key value s hc
  · simp only [if_true]; exact c07i_metadataA_config env key value s hc

theorem c07i_timeOverrideDiags_kind (new : StdKey) (locs : List (StdKey × Span)) :
    ∀ d ∈ c07i_timeOverrideDiags new locs, d.kind = "time-overridden" := by
  unfold c07i_timeOverrideDiags
  intro d hd
  dsimp only at hd
  split at hd <;> split at hd <;> simp_all [adiag]

theorem c07i_entryDiags_kind (env : Env) (key value : Text) (locs : List (StdKey × Span)) :
    ∀ d ∈ c07i_entryDiags env key value locs, d.kind = "std-unsupported-value" ∨ d.kind = "time-overridden" := by
  unfold c07i_entryDiags
  intro d hd
  split at hd
  · cases hd
  · split at hd
    · simp only [List.mem_singleton] at hd; rw [hd]; exact Or.inl rfl
    · split at hd
      · exact Or.inr (c07i_timeOverrideDiags_kind _ _ d hd)
      · cases hd

/-- the condition under which `config-invalid-value` is raised -/
def c07i_badModeValue (env : Env) (key value : Text) : Prop :=
  c07i_isConfigKey env key = true ∧
  (((String.ofList (((key.trimmed env.cs).drop 1).dropLast) = "define" ∨
      String.ofList (((key.trimmed env.cs).drop 1).dropLast) = "mode") ∧
     ∀ w ∈ ["all", "default", "components", "ingredients", "steps", "text"],
       String.ofList (value.outerTrimmed env.cs) ≠ w) ∨
   (String.ofList (((key.trimmed env.cs).drop 1).dropLast) = "duplicate" ∧
     ∀ w ∈ ["new", "default", "reference", "ref"], String.ofList (value.outerTrimmed env.cs) ≠ w))

theorem c07i_configDiags_invalid_iff (env : Env) (key value : Text) :
    ((∃ d ∈ c07i_configDiags env key value, d.kind = "config-invalid-value") ↔
      (((String.ofList (((key.trimmed env.cs).drop 1).dropLast) = "define" ∨
          String.ofList (((key.trimmed env.cs).drop 1).dropLast) = "mode") ∧
         ∀ w ∈ ["all", "default", "components", "ingredients", "steps", "text"],
           String.ofList (value.outerTrimmed env.cs) ≠ w) ∨
       (String.ofList (((key.trimmed env.cs).drop 1).dropLast) = "duplicate" ∧
         ∀ w ∈ ["new", "default", "reference", "ref"], String.ofList (value.outerTrimmed env.cs) ≠ w))) ∧
    (∀ d ∈ c07i_configDiags env key value, d.kind = "config-invalid-value" →
      d = adiag .error "config-invalid-value" [value.span, key.span]) := by
  unfold c07i_configDiags
  generalize String.ofList (((key.trimmed env.cs).drop 1).dropLast) = ck
  generalize String.ofList (value.outerTrimmed env.cs) = v
  dsimp only
  have h6 : (∀ w ∈ ["all", "default", "components", "ingredients", "steps", "text"], v ≠ w) ↔
      (v == "all" || v == "default" || v == "components" || v == "ingredients" || v == "steps" || v == "text") = false := by
    simp [and_assoc]
  have h4 : (∀ w ∈ ["new", "default", "reference", "ref"], v ≠ w) ↔
      (v == "new" || v == "default" || v == "reference" || v == "ref") = false := by
    simp [and_assoc]
  rw [h6, h4]
  generalize (v == "all" || v == "default" || v == "components" || v == "ingredients" || v == "steps" || v == "text") = b6
  generalize (v == "new" || v == "default" || v == "reference" || v == "ref") = b4
  by_cases h1 : ck = "define"
  · subst h1; cases b6 <;> simp [adiag]
  · by_cases h2 : ck = "mode"
    · subst h2; cases b6 <;> simp [adiag]
    · by_cases h3 : ck = "duplicate"
      · subst h3; cases b4 <;> simp [adiag]
      · simp [h1, h2, h3, adiag]

/-- `config-invalid-value` is among the diagnostics of a `>>` entry IFF the entry is a `[define]` / `[mode]` /
    `[duplicate]` switch (MODES) with a value outside the accepted words; it is then the catalogued error -/
theorem c07i_metaDiags_invalid_iff (env : Env) (key value : Text) (locs : List (StdKey × Span)) :
    ((∃ d ∈ c07i_metaDiags env key value locs, d.kind = "config-invalid-value") ↔ c07i_badModeValue env key value) ∧
    (∀ d ∈ c07i_metaDiags env key value locs, d.kind = "config-invalid-value" →
      d = adiag .error "config-invalid-value" [value.span, key.span]) := by
  unfold c07i_metaDiags c07i_badModeValue
  obtain ⟨k1, k2⟩ := c07i_configDiags_invalid_iff env key value
  cases hc : c07i_isConfigKey env key
  · simp only [Bool.false_eq_true, if_false, false_and, iff_false, not_exists, not_and]
    refine ⟨fun d hd hk => ?_, fun d hd hk => ?_⟩
    · rcases c07i_entryDiags_kind env key value locs d hd with h | h <;> rw [h] at hk <;> exact absurd hk (by decide)
    · rcases c07i_entryDiags_kind env key value locs d hd with h | h <;> rw [h] at hk <;> exact absurd hk (by decide)
  · simp only [if_true, true_and]
    exact ⟨k1, k2⟩

end Cook
