import CookModel.Lemmas.StdMetaPairs
import CookModel.Lemmas.StdMetaNameUrl
/-
  The parse-time check against the accessors, and converters that rename the hard-coded units.
-/
namespace Cook.SM
open Cook Spec

section
variable {α : Type} [Arith α]

theorem check_none_iff (c : Conv α) (alpha : Char → Bool) (k : StdKey) (v : Y) :
    (checkStdEntry c alpha k v).isNone = !accessorGives c alpha k v := by
  cases k <;> simp only [checkStdEntry, accessorGives]
  case title => cases asStr v <;> rfl
  case description => cases asStr v <;> rfl
  case tags => cases valueAsTags v <;> rfl
  case author => cases asNameAndUrl alpha v <;> rfl
  case source => cases asNameAndUrl alpha v <;> rfl
  case course => rfl
  case time => cases valueAsTime c v <;> rfl
  case prepTime => cases valueAsMinutes c v <;> rfl
  case cookTime => cases valueAsMinutes c v <;> rfl
  case servings => cases valueAsServings v <;> rfl
  case difficulty => rfl
  case cuisine => rfl
  case diet => rfl
  case images => rfl
  case locale => cases valueAsLocale v <;> rfl

theorem entryWarns_iff (c : Conv α) (alpha : Char → Bool) (key : Str) (v : Y) :
    entryWarns c alpha key v = true ↔ ∃ k, StdKey.fromStr key = some k ∧ accessorGives c alpha k v = false := by
  unfold entryWarns
  cases hk : StdKey.fromStr key with
  | none => simp
  | some k =>
    simp only [check_none_iff, Option.some.injEq, exists_eq_left', Bool.not_eq_true']

theorem check_servings_stored (c : Conv α) (alpha : Char → Bool) (v : Y) (l : List Nat) :
    checkStdEntry c alpha .servings v = some (some l) ↔ valueAsServings v = some l := by
  simp only [checkStdEntry]
  cases valueAsServings v <;> simp

end

theorem isSome_iff_exists {β : Type} (o : Option β) : o.isSome = true ↔ ∃ b, o = some b := by
  cases o <;> simp

theorem except_isSome_iff {ε β : Type} (e : Except ε β) : e.toOption.isSome = true ↔ ∃ b, e = .ok b := by
  cases e <;> simp [Except.toOption]

/-- the accessor gives something exactly for the values of a documented form -/
theorem accessorGives_iff (c : Conv Rat) (hr : TimeRatiosNonzero c) (alpha : Char → Bool) (hcolon : alpha ':' = false)
    (k : StdKey) (v : Y) : accessorGives c alpha k v = true ↔ Accepts c alpha k v := by
  cases k <;> simp only [accessorGives, Accepts]
  case title => rw [isSome_iff_exists]; cases v <;> simp [asStr]
  case description => rw [isSome_iff_exists]; cases v <;> simp [asStr]
  case tags => rw [isSome_iff_exists]; simp only [valueAsTags_iff]
  case author => rw [isSome_iff_exists]; simp only [asNameAndUrl_iff alpha hcolon]
  case source => rw [isSome_iff_exists]; simp only [asNameAndUrl_iff alpha hcolon]
  case time => rw [except_isSome_iff]; simp only [valueAsTime_iff c hr]
  case prepTime => rw [except_isSome_iff]; simp only [valueAsMinutes_iff c hr]
  case cookTime => rw [except_isSome_iff]; simp only [valueAsMinutes_iff c hr]
  case servings => rw [isSome_iff_exists]; simp only [valueAsServings_iff]
  case locale => rw [isSome_iff_exists]; simp only [valueAsLocale_iff]

/-- the analysis warns exactly on the standard keys whose value is outside the documented forms -/
theorem entryWarns_iff_outside (c : Conv Rat) (hr : TimeRatiosNonzero c) (alpha : Char → Bool) (hcolon : alpha ':' = false)
    (key : Str) (v : Y) :
    entryWarns c alpha key v = true ↔ ∃ k, StdKey.fromStr key = some k ∧ ¬ Accepts c alpha k v := by
  rw [entryWarns_iff]
  constructor
  · rintro ⟨k, hk, hg⟩
    refine ⟨k, hk, ?_⟩
    intro ha
    rw [(accessorGives_iff c hr alpha hcolon k v).mpr ha] at hg
    exact absurd hg (by simp)
  · rintro ⟨k, hk, hna⟩
    refine ⟨k, hk, ?_⟩
    cases hg : accessorGives c alpha k v with
    | false => rfl
    | true => exact absurd ((accessorGives_iff c hr alpha hcolon k v).mp hg) hna

/-! ### renamed units -/

/-- `Converter::empty()` -/
def emptyConv : Conv Rat := ⟨[], fun _ => none⟩

/-- the time units of `c` are the hard-coded ones under the renaming `ρ` of the unit names -/
structure Renames (c : Conv Rat) (ρ : Str → Str) : Prop where
  nonempty : c.units ≠ []
  ratios : TimeRatiosNonzero c
  minute : ∃ m, minuteUnit c = some m ∧ m.2.isTime = true ∧ m.2.diff = 0
  known : ∀ u f, hardFactor u = some f → ∀ m, minuteUnit c = some m →
    ∃ un, c.find (ρ u) = some un ∧ un.2.isTime = true ∧ un.2.diff = 0 ∧ un.2.ratio / m.2.ratio = f
  unknown : ∀ u, hardFactor u = none → ∀ un, c.find (ρ u) = some un → un.2.isTime = false

theorem emptyConv_ratios : TimeRatiosNonzero emptyConv := by
  intro u hu; simp [emptyConv] at hu

theorem toMinutes_renamed (c : Conv Rat) (ρ : Str → Str) (h : Renames c ρ) (x : Rat) (u : Str) :
    toMinutes c x (ρ u) = toMinutes emptyConv x u := by
  rw [toMinutes_eq c h.ratios, toMinutes_eq emptyConv emptyConv_ratios]
  obtain ⟨m, hm, hmt, hmd⟩ := h.minute
  have hne := h.nonempty
  have hmr : m.2.ratio ≠ 0 := by
    have hmem : c.units[m.1]? = some m.2 := by
      rw [← findMinutes_eq] at hm
      unfold findMinutes at hm
      obtain ⟨name, -, hname⟩ := List.exists_of_findSome?_eq_some hm
      exact find_unit_mem hname
    exact h.ratios m.2 (List.mem_of_getElem? hmem) hmt
  unfold unitMinutes
  simp only [hne, if_false, hm, emptyConv, if_true]
  cases hf : hardFactor u with
  | some f =>
    obtain ⟨un, hun, hut, hud, hratio⟩ := h.known u f hf m hm
    simp only [hun, hmt, hut, and_self, if_true, Option.map_some, hud, hmd]
    congr 1
    rw [← hratio]; grind
  | none =>
    simp only [Option.map_none]
    cases hun : c.find (ρ u) with
    | none => rfl
    | some un =>
      have := h.unknown u hf un hun
      simp [this]

theorem pairStep_renamed (c : Conv Rat) (ρ : Str → Str) (h : Renames c ρ) (total : Rat) (num u : Str) :
    pairStep c total num (ρ u) = pairStep emptyConv total num u := by
  unfold pairStep
  cases parseF64 (α := Rat) num with
  | err => rfl
  | nonfinite => rfl
  | val x => simp only [toMinutes_renamed c ρ h]

theorem pairLoop_renamed (c : Conv Rat) (ρ : Str → Str) (h : Renames c ρ)
    (ps : List (Str × Str)) (hnum : ∀ p ∈ ps, p.1.all isNumCh = true) (total : Rat) :
    pairLoop c total (ps.flatMap (fun p => [p.1, ρ p.2])) = pairLoop emptyConv total (ps.flatMap (fun p => [p.1, p.2])) := by
  induction ps generalizing total with
  | nil => simp [pairLoop]
  | cons p ps ih =>
    have hp := hnum p (by simp)
    have ih' := fun t => ih (fun q hq => hnum q (by simp [hq])) t
    simp only [List.flatMap_cons, List.cons_append, List.nil_append]
    rw [pairLoop.eq_def, pairLoop.eq_def (c := emptyConv)]
    simp only [hp, if_true, pairStep_renamed c ρ h]
    cases pairStep emptyConv total p.1 p.2 with
    | none => rfl
    | some t => exact ih' t

end Cook.SM
