import CookModel.Lemmas.SimBlocks
import CookModel.Lemmas.TextLaws
/-
  Text assembly (`BlockParser::text`) on token runs that differ only in offsets, in the spelling
  of newline tokens (LF / CRLF) and in the text of comments (`TokSim`) yields texts with the same
  fragment structure and the same content (`TextSim`): same characters, same emptiness tests.
-/
namespace Cook

/-- a newline token's text -/
def IsNL (x : List Char) : Prop := x = ['\n'] ∨ x = ['\r', '\n']

/-- tokens that may differ in position, in the spelling of a newline and in the text of a comment -/
structure TokSim (t' t : Tok) : Prop where
  kind : t'.kind = t.kind
  text : crlfVolatile t.kind = false → t'.text = t.text
  nl : t.kind = .newline → IsNL t'.text ∧ IsNL t.text

theorem tokSim_kindPres : KindPres TokSim := fun _ _ h => h.kind

theorem TokSim.refl_of {t : Tok} (h : t.kind = .newline → IsNL t.text) : TokSim t t :=
  ⟨rfl, fun _ => rfl, fun hk => ⟨h hk, h hk⟩⟩

theorem tokSim_dummy : TokSim dummyTok dummyTok := TokSim.refl_of (by intro h; cases h)

/-- `CrlfTok` between tokens whose newline texts are `"\n"` / `"\r\n"` (true of lexed tokens) -/
theorem TokSim.of_crlfTok {t' t : Tok} (h : CrlfTok t' t) (hnl : t.kind = .newline → IsNL t.text) : TokSim t' t := by
  obtain ⟨hk, hn, _, _, hv⟩ := h
  refine ⟨hk, hv, fun hk' => ⟨?_, hnl hk'⟩⟩
  rcases hn hk' with e | e
  · right; exact e
  · left; exact e

/-- the character table treats CR and LF as (Unicode) white space, as `str::trim` does -/
structure UwsNL (cs : CharSpec) : Prop where
  cr : cs.uws '\r' = true
  lf : cs.uws '\n' = true

theorem isNL_blank {cs : CharSpec} (h : UwsNL cs) {x : List Char} (hx : IsNL x) : (trim cs.uws x).isEmpty = true := by
  rcases hx with rfl | rfl <;> simp [trim, trimStart, trimEnd, h.cr, h.lf]

theorem isNL_ne_nil {x : List Char} (hx : IsNL x) : x.isEmpty = false := by
  rcases hx with rfl | rfl <;> rfl

/-- fragments with the same content: both soft breaks (blank), or both slices with the same text -/
structure FragSim (uws : Char → Bool) (f' f : Frag) : Prop where
  soft : f'.soft = f.soft
  text : f.soft = false → f'.text = f.text
  blank : f.soft = true → (trim uws f'.text).isEmpty = true ∧ (trim uws f.text).isEmpty = true

/-- texts with the same content: fragment lists of the same length, fragments with the same content -/
def TextSim (uws : Char → Bool) (t' t : Text) : Prop := LRel (FragSim uws) t'.frags t.frags

theorem fragSim_flatMap {uws : Char → Bool} {l' l : List Frag} (h : LRel (FragSim uws) l' l) :
    l'.flatMap (fun f => if f.soft then [' '] else f.text) = l.flatMap (fun f => if f.soft then [' '] else f.text) := by
  induction h with
  | nil => rfl
  | cons h1 _ ih =>
    simp only [List.flatMap_cons, ih, h1.soft]
    congr 1
    split
    · rfl
    · rename_i hs; exact h1.text (by simpa using hs)

theorem TextSim.text {uws : Char → Bool} {t' t : Text} (h : TextSim uws t' t) : t'.text = t.text :=
  fragSim_flatMap h

theorem TextSim.isTextEmpty {cs : CharSpec} {t' t : Text} (h : TextSim cs.uws t' t) :
    t'.isTextEmpty cs = t.isTextEmpty cs := by
  unfold Text.isTextEmpty
  apply LRel.all (R := FragSim cs.uws) _ h
  intro a b hab
  cases hs : b.soft
  · simp only [hab.text hs]
  · obtain ⟨h1, h2⟩ := hab.blank hs
    simp only [h1, h2]

theorem TextSim.frags_isEmpty {uws : Char → Bool} {t' t : Text} (h : TextSim uws t' t) :
    t'.frags.isEmpty = t.frags.isEmpty := LRel.isEmpty h

theorem TextSim.outerTrimmed {cs : CharSpec} {t' t : Text} (h : TextSim cs.uws t' t) :
    t'.outerTrimmed cs = t.outerTrimmed cs := by
  unfold Text.outerTrimmed; rw [h.text]

theorem TextSim.trimmed {cs : CharSpec} {t' t : Text} (h : TextSim cs.uws t' t) :
    t'.trimmed cs = t.trimmed cs := by
  unfold Text.trimmed; rw [h.outerTrimmed]

theorem appendFrag_frags_sim (t : Text) (f : Frag) :
    (t.appendFrag f).frags = if f.text.isEmpty then t.frags else t.frags ++ [f] := by
  unfold Text.appendFrag
  by_cases h1 : t.span.stop ≤ f.offset <;> by_cases h2 : f.text.isEmpty = true <;> simp [h1, h2]

theorem appendStr_frags (t : Text) (s : List Char) (off : Nat) :
    (t.appendStr s off).frags = if s.isEmpty then t.frags else t.frags ++ [⟨s, off, false⟩] := by
  unfold Text.appendStr; rw [appendFrag_frags_sim]

section
variable {uws : Char → Bool}

theorem TextSim.appendFrag {t' t : Text} {f' f : Frag} (h : TextSim uws t' t) (hf : FragSim uws f' f)
    (he : f'.text.isEmpty = f.text.isEmpty) : TextSim uws (t'.appendFrag f') (t.appendFrag f) := by
  unfold TextSim
  rw [appendFrag_frags_sim, appendFrag_frags_sim, he]
  split
  · exact h
  · exact LRel.append h (.cons hf .nil)

theorem TextSim.appendStr {t' t : Text} (h : TextSim uws t' t) (s : List Char) (o' o : Nat) :
    TextSim uws (t'.appendStr s o') (t.appendStr s o) :=
  h.appendFrag ⟨rfl, fun _ => rfl, fun hs => (by cases hs)⟩ rfl

/-- accumulators of the fold of `BlockParser::text` with the same content -/
def AccSim (uws : Char → Bool) (a' a : TextAcc) : Prop := TextSim uws a'.t a.t ∧ a'.cur = a.cur

theorem textStep_sim {cs : CharSpec} (hu : UwsNL cs) {a' a : TextAcc} {t' t : Tok} (ha : AccSim cs.uws a' a)
    (ht : TokSim t' t) : AccSim cs.uws (textStep a' t') (textStep a t) := by
  obtain ⟨h1, h2⟩ := ha
  have hk := ht.kind
  unfold textStep
  rw [hk, h2]
  cases hkind : t.kind <;> simp only
  case newline =>
    obtain ⟨n1, n2⟩ := ht.nl hkind
    refine ⟨?_, rfl⟩
    apply (h1.appendStr _ _ _).appendFrag
    · exact ⟨rfl, fun hs => (by cases hs), fun _ => ⟨isNL_blank hu n1, isNL_blank hu n2⟩⟩
    · simp only [isNL_ne_nil n1, isNL_ne_nil n2]
  case lineComment => exact ⟨h1.appendStr _ _ _, rfl⟩
  case blockComment => exact ⟨h1.appendStr _ _ _, rfl⟩
  case escaped =>
    refine ⟨h1.appendStr _ _ _, ?_⟩
    rw [ht.text (by rw [hkind]; rfl)]
  all_goals exact ⟨h1, by rw [ht.text (by rw [hkind]; rfl)]⟩

theorem foldl_textStep_sim {cs : CharSpec} (hu : UwsNL cs) {l' l : List Tok} (h : LRel TokSim l' l) {a' a : TextAcc}
    (ha : AccSim cs.uws a' a) : AccSim cs.uws (l'.foldl textStep a') (l.foldl textStep a) := by
  induction h generalizing a' a with
  | nil => exact ha
  | cons h1 _ ih => exact ih (textStep_sim hu ha h1)

theorem textSim_bad {t' t : Text} (b' b : Bool) (h : TextSim uws t' t) :
    TextSim uws { t' with bad := b' } { t with bad := b } := h

/-- **text assembly on related runs**: same fragment structure, same content, whatever the offsets -/
theorem buildText_sim {cs : CharSpec} (hu : UwsNL cs) {l' l : List Tok} (h : LRel TokSim l' l) (o' o : Nat) :
    TextSim cs.uws (buildText o' l') (buildText o l) := by
  cases h with
  | nil => exact .nil
  | cons h1 hl =>
    rename_i a b l' l
    have hfull : LRel TokSim (a :: l') (b :: l) := .cons h1 hl
    have hinit : AccSim cs.uws ⟨Text.empty o', a.start, []⟩ ⟨Text.empty o, b.start, []⟩ := ⟨.nil, rfl⟩
    obtain ⟨f1, f2⟩ := foldl_textStep_sim hu hfull hinit
    unfold buildText
    simp only
    rw [f2]
    have := f1.appendStr ((List.foldl textStep ⟨Text.empty o, b.start, []⟩ (b :: l)).cur)
      (List.foldl textStep ⟨Text.empty o', a.start, []⟩ (a :: l')).start
      (List.foldl textStep ⟨Text.empty o, b.start, []⟩ (b :: l)).start
    split <;> split <;> exact this

end

end Cook
