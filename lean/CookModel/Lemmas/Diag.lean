import CookModel.Lemmas.SpansEv
import CookModel.Lemmas.CollectorInv
import CookModel.Props.C01
/-
  Diagnostics (C07): completeness "in isolation" of the parser and analysis models.

  Part 1  values: a zero denominator / an integer above `u32::MAX` is reported, with the label on the
          fraction / the literal.
  Part 2  a frame layer for the block parser monad (`Fr R m`: every run of `m` relates the final
          state to the initial one by the preorder `R`), instantiated with "the character tables are
          unchanged and the event queue only grows" (`Grow`) and "… and the event queue is unchanged"
          (`Quiet`); then, per component parser, which diagnostics are pushed.
-/
set_option linter.unusedSectionVars false
set_option linter.unusedSimpArgs false
set_option linter.unusedVariables false
namespace Cook

variable {α : Type} [Arith α]

/-! ### Part 1: numbers -/

def divZeroDiag (a b : Tok) : Diag := ⟨.error, .parse, "division-by-zero", [⟨a.start, b.stop⟩]⟩
def intParseDiag (t : Tok) : Diag := ⟨.error, .parse, "int-parse", [⟨t.start, t.stop⟩]⟩

theorem diag_parseU32_ok {t : Tok} (h : digitsToNat t.text ≤ u32Max) : parseU32 t = .ok (digitsToNat t.text) := by
  unfold parseU32; simp [h]

theorem diag_parseU32_overflow {t : Tok} (h : u32Max < digitsToNat t.text) : parseU32 t = .error (intParseDiag t) := by
  unfold parseU32 intParseDiag
  have : ¬ digitsToNat t.text ≤ u32Max := by omega
  simp [this]

theorem diag_fracNum_zero (a b : Tok) (ha : digitsToNat a.text ≤ u32Max) (hb : digitsToNat b.text = 0) :
    fracNum (α := α) a b = .error (divZeroDiag a b) := by
  unfold fracNum
  rw [diag_parseU32_ok ha, diag_parseU32_ok (by rw [hb]; exact Nat.zero_le _)]
  simp [hb, divZeroDiag]

theorem diag_fracNum_overflow_num (a b : Tok) (ha : u32Max < digitsToNat a.text) :
    fracNum (α := α) a b = .error (intParseDiag a) := by
  unfold fracNum
  rw [diag_parseU32_overflow ha]

theorem diag_fracNum_overflow_den (a b : Tok) (ha : digitsToNat a.text ≤ u32Max) (hb : u32Max < digitsToNat b.text) :
    fracNum (α := α) a b = .error (intParseDiag b) := by
  unfold fracNum
  rw [diag_parseU32_ok ha, diag_parseU32_overflow hb]

theorem diag_mixedNum_zero (i a b : Tok) (hi : digitsToNat i.text ≤ u32Max) (ha : digitsToNat a.text ≤ u32Max)
    (hb : digitsToNat b.text = 0) : mixedNum (α := α) i a b = .error (divZeroDiag a b) := by
  unfold mixedNum
  rw [diag_parseU32_ok hi, diag_fracNum_zero a b ha hb]

theorem diag_mixedNum_overflow_whole (i a b : Tok) (hi : u32Max < digitsToNat i.text) :
    mixedNum (α := α) i a b = .error (intParseDiag i) := by
  unfold mixedNum
  rw [diag_parseU32_overflow hi]

theorem diag_mixedNum_frac_error (i a b : Tok) (d : Diag) (hi : digitsToNat i.text ≤ u32Max)
    (h : fracNum (α := α) a b = .error d) : mixedNum (α := α) i a b = .error d := by
  unfold mixedNum
  rw [diag_parseU32_ok hi, h]

theorem diag_filter_length_le (l : List Tok) : (l.filter notWsComment).length ≤ l.length :=
  List.length_filter_le _ _

/-- a token run whose non-blank tokens are `int / int` is read as that fraction -/
theorem diag_numericValue_frac (tokens : List Tok) (a s b : Tok)
    (hf : (trimTokens tokens).filter notWsComment = [a, s, b])
    (ha : a.kind = .int) (hs : s.kind = .slash) (hb : b.kind = .int) :
    numericValue (α := α) tokens = some ((fracNum (α := α) a b).map .number) := by
  unfold numericValue
  have hlen := diag_filter_length_le (trimTokens tokens)
  rw [hf] at hlen
  simp only [List.length_cons, List.length_nil] at hlen
  generalize trimTokens tokens = tr at hf hlen
  match tr, hf, hlen with
  | [x, y, z], hf, _ =>
    have hsub : ([a, s, b] : List Tok).Sublist [x, y, z] := by rw [← hf]; exact List.filter_sublist
    have heq : [a, s, b] = [x, y, z] := hsub.eq_of_length (by simp)
    simp only [List.cons.injEq, and_true] at heq
    obtain ⟨rfl, rfl, rfl⟩ := heq
    simp [hf, ha, hs, hb]
  | x :: y :: z :: u :: r, hf, _ =>
    simp [hf, ha, hs, hb]

/-- a token run whose non-blank tokens are `int int / int` is read as that mixed number -/
theorem diag_numericValue_mixed (tokens : List Tok) (i a s b : Tok)
    (hf : (trimTokens tokens).filter notWsComment = [i, a, s, b])
    (hi : i.kind = .int) (ha : a.kind = .int) (hs : s.kind = .slash) (hb : b.kind = .int) :
    numericValue (α := α) tokens = some ((mixedNum (α := α) i a b).map .number) := by
  unfold numericValue
  have hlen := diag_filter_length_le (trimTokens tokens)
  rw [hf] at hlen
  simp only [List.length_cons, List.length_nil] at hlen
  generalize trimTokens tokens = tr at hf hlen
  match tr, hf, hlen with
  | x :: y :: z :: u :: r, hf, _ =>
    simp [hf, hi, ha, hs, hb]

theorem diag_rangeValue_none (rangeExt : Bool) (tokens : List Tok)
    (h : rangeExt = false ∨ ∀ t ∈ tokens, t.kind ≠ .minus) : rangeValue (α := α) rangeExt tokens = none := by
  unfold rangeValue
  rcases h with h | h
  · simp [h]
  · have : tokens.findIdx? (fun t => t.kind == .minus) = none := by
      rw [List.findIdx?_eq_none_iff]
      intro t ht; simpa using h t ht
    simp [this]

theorem diag_numOrRange_eq (rangeExt : Bool) (tokens : List Tok)
    (h : rangeExt = false ∨ ∀ t ∈ tokens, t.kind ≠ .minus) :
    numOrRange (α := α) rangeExt tokens = numericValue tokens := by
  unfold numOrRange
  rw [diag_rangeValue_none rangeExt tokens h]

/-- the trimmed form of a padded run whose first and last tokens are not blank -/
theorem diag_trim_pad (pre post mid : List Tok) (x y : Tok) (hpre : ∀ t ∈ pre, Blank t) (hpost : ∀ t ∈ post, Blank t)
    (hfirst : mid.head? = some x) (hlast : mid.getLast? = some y) (hx : ¬ Blank x) (hy : ¬ Blank y) :
    trimTokens (pre ++ mid ++ post) = mid := by
  apply trimTokens_blank_pad pre post mid hpre hpost
  · intro h0; rw [h0] at hfirst; cases hfirst
  · intro t ht; rw [hfirst] at ht; cases ht; exact hx
  · intro t ht; rw [hlast] at ht; cases ht; exact hy

/-- `parse_value` pushes the error of the number reader -/
theorem diag_parseValue_error (tokens : List Tok) (s : BP α) (d : Diag)
    (h : numOrRange (α := α) (s.ext.has Gen.EXT_RANGE_VALUES) tokens = some (.error d)) :
    (parseValue (α := α) tokens s).2 = { s with evs := s.evs.push (.error d) } := by
  unfold parseValue
  simp only [bind, StateT.bind, currentOffset_run, hasExt, get, getThe, MonadStateOf.get, StateT.get,
    pure, StateT.pure, h]
  rfl

/-! ### Part 2: frames of the block parser monad

  `FQ m`: `m` leaves the character tables, the extensions and the event queue alone.
  `FG m`: `m` leaves the character tables and the extensions alone and only appends events. -/

structure FQ {β : Type} (m : P α β) : Prop where
  out : ∀ s, (m s).2.cs = s.cs ∧ (m s).2.ext = s.ext ∧ (m s).2.evs = s.evs

structure FG {β : Type} (m : P α β) : Prop where
  out : ∀ s, (m s).2.cs = s.cs ∧ (m s).2.ext = s.ext ∧ ∃ l, (m s).2.evs.toList = s.evs.toList ++ l

theorem FQ.toFG {β : Type} {m : P α β} (h : FQ m) : FG m := by
  constructor
  intro s
  obtain ⟨h1, h2, h3⟩ := h.out s
  exact ⟨h1, h2, [], by rw [h3]; simp⟩

theorem FQ.pure {β : Type} (a : β) : FQ (Pure.pure a : P α β) := ⟨fun s => ⟨rfl, rfl, rfl⟩⟩

theorem FQ.bind {β γ : Type} {m : P α β} {k : β → P α γ} (hm : FQ m) (hk : ∀ a, FQ (k a)) : FQ (m >>= k) := by
  constructor
  intro s
  obtain ⟨a1, a2, a3⟩ := hm.out s
  obtain ⟨b1, b2, b3⟩ := (hk (m s).1).out (m s).2
  exact ⟨b1.trans a1, b2.trans a2, b3.trans a3⟩

theorem FQ.get : FQ (get : P α (BP α)) := ⟨fun s => ⟨rfl, rfl, rfl⟩⟩

theorem FQ.modify {f : BP α → BP α} (hf : ∀ s, (f s).cs = s.cs ∧ (f s).ext = s.ext ∧ (f s).evs = s.evs) :
    FQ (modify f : P α Unit) := ⟨fun s => hf s⟩

theorem FG.pure {β : Type} (a : β) : FG (Pure.pure a : P α β) := (FQ.pure a).toFG

theorem FG.bind {β γ : Type} {m : P α β} {k : β → P α γ} (hm : FG m) (hk : ∀ a, FG (k a)) : FG (m >>= k) := by
  constructor
  intro s
  obtain ⟨a1, a2, l1, a3⟩ := hm.out s
  obtain ⟨b1, b2, l2, b3⟩ := (hk (m s).1).out (m s).2
  refine ⟨b1.trans a1, b2.trans a2, l1 ++ l2, ?_⟩
  show ((k (m s).1) (m s).2).2.evs.toList = _
  rw [b3, a3, List.append_assoc]

theorem FG.pushEv (ev : Ev α) : FG (pushEv ev) :=
  ⟨fun s => ⟨rfl, rfl, [ev], by simp [Cook.pushEv, modify, modifyGet, MonadStateOf.modifyGet, StateT.modifyGet, Pure.pure]⟩⟩
theorem FG.perr (k : String) (l : List Span) : FG (perr (α := α) k l) := FG.pushEv _
theorem FG.pwarn (k : String) (l : List Span) : FG (pwarn (α := α) k l) := FG.pushEv _

syntax "fq_leaf" : tactic
macro_rules | `(tactic| fq_leaf) => `(tactic| exact FQ.pure _)
macro_rules | `(tactic| fq_leaf) => `(tactic| exact FQ.get)
macro_rules | `(tactic| fq_leaf) => `(tactic| assumption)
macro_rules | `(tactic| fq_leaf) => `(tactic| (refine FQ.modify (fun s => ?_); first | exact ⟨rfl, rfl, rfl⟩ | (split <;> exact ⟨rfl, rfl, rfl⟩)))

macro "fq_auto" : tactic => `(tactic|
  repeat (first
    | fq_leaf
    | apply FQ.bind
    | intro _
    | dsimp only
    | split))

syntax "fg_leaf" : tactic
macro_rules | `(tactic| fg_leaf) => `(tactic| exact FG.pure _)
macro_rules | `(tactic| fg_leaf) => `(tactic| exact FG.perr _ _)
macro_rules | `(tactic| fg_leaf) => `(tactic| exact FG.pwarn _ _)
macro_rules | `(tactic| fg_leaf) => `(tactic| exact FG.pushEv _)
macro_rules | `(tactic| fg_leaf) => `(tactic| assumption)
macro_rules | `(tactic| fg_leaf) => `(tactic| (apply FQ.toFG; fq_leaf))

macro "fg_auto" : tactic => `(tactic|
  repeat (first
    | fg_leaf
    | apply FG.bind
    | intro _
    | dsimp only
    | split))

theorem FQ.panicWith (site : String) : FQ (panicWith (α := α) site) := by unfold Cook.panicWith; fq_auto
macro_rules | `(tactic| fq_leaf) => `(tactic| exact FQ.panicWith _)
theorem FQ.hasExt (f : Nat) : FQ (hasExt (α := α) f) := by unfold Cook.hasExt; fq_auto
macro_rules | `(tactic| fq_leaf) => `(tactic| exact FQ.hasExt _)
theorem FQ.restToks : FQ (restToks (α := α)) := by unfold Cook.restToks; fq_auto
macro_rules | `(tactic| fq_leaf) => `(tactic| exact FQ.restToks)
theorem FQ.allToks : FQ (allToks (α := α)) := by unfold Cook.allToks; fq_auto
macro_rules | `(tactic| fq_leaf) => `(tactic| exact FQ.allToks)
theorem FQ.getCur : FQ (getCur (α := α)) := by unfold Cook.getCur; fq_auto
macro_rules | `(tactic| fq_leaf) => `(tactic| exact FQ.getCur)
theorem FQ.setCur (c : Nat) : FQ (setCur (α := α) c) := by unfold Cook.setCur; fq_auto
macro_rules | `(tactic| fq_leaf) => `(tactic| exact FQ.setCur _)
theorem FQ.tokensSpanP (site : String) (l : List Tok) : FQ (tokensSpanP (α := α) site l) := by
  unfold Cook.tokensSpanP; fq_auto
macro_rules | `(tactic| fq_leaf) => `(tactic| exact FQ.tokensSpanP _ _)
theorem FQ.currentOffset : FQ (currentOffset (α := α)) := by
  constructor; intro s; rw [currentOffset_run]; exact ⟨rfl, rfl, rfl⟩
macro_rules | `(tactic| fq_leaf) => `(tactic| exact FQ.currentOffset)
theorem FQ.bpSpan : FQ (bpSpan (α := α)) := by unfold Cook.bpSpan; fq_auto
macro_rules | `(tactic| fq_leaf) => `(tactic| exact FQ.bpSpan)
theorem FQ.peekK : FQ (peekK (α := α)) := by unfold Cook.peekK; fq_auto
macro_rules | `(tactic| fq_leaf) => `(tactic| exact FQ.peekK)
theorem FQ.atK (k : TK) : FQ (atK (α := α) k) := by unfold Cook.atK; fq_auto
macro_rules | `(tactic| fq_leaf) => `(tactic| exact FQ.atK _)
theorem FQ.nextToken : FQ (nextToken (α := α)) := by
  constructor; intro s; rw [nextToken_run]; split <;> exact ⟨rfl, rfl, rfl⟩
macro_rules | `(tactic| fq_leaf) => `(tactic| exact FQ.nextToken)
theorem FQ.bumpAny : FQ (bumpAny (α := α)) := by unfold Cook.bumpAny; fq_auto
macro_rules | `(tactic| fq_leaf) => `(tactic| exact FQ.bumpAny)
theorem FQ.bump (k : TK) : FQ (bump (α := α) k) := by unfold Cook.bump; fq_auto
macro_rules | `(tactic| fq_leaf) => `(tactic| exact FQ.bump _)
theorem FQ.untilK (f : TK → Bool) : FQ (untilK (α := α) f) := by
  constructor; intro s; rw [untilK_run]; split <;> exact ⟨rfl, rfl, rfl⟩
macro_rules | `(tactic| fq_leaf) => `(tactic| exact FQ.untilK _)
theorem FQ.consumeWhile (f : TK → Bool) : FQ (consumeWhile (α := α) f) := by
  constructor; intro s; rw [consumeWhile_run]; exact ⟨rfl, rfl, rfl⟩
macro_rules | `(tactic| fq_leaf) => `(tactic| exact FQ.consumeWhile _)
theorem FQ.wsComments : FQ (wsComments (α := α)) := FQ.consumeWhile _
macro_rules | `(tactic| fq_leaf) => `(tactic| exact FQ.wsComments)
theorem FQ.consumeK (k : TK) : FQ (consumeK (α := α) k) := by unfold Cook.consumeK; fq_auto
macro_rules | `(tactic| fq_leaf) => `(tactic| exact FQ.consumeK _)
theorem FQ.consumeRest : FQ (consumeRest (α := α)) := by unfold Cook.consumeRest; fq_auto
macro_rules | `(tactic| fq_leaf) => `(tactic| exact FQ.consumeRest)
theorem FQ.withRecover {β : Type} {f : P α (Option β)} (h : FQ f) : FQ (withRecover f) := by
  unfold Cook.withRecover; fq_auto
theorem FG.withRecover {β : Type} {f : P α (Option β)} (h : FG f) : FG (withRecover f) := by
  unfold Cook.withRecover; fg_auto
theorem FQ.bpText (off : Nat) (l : List Tok) : FQ (bpText (α := α) off l) := by unfold Cook.bpText; fq_auto
macro_rules | `(tactic| fq_leaf) => `(tactic| exact FQ.bpText _ _)
theorem FQ.scalingLock : FQ (scalingLock (α := α)) := by unfold Cook.scalingLock; fq_auto
macro_rules | `(tactic| fq_leaf) => `(tactic| exact FQ.scalingLock)

theorem FG.textValue (l : List Tok) (o : Nat) : FG (textValue (α := α) l o) := by unfold Cook.textValue; fg_auto
macro_rules | `(tactic| fg_leaf) => `(tactic| exact FG.textValue _ _)
theorem FG.parseValue (l : List Tok) : FG (parseValue (α := α) l) := by unfold Cook.parseValue; fg_auto
macro_rules | `(tactic| fg_leaf) => `(tactic| exact FG.parseValue _)
theorem FG.qvalue : FG (qvalue (α := α)) := by unfold Cook.qvalue; fg_auto
macro_rules | `(tactic| fg_leaf) => `(tactic| exact FG.qvalue)
theorem FG.parseRegularQuantity : FG (parseRegularQuantity (α := α)) := by
  unfold Cook.parseRegularQuantity; fg_auto
macro_rules | `(tactic| fg_leaf) => `(tactic| exact FG.parseRegularQuantity)
theorem FG.parseAdvancedQuantity : FG (parseAdvancedQuantity (α := α)) := by
  unfold Cook.parseAdvancedQuantity; fg_auto
macro_rules | `(tactic| fg_leaf) => `(tactic| exact FG.parseAdvancedQuantity)

theorem FG.parseQuantity (q : List Tok) : FG (parseQuantity (α := α) q) := by
  have hin : ∀ outer : BP α, FG (α := α) (do
      let adv ← (do
        if ← Cook.hasExt Gen.EXT_ADVANCED_UNITS then Cook.withRecover Cook.parseAdvancedQuantity else Pure.pure none)
      let r ← (match adv with
        | some q => Pure.pure q
        | none => Cook.parseRegularQuantity)
      modify fun s => { s with toks := outer.toks, cur := outer.cur }
      Pure.pure r) := by
    intro outer
    have := FG.withRecover (FG.parseAdvancedQuantity (α := α))
    fg_auto
  have hjp : FG (α := α) (do
      let outer ← get
      set { outer with toks := q, cur := 0 }
      let adv ← (do
        if ← Cook.hasExt Gen.EXT_ADVANCED_UNITS then Cook.withRecover Cook.parseAdvancedQuantity else Pure.pure none)
      let r ← (match adv with
        | some q => Pure.pure q
        | none => Cook.parseRegularQuantity)
      modify fun s => { s with toks := outer.toks, cur := outer.cur }
      Pure.pure r) := ⟨fun s => (hin s).out { s with toks := q, cur := 0 }⟩
  unfold Cook.parseQuantity
  dsimp only
  split
  · exact FG.bind (FQ.toFG (FQ.panicWith _)) (fun _ => hjp)
  · exact hjp
macro_rules | `(tactic| fg_leaf) => `(tactic| exact FG.parseQuantity _)

theorem FQ.compBodyLong : FQ (compBodyLong (α := α)) := by
  unfold Cook.compBodyLong
  apply FQ.withRecover
  fq_auto
macro_rules | `(tactic| fq_leaf) => `(tactic| exact FQ.compBodyLong)

theorem FG.compBodyShort : FG (compBodyShort (α := α)) := by
  unfold Cook.compBodyShort
  apply FG.withRecover
  fg_auto
macro_rules | `(tactic| fg_leaf) => `(tactic| exact FG.compBodyShort)

theorem FG.compBody : FG (compBody (α := α)) := by unfold Cook.compBody; fg_auto
macro_rules | `(tactic| fg_leaf) => `(tactic| exact FG.compBody)

theorem FQ.modifiersLoop (inter : Bool) (fuel : Nat) : FQ (modifiersLoop (α := α) inter fuel) := by
  induction fuel with
  | zero => unfold Cook.modifiersLoop; fq_auto
  | succ fuel ih =>
    unfold Cook.modifiersLoop
    have hr : FQ (α := α) (Cook.withRecover (do
            match ← Cook.consumeK .openParen with
            | none => return none
            | some _ =>
              match ← Cook.untilK (fun k => k == .closeParen) with
              | none => return none
              | some _ =>
                let _ ← Cook.bump .closeParen
                return some ())) := by
      apply FQ.withRecover
      fq_auto
    fq_auto
macro_rules | `(tactic| fq_leaf) => `(tactic| exact FQ.modifiersLoop _ _)

theorem FQ.modifiersP : FQ (modifiersP (α := α)) := by unfold Cook.modifiersP; fq_auto
macro_rules | `(tactic| fq_leaf) => `(tactic| exact FQ.modifiersP)

theorem FQ.noteP : FQ (noteP (α := α)) := by
  unfold Cook.noteP
  apply FQ.withRecover
  fq_auto
macro_rules | `(tactic| fq_leaf) => `(tactic| exact FQ.noteP)

set_option maxHeartbeats 2000000 in
theorem FG.parseInterRef (l : List Tok) : FG (parseInterRef (α := α) l) := by
  unfold Cook.parseInterRef; fg_auto
macro_rules | `(tactic| fg_leaf) => `(tactic| exact FG.parseInterRef _)

theorem FG.parseModifiersLoop (span : Span) (ie : Bool) (fuel : Nat) (l : List Tok) (m : Modifiers)
    (d : Option (Loc InterData)) : FG (parseModifiersLoop (α := α) span ie fuel l m d) := by
  induction fuel generalizing l m d with
  | zero => unfold Cook.parseModifiersLoop; fg_auto
  | succ fuel ih =>
    cases l with
    | nil => unfold Cook.parseModifiersLoop; fg_auto
    | cons t r =>
      unfold Cook.parseModifiersLoop
      have ih1 := ih r m
      have ih2 := fun f => ih r (m.insert f)
      fg_auto
      all_goals first | exact ih _ _ _ | (split <;> fg_auto <;> exact ih _ _ _)
macro_rules | `(tactic| fg_leaf) => `(tactic| exact FG.parseModifiersLoop ..)

theorem FG.parseModifiers (l : List Tok) (pos : Nat) : FG (parseModifiers (α := α) l pos) := by
  unfold Cook.parseModifiers; fg_auto
macro_rules | `(tactic| fg_leaf) => `(tactic| exact FG.parseModifiers _ _)

theorem FG.parseAlias (c : String) (l : List Tok) (o : Nat) : FG (parseAlias (α := α) c l o) := by
  unfold Cook.parseAlias; fg_auto
macro_rules | `(tactic| fg_leaf) => `(tactic| exact FG.parseAlias _ _ _)

theorem FG.checkEmptyName (c : String) (t : Text) : FG (checkEmptyName (α := α) c t) := by
  unfold Cook.checkEmptyName; fg_auto
macro_rules | `(tactic| fg_leaf) => `(tactic| exact FG.checkEmptyName _ _)

theorem FG.checkNoteTimer : FG (checkNoteTimer (α := α)) := by
  unfold Cook.checkNoteTimer
  apply FG.bind
  · apply FG.withRecover
    fg_auto
  · fg_auto
macro_rules | `(tactic| fg_leaf) => `(tactic| exact FG.checkNoteTimer)


/-! ### relations between states, and the bridge to `Sat` -/

/-- `s'` has the tables and extensions of `s` and the events of `s` -/
def Same (s s' : BP α) : Prop := s'.cs = s.cs ∧ s'.ext = s.ext ∧ s'.evs = s.evs

/-- `s'` has the tables and extensions of `s` and more events -/
def Grow (s s' : BP α) : Prop := s'.cs = s.cs ∧ s'.ext = s.ext ∧ ∃ l, s'.evs.toList = s.evs.toList ++ l

/-- … and the event `ev` is among the new ones -/
def Has (ev : Ev α) (s s' : BP α) : Prop := ∃ l, s'.evs.toList = s.evs.toList ++ l ∧ ev ∈ l

theorem Same.refl (s : BP α) : Same s s := ⟨rfl, rfl, rfl⟩
theorem Same.trans {a b c : BP α} (h1 : Same a b) (h2 : Same b c) : Same a c :=
  ⟨h2.1.trans h1.1, h2.2.1.trans h1.2.1, h2.2.2.trans h1.2.2⟩
theorem Same.grow {a b : BP α} (h : Same a b) : Grow a b := ⟨h.1, h.2.1, [], by rw [h.2.2]; simp⟩
theorem Same.setCur {a b : BP α} (h : Same a b) (c : Nat) : Same a { b with cur := c } := h
theorem Grow.refl (s : BP α) : Grow s s := (Same.refl s).grow
theorem Grow.trans {a b c : BP α} (h1 : Grow a b) (h2 : Grow b c) : Grow a c := by
  obtain ⟨a1, a2, l1, a3⟩ := h1
  obtain ⟨b1, b2, l2, b3⟩ := h2
  exact ⟨b1.trans a1, b2.trans a2, l1 ++ l2, by rw [b3, a3, List.append_assoc]⟩
theorem Grow.push (s : BP α) (ev : Ev α) : Grow s { s with evs := s.evs.push ev } :=
  ⟨rfl, rfl, [ev], by simp⟩
theorem Grow.setCur {a b : BP α} (h : Grow a b) (c : Nat) : Grow a { b with cur := c } := h

theorem Has.push (s : BP α) (ev : Ev α) : Has ev s { s with evs := s.evs.push ev } :=
  ⟨[ev], by simp, by simp⟩
theorem Has.left {ev : Ev α} {a b c : BP α} (h1 : Has ev a b) (h2 : Grow b c) : Has ev a c := by
  obtain ⟨l1, a3, hm⟩ := h1
  obtain ⟨-, -, l2, b3⟩ := h2
  exact ⟨l1 ++ l2, by rw [b3, a3, List.append_assoc], by simp [hm]⟩
theorem Has.right {ev : Ev α} {a b c : BP α} (h1 : Grow a b) (h2 : Has ev b c) : Has ev a c := by
  obtain ⟨-, -, l1, a3⟩ := h1
  obtain ⟨l2, b3, hm⟩ := h2
  exact ⟨l1 ++ l2, by rw [b3, a3, List.append_assoc], by simp [hm]⟩
theorem Has.setCur {ev : Ev α} {a b : BP α} (h : Has ev a b) (c : Nat) : Has ev a { b with cur := c } := h

theorem FQ.sat {β : Type} {m : P α β} (h : FQ m) (s : BP α) : Sat m s (fun _ s' => Same s s') := h.out s
theorem FG.sat {β : Type} {m : P α β} (h : FG m) (s : BP α) : Sat m s (fun _ s' => Grow s s') := h.out s

theorem Sat.and {β : Type} {m : P α β} {s : BP α} {Q1 Q2 : β → BP α → Prop} (h1 : Sat m s Q1) (h2 : Sat m s Q2) :
    Sat m s (fun a s' => Q1 a s' ∧ Q2 a s') := ⟨h1, h2⟩

/-- what a run returned and where it ended, as a postcondition -/
theorem Sat.run {β : Type} (m : P α β) (s : BP α) : Sat m s (fun a s' => m s = (a, s')) := rfl

theorem Sat.of_run {β : Type} {m : P α β} {s s' : BP α} {a : β} {Q : β → BP α → Prop} (h : Sat m s Q)
    (hr : m s = (a, s')) : Q a s' := by
  unfold Sat at h; rw [hr] at h; exact h

end Cook
