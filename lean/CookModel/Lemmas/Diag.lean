import CookModel.Lemmas.SpansEv
import CookModel.Lemmas.CollectorInv
import CookModel.Props.C01
/-
  Diagnostics (C07): completeness "in isolation" of the parser and analysis models.

  Part 1  values: a zero denominator / an integer above `u32::MAX` is reported, with the label on the
          fraction / the literal.
  Part 2  a frame layer for the block parser monad (`Fr R m`: every run of `m` relates the final
          state to the initial one by the preorder `R`), instantiated with "the character tables are
          unchanged and the event queue only grows" (`Grow`) and "… and the event queue is unchanged"
          (`Quiet`); then, per component parser, which diagnostics are pushed.
-/
set_option linter.unusedSectionVars false
set_option linter.unusedSimpArgs false
set_option linter.unusedVariables false
namespace Cook

variable {α : Type} [Arith α]

/-! ### Part 1: numbers -/

def divZeroDiag (a b : Tok) : Diag := ⟨.error, .parse, "division-by-zero", [⟨a.start, b.stop⟩]⟩
def intParseDiag (t : Tok) : Diag := ⟨.error, .parse, "int-parse", [⟨t.start, t.stop⟩]⟩

theorem diag_parseU32_ok {t : Tok} (h : digitsToNat t.text ≤ u32Max) : parseU32 t = .ok (digitsToNat t.text) := by
  unfold parseU32; simp [h]

theorem diag_parseU32_overflow {t : Tok} (h : u32Max < digitsToNat t.text) : parseU32 t = .error (intParseDiag t) := by
  unfold parseU32 intParseDiag
  have : ¬ digitsToNat t.text ≤ u32Max := by omega
  simp [this]

theorem diag_fracNum_zero (a b : Tok) (ha : digitsToNat a.text ≤ u32Max) (hb : digitsToNat b.text = 0) :
    fracNum (α := α) a b = .error (divZeroDiag a b) := by
  unfold fracNum
  rw [diag_parseU32_ok ha, diag_parseU32_ok (by rw [hb]; exact Nat.zero_le _)]
  simp [hb, divZeroDiag]

theorem diag_fracNum_overflow_num (a b : Tok) (ha : u32Max < digitsToNat a.text) :
    fracNum (α := α) a b = .error (intParseDiag a) := by
  unfold fracNum
  rw [diag_parseU32_overflow ha]

theorem diag_fracNum_overflow_den (a b : Tok) (ha : digitsToNat a.text ≤ u32Max) (hb : u32Max < digitsToNat b.text) :
    fracNum (α := α) a b = .error (intParseDiag b) := by
  unfold fracNum
  rw [diag_parseU32_ok ha, diag_parseU32_overflow hb]

theorem diag_mixedNum_zero (i a b : Tok) (hi : digitsToNat i.text ≤ u32Max) (ha : digitsToNat a.text ≤ u32Max)
    (hb : digitsToNat b.text = 0) : mixedNum (α := α) i a b = .error (divZeroDiag a b) := by
  unfold mixedNum
  rw [diag_parseU32_ok hi, diag_fracNum_zero a b ha hb]

theorem diag_mixedNum_overflow_whole (i a b : Tok) (hi : u32Max < digitsToNat i.text) :
    mixedNum (α := α) i a b = .error (intParseDiag i) := by
  unfold mixedNum
  rw [diag_parseU32_overflow hi]

theorem diag_mixedNum_frac_error (i a b : Tok) (d : Diag) (hi : digitsToNat i.text ≤ u32Max)
    (h : fracNum (α := α) a b = .error d) : mixedNum (α := α) i a b = .error d := by
  unfold mixedNum
  rw [diag_parseU32_ok hi, h]

theorem diag_filter_length_le (l : List Tok) : (l.filter notWsComment).length ≤ l.length :=
  List.length_filter_le _ _

/-- a token run whose non-blank tokens are `int / int` is read as that fraction -/
theorem diag_numericValue_frac (tokens : List Tok) (a s b : Tok)
    (hf : (trimTokens tokens).filter notWsComment = [a, s, b])
    (ha : a.kind = .int) (hs : s.kind = .slash) (hb : b.kind = .int) :
    numericValue (α := α) tokens = some ((fracNum (α := α) a b).map .number) := by
  unfold numericValue
  have hlen := diag_filter_length_le (trimTokens tokens)
  rw [hf] at hlen
  simp only [List.length_cons, List.length_nil] at hlen
  generalize trimTokens tokens = tr at hf hlen
  match tr, hf, hlen with
  | [x, y, z], hf, _ =>
    have hsub : ([a, s, b] : List Tok).Sublist [x, y, z] := by rw [← hf]; exact List.filter_sublist
    have heq : [a, s, b] = [x, y, z] := hsub.eq_of_length (by simp)
    simp only [List.cons.injEq, and_true] at heq
    obtain ⟨rfl, rfl, rfl⟩ := heq
    simp [hf, ha, hs, hb]
  | x :: y :: z :: u :: r, hf, _ =>
    simp [hf, ha, hs, hb]

/-- a token run whose non-blank tokens are `int int / int` is read as that mixed number -/
theorem diag_numericValue_mixed (tokens : List Tok) (i a s b : Tok)
    (hf : (trimTokens tokens).filter notWsComment = [i, a, s, b])
    (hi : i.kind = .int) (ha : a.kind = .int) (hs : s.kind = .slash) (hb : b.kind = .int) :
    numericValue (α := α) tokens = some ((mixedNum (α := α) i a b).map .number) := by
  unfold numericValue
  have hlen := diag_filter_length_le (trimTokens tokens)
  rw [hf] at hlen
  simp only [List.length_cons, List.length_nil] at hlen
  generalize trimTokens tokens = tr at hf hlen
  match tr, hf, hlen with
  | x :: y :: z :: u :: r, hf, _ =>
    simp [hf, hi, ha, hs, hb]

theorem diag_rangeValue_none (rangeExt : Bool) (tokens : List Tok)
    (h : rangeExt = false ∨ ∀ t ∈ tokens, t.kind ≠ .minus) : rangeValue (α := α) rangeExt tokens = none := by
  unfold rangeValue
  rcases h with h | h
  · simp [h]
  · have : tokens.findIdx? (fun t => t.kind == .minus) = none := by
      rw [List.findIdx?_eq_none_iff]
      intro t ht; simpa using h t ht
    simp [this]

theorem diag_numOrRange_eq (rangeExt : Bool) (tokens : List Tok)
    (h : rangeExt = false ∨ ∀ t ∈ tokens, t.kind ≠ .minus) :
    numOrRange (α := α) rangeExt tokens = numericValue tokens := by
  unfold numOrRange
  rw [diag_rangeValue_none rangeExt tokens h]

/-- the trimmed form of a padded run whose first and last tokens are not blank -/
theorem diag_trim_pad (pre post mid : List Tok) (x y : Tok) (hpre : ∀ t ∈ pre, Blank t) (hpost : ∀ t ∈ post, Blank t)
    (hfirst : mid.head? = some x) (hlast : mid.getLast? = some y) (hx : ¬ Blank x) (hy : ¬ Blank y) :
    trimTokens (pre ++ mid ++ post) = mid := by
  apply trimTokens_blank_pad pre post mid hpre hpost
  · intro h0; rw [h0] at hfirst; cases hfirst
  · intro t ht; rw [hfirst] at ht; cases ht; exact hx
  · intro t ht; rw [hlast] at ht; cases ht; exact hy

/-- `parse_value` pushes the error of the number reader -/
theorem diag_parseValue_error (tokens : List Tok) (s : BP α) (d : Diag)
    (h : numOrRange (α := α) (s.ext.has Gen.EXT_RANGE_VALUES) tokens = some (.error d)) :
    (parseValue (α := α) tokens s).2 = { s with evs := s.evs.push (.error d) } := by
  unfold parseValue
  simp only [bind, StateT.bind, currentOffset_run, hasExt, get, getThe, MonadStateOf.get, StateT.get,
    pure, StateT.pure, h]
  rfl

end Cook
