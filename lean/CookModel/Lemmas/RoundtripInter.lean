import CookModel.Lemmas.RoundtripShort
/-
  C01, component layer continued: an ingredient whose `&` modifier carries an intermediate
  reference `@&(~1)name{}` (INTERMEDIATE_PREPARATIONS) is read back.  (`rti_` prefix.)
-/
set_option linter.unusedSectionVars false
set_option linter.unusedSimpArgs false
set_option linter.unusedVariables false
namespace Cook

variable {α : Type} [Arith α]

/-! ### `modifiers()` over `pre & ( … ) post` -/

theorem modifiersLoop_plain_prefix (inter : Bool) (pre : List Tok) :
    ∀ (f : Nat) (s : BP α) (A R : List Tok), s.toks = A ++ (pre ++ R) → s.cur = A.length →
      (∀ m ∈ pre, isModifierTok m.kind = true) →
      modifiersLoop inter (pre.length + f) s = modifiersLoop inter f ({ s with cur := A.length + pre.length } : BP α) := by
  induction pre with
  | nil =>
    intro f s A R ht hc _
    simp only [List.length_nil, Nat.zero_add, Nat.add_zero, ← hc]
  | cons m pre ih =>
    intro f s A R ht hc hm
    have hfuel : (m :: pre).length + f = (pre.length + f) + 1 := by simp; omega
    rw [hfuel]
    have h1 := peekK_split s A (m :: (pre ++ R)) (by simpa using ht) hc
    have h2 := bumpAny_split s A m (pre ++ R) (by simpa using ht) hc
    have hrec := ih f ({ s with cur := A.length + 1 } : BP α) (A ++ [m]) R (by simpa using ht) (by simp)
      (fun x hx => hm x (by simp [hx]))
    have hlen : (A ++ [m]).length + pre.length = A.length + (m :: pre).length := by simp; omega
    rw [hlen] at hrec
    rw [← hrec]
    conv => lhs; unfold modifiersLoop
    simp only [bind, StateT.bind, h1, List.head?_cons, Option.map_some, hm m (by simp), if_true, h2]

theorem modifiersLoop_group (f : Nat) (s : BP α) (A : List Tok) (tand top : Tok) (inner : List Tok) (tcp : Tok)
    (R : List Tok) (ht : s.toks = A ++ tand :: top :: (inner ++ tcp :: R)) (hc : s.cur = A.length)
    (hand : tand.kind = .and) (hop : top.kind = .openParen) (hin : ∀ t ∈ inner, t.kind ≠ .closeParen)
    (hcp : tcp.kind = .closeParen) :
    modifiersLoop true (f + 1) s =
      modifiersLoop true f ({ s with cur := A.length + 1 + 1 + inner.length + 1 } : BP α) := by
  have h1 := peekK_split s A (tand :: top :: (inner ++ tcp :: R)) ht hc
  have h2 := bumpAny_split s A tand (top :: (inner ++ tcp :: R)) ht hc
  have h3 := consumeK_split_some .openParen ({ s with cur := A.length + 1 } : BP α) (A ++ [tand]) top
    (inner ++ tcp :: R) (by simpa using ht) (by simp) hop
  have h4 := untilK_split (fun k => k == .closeParen) ({ s with cur := (A ++ [tand]).length + 1 } : BP α)
    (A ++ [tand] ++ [top]) inner tcp R (by simpa using ht) (by simp)
    (by intro t ht'; simpa using hin t ht') (by simp [hcp])
  have h5 : bump (α := α) .closeParen ({ s with cur := (A ++ [tand] ++ [top]).length + inner.length } : BP α) =
      (tcp, { s with cur := (A ++ [tand] ++ [top]).length + inner.length + 1 }) := by
    unfold bump
    have hb := bumpAny_split ({ s with cur := (A ++ [tand] ++ [top]).length + inner.length } : BP α)
      (A ++ [tand] ++ [top] ++ inner) tcp R (by simpa using ht) (by lenarith)
    simp only [bind, StateT.bind, hb, hcp, ne_eq, not_true_eq_false, if_false]
    simp only [List.length_append]
    rfl
  have hk1 : isModifierTok tand.kind = false := by rw [hand]; rfl
  have hk2 : (tand.kind == TK.and) = true := by rw [hand]; rfl
  conv => lhs; unfold modifiersLoop
  simp only [bind, StateT.bind, h1, List.head?_cons, Option.map_some, hk1, hk2, Bool.false_eq_true, if_false, if_true,
    h2, withRecover_run, h3, h4, h5, pure, StateT.pure, Option.isNone_some]
  congr 2
  simp only [List.length_append, List.length_singleton]

theorem rti_modifiersP (s : BP α) (hm : s.ext.has Gen.EXT_COMPONENT_MODIFIERS = true)
    (hi : s.ext.has Gen.EXT_INTERMEDIATE_PREPARATIONS = true)
    (A pre : List Tok) (tand top : Tok) (inner : List Tok) (tcp : Tok) (post : List Tok) (x : Tok) (R : List Tok)
    (ht : s.toks = A ++ (pre ++ tand :: top :: (inner ++ tcp :: (post ++ x :: R)))) (hc : s.cur = A.length)
    (hpre : ∀ m ∈ pre, isModifierTok m.kind = true) (hand : tand.kind = .and) (hop : top.kind = .openParen)
    (hin : ∀ t ∈ inner, t.kind ≠ .closeParen) (hcp : tcp.kind = .closeParen)
    (hpost : ∀ m ∈ post, modKind m.kind = true) (hx : modKind x.kind = false) (hxp : x.kind ≠ .openParen) :
    modifiersP s = (pre ++ tand :: top :: (inner ++ tcp :: post),
      { s with cur := A.length + (pre ++ tand :: top :: (inner ++ tcp :: post)).length }) := by
  unfold modifiersP
  have hr : (s.toks.drop s.cur).length + 1 = pre.length + ((post.length + 1 + (inner.length + 3 + R.length)) + 1) := by
    rw [rt_drop_cur ht hc]; simp only [List.length_append, List.length_cons]; omega
  have hl1 := modifiersLoop_plain_prefix (α := α) true pre ((post.length + 1 + (inner.length + 3 + R.length)) + 1) s A
    (tand :: top :: (inner ++ tcp :: (post ++ x :: R))) ht hc hpre
  have hl2 := modifiersLoop_group (post.length + 1 + (inner.length + 3 + R.length))
    ({ s with cur := A.length + pre.length } : BP α) (A ++ pre) tand top inner tcp (post ++ x :: R)
    (by simpa using ht) (by simp) hand hop hin hcp
  have hl3 := modifiersLoop_run (α := α) true post (post.length + 1 + (inner.length + 3 + R.length))
    ({ s with cur := (A ++ pre).length + 1 + 1 + inner.length + 1 } : BP α)
    (A ++ pre ++ tand :: top :: (inner ++ [tcp])) x R (by simpa using ht)
    (by simp only [List.length_append, List.length_cons, List.length_nil]; omega) hpost hx hxp (by omega)
  simp only [bind, StateT.bind, hasExt_run, hm, hi, Bool.not_true, Bool.false_eq_true, if_false, getCur, get, getThe,
    MonadStateOf.get, StateT.get, pure, StateT.pure, restToks, hr, hl1, hl2, hl3]
  have hlen : (A ++ pre ++ tand :: top :: (inner ++ [tcp])).length + post.length =
      A.length + (pre ++ tand :: top :: (inner ++ tcp :: post)).length := by
    simp only [List.length_append, List.length_cons, List.length_nil]; omega
  rw [hlen]
  congr 1
  rw [ht, hc]
  have e : A ++ (pre ++ tand :: top :: (inner ++ tcp :: (post ++ x :: R))) =
      (A ++ (pre ++ tand :: top :: (inner ++ tcp :: post))) ++ x :: R := by simp
  rw [e, List.take_left' (by simp), List.drop_left]

/-! ### `parse_intermediate_ref_data` -/

theorem rti_filter_pad {cs : CharSpec} {l tl : List Tok} (hl : padOK cs l = true) (hs : Spells tl l) :
    tl.filter (fun t => !(t.kind == .ws || t.kind == .blockComment)) = [] := by
  rw [List.filter_eq_nil_iff]
  intro t ht
  rcases pad_kinds hl hs t ht with h | h <;> simp [h]

theorem rti_inter_decomp {i : AInter} {ip : IPad} {grp : List Tok} (hs : Spells grp (spellInter i ip)) :
    ∃ top b0 e1 b1 e2 b2 ti b3 tcp,
      grp = top :: (b0 ++ e1 ++ b1 ++ e2 ++ b2 ++ [ti] ++ b3 ++ [tcp]) ∧ top.kind = .openParen ∧
      Spells b0 ip.b0 ∧ Spells b3 ip.b3 ∧ ti.kind = .int ∧ ti.text = i.digits ∧ tcp.kind = .closeParen ∧
      (if i.isSection then (∃ te, e1 = [te] ∧ te.kind = .eq) ∧ Spells b1 ip.b1 else e1 = [] ∧ b1 = []) ∧
      (if i.relative then (∃ tt, e2 = [tt] ∧ tt.kind = .tilde) ∧ Spells b2 ip.b2 else e2 = [] ∧ b2 = []) := by
  simp only [spellInter, List.append_assoc, List.cons_append, List.nil_append] at hs
  obtain ⟨top, r, rfl, hopk, -, hs⟩ := hs.cons_inv
  obtain ⟨b0, r, rfl, hb0, hs⟩ := hs.append_inv
  obtain ⟨s1, r, rfl, hs1, hs⟩ := hs.append_inv
  obtain ⟨s2, r, rfl, hs2, hs⟩ := hs.append_inv
  obtain ⟨ti, r, rfl, htik, htit, hs⟩ := hs.cons_inv
  obtain ⟨b3, r, rfl, hb3, hs⟩ := hs.append_inv
  obtain ⟨tcp, rfl, hcpk, -⟩ := hs.single_inv
  simp only [tk] at hopk htik htit hcpk
  have p1 : ∃ e1 b1, s1 = e1 ++ b1 ∧
      (if i.isSection then (∃ te, e1 = [te] ∧ te.kind = .eq) ∧ Spells b1 ip.b1 else e1 = [] ∧ b1 = []) := by
    cases hsec : i.isSection with
    | true =>
      simp only [hsec, if_true, List.cons_append, List.nil_append] at hs1
      obtain ⟨te, b1, rfl, hk, -, hb1⟩ := hs1.cons_inv
      exact ⟨[te], b1, rfl, by simp only [if_true]; exact ⟨⟨te, rfl, hk⟩, hb1⟩⟩
    | false =>
      simp only [hsec, Bool.false_eq_true, if_false] at hs1
      exact ⟨[], [], by rw [hs1.nil_inv]; rfl, by simp⟩
  have p2 : ∃ e2 b2, s2 = e2 ++ b2 ∧
      (if i.relative then (∃ tt, e2 = [tt] ∧ tt.kind = .tilde) ∧ Spells b2 ip.b2 else e2 = [] ∧ b2 = []) := by
    cases hrel : i.relative with
    | true =>
      simp only [hrel, if_true, List.cons_append, List.nil_append] at hs2
      obtain ⟨tt, b2, rfl, hk, -, hb2⟩ := hs2.cons_inv
      exact ⟨[tt], b2, rfl, by simp only [if_true]; exact ⟨⟨tt, rfl, hk⟩, hb2⟩⟩
    | false =>
      simp only [hrel, Bool.false_eq_true, if_false] at hs2
      exact ⟨[], [], by rw [hs2.nil_inv]; rfl, by simp⟩
  obtain ⟨e1, b1, rfl, h1⟩ := p1
  obtain ⟨e2, b2, rfl, h2⟩ := p2
  exact ⟨top, b0, e1, b1, e2, b2, ti, b3, tcp, by simp, hopk, hb0, hb3, htik, htit, hcpk, h1, h2⟩

/-- the tokens between the parentheses have no `)` and filter to the core `[=] [~] n` -/
theorem rti_inner_facts {cs : CharSpec} {i : AInter} {ip : IPad} (hip : ip.ok cs = true)
    {b0 e1 b1 e2 b2 b3 : List Tok} {ti : Tok} (hb0 : Spells b0 ip.b0) (hb3 : Spells b3 ip.b3) (htik : ti.kind = .int)
    (h1 : if i.isSection then (∃ te, e1 = [te] ∧ te.kind = .eq) ∧ Spells b1 ip.b1 else e1 = [] ∧ b1 = [])
    (h2 : if i.relative then (∃ tt, e2 = [tt] ∧ tt.kind = .tilde) ∧ Spells b2 ip.b2 else e2 = [] ∧ b2 = []) :
    (∀ t ∈ b0 ++ e1 ++ b1 ++ e2 ++ b2 ++ [ti] ++ b3, t.kind ≠ .closeParen) ∧
    (b0 ++ e1 ++ b1 ++ e2 ++ b2 ++ [ti] ++ b3).filter (fun t => !(t.kind == .ws || t.kind == .blockComment)) =
      e1 ++ e2 ++ [ti] := by
  simp only [IPad.ok, Bool.and_eq_true] at hip
  obtain ⟨⟨⟨hp0, hp1⟩, hp2⟩, hp3⟩ := hip
  have hb1 : (∀ t ∈ b1, t.kind = .ws ∨ t.kind = .blockComment) ∧
      b1.filter (fun t => !(t.kind == .ws || t.kind == .blockComment)) = [] := by
    split at h1
    · exact ⟨pad_kinds hp1 h1.2, rti_filter_pad hp1 h1.2⟩
    · rw [h1.2]; simp
  have hb2 : (∀ t ∈ b2, t.kind = .ws ∨ t.kind = .blockComment) ∧
      b2.filter (fun t => !(t.kind == .ws || t.kind == .blockComment)) = [] := by
    split at h2
    · exact ⟨pad_kinds hp2 h2.2, rti_filter_pad hp2 h2.2⟩
    · rw [h2.2]; simp
  have he1 : (∀ t ∈ e1, t.kind = .eq) := by
    split at h1
    · obtain ⟨⟨te, rfl, hk⟩, -⟩ := h1; intro t ht; simp at ht; subst ht; exact hk
    · rw [h1.1]; simp
  have he2 : (∀ t ∈ e2, t.kind = .tilde) := by
    split at h2
    · obtain ⟨⟨tt, rfl, hk⟩, -⟩ := h2; intro t ht; simp at ht; subst ht; exact hk
    · rw [h2.1]; simp
  constructor
  · intro t ht
    simp only [List.mem_append, List.mem_singleton] at ht
    rcases ht with (((((ht | ht) | ht) | ht) | ht) | ht) | ht
    · rcases pad_kinds hp0 hb0 t ht with h | h <;> simp [h]
    · simp [he1 t ht]
    · rcases hb1.1 t ht with h | h <;> simp [h]
    · simp [he2 t ht]
    · rcases hb2.1 t ht with h | h <;> simp [h]
    · subst ht; simp [htik]
    · rcases pad_kinds hp3 hb3 t ht with h | h <;> simp [h]
  · simp only [List.filter_append, rti_filter_pad hp0 hb0, rti_filter_pad hp3 hb3, hb1.2, hb2.2, List.nil_append,
      List.append_nil]
    have f1 : e1.filter (fun t => !(t.kind == .ws || t.kind == .blockComment)) = e1 := by
      rw [List.filter_eq_self]; intro t ht; simp [he1 t ht]
    have f2 : e2.filter (fun t => !(t.kind == .ws || t.kind == .blockComment)) = e2 := by
      rw [List.filter_eq_self]; intro t ht; simp [he2 t ht]
    rw [f1, f2]
    simp [htik]

theorem rti_parseInterRef {i : AInter} {ip : IPad} (s : BP α) (hip : ip.ok s.cs = true) (hi : i.ok = true)
    (grp post : List Tok) (hs : Spells grp (spellInter i ip)) :
    parseInterRef (grp ++ post) s = ((some ⟨i.denote, tokensSpan grp⟩, post), s) := by
  obtain ⟨top, b0, e1, b1, e2, b2, ti, b3, tcp, rfl, hopk, hb0, hb3, htik, htit, hcpk, h1, h2⟩ := rti_inter_decomp hs
  obtain ⟨hnocp, hfilter⟩ := rti_inner_facts hip hb0 hb3 htik h1 h2
  generalize hinner : b0 ++ e1 ++ b1 ++ e2 ++ b2 ++ [ti] ++ b3 = inner at hnocp hfilter
  have hidx : (top :: (inner ++ [tcp] ++ post)).findIdx? (fun t => t.kind == .closeParen) = some (inner.length + 1) := by
    have := rt_findIdx_append (fun t : Tok => t.kind == .closeParen) (top :: inner) tcp post
      (by
        intro t ht
        simp only [List.mem_cons] at ht
        rcases ht with rfl | ht
        · simp [hopk]
        · simpa using hnocp t ht)
      (by simp [hcpk])
    simpa using this
  have htake : (top :: (inner ++ [tcp] ++ post)).take (inner.length + 1 + 1) = top :: (inner ++ [tcp]) := by
    rw [← List.cons_append, List.take_left' (by simp)]
  have hdrop : (top :: (inner ++ [tcp] ++ post)).drop (inner.length + 1 + 1) = post := by
    rw [← List.cons_append, List.drop_left' (by simp)]
  have hinn : ((top :: (inner ++ [tcp])).drop 1).take ((top :: (inner ++ [tcp])).length - 2) = inner := by
    simp only [List.drop_succ_cons, List.drop_zero, List.length_cons, List.length_append, List.length_nil]
    rw [show inner.length + (0 + 1) + 1 - 2 = inner.length by omega, List.take_left' rfl]
  have hn : digitsToNat i.digits ≤ 32767 := by simpa [AInter.ok] using hi
  have hne : (top.kind != TK.openParen) = false := by simp [hopk]
  unfold parseInterRef
  simp only [List.cons_append, hne, Bool.false_eq_true, if_false]
  simp only [hidx, htake, hdrop, hinn, hfilter]
  -- the four documented forms
  cases hsec : i.isSection <;> cases hrel : i.relative <;> simp only [hsec, hrel, if_true, Bool.false_eq_true, if_false] at h1 h2
  · obtain ⟨rfl, -⟩ := h1; obtain ⟨rfl, -⟩ := h2
    simp only [List.nil_append, htik, BEq.rfl, if_true, htit, if_pos hn, pure, StateT.pure, AInter.denote, hsec, hrel, htit]
  · obtain ⟨rfl, -⟩ := h1; obtain ⟨⟨tt, rfl, htk⟩, -⟩ := h2
    simp only [List.nil_append, List.cons_append, htik, htk, BEq.rfl, Bool.and_self, if_true, htit, if_pos hn, pure, StateT.pure,
      AInter.denote, hsec, hrel, htit]
  · obtain ⟨⟨te, rfl, hek⟩, -⟩ := h1; obtain ⟨rfl, -⟩ := h2
    have : (TK.eq == TK.tilde) = false := by decide
    simp only [List.nil_append, List.cons_append, List.append_nil, htik, hek, this, BEq.rfl, Bool.and_self,
      Bool.false_and, Bool.false_eq_true, if_false, if_true, htit, if_pos hn, pure, StateT.pure, AInter.denote, hsec, hrel, htit]
  · obtain ⟨⟨te, rfl, hek⟩, -⟩ := h1; obtain ⟨⟨tt, rfl, htk⟩, -⟩ := h2
    simp only [List.nil_append, List.cons_append, htik, hek, htk, BEq.rfl, Bool.and_self, if_true, htit, if_pos hn, pure,
      StateT.pure, AInter.denote, hsec, hrel, htit]

/-! ### `parse_modifiers` with the reference -/

theorem parseModifiersLoop_noand (span : Span) (ie : Bool) (toks : List Tok) :
    ∀ (fuel : Nat) (m : Modifiers) (d : Option (Loc InterData)) (s : BP α),
      (∀ t ∈ toks, modKind t.kind = true ∧ t.kind ≠ .and) → (toks.map (·.kind)).Nodup →
      (∀ t ∈ toks, m.contains (flagOf t.kind) = false) → m.bits < 32 → toks.length + 1 ≤ fuel →
      parseModifiersLoop span ie fuel toks m d s =
        ((toks.foldl (fun m t => m.insert (flagOf t.kind)) m, d), s) := by
  induction toks with
  | nil =>
    intro fuel m d s _ _ _ _ hf
    obtain ⟨f, rfl⟩ : ∃ f, fuel = f + 1 := ⟨fuel - 1, by simp at hf; omega⟩
    unfold parseModifiersLoop
    rfl
  | cons tok rest ih =>
    intro fuel m d s hk hnd hc hb hf
    obtain ⟨f, rfl⟩ : ∃ f, fuel = f + 1 := ⟨fuel - 1, by simp at hf; omega⟩
    unfold parseModifiersLoop
    obtain ⟨hfl, hfl0⟩ := modKind_flag (hk tok (by simp)).1
    simp only [bind, StateT.bind, hfl, pure, StateT.pure]
    have hcf : m.contains (flagOf tok.kind) = false := hc tok (by simp)
    have hnd' : tok.kind ∉ rest.map (·.kind) ∧ (rest.map (·.kind)).Nodup := by
      rw [List.map_cons] at hnd; exact List.nodup_cons.mp hnd
    have hstep := fun j hj => bits_step m.bits hb tok.kind j (hk tok (by simp)).1 hj
    have hrec := ih f (m.insert (flagOf tok.kind)) d s (fun t ht => hk t (by simp [ht])) hnd'.2
      (by
        intro t ht
        have h1 := (hstep t.kind (hk t (by simp [ht])).1).2
        have h2 : (tok.kind == t.kind) = false := by
          rw [beq_eq_false_iff_ne]
          intro he
          exact hnd'.1 (by rw [he]; exact List.mem_map_of_mem ht)
        rw [h2, hc t (by simp [ht])] at h1
        exact h1)
      (hstep tok.kind (hk tok (by simp)).1).1 (by simp at hf ⊢; omega)
    have hna : (tok.kind == TK.and) = false := by simpa using (hk tok (by simp)).2
    simp only [hcf, hna, Bool.false_and, Bool.and_false, Bool.false_eq_true, if_false]
    exact hrec

theorem rti_parseModifiersLoop (span : Span) {i : AInter} {ip : IPad} (hi : i.ok = true) (tand : Tok)
    (grp post : List Tok) (hand : tand.kind = .and) (hs : Spells grp (spellInter i ip)) (pre : List Tok) :
    ∀ (fuel : Nat) (m : Modifiers) (s : BP α), ip.ok s.cs = true →
      (∀ t ∈ pre ++ tand :: post, modKind t.kind = true) → ((pre ++ tand :: post).map (·.kind)).Nodup →
      (∀ t ∈ pre ++ tand :: post, m.contains (flagOf t.kind) = false) → m.bits < 32 →
      (pre ++ tand :: post).length + 1 ≤ fuel →
      parseModifiersLoop span true fuel (pre ++ tand :: (grp ++ post)) m none s =
        (((pre ++ tand :: post).foldl (fun m t => m.insert (flagOf t.kind)) m, some ⟨i.denote, tokensSpan grp⟩), s) := by
  induction pre with
  | nil =>
    intro fuel m s hip hk hnd hc hb hf
    obtain ⟨f, rfl⟩ : ∃ f, fuel = f + 1 := ⟨fuel - 1, by simp at hf; omega⟩
    simp only [List.nil_append] at hk hnd hc hf ⊢
    unfold parseModifiersLoop
    obtain ⟨hfl, hfl0⟩ := modKind_flag (hk tand (by simp))
    simp only [bind, StateT.bind, hfl, pure, StateT.pure]
    have hcf : m.contains (flagOf tand.kind) = false := hc tand (by simp)
    have hnd' : tand.kind ∉ post.map (·.kind) ∧ (post.map (·.kind)).Nodup := by
      rw [List.map_cons] at hnd; exact List.nodup_cons.mp hnd
    have hstep := fun j hj => bits_step m.bits hb tand.kind j (hk tand (by simp)) hj
    have hrec := parseModifiersLoop_noand (α := α) span true post f (m.insert (flagOf tand.kind))
      (some ⟨i.denote, tokensSpan grp⟩) s
      (by
        intro t ht
        refine ⟨hk t (by simp [ht]), ?_⟩
        intro he
        exact hnd'.1 (by rw [hand, ← he]; exact List.mem_map_of_mem ht))
      hnd'.2
      (by
        intro t ht
        have h1 := (hstep t.kind (hk t (by simp [ht]))).2
        have h2 : (tand.kind == t.kind) = false := by
          rw [beq_eq_false_iff_ne]
          intro he
          exact hnd'.1 (by rw [he]; exact List.mem_map_of_mem ht)
        rw [h2, hc t (by simp [ht])] at h1
        exact h1)
      (hstep tand.kind (hk tand (by simp))).1 (by simp at hf ⊢; omega)
    have hpir := rti_parseInterRef (α := α) s hip hi grp post hs
    have hya : (tand.kind == TK.and) = true := by rw [hand]; rfl
    simp only [hcf, hya, Bool.and_true, Bool.and_false, Bool.false_eq_true, if_false, if_true, StateT.bind, hpir,
      List.foldl_cons]
    exact hrec
  | cons tok rest ih =>
    intro fuel m s hip hk hnd hc hb hf
    obtain ⟨f, rfl⟩ : ∃ f, fuel = f + 1 := ⟨fuel - 1, by simp at hf; omega⟩
    simp only [List.cons_append] at hk hnd hc hf ⊢
    unfold parseModifiersLoop
    obtain ⟨hfl, hfl0⟩ := modKind_flag (hk tok (by simp))
    simp only [bind, StateT.bind, hfl, pure, StateT.pure]
    have hcf : m.contains (flagOf tok.kind) = false := hc tok (by simp)
    have hnd' : tok.kind ∉ (rest ++ tand :: post).map (·.kind) ∧ ((rest ++ tand :: post).map (·.kind)).Nodup := by
      rw [List.map_cons] at hnd; exact List.nodup_cons.mp hnd
    have hstep := fun j hj => bits_step m.bits hb tok.kind j (hk tok (by simp)) hj
    have hrec := ih f (m.insert (flagOf tok.kind)) s hip (fun t ht => hk t (by simp [ht])) hnd'.2
      (by
        intro t ht
        have h1 := (hstep t.kind (hk t (by simp [ht]))).2
        have h2 : (tok.kind == t.kind) = false := by
          rw [beq_eq_false_iff_ne]
          intro he
          exact hnd'.1 (by rw [he]; exact List.mem_map_of_mem ht)
        rw [h2, hc t (by simp [ht])] at h1
        exact h1)
      (hstep tok.kind (hk tok (by simp))).1 (by simp at hf ⊢; omega)
    have hna : (tok.kind == TK.and) = false := by
      rw [beq_eq_false_iff_ne]
      intro he
      exact hnd'.1 (by rw [he, ← hand]; exact List.mem_map_of_mem (by simp))
    simp only [hcf, hna, Bool.false_and, Bool.and_false, Bool.false_eq_true, if_false, List.foldl_cons]
    exact hrec

theorem Spells.spellMods_kinds {mt : List Tok} {mods : List TK} (h : Spells mt (spellMods mods)) :
    mt.map (·.kind) = mods := by
  have := h.kinds
  simpa [spellMods, tk, List.map_map, Function.comp_def] using this

theorem rti_parseModifiers (pre post : List TK) {i : AInter} {ip : IPad} (tpre : List Tok) (tand : Tok)
    (grp tpost : List Tok) (pos : Nat) (s : BP α)
    (hpre : Spells tpre (spellMods pre)) (hand : tand.kind = .and) (hgrp : Spells grp (spellInter i ip))
    (hpost : Spells tpost (spellMods post))
    (hk : (pre ++ .and :: post).all modKind = true) (hnd : (pre ++ .and :: post).Nodup)
    (hie : s.ext.has Gen.EXT_INTERMEDIATE_PREPARATIONS = true) (hip : ip.ok s.cs = true) (hi : i.ok = true) :
    ∃ span span', parseModifiers (tpre ++ tand :: (grp ++ tpost)) pos s =
      (⟨⟨modsOf (pre ++ .and :: post), span⟩, some ⟨i.denote, span'⟩⟩, s) := by
  have hkinds : (tpre ++ tand :: tpost).map (·.kind) = pre ++ .and :: post := by
    simp only [List.map_append, List.map_cons, hpre.spellMods_kinds, hpost.spellMods_kinds, hand]
  have hall : ∀ t ∈ tpre ++ tand :: tpost, modKind t.kind = true := by
    intro t ht
    rw [List.all_eq_true] at hk
    exact hk t.kind (by rw [← hkinds]; exact List.mem_map_of_mem ht)
  have hne : (tpre ++ tand :: (grp ++ tpost)).isEmpty = false := by
    cases tpre <;> rfl
  have hl := rti_parseModifiersLoop (α := α) (tokensSpan (tpre ++ tand :: (grp ++ tpost))) hi tand grp tpost hand hgrp tpre
    ((tpre ++ tand :: (grp ++ tpost)).length + 1) Modifiers.empty s hip hall (by rw [hkinds]; exact hnd)
    (by
      intro t ht
      have := hall t ht
      cases hkt : t.kind <;> simp [modKind, hkt] at this <;> decide)
    (by decide) (by simp only [List.length_append, List.length_cons]; omega)
  unfold parseModifiers
  simp only [hne, Bool.false_eq_true, if_false, bind, StateT.bind, hasExt_run, hie, hl, pure, StateT.pure]
  refine ⟨tokensSpan (tpre ++ tand :: (grp ++ tpost)), tokensSpan grp, ?_⟩
  congr 3
  unfold modsOf
  rw [← hkinds, List.foldl_map]
  rfl

/-! ### the ingredient -/

/-- as `IngrMatches`, with the intermediate reference -/
def IngrMatchesI (cs : CharSpec) (mods : List TK) (i : AInter) (c : AComp) (ing : PIngredient α) : Prop :=
  ing.name.trimmed cs = leafText c.name ∧ ing.alias.map (fun t => t.trimmed cs) = c.alias.map leafText ∧
  ing.note.map (fun t => t.trimmed cs) = c.note.map leafText ∧ ing.modifiers.val = modsOf mods ∧
  ing.inter.map (·.val) = some i.denote ∧ QtyMatches cs c.qty ing.quantity

theorem rti_isModifierTok_of {k : TK} (h : modKind k = true) (hne : k ≠ .and) : isModifierTok k = true := by
  rcases modKind_cases h with h | h
  · exact h
  · exact absurd h hne

theorem rt_ingredientP_inter (pre post : List TK) (i : AInter) (ip : IPad) (c : AComp) (p : CPad) (s : BP α)
    (hwf : wfInter s.cs s.ext pre post i c = true) (hip : ip.ok s.cs = true) (hp : p.ok s.cs = true)
    (A ts rest : List Tok) (hs : Spells ts (spellIngredientI pre post i ip c p)) (ht : s.toks = A ++ (ts ++ rest))
    (hc : s.cur = A.length) (hrest : restOK c rest = true) (hrun : RunAt (baseOff s.toks) s.toks) :
    ∃ ing : PIngredient α,
      ingredientP s = (some (.ingredient ⟨ing, ⟨offAt s.toks A.length, offAt s.toks (A.length + ts.length)⟩⟩),
        { s with cur := A.length + ts.length }) ∧ IngrMatchesI s.cs (pre ++ .and :: post) i c ing := by
  simp only [wfInter, Bool.and_eq_true, decide_eq_true_eq] at hwf
  obtain ⟨⟨⟨⟨⟨⟨hcwf, hcm⟩, hmext⟩, hiext⟩, hmk⟩, hmnd⟩, hi⟩ := hwf
  have hcm' : c.mods = [] := by simpa using hcm
  simp only [Ext.modifiers] at hmext
  -- the tokens
  simp only [spellIngredientI, List.append_assoc, List.cons_append, List.nil_append] at hs
  obtain ⟨tm, r, rfl, htmk, -, hs⟩ := hs.cons_inv
  obtain ⟨tpre, r, rfl, hpre, hs⟩ := hs.append_inv
  obtain ⟨tand, r, rfl, handk, -, hs⟩ := hs.cons_inv
  obtain ⟨grp, r, rfl, hgrp, hs⟩ := hs.append_inv
  obtain ⟨tpost, body, rfl, hpost, hbody⟩ := hs.append_inv
  simp only [tk] at htmk handk
  obtain ⟨top, b0, e1, b1, e2, b2, ti, b3, tcp, hgrpeq, hopk, hb0, hb3, htik, htit, hcpk, hh1, hh2⟩ := rti_inter_decomp hgrp
  obtain ⟨hnocp, -⟩ := rti_inner_facts hip hb0 hb3 htik hh1 hh2
  generalize hinner : b0 ++ e1 ++ b1 ++ e2 ++ b2 ++ [ti] ++ b3 = inner at hnocp hgrpeq
  -- kinds of the modifier tokens
  have hkpre := hpre.spellMods_kinds
  have hkpost := hpost.spellMods_kinds
  have hmkall : ∀ k ∈ pre ++ .and :: post, modKind k = true := by
    rw [List.all_eq_true] at hmk; exact hmk
  have hpreT : ∀ m ∈ tpre, isModifierTok m.kind = true := by
    intro m hm
    have hin : m.kind ∈ pre := by rw [← hkpre]; exact List.mem_map_of_mem hm
    apply rti_isModifierTok_of (hmkall _ (by simp [hin]))
    intro he
    rw [he] at hin
    have := (List.nodup_append.mp hmnd).2.2 TK.and hin TK.and (by simp)
    exact this rfl
  have hpostT : ∀ m ∈ tpost, modKind m.kind = true := by
    intro m hm
    have hin : m.kind ∈ post := by rw [← hkpost]; exact List.mem_map_of_mem hm
    exact hmkall _ (by simp [hin])
  -- the body as a spelling with the last modifier token as "marker"
  obtain ⟨init, tlast, hmtX⟩ : ∃ init tlast, tpre ++ tand :: (grp ++ tpost) = init ++ [tlast] := by
    have hne : tpre ++ tand :: (grp ++ tpost) ≠ [] := by simp
    exact ⟨_, _, (List.dropLast_concat_getLast hne).symm⟩
  have hsb : Spells (tlast :: body) (spellComp tlast c p) := by
    simp only [spellComp, hcm', spellMods, List.map_nil, List.append_nil, List.append_assoc, List.cons_append,
      List.nil_append]
    have h0 : Spells [tlast] [tlast] := rfl
    have := h0.append hbody
    simpa using this
  have e0 : s.toks = A ++ tm :: ((tpre ++ tand :: (grp ++ tpost)) ++ (body ++ rest)) := by rw [ht]; simp
  have e0' : s.toks = (A ++ tm :: init) ++ ((tlast :: body) ++ rest) := by rw [e0, hmtX]; simp
  obtain ⟨tm', mt', nameT, Q, tob, tcb, name, alias, note, c2, c3, -, h2', h3, h4, h5, hnameNE, hnameT, haliasT, hnoteT,
    hmt', hQ, -, hrunQ, hQany⟩ := rt_comp_steps tlast.kind tlast rfl c p ({ s with cur := (A ++ tm :: init).length } : BP α)
      hcwf hp (A ++ tm :: init) (tlast :: body) rest hsb e0' rfl hrest hrun
  -- the head of the body is the head of the name
  have hwf' := hcwf
  simp only [AComp.wf, Bool.and_eq_true] at hwf'
  obtain ⟨⟨⟨⟨⟨⟨⟨⟨hname, -⟩, -⟩, -⟩, hmhead⟩, -⟩, -⟩, -⟩, hqty⟩ := hwf'
  obtain ⟨u, ur, hu, hau⟩ := (leafOK_facts hname).head
  obtain ⟨x, R, hbx, hxk⟩ : ∃ x R, body = x :: R ∧ x.kind = u.kind := by
    rw [hu] at hbody
    simp only [List.append_assoc, List.cons_append] at hbody
    obtain ⟨x, R, rfl, hk, -, -⟩ := hbody.cons_inv
    exact ⟨x, R, rfl, hk⟩
  have hxmod : modKind x.kind = false := by
    simp only [Ext.modifiers, hmext, Bool.not_true, Bool.false_or, hu, List.head?_cons, Option.all_some] at hmhead
    rw [hxk]; simpa using hmhead
  have hxp : x.kind ≠ .openParen := by
    rw [hxk]; exact (nameKind_excl (Or.inl (isAtomTok_facts hau).1)).2.1
  -- `modifiers()`
  have h1 := consumeK_split_some .at s A tm _ e0 hc htmk
  have h2 := rti_modifiersP ({ s with cur := A.length + 1 } : BP α) hmext hiext (A ++ [tm]) tpre tand top inner tcp tpost x
    (R ++ rest) (by rw [e0, hgrpeq, hbx]; simp) (by simp) hpreT handk hopk hnocp hcpk hpostT hxmod hxp
  have hG : tpre ++ tand :: top :: (inner ++ tcp :: tpost) = tpre ++ tand :: (grp ++ tpost) := by
    rw [hgrpeq]; simp
  rw [hG] at h2
  -- the cursor after the modifiers is the one `rt_comp_steps` starts the body at
  have hdir := modifiersP_on ({ s with cur := (A ++ tm :: init).length + 1 } : BP α) hmext (A ++ tm :: init ++ [tlast]) []
    x (R ++ rest) (by rw [e0', hbx]; simp) (by lenarith) (by intro m hm; simp at hm) hxmod hxp
  have hc2 : c2 = (A ++ [tm]).length + (tpre ++ tand :: (grp ++ tpost)).length := by
    have := congrArg (fun r => r.2.cur) (h2'.symm.trans hdir)
    simp only at this
    rw [this, hmtX]
    simp only [List.length_append, List.length_cons, List.length_nil]; omega
  rw [hc2] at h3 h5
  have hfin : (A ++ tm :: init).length + (tlast :: body).length =
      A.length + (tm :: (tpre ++ tand :: (grp ++ (tpost ++ body)))).length := by
    have := congrArg List.length hmtX
    simp only [List.length_append, List.length_cons, List.length_nil] at this ⊢
    omega
  rw [hfin] at h4 h5
  obtain ⟨mspan, ispan, hpm⟩ := rti_parseModifiers (α := α) pre post tpre tand grp tpost (offAt s.toks (A.length + 1))
    ({ s with cur := A.length + (tm :: (tpre ++ tand :: (grp ++ (tpost ++ body)))).length } : BP α) hpre handk hgrp hpost
    hmk hmnd hiext hip hi
  have hce := checkEmptyName_run "ingredient" name
    ({ s with cur := A.length + (tm :: (tpre ++ tand :: (grp ++ (tpost ++ body)))).length } : BP α) hnameNE
  unfold ingredientP
  simp only [bind, StateT.bind, currentOffset_run, h1, h2, h3, h4, h5, hce, hpm, hQany]
  cases hcq : c.qty with
  | none =>
    simp only [Option.isSome_none, Bool.false_eq_true, if_false, pure, StateT.pure, hc]
    refine ⟨_, rfl, ?_⟩
    refine ⟨hnameT, haliasT, hnoteT, rfl, rfl, ?_⟩
    rw [hcq]; trivial
  | some q =>
    rw [hcq] at hQ hqty
    simp only [Bool.and_eq_true, Bool.or_eq_true, Bool.not_eq_true'] at hqty
    simp only [CPad.ok, Bool.and_eq_true] at hp
    obtain ⟨vspan, lspan, unitT, sep, hpq', hl, hunit, hsep⟩ := rt_parseQuantity q p.q
      ({ s with cur := A.length + (tm :: (tpre ++ tand :: (grp ++ (tpost ++ body)))).length } : BP α) hqty.1.1 hp.1.2
      (by intro hr; rcases hqty.1.2 with h | h; · rw [hr] at h; cases h
          · exact h)
      (by intro ha; rcases hqty.2 with h | h; · rw [ha] at h; cases h
          · exact h)
      Q hQ hrunQ
    simp only [Option.isSome_some, if_true, StateT.bind, hpq', pure, StateT.pure, hc]
    refine ⟨_, rfl, ?_⟩
    refine ⟨hnameT, haliasT, hnoteT, rfl, rfl, ?_⟩
    rw [hcq]
    exact ⟨rfl, hl, hunit⟩

end Cook
