import CookModel.Lemmas.ExtLawsAnalysisFull
import CookModel.Lemmas.ExtLawsSingle
/-
  C02, locality of the extension flags for the WHOLE `parse` (`parseRecipe` = pull parser + analysis).

  * the analysis pass depends on the extension set only through MODES, INLINE_QUANTITIES and
    ADVANCED_UNITS, for ALL event lists (`c02lift_parseEvents_flags_only`);
  * mixed form for the analysis: for every analysis flag outside `G` an event-level clause says that
    the construct it reinterprets does not occur (`evLocalB`), extension sets that agree on `G` give
    the same analysis result (`c02lift_parseEvents_local`);
  * the block-level locality of the parser (`runBlock_local`) and the analysis part combined:
    `c02lift_parseRecipe_local`.
-/
set_option linter.unusedSectionVars false
set_option linter.unusedSimpArgs false
set_option linter.unusedVariables false
namespace Cook

variable {α : Type} [Arith α]

/-- the three flags the analysis pass reads -/
def analysisFlags : List Nat := [Gen.EXT_MODES, Gen.EXT_INLINE_QUANTITIES, Gen.EXT_ADVANCED_UNITS]

/-- the eight flags: the seven the parser reads and INLINE_QUANTITIES -/
def allFlags : List Nat := Gen.EXT_INLINE_QUANTITIES :: parserFlags

/-- all flags except those of `fs` -/
def otherFlagsAll (fs : List Nat) : List Nat := allFlags.filter (fun g => !fs.contains g)

@[simp] theorem c02lift_withExt_findUnit (env : Env) (e : Ext) : (env.withExt e).findUnit = env.findUnit := rfl
@[simp] theorem c02lift_withExt_stdCheck (env : Env) (e : Ext) : (env.withExt e).stdCheck = env.stdCheck := rfl
@[simp] theorem c02lift_withExt_fold (env : Env) (e : Ext) : (env.withExt e).fold = env.fold := rfl
@[simp] theorem c02lift_withExt_timeQ (env : Env) (e : Ext) : (env.withExt e).timeQ = env.timeQ := rfl
theorem c02lift_withExt_withExt (env : Env) (e e' : Ext) : (env.withExt e).withExt e' = env.withExt e' := rfl
theorem c02lift_withExt_self (env : Env) : env.withExt env.ext = env := rfl

theorem AgreeOn.symm {G : List Nat} {e e' : Ext} (h : AgreeOn G e e') : AgreeOn G e' e :=
  fun g hg => (h g hg).symm

theorem AgreeOn.mono {G G' : List Nat} {e e' : Ext} (h : AgreeOn G e e') (hs : ∀ g ∈ G', g ∈ G) : AgreeOn G' e e' :=
  fun g hg => h g (hs g hg)

/-! ### the analysis reads three flags only -/

theorem c02lift_inlineLoop_withExt (env : Env) (e : Ext) (fuel : Nat) (hay : Str) (items : List Item)
    (iq : Array (Quantity (Value α))) :
    inlineLoop (env.withExt e) fuel hay items iq = inlineLoop env fuel hay items iq := by
  induction fuel generalizing hay items iq with
  | zero => rfl
  | succ fuel ih =>
    unfold inlineLoop
    rw [findInlineQuantity_withExt]
    cases findInlineQuantity (α := α) env (hay.length + 1) [] hay with
    | none => rfl
    | some hit => exact ih _ _ _

theorem c02lift_inStepTextStep_agree (env : Env) (e : Ext)
    (h : e.has Gen.EXT_INLINE_QUANTITIES = env.ext.has Gen.EXT_INLINE_QUANTITIES) (t : Text) (items : List Item) :
    inStepTextStep (α := α) (env.withExt e) t items = inStepTextStep env t items := by
  unfold inStepTextStep
  simp only [Env.withExt_ext, Env.withExt_cs, h, c02lift_inlineLoop_withExt]
  rfl

theorem c02lift_metadataA_agree (env : Env) (e : Ext) (h : e.has Gen.EXT_MODES = env.ext.has Gen.EXT_MODES)
    (k v : Text) : metadataA (α := α) (env.withExt e) k v = metadataA env k v := by
  unfold metadataA
  simp only [Env.withExt_ext, Env.withExt_cs, c02lift_withExt_stdCheck, h]
  rfl

theorem c02lift_processEvent_agree (env : Env) (e : Ext) (ha : AgreeOn analysisFlags e env.ext) (input : Str)
    (ev : Ev α) : processEvent (env.withExt e) input ev = processEvent env input ev := by
  have hmodes : e.has Gen.EXT_MODES = env.ext.has Gen.EXT_MODES := ha _ (by decide)
  have hinl : e.has Gen.EXT_INLINE_QUANTITIES = env.ext.has Gen.EXT_INLINE_QUANTITIES := ha _ (by decide)
  have hadv : e.has Gen.EXT_ADVANCED_UNITS = env.ext.has Gen.EXT_ADVANCED_UNITS := ha _ (by decide)
  cases ev <;> first
    | rfl
    | (unfold processEvent; exact inBlockComponent_ext env e hadv input _)
    | (unfold processEvent; exact c02lift_metadataA_agree env e hmodes _ _)
    | (unfold processEvent inStepText
       simp only [c02lift_inStepTextStep_agree env e hinl])

theorem c02lift_parseEventsLoop_agree (env : Env) (e : Ext) (ha : AgreeOn analysisFlags e env.ext) (input : Str)
    (evs : List (Ev α)) (s : Col α) :
    parseEventsLoop (env.withExt e) input evs s = parseEventsLoop env input evs s := by
  induction evs generalizing s with
  | nil => rfl
  | cons ev rest ih =>
    have hp := c02lift_processEvent_agree env e ha input ev
    cases ev <;> first
      | rfl
      | (simp only [parseEventsLoop]; rw [hp]; exact ih _)

/-- the analysis pass depends on the extension set only through MODES, INLINE_QUANTITIES and
    ADVANCED_UNITS: ALL event lists -/
theorem c02lift_parseEvents_flags_only (env : Env) (e : Ext) (ha : AgreeOn analysisFlags e env.ext) (input : Str)
    (evs : List (Ev α)) : parseEvents (env.withExt e) input evs = parseEvents env input evs :=
  c02lift_parseEventsLoop_agree env e ha input evs {}

/-! ### the mixed form: each analysis flag agrees or its construct is absent -/

/-- no `>>` entry of the event has a `[…]` key -/
def evNoBracket (cs : CharSpec) : Ev α → Bool
  | .metadata k _ => !bracketedKey cs k
  | _ => true

/-- the event-level clauses, one per analysis flag outside `G`; `nb` = no event of the whole list
    has a `[…]` key (so that the collector stays in its default modes):
    * MODES: the `>>` key is not `[…]`;
    * INLINE_QUANTITIES: the text is not empty and the finder finds nothing in it;
    * ADVANCED_UNITS: a timer has a numeric value and a time unit; an ingredient has no quantity, or
      is an intermediate reference, or (default modes) has no `&` modifier -/
def evLocalB (α : Type) [Arith α] (G : List Nat) (env : Env) (nb : Bool) : Ev α → Bool
  | .metadata k _ => decide (Gen.EXT_MODES ∈ G) || !bracketedKey env.cs k
  | .text t => decide (Gen.EXT_INLINE_QUANTITIES ∈ G) || textCoreX α env t
  | .timer t => decide (Gen.EXT_ADVANCED_UNITS ∈ G) || timerCoreX env t.val
  | .ingredient i => decide (Gen.EXT_ADVANCED_UNITS ∈ G) || i.val.quantity.isNone || i.val.inter.isSome ||
      (nb && !i.val.modifiers.val.contains Modifiers.REF)
  | _ => true

/-- the clause for a whole event list -/
def evsLocalB (α : Type) [Arith α] (G : List Nat) (env : Env) (evs : List (Ev α)) : Bool :=
  evs.all (evLocalB α G env (evs.all (evNoBracket env.cs)))

theorem c02lift_textCoreX_withExt (env : Env) (e : Ext) (t : Text) :
    textCoreX α (env.withExt e) t = textCoreX α env t := by
  unfold textCoreX
  rw [findInlineQuantity_withExt]

theorem c02lift_evLocalB_withExt (G : List Nat) (env : Env) (e : Ext) (nb : Bool) (ev : Ev α) :
    evLocalB α G (env.withExt e) nb ev = evLocalB α G env nb ev := by
  cases ev <;> first
    | rfl
    | (simp only [evLocalB, c02lift_textCoreX_withExt])

theorem c02lift_evsLocalB_withExt (G : List Nat) (env : Env) (e : Ext) (evs : List (Ev α)) :
    evsLocalB α G (env.withExt e) evs = evsLocalB α G env evs := by
  unfold evsLocalB
  have : ∀ nb, evLocalB α G (env.withExt e) nb = evLocalB α G env nb :=
    fun nb => funext (c02lift_evLocalB_withExt G env e nb)
  simp only [this, Env.withExt_cs]

theorem c02lift_ingrRegular_noq (env : Env) (e : Ext) (input : Str) (li : Loc (PIngredient α))
    (igr0 : Ingredient (ScalableValue α)) (s : Col α) (h : igr0.quantity = none) :
    ingrRegular (env.withExt e) input li igr0 s = ingrRegular env input li igr0 s := by
  unfold ingrRegular
  simp only [A_bind, A_get, resolveReference_ext]
  cases (resolveReference env "ingredient" (Modifiers.HIDDEN ||| Modifiers.OPT ||| Modifiers.RECIPE)
    (s.ingredients.toList.map (fun x => (x.name, x.modifiers))) igr0.name igr0.modifiers li.span
    li.val.modifiers.span s).1.2 with
  | none => rfl
  | some o =>
    simp only [ingrRefChecks_ext_noq, h]

theorem c02lift_ingredientA_local (env : Env) (e : Ext) (input : Str) (li : Loc (PIngredient α)) (s : Col α)
    (h : li.val.quantity = none ∨ li.val.inter ≠ none ∨
      (ModesDefault s ∧ li.val.modifiers.val.contains Modifiers.REF = false)) :
    ingredientA (env.withExt e) input li s = ingredientA env input li s := by
  rcases h with h | h | ⟨hm, h⟩
  · unfold ingredientA ingrBuild
    simp only [optQuantityOf_ext, Env.withExt_cs, A_bind, A_get]
    cases hi : li.val.inter with
    | some d => rfl
    | none =>
      dsimp only
      rw [c02lift_ingrRegular_noq env e input li]
      show (optQuantityOf env li.val.quantity true s).1 = none
      rw [h]
      rfl
  · unfold ingredientA ingrBuild
    simp only [optQuantityOf_ext, Env.withExt_cs, A_bind, A_get]
    cases hi : li.val.inter with
    | some d => rfl
    | none => exact absurd hi h
  · exact ingredientA_extX env e input li s hm (by unfold ingrCoreX; rw [h]; rfl)

/-- one event: every analysis flag agrees or the event does not carry its construct -/
theorem c02lift_processEvent_local (G : List Nat) (env : Env) (e : Ext) (ha : AgreeOn G e env.ext) (input : Str)
    (nb : Bool) (ev : Ev α) (s : Col α) (hm : nb = true → ModesDefault s) (h : evLocalB α G env nb ev = true) :
    processEvent (env.withExt e) input ev s = processEvent env input ev s := by
  cases ev with
  | metadata k v =>
    show metadataA (env.withExt e) k v s = metadataA env k v s
    simp only [evLocalB, Bool.or_eq_true, decide_eq_true_eq, Bool.not_eq_true'] at h
    rcases h with h | h
    · rw [c02lift_metadataA_agree env e (ha _ h)]
    · rw [metadataA_ext env e _ _ h]
  | text t =>
    show inStepText (env.withExt e) t s = inStepText env t s
    unfold inStepText
    simp only [evLocalB, Bool.or_eq_true, decide_eq_true_eq] at h
    rcases h with h | h
    · simp only [c02lift_inStepTextStep_agree env e (ha _ h)]
    · simp only [inStepTextStep_extX env e _ _ h]
  | ingredient li =>
    simp only [evLocalB, Bool.or_eq_true, decide_eq_true_eq, Bool.and_eq_true, Bool.not_eq_true',
      Option.isNone_iff_eq_none] at h
    show inBlockComponent (env.withExt e) input (.ingredient li) s = inBlockComponent env input (.ingredient li) s
    have key : ingredientA (env.withExt e) input li s = ingredientA env input li s := by
      rcases h with ((h | h) | h) | h
      · rw [ingredientA_ext env e (ha _ h)]
      · exact c02lift_ingredientA_local env e input li s (Or.inl h)
      · refine c02lift_ingredientA_local env e input li s (Or.inr (Or.inl ?_))
        intro hn; rw [hn] at h; cases h
      · exact c02lift_ingredientA_local env e input li s (Or.inr (Or.inr ⟨hm h.1, h.2⟩))
    unfold inBlockComponent
    rw [A_bind, A_bind, A_get]
    cases hb : s.block with
    | none => rfl
    | some b =>
      cases b with
      | text t => rfl
      | step items =>
        show ((ingredientA (env.withExt e) input li >>= fun idx => pushItem (.ingredient idx)) s) =
          ((ingredientA env input li >>= fun idx => pushItem (.ingredient idx)) s)
        rw [A_bind, A_bind, key]
  | cookware lc =>
    show inBlockComponent (env.withExt e) input (.cookware lc) s = inBlockComponent env input (.cookware lc) s
    unfold inBlockComponent inStepComponent
    simp only [cookwareA_ext]
  | timer lt =>
    simp only [evLocalB, Bool.or_eq_true, decide_eq_true_eq] at h
    show inBlockComponent (env.withExt e) input (.timer lt) s = inBlockComponent env input (.timer lt) s
    unfold inBlockComponent inStepComponent
    rcases h with h | h
    · simp only [timerA_ext env e (ha _ h)]
    · simp only [timerA_extX env e lt h]
  | _ => rfl

/-- the default modes are kept by every event whose `>>` key (if it is a `>>` entry) is not `[…]` -/
theorem c02lift_processEvent_modes (env : Env) (input : Str) (ev : Ev α) (s : Col α)
    (hm : ModesDefault s) (h : evNoBracket env.cs ev = true) :
    ModesDefault (processEvent env input ev s).2 := by
  cases ev with
  | metadata k v =>
    show ModesDefault (metadataA env k v s).2
    simp only [evNoBracket, Bool.not_eq_true'] at h
    rw [metadataA_plain env k v (by rw [h, Bool.and_false])]
    exact hm.of_modes ((modes_metadataPlain env k v).out s)
  | text t => exact hm.of_modes ((modes_inStepText env t).out s)
  | ingredient li => exact hm.of_modes ((modes_inBlockComponent env input _).out s)
  | cookware lc => exact hm.of_modes ((modes_inBlockComponent env input _).out s)
  | timer lt => exact hm.of_modes ((modes_inBlockComponent env input _).out s)
  | stop k => exact hm.of_modes ((modes_endBlock k).out s)
  | _ => exact hm

theorem c02lift_parseEventsLoop_local (G : List Nat) (env : Env) (e : Ext) (ha : AgreeOn G e env.ext) (input : Str)
    (nb : Bool) (evs : List (Ev α)) (hnb : nb = true → evs.all (evNoBracket env.cs) = true)
    (h : evs.all (evLocalB α G env nb) = true) (s : Col α) (hm : nb = true → ModesDefault s) :
    parseEventsLoop (env.withExt e) input evs s = parseEventsLoop env input evs s := by
  induction evs generalizing s with
  | nil => rfl
  | cons ev rest ih =>
    simp only [List.all_cons, Bool.and_eq_true] at h hnb
    have hp := c02lift_processEvent_local G env e ha input nb ev s hm h.1
    have hm' : nb = true → ModesDefault (processEvent env input ev s).2 :=
      fun hn => c02lift_processEvent_modes env input ev s (hm hn) (hnb hn).1
    cases ev <;> first
      | rfl
      | (simp only [parseEventsLoop]; rw [hp]; exact ih (fun hn => (hnb hn).2) h.2 _ hm')

/-- the analysis pass, mixed form: two extension sets that agree on `G` give the same result on an
    event list that satisfies the clause of every analysis flag outside `G` -/
theorem c02lift_parseEvents_local (G : List Nat) (env : Env) (e : Ext) (ha : AgreeOn G e env.ext) (input : Str)
    (evs : List (Ev α)) (h : evsLocalB α G env evs = true) :
    parseEvents (env.withExt e) input evs = parseEvents env input evs :=
  c02lift_parseEventsLoop_local G env e ha input _ evs (fun hn => hn) h {} (fun _ => ModesDefault.init)

/-! ### the parser part on whole inputs, and `parse` -/

/-- Boolean form of `LocalTo` (for `AllBlocksOf`) -/
def localToB (G : List Nat) (cs : CharSpec) (ts : List Tok) : Bool :=
  ((decide (Gen.EXT_COMPONENT_MODIFIERS ∈ G) && (decide (Gen.EXT_INTERMEDIATE_PREPARATIONS ∈ G) || interCore ts)) ||
    modsCore ts) &&
  (decide (Gen.EXT_COMPONENT_ALIAS ∈ G) || aliasCore ts) &&
  (decide (Gen.EXT_RANGE_VALUES ∈ G) || rangeCore ts) &&
  (decide (Gen.EXT_ADVANCED_UNITS ∈ G) || advCore ts) &&
  (decide (Gen.EXT_TIMER_REQUIRES_TIME ∈ G) || timerCore ts) &&
  (decide (Gen.EXT_MODES ∈ G) || metaKeyCore cs ts)

theorem c02lift_localTo_of_bool {G : List Nat} {cs : CharSpec} {ts : List Tok} (h : localToB G cs ts = true) :
    LocalTo G cs ts := by
  unfold localToB at h
  simp only [Bool.and_eq_true, Bool.or_eq_true, decide_eq_true_eq] at h
  obtain ⟨⟨⟨⟨⟨h1, h2⟩, h3⟩, h4⟩, h5⟩, h6⟩ := h
  exact ⟨h1, h2, h3, h4, h5, h6⟩

/-- the event stream of the pull parser: locality on whole inputs -/
theorem c02lift_pullEvents_local (G : List Nat) (cs : CharSpec) (e₁ e₂ : Ext) (input : List Char)
    (ha : AgreeOn G e₁ e₂) (hb : AllBlocksOf cs input (localToB G cs) = true) :
    pullEvents (α := α) cs e₁ input = pullEvents cs e₂ input :=
  pullEvents_congr cs e₁ e₂ input _ hb
    (fun oldStyle b hb evs p => runBlock_local cs e₁ e₂ oldStyle b evs p ha (c02lift_localTo_of_bool hb))

/-- `parse`: for every flag outside `G` its construct is absent from the blocks (parser flags) and
    from the events (analysis flags); extension sets that agree on `G` give the same full result -/
theorem c02lift_parseRecipe_local (G : List Nat) (env : Env) (e : Ext) (input : Str)
    (ha : AgreeOn G e env.ext) (hb : AllBlocksOf env.cs input (localToB G env.cs) = true)
    (hev : evsLocalB α G env (pullEvents (α := α) env.cs env.ext input).1.toList = true) :
    parseRecipe (α := α) (env.withExt e) input = parseRecipe env input := by
  unfold parseRecipe
  simp only [Env.withExt_cs, Env.withExt_ext]
  rw [c02lift_pullEvents_local G env.cs e env.ext input ha hb, c02lift_parseEvents_local G env e ha input _ hev]

/-- symmetric form: any two extension sets that agree on `G` -/
theorem c02lift_parseRecipe_local_two (G : List Nat) (env : Env) (e₁ e₂ : Ext) (input : Str)
    (ha : AgreeOn G e₁ e₂) (hb : AllBlocksOf env.cs input (localToB G env.cs) = true)
    (hev : evsLocalB α G env (pullEvents (α := α) env.cs e₂ input).1.toList = true) :
    parseRecipe (α := α) (env.withExt e₁) input = parseRecipe (env.withExt e₂) input := by
  have := c02lift_parseRecipe_local (α := α) G (env.withExt e₂) e₁ input ha hb
    (by rw [c02lift_evsLocalB_withExt]; exact hev)
  exact this

/-! ### membership facts for the concrete flag lists -/

theorem c02lift_mem_otherFlagsAll {fs : List Nat} {g : Nat} (hg : g ∈ allFlags) (hn : g ∉ fs) :
    g ∈ otherFlagsAll fs := by
  unfold otherFlagsAll
  rw [List.mem_filter]
  refine ⟨hg, ?_⟩
  simp only [Bool.not_eq_true', List.contains_eq_mem, decide_eq_false_iff_not]
  exact hn

theorem c02lift_localToB_of {G : List Nat} {cs : CharSpec} {ts : List Tok} (h : LocalTo G cs ts) :
    localToB G cs ts = true := by
  obtain ⟨h1, h2, h3, h4, h5, h6⟩ := h
  unfold localToB
  simp only [Bool.and_eq_true, Bool.or_eq_true, decide_eq_true_eq]
  exact ⟨⟨⟨⟨⟨h1, h2⟩, h3⟩, h4⟩, h5⟩, h6⟩

theorem c02lift_allBlocksOf_mono (cs : CharSpec) (input : List Char) (P Q : List Tok → Bool)
    (h : ∀ b, P b = true → Q b = true) (hp : AllBlocksOf cs input P = true) : AllBlocksOf cs input Q = true := by
  unfold AllBlocksOf at *
  rw [List.all_eq_true] at *
  exact fun b hb => h b (hp b hb)

theorem c02lift_allBlocksOf_true (cs : CharSpec) (input : List Char) : AllBlocksOf cs input (fun _ => true) = true := by
  unfold AllBlocksOf
  simp

/-! ### the event clauses of the single analysis flags -/

/-- INLINE_QUANTITIES: a step text is not empty and the finder finds nothing in it -/
def inlineEvCore (α : Type) [Arith α] (env : Env) : Ev α → Bool
  | .text t => textCoreX α env t
  | _ => true

/-- ADVANCED_UNITS: a timer has a numeric value and a time unit (or no unit, or no quantity); an
    ingredient has no quantity, or is an intermediate reference, or — when no `>>` key of the event
    list is `[…]` (`nb`) — has no `&` modifier -/
def advEvCore (env : Env) (nb : Bool) : Ev α → Bool
  | .timer t => timerCoreX env t.val
  | .ingredient i => i.val.quantity.isNone || i.val.inter.isSome || (nb && !i.val.modifiers.val.contains Modifiers.REF)
  | _ => true

section clauses
variable {G : List Nat} (env : Env) (nb : Bool) (ev : Ev α)

theorem c02lift_evLocalB_all (h1 : Gen.EXT_MODES ∈ G) (h2 : Gen.EXT_INLINE_QUANTITIES ∈ G)
    (h3 : Gen.EXT_ADVANCED_UNITS ∈ G) : evLocalB α G env nb ev = true := by
  cases ev <;> simp [evLocalB, h1, h2, h3]

theorem c02lift_evLocalB_modes (h2 : Gen.EXT_INLINE_QUANTITIES ∈ G) (h3 : Gen.EXT_ADVANCED_UNITS ∈ G)
    (h : evNoBracket env.cs ev = true) : evLocalB α G env nb ev = true := by
  cases ev <;> simp_all [evLocalB, evNoBracket]

theorem c02lift_evLocalB_inline (h1 : Gen.EXT_MODES ∈ G) (h3 : Gen.EXT_ADVANCED_UNITS ∈ G)
    (h : inlineEvCore α env ev = true) : evLocalB α G env nb ev = true := by
  cases ev <;> simp_all [evLocalB, inlineEvCore]

theorem c02lift_evLocalB_adv (h1 : Gen.EXT_MODES ∈ G) (h2 : Gen.EXT_INLINE_QUANTITIES ∈ G)
    (h : advEvCore env nb ev = true) : evLocalB α G env nb ev = true := by
  cases ev <;> simp_all [evLocalB, advEvCore]
  rcases h with (h | h) | h
  · exact Or.inl (Or.inl (Or.inr h))
  · exact Or.inl (Or.inr h)
  · exact Or.inr h

end clauses

/-- an event list satisfies the clauses as soon as every event does (with `nb` computed from the list) -/
theorem c02lift_evsLocalB_of (G : List Nat) (env : Env) (evs : List (Ev α))
    (h : ∀ ev ∈ evs, evLocalB α G env (evs.all (evNoBracket env.cs)) ev = true) : evsLocalB α G env evs = true := by
  unfold evsLocalB
  rw [List.all_eq_true]
  exact h

/-! ### `Extensions::empty()` -/

/-- the flags that are off in `e` -/
def offFlags (e : Ext) : List Nat := allFlags.filter (fun g => !e.has g)

theorem c02lift_empty_has : ∀ g ∈ allFlags, (⟨0⟩ : Ext).has g = false := by decide

theorem c02lift_agree_off (e : Ext) : AgreeOn (offFlags e) ⟨0⟩ e := by
  intro g hg
  unfold offFlags at hg
  rw [List.mem_filter] at hg
  rw [c02lift_empty_has g hg.1]
  have := hg.2
  simp only [Bool.not_eq_true'] at this
  exact this.symm

theorem c02lift_agree_single (f : Nat) (hf : f ∈ allFlags) (e : Ext) (hoff : e.has f = false) :
    AgreeOn [f] ⟨0⟩ e := by
  intro g hg
  simp only [List.mem_singleton] at hg
  subst hg
  rw [c02lift_empty_has g hf, hoff]

/-- `bitflags`: INTERMEDIATE_PREPARATIONS contains the COMPONENT_MODIFIERS bit -/
theorem c02lift_inter_implies_mods (e : Ext) (h : e.has Gen.EXT_INTERMEDIATE_PREPARATIONS = true) :
    e.has Gen.EXT_COMPONENT_MODIFIERS = true := by
  unfold Ext.has at *
  simp only [beq_iff_eq] at *
  have h2 : Gen.EXT_COMPONENT_MODIFIERS = Gen.EXT_INTERMEDIATE_PREPARATIONS &&& Gen.EXT_COMPONENT_MODIFIERS := by decide
  rw [h2, ← Nat.and_assoc, h]

theorem c02lift_agree_mods (e : Ext) (hoff : e.has Gen.EXT_COMPONENT_MODIFIERS = false) :
    AgreeOn [Gen.EXT_COMPONENT_MODIFIERS, Gen.EXT_INTERMEDIATE_PREPARATIONS] ⟨0⟩ e := by
  have hi : e.has Gen.EXT_INTERMEDIATE_PREPARATIONS = false := by
    cases h : e.has Gen.EXT_INTERMEDIATE_PREPARATIONS with
    | false => rfl
    | true => rw [c02lift_inter_implies_mods e h] at hoff; cases hoff
  intro g hg
  simp only [List.mem_cons, List.mem_nil_iff, or_false] at hg
  rcases hg with rfl | rfl
  · rw [hoff]; rfl
  · rw [hi]; rfl

end Cook
