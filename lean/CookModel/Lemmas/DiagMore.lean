import CookModel.Lemmas.DiagComp
/-
  More diagnostics of the component parsers (C07, completeness in isolation and the quiet direction):
  duplicate modifier, recipe modifier on cookware, alias errors, intermediate-reference data on
  cookware, the syntax errors of the intermediate-reference data, empty value.

  `Pushed l s s'`: the tables and extensions are unchanged and the new events are EXACTLY `l`.
-/
set_option linter.unusedSectionVars false
set_option linter.unusedSimpArgs false
set_option linter.unusedVariables false
namespace Cook

variable {α : Type} [Arith α]

/-- `s'` has the tables and extensions of `s`, and its queue is the queue of `s` followed by exactly `l` -/
def Pushed (l : List (Ev α)) (s s' : BP α) : Prop :=
  s'.cs = s.cs ∧ s'.ext = s.ext ∧ s'.evs.toList = s.evs.toList ++ l

theorem Pushed.refl (s : BP α) : Pushed [] s s := ⟨rfl, rfl, by simp⟩
theorem Same.pushed {a b : BP α} (h : Same a b) : Pushed [] a b := ⟨h.1, h.2.1, by rw [h.2.2]; simp⟩
theorem Pushed.same {a b : BP α} (h : Pushed [] a b) : Same a b :=
  ⟨h.1, h.2.1, by have := h.2.2; simp only [List.append_nil] at this; exact Array.ext' this⟩
theorem Pushed.trans {l1 l2 : List (Ev α)} {a b c : BP α} (h1 : Pushed l1 a b) (h2 : Pushed l2 b c) :
    Pushed (l1 ++ l2) a c :=
  ⟨h2.1.trans h1.1, h2.2.1.trans h1.2.1, by rw [h2.2.2, h1.2.2, List.append_assoc]⟩
theorem Pushed.grow {l : List (Ev α)} {a b : BP α} (h : Pushed l a b) : Grow a b := ⟨h.1, h.2.1, l, h.2.2⟩
theorem Pushed.has {l : List (Ev α)} {a b : BP α} (h : Pushed l a b) {ev : Ev α} (hm : ev ∈ l) : Has ev a b :=
  ⟨l, h.2.2, hm⟩
theorem Pushed.one (s : BP α) (ev : Ev α) : Pushed [ev] s { s with evs := s.evs.push ev } :=
  ⟨rfl, rfl, by simp⟩
theorem Pushed.cast {l1 l2 : List (Ev α)} {a b : BP α} (h : Pushed l1 a b) (e : l1 = l2) : Pushed l2 a b := e ▸ h

/-! ### modifiers made of plain modifier tokens (`@ & ? + -`, no parenthesised data) -/

/-- every token is one of `@ & ? + -` -/
def SimpleMods (mtoks : List Tok) : Prop := ∀ t ∈ mtoks, (modifierFlag t.kind).isSome = true

def dupModEv (span : Span) : Ev α := .error ⟨.error, .parse, "duplicate-modifier", [span]⟩

/-- the flags `parse_modifiers` accumulates, and how many tokens repeat a flag that is already set -/
def foldMods (m : Modifiers) : List Tok → Modifiers × Nat
  | [] => (m, 0)
  | t :: r =>
    let f := (modifierFlag t.kind).getD 0
    if (decide (f ≠ 0) && m.contains f) = true then ((foldMods m r).1, (foldMods m r).2 + 1)
    else foldMods (m.insert f) r

theorem parseInterRef_simple (toks : List Tok) (hs : SimpleMods toks) (s : BP α) :
    parseInterRef (α := α) toks s = ((none, toks), s) := by
  unfold parseInterRef
  cases toks with
  | nil => rfl
  | cons t0 r =>
    have h0 : (t0.kind != .openParen) = true := by
      have := hs t0 (by simp)
      cases hk : t0.kind <;> rw [hk] at this <;> first | rfl | (exfalso; revert this; decide)
    simp only [h0, if_true]
    rfl

theorem SimpleMods.tail {t : Tok} {r : List Tok} (h : SimpleMods (t :: r)) : SimpleMods r :=
  fun x hx => h x (List.mem_cons_of_mem _ hx)

/-- the loop of `parse_modifiers` on plain modifier tokens: the flags, no intermediate data, and one
    `duplicate-modifier` error per repeated flag, nothing else -/
theorem parseModifiersLoop_simple (span : Span) (ie : Bool) (fuel : Nat) (mtoks : List Tok) (m : Modifiers)
    (d : Option (Loc InterData)) (s : BP α) (hs : SimpleMods mtoks) (hf : mtoks.length ≤ fuel) :
    Sat (parseModifiersLoop (α := α) span ie fuel mtoks m d) s (fun r s' =>
      r.1 = (foldMods m mtoks).1 ∧ (d = none → r.2 = none) ∧
      Pushed (List.replicate (foldMods m mtoks).2 (dupModEv span)) s s') := by
  induction fuel generalizing mtoks m d s with
  | zero =>
    have : mtoks = [] := List.eq_nil_of_length_eq_zero (by omega)
    subst this
    unfold parseModifiersLoop
    exact Sat.pure ⟨rfl, fun h => h, Pushed.refl _⟩
  | succ fuel ih =>
    cases mtoks with
    | nil =>
      unfold parseModifiersLoop
      exact Sat.pure ⟨rfl, fun h => h, Pushed.refl _⟩
    | cons tok rest =>
      unfold parseModifiersLoop
      obtain ⟨f, hfl⟩ := Option.isSome_iff_exists.mp (hs tok (by simp))
      have hrest := hs.tail
      have hlen : rest.length ≤ fuel := by simp only [List.length_cons] at hf; omega
      simp only [hfl]
      refine Sat.bind (Sat.pure ?_)
      have tail : ∀ (d' : Option (Loc InterData)), (d = none → d' = none) →
          Sat (if (decide (f ≠ 0) && m.contains f) = true then do
                perr "duplicate-modifier" [span]
                parseModifiersLoop (α := α) span ie fuel rest m d'
              else parseModifiersLoop span ie fuel rest (m.insert f) d') s
            (fun r s' => r.1 = (foldMods m (tok :: rest)).1 ∧ (d = none → r.2 = none) ∧
              Pushed (List.replicate (foldMods m (tok :: rest)).2 (dupModEv span)) s s') := by
        intro d' hd'
        have hfm : (modifierFlag tok.kind).getD 0 = f := by rw [hfl]; rfl
        split
        · rename_i hc
          refine Sat.bind (Sat.perrE ?_)
          refine Sat.mono (ih rest m d' _ hrest hlen) ?_
          rintro r s2 ⟨h1, h2, h3⟩
          have e : foldMods m (tok :: rest) = ((foldMods m rest).1, (foldMods m rest).2 + 1) := by
            show (if _ then _ else _) = _
            rw [hfm, if_pos hc]
          rw [e]
          refine ⟨h1, fun h0 => h2 (hd' h0), ?_⟩
          exact ((Pushed.one s (dupModEv span)).trans h3).cast (by simp [List.replicate_succ])
        · rename_i hc
          refine Sat.mono (ih rest (m.insert f) d' s hrest hlen) ?_
          rintro r s2 ⟨h1, h2, h3⟩
          have e : foldMods m (tok :: rest) = foldMods (m.insert f) rest := by
            show (if _ then _ else _) = _
            rw [hfm, if_neg hc]
          rw [e]
          exact ⟨h1, fun h0 => h2 (hd' h0), h3⟩
      try dsimp only
      split
      · refine Sat.bind ?_
        unfold Sat
        rw [parseInterRef_simple rest hrest s]
        exact tail none (fun _ => rfl)
      · exact tail d (fun h => h)

def simpleFlags (mtoks : List Tok) (pos : Nat) : Loc Modifiers :=
  if mtoks.isEmpty then ⟨Modifiers.empty, Span.pos pos⟩ else ⟨(foldMods Modifiers.empty mtoks).1, tokensSpan mtoks⟩

/-- `parse_modifiers` on plain modifier tokens -/
theorem parseModifiers_simple (mtoks : List Tok) (pos : Nat) (s : BP α) (hs : SimpleMods mtoks) :
    Sat (parseModifiers (α := α) mtoks pos) s (fun r s' =>
      r = ⟨simpleFlags mtoks pos, none⟩ ∧
      Pushed (List.replicate (foldMods Modifiers.empty mtoks).2 (dupModEv (tokensSpan mtoks))) s s') := by
  unfold parseModifiers simpleFlags
  split
  · rename_i he
    have : mtoks = [] := by cases mtoks <;> simp_all
    subst this
    exact Sat.pure ⟨rfl, Pushed.refl _⟩
  · dsimp only
    refine Sat.bind (Sat.hasExt ?_)
    refine Sat.bind (Sat.mono (parseModifiersLoop_simple _ _ _ mtoks _ none s hs (Nat.le_succ _)) ?_)
    rintro r s1 ⟨h1, h2, h3⟩
    refine Sat.pure ⟨?_, h3⟩
    rw [h1, h2 rfl]

/-! ### bits: the accumulated flags stay below 32, and what `insert` does to `contains` -/

def flagList : List Nat := [1, 2, 4, 8, 16]

theorem modifierFlag_mem {k : TK} {f : Nat} (h : modifierFlag k = some f) : f ∈ flagList := by
  unfold modifierFlag at h
  repeat (first | (split at h; (simp only [Option.some.injEq] at h; subst h; decide)) | cases h)

theorem bits_or_lt : ∀ b, b < 32 → ∀ f ∈ flagList, (b ||| f) < 32 := by decide

theorem bits_contains_insert : ∀ b, b < 32 → ∀ f ∈ flagList, ∀ g ∈ flagList,
    (((b ||| f) &&& g) == g) = (((b &&& g) == g) || (f == g)) := by decide

theorem flag_ne_zero : ∀ f ∈ flagList, f ≠ 0 := by decide

theorem modifierFlag_recipe (k : TK) : modifierFlag k = some Modifiers.RECIPE ↔ k = .at := by
  cases k <;> decide

theorem foldMods_bits (m : Modifiers) (l : List Tok) (hs : SimpleMods l) (hm : m.bits < 32) :
    (foldMods m l).1.bits < 32 := by
  induction l generalizing m with
  | nil => exact hm
  | cons t r ih =>
    obtain ⟨f, hfl⟩ := Option.isSome_iff_exists.mp (hs t (by simp))
    show (if _ then _ else _ : Modifiers × Nat).1.bits < 32
    split
    · exact ih m hs.tail hm
    · refine ih _ hs.tail ?_
      rw [hfl]
      exact bits_or_lt _ hm _ (modifierFlag_mem hfl)

/-- the accumulated flags contain `g` iff they did before or some token carries `g` -/
theorem foldMods_contains (m : Modifiers) (l : List Tok) (hs : SimpleMods l) (hm : m.bits < 32)
    (g : Nat) (hg : g ∈ flagList) :
    (foldMods m l).1.contains g = true ↔ (m.contains g = true ∨ ∃ t ∈ l, modifierFlag t.kind = some g) := by
  induction l generalizing m with
  | nil => simp [foldMods]
  | cons t r ih =>
    obtain ⟨f, hfl⟩ := Option.isSome_iff_exists.mp (hs t (by simp))
    have hfm := modifierFlag_mem hfl
    have e : foldMods m (t :: r) = (if (decide (f ≠ 0) && m.contains f) = true then
        ((foldMods m r).1, (foldMods m r).2 + 1) else foldMods (m.insert f) r) := by
      show (if _ then _ else _) = _
      rw [hfl]; rfl
    rw [e]
    split
    · rename_i hc
      simp only [Bool.and_eq_true, decide_eq_true_eq] at hc
      rw [ih m hs.tail hm]
      constructor
      · rintro (h | ⟨x, hx, hxf⟩)
        · exact Or.inl h
        · exact Or.inr ⟨x, List.mem_cons_of_mem _ hx, hxf⟩
      · rintro (h | ⟨x, hx, hxf⟩)
        · exact Or.inl h
        · simp only [List.mem_cons] at hx
          rcases hx with rfl | hx
          · rw [hfl] at hxf
            simp only [Option.some.injEq] at hxf
            subst hxf
            exact Or.inl hc.2
          · exact Or.inr ⟨x, hx, hxf⟩
    · have hlt : (m.insert f).bits < 32 := bits_or_lt _ hm _ hfm
      rw [ih (m.insert f) hs.tail hlt]
      have hb := bits_contains_insert _ hm f hfm g hg
      have hci : (m.insert f).contains g = (m.contains g || (f == g)) := hb
      rw [hci]
      simp only [Bool.or_eq_true, beq_iff_eq]
      constructor
      · rintro ((h | h) | ⟨x, hx, hxf⟩)
        · exact Or.inl h
        · exact Or.inr ⟨t, by simp, by rw [hfl, h]⟩
        · exact Or.inr ⟨x, List.mem_cons_of_mem _ hx, hxf⟩
      · rintro (h | ⟨x, hx, hxf⟩)
        · exact Or.inl (Or.inl h)
        · simp only [List.mem_cons] at hx
          rcases hx with rfl | hx
          · rw [hfl] at hxf
            simp only [Option.some.injEq] at hxf
            exact Or.inl (Or.inr hxf)
          · exact Or.inr ⟨x, hx, hxf⟩

/-- no flag is repeated iff the flags of the tokens are pairwise different -/
theorem foldMods_dups (m : Modifiers) (l : List Tok) (hs : SimpleMods l) (hm : m.bits < 32) :
    (foldMods m l).2 = 0 ↔
      ((∀ t ∈ l, ∀ f, modifierFlag t.kind = some f → m.contains f = false) ∧
       (l.map (fun t => modifierFlag t.kind)).Nodup) := by
  induction l generalizing m with
  | nil => simp [foldMods]
  | cons t r ih =>
    obtain ⟨f, hfl⟩ := Option.isSome_iff_exists.mp (hs t (by simp))
    have hfm := modifierFlag_mem hfl
    have e : foldMods m (t :: r) = (if (decide (f ≠ 0) && m.contains f) = true then
        ((foldMods m r).1, (foldMods m r).2 + 1) else foldMods (m.insert f) r) := by
      show (if _ then _ else _) = _
      rw [hfl]; rfl
    rw [e]
    split
    · rename_i hc
      simp only [Bool.and_eq_true, decide_eq_true_eq] at hc
      constructor
      · intro h; simp at h
      · rintro ⟨h1, -⟩
        have := h1 t (by simp) f hfl
        rw [hc.2] at this; cases this
    · rename_i hc
      have hcf : m.contains f = false := by
        cases hx : m.contains f
        · rfl
        · exfalso; apply hc; simp [hx, flag_ne_zero f hfm]
      have hlt : (m.insert f).bits < 32 := bits_or_lt _ hm _ hfm
      rw [ih (m.insert f) hs.tail hlt]
      have hci : ∀ g ∈ flagList, (m.insert f).contains g = (m.contains g || (f == g)) :=
        fun g hg => bits_contains_insert _ hm f hfm g hg
      simp only [List.map_cons, List.nodup_cons, List.mem_map, not_exists, not_and]
      constructor
      · rintro ⟨h1, h2⟩
        refine ⟨?_, ?_, h2⟩
        · intro x hx g hxg
          simp only [List.mem_cons] at hx
          rcases hx with rfl | hx
          · rw [hfl] at hxg; simp only [Option.some.injEq] at hxg; subst hxg; exact hcf
          · have := h1 x hx g hxg
            rw [hci g (modifierFlag_mem hxg)] at this
            simp only [Bool.or_eq_false_iff] at this
            exact this.1
        · intro x hx hxf
          have := h1 x hx f (by rw [hxf, hfl])
          rw [hci f hfm] at this
          simp at this
      · rintro ⟨h1, h2, h3⟩
        refine ⟨?_, h3⟩
        intro x hx g hxg
        rw [hci g (modifierFlag_mem hxg)]
        simp only [Bool.or_eq_false_iff, beq_eq_false_iff_ne, ne_eq]
        refine ⟨h1 x (List.mem_cons_of_mem _ hx) g hxg, ?_⟩
        intro hfg
        exact h2 x hx (by rw [hxg, hfl, hfg])

theorem empty_contains_false : ∀ f ∈ flagList, Modifiers.empty.contains f = false := by decide

/-- **duplicate modifier, exactly**: no `duplicate-modifier` iff the modifier tokens are pairwise different -/
theorem foldMods_empty_dups (l : List Tok) (hs : SimpleMods l) :
    (foldMods Modifiers.empty l).2 = 0 ↔ (l.map (fun t => modifierFlag t.kind)).Nodup := by
  rw [foldMods_dups _ _ hs (by decide)]
  constructor
  · exact fun h => h.2
  · intro h
    exact ⟨fun t _ f hf => empty_contains_false f (modifierFlag_mem hf), h⟩

theorem simpleFlags_recipe (mtoks : List Tok) (pos : Nat) (hs : SimpleMods mtoks) :
    (simpleFlags mtoks pos).val.contains Modifiers.RECIPE = true ↔ ∃ t ∈ mtoks, t.kind = .at := by
  unfold simpleFlags
  split
  · rename_i he
    have : mtoks = [] := by cases mtoks <;> simp_all
    subst this
    simp only [List.not_mem_nil, false_and, exists_false, iff_false]
    decide
  · show (foldMods Modifiers.empty mtoks).1.contains Modifiers.RECIPE = true ↔ _
    rw [foldMods_contains _ _ hs (by decide) Modifiers.RECIPE (by decide)]
    constructor
    · rintro (h | ⟨t, ht, hf⟩)
      · exact absurd h (by decide)
      · exact ⟨t, ht, (modifierFlag_recipe _).mp hf⟩
    · rintro ⟨t, ht, hk⟩
      exact Or.inr ⟨t, ht, (modifierFlag_recipe _).mpr hk⟩

/-! ### aliases -/

def aliasSep (toks : List Tok) (i : Nat) : Tok := (toks[i]?).getD dummyTok

/-- the events `parse_alias` pushes when the first `|` of the name tokens is at index `i` -/
def aliasEvs (c : String) (toks : List Tok) (i : Nat) (cs : CharSpec) : List (Ev α) :=
  if (toks.drop (i + 1)).any (fun t => t.kind == .or) then
    [.error ⟨.error, .parse, s!"multiple-aliases:{c}",
      [⟨(aliasSep toks i).start, (((toks.drop (i + 1)).getLast?).getD (aliasSep toks i)).stop⟩]⟩]
  else if (buildText (aliasSep toks i).stop (toks.drop (i + 1))).isTextEmpty cs then
    [.error ⟨.error, .parse, s!"empty-alias:{c}", [⟨(aliasSep toks i).start, (aliasSep toks i).stop⟩]⟩]
  else []

/-- the alias `parse_alias` returns -/
def aliasRes (toks : List Tok) (i : Nat) (cs : CharSpec) : Option Text :=
  if (toks.drop (i + 1)).any (fun t => t.kind == .or) then none
  else if (buildText (aliasSep toks i).stop (toks.drop (i + 1))).isTextEmpty cs then none
  else some (buildText (aliasSep toks i).stop (toks.drop (i + 1)))

/-- `parse_alias` with COMPONENT_ALIAS when the name tokens contain a `|` -/
theorem parseAlias_sep (c : String) (toks : List Tok) (off i : Nat) (s : BP α)
    (he : s.ext.has Gen.EXT_COMPONENT_ALIAS = true)
    (hi : toks.findIdx? (fun t => t.kind == .or) = some i) :
    Sat (parseAlias (α := α) c toks off) s (fun r s' =>
      Pushed (aliasEvs c toks i s.cs) s s' ∧ r = (buildText off (toks.take i), aliasRes toks i s.cs)) := by
  unfold parseAlias
  refine Sat.bind (Sat.hasExt ?_)
  dsimp only
  split
  · rename_i hnone
    rw [he] at hnone
    simp only [if_true] at hnone
    rw [hi] at hnone; cases hnone
  · rename_i j hj
    rw [he] at hj
    simp only [if_true] at hj
    rw [hi] at hj
    simp only [Option.some.injEq] at hj
    subst hj
    refine Sat.bind (Sat.mono (bpText_spec _ _ s) ?_)
    rintro _ s1 ⟨rfl, q1⟩
    refine Sat.bind (Sat.get ?_)
    have hcs : s1.cs = s.cs := q1.1
    apply Sat.bind
    apply Sat.mono (Q := fun r s' => Pushed (aliasEvs c toks i s.cs) s s' ∧ r = aliasRes toks i s.cs)
    · split
      · rename_i hany
        refine Sat.bind (Sat.perrE ?_)
        refine Sat.pure ⟨?_, ?_⟩
        · refine (q1.pushed.trans (Pushed.one _ _)).cast ?_
          simp only [aliasEvs, aliasSep, hany, if_true, List.nil_append]
        · simp only [aliasRes, hany, if_true]
      · rename_i hany
        rw [hcs]
        split
        · rename_i hemp
          refine Sat.bind (Sat.perrE ?_)
          refine Sat.pure ⟨?_, ?_⟩
          · refine (q1.pushed.trans (Pushed.one _ _)).cast ?_
            simp only [aliasEvs, aliasSep, hany, hemp, if_true, if_false, List.nil_append, Bool.false_eq_true]
          · simp only [aliasRes, aliasSep, hany, hemp, if_true, if_false, Bool.false_eq_true]
        · rename_i hemp
          refine Sat.pure ⟨?_, ?_⟩
          · refine q1.pushed.cast ?_
            simp only [aliasEvs, aliasSep, hany, hemp, if_false, Bool.false_eq_true]
          · simp only [aliasRes, aliasSep, hany, hemp, if_false, Bool.false_eq_true]
    · rintro alias s2 ⟨p2, rfl⟩
      refine Sat.bind (Sat.mono (bpText_spec _ _ s2) ?_)
      rintro _ s3 ⟨rfl, q3⟩
      exact Sat.pure ⟨(p2.trans q3.pushed).cast (by simp), rfl⟩

theorem parseAlias_quiet' (c : String) (toks : List Tok) (off : Nat) (s : BP α)
    (ha : s.ext.has Gen.EXT_COMPONENT_ALIAS = false ∨ ∀ t ∈ toks, t.kind ≠ .or) :
    Sat (parseAlias (α := α) c toks off) s (fun r s' => Pushed [] s s' ∧ r = (buildText off toks, none)) :=
  Sat.mono (parseAlias_quiet c toks off s ha) (fun _ _ h => ⟨h.1.pushed, h.2⟩)

/-! ### tails of components without quantity, with plain modifier tokens -/

def dupEvs (mtoks : List Tok) : List (Ev α) :=
  List.replicate (foldMods Modifiers.empty mtoks).2 (dupModEv (tokensSpan mtoks))

/-- an ingredient without quantity whose modifiers are plain modifier tokens and whose name is not
    blank: the tail pushes what `parse_alias` pushes, then one `duplicate-modifier` per repeated
    modifier, and nothing else -/
theorem ingredientTail_noqty (start stop modPos nameOffset : Nat) (mtoks : List Tok) (body : Body)
    (note : Option Text) (s : BP α) (la : List (Ev α)) (nm : Text) (al : Option Text)
    (hA : Sat (parseAlias (α := α) "ingredient" body.name nameOffset) s
      (fun r s' => Pushed la s s' ∧ r = (nm, al)))
    (hn : nm.isTextEmpty s.cs = false) (hq : body.quantity = none) (hs : SimpleMods mtoks) :
    Sat (ingredientTail (α := α) start stop modPos nameOffset mtoks body note) s (fun r s' =>
      Pushed (la ++ dupEvs mtoks) s s' ∧
      r = some (.ingredient ⟨⟨simpleFlags mtoks modPos, none, nm, al, none, note⟩, ⟨start, stop⟩⟩)) := by
  unfold ingredientTail
  refine Sat.bind (Sat.mono hA ?_)
  rintro ⟨name, alias⟩ s5 ⟨p5, heq⟩
  cases heq
  dsimp only
  refine Sat.bind ?_
  unfold checkEmptyName
  refine Sat.bind (Sat.get ?_)
  rw [p5.1, hn]
  simp only [Bool.false_eq_true, if_false]
  refine Sat.pure ?_
  refine Sat.bind (Sat.mono (parseModifiers_simple mtoks modPos s5 hs) ?_)
  rintro pm s6 ⟨rfl, p6⟩
  rw [hq]
  refine Sat.bind (Sat.pure ?_)
  exact Sat.pure ⟨p5.trans p6, rfl⟩

def recipeModEvs (mtoks : List Tok) : List (Ev α) :=
  match mtoks.find? (fun t => t.kind == .at) with
  | some t => [.error ⟨.error, .parse, "cookware-recipe-modifier", [⟨t.start, t.stop⟩]⟩]
  | none => []

/-- the same for a cookware item; a `@` among the modifiers adds `cookware-recipe-modifier`, labelled
    with the first `@` -/
theorem cookwareTail_noqty (start stop modPos nameOffset : Nat) (mtoks : List Tok) (body : Body)
    (note : Option Text) (s : BP α) (la : List (Ev α)) (nm : Text) (al : Option Text)
    (hA : Sat (parseAlias (α := α) "cookware" body.name nameOffset) s
      (fun r s' => Pushed la s s' ∧ r = (nm, al)))
    (hn : nm.isTextEmpty s.cs = false) (hq : body.quantity = none) (hs : SimpleMods mtoks) :
    Sat (cookwareTail (α := α) start stop modPos nameOffset mtoks body note) s (fun r s' =>
      Pushed (la ++ dupEvs mtoks ++ recipeModEvs mtoks) s s' ∧
      r = some (.cookware ⟨⟨simpleFlags mtoks modPos, nm, al, none, note⟩, ⟨start, stop⟩⟩)) := by
  unfold cookwareTail
  refine Sat.bind (Sat.mono hA ?_)
  rintro ⟨name, alias⟩ s5 ⟨p5, heq⟩
  cases heq
  dsimp only
  refine Sat.bind ?_
  unfold checkEmptyName
  refine Sat.bind (Sat.get ?_)
  rw [p5.1, hn]
  simp only [Bool.false_eq_true, if_false]
  refine Sat.pure ?_
  refine Sat.bind ?_
  unfold cookwareQty
  rw [hq]
  refine Sat.pure ?_
  refine Sat.bind (Sat.mono (parseModifiers_simple mtoks modPos s5 hs) ?_)
  rintro pm s6 ⟨rfl, p6⟩
  have hrec := simpleFlags_recipe mtoks modPos hs
  by_cases hcc : (simpleFlags mtoks modPos).val.contains Modifiers.RECIPE = true
  · simp only [hcc, if_true]
    refine Sat.bind (Sat.pure ?_)
    obtain ⟨t, htm, htk⟩ := hrec.mp hcc
    split
    · rename_i t' hfind
      refine Sat.bind (Sat.perrE ?_)
      refine Sat.pure ⟨?_, rfl⟩
      refine ((p5.trans p6).trans (Pushed.one _ _)).cast ?_
      simp only [recipeModEvs, hfind, dupEvs]
    · rename_i hnone
      exfalso
      rw [List.find?_eq_none] at hnone
      exact hnone t htm (by simp [htk])
  · simp only [hcc, if_false, Bool.false_eq_true]
    refine Sat.bind (Sat.pure ?_)
    refine Sat.bind (Sat.pure ?_)
    refine Sat.pure ⟨?_, rfl⟩
    refine (p5.trans p6).cast ?_
    have : mtoks.find? (fun t => t.kind == .at) = none := by
      rw [List.find?_eq_none]
      intro t ht hk
      exact hcc (hrec.mpr ⟨t, ht, by simpa using hk⟩)
    simp only [recipeModEvs, this, dupEvs, List.append_nil]

/-- **intermediate-reference data on cookware**: whenever `parse_modifiers` (run where the tail reaches
    it) returns intermediate data, `inter-ref-not-allowed:cookware` is pushed on the data's span -/
theorem cookwareTail_inter (start stop modPos nameOffset : Nat) (mtoks : List Tok) (body : Body)
    (note : Option Text) (s : BP α) :
    Sat (cookwareTail (α := α) start stop modPos nameOffset mtoks body note) s (fun _ s' =>
      ∃ sq, Grow s sq ∧ ∀ d, (parseModifiers (α := α) mtoks modPos sq).1.inter = some d →
        Has (.error ⟨.error, .parse, "inter-ref-not-allowed:cookware", [d.span]⟩) s s') := by
  unfold cookwareTail
  refine Sat.bind (Sat.mono ((FG.parseAlias _ _ _).sat s) ?_)
  rintro ⟨name, alias⟩ s5 g5
  dsimp only
  refine Sat.bind (Sat.mono ((FG.checkEmptyName _ _).sat s5) ?_)
  rintro _ s6 g6
  have hq : FG (cookwareQty (α := α) body) := by unfold cookwareQty; fg_auto
  refine Sat.bind (Sat.mono (hq.sat s6) ?_)
  rintro q s7 g7
  have g57 := (g5.trans g6).trans g7
  refine Sat.bind (Sat.mono (Sat.and (Sat.run (parseModifiers mtoks modPos) s7) ((FG.parseModifiers _ _).sat s7)) ?_)
  rintro pm s8 ⟨hrun, g8⟩
  have hpm : (parseModifiers (α := α) mtoks modPos s7).1 = pm := by rw [hrun]
  have hfin : FG (α := α) (do
      if pm.flags.val.contains Modifiers.RECIPE then
        match mtoks.find? (fun t => t.kind == .at) with
        | some t => perr "cookware-recipe-modifier" [⟨t.start, t.stop⟩]
        | none => panicWith "no recipe token in modifiers with recipe"
      return some (Ev.cookware ⟨⟨pm.flags, name, alias, q, note⟩, ⟨start, stop⟩⟩)) := by
    by_cases hc : pm.flags.val.contains Modifiers.RECIPE = true
    · simp only [hc, if_true]
      split <;> fg_auto
    · simp only [hc, if_false, Bool.false_eq_true]
      fg_auto
  cases hd : pm.inter with
  | some d =>
    simp only [hd]
    refine Sat.bind (Sat.perrE ?_)
    refine Sat.mono (hfin.sat _) ?_
    intro r s' g
    refine ⟨s7, g57, ?_⟩
    intro d' hd'
    rw [hpm, hd] at hd'
    cases hd'
    exact ((Has.push _ _).left g).right (g57.trans g8)
  | none =>
    simp only [hd]
    refine Sat.bind (Sat.pure ?_)
    refine Sat.mono (hfin.sat _) ?_
    intro r s' g
    refine ⟨s7, g57, ?_⟩
    intro d' hd'
    rw [hpm, hd] at hd'
    cases hd'

/-! ### the flag determines the token kind -/

theorem modifierFlag_one (k : TK) : modifierFlag k = some 1 ↔ k = .at := by cases k <;> decide
theorem modifierFlag_two (k : TK) : modifierFlag k = some 2 ↔ k = .and := by cases k <;> decide
theorem modifierFlag_four (k : TK) : modifierFlag k = some 4 ↔ k = .minus := by cases k <;> decide
theorem modifierFlag_eight (k : TK) : modifierFlag k = some 8 ↔ k = .question := by cases k <;> decide
theorem modifierFlag_sixteen (k : TK) : modifierFlag k = some 16 ↔ k = .plus := by cases k <;> decide

theorem modifierFlag_inj {k k' : TK} {f : Nat} (h : modifierFlag k = some f) (h' : modifierFlag k' = some f) :
    k = k' := by
  have hm := modifierFlag_mem h
  simp only [flagList, List.mem_cons, List.not_mem_nil, or_false] at hm
  rcases hm with rfl | rfl | rfl | rfl | rfl
  · exact ((modifierFlag_one k).mp h).trans ((modifierFlag_one k').mp h').symm
  · exact ((modifierFlag_two k).mp h).trans ((modifierFlag_two k').mp h').symm
  · exact ((modifierFlag_four k).mp h).trans ((modifierFlag_four k').mp h').symm
  · exact ((modifierFlag_eight k).mp h).trans ((modifierFlag_eight k').mp h').symm
  · exact ((modifierFlag_sixteen k).mp h).trans ((modifierFlag_sixteen k').mp h').symm

theorem simpleMods_nodup_iff (l : List Tok) (hs : SimpleMods l) :
    (l.map (fun t => modifierFlag t.kind)).Nodup ↔ (l.map (·.kind)).Nodup := by
  unfold List.Nodup
  rw [List.pairwise_map, List.pairwise_map]
  constructor
  · intro h
    refine h.imp_of_mem ?_
    intro a b _ _ hne hk
    exact hne (by rw [hk])
  · intro h
    refine h.imp_of_mem ?_
    intro a b ha hb hne hf
    obtain ⟨f, hfa⟩ := Option.isSome_iff_exists.mp (hs a ha)
    exact hne (modifierFlag_inj hfa (by rw [← hf]; exact hfa))

/-- **duplicate modifier, exactly**: `parse_modifiers` pushes no `duplicate-modifier` iff the kinds of
    the modifier tokens are pairwise different -/
theorem foldMods_empty_dups_kinds (l : List Tok) (hs : SimpleMods l) :
    (foldMods Modifiers.empty l).2 = 0 ↔ (l.map (·.kind)).Nodup := by
  rw [foldMods_empty_dups l hs, simpleMods_nodup_iff l hs]

end Cook
